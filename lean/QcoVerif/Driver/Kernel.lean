import QcoVerif.Model.Kernel
import QcoVerif.Model.KernelCircuit
/-
  Stateless driver module `kernel`: `handle args` answers one line.

  Lists are comma separated, the empty list is `-`; booleans are `0`/`1`; a state key is `0`/`1`/`2`.
  An experiment is described by  `<rounds> <heralded> <qutrit> <data ids> <ancilla ids> <repetitions>`  (= EXP).

    kernel exp EXP summary              → `start stop cycle length spans=s:e,s:e,…`   | `IndexError`
    kernel exp EXP her  <qubit> <count> → rows `[a,b][c,d]…` (one bracket per repetition) | `none` (count not found)
    kernel exp EXP sp   <qubit> <count> → same, stabilizer + projected
    kernel exp EXP proj <qubit> <count> → same, projected only
    kernel exp EXP pcal <qubit> <state> → `[a,b,…]` | `ValueError` (0 repetitions)
    kernel exp EXP hcal <qubit> <state> → same, heralded calibration acquisitions
    kernel exp EXP kern <i> <qubit>     → `her=[..] stab=[..] final=[..] contains=[..] start stop length` of the i-th
                                           RepetitionIndexKernel | `IndexError`
    kernel exp EXP cal  <qubit>         → `h0=[..] h1=[..] h2=[..] s0=[..] s1=[..] s2=[..] contains=[..] start stop length`
    kernel exp EXP all  <qubits> <counts> → every getter above for every listed qubit and count, `;`-separated
                                           (the order is fixed by `allAnswers` below and mirrored in harness/c12.py)
    kernel est <rounds> <heralded> <qutrit> <dataset size> → `value n` | `AssertionError` | `IndexError` | `inexact`
    kernel tags <rounds>                → per-ancilla tag sequence of the multi-round circuit: `h`,`p`,`f` letters
    kernel tagidx <rounds> <tag>        → positions of the tag (`heralded`/`parity`/`final`) in that sequence, `[..]`
    kernel circ <rounds> <role>         → role `anc`|`data`: `n=<count> heralded=[..] parity=[..] final=[..]`
  Anything else: `bad-op`.
-/
namespace Qco.Driver.Kernel

open Qco.Kernel

def parseNats (s : String) : Option (List Nat) :=
  if s == "-" then some [] else (s.splitOn ",").mapM (fun t => t.toNat?)

def parseBool (s : String) : Option Bool :=
  match s with | "0" => some false | "1" => some true | _ => none

def parseState (s : String) : Option StateKey :=
  match s with | "0" => some .s0 | "1" => some .s1 | "2" => some .s2 | _ => none

def showRow (l : List Int) : String := "[" ++ ",".intercalate (l.map toString) ++ "]"

def showRows : Option (List (List Int)) → String
  | none => "none"
  | some [] => "none"      -- 0 repetitions: `np.asarray([])`, the same empty 1-d array as "not found"
  | some rows => String.join (rows.map showRow)

def showFlat (K : ExpKernel) (l : List Int) : String :=
  if K.calRaises then "ValueError" else showRow l

def showSummary (K : ExpKernel) : String :=
  s!"{K.startIndex} {K.stopIndex} {K.cycleLength} {K.kernelLength} spans=" ++
    ",".intercalate (K.spans.map (fun p => s!"{p.1}:{p.2}"))

def showKern (K : ExpKernel) (i : Nat) (e : QId) : String :=
  match K.repKernels[i]? with
  | none => "IndexError"
  | some k =>
    s!"her={showRow (k.heraldedIdx e)} stab={showRow (k.stabIdx e)} final={showRow (k.finalIdx e)} " ++
    s!"contains={showRow (k.contains e)} {k.startIndex} {k.stopIndex} {k.kernelLength}"

def showCal (K : ExpKernel) (e : QId) : String :=
  let c := K.calKernel
  s!"h0={showRow (c.heralded0 e)} h1={showRow (c.heralded1 e)} h2={showRow (c.heralded2 e)} " ++
  s!"s0={showRow (c.state0 e)} s1={showRow (c.state1 e)} s2={showRow (c.state2 e)} " ++
  s!"contains={showRow (c.contains e)} {c.startIndex} {c.stopIndex} {c.kernelLength}"

def allStates : List StateKey := [.s0, .s1, .s2]

/-- every getter, for every qubit and every count; mirrored by `impl_all` in harness/c12.py -/
def allAnswers (K : ExpKernel) (qs counts : List Nat) : String :=
  let perQubit (e : QId) : List String :=
    (counts.map (fun c =>
      s!"her {e} {c} " ++ showRows (K.heraldedCycle e c) ++ ";" ++
      s!"sp {e} {c} " ++ showRows (K.stabilizerAndProjectedCycle e c) ++ ";" ++
      s!"proj {e} {c} " ++ showRows (K.projectedCycle e c))) ++
    (allStates.zipIdx.map (fun (s, i) =>
      s!"pcal {e} {i} " ++ showFlat K (K.projectedCalibration e s) ++ ";" ++
      s!"hcal {e} {i} " ++ showFlat K (K.heraldedCalibration e s))) ++
    ((List.range K.repKernels.length).map (fun i => s!"kern {i} {e} " ++ showKern K i e)) ++
    [s!"cal {e} " ++ showCal K e]
  ";".intercalate (("summary " ++ showSummary K) :: (qs.map perQubit).flatten)

def handleExp (K : ExpKernel) : List String → String
  | ["summary"] => showSummary K
  | ["her", q, c] =>
    match q.toNat?, c.toNat? with
    | some e, some n => showRows (K.heraldedCycle e n) | _, _ => "bad-op"
  | ["sp", q, c] =>
    match q.toNat?, c.toNat? with
    | some e, some n => showRows (K.stabilizerAndProjectedCycle e n) | _, _ => "bad-op"
  | ["proj", q, c] =>
    match q.toNat?, c.toNat? with
    | some e, some n => showRows (K.projectedCycle e n) | _, _ => "bad-op"
  | ["pcal", q, s] =>
    match q.toNat?, parseState s with
    | some e, some st => showFlat K (K.projectedCalibration e st) | _, _ => "bad-op"
  | ["hcal", q, s] =>
    match q.toNat?, parseState s with
    | some e, some st => showFlat K (K.heraldedCalibration e st) | _, _ => "bad-op"
  | ["kern", i, q] =>
    match i.toNat?, q.toNat? with
    | some n, some e => showKern K n e | _, _ => "bad-op"
  | ["cal", q] =>
    match q.toNat? with
    | some e => showCal K e | none => "bad-op"
  | ["all", qs, cs] =>
    match parseNats qs, parseNats cs with
    | some ql, some cl => allAnswers K ql cl | _, _ => "bad-op"
  | _ => "bad-op"

def showEstimate : Estimate → String
  | .value n => s!"value {n}"
  | .assertionError => "AssertionError"
  | .indexError => "IndexError"
  | .inexact => "inexact"

def parseTag (s : String) : Option Circuit.Tag :=
  match s with
  | "heralded" => some .heralded | "parity" => some .parity | "final" => some .final | _ => none

def tagLetter : Circuit.Tag → String
  | .heralded => "h" | .parity => "p" | .final => "f"

def showNats (l : List Nat) : String := "[" ++ ",".intercalate (l.map toString) ++ "]"

def handle (args : List String) : String :=
  match args with
  | "exp" :: rounds :: h :: q :: data :: anc :: reps :: query =>
    match parseNats rounds, parseBool h, parseBool q, parseNats data, parseNats anc, reps.toNat? with
    | some rs, some hb, some qb, some dl, some al, some n =>
      match ExpKernel.new? rs hb qb dl al n with
      | none => "IndexError"
      | some K => handleExp K query
    | _, _, _, _, _, _ => "bad-op"
  | ["est", rounds, h, q, dataset] =>
    match parseNats rounds, parseBool h, parseBool q, dataset.toNat? with
    | some rs, some hb, some qb, some d => showEstimate (estimate rs hb qb d)
    | _, _, _, _ => "bad-op"
  | ["tags", rounds] =>
    match parseNats rounds with
    | some rs => String.join ((Circuit.ancillaTags rs).map tagLetter)
    | none => "bad-op"
  | ["tagidx", rounds, tag] =>
    match parseNats rounds, parseTag tag with
    | some rs, some t => showNats (Circuit.positions t (Circuit.ancillaTags rs))
    | _, _ => "bad-op"
  | ["circ", rounds, role] =>
    match parseNats rounds, role with
    | some rs, "anc" =>
      let s := Circuit.ancillaTags rs
      s!"n={s.length} heralded={showNats (Circuit.positions .heralded s)} " ++
      s!"parity={showNats (Circuit.positions .parity s)} final={showNats (Circuit.positions .final s)}"
    | some rs, "data" =>
      let s := Circuit.dataTags rs
      s!"n={s.length} heralded={showNats (Circuit.positions .heralded s)} " ++
      s!"parity={showNats (Circuit.positions .parity s)} final={showNats (Circuit.positions .final s)}"
    | _, _ => "bad-op"
  | _ => "bad-op"

end Qco.Driver.Kernel
