import QcoVerif.Generated.PySrc
/-
  Bridge between model values and mini-Python values, and the `py_simp` tactic that runs the interpreter of
  Model/PyLang.lean symbolically on a (closed) translated function.  Core Lean only.
-/
namespace Qco.Py

/-- a list of integers as a Python list. -/
def ints (l : List Int) : Val := .list (l.map .int)
/-- natural numbers (qubit identifiers, counts) as Python ints. -/
def nats (l : List Nat) : Val := .list (l.map (fun (n : Nat) => Val.int n))

@[simp] theorem val_beq_eq (a b : Val) : (a == b) = Val.beq a b := rfl

@[simp] theorem memVal_nats (l : List Nat) (e : Nat) :
    memVal (Val.int e) (l.map (fun (n : Nat) => Val.int n)) = decide (e ∈ l) := by
  unfold memVal
  induction l with
  | nil => rfl
  | cons a as ih =>
    rw [List.map_cons, List.any_cons, ih]
    show (Val.beq (Val.int a) (Val.int e) || decide (e ∈ as)) = decide (e ∈ a :: as)
    unfold Val.beq
    by_cases h : a = e
    · subst h; simp
    · have h1 : ¬ ((a : Int) = (e : Int)) := by omega
      have h2 : ¬ (e = a) := fun h' => h h'.symm
      simp [h1, h2]

@[simp] theorem natCast_beq (a b : Nat) : ((a : Int) == (b : Int)) = (a == b) := by
  by_cases h : a = b
  · subst h; simp
  · have h1 : ¬ ((a : Int) = (b : Int)) := by omega
    have e1 : ((a : Int) == (b : Int)) = false := by simpa using h1
    have e2 : (a == b) = false := by simpa using h
    rw [e1, e2]

@[simp] theorem natCast_beq_zero (a : Nat) : ((a : Int) == 0) = (a == 0) := natCast_beq a 0
@[simp] theorem natCast_beq_one (a : Nat) : ((a : Int) == 1) = (a == 1) := natCast_beq a 1

@[simp] theorem intsOf_ints (l : List Int) : intsOf? (l.map Val.int) = some l := by
  induction l with
  | nil => rfl
  | cons a as ih => simp [intsOf?, Val.asInt?, ih]

theorem intsOf_append (xs ys : List Val) :
    intsOf? (xs ++ ys) = (match intsOf? xs, intsOf? ys with | some a, some b => some (a ++ b) | _, _ => Option.none) := by
  induction xs with
  | nil => cases h : intsOf? ys <;> simp [intsOf?, h]
  | cons v vs ih =>
    simp only [List.cons_append, intsOf?, ih]
    cases v.asInt? <;> cases intsOf? vs <;> cases intsOf? ys <;> simp

@[simp] theorem intsOf_ints_append (a : List Int) (ys : List Val) :
    intsOf? (a.map Val.int ++ ys) = (intsOf? ys).map (fun b => a ++ b) := by
  rw [intsOf_append, intsOf_ints]
  cases intsOf? ys <;> rfl

theorem rangeVals_eq (a : Int) (n : Nat) : rangeVals a (a + n) = (List.range n).map (fun (i : Nat) => Val.int (a + i)) := by
  unfold rangeVals
  have : (a + (n : Int) - a).toNat = n := by omega
  rw [this]

/-- a `for` statement at the head of a block: the loop, then the rest. -/
theorem execBlock_for (env : Env) (vs : Vars) (x : String) (iter : Expr) (body rest : List Stmt) (vals : List Val)
    (h : (eval env vs iter).elems? = some vals) :
    execBlock env vs (.for_ x iter body :: rest) =
      (match forLoop (fun vs' v => execBlock env (vs'.set x v) body) vals vs with
       | .cont vs' => execBlock env vs' rest
       | o => o) := by
  simp only [execBlock, exec, h]
  cases forLoop (fun vs' v => execBlock env (vs'.set x v) body) vals vs <;> rfl

/-- the symbolic-evaluation simp set: unfolds the interpreter on closed syntax. -/
syntax "py_simp" (" [" Lean.Parser.Tactic.simpLemma,* "]")? : tactic
macro_rules
  | `(tactic| py_simp) => `(tactic| simp [callFn, execBlock, exec, eval, evalList, bindParams, bindTuple, Vars.set, Vars.get,
      getAttr, lookupField, evalBin, evalCmp, Val.asInt?, Val.truthy, Val.elems?, Val.isErr, intBin, builtin, intsOf?,
      maxInts, minInts, minMaxInf, indexVal, forLoop, ints, nats, Val.beq, Val.beqList])
  | `(tactic| py_simp [$ls,*]) => `(tactic| simp [callFn, execBlock, exec, eval, evalList, bindParams, bindTuple, Vars.set, Vars.get,
      getAttr, lookupField, evalBin, evalCmp, Val.asInt?, Val.truthy, Val.elems?, Val.isErr, intBin, builtin, intsOf?,
      maxInts, minInts, minMaxInf, indexVal, forLoop, ints, nats, Val.beq, Val.beqList, $ls,*])

end Qco.Py
