/-
  Object-heap model of `qce_circuit`'s builder: basic data.
  Core Lean only (no Mathlib) so that the driver links as a native executable.

  Times are `Int` in units of 1/8 (all library durations are dyadic and the harness draws multiples of
  1/4, so the single halving in the decoupling wait stays integral; see DESIGN.md §1).
-/
namespace Qco

/-- `QubitChannel` of `intrf_circuit_operation.py`. -/
inductive Chan | ro | mw | fl | all
  deriving DecidableEq, Repr, Inhabited, Hashable

/-- `ChannelIdentifier` (qubit index, channel). -/
structure ChId where
  q : Int
  c : Chan
  deriving DecidableEq, Repr, Inhabited, Hashable

/-- `ChannelIdentifier.__eq__`: same qubit and (same channel or one side `ALL`). -/
def ChId.matches (a b : ChId) : Bool :=
  a.q == b.q && (a.c == b.c || a.c == .all || b.c == .all)

/-- `RelationType`. -/
inductive Rel | fb | js | je
  deriving DecidableEq, Repr, Inhabited, Hashable

/-- `GlobalRegistryKey`. -/
inductive GKey | ro | mw | fl | rs
  deriving DecidableEq, Repr, Inhabited, Hashable

/-- Duration strategies (`registry_duration.py`, `GlobalDecouplingWaitDurationStrategy`). -/
inductive Dur
  | fixed (d : Int)
  | glob (k : GKey)
  | reg (key : Nat)
  | decoupling
  deriving DecidableEq, Repr, Inhabited, Hashable

/-- Repetition strategies (`registry_repetition.py`). -/
inductive Rep
  | fixed (n : Nat)
  | reg (key : Nat)
  deriving DecidableEq, Repr, Inhabited, Hashable

/-- The 26 leaf operation classes plus the composite. -/
inductive Cls
  | single | reset | wait | identity | hadamard | rx180 | rx90 | rxm90 | ry180 | ry90 | rym90
  | rx180ef | vphase | vpark | rphi90 | two | cphase | twovphase | measure | barrier
  | vacant | twovacant | empty | cshift | detector | observable | comp
  deriving DecidableEq, Repr, Inhabited, Hashable

def Cls.name : Cls → String
  | .single => "SingleQubitOperation" | .reset => "Reset" | .wait => "Wait"
  | .identity => "Identity" | .hadamard => "Hadamard" | .rx180 => "Rx180" | .rx90 => "Rx90"
  | .rxm90 => "Rxm90" | .ry180 => "Ry180" | .ry90 => "Ry90" | .rym90 => "Rym90"
  | .rx180ef => "Rx180ef" | .vphase => "VirtualPhase" | .vpark => "VirtualPark"
  | .rphi90 => "Rphi90" | .two => "TwoQubitOperation" | .cphase => "CPhase"
  | .twovphase => "TwoQubitVirtualPhase" | .measure => "DispersiveMeasure" | .barrier => "Barrier"
  | .vacant => "VirtualVacant" | .twovacant => "VirtualTwoQubitVacant" | .empty => "VirtualEmpty"
  | .cshift => "CoordinateShiftOperation" | .detector => "DetectorOperation"
  | .observable => "LogicalObservableOperation" | .comp => "CircuitCompositeOperation"

def Cls.all : List Cls :=
  [.single, .reset, .wait, .identity, .hadamard, .rx180, .rx90, .rxm90, .ry180, .ry90, .rym90,
   .rx180ef, .vphase, .vpark, .rphi90, .two, .cphase, .twovphase, .measure, .barrier,
   .vacant, .twovacant, .empty, .cshift, .detector, .observable, .comp]

def Cls.ofName? (s : String) : Option Cls := Cls.all.find? (fun c => c.name == s)

/-- A relation link object. `multi = true` is a `MultiRelationLink` (LATEST). -/
structure Link where
  multi : Bool := false
  refs : List Nat := []
  rel : Rel := .fb
  deriving Repr, Inhabited, DecidableEq

/-- Graph entry: node (operation id), parent node (`none` = under the root) and the path key
    (sibling indices from the root). Entries are stored in insertion order. -/
structure Entry where
  node : Nat
  parent : Option Nat
  key : List Nat
  deriving Repr, Inhabited, DecidableEq

/-- A heap object: leaf operation or composite. -/
structure Op where
  cls : Cls
  qs : List Int := []
  chan : Chan := .all          -- the `qubit_channel` field of Wait / Virtual* classes
  dur : Dur := .fixed 0
  link : Nat := 0
  tag : Nat := 0               -- acquisition tag (harness maps strings to numbers)
  reg : Nat := 0               -- measurement: composite the acquisition registry refers to
  ints : List (Option Int) := []  -- detector / observable / coordinate-shift fields
  rep : Rep := .fixed 1        -- composite: repetition strategy
  graph : List Entry := []     -- composite: relation tree
  deriving Repr, Inhabited

def Op.isComp (o : Op) : Bool := o.cls == .comp

/-- Class default of the duration strategy (the dataclass field default). -/
def Cls.defaultDur : Cls → Dur
  | .single | .wait | .two | .twovphase | .vacant | .twovacant | .empty => .fixed 0
  | .reset => .glob .rs
  | .identity | .hadamard | .rx180 | .rx90 | .rxm90 | .ry180 | .ry90 | .rym90 | .rx180ef
  | .vphase | .rphi90 => .glob .mw
  | .vpark | .cphase => .glob .fl
  | .measure => .glob .ro
  | .barrier => .fixed 4        -- 0.5 in units of 1/8
  | .cshift | .detector | .observable => .fixed 0
  | .comp => .fixed 0

/-- `channel_identifiers` of a leaf operation, per class. -/
def Op.leafChans (o : Op) : List ChId :=
  let q0 := o.qs.headD 0
  let q1 := (o.qs.drop 1).headD 0
  match o.cls with
  | .single | .reset | .detector | .observable => [⟨q0, .all⟩]
  | .wait | .vacant | .empty => [⟨q0, o.chan⟩]
  | .identity | .hadamard | .rx180 | .rx90 | .rxm90 | .ry180 | .ry90 | .rym90 | .rx180ef
  | .vphase | .rphi90 => [⟨q0, .mw⟩]
  | .vpark => [⟨q0, .fl⟩]
  | .two => [⟨q0, .all⟩, ⟨q1, .all⟩]
  | .cphase => [⟨q0, .fl⟩, ⟨q0, .mw⟩, ⟨q1, .fl⟩, ⟨q1, .mw⟩]
  | .twovphase => [⟨q0, .mw⟩, ⟨q1, .mw⟩]
  | .measure => [⟨q0, .ro⟩]
  | .barrier | .cshift => o.qs.map (fun q => ⟨q, .all⟩)
  | .twovacant => [⟨q0, o.chan⟩, ⟨q1, o.chan⟩]
  | .comp => []

/-- The heap. Operation id = index into `ops`, link id = index into `links`.
    Link `0` is the shared default link of `DeclarativeCircuit.__init__` (`L0`). -/
structure World where
  ops : Array Op := #[]
  links : Array Link := #[{}]
  gRo : Int := 16
  gMw : Int := 8
  gFl : Int := 8
  gRs : Int := 16
  dreg : List (Nat × Int) := []
  rreg : List (Nat × Nat) := []
  warnings : Nat := 0
  collisions : Nat := 0   -- value-equal keys overwritten in a copy lookup (diagnostic only, R3)
  undef : Bool := false   -- a build step needed a reference that is undefined (cyclic relation): the code raises RecursionError there
  identKeys : Bool := false   -- diagnostic twin: key the copy lookup by identity (what the code would do without value equality)
  deriving Inhabited

def World.gdur (w : World) : GKey → Int
  | .ro => w.gRo | .mw => w.gMw | .fl => w.gFl | .rs => w.gRs

def World.op (w : World) (i : Nat) : Op := w.ops.getD i default
def World.lnk (w : World) (i : Nat) : Link := w.links.getD i default

def World.newLink (w : World) (l : Link) : World × Nat :=
  ({ w with links := w.links.push l }, w.links.size)

def World.newOp (w : World) (o : Op) : World × Nat :=
  ({ w with ops := w.ops.push o }, w.ops.size)

def World.setOp (w : World) (i : Nat) (o : Op) : World :=
  { w with ops := w.ops.setIfInBounds i o }

def World.setLink (w : World) (i : Nat) (l : Nat) : World :=
  w.setOp i { w.op i with link := l }

def World.setGraph (w : World) (i : Nat) (g : List Entry) : World :=
  w.setOp i { w.op i with graph := g }

/-- `has_relation`: the link names at least one reference. -/
def World.hasRel (w : World) (o : Nat) : Bool := !(w.lnk (w.op o).link).refs.isEmpty

/-- Leaf duration from its strategy under the current settings. -/
def World.leafDur (w : World) (d : Dur) : Int :=
  match d with
  | .fixed x => x
  | .glob k => w.gdur k
  | .reg key => ((w.dreg.find? (·.1 == key)).map (·.2)).getD 0
  | .decoupling => max 0 ((w.gRo - w.gMw) / 2)

/-- Repetition count under the current registry. -/
def World.repCount (w : World) (r : Rep) : Nat :=
  match r with
  | .fixed n => n
  | .reg key => ((w.rreg.find? (·.1 == key)).map (·.2)).getD 1

end Qco
