import QcoVerif.Properties.C18
import QcoVerif.Properties.C05
import QcoVerif.Lemmas.Listing
import QcoVerif.Lemmas.C10Timing
import QcoVerif.Lemmas.CommuteExample
/-
  C03 — answers depend on the circuit, not on what was asked before.

  In the model every observer is a function of the heap (the timing evaluator has no memo that outlives a
  query), so the only way an observation can influence a later answer is through what it WRITES.  Proved:
   * a listing writes nothing but relation links and allocates nothing (`listing_writes_links_only`), listing
     again returns the same sequence (`listing_answer_idempotent`), and on a heap on which a listing has nothing
     left to assign ("settled") it writes nothing at all (`listing_fixed_point`);
   * plotting is exactly one listing on the heap, for any ambient and drawing durations (`plot_is_one_listing`);
   * a copy writes to no existing object or link (`copy_observer_frame`, leaf case);
   * time queries do not write (they are pure functions `World → Option Int`).
  NOT proved, and FALSE of model and code: "a listing before copying/nesting does not change the copy" — the links a
  listing assigns make distinct objects value-equal keys of the copy lookup (known finding R3; the histories are in
  corpus/C03 and known_findings.json).  The full frame statement (every observer commutes with every later mutation
  that performs no value-keyed lookup) is not proved either; the check replays every generated history on the
  implementation with and without its intermediate observations.
  ADDED (last section of this file, helper lemmas in Lemmas/Commute.lean and Lemmas/CommuteSub.lean): on tree-shaped heaps
  a second listing writes nothing (`listing_idempotent_world`), a listing before `add` of a fresh operation or sub-circuit
  object leaves no trace (`listing_then_add`), the same for `add_sub_circuit` of a separate circuit on heaps without group
  links (`listing_then_addSub_partial`), and the R3 witness (`listing_then_copy_R3_witness`).
-/
namespace Qco.C03

open Qco

/-- a listing writes nothing but relation links: objects keep kind, qubits, channel, duration strategy, tag, fields,
    count and graph; no object and no link is allocated; durations and registries are not touched. -/
theorem listing_writes_links_only (w : World) (c : Nat) :
    Shape (w.operations c).1 w ∧ (w.operations c).1.ops.size = w.ops.size ∧ (w.operations c).1.links = w.links :=
  ⟨operations_shape w c, operations_ops_size w c, operations_links w c⟩

/-- listing twice: the second listing answers the same sequence. -/
theorem listing_answer_idempotent (w : World) (c : Nat) :
    ((w.operations c).1.operations c).2 = (w.operations c).2 := operations_twice w c

/-- on a settled heap (every relation-less node already carries its block's link) a listing is the identity on
    the heap. -/
theorem listing_fixed_point (w : World) (c : Nat) (hs : Draw.settled w w.depthFuel c = true) :
    (w.operations c).1 = w := by
  rw [Qco.C18.settled_listing w c hs]

/-- plotting, with any channel order that is accepted, any label map, compact or not, under any ambient durations,
    leaves exactly the heap one listing leaves. -/
theorem plot_is_one_listing (w : World) (c : Nat) (a : Draw.Args) (rows : List Int)
    (h : Draw.reorder (Draw.occupied w c) a.order = some rows) : (Draw.plot w c a).1 = (w.operations c).1 :=
  (Qco.C18.plot_world w c a rows h).1

/-- a rejected plot (a channel in the requested order that the circuit does not occupy) leaves the heap untouched. -/
theorem plot_rejected_is_identity (w : World) (c : Nat) (a : Draw.Args) (x : Int) (hx : x ∈ a.order)
    (hn : x ∉ Draw.occupied w c) : (Draw.plot w c a).1 = w := by
  rw [Qco.C18.plot_reject w c a x hx hn]

/-- copying an operation (as observer) writes to no existing object or link. -/
theorem copy_observer_frame (w : World) (o : Nat) (lk : Lookup) :
    (∀ i, i < w.ops.size → (w.copyLeaf o lk).1.op i = w.op i) ∧
    (∀ i, i < w.links.size → (w.copyLeaf o lk).1.lnk i = w.lnk i) :=
  ⟨(Qco.C05.copyLeaf_frame w o lk).2.1, (Qco.C05.copyLeaf_frame w o lk).2.2⟩

/-- reported times are a function of the heap alone: heaps that agree on objects, links and duration settings get
    the same answers (there is no hidden state such as a process-wide memo — R1 in the pinned code). -/
theorem times_depend_on_heap_only (w w' : World) (ho : w.ops = w'.ops) (hl : w.links = w'.links)
    (h1 : w.gRo = w'.gRo) (h2 : w.gMw = w'.gMw) (h3 : w.gFl = w'.gFl) (h4 : w.gRs = w'.gRs)
    (h5 : w.dreg = w'.dreg) (f o : Nat) :
    evStart w f o = evStart w' f o ∧ evEnd w f o = evEnd w' f o ∧ evDur w f o = evDur w' f o := by
  have key : ∀ f, (∀ o, evLeadSpan w f o = evLeadSpan w' f o) ∧ (∀ o, evInterval w f o = evInterval w' f o) ∧
      (∀ o, evDur w f o = evDur w' f o) ∧ (∀ o, evStart w f o = evStart w' f o) ∧
      (∀ o, evEnd w f o = evEnd w' f o) ∧ (∀ l, evRef w f l = evRef w' f l) := by
    have hop : ∀ i, w.op i = w'.op i := by intro i; simp [World.op, ho]
    have hlk : ∀ i, w.lnk i = w'.lnk i := by intro i; simp [World.lnk, hl]
    have hld : ∀ d, w.leafDur d = w'.leafDur d := by
      intro d
      cases d with
      | fixed x => rfl
      | glob k => cases k <;> simp [World.leafDur, World.gdur, h1, h2, h3, h4]
      | reg key => simp [World.leafDur, h5]
      | decoupling => simp [World.leafDur, h1, h2]
    intro f
    induction f with
    | zero =>
      refine ⟨?_, ?_, ?_, ?_, ?_, ?_⟩ <;> intro o
      · rw [evLeadSpan.eq_1, evLeadSpan.eq_1]
      · rw [evInterval.eq_1, evInterval.eq_1]
      · rw [evDur.eq_1, evDur.eq_1]
      · rw [evStart.eq_1, evStart.eq_1]
      · rw [evEnd.eq_1, evEnd.eq_1]
      · rw [evRef.eq_1, evRef.eq_1]
    | succ f ih =>
      obtain ⟨i1, i2, i3, i4, i5, i6⟩ := ih
      have e4 : (fun n => evStart w f n) = (fun n => evStart w' f n) := funext i4
      have e2 : (fun n => evInterval w f n) = (fun n => evInterval w' f n) := funext i2
      have e5 : (fun r => (evEnd w f r).map (fun e => (r, e))) = (fun r => (evEnd w' f r).map (fun e => (r, e))) :=
        funext (fun r => by rw [i5 r])
      refine ⟨?_, ?_, ?_, ?_, ?_, ?_⟩ <;> intro o
      · rw [evLeadSpan.eq_2, evLeadSpan.eq_2, hop o, e4, e2, hld]
      · rw [evInterval.eq_2, evInterval.eq_2, i4 o, i1 o]
      · rw [evDur.eq_2, evDur.eq_2, i1 o]
      · rw [Qco.C10.evStart_succ, Qco.C10.evStart_succ, i3 o, hop o, i6, hlk]
        congr 1; funext d; congr 1; funext r
        cases r with
        | none => rfl
        | some r => simp only [i4 r, i5 r]
      · rw [evEnd.eq_2, evEnd.eq_2, i4 o, i3 o]
      · rw [evRef.eq_2, evRef.eq_2, hlk o, e5]
        split
        · rfl
        · split
          · rfl
          · rename_i r0 _ _
            simp only [i5 r0]
  exact ⟨(key f).2.2.2.1 o, (key f).2.2.2.2.1 o, (key f).2.2.1 o⟩

/-! ## the listing commutes with `add`; a second listing writes nothing (helper lemmas: Lemmas/Commute.lean)

Hypotheses.  `TreeBelow w f c` (Lemmas/TreeHeap.lean): the heap below `c` is a tree of depth ≤ `f` — every node of every
composite is an object of the heap, no object hangs in two graphs or twice in one, `c` is not below itself.  This is what the
API builds (`C06.fresh_circuit_is_tree`, `add_leaf_keeps_tree`, `add_sub_circuit_keeps_tree`).  `Commute.AddOk w f c o` adds:
`f` is within the fuel of the driver; `c` is a composite whose relation tree was built by `attach` (`Built`); every object's
link is an existing link; `o` is a leaf operation or a whole sub-circuit object none of whose objects (`Commute.cone`: `o` and
what a listing visits below it) is an object of the tree below `c` (constructors `Commute.AddOk.of_leaf`,
`Commute.AddOk.of_tree`); the link of `o` is not a group link (`refOf` of a group link evaluates end times, which DO depend on
handed-down links — this excludes the nodes `extend` adds).

What is false without them: on a cyclic heap a second listing still writes (`listing_idempotent_cyclic_witness`); with a
link id out of range `add` (which allocates a link) changes the meaning of that id — the model-only reason for `range`. -/

/-- the heap a listing of a tree-shaped circuit leaves is settled: every node below `c` has a relation or carries the
    link of its enclosing composite (the hypothesis of `listing_fixed_point` and of `C18.plot_frame_partial`). -/
theorem listing_leaves_settled (w : World) (f c : Nat) (ht : TreeBelow w f c) (hf : f ≤ w.depthFuel)
    (hc : (w.op c).isComp = true) :
    Draw.settled (w.operations c).1 (w.operations c).1.depthFuel c = true := by
  have hfuel : (w.operations c).1.depthFuel = w.depthFuel := by
    unfold World.depthFuel; rw [operations_ops_size]
  rw [hfuel]
  exact Commute.settled_after f w.depthFuel c w ht hf hc

/-- **listing_idempotent_world**: listing a tree-shaped circuit a second time changes NOTHING in the heap (and returns
    the same sequence). -/
theorem listing_idempotent_world (w : World) (f c : Nat) (ht : TreeBelow w f c) (hf : f ≤ w.depthFuel)
    (hc : (w.op c).isComp = true) :
    (w.operations c).1.operations c = ((w.operations c).1, (w.operations c).2) := by
  have h := Qco.C18.settled_listing (w.operations c).1 c (listing_leaves_settled w f c ht hf hc)
  have h2 := operations_twice w c
  rw [h] at h2 ⊢
  simp only at h2
  rw [h2]

/-- … hence after one listing every further observer that lists (plot, acquisition index, export) leaves the heap alone:
    the plot clause that `C18.plot_frame_partial` left open, for tree-shaped circuits. -/
theorem plot_after_listing_is_identity (w : World) (f c : Nat) (ht : TreeBelow w f c) (hf : f ≤ w.depthFuel)
    (hc : (w.op c).isComp = true) (a : Draw.Args) :
    (Draw.plot (w.operations c).1 c a).1 = (w.operations c).1 :=
  Qco.C18.plot_frame_partial _ c a (listing_leaves_settled w f c ht hf hc)

/-- **without the tree hypothesis `listing_idempotent_world` is false**: on the cyclic heap `Commute.exCyc` (five nested
    composites closed to a cycle, one of them carrying a link with a reference) the first listing leaves object `3` with link
    `0`, a second listing of the same circuit assigns link `1` to it. -/
theorem listing_idempotent_cyclic_witness :
    (((Commute.exCyc.operations 0).1.operations 0).1.op 3).link ≠ ((Commute.exCyc.operations 0).1.op 3).link := by
  rw [Commute.exCyc_second_listing_writes.1, Commute.exCyc_second_listing_writes.2]
  decide

/-- `add` after a listing takes the same decision as `add` without it: the same explicit transformation
    (`Commute.addW k G c o`: allocate the link `k` and give it to `o` — or nothing —, count the same warning, make `G` the
    relation tree of `c`) is applied to the two heaps.  In particular the graph of `c`, the object `o`, the links, the
    warning counter and the undefined-flag are the same immediately after the `add`; the two heaps differ exactly in the
    links the first listing handed down. -/
theorem add_after_listing_same_decision (w : World) (f c o : Nat) (H : Commute.AddOk w f c o) :
    ∃ (k : Option (Nat × Bool × Link)) (G : List Entry),
      (w.operations c).1.add c o = Commute.addW k G c o (w.operations c).1 ∧ w.add c o = Commute.addW k G c o w :=
  Commute.add_after_listing w f c o H

/-- … spelled out: immediately after the `add` the two histories have the same links, warning counter and undefined-flag,
    the same composite `c` (same new relation tree) and the same added object `o` (same link). -/
theorem add_after_listing_frame (w : World) (f c o : Nat) (H : Commute.AddOk w f c o) :
    ((w.operations c).1.add c o).links = (w.add c o).links ∧
    ((w.operations c).1.add c o).warnings = (w.add c o).warnings ∧
    ((w.operations c).1.add c o).undef = (w.add c o).undef ∧
    ((w.operations c).1.add c o).op c = (w.add c o).op c ∧
    ((w.operations c).1.add c o).op o = (w.add c o).op o := by
  obtain ⟨k, G, h1, h2⟩ := Commute.add_after_listing w f c o H
  obtain ⟨_, _, _, _, hopX, hopc, _⟩ := Commute.addOk_facts w f c o H
  have hopo : (w.operations c).1.op o = w.op o := hopX o (Commute.self_mem_cone w _ o)
  have hO := Commute.addW_opsOnly k G c o (Commute.decomposed_opsOnly w.depthFuel c w)
  have hsz : (w.operations c).1.ops.size = w.ops.size := operations_ops_size w c
  have hlsz : (w.operations c).1.links.size = w.links.size := by rw [operations_links]
  rw [h1, h2]
  refine ⟨?_, ?_, ?_, Commute.addW_op_congr k G c o hsz hlsz c hopo hopc hopc,
    Commute.addW_op_congr k G c o hsz hlsz o hopo hopc hopo⟩
  · exact hO.links
  · show (Commute.addW k G c o (w.decomposed w.depthFuel c).1).warnings = _
    rw [hO]
  · show (Commute.addW k G c o (w.decomposed w.depthFuel c).1).undef = _
    rw [hO]

/-- **listing_then_add**: listing `c`, adding the fresh object `o` (a leaf operation, or a sub-circuit object as a whole),
    listing again gives the same HEAP and the same sequence as adding `o` and listing once — the intermediate observation
    leaves no trace. -/
theorem listing_then_add (w : World) (f c o : Nat) (H : Commute.AddOk w f c o) :
    ((w.operations c).1.add c o).operations c = (w.add c o).operations c :=
  Commute.listing_then_add w f c o H

/-- the observable answers: same final sequence; every object carries the same link with the same relation type and
    references; every start, end and duration the evaluator reports is the same (for any fuel). -/
theorem listing_then_add_answers (w : World) (f c o : Nat) (H : Commute.AddOk w f c o) :
    (((w.operations c).1.add c o).operations c).2 = ((w.add c o).operations c).2 ∧
    (∀ n, (((w.operations c).1.add c o).operations c).1.lnk
            ((((w.operations c).1.add c o).operations c).1.op n).link =
          ((w.add c o).operations c).1.lnk (((w.add c o).operations c).1.op n).link) ∧
    (∀ g n, evStart (((w.operations c).1.add c o).operations c).1 g n = evStart ((w.add c o).operations c).1 g n ∧
            evEnd (((w.operations c).1.add c o).operations c).1 g n = evEnd ((w.add c o).operations c).1 g n ∧
            evDur (((w.operations c).1.add c o).operations c).1 g n = evDur ((w.add c o).operations c).1 g n) := by
  rw [listing_then_add w f c o H]
  exact ⟨rfl, fun _ => rfl, fun _ _ => ⟨rfl, rfl, rfl⟩⟩

/-- **listing_then_addSub (partial)**.
    Full statement (item 3 of the task): for every heap reachable through the API, listing any circuit before
    `c.add_sub_circuit(sub)` does not change what is observed afterwards, provided no two distinct objects below the copied
    circuit are equal keys of the copy lookup.
    Proved here, for the REAL keys as well as for the identity-keyed twin: on a heap without group links and with all link
    ids in range (`Commute.CInv`), for `c` and `sub` SEPARATE trees (`Commute.SubOk`: no object below `sub` is an object below
    `c`) such that the keys the copy reads for the objects below `sub` — of the reference of each link and of the registry of
    each measurement — are identities (`identKeys = true`) or keys of objects that are not below `c` (`Commute.KeyFree`: `sub`
    does not refer into the tree of `c`), listing `c` first leaves no trace: the same copy is made (same new objects, links
    and identifier — `copyObj` reads no link of an object outside the copied tree, `Commute.copyObj_local`), and after the
    next listing of `c` the heaps AND the sequences are equal.
    Missing: (i) heaps with group links (`refOf` of a group link evaluates end times, which depend on handed-down links);
    (ii) a listing of `sub` itself, or `sub` inside / referring into the tree of `c`: there the heaps are NOT equal even in
    the twin (the copies of the heads carry copies of different link objects) and only the observable answers can agree —
    with the real keys they do not: `listing_then_copy_R3_witness` (there the listed circuit IS the copied one, and the
    registry of the measurement is an object the listing writes to). -/
theorem listing_then_addSub_partial (w : World) (f f' c sub : Nat) (H : Commute.SubOk w f f' c sub) :
    ((w.operations c).1.addSub c sub).2 = (w.addSub c sub).2 ∧
    ((w.operations c).1.addSub c sub).1.operations c = (w.addSub c sub).1.operations c :=
  Commute.listing_then_addSub w f f' c sub H

/-- **listing_then_copy_R3_witness** (known finding R3): WITHOUT a hypothesis that distinct objects below the copied
    circuit are distinct keys of the copy lookup, a listing before nesting changes later answers.  Heap `Commute.exR3`
    (built by `newCircuit / newLink / newOp / add`, `exR3Build_eq`): `c1 ⊃ c2 ⊃ m`, two relation-less nested one-operation
    sub-circuits, the acquisition registry of the measurement `m` is `c2`.  Listing `c1` hands the link of `c1` to `c2`, which
    makes the two composites value-equal; `c0.add_sub_circuit(c1)` then re-targets the registry of the copy of `m` through the
    entry `c1 ↦ c0`: acquisition index `(0, 0)` — without the listing it is `(-1, -1)`.  The listed sequence of `c0` is the
    same.  In the identity-keyed twin (`identKeys := true`) both histories answer `(-1, -1)`. -/
theorem listing_then_copy_R3_witness :
    Commute.exR3Build = Commute.exR3 ∧ Commute.exR3.identKeys = false ∧
    (((Commute.exR3.operations 1).1.addSub 0 1).1.acq 6).2 ≠ ((Commute.exR3.addSub 0 1).1.acq 6).2 ∧
    (((Commute.exR3.operations 1).1.addSub 0 1).1.operations 0).2 = ((Commute.exR3.addSub 0 1).1.operations 0).2 ∧
    (((({ Commute.exR3 with identKeys := true } : World).operations 1).1.addSub 0 1).1.acq 6).2 =
      ((({ Commute.exR3 with identKeys := true } : World).addSub 0 1).1.acq 6).2 := by
  obtain ⟨h1, h2, h3, h4, _, _⟩ := Commute.exR3_indices
  obtain ⟨t1, t2⟩ := Commute.exR3_twin_indices
  refine ⟨Commute.exR3Build_eq, rfl, ?_, by rw [h3, h4], by rw [t1, t2]⟩
  rw [h1, h2]
  decide

/-! ### non-vacuity -/

/-- `TreeBelow` with depth 3 on a heap built by `newCircuit / newOp / add / addSub` (top ⊃ mid ⊃ inner, Lemmas/TreeBuild). -/
example : TreeBelow exG.1 4 exF.2 ∧ 4 ≤ exG.1.depthFuel ∧ (exG.1.op exF.2).isComp = true :=
  ⟨exG_tree.1, exG_tree.2.1, exG_tree.2.2.1⟩

/-- … so the idempotence theorem applies to it. -/
example : (exG.1.operations exF.2).1.operations exF.2 = ((exG.1.operations exF.2).1, (exG.1.operations exF.2).2) :=
  listing_idempotent_world exG.1 4 exF.2 exG_tree.1 exG_tree.2.1 exG_tree.2.2.1

/-- `AddOk` on a heap built by `newCircuit / newLink / newOp / add`: `top ⊃ sub ⊃ Rx180(0)` (nesting depth 2) and a fresh
    `Ry180(0)`, which `add` links FOLLOWED_BY the sub-circuit (the `relink` branch: a link is allocated). -/
example : Commute.AddOk Commute.exBuild 3 0 3 := Commute.exBuild_ok

example : ((Commute.exBuild.operations 0).1.add 0 3).operations 0 = (Commute.exBuild.add 0 3).operations 0 :=
  listing_then_add _ 3 0 3 Commute.exBuild_ok

/-- the same with a whole sub-circuit as the added object: `s2 = [Ry180(0)]` added to `top ⊃ sub ⊃ Rx180(0)`. -/
example : Commute.AddOk Commute.exBuildS 3 0 3 := Commute.exBuildS_ok

example : ((Commute.exBuildS.operations 0).1.add 0 3).operations 0 = (Commute.exBuildS.add 0 3).operations 0 :=
  listing_then_add _ 3 0 3 Commute.exBuildS_ok

/-- the first listing of that heap does write (the rotation `2` is handed link `0` in place of its own link `1`): the
    theorem is not about a listing that happens to be the identity. -/
example : ((Commute.exLit.operations 0).1.op 2).link = 0 ∧ (Commute.exLit.op 2).link = 1 := by decide +kernel

/-- `SubOk` on a heap built by `newCircuit / newLink / newOp / add` under the real semantics (`identKeys = false`):
    `top ⊃ sub ⊃ Rx180(0)` and the separate circuit `s2 ⊃ Ry180(0)`, which `top.add_sub_circuit(s2)` copies and nests. -/
example : Commute.SubOk Commute.exBuildS 3 2 0 3 ∧ Commute.exBuildS.identKeys = false :=
  ⟨Commute.exBuildS_subOk, Commute.exBuildS_real⟩

example : ((Commute.exBuildS.operations 0).1.addSub 0 3).1.operations 0 = (Commute.exBuildS.addSub 0 3).1.operations 0 :=
  (listing_then_addSub_partial _ 3 2 0 3 Commute.exBuildS_subOk).2


end Qco.C03
