"""C19 — channel and identifier matching behave as overlap / identity relations.

Lean side: `QcoVerif/Properties/C19.lean` (theorems about `Qco.ChId.matches`, `Qco.uniqueInOrder`,
`Model/Ident.lean`).  This file ties those definitions to the code, exhaustively where the space is finite:

* 3 qubits x 4 channels = 12 `ChannelIdentifier`s: all 144 ordered pairs (`==`, `hash ==`, `in {stored}`, `in [x]`)
  against the model; all 1 728 triples for the relation laws (evaluated on the implementation's own answers);
* all 17² pairs of `QubitIDObj` of `Surface17Layer`; all (24 edges x 2 orientations)² = 2 304 pairs of `EdgeIDObj`
  (`==`, `hash ==`, the hash itself recomputed from the model's (lo, hi) tuple); a malformed stream with
  degenerate edges q–q;
* every identifier against every other kind of identifier and against non-identifiers, in both directions;
* random sequences of ints / strings / qubit ids / edge ids / channel ids through `unique_in_order`, compared
  with the model (the loop as written AND `Qco.uniqueInOrder`), with no-duplicates / sublist / same elements /
  first-occurrence order / idempotence evaluated in Python on the implementation's answer.
"""
from __future__ import annotations
import itertools
import json
import time
from collections import Counter

from . import common

PROP = 'C19'
CH = ['R', 'M', 'F', 'A']


def _impl():
    import warnings
    warnings.filterwarnings('ignore')
    from qce_circuit.structure.intrf_circuit_operation import ChannelIdentifier, QubitChannel
    from qce_circuit.connectivity.intrf_channel_identifier import QubitIDObj, EdgeIDObj, FeedlineIDObj
    from qce_circuit.connectivity.connectivity_surface_code import Surface17Layer
    from qce_circuit.utilities.array_manipulation import unique_in_order
    chmap = {'R': QubitChannel.READOUT, 'M': QubitChannel.MICROWAVE, 'F': QubitChannel.FLUX, 'A': QubitChannel.ALL}
    return dict(ChannelIdentifier=ChannelIdentifier, QubitChannel=QubitChannel, QubitIDObj=QubitIDObj,
                EdgeIDObj=EdgeIDObj, FeedlineIDObj=FeedlineIDObj, Surface17Layer=Surface17Layer,
                unique_in_order=unique_in_order, chmap=chmap)


def b(x) -> str:
    return '1' if x else '0'


# ------------------------------------------------------------------------------------------ object <-> token

class Tok:
    """Builds implementation objects from protocol tokens (and back)."""

    def __init__(self, I):
        self.I = I
        self.others = [None, 0, 3, 'D1', 'D1-X1', ('D1', 'X1'), 2.5, frozenset(), (0, 'A')]

    def chan(self, t):            # "q:c"
        q, c = t.split(':')
        return self.I['ChannelIdentifier'](int(q), self.I['chmap'][c])

    def qubit(self, t):
        return self.I['QubitIDObj'](t)

    def edge(self, t):            # "a:b"
        a, c = t.split(':')
        return self.I['EdgeIDObj'](self.I['QubitIDObj'](a), self.I['QubitIDObj'](c))

    def obj(self, t):
        k, _, rest = t.partition(':')
        if k == 'c':
            return self.chan(rest)
        if k == 'q':
            return self.qubit(rest)
        if k == 'f':
            return self.I['FeedlineIDObj'](rest)
        if k == 'e':
            return self.edge(rest)
        return self.others[int(rest)]

    def show(self, kind, o):
        if kind == 'int':
            return str(o)
        if kind == 'str':
            return o
        if kind == 'qubit':
            return o.id
        if kind == 'edge':
            return f'{o.qubit_id0.id}:{o.qubit_id1.id}'
        if kind == 'chan':
            inv = {v: k for k, v in self.I['chmap'].items()}
            return f'{o.id}:{inv[o.channel]}'
        raise ValueError(kind)


# ------------------------------------------------------------------------------------------ predicates (on the implementation)

def chan_pair_laws(a, c, A):
    """property predicates of one ordered pair, evaluated on the implementation. Returns list of failed names."""
    bad = []
    eq = (a == c)
    expect = a.id == c.id and (a.channel == c.channel or a.channel == A or c.channel == A)
    if eq != expect:
        bad.append('match_iff')
    if eq != (c == a):
        bad.append('match_symm')
    if eq and a.id != c.id:
        bad.append('match_same_qubit')
    if (a != c) == eq:
        bad.append('ne_is_not_eq')
    return bad


def chan_triple_laws(a, m, c, A):
    bad = []
    if a == m and m == c and not a == c:
        # allowed only through ALL in the middle with two distinct concrete channels outside
        if not (m.channel == A and a.channel != A and c.channel != A and a.channel != c.channel):
            bad.append('match_trans_of_ne_all')
    if a == m and m == c and a.id != c.id:
        bad.append('match_same_qubit')
    return bad


def is_sublist(small, big):
    it = iter(range(len(big)))
    for x in small:
        for i in it:
            if big[i] is x:
                break
        else:
            return False
    return True


def uniq_laws(seq, out, hit, unique_in_order):
    """seq: input objects, out: implementation's answer, hit(stored, probe): the set's test (hash and ==)."""
    bad = []
    if any(hit(out[i], out[j]) for i in range(len(out)) for j in range(i + 1, len(out))):
        bad.append('uniqueInOrder_nodup')
    if not is_sublist(out, seq):
        bad.append('uniqueInOrder_sublist')
    if not all(any(hit(o, x) for o in out) for x in seq) or not all(any(o is x for x in seq) for o in out):
        bad.append('uniqueInOrder_mem')
    # first occurrences: out must be exactly the elements of seq not hit by an earlier KEPT element, which for an
    # equivalence is: the first occurrence of every class, in input order
    firsts = []
    for x in seq:
        if not any(hit(f, x) for f in firsts):
            firsts.append(x)
    if len(firsts) != len(out) or any(f is not o for f, o in zip(firsts, out)):
        bad.append('uniqueInOrder_first_occurrence')
    again = unique_in_order(out)
    if len(again) != len(out) or any(x is not y for x, y in zip(again, out)):
        bad.append('uniqueInOrder_idem')
    # uniqueInOrder_append: U(l ++ m) = U(l) ++ [y in U(m) not hit by an element of l]; uniqueInOrder_append_self: U(l ++ l) = U(l)
    k = len(seq) // 2
    l, m = list(seq[:k]), list(seq[k:])
    ul, um = unique_in_order(l), unique_in_order(m)
    want = list(ul) + [y for y in um if not any(hit(x, y) for x in l)]
    if len(want) != len(out) or any(x is not y for x, y in zip(want, out)):
        bad.append('uniqueInOrder_append')
    twice = unique_in_order(list(seq) + list(seq))
    if len(twice) != len(out) or any(x is not y for x, y in zip(twice, out)):
        bad.append('uniqueInOrder_append_self')
    if len(out) > len(seq):
        bad.append('uniqueInOrder_length_le')
    return bad


# ------------------------------------------------------------------------------------------ case generation

def gen_sequences(rng, n, names, edges):
    """random sequences for unique_in_order: (kind, tokens)."""
    out = []
    kinds = ['int', 'str', 'qubit', 'edge', 'chan']
    words = ['a', 'b', 'ab', 'ba', 'A', 'D1', 'X1', 'x_y', '0', '1', '-1']
    for i in range(n):
        kind = kinds[i % len(kinds)]
        ln = rng.choice([0, 1, 2, 3, 4, 6, 8, 12, 20, 40])
        spread = rng.choice([2, 3, 5, 9])
        if kind == 'int':
            toks = [str(rng.randint(-spread, spread) * rng.choice([1, 1, 1, 10 ** 12])) for _ in range(ln)]
        elif kind == 'str':
            toks = [rng.choice(words[:spread + 2]) for _ in range(ln)]
        elif kind == 'qubit':
            toks = [rng.choice(names[:spread + 1]) for _ in range(ln)]
        elif kind == 'edge':
            pool = edges[:spread]
            toks = []
            for _ in range(ln):
                a, c = rng.choice(pool)
                r = rng.random()
                if r < 0.45:
                    a, c = c, a
                elif r < 0.52:
                    c = a                     # degenerate q–q (malformed stream)
                toks.append(f'{a}:{c}')
        else:
            toks = [f'{rng.randint(0, min(spread, 3) - 1)}:{rng.choice(CH)}' for _ in range(ln)]
        out.append((kind, toks))
    return out


def load_corpus():
    d = common.CORPUS / PROP
    out = []
    if d.exists():
        for f in sorted(d.glob('*.json')):
            try:
                doc = json.loads(f.read_text())
                out.append((doc['kind'], list(doc['tokens'])))
            except Exception:
                common.log(f'corpus file unreadable: {f}')
    return out


# ------------------------------------------------------------------------------------------ the run

def run(tier: str, seed: int) -> int:
    t0 = time.time()
    oc = common.Outcome(PROP)
    lean = common.proof_obligations(PROP)
    proof_ok = lean['build_ok'] and not lean['failed']
    if not common.driver_available():
        print(f'model driver missing: {lean.get("build_output", "")[-800:]}')
        return 2
    I = _impl()
    T = Tok(I)
    A = I['QubitChannel'].ALL
    rng = common.rng_for(seed, PROP)
    layer = I['Surface17Layer']()
    names = sorted(q.id for q in layer.qubit_ids)
    edges = [(e.qubit_id0.id, e.qubit_id1.id) for e in layer.edge_ids]
    assert len(names) == 17 and len(edges) == 24, (len(names), len(edges))

    lines: list[str] = []        # driver queries
    expect: list[str] = []       # what the implementation answered, in the driver's format
    cases: list[dict] = []       # description of each case (for replays / samples)
    pred_fail: list[dict] = []   # property predicate false on the implementation
    dist = Counter()
    nontrivial = set()

    def add(line, impl_answer, case, nt):
        lines.append(line)
        expect.append(impl_answer)
        cases.append(case)
        if nt:
            nontrivial.add(line)

    # ---- 1. channel identifiers: 144 pairs, 1 728 triples
    chans = [(q, c) for q in range(3) for c in CH]
    cobj = {t: T.chan(f'{t[0]}:{t[1]}') for t in chans}
    for x, y in itertools.product(chans, chans):
        a, c = cobj[x], cobj[y]
        stored = T.chan(f'{x[0]}:{x[1]}')          # a distinct object, so that `in` cannot use identity
        ans = f'{b(a == c)} {b(hash(a) == hash(c))} {b(c in {stored})}'
        if (c in [stored]) != (stored == c):
            pred_fail.append({'what': 'list-membership-is-eq', 'case': ['chan', x, y]})
        add(f'ident match {x[0]} {x[1]} {y[0]} {y[1]}', ans, {'kind': 'chan-pair', 'a': x, 'b': y}, x != y)
        dist['chan-pair'] += 1
        for w in chan_pair_laws(a, c, A):
            pred_fail.append({'what': w, 'case': ['chan', x, y]})
    n_triples = 0
    nontrans = 0
    for x, y, z in itertools.product(chans, chans, chans):
        n_triples += 1
        a, m, c = cobj[x], cobj[y], cobj[z]
        if a == m and m == c and not a == c:
            nontrans += 1
        for w in chan_triple_laws(a, m, c, A):
            pred_fail.append({'what': w, 'case': ['chan-triple', x, y, z]})
    dist['chan-triple'] = n_triples
    # model count of non-transitive triples: 3 qubits x (3 x 2 ordered pairs of distinct concrete channels) = 18
    if nontrans != 18:
        pred_fail.append({'what': 'match_not_transitive_witness(count)', 'case': ['chan-triple-count', nontrans]})

    # ---- 2. qubit identifiers: 17² device names, plus near-miss spellings of a few of them (other case, a suffix, a leading zero:
    #         names are arbitrary strings, "equal exactly when their names are" — seeded change C19-m4 canonicalised the name)
    near = [n.lower() for n in names[:5]] + [n + 'x' for n in names[:3]] + [n[0] + '0' + n[1:] for n in names[:3]]
    for x, y in [(u, v) for u in names[:5] + near for v in near] + [(v, u) for u in names[:5] for v in near]:
        a, c = T.qubit(x), T.qubit(y)
        add(f'ident qeq {x} {y}', b(a == c), {'kind': 'qubit-pair-near', 'a': x, 'b': y}, x != y)
        dist['qubit-pair-near'] += 1
        if (a == c) != (x == y) or ((a == c) and hash(a) != hash(c)) or ((c in {a}) != (x == y)):
            pred_fail.append({'what': 'qubit_eq_iff_name', 'case': ['qubit', x, y]})
    for x in names[:4]:               # spellings that cannot travel through the line protocol (blanks): predicate only
        for y in (' ' + x, x + ' ', x + '\t', x.lower() + ' '):
            if T.qubit(x) == T.qubit(y) or T.qubit(y) == T.qubit(x) or T.qubit(y) in {T.qubit(x)}:
                pred_fail.append({'what': 'qubit_eq_iff_name', 'case': ['qubit', x, y]})
    for x, y in itertools.product(names, names):
        a, c = T.qubit(x), T.qubit(y)
        add(f'ident qeq {x} {y}', b(a == c), {'kind': 'qubit-pair', 'a': x, 'b': y}, x != y)
        dist['qubit-pair'] += 1
        if (a == c) != (x == y):
            pred_fail.append({'what': 'qubit_eq_iff_name', 'case': ['qubit', x, y]})
        if (a == c) and hash(a) != hash(c):
            pred_fail.append({'what': 'qubit_eq_hash', 'case': ['qubit', x, y]})
        if (c in {a}) != (x == y):
            pred_fail.append({'what': 'qubit_set_membership', 'case': ['qubit', x, y]})

    # ---- 3. edge identifiers: (24 x 2)², plus degenerate stream
    oriented = edges + [(c, a) for a, c in edges]
    deg = [(n, n) for n in names[:4]]
    edge_pairs = [(e, f, 'edge-pair') for e, f in itertools.product(oriented, oriented)]
    edge_pairs += [(e, f, 'edge-degenerate') for e in deg for f in oriented[:12] + deg] + \
                  [(f, e, 'edge-degenerate') for e in deg for f in oriented[:12]]
    hs = {n: hash(n) for n in names}
    for e, f, kind in edge_pairs:
        a, c = T.edge(f'{e[0]}:{e[1]}'), T.edge(f'{f[0]}:{f[1]}')
        eq = (a == c)
        # hash of the implementation vs hash of the model's tuple is checked after the driver answered
        add(f'ident eeq {e[0]} {e[1]} {f[0]} {f[1]} {hs[e[0]]} {hs[e[1]]} {hs[f[0]]} {hs[f[1]]}',
            (b(eq), b(hash(a) == hash(c)), b(c in {a}), hash(a), hash(c)),
            {'kind': kind, 'a': e, 'b': f}, e != f)
        dist[kind] += 1
        same_unordered = (e == f) or (e == (f[1], f[0]))
        if e[0] != e[1]:
            if eq != same_unordered:
                pred_fail.append({'what': 'edge_eq_iff_unordered', 'case': ['edge', e, f]})
            if eq and hash(a) != hash(c):
                pred_fail.append({'what': 'edge_eq_hash', 'case': ['edge', e, f]})
        a_sw = T.edge(f'{e[1]}:{e[0]}')
        c_sw = T.edge(f'{f[1]}:{f[0]}')
        if (a == c_sw) != eq or (a_sw == c) != eq:
            pred_fail.append({'what': 'edge_eq_swap', 'case': ['edge', e, f]})
        if hash(a_sw) != hash(a):
            pred_fail.append({'what': 'edge_hash_swap', 'case': ['edge', e]})
        if (c in {a}) != same_unordered:
            pred_fail.append({'what': 'edge_setHit_iff', 'case': ['edge', e, f]})

    # ---- 3b. identity is not at the mercy of what a getter returned: a caller that modifies the list `qubit_ids` gave it (sort,
    # remove, extend — the partner-lookup idiom) must not change what the edge equals, hashes to or contains
    # (seeded change C19-m7: the frozen edge hands out its internal list)
    for e in oriented[:16] + deg[:2]:
        a = T.edge(f'{e[0]}:{e[1]}')
        ref_eq, ref_h = T.edge(f'{e[1]}:{e[0]}'), hash(a)
        for how in ('remove', 'extend', 'reverse', 'clear'):
            ids = a.qubit_ids
            try:
                if how == 'remove':
                    ids.remove(ids[0])
                elif how == 'extend':
                    ids += T.edge(f'{oriented[5][0]}:{oriented[5][1]}').qubit_ids
                elif how == 'reverse':
                    ids.reverse()
                else:
                    ids.clear()
            except AttributeError:
                break        # an immutable sequence: nothing a caller can do to it
            ok = (a == ref_eq) and (ref_eq == a) and hash(a) == ref_h and a.contains(T.qubit(e[0])) and a.contains(T.qubit(e[1])) \
                and len(a.qubit_ids) == 2 and (a == T.edge(f'{oriented[5][0]}:{oriented[5][1]}')) == (set(e) == set(oriented[5]))
            dist['edge-alias'] += 1
            if not ok:
                pred_fail.append({'what': 'edge identity changed by modifying the list qubit_ids returned', 'case': ['edge-alias', e, how]})
                break
            a = T.edge(f'{e[0]}:{e[1]}')

    # ---- 4. across kinds / non-identifiers, both directions
    objs = ['c:0:A', 'c:0:M', 'c:1:F', 'q:D1', 'q:X1', 'f:D1', 'f:FL1', 'e:D1:X1', 'e:X1:D1', 'e:D2:X1'] + \
           [f'o:{i}' for i in range(len(T.others))]
    for x, y in itertools.product(objs, objs):
        a, c = T.obj(x), T.obj(y)
        add(f'ident pyeq {x} {y}', b(a == c), {'kind': 'cross-kind', 'a': x, 'b': y}, x[0] != y[0])
        dist['cross-kind'] += 1
        if x[0] != y[0] and (a == c or not (a != c)):
            pred_fail.append({'what': 'cross_kind_ne', 'case': ['cross', x, y]})

    # ---- 5. unique_in_order
    n_seq = 600 if tier == 'quick' else 20000
    corpus = load_corpus()
    seqs = corpus + [('chan', ['0:A', '0:M', '0:A']), ('edge', ['D1:X1', 'X1:D1', 'D1:D1', 'D1:X1']), ('int', [])] + \
        gen_sequences(rng, n_seq, names, edges)
    uio = I['unique_in_order']
    mk = {'int': int, 'str': str, 'qubit': T.qubit, 'edge': T.edge, 'chan': T.chan}

    def hit(stored, probe):
        return hash(stored) == hash(probe) and (stored is probe or stored == probe)

    for kind, toks in seqs:
        objs_in = [mk[kind](t) for t in toks]
        out = uio(iter(objs_in))
        if not isinstance(out, list):
            pred_fail.append({'what': 'unique_in_order returns a list', 'case': [kind, toks]})
        shown = ','.join(T.show(kind, o) for o in out) or '-'
        arg = ','.join(toks) or '-'
        if kind == 'edge':
            used = sorted({n for t in toks for n in t.split(':')})
            table = ','.join(f'{n}={hash(n)}' for n in used) or '-'
            line = f'ident uniq edge {arg} {table}'
            ans = shown
        else:
            line = f'ident uniq {kind} {arg}'
            ans = f'{shown} {shown}'        # the loop model and Qco.uniqueInOrder must both give the code's answer
        keys = [T.show(kind, o) for o in objs_in]
        add(line, ans, {'kind': f'uniq-{kind}', 'tokens': toks}, len(toks) >= 3 and len(out) < len(toks))
        dist[f'uniq-{kind}'] += 1
        dist['uniq-with-duplicates'] += int(len(out) < len(toks))
        for w in uniq_laws(objs_in, out, hit, uio):
            pred_fail.append({'what': w, 'case': [kind, toks]})
        if kind == 'chan':
            # exact-equality de-duplication: ALL does not absorb MW although ALL == MW
            want = list(dict.fromkeys(keys))
            if [T.show(kind, o) for o in out] != want:
                pred_fail.append({'what': 'uniqueLoop_chid', 'case': [kind, toks]})

    # ---- model
    try:
        model = common.run_driver(lines)
    except common.LeanFailure as e:
        print(f'driver failure: {e.output[-600:]}')
        return 2
    disagreements = []
    for line, exp, mo, case in zip(lines, expect, model, cases):
        if isinstance(exp, tuple):       # edge pair: eq, hash-eq, set-hit, hash(a), hash(c)
            eq, heq, sh, ha, hc = exp
            parts = mo.split()
            ok = len(parts) == 7 and parts[0] == eq and parts[5] == heq and parts[6] == sh
            if ok:
                ok = hash((int(parts[1]), int(parts[2]))) == ha and hash((int(parts[3]), int(parts[4]))) == hc
            if not ok:
                disagreements.append({'query': line, 'implementation': list(exp), 'model': mo, 'case': case})
        elif exp != mo:
            disagreements.append({'query': line, 'implementation': exp, 'model': mo, 'case': case})

    # ---- verdict
    seen = set()
    for pf in pred_fail:
        if pf['what'] in seen:
            continue
        seen.add(pf['what'])
        oc.violation({'property': PROP, 'kind': 'predicate-fails-on-implementation', 'failure': pf,
                      'how_to_replay': 'construct the named identifiers / sequence with the qce_circuit classes and evaluate '
                                       'the law named in failure.what (harness/c19.py: chan_pair_laws, uniq_laws, …)'})
    if disagreements and not pred_fail:
        # the exhaustive enumeration above WAS the search for an input violating the property: none found
        oc.violation({'property': PROP, 'kind': 'correspondence-broken',
                      'unchecked': 'model (Qco.ChId.matches / Qco.uniqueInOrder / Model/Ident.lean) <-> implementation',
                      'first_differences': disagreements[:5], 'count': len(disagreements)}, found_input=False)
    sem = common.pysem_stage(oc, PROP, ['ident'], seed, tier)
    if not proof_ok and not oc.violations:
        oc.violation({'property': PROP, 'kind': 'proof-obligation-broken', 'unchecked': lean.get('failed'),
                      'build_output': lean.get('build_output', '')[-3000:], 'axioms': lean.get('axioms')},
                     found_input=False)

    wall = time.time() - t0
    coverage = {}
    if lean['obligations']:
        coverage.update({'obligations': lean['obligations'], 'discharged': lean['discharged']})
    coverage.update({
        'checker_cmd': lean['checker_cmd'],
        'trusted_base': common.TRUSTED_BASE + [
            'CPython set lookup = full-hash equality then `stored == probe`; collisions of hash() between distinct '
            'tuples/strings ignored'],
        'theorems': lean.get('theorems', []),
        'axioms': lean.get('axioms', {}),
        **sem,
        'evaluations': len(lines) + n_triples,
        'distinct_nontrivial': len(nontrivial),
        'exhaustive': True,
        'rule': 'exhaustive: 12² channel-identifier pairs and 12³ triples over 3 qubits x 4 channels; 17² qubit-id pairs; '
                '(24 edges x 2 orientations)² edge pairs + degenerate q–q stream; 19² cross-kind pairs; plus random '
                'sequences (ints, strings, qubit/edge/channel ids; lengths 0–40, alphabet 2–9) for unique_in_order. '
                'non-trivial = a pair of two different identifiers / a cross-kind pair / a sequence of length >= 3 that '
                'contains a duplicate; distinct = distinct driver query text (triples are not counted as non-trivial cases)',
        'samples': [cases[0], cases[150], next(c for c in cases if c['kind'] == 'edge-pair'),
                    next(c for c in reversed(cases) if c['kind'].startswith('uniq'))],
        'traces_validated_against_impl': len(lines) - len(disagreements),
        'disagreements': len(disagreements),
        'predicate_failures': len(pred_fail),
        'nontransitive_triples': nontrans,
        'corpus_cases': len(corpus),
        'input_distribution': dict(dist),
        'known_findings_printed': oc.known,
        'lean': {k: lean.get(k) for k in ('build_ok', 'build_s', 'lean_s', 'failed', 'forbidden_hits', 'translator')},
    })
    common.write_evidence(PROP, tier, seed, coverage, wall, len(oc.violations),
                          ['Python hash() of distinct strings/tuples does not collide (set semantics)',
                           'NaN-like objects (x != x) are outside the quantifier of unique_in_order'])
    return oc.emit()


def replay(doc: dict) -> int:
    """the check is exhaustive and takes seconds: a replay re-runs it (`./check replay <path>`)."""
    return run('quick', common.seed_from_env(0))
