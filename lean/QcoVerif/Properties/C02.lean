import QcoVerif.Model.Builder
namespace Qco.C02
end Qco.C02
