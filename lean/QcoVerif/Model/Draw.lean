import QcoVerif.Model.Builder
/-
  Visual description of a circuit as `display_circuit.py` computes it (C18).  Core Lean only.

  * rows            `construct_visual_description`: occupied qubit indices in code order, `reorder_indices`
                    (raises iff an element of the requested order is not occupied; duplicates of the
                    requested order are KEPT, the row of a qubit is its first occurrence — `list.index`)
  * labels          `{row: custom_map.get(channel, channel)}`
  * components      `BulkDrawComponentFactoryManager.construct`: operations grouped by class in order of
                    first appearance (all `TwoQubitOperation` subclasses form one group), one component per
                    operation from `TransformConstructor.construct_transform`:
                    pivot `(start, −row·spacing)` (alignment MID_LEFT), width `duration`, height 1;
                    rotation blocks are square (width = height); a barrier has one transform per qubit;
                    the two-qubit group goes through `MultiTwoQubitBlockFactory` (time-shared groups, then
                    space-shared groups, then an x-offset `b·½·½·d`, b ∈ [−1,1] — at most a quarter duration,
                    since the repair 01bd1d3; before it the offset was `b·d²/4`);
                    `TwoQubitOperation` / `TwoQubitVirtualPhase` take part in the grouping but are not drawn;
                    operations that occupy no channel (`Barrier([])`) are left out (repair e4339e6)
  * highlights      one rounded rectangle per sub-circuit with count ≠ 1 that occupies a channel
  * figure width    `max(1, latest end) + 1`
  * plot            "enter override (compact only); description (= listing + times); leave override"

  x-positions and widths are in the model's time unit 1/8; a row is an index into `rows`; the vertical
  position of row `r` is `−r · spacing` with `spacing = 1.2 · height` (kept symbolic, never computed here).
-/
namespace Qco.Draw

open Qco

/-- the four global durations (a `VISUALIZATION_DURATION_REGISTRY`, or the ambient setting). -/
structure Durs where
  ro : Int
  mw : Int
  fl : Int
  rs : Int
  deriving DecidableEq, Repr, Inhabited

def getG (w : World) : Durs := ⟨w.gRo, w.gMw, w.gFl, w.gRs⟩

/-- `temporary_override_get_registry_at`: swap the global duration lookup. -/
def setG (w : World) (d : Durs) : World := { w with gRo := d.ro, gMw := d.mw, gFl := d.fl, gRs := d.rs }

/-- (start, duration) of one object, fresh memo — the same queries as `Driver.timesOf`. -/
def timesOf (w : World) (o : Nat) : Option (Int × Int) :=
  let act : EvalM (Option (Int × Int)) := do
    match ← Eval.query w (.start o) with
    | none => pure none
    | some s =>
      match ← Eval.query w (.dur o) with
      | none => pure none
      | some d => pure (some (s, d))
  act.run' {}

/-! ### rows and labels -/

/-- qubit indices of `occupied_qubit_channels`, de-duplicated in order. -/
def occupied (w : World) (c : Nat) : List Int := uniqueInOrder ((w.chansOf c).map (·.q))

/-- `reorder_indices(original_order, specific_order)`; `none` = `ValueError`. -/
def reorder (orig order : List Int) : Option (List Int) :=
  if order.all (fun x => orig.contains x) then
    some (order ++ orig.filter (fun x => !order.contains x))
  else none

/-- `channel_indices.index(q)`: first position of `q`. -/
def rowOf : List Int → Int → Option Nat
  | [], _ => none
  | r :: rs, q => if r = q then some 0 else (rowOf rs q).map (· + 1)

/-- `channel_label_map`: row ↦ `custom_channel_map.get(channel, channel)`, as the header prints it. -/
def labelsOf (rows : List Int) (m : List (Int × String)) : List String :=
  rows.map (fun q => match m.find? (fun p => p.1 == q) with
    | some p => p.2
    | none => toString q)

/-! ### components -/

/-- the draw component class an operation class is mapped to (`factory_lookup` of
    `get_operation_draw_components`; classes without entry use `DefaultFactory`). -/
inductive Glyph
  | textBlock | indicator | vacantBlock | plainBlock | parkBlock | measureBlock | rotation
  | twoGate | twoVacant | barrier
  deriving DecidableEq, Repr, Inhabited

def Glyph.name : Glyph → String
  | .textBlock => "RectangleTextBlock" | .indicator => "HorizontalVariableIndicator"
  | .vacantBlock => "RectangleVacantBlock" | .plainBlock => "RectangleBlock"
  | .parkBlock => "SquareParkBlock" | .measureBlock => "BlockMeasure" | .rotation => "BlockRotation"
  | .twoGate => "BlockTwoQubitGate" | .twoVacant => "BlockTwoQubitVacant"
  | .barrier => "BlockVerticalBarrier"

/-- `none`: the class is never drawn (`TwoQubitOperation`, `TwoQubitVirtualPhase`: the multi factory
    skips classes missing from its lookup; a composite never occurs in a listing). -/
def glyphOf : Cls → Option Glyph
  | .single | .reset | .identity | .hadamard | .cshift | .detector | .observable => some .textBlock
  | .wait => some .indicator
  | .vacant => some .vacantBlock
  | .empty => some .plainBlock
  | .vpark => some .parkBlock
  | .measure => some .measureBlock
  | .rx180 | .rx90 | .rxm90 | .ry180 | .ry90 | .rym90 | .rx180ef | .vphase | .rphi90 => some .rotation
  | .cphase => some .twoGate
  | .twovacant => some .twoVacant
  | .barrier => some .barrier
  | .two | .twovphase | .comp => none

/-- `isinstance(operation, TwoQubitOperation)`. -/
def isTwo (c : Cls) : Bool := c == .two || c == .cphase || c == .twovphase || c == .twovacant

/-- grouping key of `BulkDrawComponentFactoryManager.construct`. -/
def bulkKey (c : Cls) : Cls := if isTwo c then .two else c

/-- an exact x-position `num / den` (time unit 1/8); `den = 1` except for offset two-qubit gates. -/
structure Frac where
  num : Int
  den : Nat
  deriving DecidableEq, Repr, Inhabited

/-- channel height in time units (`channel_height = 1.0`). -/
def unitHeight : Int := 8

/-- one draw component: the operation it draws, its class, its pivots `(x, row)` (alignment MID_LEFT:
    the pivot is the middle of the left edge), the width of each of its blocks (height is 1). -/
structure Comp where
  op : Nat
  glyph : Glyph
  pivots : List (Frac × Nat)
  width : Int
  deriving DecidableEq, Repr, Inhabited

abbrev Times := Nat → Option (Int × Int)

/-- the qubits whose rows carry a pivot of the operation's component: all qubits of a barrier, control and
    target of a two-qubit gate, else the qubit of `channel_identifiers[0]`. -/
def pivotQubits (op : Op) : List Int :=
  match glyphOf op.cls with
  | some .barrier => op.qs
  | some .twoGate | some .twoVacant => [op.qs.headD 0, (op.qs.drop 1).headD 0]
  | some _ => [op.qs.headD 0]
  | none => []

/-- component of an operation that is not a `TwoQubitOperation` (individual factories):
    one pivot `(start, row)` per pivot qubit, width = duration — except rotation blocks, which are square. -/
def singleComp (w : World) (rows : List Int) (tm : Times) (o : Nat) : Option Comp :=
  let op := w.op o
  match glyphOf op.cls, tm o with
  | some g, some (s, d) =>
    ((pivotQubits op).mapM (rowOf rows)).map (fun rs =>
      ⟨o, g, rs.map (fun r => ((⟨s, 1⟩ : Frac), r)), if g = .rotation then unitHeight else d⟩)
  | _, _ => none

/-- a two-qubit operation with its times and the rows of control and target. -/
structure TwoInfo where
  op : Nat
  s : Int
  d : Int
  r0 : Nat
  r1 : Nat
  deriving DecidableEq, Repr, Inhabited

def TwoInfo.maxRow (a : TwoInfo) : Nat := max a.r0 a.r1
def TwoInfo.minRow (a : TwoInfo) : Nat := min a.r0 a.r1

def twoInfo (w : World) (rows : List Int) (tm : Times) (o : Nat) : Option TwoInfo :=
  let op := w.op o
  match tm o, rowOf rows (op.qs.headD 0), rowOf rows ((op.qs.drop 1).headD 0) with
  | some (s, d), some r0, some r1 => some ⟨o, s, d, r0, r1⟩
  | _, _, _ => none

/-- `TimeSharedOperations.divide`: groups by start time, in order of first appearance. -/
def timeGroups (xs : List TwoInfo) : List (List TwoInfo) :=
  (uniqueInOrder (xs.map (·.s))).map (fun t => xs.filter (fun a => a.s == t))

/-- index of the LAST group whose upper bound reaches the bottom of a block whose lowest row is `mx`
    (`bot ≤ upper` ⇔ `upperMinRow ≤ mx`, since `spacing = 1.2·height > height`). -/
def lastMatch (gs : List (List TwoInfo × Nat)) (mx : Nat) : Option Nat :=
  ((gs.zipIdx.filter (fun p => p.1.2 ≤ mx)).getLast?).map (·.2)

/-- one step of the grouping loop of `SpaceSharedOperations.divide`; a group carries the top row of the
    element appended last (the code overwrites the upper bound instead of taking the maximum). -/
def spaceStep (gs : List (List TwoInfo × Nat)) (a : TwoInfo) : List (List TwoInfo × Nat) :=
  match lastMatch gs a.maxRow with
  | some gi => gs.zipIdx.map (fun p => if p.2 == gi then (p.1.1 ++ [a], a.minRow) else p.1)
  | none => gs ++ [([a], a.minRow)]

/-- `SpaceSharedOperations.divide`: stable sort by bottom edge (ascending y = descending lowest row),
    then the grouping loop. -/
def spaceGroups (xs : List TwoInfo) : List (List TwoInfo) :=
  ((xs.mergeSort (fun a b => decide (b.maxRow ≤ a.maxRow))).foldl spaceStep []).map (·.1)

/-- x-position of element `j` of a space-shared group of `n`:
    `start + (2·j/(n−1) − 1) · ½ · ½ · d`, i.e. in eighths `(s·4(n−1) + (2j − (n−1))·d) / (4(n−1))`. -/
def twoX (s d : Int) (n j : Nat) : Frac :=
  if n ≤ 1 then ⟨s, 1⟩
  else ⟨s * (4 * ((n : Int) - 1)) + (2 * (j : Int) - ((n : Int) - 1)) * d, 4 * (n - 1)⟩

def twoGlyph (c : Cls) : Option Glyph :=
  match c with
  | .cphase => some .twoGate
  | .twovacant => some .twoVacant
  | _ => none

/-- `MultiTwoQubitBlockFactory.construct` on the two-qubit operations of the listing. -/
def twoComps (w : World) (xs : List TwoInfo) : List Comp :=
  (timeGroups xs).flatMap (fun tg =>
    (spaceGroups tg).flatMap (fun sg =>
      sg.zipIdx.filterMap (fun p =>
        let a := p.1
        (twoGlyph (w.op a.op).cls).map (fun g =>
          let x := twoX a.s a.d sg.length p.2
          ⟨a.op, g, [(x, a.r0), (x, a.r1)], a.d⟩))))

/-- `BulkDrawComponentFactoryManager.construct` on operations that all occupy a channel: components in
    the order the code produces them. `none`: a row or a time is missing (never for a listing of the
    circuit the rows were computed from). -/
def componentsOf (w : World) (rows : List Int) (tm : Times) (ops : List Nat) : Option (List Comp) :=
  let keys := uniqueInOrder (ops.map (fun o => bulkKey (w.op o).cls))
  (keys.mapM (fun k =>
    if k == .two then
      ((ops.filter (fun o => isTwo (w.op o).cls)).mapM (twoInfo w rows tm)).map (twoComps w)
    else
      (ops.filter (fun o => (w.op o).cls == k)).mapM (singleComp w rows tm))).map List.flatten

/-- the operations that are drawn at all: those occupying at least one channel. -/
def drawable (w : World) (ops : List Nat) : List Nat :=
  ops.filter (fun o => !(w.op o).leafChans.isEmpty)

/-- all operation draw components of a listing. -/
def components (w : World) (rows : List Int) (tm : Times) (ops : List Nat) : Option (List Comp) :=
  componentsOf w rows tm (drawable w ops)

/-! ### repetition highlights -/

/-- `get_sub_composite_operations`. -/
def subComps (w : World) : Nat → Nat → List Nat
  | 0, _ => []
  | f+1, c =>
    (listing (w.op c).graph).flatMap (fun n =>
      if (w.op n).isComp then n :: subComps w f n else [])

structure Highlight where
  comp : Nat
  x : Int
  width : Int
  rowMin : Nat
  rowMax : Nat
  count : Nat
  deriving DecidableEq, Repr, Inhabited

def natMin : List Nat → Nat
  | [] => 0
  | x :: xs => xs.foldl min x

def natMax : List Nat → Nat
  | [] => 0
  | x :: xs => xs.foldl max x

/-- `get_highlight_draw_components` for one sub-circuit: `some none` = skipped. -/
def highlightOf (w : World) (rows : List Int) (tm : Times) (s : Nat) : Option (Option Highlight) :=
  let n := w.repCount (w.op s).rep
  let chs := w.chansOf s
  if n == 1 || chs.isEmpty then some none else
  match tm s, chs.mapM (fun c => rowOf rows c.q) with
  | some (st, d), some rs => some (some ⟨s, st, d, natMin rs, natMax rs, n⟩)
  | _, _ => none

/-! ### the description -/

/-- `end_time` scan of `construct_visual_description`, starting from 1.0. -/
def latestEnd (ends : List Int) : Int := ends.foldl (fun m e => if e > m then e else m) 8

structure Desc where
  rows : List Int
  labels : List String
  width : Int
  comps : List Comp
  highlights : List Highlight
  deriving DecidableEq, Repr, Inhabited

inductive Result
  | reject          -- `ValueError` of `reorder_indices`
  | undef           -- a time is undefined (cyclic relation structure: `RecursionError`)
  | norow           -- an operation's qubit has no row (never happens, see `C18.rows_total`)
  | ok (d : Desc)
  deriving DecidableEq, Repr, Inhabited

/-- the description, given the rows, the listing `ops` and the sub-circuits `subs` of the drawn circuit and
    the times `tm` in force while drawing. -/
def describe (w : World) (rows : List Int) (labels : List (Int × String)) (tm : Times)
    (ops subs : List Nat) : Result :=
  match ops.mapM tm with
  | none => .undef
  | some ts =>
    let width := latestEnd (ts.map (fun t => t.1 + t.2)) + 8
    let lab := labelsOf rows labels
    match components w rows tm ops with
    | none => .norow
    | some cs =>
      match subs.mapM (highlightOf w rows tm) with
      | none => if (subs.mapM tm).isNone then .undef else .norow
      | some hs => .ok ⟨rows, lab, width, cs, hs.filterMap id⟩

structure Args where
  order : List Int := []
  labels : List (Int × String) := []
  /-- `some d`: compact mode with the drawing's own durations `d`; `none`: ambient durations. -/
  compact : Option Durs := none
  deriving Repr, Inhabited

/-- `plot_circuit`: enter the override (compact mode), compute rows — rejecting before anything is
    listed —, list (the mutating listing), read times, leave the override. -/
def plot (w : World) (c : Nat) (a : Args) : World × Result :=
  let amb := getG w
  let w1 := match a.compact with
    | some d => setG w d
    | none => w
  match reorder (occupied w1 c) a.order with
  | none => (setG w1 amb, .reject)
  | some rows =>
    let r := w1.operations c
    let w2 := r.1
    (setG w2 amb, describe w2 rows a.labels (timesOf w2) r.2 (subComps w2 w2.depthFuel c))

/-! ### "settled": a listing would change nothing -/

/-- every node below `c` either has a relation or already carries the enclosing link. -/
def settled (w : World) : Nat → Nat → Bool
  | 0, _ => true
  | f+1, c =>
    (listing (w.op c).graph).all (fun n =>
      (w.hasRel n || (w.op n).link == (w.op c).link) &&
      (!(w.op n).isComp || settled w f n))

/-- the listing without the link assignment. -/
def flat (w : World) : Nat → Nat → List Nat
  | 0, _ => []
  | f+1, c =>
    (listing (w.op c).graph).flatMap (fun n => if (w.op n).isComp then flat w f n else [n])

end Qco.Draw
