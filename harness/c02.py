"""C02 — the operation listing is complete, causal and stable."""
from . import progs, streamcheck

PROP = 'C02'


def nontrivial(prog, f):
    return f['sub'] >= 1 and f['ops'] >= 4 and sum(f['rel'].values()) >= 1


def forced(rng, tier):
    """listing read, then a PLACED sub-circuit grown through the handle `add()` returned (`adopt`), listing read again — the
    parent's own entry count does not change in between (seeded change C02-m9: a listing cached per wrapper, keyed on the
    structure's identity and the number of the wrapper's own additions); also two levels deep and with a flatten/apply between."""
    out = []
    gates = ['Rx180', 'Ry90', 'Hadamard', 'Wait', 'DispersiveMeasure']

    def mk(c, q, rel=None):
        cls = rng.choice(gates)
        return ['op', c, cls, [q], 'A' if cls == 'DispersiveMeasure' else 'M', None, 0, 0, [], rel]
    for i in range(40 if tier == 'quick' else 800):
        p = [['new', 'f1'], ['new', 'f1']]
        nh = 0
        for _ in range(rng.randint(0, 2)):
            p.append(mk(0, rng.randrange(3))); nh += 1
        for _ in range(rng.randint(1, 3)):
            p.append(mk(1, rng.randrange(3))); nh += 1
        p.append(['sub', 0, 1])                       # handle nh: the placed copy
        sub_h = nh; nh += 1
        if rng.random() < 0.4:
            p.append(mk(0, rng.randrange(3), [sub_h, rng.choice(['FB', 'JS', 'JE'])])); nh += 1
        p.append([rng.choice(['list', 'list', 'ops']), 0])
        p.append(['adopt', sub_h])                    # circuit index 2
        for _ in range(rng.randint(1, 3)):
            p.append(mk(2, rng.randrange(3))); nh += 1
        p.append(['list', 0])
        if rng.random() < 0.3:                        # a second growth after the second reading
            p.append(mk(2, rng.randrange(3))); nh += 1
            p.append(['ops', 0]); p.append(['list', 0])
        if rng.random() < 0.25:
            p += [[rng.choice(['flatten', 'apply']), 0], ['list', 0]]
        out.append(p)
    return out


SPEC = streamcheck.StreamSpec(
    PROP, probes=['C02'],
    cfg=progs.GenConfig(static_durations=True, n_cmds=(4, 36), p_list=0.12, p_sub=0.14),
    n_quick=1200, n_thorough=40000,
    nontrivial=nontrivial,
    pysem=dict(groups=['facade'], effects=True),
    extra_programs=forced,
    rule='random build programs (all classes, explicit/implicit/foreign relations, nesting, apply/flatten/copy); every '
         'listing is compared with a shadow multiset of the added leaves kept by the harness, checked for causality '
         '(reference listed earlier) and listed a second time; return values of add()/get_last_entry() are asserted; '
         'forced programs: listing, growth of a placed sub-circuit through its kept handle, listing again; '
         'non-trivial = nesting and >= 4 operations and >= 1 explicit relation; distinct = distinct program text',
    assumptions=['MAX_GRAPH_DEPTH = 5000 and Python\'s recursion limit are not modelled; programs stay below depth 150'])


def run(tier, seed):
    return streamcheck.run(SPEC, tier, seed)
