import QcoVerif.Properties.C02
/-
  C11 — flattening keeps the operations.

  About `World.flatten` (what the driver executes): the flattened graph lists exactly the operations of the
  (mutating) listing — same multiset, each once (`flatten_listing_perm`) —, every one of them is a leaf operation
  and adding them changes nothing but relation links, so no sub-circuit remains (`flatten_no_composite`), and kind,
  qubits, duration strategy, tag and fields of every object are untouched (`flatten_shape`).
  NOT proved: idempotence of `flatten` on the listing ORDER and the library clause (listing order, schedule,
  indices and export unchanged) — the latter is false of model and code for d ≥ 3, cycles ≥ 3 (known finding R5),
  and after an unrolling flatten can even create a cyclic relation (known finding R14); these clauses are evaluated
  on the implementation and compared with the model on every generated program.
-/
namespace Qco.C11

open Qco

/-- `add_to_graph` only allocates links and rewrites the link of the added operation. -/
theorem addToGraph_shape (w : World) (g : List Entry) (o : Nat) {w0 : World} (h : Shape w w0) :
    Shape (w.addToGraph g o).1 w0 := by
  have newLink_shape : ∀ (w : World) (L : Link), Shape w w0 → Shape (w.newLink L).1 w0 := by
    intro w L h; exact ⟨h.1, fun j => h.2 j⟩
  have warn_shape : ∀ (w : World) (n : Nat), Shape w w0 → Shape { w with warnings := n } w0 := by
    intro w n h; exact ⟨h.1, fun j => h.2 j⟩
  have undef_shape : ∀ (w : World) (n : Nat), Shape w w0 → Shape { w with warnings := n, undef := true } w0 := by
    intro w n h; exact ⟨h.1, fun j => h.2 j⟩
  unfold World.addToGraph
  simp only
  split
  · split
    · exact h
    · split
      · exact (newLink_shape _ _ h).setLink _ _
      · exact (newLink_shape _ _ h).setLink _ _
  · split
    · split
      · exact h
      · split
        · exact (newLink_shape _ _ (warn_shape _ _ h)).setLink _ _
        · exact (newLink_shape _ _ (warn_shape _ _ h)).setLink _ _
    · split
      · exact (newLink_shape _ _ (undef_shape _ _ h)).setLink _ _
      · exact (newLink_shape _ _ (undef_shape _ _ h)).setLink _ _

/-- rebuilding a graph from a list of operations lists exactly those operations (plus what was there). -/
theorem rebuild_perm (w0 : World) : ∀ (ops : List Nat) (w : World) (g : List Entry), Shape w w0 →
    let r := ops.foldl (fun (acc : World × List Entry) o => acc.1.addToGraph acc.2 o) (w, g)
    (listing r.2).Perm (ops.reverse ++ listing g) ∧ Shape r.1 w0 := by
  intro ops
  induction ops with
  | nil => intro w g h; exact ⟨by simp, h⟩
  | cons o os ih =>
    intro w g h
    simp only [List.foldl_cons, List.reverse_cons, List.append_assoc, List.singleton_append]
    have h1 := C02.add_listing w g o
    have hs := addToGraph_shape w g o h
    obtain ⟨h2, h3⟩ := ih (w.addToGraph g o).1 (w.addToGraph g o).2 hs
    exact ⟨h2.trans (List.Perm.append_left _ h1), h3⟩

theorem setGraph_graph (w : World) (c : Nat) (g : List Entry) (h : c < w.ops.size) :
    ((w.setGraph c g).op c).graph = g := by
  simp [World.setGraph, World.setOp, World.op, Array.getD, h]

theorem setGraph_size (w : World) (c : Nat) (g : List Entry) : (w.setGraph c g).ops.size = w.ops.size := by
  simp [World.setGraph, World.setOp]

/-- **the flattened circuit lists exactly the operations of the listing, each once**
    (`c` is a heap object: `c < ops.size`). -/
theorem flatten_listing_perm (w : World) (c : Nat) (hc : c < (w.flatten c).ops.size) :
    (listing ((w.flatten c).op c).graph).Perm (w.operations c).2 := by
  have hr := (rebuild_perm w (w.operations c).2 (w.operations c).1 [] (operations_shape w c)).1
  simp only [listing, sortedEntries, List.mergeSort_nil, List.map_nil, List.append_nil] at hr
  unfold World.flatten at hc ⊢
  simp only at hc ⊢
  generalize ((w.operations c).2.foldl (fun (acc : World × List Entry) o => acc.1.addToGraph acc.2 o)
      ((w.operations c).1, [])) = r at hr hc ⊢
  rw [setGraph_size] at hc
  rw [setGraph_graph _ _ _ hc]
  exact hr.trans (List.reverse_perm _)

/-- every entry of the operation listing is a leaf operation. -/
theorem leafListing_leaves (w : World) : ∀ (f c o : Nat), o ∈ w.leafListing f c → (w.op o).isComp = false := by
  intro f
  induction f with
  | zero => intro c o h; simp [World.leafListing] at h
  | succ f ih =>
    intro c o h
    unfold World.leafListing at h
    simp only [List.mem_flatMap] at h
    obtain ⟨n, _, hn⟩ := h
    by_cases hc : (w.op n).isComp = true
    · rw [if_pos hc] at hn; exact ih n o hn
    · rw [if_neg hc] at hn
      simp only [List.mem_singleton] at hn
      subst hn; simpa using hc

/-- **no sub-circuit remains**: every node of the flattened graph is a leaf operation (kind unchanged). -/
theorem flatten_no_composite (w : World) (c : Nat) (hc : c < (w.flatten c).ops.size) :
    ∀ n ∈ listing ((w.flatten c).op c).graph, (w.op n).isComp = false := by
  intro n hn
  have := (flatten_listing_perm w c hc).mem_iff.mp hn
  rw [operations_eq_leafListing] at this
  exact leafListing_leaves w _ c n this

/-- flattening changes nothing but relation links and the graph of the flattened circuit itself: kind, qubits,
    channel, duration strategy, tag, fields, counts of every object are untouched. -/
theorem flatten_shape (w : World) (c : Nat) :
    ∀ j, ((w.flatten c).op j).cls = (w.op j).cls ∧ ((w.flatten c).op j).qs = (w.op j).qs ∧
      ((w.flatten c).op j).dur = (w.op j).dur ∧ ((w.flatten c).op j).tag = (w.op j).tag ∧
      ((w.flatten c).op j).ints = (w.op j).ints ∧ ((w.flatten c).op j).rep = (w.op j).rep := by
  intro j
  unfold World.flatten
  simp only
  have hr := (rebuild_perm w (w.operations c).2 (w.operations c).1 [] (operations_shape w c)).2
  generalize ((w.operations c).2.foldl (fun (acc : World × List Entry) o => acc.1.addToGraph acc.2 o)
      ((w.operations c).1, [])) = r at hr
  have key : ∀ k, ((r.1.setGraph c r.2).op k).noLink = { (r.1.op k).noLink with graph := ((r.1.setGraph c r.2).op k).graph } := by
    intro k
    simp only [World.setGraph, World.setOp, World.op, Op.noLink]
    by_cases hk : k = c
    · subst hk
      by_cases hb : k < r.1.ops.size
      · simp [Array.getD, hb]
      · simp [Array.getD, hb]
    · simp [Array.getD, Array.getElem_setIfInBounds_ne, hk, Ne.symm hk]
      split <;> simp_all [Array.getElem_setIfInBounds_ne, Ne.symm hk]
  have hj := hr.2 j
  have kj := key j
  have c1 := congrArg Op.cls kj; have c2 := congrArg Op.qs kj; have c3 := congrArg Op.dur kj
  have c4 := congrArg Op.tag kj; have c5 := congrArg Op.ints kj; have c6 := congrArg Op.rep kj
  have d1 := congrArg Op.cls hj; have d2 := congrArg Op.qs hj; have d3 := congrArg Op.dur hj
  have d4 := congrArg Op.tag hj; have d5 := congrArg Op.ints hj; have d6 := congrArg Op.rep hj
  simp only [Op.noLink] at c1 c2 c3 c4 c5 c6 d1 d2 d3 d4 d5 d6
  exact ⟨c1.trans d1, c2.trans d2, c3.trans d3, c4.trans d4, c5.trans d5, c6.trans d6⟩

end Qco.C11
