import QcoVerif.Model.Noise
/-
  Stateless driver module `noise` (C14).

    noise table mz cz h x
        → "MZ=<mz>,M=<mz>,…"                       the duration table of the model
    noise dress <default> <individual> <indexmap> <durations> <instr>*
        default     t1,t2,assign                    each an exact rational n/d
        individual  - | name:t1,t2,assign;name:…
        indexmap    - | idx:name;idx:name
        durations   mz,cz,h,x                       integers (harness: ns)
        instr       NAME|targets|args               targets: - | t,t,…  with t = 5 (qubit) r-1 (rec[-1]) o3 (other)
                                                    args:    - | n/d,n/d,…
        → "ok <instr>* # <block durations> @ <qubit targets>"   the dressed circuit after splitting fused targets;
          args printed as l<n/d> (literal), a<n/d> (assignment error), px:<d>:<t1>:<t2> / py… / pz… (idle channel)
        → "error" where the code raises while parsing targets
-/
namespace Qco.Driver.Noise
open Qco.Noise

def parseQ? (s : String) : Option Q :=
  match s.splitOn "/" with
  | [n, d] => do some ⟨← n.toInt?, ← d.toNat?⟩
  | [n] => do some ⟨← n.toInt?, 1⟩
  | _ => none

def showQ (v : Q) : String := s!"{v.num}/{v.den}"

def parseList {α} (sep : String) (p : String → Option α) (s : String) : Option (List α) :=
  if s == "-" then some [] else (s.splitOn sep).mapM p

def parseQNoise? (s : String) : Option QNoise :=
  match s.splitOn "," with
  | [a, b, c] => do some ⟨← parseQ? a, ← parseQ? b, ← parseQ? c⟩
  | _ => none

def parseTarget? (s : String) : Option Target :=
  if s.startsWith "r" then (s.drop 1).toString.toInt?.map .mrec
  else if s.startsWith "o" then (s.drop 1).toString.toNat?.map .other
  else s.toNat?.map .q

def parseInstr? (s : String) : Option Instr :=
  match s.splitOn "|" with
  | [n, t, a] => do
    let ts ← parseList "," parseTarget? t
    let as ← parseList "," (fun x => (parseQ? x).map Arg.lit) a
    some ⟨n, ts, as⟩
  | _ => none

def parseSettings? (d i x t : String) : Option Settings := do
  let d ← parseQNoise? d
  let i ← parseList ";" (fun e => match e.splitOn ":" with
    | [n, v] => (parseQNoise? v).map (fun q => (n, q))
    | _ => none) i
  let x ← parseList ";" (fun e => match e.splitOn ":" with
    | [k, n] => k.toNat?.map (fun k => (k, n))
    | _ => none) x
  match (← parseList "," String.toInt? t) with
  | [mz, cz, h, xx] => some { default := d, individual := i, indexMap := x, durations := ⟨mz, cz, h, xx⟩ }
  | _ => none

def showTarget : Target → String
  | .q n => toString n
  | .mrec k => s!"r{k}"
  | .other k => s!"o{k}"

def showAxis : Axis → String
  | .x => "px" | .y => "py" | .z => "pz"

def showArg : Arg → String
  | .lit v => s!"l{showQ v}"
  | .assign v => s!"a{showQ v}"
  | .pauli a d t1 t2 => s!"{showAxis a}:{d}:{showQ t1}:{showQ t2}"

def showL {α} (f : α → String) (l : List α) : String :=
  if l.isEmpty then "-" else ",".intercalate (l.map f)

def showInstr (i : Instr) : String := s!"{i.name}|{showL showTarget i.targets}|{showL showArg i.args}"

def handle (args : List String) : String :=
  match args with
  | ["table", mz, cz, h, x] =>
    match mz.toInt?, cz.toInt?, h.toInt?, x.toInt? with
    | some mz, some cz, some h, some x =>
      ",".intercalate ((DurParams.table ⟨mz, cz, h, x⟩).map (fun (k, v) => s!"{k}={v}"))
    | _, _, _, _ => "bad-op"
  | "dress" :: d :: i :: x :: t :: instrs =>
    match parseSettings? d i x t, instrs.mapM parseInstr? with
    | some s, some c =>
      match dress s c with
      | none => "error"
      | some out =>
        let m := measDress s c
        let ds := (splitBlocks m).map (blockDuration s)
        let body := " ".intercalate ((flatten out).map showInstr)
        s!"ok {body} # {showL toString ds} @ {showL toString (allTargets m)}"
    | _, _ => "bad-op"
  | _ => "bad-op"

end Qco.Driver.Noise
