import QcoVerif.Lemmas.C10Order
import QcoVerif.Lemmas.C10Sched
import QcoVerif.Generated.C10Worlds
import QcoVerif.Lemmas.C10ParamWorlds0
import QcoVerif.Lemmas.C10ParamWorlds1
import QcoVerif.Lemmas.C10ParamWorlds2
import QcoVerif.Lemmas.C10ParamWorlds3
import QcoVerif.Lemmas.C10ParamRep
import QcoVerif.Lemmas.C10ParamExample
import QcoVerif.Lemmas.C10ParamBuild
import QcoVerif.Lemmas.C10ParamLayerBuild
/-
  C10 — library circuits never double-book a qubit channel.

  Full statement (properties.jsonl): in every circuit produced by the repetition-code and state-calibration
  constructors, no two operations of non-zero length that occupy a common qubit channel overlap in time, and no
  operation overlaps a barrier on one of the barrier's qubits, whatever the configured durations are; as
  constructed and after unrolling.

  What is proved here, about the evaluator `evStart / evEnd / evDur / evLeadSpan / evInterval / evRef`
  (QcoVerif/Model/Timing.lean; the definitions the driver's memoised evaluator mirrors) and about
  `linkStart`, `pickLatest`, `leadSpan`:

  GENERAL (every world, every non-negative duration setting, no bound on anything)
    * `followed_by_chain_no_overlap`  two operations on one FOLLOWED_BY path never overlap
      (single links and the multi links created by unrolling);
    * `fixed_relation_order_*`        FOLLOWED_BY / JOINED_START / JOINED_END pin start resp. end;
    * `block_after_block`             whatever is FOLLOWED_BY a block whose lead is 0 starts after every
                                      node of the block has ended (`leadSpan`), `interval_covers_nodes`
                                      extends this to all nesting depths;
    * `head_starts_with_block`        the hypothesis of the former is what the listing establishes.
  Times are read through `Start w o s := ∃ fuel, evStart w fuel o = some s` (likewise `End`, …); by
  `ev_mono_step` (Lemmas/C10Timing) a defined answer does not depend on the fuel, so these are partial
  functions (`Start.unique`, …).

  LIBRARY CLAUSE (second half of this file).  Deviation from DESIGN.md §4 C10, and why: the planned checker
  `layeredOk` was to work on recorded *programs* (segments between all-qubit barriers, one chain per channel,
  deepest chain coefficient-wise longest).  Its soundness needs a verified theory of the builder (`add`,
  copy, the mutating listing) and the builder cannot be evaluated by the kernel (`listing` is a `mergeSort`,
  well-founded recursion).  Instead the checker `scheduleOk` works on the HEAP the model builds for the
  recorded program (dumped by the driver, plain data) together with a symbolic schedule — start / lead / span
  of every object as linear forms in the global durations, decoupling wait split into the two regimes
  readout ≥ / < microwave — supplied as an untrusted certificate.  The checker verifies the certificate
  against the evaluator's local equations (minima / maxima of `leadSpan` justified by coefficient-wise
  dominance, which is the "deepest chain is a longest one" condition) and then separates every pair of
  channel-sharing operations coefficient-wise.
    * `layered_no_overlap`            soundness of the checker: `scheduleOk` ⇒ no double booking for ALL
                                      non-negative values of the variables (full, any world);
    * `layered_no_overlap_all_durations`  both regimes ⇒ all non-negative duration settings;
    * `library_schedules_checked_partial_*`, `library_no_double_booking_partial`: the checker evaluated by
      `decide +kernel` on the worlds of the shipped descriptions — BOUNDED: the generated list
      (Generated/C10Worlds.lean: both constructors, chain and the three Surface-17 layouts' sub-chains,
      calibration circuits; heaps of at most 110 objects because the kernel evaluation costs ≈ n^2.6), as
      constructed only (after unrolling the heap contains multi links whose choice depends on the
      durations at unrolling time; `checkStart` rejects them).
  Not proved: that the evaluator is *defined* on these worlds (it is: the driver prints their schedules in
  the correspondence run), that `contents` lists exactly the operations of `World.operations`, that the
  heap does not depend on the durations in force while building, and everything about larger inputs —
  there the general theorems above and the correspondence run are what there is.
-/
namespace Qco.C10

open Qco

/-! ## General theorems -/

/-- `b` is reachable from `a` through FOLLOWED_BY links (`a` is an ancestor of `b` in the relation tree). -/
inductive FbChain (w : World) : Nat → Nat → Prop
  | step {a b} : FbStep w a b → FbChain w a b
  | tail {a m b} : FbChain w a m → FbStep w m b → FbChain w a b

/-- **Two operations on one FOLLOWED_BY path never overlap**: in any world in which every leaf duration is
    non-negative, if `b` is reachable from `a` through FOLLOWED_BY links and the evaluator answers, then
    `end a ≤ start b` — for all durations, all shapes, all nesting. -/
theorem followed_by_chain_no_overlap {w : World} (hd : LeafDurNonneg w) {a b : Nat} (h : FbChain w a b)
    {ea sb : Int} (ha : End w a ea) (hb : Start w b sb) : ea ≤ sb := by
  induction h generalizing sb with
  | step hs =>
    obtain ⟨ea', hea', hle⟩ := fbStep_end_le_start hs hb
    rw [ha.unique hea']; exact hle
  | tail _ hs ih =>
    obtain ⟨em, hem, hle⟩ := fbStep_end_le_start hs hb
    obtain ⟨sm, dm, hsm, hdm, heq⟩ := hem.decompose
    have h0 : 0 ≤ dm := dur_nonneg hd hdm
    have := ih hsm
    omega

/-- the same as an interval statement: `[start a, end a)` and `[start b, end b)` are disjoint. -/
theorem followed_by_chain_disjoint {w : World} (hd : LeafDurNonneg w) {a b : Nat} (h : FbChain w a b)
    {sa ea sb eb : Int} (_hsa : Start w a sa) (ha : End w a ea) (hb : Start w b sb) (_heb : End w b eb) :
    ¬ (sa < eb ∧ sb < ea) := by
  have := followed_by_chain_no_overlap hd h ha hb
  omega

/-- FOLLOWED_BY: the successor starts exactly when the reference ends. -/
theorem fixed_relation_order_followed_by {w : World} {a b : Nat} (h : DirectRel w .fb a b)
    {ea sb : Int} (ha : End w a ea) (hb : Start w b sb) : sb = ea := by
  obtain ⟨sa, ea', d, _, hea', _, heq⟩ := start_of_direct h hb
  rw [heq, ha.unique hea']; rfl

/-- JOINED_START: both start together. -/
theorem fixed_relation_order_joined_start {w : World} {a b : Nat} (h : DirectRel w .js a b)
    {sa sb : Int} (ha : Start w a sa) (hb : Start w b sb) : sb = sa := by
  obtain ⟨sa', ea', d, hsa', _, _, heq⟩ := start_of_direct h hb
  rw [heq, ha.unique hsa']; rfl

/-- JOINED_END: both end together. -/
theorem fixed_relation_order_joined_end {w : World} {a b : Nat} (h : DirectRel w .je a b)
    {ea eb : Int} (ha : End w a ea) (hb : End w b eb) : eb = ea := by
  obtain ⟨sb, db, hsb, hdb, heq⟩ := hb.decompose
  obtain ⟨sa', ea', d, _, hea', hd', heq'⟩ := start_of_direct h hsb
  have h1 : d = db := hd'.unique hdb
  have h2 : ea = ea' := ha.unique hea'
  rw [heq, heq', h1, h2]
  simp only [linkStart]
  omega

/-- JOINED_START with a shorter (or equal) successor: the successor lies inside the reference. -/
theorem fixed_relation_order_joined_start_within {w : World} {a b : Nat} (h : DirectRel w .js a b)
    {sa ea sb eb da db : Int} (hsa : Start w a sa) (hea : End w a ea) (hsb : Start w b sb) (heb : End w b eb)
    (hda : DurV w a da) (hdb : DurV w b db) (hle : db ≤ da) : sa = sb ∧ eb ≤ ea := by
  have h1 := fixed_relation_order_joined_start h hsa hsb
  obtain ⟨s1, d1, hs1, hd1, e1⟩ := hea.decompose
  obtain ⟨s2, d2, hs2, hd2, e2⟩ := heb.decompose
  have := hs1.unique hsa; have := hs2.unique hsb; have := hd1.unique hda; have := hd2.unique hdb
  omega

/-- What the listing establishes for the first operations of a block: a node that carries the block's own
    link object (and the link is not JOINED_END — unreachable for sub-circuits through the API) starts when
    the block starts. -/
theorem head_starts_with_block {w : World} {c h : Nat} (hl : (w.op h).link = (w.op c).link)
    (hje : (w.lnk (w.op c).link).rel ≠ .je) {sh sc : Int} (hh : Start w h sh) (hc : Start w c sc) : sh = sc := by
  obtain ⟨d1, r1, _, hr1, hcase1⟩ := hh.decompose
  obtain ⟨d2, r2, _, hr2, hcase2⟩ := hc.decompose
  rw [hl] at hr1 hcase1
  have hr : r1 = r2 := hr1.unique hr2
  subst hr
  rcases hcase1 with ⟨hn1, e1⟩ | ⟨r', sr, er, hs1, hsr, her, e1⟩
  · rcases hcase2 with ⟨_, e2⟩ | ⟨r'', _, _, hs2, _, _, _⟩
    · rw [e1, e2]; rfl
    · rw [hn1] at hs2; cases hs2
  · rcases hcase2 with ⟨hn2, _⟩ | ⟨r'', sr', er', hs2, hsr', her', e2⟩
    · rw [hn2] at hs1; cases hs1
    · rw [hs1] at hs2; cases hs2
      have := hsr.unique hsr'; have := her.unique her'
      subst_vars
      cases hrel : (w.lnk (w.op c).link).rel with
      | fb => simp [linkStart]
      | js => simp [linkStart]
      | je => exact absurd hrel hje

/-- The interval of a block whose first operations start with it covers the interval of every node. -/
theorem interval_covers_nodes {w : World} {c : Nat} (hc : (w.op c).isComp = true)
    (hne : (w.op c).graph.isEmpty = false) (hheadsne : heads (w.op c).graph ≠ [])
    (hheads : ∀ h ∈ heads (w.op c).graph, ∀ sh sc, Start w h sh → Start w c sc → sh = sc)
    {iv : Int × Int} (hiv : IntervalV w c iv) {n : Nat} (hn : n ∈ listing (w.op c).graph)
    {ivn : Int × Int} (hivn : IntervalV w n ivn) : iv.1 ≤ ivn.1 ∧ ivn.2 ≤ iv.2 := by
  obtain ⟨sc, lead, span, hsc, hls, heq⟩ := hiv.decompose
  obtain ⟨hs, ivs, h1, h2, h3, _, _, hv⟩ := hls.comp hc hne
  -- every head start equals the block's start
  have hmin : minOf hs = sc := by
    have hsne : hs ≠ [] := by
      cases hh : heads (w.op c).graph with
      | nil => exact absurd hh hheadsne
      | cons x xs =>
        obtain ⟨s, hs', _⟩ := h1 x (by rw [hh]; exact List.mem_cons_self)
        exact List.ne_nil_of_mem hs'
    obtain ⟨n', hn', hs'⟩ := h2 _ (minOf_mem hsne)
    exact hheads n' hn' _ _ hs' hsc
  obtain ⟨iv', hiv', hivn'⟩ := h3 n hn
  have : iv' = ivn := hivn'.unique hivn
  subst this
  have hlo : minOf (ivs.map (·.1)) ≤ iv'.1 := minOf_le (List.mem_map.mpr ⟨iv', hiv', rfl⟩)
  have hhi : iv'.2 ≤ maxOf (ivs.map (·.2)) := le_maxOf (List.mem_map.mpr ⟨iv', hiv', rfl⟩)
  simp only [leadSpan, Prod.mk.injEq] at hv
  obtain ⟨hv1, hv2⟩ := hv
  rw [heq]
  simp only
  omega

/-- **Block after block**: an operation FOLLOWED_BY a sub-circuit whose lead is 0 (no contained operation
    starts before the block's first operations) and whose first operations start with it starts after
    every node of the block has ended. -/
theorem block_after_block {w : World} {c x : Nat} (hc : (w.op c).isComp = true)
    (hne : (w.op c).graph.isEmpty = false) (hheadsne : heads (w.op c).graph ≠ [])
    (hheads : ∀ h ∈ heads (w.op c).graph, ∀ sh sc, Start w h sh → Start w c sc → sh = sc)
    (hx : FbStep w c x) {span : Int} (hls : LeadSpanV w c (0, span))
    {sx : Int} (hsx : Start w x sx) {n : Nat} (hn : n ∈ listing (w.op c).graph)
    {ivn : Int × Int} (hivn : IntervalV w n ivn) : ivn.2 ≤ sx := by
  obtain ⟨ec, hec, hle⟩ := fbStep_end_le_start hx hsx
  obtain ⟨sc, dc, hsc, hdc, heq⟩ := hec.decompose
  obtain ⟨l', hls'⟩ := hdc.decompose
  have := hls.unique hls'
  simp only [Prod.mk.injEq] at this
  obtain ⟨hl0, hsp⟩ := this
  have hiv : IntervalV w c (sc - 0, sc - 0 + span) := IntervalV.of_start_leadSpan hsc hls
  have := (interval_covers_nodes hc hne hheadsne hheads hiv hn hivn).2
  simp only at this
  omega

/-- for a contained *leaf* operation: it has ended. -/
theorem block_after_block_leaf {w : World} {c x : Nat} (hc : (w.op c).isComp = true)
    (hne : (w.op c).graph.isEmpty = false) (hheadsne : heads (w.op c).graph ≠ [])
    (hheads : ∀ h ∈ heads (w.op c).graph, ∀ sh sc, Start w h sh → Start w c sc → sh = sc)
    (hx : FbStep w c x) {span : Int} (hls : LeadSpanV w c (0, span))
    {sx : Int} (hsx : Start w x sx) {n : Nat} (hn : n ∈ listing (w.op c).graph)
    (hleaf : (w.op n).isComp = false) {en : Int} (hen : End w n en) : en ≤ sx := by
  obtain ⟨sn, dn, hsn, hdn, heq⟩ := hen.decompose
  obtain ⟨l, hl⟩ := hdn.decompose
  have hl0 := hl.leaf hleaf
  simp only [Prod.mk.injEq] at hl0
  have hiv := IntervalV.of_start_leadSpan hsn hl
  have := block_after_block hc hne hheadsne hheads hx hls hsx hn hiv
  simp only at this
  omega

/-! ### the hypotheses are satisfiable (non-vacuity) -/

/-- q0: Rx180, then a measurement FOLLOWED_BY it, then a barrier FOLLOWED_BY the measurement; a second
    Rx180 JOINED_START / a third JOINED_END to the measurement. Default durations (8, 16, 4 units). -/
def demo : World :=
  { ops := #[ { cls := .rx180, qs := [0], dur := .glob .mw, link := 1 },
              { cls := .measure, qs := [0], dur := .glob .ro, link := 2 },
              { cls := .barrier, qs := [0], dur := .fixed 4, link := 3 },
              { cls := .rx180, qs := [1], dur := .glob .mw, link := 4 },
              { cls := .rx180, qs := [2], dur := .glob .mw, link := 5 } ],
    links := #[ {}, {}, { refs := [0] }, { refs := [1] }, { refs := [1], rel := .js }, { refs := [1], rel := .je } ] }

example : FbChain demo 0 2 := .tail (.step ⟨rfl, Or.inl ⟨rfl, rfl⟩⟩) ⟨rfl, Or.inl ⟨rfl, rfl⟩⟩
example : End demo 0 8 := ⟨4, by decide +kernel⟩
example : Start demo 2 24 := ⟨12, by decide +kernel⟩
example : DirectRel demo .js 1 3 ∧ Start demo 3 8 ∧ Start demo 1 8 :=
  ⟨⟨rfl, rfl, rfl⟩, ⟨12, by decide +kernel⟩, ⟨12, by decide +kernel⟩⟩
example : DirectRel demo .je 1 4 ∧ End demo 4 24 ∧ End demo 1 24 :=
  ⟨⟨rfl, rfl, rfl⟩, ⟨12, by decide +kernel⟩, ⟨12, by decide +kernel⟩⟩
example : LeafDurNonneg demo := by
  intro o _
  have hcases : o = 0 ∨ o = 1 ∨ o = 2 ∨ o = 3 ∨ o = 4 ∨ 5 ≤ o := by omega
  rcases hcases with rfl | rfl | rfl | rfl | rfl | h
  · decide +kernel
  · decide +kernel
  · decide +kernel
  · decide +kernel
  · decide +kernel
  · have hs : demo.ops.size = 5 := rfl
    have : demo.op o = default := by
      unfold World.op
      rw [Array.getD_eq_getD_getElem?, Array.getElem?_eq_none (by omega)]
      rfl
    rw [this]; decide +kernel

/-! ## Library clause -/

/-- **Soundness of the schedule checker** (`layered_no_overlap` of DESIGN.md, on heaps instead of programs):
    if `scheduleOk w R T c` holds then for ALL non-negative values of the variables (for which the regime's
    `wait` is the decoupling wait), under the durations the regime assigns, no two distinct operations of
    circuit `c` that share a channel and are both of non-zero length overlap, and nothing overlaps a
    barrier — whenever the evaluator answers. -/
theorem layered_no_overlap {w : World} {R : Regime} {T : Table} {c : Nat} (hok : scheduleOk w R T c = true)
    {v : Vars} (hv : v.Nonneg) (hR : R.Valid v) : NoDoubleBooking (R.world w v) c :=
  scheduleOk_sound hok hv hR

/-- Both regimes checked ⇒ all non-negative durations (readout − microwave even when non-negative: the
    integer time unit can always be halved). -/
theorem layered_no_overlap_all_durations {w : World} {c : Nat} {TA TB : Table}
    (hA : scheduleOk w regimeA TA c = true) (hB : scheduleOk w regimeB TB c = true)
    {ro mw fl rs : Int} (hro : 0 ≤ ro) (hmw : 0 ≤ mw) (hfl : 0 ≤ fl) (hrs : 0 ≤ rs)
    (heven : mw ≤ ro → (ro - mw) % 2 = 0) : NoDoubleBooking (withDurations w ro mw fl rs) c :=
  noDoubleBooking_of_both_regimes hA hB hro hmw hfl hrs heven

/- Full statement, NOT proved: for every constructor input the heap built by the model satisfies
   `NoDoubleBooking` for all non-negative durations, as constructed and after `applyModifiers`.
   Proved: the generated list below (bounded), as constructed. -/
theorem library_schedules_checked_partial_0 : Generated.chunk0.all Case.ok = true := by decide +kernel
theorem library_schedules_checked_partial_1 : Generated.chunk1.all Case.ok = true := by decide +kernel
theorem library_schedules_checked_partial_2 : Generated.chunk2.all Case.ok = true := by decide +kernel
theorem library_schedules_checked_partial_3 : Generated.chunk3.all Case.ok = true := by decide +kernel

/-- every generated library circuit: no double booking for all non-negative durations. -/
theorem library_no_double_booking_partial (x : Case) (hx : x ∈ Generated.cases)
    {ro mw fl rs : Int} (hro : 0 ≤ ro) (hmw : 0 ≤ mw) (hfl : 0 ≤ fl) (hrs : 0 ≤ rs)
    (heven : mw ≤ ro → (ro - mw) % 2 = 0) : NoDoubleBooking (withDurations x.w ro mw fl rs) x.c := by
  have hok : x.ok = true := by
    unfold Generated.cases at hx
    simp only [List.mem_append] at hx
    rcases hx with ((h | h) | h) | h
    · exact List.all_eq_true.mp library_schedules_checked_partial_0 x h
    · exact List.all_eq_true.mp library_schedules_checked_partial_1 x h
    · exact List.all_eq_true.mp library_schedules_checked_partial_2 x h
    · exact List.all_eq_true.mp library_schedules_checked_partial_3 x h
  unfold Case.ok at hok
  rw [Bool.and_eq_true] at hok
  exact noDoubleBooking_of_both_regimes hok.1 hok.2 hro hmw hfl hrs heven

/-! non-vacuity: the list is not empty, the circuits contain operations, channel-sharing pairs exist, and the
    hypotheses on the durations are satisfiable. -/
example : 0 < Generated.cases.length := by decide +kernel
example : ∀ x ∈ Generated.cases, 8 ≤ (contents x.w (x.w.ops.size + 2) x.c).length := by decide +kernel
example : ((contents Generated.w0 (Generated.w0.ops.size + 2) 0).any (fun a =>
    (contents Generated.w0 (Generated.w0.ops.size + 2) 0).any (fun b =>
      a != b && mustBeDisjoint Generated.w0 Generated.tA0 a b))) = true := by decide +kernel
example : (0:Int) ≤ 16 ∧ (0:Int) ≤ 8 ∧ ((8:Int) ≤ 16 → (16 - 8 : Int) % 2 = 0) := by decide
example : (Vars.mk 3 5 1 1).Nonneg ∧ regimeA.Valid ⟨3, 5, 1, 1⟩ ∧ regimeB.Valid ⟨3, 5, 1, 1⟩ :=
  have h : (Vars.mk 3 5 1 1).Nonneg := ⟨by decide, by decide, by decide, by decide⟩
  ⟨h, regimeA_valid h, regimeB_valid h⟩

/-! ## Parametric layer theorems: WHY the library circuits are overlap-free, independent of the number of qubits

  (Lemmas/C10Param.lean, C10ParamNested.lean, C10ParamCheck.lean, C10ParamFast.lean; namespace `Qco.C10Param`.)

  The schedule checker above verifies heap by heap, pair by pair, what is one uniform argument: between two
  synchronisation points (the start of a block, an all-qubit barrier, the last operation of the previous gate layer)
  every qubit group carries ONE FOLLOWED_BY path of operations, and whatever comes next hangs below the last
  operation of a path that ends LATEST (`Dominated`: the "deepest chain is a longest one").  The theorems of this
  section state and prove that argument about the evaluator `evStart / evEnd / evDur / evLeadSpan` for an ARBITRARY
  number of paths (qubits), path lengths, layers and nesting levels and ALL non-negative durations:

    * `followed_by_path_schedule`      exact schedule of a path: start = end of the anchor + Σ durations before;
    * `layer_last_ending_path`         one layer: every operation has ended when the dominating path ends;
    * `layers_ordered`                 a block of layers: two distinct operations are ordered in time unless they sit
                                       on two different paths of ONE layer;
    * `layered_block_no_double_booking`  hence no double booking of a (flat) block of layers;
    * `uniform_layer_dominated`, `refocusing_layer_dominated`, `refocusing_layer_closed`
                                       the two kinds of layers of a QEC round satisfy the dominance hypothesis for every
                                       number of qubits and all durations (no symbolic schedule, no regimes);
    * `builder_hangs_below_last_match`, `builder_hangs_barrier_below_last_listed`
                                       one step of `World.add`: where the builder puts an operation (why the closing
                                       barrier hangs below the last-listed, deepest path);
    * `builder_starts_new_path`, `builder_extends_path`, `builder_closes_layer`
                                       program steps on a flat block (invariant `LInv`, any number of paths / lengths):
                                       how the builder lays out a layer and where it hangs the closing operation;
    * `nested_blocks_lead_zero`, `nested_block_covers`, `nested_block_follows`
                                       blocks of layers nested in blocks of layers: lead 0, the interval of a block covers
                                       everything below it, what a block is linked to precedes everything below it;
    * `nested_layers_no_double_booking`  no double booking of nested blocks of layers (`NoDoubleBooking`).
  `layeredOk` is the hypothesis bundle as a Boolean function of a heap (durations symbolic, as for `scheduleOk`;
  the layers are read off the relation trees by `autoCert` — no certificate), sound by `layered_check_sound`,
  `layered_check_all_durations`.

  LIBRARY CLAUSE, extended (still BOUNDED to generated lists, but 10 × larger and including the unrolled variants):
    * `library_layers_generated_partial`   all 26 heaps of Generated/C10Worlds are instances of the layer theorem
      (layers read off the heap, no schedule table involved);
    * `library_layers_checked_partial_0..3`, `library_no_double_booking_layered_partial`: 55 further heaps
      (Lemmas/C10ParamWorlds0..3, written by tools/gen_c10_param_worlds.py: 16 984 objects, up to 822 objects per heap):
      the chain family with 3, 5, …, 17 qubits (every distance that fits the device), cycle counts 0 … 5, with and without
      refocusing, the Surface-17 layout sub-chains, full and simplified constructor, AS CONSTRUCTED AND AFTER
      `apply_modifiers` (group links: `LayerOk.sync`, `DirectFb`);
    * `library_no_double_booking_any_repetition_counts_partial`: the same heaps with arbitrary repetition counts (for
      `cycles ≥ 4` the constructed heap depends on `cycles` only through one repetition count).
  A sub-circuit may consist of SEVERAL sequences of layers (`BlockOk`: branches of the relation tree that have
  children of their own, e.g. for `cycles = 0` the ancilla and the data measurement block below the initialisation
  block); two nodes that lie on no common sequence must not conflict.
  Not proved: that the constructor's heap is layered for EVERY distance (needs a parametric model of the constructor's
  heap — the builder functions `add` / `copyObj` run on a symbolic distance; only generated DATA exists). -/

open Qco.C10Param

/-- `Reach` of the lemma files is the `FbChain` of this file. -/
theorem reach_iff_fbChain {w : World} {a b : Nat} : Reach w a b ↔ FbChain w a b := by
  constructor
  · intro h
    induction h with
    | step h => exact .step h
    | tail _ h ih => exact .tail ih h
  · intro h
    induction h with
    | step h => exact .step h
    | tail _ h ih => exact .tail ih h

/-- **Exact schedule of a FOLLOWED_BY path** (any length): if `pre ++ [y]` hangs below `a` through links with the
    single reference of the predecessor and the start of `y` is defined, then so are the end of `a` and the durations
    of `pre`, and `start y = end a + Σ durations of pre`. -/
theorem followed_by_path_schedule {w : World} (pre : List Nat) (a y : Nat) (h : FbPath w a (pre ++ [y]))
    {sy : Int} (hsy : Start w y sy) : ∃ ea D, End w a ea ∧ PathDur w pre D ∧ sy = ea + D :=
  fbPath_times pre a y h sy hsy

/-- **Layer lemma** (any number of paths, any path lengths, any non-negative durations): in a layer whose paths
    start together (`LayerCore`) every operation of every path has ended when the last operation of the dominating
    path `main` ends — so whatever hangs below that operation starts after the whole layer. -/
theorem layer_last_ending_path {w : World} {L : LayerData} (hL : LayerCore w L) {a : Nat}
    {c : List Nat} (hc : c ∈ L.chains) {y : Nat} (hy : y ∈ c) {ey : Int} (hey : End w y ey)
    {em : Int} (hem : End w (lastOf a L.main) em) : ey ≤ em :=
  core_before_next hL hc hy hey hem

/-- **Block of layers** (any number of layers): two distinct operations are ordered in time — one has ended when
    the other starts — unless they sit on two different paths of the same layer. -/
theorem layers_ordered {w : World} (hd : LeafDurNonneg w) {L : LayerData} {rest : List LayerData} {a : Nat}
    (hL : LayerCore w L) (hrest : Layers w (lastOf a L.main) rest)
    {x y : Nat} (hx : x ∈ layerOps (L :: rest)) (hy : y ∈ layerOps (L :: rest)) (hxy : x ≠ y) :
    Before w x y ∨ Before w y x ∨ DiffChains (L :: rest) x y :=
  block_ordered hd hL hrest x hx y hy hxy

/-- **No double booking of a block of layers**: if the operations of sub-circuit `c` are those of a block of layers
    and operations on different paths of one layer share no channel, no two channel-sharing operations of `c`
    overlap. -/
theorem layered_block_no_double_booking {w : World} (hd : LeafDurNonneg w) {L : LayerData} {rest : List LayerData}
    {a c : Nat} (hL : LayerCore w L) (hrest : Layers w (lastOf a L.main) rest)
    (hcont : ∀ x ∈ contents w (w.ops.size + 2) c, x ∈ layerOps (L :: rest))
    (hsep : Separated w (L :: rest)) : NoDoubleBooking w c :=
  block_no_double_booking hd hL hrest hcont hsep

/-- **Uniform layers are dominated** (all paths carry the same sequence of duration strategies: the Ry90 / CPhase and
    parking / virtual-phase / Rym90 layers, reset – measurement per qubit, …): any number of paths, all durations. -/
theorem uniform_layer_dominated {w : World} (hd : LeafDurNonneg w) {chains : List (List Nat)} {main : List Nat}
    (hleaf : ∀ c ∈ chains, ∀ x ∈ c, (w.op x).isComp = false) (hmain : ∀ x ∈ main, (w.op x).isComp = false)
    (h : ∀ c ∈ chains, durs w c = durs w main) : Dominated w chains main :=
  dominated_uniform hd hleaf hmain h

/-- **The refocusing layer is dominated** by a refocusing path (measurement ‖ wait – pulse – wait): any number of
    data and ancilla qubits, all non-negative durations with readout − microwave even when non-negative. -/
theorem refocusing_layer_dominated {w : World} (hd : LeafDurNonneg w) {chains : List (List Nat)} {main : List Nat}
    (hleaf : ∀ c ∈ chains, ∀ x ∈ c, (w.op x).isComp = false) (hmainleaf : ∀ x ∈ main, (w.op x).isComp = false)
    (hmain : durs w main = [.decoupling, .glob .mw, .decoupling])
    (h : ∀ c ∈ chains, durs w c = [.glob .ro] ∨ durs w c = durs w main)
    (heven : w.gMw ≤ w.gRo → (w.gRo - w.gMw) % 2 = 0) : Dominated w chains main :=
  dominated_refocus hd hleaf hmainleaf hmain h heven

/-- **The refocusing layer of a QEC round, any number of qubits**: below an operation `b` (the barrier) hang, one
    per qubit, ancilla measurements and refocusing paths wait – pulse – wait; whatever is FOLLOWED_BY the last wait
    of one refocusing path (`close`: the closing barrier, which `add` hangs below the LAST path) starts after every
    measurement and every pulse of the layer has ended — although it is linked to one path only. -/
theorem refocusing_layer_closed {w : World} (hd : LeafDurNonneg w) {b : Nat} {L : LayerData}
    (hint : ∀ c ∈ L.chains, ∀ x xs, c = x :: xs → FbPath w x xs)
    (hstep : ∀ c ∈ L.chains, ∀ x xs, c = x :: xs → DirectFb w b x)
    (hmem : L.main ∈ L.chains)
    (hleaf : ∀ c ∈ L.chains, ∀ x ∈ c, (w.op x).isComp = false)
    (hmain : durs w L.main = [.decoupling, .glob .mw, .decoupling])
    (hkinds : ∀ c ∈ L.chains, durs w c = [.glob .ro] ∨ durs w c = durs w L.main)
    (heven : w.gMw ≤ w.gRo → (w.gRo - w.gMw) % 2 = 0)
    {close : Nat} (hclose : FbStep w (lastOf b L.main) close)
    {c : List Nat} (hc : c ∈ L.chains) {y : Nat} (hy : y ∈ c) {ey sc : Int} (hey : End w y ey)
    (hsc : Start w close sc) : ey ≤ sc := by
  have hne : L.main ≠ [] := by
    intro h0
    rw [h0] at hmain
    cases hmain
  have hL : LayerOk w b L :=
    ⟨hint, fun c hc x xs hcx => (hstep c hc x xs hcx).fbStep, Or.inl hstep, Or.inr ⟨hne, hmem⟩,
     dominated_refocus hd hleaf (hleaf _ hmem) hmain hkinds heven⟩
  obtain ⟨em, hem, hle⟩ := fbStep_end_le_start hclose hsc
  have := layer_before_next hL hc hy hey hem
  omega

/-- **One step of the builder** (`World.add`, the function the driver executes for
    `CircuitCompositeOperation.add`): an operation without relation is hung, by a fresh single FOLLOWED_BY link
    (`DirectFb`), below the LAST node of the listing that shares a channel with it (`leafAtAny`), which is a deepest
    one among the matching nodes. -/
theorem builder_hangs_below_last_match {w : World} {c o lf : Nat} (hc : c < w.ops.size) (ho : o < w.ops.size)
    (hoc : o ≠ c) (hrel : w.hasRel o = false) (hleaf : w.leafAtAny (w.op c).graph (w.chansOf o) = some lf) :
    DirectFb (w.add c o) lf o ∧ ((w.add c o).op c).graph = attach (w.op c).graph (some lf) o ∧
    ∃ e ∈ (w.op c).graph, e.node = lf ∧
      ∀ e' ∈ (w.op c).graph, matchesNode w (w.chansOf o) e'.node = true → e'.key.length ≤ e.key.length :=
  ⟨(add_links_below_leaf hc ho hoc hrel hleaf).1, (add_links_below_leaf hc ho hoc hrel hleaf).2,
   leafAtAny_deepest hleaf⟩

/-- **Where the builder puts an all-qubit barrier** (an operation that shares a channel with every node): below the
    last node of the listing, a deepest node of the relation tree — the layer theorem asks that the path of that
    node be one of the last to end ("the deepest path is a longest one"). -/
theorem builder_hangs_barrier_below_last_listed {w : World} {c o : Nat} (hc : c < w.ops.size) (ho : o < w.ops.size)
    (hoc : o ≠ c) (hrel : w.hasRel o = false) {lf : Nat} (hlast : (listing (w.op c).graph).getLast? = some lf)
    (hall : ∀ n ∈ listing (w.op c).graph, matchesNode w (w.chansOf o) n = true) :
    DirectFb (w.add c o) lf o ∧ ((w.add c o).op c).graph = attach (w.op c).graph (some lf) o ∧
    ∃ e ∈ (w.op c).graph, e.node = lf ∧ ∀ e' ∈ (w.op c).graph, e'.key.length ≤ e.key.length :=
  add_all_matching_below_last hc ho hoc hrel hlast hall

/-- **Builder, a new path** (program step `addNew` = fresh link, fresh operation, `World.add`, on a flat block
    under construction, invariant `LInv`): an operation that shares a channel with the opener (if any) but with no
    operation of the open layer starts a new path below the opener — any number of paths. -/
theorem builder_starts_new_path {w : World} {c : Nat} {desc : Nat → Op} {opener : Option Nat} {kb : List Nat}
    {groups : List (List Nat)} (h : LInv w c desc opener kb groups) {d : Op} (hd : d.isComp = false)
    (hop : ∀ b, opener = some b → sharesChannel d (desc b) = true)
    (hno : ∀ x ∈ groups.flatten, sharesChannel d (desc x) = false) :
    LInv (addNew c w d) c (descUpd desc w.ops.size d) opener kb (groups ++ [[w.ops.size]]) :=
  step_new h hd hop hno

/-- **Builder, extending a path**: an operation that shares a channel with the LAST operation of one path and with no
    operation of another path is hung below that last operation — any path length. -/
theorem builder_extends_path {w : World} {c : Nat} {desc : Nat → Op} {opener : Option Nat} {kb : List Nat}
    {A B : List (List Nat)} {pre : List Nat} {x : Nat}
    (h : LInv w c desc opener kb (A ++ (pre ++ [x]) :: B)) {d : Op} (hd : d.isComp = false)
    (hx : sharesChannel d (desc x) = true)
    (hno : ∀ y ∈ (A ++ B).flatten, sharesChannel d (desc y) = false) :
    LInv (addNew c w d) c (descUpd desc w.ops.size d) opener kb (A ++ (pre ++ [x] ++ [w.ops.size]) :: B) :=
  step_ext h hd hx hno

/-- **Builder, closing a layer**: an operation that shares a channel with the last operation `x` of a path that is at
    least as long as every earlier path and longer than every later one is hung below `x` (a single FOLLOWED_BY link)
    and opens the next layer: the closing barrier hangs below the LAST of the LONGEST paths — which the layer theorem
    requires to be one of the last to end. -/
theorem builder_closes_layer {w : World} {c : Nat} {desc : Nat → Op} {opener : Option Nat} {kb : List Nat}
    {A B : List (List Nat)} {pre : List Nat} {x : Nat}
    (h : LInv w c desc opener kb (A ++ (pre ++ [x]) :: B)) {d : Op} (hd : d.isComp = false)
    (hx : sharesChannel d (desc x) = true)
    (hA : ∀ G ∈ A, G.length ≤ pre.length + 1) (hB : ∀ G ∈ B, G.length < pre.length + 1) :
    LInv (addNew c w d) c (descUpd desc w.ops.size d) (some w.ops.size)
      (layerKey kb A.length (pre.length + 1)) [] ∧ DirectFb (addNew c w d) x w.ops.size := by
  obtain ⟨h1, h2, _⟩ := step_close h hd hx hA hB
  exact ⟨h1, h1.directFb h2 rfl⟩

/-- **Nested blocks of layers have lead 0** (no contained operation starts before the first operations). -/
theorem nested_blocks_lead_zero {w : World} (hd : LeafDurNonneg w) {cert : Nat → List (List LayerData)} {f X : Nat}
    (h : Nested w cert f X) {l d : Int} (hls : LeadSpanV w X (l, d)) : l = 0 :=
  nested_lead_zero hd f X h l d hls

/-- **The interval of a nested block covers every leaf operation below it.** -/
theorem nested_block_covers {w : World} (hd : LeafDurNonneg w) {cert : Nat → List (List LayerData)} {f X : Nat}
    (h : Nested w cert f X) {ex : Int} (hex : End w X ex) {a : Nat} (ha : a ∈ leavesBelow w f X)
    {ea : Int} (hea : End w a ea) : ea ≤ ex :=
  nested_covers hd f X h ex hex a ha ea hea

/-- **What a nested block is FOLLOWED_BY-linked to precedes every leaf operation below it.** -/
theorem nested_block_follows {w : World} (hd : LeafDurNonneg w) {cert : Nat → List (List LayerData)} {f X : Nat}
    (h : Nested w cert f X) {P : Nat} (hP : FbStep w P X) {a : Nat} (ha : a ∈ leavesBelow w f X)
    {ep sa : Int} (hep : End w P ep) (hsa : Start w a sa) : ep ≤ sa :=
  (nested_reach f X h P hP a ha).before hd ep sa hep hsa

/-- **Nested blocks of layers never double-book a channel** — every number of qubits, paths, layers, nesting levels,
    all non-negative durations. -/
theorem nested_layers_no_double_booking {w : World} (hd : LeafDurNonneg w) {cert : Nat → List (List LayerData)} {c : Nat}
    (hc : (w.op c).isComp = true) (h : Nested w cert (w.ops.size + 2) c) : NoDoubleBooking w c :=
  nested_no_double_booking hd hc h

/-- **Soundness of the layered check**: `layeredOk w R cert c` ⇒ no double booking for ALL non-negative values of
    the variables. -/
theorem layered_check_sound {w : World} {R : Regime} {cert : Nat → List (List LayerData)} {c : Nat}
    (h : layeredOk w R cert c = true) {v : Vars} (hv : v.Nonneg) (hR : R.Valid v) :
    NoDoubleBooking (R.world w v) c :=
  layeredOk_sound h hv hR

/-- both regimes ⇒ all non-negative duration settings. -/
theorem layered_check_all_durations {w : World} {c : Nat} {certA certB : Nat → List (List LayerData)}
    (hA : layeredOk w regimeA certA c = true) (hB : layeredOk w regimeB certB c = true)
    {ro mw fl rs : Int} (hro : 0 ≤ ro) (hmw : 0 ≤ mw) (hfl : 0 ≤ fl) (hrs : 0 ≤ rs)
    (heven : mw ≤ ro → (ro - mw) % 2 = 0) : NoDoubleBooking (withDurations w ro mw fl rs) c :=
  layered_all_durations hA hB hro hmw hfl hrs heven

/- Full statement, NOT proved: the heap the model builds for EVERY constructor input is an instance
   (`layeredOk … = true`, or `Nested` directly).  Proved: the lists below (bounded). -/

/-- ALL heaps of Generated/C10Worlds are instances of the layer theorem (layers read off the heap, no schedule
    table). -/
theorem library_layers_generated_partial : Generated.cases.all caseLayered = true := by decide +kernel

/-- hence: no double booking for all non-negative durations, by the layer theorem alone. -/
theorem library_no_double_booking_layered_generated_partial (x : Case) (hx : x ∈ Generated.cases)
    {ro mw fl rs : Int} (hro : 0 ≤ ro) (hmw : 0 ≤ mw) (hfl : 0 ≤ fl) (hrs : 0 ≤ rs)
    (heven : mw ≤ ro → (ro - mw) % 2 = 0) : NoDoubleBooking (withDurations x.w ro mw fl rs) x.c :=
  caseLayered_sound x (List.all_eq_true.mp library_layers_generated_partial x hx) hro hmw hfl hrs heven

/-- the larger generated heaps (chains of 3 … 17 qubits, 0 … 5 cycles, as constructed and unrolled): checked by the
    kernel in their own modules. -/
theorem library_layers_checked_partial_0 : Worlds0.cases.all TCase.ok = true := Worlds0.checked
theorem library_layers_checked_partial_1 : Worlds1.cases.all TCase.ok = true := Worlds1.checked
theorem library_layers_checked_partial_2 : Worlds2.cases.all TCase.ok = true := Worlds2.checked
theorem library_layers_checked_partial_3 : Worlds3.cases.all TCase.ok = true := Worlds3.checked

/-- the heaps of the layered list. -/
def layeredCases : List TCase := Worlds0.cases ++ Worlds1.cases ++ Worlds2.cases ++ Worlds3.cases

/-- every heap of the layered list: no double booking for all non-negative durations. -/
theorem library_no_double_booking_layered_partial (x : TCase) (hx : x ∈ layeredCases)
    {ro mw fl rs : Int} (hro : 0 ≤ ro) (hmw : 0 ≤ mw) (hfl : 0 ≤ fl) (hrs : 0 ≤ rs)
    (heven : mw ≤ ro → (ro - mw) % 2 = 0) : NoDoubleBooking (withDurations x.w ro mw fl rs) x.c := by
  have hok : x.ok = true := by
    unfold layeredCases at hx
    simp only [List.mem_append] at hx
    rcases hx with ((h | h) | h) | h
    · exact List.all_eq_true.mp library_layers_checked_partial_0 x h
    · exact List.all_eq_true.mp library_layers_checked_partial_1 x h
    · exact List.all_eq_true.mp library_layers_checked_partial_2 x h
    · exact List.all_eq_true.mp library_layers_checked_partial_3 x h
  exact x.sound hok hro hmw hfl hrs heven

/-! ### cycle counts: the evaluator never reads a repetition count

  As constructed, the heap of `construct_repetition_code_circuit(qec_cycles = k)` is for every `k ≥ 4` the heap for
  `k = 4` with the repetition strategy of the middle block (and of its two copies) set to `k − 3` — observed with the
  recorder for k = 5, 6, 9, 20 at 3, 5, 7 qubits, kernel-checked below for k = 5 at 3 qubits, not proved for all k (it
  is a statement about the constructor).  `RepEquiv w w'`: equal up to repetition strategies. -/

/-- **No double booking does not depend on repetition counts** (the evaluator never reads them,
    `Qco.C10Param.ev_repEquiv`). -/
theorem no_double_booking_ignores_repetition_counts {w w' : World} (h : RepEquiv w w') (hreg : w'.dreg = w.dreg)
    {c : Nat} {ro mw fl rs : Int} (hw : NoDoubleBooking (withDurations w ro mw fl rs) c) :
    NoDoubleBooking (withDurations w' ro mw fl rs) c :=
  noDoubleBooking_repEquiv (h.withDurations ro mw fl rs hreg) hw

/-- every heap of the layered list, with ARBITRARY repetition counts: no double booking for all non-negative
    durations (as constructed; unrolling such a heap is another heap). -/
theorem library_no_double_booking_any_repetition_counts_partial (x : TCase) (hx : x ∈ layeredCases) (g : Nat → Rep)
    {ro mw fl rs : Int} (hro : 0 ≤ ro) (hmw : 0 ≤ mw) (hfl : 0 ≤ fl) (hrs : 0 ≤ rs)
    (heven : mw ≤ ro → (ro - mw) % 2 = 0) : NoDoubleBooking (withDurations (withReps x.w g) ro mw fl rs) x.c :=
  no_double_booking_ignores_repetition_counts (repEquiv_withReps x.w g) (withReps_dreg x.w g)
    (library_no_double_booking_layered_partial x hx hro hmw hfl hrs heven)

/-! ### the hypotheses of the parametric theorems are satisfiable (non-vacuity)

  `Example.ddDemo` (Lemmas/C10ParamExample.lean): the refocusing layer of a QEC round — barrier; ancilla measurement
  ‖ wait – Rx180 – wait on the data qubit; closing barrier below the last wait — under the default durations
  (`ddWorld`).  The two paths of the middle layer have different operations and equal length (16 = 4 + 8 + 4). -/

open Qco.C10Param.Example in
example : FbPath ddWorld 1 [3, 4, 5] ∧ Start ddWorld 5 16 ∧ End ddWorld 1 4 ∧ PathDur ddWorld [3, 4] 12 := by
  refine ⟨?_, ⟨20, by decide +kernel⟩, ⟨20, by decide +kernel⟩, ?_⟩
  · exact ⟨⟨rfl, Or.inl ⟨rfl, rfl⟩⟩, ⟨rfl, Or.inl ⟨rfl, rfl⟩⟩, ⟨rfl, Or.inl ⟨rfl, rfl⟩⟩, trivial⟩
  · exact ⟨4, 8, ⟨20, by decide +kernel⟩, ⟨8, 0, ⟨20, by decide +kernel⟩, rfl, rfl⟩, rfl⟩

-- `followed_by_path_schedule` on it: start of the last wait = end of the barrier + (wait + Rx180)
open Qco.C10Param.Example in
example : ∃ ea D, End ddWorld 1 ea ∧ PathDur ddWorld [3, 4] D ∧ (16 : Int) = ea + D :=
  followed_by_path_schedule [3, 4] 1 5
    ⟨⟨rfl, Or.inl ⟨rfl, rfl⟩⟩, ⟨rfl, Or.inl ⟨rfl, rfl⟩⟩, ⟨rfl, Or.inl ⟨rfl, rfl⟩⟩, trivial⟩ ⟨20, by decide +kernel⟩

-- the hypothesis bundles: `LeafDurNonneg`, `LayerCore`, `Layers`, `SeqOk` (⇒ `HeadLayerOk`), `BlockOk`,
-- `Nested`; the layers are what `autoCert` reads off the heap
open Qco.C10Param.Example in
example : LeafDurNonneg ddWorld ∧ LayerCore ddWorld ddL0 ∧ Layers ddWorld (lastOf 0 ddL0.main) ddRest ∧
    SeqOk ddWorld 0 ddL0 ddRest 8 ∧ BlockOk ddWorld 0 [ddL0 :: ddRest] 8 ∧
    Nested ddWorld (autoCert ddDemo) (ddWorld.ops.size + 2) 0 ∧ autoCert ddDemo 0 = [ddL0 :: ddRest] :=
  ⟨ddDemo_durs, ddDemo_core, ddDemo_layers, ddDemo_seq, ddDemo_block, ddDemo_nested, ddDemo_cert⟩

-- the layer lemma says something there: the measurement (16 long) has ended when the refocusing path (4 + 8 + 4) ends
open Qco.C10Param.Example in
example : End ddWorld 2 20 ∧ End ddWorld 5 20 ∧ Start ddWorld 6 20 :=
  ⟨ddDemo_times.1, ddDemo_times.2.1, ddDemo_times.2.2.1⟩

-- `layer_last_ending_path` on the middle layer (two paths of different shape): the measurement has ended when the
-- last wait ends
open Qco.C10Param.Example in
example : LayerCore ddWorld ⟨[[2], [3, 4, 5]], [3, 4, 5]⟩ ∧ ∀ ey em, End ddWorld 2 ey → End ddWorld 5 em → ey ≤ em := by
  have hL : LayerOk ddWorld 1 ⟨[[2], [3, 4, 5]], [3, 4, 5]⟩ := ddDemo_layers.1
  have hcore := hL.core (by simp) (by simp)
  exact ⟨hcore, fun ey em hey hem =>
    layer_last_ending_path hcore (a := 0) (c := [2]) (by simp) (y := 2) (by simp) hey hem⟩

-- `layered_block_no_double_booking` on it: paths of one layer share no channel, the contents are the layer operations
open Qco.C10Param.Example in
example : Separated ddWorld (ddL0 :: ddRest) ∧ NoDoubleBooking ddWorld 0 := by
  have hsep : Separated ddWorld (ddL0 :: ddRest) := by unfold Separated; decide +kernel
  refine ⟨hsep, layered_block_no_double_booking ddDemo_durs (a := 0) ddDemo_core ddDemo_layers ?_ hsep⟩
  have h1 : contents ddWorld (ddWorld.ops.size + 2) 0 = [1, 2, 3, 4, 5, 6] := by decide +kernel
  have h2 : layerOps (ddL0 :: ddRest) = [1, 2, 3, 4, 5, 6] := by decide +kernel
  intro x hx
  rw [h1] at hx; rw [h2]; exact hx

-- `refocusing_layer_dominated` on it
open Qco.C10Param.Example in
example : Dominated ddWorld [[2], [3, 4, 5]] [3, 4, 5] :=
  refocusing_layer_dominated ddDemo_durs (by decide +kernel) (by decide +kernel) rfl
    (by intro c hc
        simp only [List.mem_cons, List.not_mem_nil, or_false] at hc
        rcases hc with rfl | rfl
        · exact Or.inl rfl
        · exact Or.inr rfl)
    (by decide +kernel)

-- `uniform_layer_dominated`: the first layer of the initialisation block of Generated.w2 (five qubits): reset –
-- heralding measurement on every qubit
example : (∀ c ∈ [[25, 30], [26, 31], [27, 32], [28, 33], [29, 34]], durs Generated.w2 c = durs Generated.w2 [29, 34]) ∧
    durs Generated.w2 [29, 34] = [.glob .rs, .glob .ro] ∧
    (∀ c ∈ [[25, 30], [26, 31], [27, 32], [28, 33], [29, 34]], ∀ x ∈ c, (Generated.w2.op x).isComp = false) := by
  decide +kernel

-- `refocusing_layer_closed` on it: opener = barrier 1, paths [2] (measurement) and [3, 4, 5], closing barrier 6
open Qco.C10Param.Example in
example : ∀ ey sc, End ddWorld 2 ey → Start ddWorld 6 sc → ey ≤ sc := by
  intro ey sc hey hsc
  have hL : LayerOk ddWorld 1 ⟨[[2], [3, 4, 5]], [3, 4, 5]⟩ := ddDemo_layers.1
  refine refocusing_layer_closed ddDemo_durs (b := 1) (L := ⟨[[2], [3, 4, 5]], [3, 4, 5]⟩) hL.internal ?_ ?_ ?_ ?_ ?_ ?_
    (close := 6) ?_ (c := [2]) ?_ (y := 2) ?_ hey hsc
  · intro c hc x xs hcx
    simp only [List.mem_cons, List.not_mem_nil, or_false] at hc
    rcases hc with rfl | rfl
    · cases hcx; exact ⟨rfl, Or.inl ⟨rfl, rfl⟩⟩
    · cases hcx; exact ⟨rfl, Or.inl ⟨rfl, rfl⟩⟩
  · simp
  · decide +kernel
  · rfl
  · intro c hc
    simp only [List.mem_cons, List.not_mem_nil, or_false] at hc
    rcases hc with rfl | rfl
    · exact Or.inl rfl
    · exact Or.inr rfl
  · decide +kernel
  · exact ⟨rfl, Or.inl ⟨rfl, rfl⟩⟩
  · simp
  · simp

-- the builder step: `ddOpen` is `ddDemo` before the closing barrier 6 is added; the model's own `add` hangs it below
-- the last wait 5 (last node of the listing [1, 2, 3, 4, 5]) and produces the relation tree of `ddDemo`
open Qco.C10Param.Example in
example : listing (ddOpen.op 0).graph = [1, 2, 3, 4, 5] ∧ ddOpen.hasRel 6 = false ∧
    DirectFb (ddOpen.add 0 6) 5 6 ∧ ((ddOpen.add 0 6).op 0).graph = (ddDemo.op 0).graph :=
  ⟨ddOpen_listing, by decide +kernel, ddOpen_add.1, ddOpen_add.2⟩

-- the builder theorems on the program of `ddDemo` (barrier; measurement; wait, Rx180, wait; barrier), run from a fresh
-- circuit through the model's own `World.add`: the barrier opens, the measurement and the first wait start paths,
-- Rx180 and the second wait extend the second path, the closing barrier is hung below the last wait
example : ∃ (W : World) (desc : Nat → Op) (kb : List Nat) (o : Nat), LInv W 0 desc (some o) kb [] := by
  let w0 : World := (({} : World).newCircuit (.fixed 1)).1
  let dB : Op := { cls := .barrier, qs := [0, 1], dur := .fixed 4 }
  let dM : Op := { cls := .measure, qs := [1], dur := .glob .ro }
  let dW : Op := { cls := .wait, qs := [0], dur := .decoupling }
  let dX : Op := { cls := .rx180, qs := [0], dur := .glob .mw }
  have h0 : LInv w0 0 (fun _ => default) none [] [] := linv_fresh w0 0 _ (by decide) rfl
  have h1 := builder_starts_new_path h0 (d := dB) rfl (by intro b hb; cases hb) (by intro x hx; cases hx)
  have s1 : (addNew 0 w0 dB).ops.size = 2 := by rw [(addNew_spec w0 0 dB h0.flat rfl).size]; rfl
  have h2 := promote (A := []) (pre := []) (B := []) h1 (by intro G hG; cases hG) (by intro G hG; cases hG)
  have h3 := builder_starts_new_path h2 (d := dM) rfl (by intro b hb; cases hb; decide) (by intro x hx; cases hx)
  have s2 : (addNew 0 (addNew 0 w0 dB) dM).ops.size = 3 := by rw [(addNew_spec _ 0 dM h2.flat rfl).size, s1]
  rw [s1] at h3
  have h4 := builder_starts_new_path h3 (d := dW) rfl (by intro b hb; cases hb; decide) (by decide)
  rw [s2] at h4
  have s3 : (addNew 0 (addNew 0 (addNew 0 w0 dB) dM) dW).ops.size = 4 := by
    rw [(addNew_spec _ 0 dW h3.flat rfl).size, s2]
  have h5 := builder_extends_path (A := [[2]]) (pre := []) (x := 3) (B := []) h4 (d := dX) rfl (by decide) (by decide)
  rw [s3] at h5
  have s4 : (addNew 0 (addNew 0 (addNew 0 (addNew 0 w0 dB) dM) dW) dX).ops.size = 5 := by
    rw [(addNew_spec _ 0 dX h4.flat rfl).size, s3]
  have h6 := builder_extends_path (A := [[2]]) (pre := [3]) (x := 4) (B := []) h5 (d := dW) rfl (by decide) (by decide)
  rw [s4] at h6
  have h7 := (builder_closes_layer (A := [[2]]) (pre := [3, 4]) (x := 5) (B := []) h6 (d := dB) rfl (by decide)
    (by decide) (by intro G hG; cases hG)).1
  exact ⟨_, _, _, _, h7⟩

-- channel-sharing pairs that are NOT on one FOLLOWED_BY path exist (measurement of qubit 1 vs the closing barrier)
open Qco.C10Param.Example in
example : sharesChannel (ddWorld.op 2) (ddWorld.op 6) = true ∧ (ddWorld.op 6).cls = .barrier ∧
    ¬ (ddWorld.lnk (ddWorld.op 6).link).refs.head? = some 2 := by decide +kernel

-- the contents of the block are the six operations; the flat-block theorem applies
open Qco.C10Param.Example in
example : contents ddWorld (ddWorld.ops.size + 2) 0 = [1, 2, 3, 4, 5, 6] ∧
    layerOps (ddL0 :: ddRest) = [1, 2, 3, 4, 5, 6] := by decide +kernel

open Qco.C10Param.Example in
example : layeredOk ddDemo regimeA (autoCert ddDemo) 0 = true ∧ layeredOk ddDemo regimeB (autoCert ddDemo) 0 = true :=
  ddDemo_ok

-- a NESTED instance: the complete circuit `construct_repetition_code_circuit(1)` on three qubits (Generated.w1):
-- four nesting levels, 106 objects
example : Nested (regimeA.world Generated.w1 Example.vDemo) (autoCert Generated.w1)
    ((regimeA.world Generated.w1 Example.vDemo).ops.size + 2) 0 ∧ (Generated.w1.op 0).isComp = true := by
  have hv := Example.vDemo_nonneg
  have hR := regimeA_valid hv
  have hd : LeafDurNonneg (regimeA.world Generated.w1 Example.vDemo) :=
    dursNonnegB_sound (by decide +kernel) hv hR
  exact ⟨nestedB_sound hv hR hd _ 0 (by decide +kernel), by decide +kernel⟩

-- how a library ROUND is an instance: sub-circuit 81 of that heap is the copy of `get_circuit_qec_round(...)` that
-- sits in the circuit (Ry90 – barrier – CPhase – barrier – … – Rym90 – barrier – measurement, 13 operations)
example : layeredOk Generated.w1 regimeA (autoCert Generated.w1) 81 = true ∧
    (contents Generated.w1 (Generated.w1.ops.size + 2) 81).length = 13 := by decide +kernel

-- the lists are not empty, the heaps are large, the unrolled variants are among them
example : layeredCases.length = 55 ∧ (layeredCases.map (·.n)).sum = 16984 ∧
    (layeredCases.map (·.n)).foldl max 0 = 822 := by decide +kernel
example : (layeredCases.map (·.name)).contains "full chain-7-1 cycles=2 data=1010 UNROLLED" = true ∧
    (layeredCases.map (·.name)).contains "full chain-17-1 cycles=2 data=101010101" = true ∧
    (layeredCases.map (·.name)).contains "simplified chain-9-1 cycles=4 data=10101 UNROLLED" = true := by
  decide +kernel

-- a block with SEVERAL sequences of layers: `cycles = 0` (Generated.w2, five qubits): below the initialisation block
-- 24 the ancilla measurement block 44 (with the detectors below it) and the data measurement block 51 (with the
-- observables below it)
example : autoCert Generated.w2 0 =
    [[⟨[[24]], [24]⟩, ⟨[[44]], [44]⟩, ⟨[[55], [56]], [56]⟩],
     [⟨[[24]], [24]⟩, ⟨[[51]], [51]⟩, ⟨[[57], [58], [59]], [59]⟩]] := by decide +kernel

/-- the heap of the layered list with the given name (the empty heap if there is none). -/
def layeredCase (name : String) : TCase :=
  (layeredCases.find? (fun x => x.name == name)).getD ⟨"", .nil, 0, .nil, 0, [], [], 0⟩

-- repetition counts: the recorded heap for 5 cycles is the one for 4 cycles up to repetition strategies
example : RepEquiv (layeredCase "full chain-3-1 cycles=4 data=10").w (layeredCase "full chain-3-1 cycles=5 data=10").w ∧
    (layeredCase "full chain-3-1 cycles=4 data=10").n = 295 ∧ (layeredCase "full chain-3-1 cycles=5 data=10").n = 295 :=
  ⟨(repEquivB_sound (by decide +kernel)).1, by decide +kernel, by decide +kernel⟩

end Qco.C10
