"""C11 — flattening keeps the operations."""
from . import progs, streamcheck, libclause

PROP = 'C11'


def nontrivial(prog, f):
    return f['flatten'] >= 1 and f['sub'] >= 1 and f['ops'] >= 4


SPEC = streamcheck.StreamSpec(
    PROP, probes=['C11', 'C02m'],
    cfg=progs.GenConfig(static_durations=True, n_cmds=(6, 36), p_list=0.05, p_rel=0.0, p_foreign=0.0, p_sub=0.18, p_apply=0.06,
                        p_flatten=0.10, p_copy=0.0),
    n_quick=1200, n_thorough=40000,
    nontrivial=nontrivial,
    pysem=dict(groups=[], effects=True),
    extra_check=libclause.c11_library,
    rule='random IMPLICITLY sequenced build programs (no explicit relations) with nesting and counts; at every flatten: '
         'leaf multiset (kind, qubits, duration strategy, tag, fields) unchanged, no sub-circuit remains, a second '
         'flatten changes neither the listing nor a relation; every listing compared with the model; '
         'non-trivial = a flatten of a nested circuit with >= 4 operations; distinct = distinct program text')


def run(tier, seed):
    return streamcheck.run(SPEC, tier, seed)
