import QcoVerif.Lemmas.RepTable
/-
  C09 — repetition-code circuits run the protocol: deterministic detectors, exact record.

  About `Qco.RepCode.program` (the model of `to_stim(construct_repetition_code_circuit(...))` with REPEAT
  blocks unrolled — the very function the driver prints and harness/c09.py compares with the real export) and
  `Qco.StimSem.run` (product-state semantics of the exported gate set, validated against stim's tableau
  simulator by the harness).

  FULL STATEMENT (the property as written): for EVERY code distance, all computational initial states of
  data and ancilla qubits, all numbers of QEC cycles ≥ 0, chain descriptions and every contiguous sub-chain
  of the Surface-17 repetition layouts, with and without refocusing: the run is defined, the record is
  heralding zeros ++ per cycle c and ancilla j  a_j ⊕ (c mod 2)(x_a ⊕ x_b) ++ final data x_i ⊕ [refocus ∧
  (cycles−1) odd]; every requested initial state is prepared; all (d−1)(cycles+1) detectors and the
  observable are deterministic.

  WHAT IS PROVED (`…_partial`): exactly that, for ALL cycle counts (induction over the repeated block,
  period 2) and ALL initial states (symbolic variables + `symbolic_sound`), but for the descriptions of
  the finite table `allEntries` only:
    * chain descriptions with 0 … 9 data qubits (chain length ≤ 17 = all that fits on the device),
    * every contiguous data-terminated sub-chain (forward chain order) of Repetition9Code,
      Repetition9Round6Code, Repetition5Round4Code (table generated from the live code),
    each with and without refocusing, for containers that give a state to every data qubit and to all or to
    none of the ancilla qubits.
  MISSING for the full statement: chain descriptions of more than 9 data qubits (an induction over the chain
  length was not attempted), containers that give states to only some qubits, sub-chains listed in another
  qubit order (all three are covered by the correspondence run only).
-/
namespace Qco.C09
open Qco.StimSem Qco.RepCode

/-! ### the semantics -/

/-- Instantiating the initial-state variables commutes with running: the run of the instantiated program
    from the instantiated state is the instantiated symbolic run (and is undefined exactly when that is). -/
theorem symbolic_sound (σ : Nat → Bool) (p : List Ins) (s : St) :
    run (p.map (instIns σ)) (mapSt (evalNat σ) s) = (run p s).map (mapSt (evalNat σ)) :=
  run_hom (evalNat_formHom σ) p s

/-- SHIFT_COORDS instructions can be moved, added or removed without changing the run (record, detector
    values, observable, definedness) — needed because unrolling displaces them (known finding R5). -/
theorem run_ignores_annotation_position (p p' : List Ins) (s : St)
    (h : p.filter (fun i => !isShift i) = p'.filter (fun i => !isShift i)) : run p s = run p' s := by
  rw [← run_dropShift p s, ← run_dropShift p' s, h]

example : ([Ins.M 0, .SHIFT 0 1, .DET 0 0 [-1]] : List Ins).filter (fun i => !isShift i)
    = ([Ins.SHIFT 0 1, .M 0, .DET 0 0 [-1], .SHIFT 0 1] : List Ins).filter (fun i => !isShift i) := by decide

/-! ### one QEC round -/

/-- One QEC round with dynamical decoupling on the state "data x_i, ancilla a_j" (symbolic): data stays x_i
    (⊕1 with refocusing), ancilla j is measured and left at a_j ⊕ x_a ⊕ x_b; the next round returns to the
    start (period 2).  For every table description. -/
theorem round_effect_partial {e : Desc × Nat × Nat} (he : e ∈ allEntries) (b : Bool) :
    run (roundDD e.1) ⟨stateB e.1 e.2.1 e.2.2 b, [], [], 0⟩ =
      some ⟨stateB e.1 e.2.1 e.2.2 (!b), cB e.1 e.2.1 e.2.2 (!b), [], 0⟩ := by
  have F := facts_of_mem he
  cases b
  · exact F.round0
  · exact F.round1

/-! ### the protocol -/

/-- `protocol_record` for the table descriptions: for all cycles ≥ 0 and all computational initial states
    the exported program exists, its run is defined (so every measurement is deterministic) and the record
    is the closed form `expectedRecord` (heralding zeros; cycle c, ancilla j: a_j ⊕ (c mod 2)(x_a ⊕ x_b);
    final data x_i ⊕ [refocus ∧ (cycles−1) odd]) instantiated with the given states. -/
theorem protocol_record_partial {e : Desc × Nat × Nat} (he : e ∈ allEntries) (cycles : Nat) (ds as : List Bool)
    (hD : ds.length = e.2.1) (hA : as.length = e.2.2) :
    ∃ p sf, program e.1 cycles ds as = some p ∧ run p (start e.1.size) = some sf ∧
      sf.mrec.reverse = (expectedRecord e.1 cycles e.2.1 e.2.2).map (evalNat (assign ds as)) := by
  obtain ⟨prep, sf, _, hprog, _, hrun, hrec, _, _⟩ := facts_concrete (facts_of_mem he) cycles ds as hD hA
  exact ⟨_, sf, hprog, hrun, hrec⟩

/-- Reading the closed form: under any assignment σ of the initial states the outcome of ancilla `q` in cycle
    `c` is  a_q ⊕ (c mod 2)·(x_a ⊕ x_b)  for its two parity neighbours a, b … -/
theorem record_entry_value (σ : Nat → Bool) (d : Desc) (nD nA c q : Nat) :
    evalNat σ (cycleForm d nD nA c q) =
      evalNat σ (aVar d nD nA q) ^^^
        (if c % 2 = 1 then evalNat σ (xVar d nD (nbrOf d q).1) ^^^ evalNat σ (xVar d nD (nbrOf d q).2) else 0) := by
  unfold cycleForm cycleFormB parityForm par
  by_cases h : c % 2 = 1
  · simp [h, evalNat_xor]
  · simp [h, evalNat_zero]

/-- … and the final value of data qubit `q` is  x_q ⊕ [refocusing ∧ (cycles − 1) odd]. -/
theorem final_entry_value (σ : Nat → Bool) (d : Desc) (nD cycles q : Nat) :
    evalNat σ (finalForm d nD cycles q) =
      evalNat σ (xVar d nD q) ^^^ (if d.refocus = true ∧ (cycles - 1) % 2 = 1 then 1 else 0) := by
  unfold finalForm finalFormB par
  by_cases h : d.refocus = true ∧ (cycles - 1) % 2 = 1
  · obtain ⟨h1, h2⟩ := h
    simp [h1, h2, evalNat_xor, evalNat_one]
  · have : (d.refocus && ((cycles - 1) % 2 == 1)) = false := by
      cases hr : d.refocus <;> simp_all
    simp [this, h, evalNat_xor, evalNat_zero]

/-- the hypotheses are satisfiable: distance-3 chain with refocusing, all states given -/
example : (chainDesc 3 true, 3, 2) ∈ allEntries := by decide
example : ([true, false, true] : List Bool).length = (chainDesc 3 true, 3, 2).2.1 := rfl
/-- … and a sub-chain of Repetition9Code without refocusing, data states only (D4 Z1 D5 Z4 D6 is among them) -/
example : ∃ e ∈ allEntries, e.1.refocus = false ∧ e.2.2 = 0 ∧ e.1.layers.length = 4 ∧ e.1.ancIdx.length = 2 := by decide

/-- All ancillas·(cycles+1) detectors and the logical observable are deterministic: the run is defined and
    each detector evaluates to the constant `expectedDetectors` gives (first cycle a_j ⊕ x_a ⊕ x_b, second
    cycle a_j, every later one — including the final ones — 0), the observable to the sum of the final data
    values. -/
theorem detectors_deterministic_partial {e : Desc × Nat × Nat} (he : e ∈ allEntries) (cycles : Nat)
    (ds as : List Bool) (hD : ds.length = e.2.1) (hA : as.length = e.2.2) :
    ∃ p sf, program e.1 cycles ds as = some p ∧ run p (start e.1.size) = some sf ∧
      p.countP isDet = e.1.ancIdx.length * (cycles + 1) ∧
      sf.det.reverse = (expectedDetectors e.1 cycles e.2.1 e.2.2).map (evalNat (assign ds as)) ∧
      (∀ v ∈ sf.det, v = 0 ∨ v = 1) := by
  obtain ⟨prep, sf, _, hprog, _, hrun, _, hdet, _⟩ := facts_concrete (facts_of_mem he) cycles ds as hD hA
  refine ⟨_, sf, hprog, hrun, ?_, hdet, ?_⟩
  · have hc := (run_counts _ _ _ hrun).1
    have hl : sf.det.length = e.1.ancIdx.length * (cycles + 1) := by
      rw [← List.length_reverse, hdet, List.length_map, expectedDetectors_length]
    simp only [start, List.length_nil, Nat.zero_add] at hc
    omega
  · intro v hv
    have : v ∈ sf.det.reverse := List.mem_reverse.mpr hv
    rw [hdet, List.mem_map] at this
    obtain ⟨f, _, rfl⟩ := this
    unfold evalNat
    cases evalForm (assign ds as) f <;> simp

theorem observable_deterministic_partial {e : Desc × Nat × Nat} (he : e ∈ allEntries) (cycles : Nat)
    (ds as : List Bool) (hD : ds.length = e.2.1) (hA : as.length = e.2.2) :
    ∃ p sf, program e.1 cycles ds as = some p ∧ run p (start e.1.size) = some sf ∧
      sf.obs = evalNat (assign ds as) (expectedObservable e.1 cycles e.2.1) := by
  obtain ⟨prep, sf, _, hprog, _, hrun, _, _, hobs⟩ := facts_concrete (facts_of_mem he) cycles ds as hD hA
  exact ⟨_, sf, hprog, hrun, hobs⟩

/-! ### the preparation layer -/

/-- Every requested initial state is prepared: right after the preparation layer (heralding measurements all
    0) data qubit i is |x_i⟩ and ancilla qubit j is |a_j⟩ (|0⟩ if the container gives no ancilla states). -/
theorem initial_state_prepared_partial {e : Desc × Nat × Nat} (he : e ∈ allEntries) (ds as : List Bool)
    (hD : ds.length = e.2.1) (hA : as.length = e.2.2) :
    ∃ prep s, prepConc e.1 ds as = some prep ∧ run (initPart e.1 prep) (start e.1.size) = some s ∧
      s.mrec = zeros e.1 ∧
      (∀ i, i < ds.length → s.q[e.1.dataIdx.getD i 0]? = some ⟨.Z, (ds.getD i false).toNat⟩) ∧
      (∀ j, j < e.1.ancIdx.length → s.q[e.1.ancIdx.getD j 0]? = some ⟨.Z, (as.getD j false).toNat⟩) := by
  have F := facts_of_mem he
  obtain ⟨prep, sf, hprep, _, hinit, _⟩ := facts_concrete F 0 ds as hD hA
  refine ⟨prep, _, hprep, hinit, ?_, ?_, ?_⟩
  · simp [mapSt, zeros, evalNat_zero]
  · intro i hi
    have h := F.prepData
    rw [List.all_eq_true] at h
    have := h i (List.mem_range.mpr (hD ▸ hi))
    simp only [decide_eq_true_eq] at this
    simp only [mapSt, List.getElem?_map, this, Option.map_some, mapQ, evalNat_var, assign_data ds as i hi]
  · intro j hj
    have h := F.prepAnc
    rw [List.all_eq_true] at h
    have := h j (List.mem_range.mpr hj)
    simp only [decide_eq_true_eq] at this
    simp only [mapSt, List.getElem?_map, this, Option.map_some, mapQ]
    by_cases hjA : j < e.2.2
    · simp only [hjA, if_true, evalNat_var, ← hD, assign_anc ds as j]
    · have : as[j]?.getD false = false := by
        rw [List.getElem?_eq_none (by omega)]; rfl
      simp [hjA, evalNat_zero, this]

/-! ### stim's `flattened()` -/

/-- Applying the coordinate shifts to the detector coordinates and dropping SHIFT_COORDS (what
    `stim.Circuit.flattened()` does, `flatProgram`) does not change the run. -/
theorem flattened_same_run (p : List Ins) (a b : Int) (s : St) : run (applyShifts p a b) s = run p s := by
  induction p generalizing a b s with
  | nil => rfl
  | cons i is ih =>
    cases i <;> simp only [applyShifts, run, step, ih] <;> rfl

end Qco.C09
