import QcoVerif.Model.StimExport
/-
  OpenQL export (`addon_openql`): the sequence of calls `to_openql` makes on the OpenQL API.

  Mirrors
  * `factory_manager.py`              — class → instruction table (13 entries, exact-type lookup);
  * `operation_factories/*.py`        — name based: `kernel.gate(name, qubits)`; barrier: `kernel.barrier(qubits)`;
                                         wait: `kernel.wait(qubits, int(duration))`; controlled phase:
                                         `kernel.cz(c, t); kernel.barrier([c, t]); kernel.gate('update_ph', c);
                                         kernel.gate('update_ph', t)` (the last two with a bare int);
  * `intrf_openql_factory.py`         — `construct`: names from `construct_uuid` (uuid5 of the class names of
                                         `decomposed_operations()`, which is the MUTATING listing), one program and
                                         one kernel per (sub-)circuit, the kernel filled while walking the graph nodes
                                         in listing order, a sub-circuit exported recursively with id
                                         `sub_<program name>` and `add_program`ed `nr_of_repetitions` times during
                                         the walk, the own kernel `add_kernel`ed last.

  The trace is a flat token list with implicit brackets: `open … close` delimits one call of `construct`.
  uuid5 is not modelled: a name is represented by the class-name sequence it is derived from (the harness hashes).
  Core Lean only.
-/
namespace Qco

/-- a call on an OpenQL kernel. -/
inductive QCall
  | gate (name : String) (qs : List Int)     -- kernel.gate(name, [q, …])
  | gate1 (name : String) (q : Int)          -- kernel.gate(name, q)
  | cz (c t : Int)                           -- kernel.cz(c, t)
  | barrier (qs : List Int)                  -- kernel.barrier([q, …])
  | wait (qs : List Int) (cycles : Int)      -- kernel.wait([q, …], cycles)
  deriving DecidableEq, Repr, Inhabited

/-- trace token. -/
inductive QTok
  /-- `construct` starts: `construct_program(name)` then `construct_kernel(name)`; the program name is
      `"sub_" × depth ++ "program_" ++ uuid8(top)`, the kernel name `"kernel_" ++ uuid8(seq)`. -/
  | opn (depth : Nat) (top seq : List Cls)
  | call (c : QCall)                         -- a call on the kernel of the innermost open `construct`
  | addProgram                               -- `add_program(inner)` of the `construct` that just closed
  | close                                    -- `add_kernel(kernel)`; `construct` returns
  deriving DecidableEq, Repr, Inhabited

/-- name-based entries of `OpenQLFactoryManager`'s table. -/
def Cls.qlName : Cls → Option String
  | .reset => some "prepz"
  | .hadamard => some "h"
  | .identity => some "i"
  | .measure => some "measure"
  | .rx180 => some "x180"
  | .rx90 => some "x90"
  | .rxm90 => some "mx90"
  | .ry180 => some "y180"
  | .ry90 => some "y90"
  | .rym90 => some "my90"
  | _ => none

/-- is the class in the table at all (13 entries)? -/
def Cls.qlSupported (c : Cls) : Bool := c.qlName.isSome || c == .barrier || c == .wait || c == .cphase

/-- `int(duration)` of a duration in units of 1/8: truncation toward zero. -/
def waitCycles (d : Int) : Int := Int.tdiv d 8

/-- kernel calls an operation is exported as (`[]` = class not in the table). -/
def World.qlCalls (w : World) (o : Op) : List QCall :=
  match o.cls with
  | .barrier => [.barrier o.exportQubits]
  | .wait => [.wait o.exportQubits (waitCycles (w.leafDur o.dur))]
  | .cphase =>
    let c := o.qs.headD 0
    let t := (o.qs.drop 1).headD 0
    [.cz c t, .barrier o.exportQubits, .gate1 "update_ph" c, .gate1 "update_ph" t]
  | c =>
    match c.qlName with
    | some nm => [.gate nm o.exportQubits]
    | none => []

/-- class-name sequence `construct_uuid` hashes (listing of the pure walk; equal to the mutating listing,
    `operations_eq_leafListing`). -/
def World.qlSeq (w : World) (c : Nat) : List Cls := (w.leafListing w.depthFuel c).map (fun n => (w.op n).cls)

/-- the trace of `construct(c, circuit_id)`; `depth = 0`, `top = []` for the exported circuit itself. -/
def World.qlWalk (w : World) : Nat → Nat → Nat → List Cls → List QTok
  | 0, _, _, _ => []
  | f+1, c, depth, top =>
    let seq := w.qlSeq c
    let top' := if depth == 0 then seq else top
    [.opn depth top' seq] ++
    (listing (w.op c).graph).flatMap (fun n =>
      if (w.op n).isComp then
        w.qlWalk f n (depth + 1) top' ++ List.replicate (w.repCount (w.op n).rep) .addProgram
      else (w.qlCalls (w.op n)).map .call) ++
    [.close]

/-- `to_openql(circuit)` without a circuit id. -/
def World.openql (w : World) (c : Nat) : List QTok := w.qlWalk w.depthFuel c 0 []

/-- what the export does to the heap: every `construct` lists its circuit with the mutating listing. -/
def World.qlMutate (w : World) : Nat → Nat → World
  | 0, _ => w
  | f+1, c =>
    let w := (w.operations c).1
    (listing (w.op c).graph).foldl (fun w n => if (w.op n).isComp then w.qlMutate f n else w) w

/-! ### what OpenQL executes (trusted reading of `add_program` / `add_kernel`: a program is the list of its
    kernels in the order they were added, `add_program` appends the other program's kernels at that moment) -/

structure QFrame where
  kernel : List QCall := []          -- calls on the frame's kernel so far
  program : List (List QCall) := []  -- kernels of the frame's program so far
  deriving Repr, Inhabited

/-- stack machine over the trace: (open frames, program returned by the last closed `construct`). -/
def qlStep (st : List QFrame × List (List QCall)) (t : QTok) : List QFrame × List (List QCall) :=
  match t, st with
  | .opn _ _ _, (fs, last) => ({} :: fs, last)
  | .call c, (f :: fs, last) => ({ f with kernel := f.kernel ++ [c] } :: fs, last)
  | .addProgram, (f :: fs, last) => ({ f with program := f.program ++ last } :: fs, last)
  | .close, (f :: fs, _) => (fs, f.program ++ [f.kernel])
  | _, st => st

/-- the gate calls in the order the exported program executes them. -/
def qlExec (toks : List QTok) : List QCall := ((toks.foldl qlStep ([], [])).2).flatten

/-- the calls made on the kernel of the outermost `construct` of a trace (bracket depth 1). -/
def ownCalls : Nat → List QTok → List QCall
  | _, [] => []
  | d, .opn _ _ _ :: ts => ownCalls (d + 1) ts
  | d, .close :: ts => ownCalls (d - 1) ts
  | d, .call c :: ts => if d == 1 then c :: ownCalls d ts else ownCalls d ts
  | d, .addProgram :: ts => ownCalls d ts

/-- the in-order image: listing order, sub-circuits in place and repeated their count (the exported circuit's
    own count is not applied by `to_openql`, and not by this specification either). -/
def World.qlInOrder (w : World) (c : Nat) : List QCall :=
  (w.expanded w.depthFuel c).flatMap (fun n => w.qlCalls (w.op n))

/-! ### canonical text -/

def showIntList (xs : List Int) : String := ",".intercalate (xs.map toString)

def QCall.show : QCall → String
  | .gate nm qs => s!"g:{nm}:{showIntList qs}"
  | .gate1 nm q => s!"u:{nm}:{q}"
  | .cz c t => s!"cz:{c},{t}"
  | .barrier qs => s!"b:{showIntList qs}"
  | .wait qs n => s!"w:{showIntList qs}:{n}"

def showSeq (s : List Cls) : String := "_".intercalate (s.map Cls.name)

def QTok.show : QTok → String
  | .opn d top seq => s!"open:{d}:{showSeq top}:{showSeq seq}"
  | .call c => c.show
  | .addProgram => "ap"
  | .close => "close"

def showTrace (l : List QTok) : String := ";".intercalate (l.map QTok.show)

end Qco
