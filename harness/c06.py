"""C06 — applying repetition modifiers unrolls n back-to-back copies, once."""
from . import progs, streamcheck, libclause

PROP = 'C06'


def nontrivial(prog, f):
    return f['apply'] >= 1 and f['rep_gt1'] >= 1 and f['sub'] >= 1


SPEC = streamcheck.StreamSpec(
    PROP, probes=['C06', 'C02m'],
    cfg=progs.GenConfig(static_durations=True, n_cmds=(6, 36), p_list=0.05, p_new=0.16, p_sub=0.16, p_apply=0.10, p_flatten=0.0, p_copy=0.0,
                        reps=[1, 2, 2, 3], p_regrep=0.25, p_setreg=0.06),
    n_quick=1200, n_thorough=40000,
    nontrivial=nontrivial,
    extra_check=libclause.c06_library,
    rule='random build programs with nesting <= 4 and counts 1-3 at every level (fixed and registry-provided); at every '
         'apply_modifiers: all counts 1 afterwards, operations outside repeated blocks untouched (identity, signature, '
         'link), a block whose last-ending operation is a relation leaf occupies n*T, second application changes nothing; '
         'every listing is compared with the unrolled shadow multiset (content x product of enclosing counts); '
         'non-trivial = an unrolling of a nested count > 1; distinct = distinct program text',
    assumptions=['counts >= 1 (a count of 0 is outside the quantifier)'])


def run(tier, seed):
    return streamcheck.run(SPEC, tier, seed)
