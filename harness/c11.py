"""C11 — flattening keeps the operations."""
from . import progs, streamcheck, libclause

PROP = 'C11'


def nontrivial(prog, f):
    return f['flatten'] >= 1 and f['sub'] >= 1 and f['ops'] >= 4


def deep_programs(rng, tier):
    """a flat graph deeper than min(MAX_GRAPH_DEPTH, 1000) layers: blocks of 100 implicitly sequenced gates on one qubit nested k
    times, then flattened; only COUNTS are observed (a time query on a chain this long exceeds CPython's recursion limit).
    Added after the seeded change C11-m6 (the layer bound of the graph walk lowered: `flatten()` silently loses operations)."""
    import qce_circuit.structure.graph_traversal.intrf_graph_structure as gs
    bound = min(int(gs.MAX_GRAPH_DEPTH), 1000)
    out = []
    for extra in ([100] if tier == 'quick' else [100, 300, 700]):
        per = 100
        blocks = (bound + extra + per - 1) // per
        p = [['new', 'f1'], ['new', 'f1']]
        for i in range(per):
            p.append(['op', 1, rng.choice(['Rx180', 'Ry90', 'Hadamard', 'Rx90']), [0], 'M', None, 0, 0, [], None])
        if rng.random() < 0.5:
            p.append(['op', 1, 'Barrier', [0, 1], 'A', None, 0, 0, [], None])
        for _ in range(blocks):
            p.append(['sub', 0, 1])
        p += [['ops', 0], ['flatten', 0], ['ops', 0], ['reps', 0], ['flatten', 0], ['ops', 0]]
        out.append(p)
    # a nested block whose operations take their durations from the global settings: timing query, NEW duration setting, timing
    # query, flatten, timing query (seeded change C11-m7: a block keeps the lead/span it computed first, reset by add / unroll /
    # flatten only — the nested schedule goes stale under the new setting while the flattened one is right)
    for _ in range(20 if tier == 'quick' else 400):
        q = rng.randrange(3)
        p = [['new', 'f1'], ['new', f'f{rng.choice([1, 1, 2])}']]
        for _ in range(rng.randint(1, 3)):
            p.append(['op', 1, rng.choice(['Rx180', 'DispersiveMeasure', 'CPhase', 'Reset']), [q] if rng.random() < 0.7 else [rng.randrange(3)],
                      'A', None, 0, 1, [], None])
        p = [c[:3] + [[c[3][0], (c[3][0] + 1) % 3]] + c[4:] if c[0] == 'op' and c[2] == 'CPhase' else c for c in p]
        p.append(['op', 0, rng.choice(['Rx180', 'Wait']), [q], 'M', None, 0, 0, [], None])
        p.append(['sub', 0, 1])
        p.append(['op', 0, rng.choice(['Rx180', 'DispersiveMeasure']), [q], 'A', None, 0, 0, [], None])
        if rng.random() < 0.5:
            p.append(['apply', 0])
        p += [['list', 0], ['gdur'] + [rng.choice(progs.GDUR_CHOICES) for _ in range(4)], ['list', 0], ['flatten', 0], ['list', 0]]
        out.append(p)
    return out


SPEC = streamcheck.StreamSpec(
    PROP, probes=['C11', 'C02m'],
    cfg=progs.GenConfig(static_durations=True, n_cmds=(6, 36), p_list=0.05, p_rel=0.0, p_foreign=0.0, p_sub=0.18, p_apply=0.06,
                        p_flatten=0.10, p_copy=0.0),
    n_quick=1200, n_thorough=40000,
    nontrivial=nontrivial,
    pysem=dict(groups=['facade'], effects=True),
    extra_check=libclause.c11_library,
    extra_programs=deep_programs,
    rule='random IMPLICITLY sequenced build programs (no explicit relations) with nesting and counts; at every flatten: '
         'leaf multiset (kind, qubits, duration strategy, tag, fields) unchanged, no sub-circuit remains, a second '
         'flatten changes neither the listing nor a relation; every listing compared with the model; '
         'non-trivial = a flatten of a nested circuit with >= 4 operations; distinct = distinct program text')


def run(tier, seed):
    return streamcheck.run(SPEC, tier, seed)
