import QcoVerif.Model.StimSem
/-
  Model of the repetition-code constructors (C09): from a description, a number of QEC cycles and an
  initial-state container, the Stim program that
  `to_stim(construct_repetition_code_circuit(qec_cycles, description, initial_state))` exports, with the
  REPEAT blocks unrolled and every fused instruction split into one instruction per target / pair.

  Mirrors, branch by branch,
    circuit_constructors.py  construct_repetition_code_circuit
    circuit_components.py    RepetitionCodeDescription (qubit_ids interleaving, get_operations,
                             get_active_ancilla_indices, from_chain / from_initial_state),
                             get_circuit_initialize_with_heralded, get_circuit_initialize,
                             get_circuit_qec_round, get_circuit_qec_round_with_dynamical_decoupling,
                             get_circuit_qec_with_detectors (cycles = 0 / 1 / 2 / 3 / > 3),
                             get_circuit_final_measurement, get_last_acquisition_operation
    addon_stim               DetectorOperation.to_stim_instruction (5 branches + fall-through),
                             LogicalObservableOperation.to_stim_instruction, the factory table
                             (VirtualPark, TwoQubitVirtualPhase, Wait are not exported).
  It is tied to the code by harness/c09.py, which compares `program` / `flatProgram` with the real export
  text instruction by instruction.

  Core Lean only.
-/
namespace Qco.RepCode
open Qco.StimSem

/-- one gate-sequence layer: CZ index pairs (in the order of `edge.qubit_ids`), park indices (only the
    ones on involved qubits, as `get_park_sequence_indices` returns them) -/
structure Layer where
  gates : List (Nat × Nat)
  parks : List Nat
deriving DecidableEq, Repr, Inhabited

/-- what the constructors read from an `IRepetitionCodeDescription` (class `RepetitionCodeDescription`),
    everything already mapped to circuit channel indices -/
structure Desc where
  dataIdx : List Nat            -- data_qubit_indices
  ancIdx  : List Nat            -- ancilla_qubit_indices (= detector_qubit_indices)
  layers  : List Layer          -- gate_sequences
  nbr     : List (Nat × Nat)    -- per ancilla: indices of parity_group.data_ids[0], [1]
  refocus : Bool                -- contains_qubit_refocusing
deriving DecidableEq, Repr, Inhabited

/-- `RepetitionCodeDescription.qubit_ids`: data and ancilla alternate, the longer list's rest is appended -/
def interleave : List Nat → List Nat → List Nat
  | a :: as, b :: bs => a :: b :: interleave as bs
  | [], bs => bs
  | as, [] => as

def Desc.allIdx (d : Desc) : List Nat := interleave d.dataIdx d.ancIdx
/-- measure_data_qubit_indices = rotation_data_qubit_indices = [q for q in qubit_ids if q in data] -/
def Desc.measData (d : Desc) : List Nat := d.allIdx.filter (d.dataIdx.contains ·)
/-- measure_ancilla_qubit_indices = rotation_ancilla_qubit_indices -/
def Desc.measAnc (d : Desc) : List Nat := d.allIdx.filter (d.ancIdx.contains ·)
/-- number of qubit slots of the simulated register -/
def Desc.size (d : Desc) : Nat := (d.allIdx.foldl max 0) + 1

/-- `RepetitionCodeDescription.from_initial_state` / `from_chain(2·dist − 1)` -/
def chainDesc (dist : Nat) (refocus : Bool) : Desc :=
  let len := 2 * dist - 1
  let edges : List (Nat × Nat) := (List.range (len - 1)).map fun i => (i, i + 1)
  let even := edges.filter fun e => e.1 % 2 == 0
  let odd := edges.filter fun e => e.1 % 2 == 1
  { dataIdx := (List.range len).filter (· % 2 == 0)
    ancIdx := (List.range len).filter (· % 2 == 1)
    layers := ([even, odd].filter (· ≠ [])).map fun g => ⟨g, []⟩
    nbr := (List.range (dist - 1)).map fun j => (2 * j, 2 * j + 2)
    refocus := refocus }

/-- the guard of the totalised look-ups below: distinct indices, every parity neighbour is a data qubit,
    every gate acts on involved qubits, one neighbour pair per ancilla -/
def Desc.wellFormed (d : Desc) : Bool :=
  d.allIdx.Nodup && d.nbr.length == d.ancIdx.length &&
  d.nbr.all (fun p => d.dataIdx.contains p.1 && d.dataIdx.contains p.2) &&
  d.layers.all (fun l => l.gates.all (fun g => d.allIdx.contains g.1 && d.allIdx.contains g.2 && g.1 != g.2)
                        && l.parks.all (d.allIdx.contains ·))

/-! ### initial-state preparation (`get_operations`, `InitialStateContainer.get_*_qubit_operation`) -/

/-- data states first, then ancilla states, keys 0,1,2,… in order.  `mk q pos isAncilla` builds the gate.
    An index beyond the qubit list raises IndexError in the code: `none`. -/
def prepWith (mk : Nat → Nat → Bool → Ins) (d : Desc) (nData nAnc : Nat) : Option (List Ins) :=
  if nData ≤ d.dataIdx.length ∧ nAnc ≤ d.ancIdx.length then
    some (((List.range nData).map fun i => mk (d.dataIdx.getD i 0) i false) ++
          ((List.range nAnc).map fun j => mk (d.ancIdx.getD j 0) j true))
  else none

/-- variable of data position i / of ancilla position j (symbolic run) -/
def dataVar (i : Nat) : Nat := i
def ancVar (nData j : Nat) : Nat := nData + j

def mkSym (nData : Nat) (q pos : Nat) (isAnc : Bool) : Ins :=
  .XV q (if isAnc then ancVar nData pos else dataVar pos)

/-- ZERO ↦ Identity ↦ `I`, ONE ↦ Rx180 ↦ `X` (`get_data_qubit_operation` / `get_ancilla_qubit_operation`,
    each looking its index up in its own dictionary) -/
def mkConc (ds as : List Bool) (q pos : Nat) (isAnc : Bool) : Ins :=
  let bit := if isAnc then as.getD pos false else ds.getD pos false
  if bit then .X q else .I q

def prepConc (d : Desc) (ds as : List Bool) : Option (List Ins) := prepWith (mkConc ds as) d ds.length as.length
def prepSym (d : Desc) (nData nAnc : Nat) : Option (List Ins) := prepWith (mkSym nData) d nData nAnc

/-- `get_circuit_initialize_with_heralded`: Reset all, heralding measurement of all, Barrier, preparation, Barrier -/
def initPart (d : Desc) (prep : List Ins) : List Ins :=
  d.allIdx.map .R ++ d.allIdx.map .M ++ [.TICK] ++ prep ++ [.TICK]

/-! ### one QEC round -/

/-- `get_active_ancilla_indices` -/
def activeAnc (d : Desc) (l : Layer) : List Nat :=
  l.gates.flatMap fun g => [g.1, g.2].filter (d.measAnc.contains ·)

/-- the loop over the gate sequences of `get_circuit_qec_round(_with_dynamical_decoupling)` -/
def roundLayers (d : Desc) : List Layer → List Nat → List Ins
  | [], _ => []
  | l :: rest, cur =>
    let act := activeAnc d l
    let activation := act.filter (!cur.contains ·)
    let closure := match rest with
      | [] => act
      | l' :: _ => act.filter (!(activeAnc d l').contains ·)
    activation.map .SY ++ (if activation.isEmpty then [] else [.TICK]) ++
    l.gates.map (fun g => .CZ g.1 g.2) ++                                   -- VirtualPark: not exported
    (if l.gates.isEmpty then [] else [.TICK]) ++                             -- TwoQubitVirtualPhase: not exported
    (if l.gates.isEmpty && l.parks.isEmpty then [] else [.TICK]) ++
    closure.map .SYd ++ roundLayers d rest act

/-- `get_circuit_qec_round` -/
def roundPlain (d : Desc) : List Ins :=
  roundLayers d d.layers [] ++ [.TICK] ++ d.measAnc.map .M

/-- `get_circuit_qec_round_with_dynamical_decoupling` (Wait is not exported) -/
def roundDD (d : Desc) : List Ins :=
  roundPlain d ++ (if d.refocus then d.measData.map .X else []) ++ [.TICK]

/-! ### acquisition indices as `get_last_acquisition_operation(...).circuit_level_acquisition_index` sees them:
    position among the measurements of the listing of the circuit asked (repeated blocks listed once) -/
def measured (l : List Ins) : List Nat := l.filterMap fun | .M q => some q | _ => none

def lastAcq (l : List Ins) : Int := ((measured l).length : Int) - 1

def lastIdxOf (ms : List Nat) (q : Nat) : Option Nat :=
  (((List.range ms.length).zip ms).filter (·.2 == q)).getLast?.map (·.1)

def lastAcqOf (l : List Ins) (q : Nat) : Int := ((lastIdxOf (measured l) q).getD 0 : Nat)

/-- `DetectorOperation.to_stim_instruction` -/
def detTargets (last : Int) (main sec ref secOff : Option Int) : List Int :=
  match main, sec, ref, secOff with
  | some m, none, none, _ => [m - (last + 1)]
  | some m, none, some r, _ => [m - (last + 1), m - (last + 1) - r]
  | some m, some s, none, _ => [m - (last + 1), s - (last + 1)]
  | some m, some s, some r, none => [m - (last + 1), s - (last + 1), -r]
  | some m, some s, some r, some o => [m - (last + 1), s - (last + 1), -r, -r - o]
  | none, _, _, _ => []

/-- the detector loop inside a sub-circuit whose listing so far is `body` -/
def blockDets (d : Desc) (body : List Ins) (ref : Option Int) : List Ins :=
  d.ancIdx.map fun (a : Nat) => .DET (Int.ofNat a) 0 (detTargets (lastAcq body) (some (lastAcqOf body a)) none ref none)

structure Block where
  count : Nat
  body : List Ins
deriving Repr, Inhabited

def twoN (d : Desc) : Int := 2 * (d.ancIdx.length : Int)

def block1 (d : Desc) : List Ins :=
  roundDD d ++ blockDets d (roundDD d) none ++ [.SHIFT 0 1]
def block2 (d : Desc) : List Ins :=
  roundDD d ++ blockDets d (roundDD d) (some (twoN d)) ++ [.SHIFT 0 1, .TICK]
def block3 (d : Desc) (withOffset : Bool) : List Ins :=
  roundPlain d ++ blockDets d (roundPlain d) (if withOffset then some (twoN d) else none) ++ [.SHIFT 0 1]

/-- `get_circuit_qec_with_detectors` -/
def qecBlocks (d : Desc) (cycles : Nat) : List Block :=
  if cycles = 0 then [⟨1, d.measAnc.map .M⟩] else
  (if cycles > 1 then [⟨min 2 (cycles - 1), block1 d⟩] else []) ++
  (if cycles > 3 then [⟨cycles - 2 - 1, block2 d⟩] else []) ++
  [⟨1, block3 d (decide (cycles > 2))⟩]

def once (bs : List Block) : List Ins := bs.flatMap (·.body)
def unroll (bs : List Block) : List Ins := bs.flatMap fun b => (List.replicate b.count b.body).flatten

/-- final data measurement, final detectors, logical observable; `listing` = what `result.operations`
    lists before the detectors are added, `qecListing` = listing of the QEC sub-circuit -/
def finalPart (d : Desc) (positive moreThanOne : Bool) (listing qecListing : List Ins) : List Ins :=
  let fin := d.measData.map .M
  let full := listing ++ fin
  let dets := (d.ancIdx.zip d.nbr).map fun ((a : Nat), (na, nb)) =>
    let ancRef : Int := (lastAcq qecListing + 1) - lastAcqOf qecListing a
    .DET (Int.ofNat a) 0 (detTargets (lastAcq full) (some (lastAcqOf full na)) (some (lastAcqOf full nb))
      (if positive then some (ancRef + d.dataIdx.length) else none)
      (if moreThanOne then some (d.ancIdx.length : Int) else none))
  let obs := d.dataIdx.map fun q => .OBS 0 (detTargets (lastAcq full) (some (lastAcqOf full q)) none none none)
  fin ++ dets ++ obs

/-- the part after the preparation: QEC block (unrolled), final measurement, detectors, observable -/
def body (d : Desc) (cycles : Nat) : List Ins :=
  let bs := qecBlocks d cycles
  unroll bs ++ finalPart d (decide (cycles > 0)) (decide (cycles > 1)) (initPart d [] ++ once bs) (once bs)

def programWith (d : Desc) (cycles : Nat) (prep : List Ins) : List Ins :=
  initPart d prep ++ body d cycles

/-- the exported program for concrete computational initial states (`ds`, `as` in container order) -/
def program (d : Desc) (cycles : Nat) (ds as : List Bool) : Option (List Ins) :=
  (prepConc d ds as).map (programWith d cycles)

/-- the same program with symbolic preparation gates -/
def programSym (d : Desc) (cycles : Nat) (nData nAnc : Nat) : Option (List Ins) :=
  (prepSym d nData nAnc).map (programWith d cycles)

/-- what `stim.Circuit.flattened()` yields -/
def flatProgram (d : Desc) (cycles : Nat) (ds as : List Bool) : Option (List Ins) :=
  (program d cycles ds as).map fun p => applyShifts p 0 0

/-! ### the protocol's closed form (as GF(2) forms over the initial-state variables) -/

def xVar (d : Desc) (nData : Nat) (q : Nat) : Nat :=
  match d.dataIdx.idxOf? q with
  | some i => if i < nData then var (dataVar i) else 0
  | none => 0

def aVar (d : Desc) (nData nAnc : Nat) (q : Nat) : Nat :=
  match d.ancIdx.idxOf? q with
  | some j => if j < nAnc then var (ancVar nData j) else 0
  | none => 0

def nbrOf (d : Desc) (q : Nat) : Nat × Nat :=
  match d.ancIdx.idxOf? q with
  | some j => d.nbr.getD j (0, 0)
  | none => (0, 0)

/-- parity of the two neighbouring data qubits of ancilla `q` -/
def parityForm (d : Desc) (nData : Nat) (q : Nat) : Nat :=
  xVar d nData (nbrOf d q).1 ^^^ xVar d nData (nbrOf d q).2

/-- outcome of ancilla `q` in a cycle of odd (`b = true`) / even number -/
def cycleFormB (d : Desc) (nData nAnc : Nat) (b : Bool) (q : Nat) : Nat :=
  aVar d nData nAnc q ^^^ (if b then parityForm d nData q else 0)

/-- outcome of ancilla `q` in cycle `c` (1-based): `a_q ⊕ (c mod 2)·(x_a ⊕ x_b)` — with refocusing both
    neighbours are flipped every cycle, without it neither is; the ancilla is never reset -/
def cycleForm (d : Desc) (nData nAnc : Nat) (c : Nat) (q : Nat) : Nat :=
  cycleFormB d nData nAnc (par c) q

/-- value of data qubit `q` after an odd (`b = true`) / even number of refocusing rounds -/
def finalFormB (d : Desc) (nData : Nat) (b : Bool) (q : Nat) : Nat :=
  xVar d nData q ^^^ (if d.refocus && b then 1 else 0)

/-- final value of data qubit `q`: flipped once per refocusing round, i.e. in every cycle but the last -/
def finalForm (d : Desc) (nData : Nat) (cycles : Nat) (q : Nat) : Nat :=
  finalFormB d nData (par (cycles - 1)) q

def zeros (d : Desc) : List Nat := List.replicate d.allIdx.length 0

/-- the whole record in chronological order -/
def expectedRecord (d : Desc) (cycles nData nAnc : Nat) : List Nat :=
  zeros d ++
  (if cycles = 0 then d.measAnc.map (aVar d nData nAnc)
   else (List.range cycles).flatMap fun c => d.measAnc.map (cycleForm d nData nAnc (c + 1))) ++
  d.measData.map (finalForm d nData cycles)

/-- detector values in chronological order: first cycle the raw outcome, second cycle the raw outcome
    (its detector has no reference), every later detector 0 — also the final ones, which close the last
    two cycles against the data measurement.  (ancillas)·(cycles+1) values. -/
def expectedDetectors (d : Desc) (cycles nData nAnc : Nat) : List Nat :=
  if cycles = 0 then d.ancIdx.map (parityForm d nData)
  else if cycles = 1 then
    d.ancIdx.map (cycleForm d nData nAnc 1) ++ d.ancIdx.map (aVar d nData nAnc)
  else
    d.ancIdx.map (cycleForm d nData nAnc 1) ++ d.ancIdx.map (cycleForm d nData nAnc 2) ++
    List.replicate ((cycles - 1) * d.ancIdx.length) 0

def expectedObservableB (d : Desc) (nData : Nat) (b : Bool) : Nat :=
  (d.dataIdx.map (finalFormB d nData b)).foldl (· ^^^ ·) 0

/-- the logical observable: sum of the final data values -/
def expectedObservable (d : Desc) (cycles nData : Nat) : Nat :=
  expectedObservableB d nData (par (cycles - 1))

/-- qubit states after an even (`b = false`) / odd number of refocusing rounds: data `x ⊕ [refocus ∧ b]`,
    ancilla `a ⊕ [b]·parity` -/
def stateB (d : Desc) (nData nAnc : Nat) (b : Bool) : List Q :=
  (List.range d.size).map fun q =>
    if d.dataIdx.contains q then ⟨.Z, finalFormB d nData b q⟩
    else if d.ancIdx.contains q then ⟨.Z, cycleFormB d nData nAnc b q⟩ else ⟨.Z, 0⟩

/-- the state right after the preparation layer -/
def preparedState (d : Desc) (nData nAnc : Nat) : List Q := stateB d nData nAnc false

/-- assignment of the variables for concrete states -/
def assign (ds as : List Bool) (v : Nat) : Bool :=
  if v < ds.length then ds.getD v false else as.getD (v - ds.length) false

end Qco.RepCode
