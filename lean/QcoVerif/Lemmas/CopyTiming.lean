import QcoVerif.Lemmas.CopyGraph
import QcoVerif.Lemmas.C10Timing
/-
  Timing corollary of the flat copy theorem: the specification evaluator answers the same start and end for the copy of a
  node as for the node, fuel by fuel — the copy's relation equations are the image of the original's.  Core Lean only.
-/
namespace Qco

open Qco.C10

theorem evDur_leaf_eq {w w' : World} {x x' : Nat} (hx : (w.op x).isComp = false) (hx' : (w'.op x').isComp = false)
    (hd : w'.leafDur (w'.op x').dur = w.leafDur (w.op x).dur) : ∀ f, evDur w' f x' = evDur w f x := by
  intro f
  cases f with
  | zero => rw [evDur.eq_1, evDur.eq_1]
  | succ f =>
    rw [evDur.eq_2, evDur.eq_2]
    cases f with
    | zero => rw [evLeadSpan.eq_1, evLeadSpan.eq_1]
    | succ f =>
      rw [evLeadSpan.eq_2, evLeadSpan.eq_2]
      simp only [hx, hx', Bool.false_eq_true, if_false, hd]

theorem evRef_single (w : World) (l : Nat) (hm : (w.lnk l).multi = false) (f : Nat) :
    evRef w (f + 1) l = some (w.lnk l).refs.head? := by
  rw [evRef.eq_2]
  simp only [hm, Bool.not_false, if_true]

/-- **the copy is scheduled like the original** (flat block whose depth-1 nodes have no outside relation, durations kept
    by the per-class copy — true of everything the constructors produce, `C05.copy_class_faithful`): for every fuel the
    evaluator answers the same start and end for the copy of a node as for the node itself. -/
theorem copy_flat_times {w : World} {o : Nat} {w' : World} {o' : Nat} (H : FlatOk w o) (C : FlatCopy w o w' o')
    (hdur : ∀ e ∈ (w.op o).graph, (w.op e.node).copyFields.dur = (w.op e.node).dur)
    (hself : ∀ e ∈ (w.op o).graph, e.parent = none → (w.lnk (w.op e.node).link).refs.head? = none) :
    ∀ f, ∀ e ∈ (w.op o).graph,
      evStart w' f (copyMap w o e.node) = evStart w f e.node ∧ evEnd w' f (copyMap w o e.node) = evEnd w f e.node := by
  have hmem : ∀ e ∈ (w.op o).graph, e.node ∈ listing (w.op o).graph :=
    fun e he => mem_listing_iff.mpr ⟨e, he, rfl⟩
  have hD : ∀ e ∈ (w.op o).graph, ∀ f, evDur w' f (copyMap w o e.node) = evDur w f e.node := by
    intro e he
    apply evDur_leaf_eq (H.leaf _ (hmem e he)).2
    · rw [(C.node_leaf he).1]; exact (H.leaf _ (hmem e he)).2
    · obtain ⟨⟨rg, hop⟩, _⟩ := C.node e he
      rw [hop, C.env.leafDur]
      show w.leafDur (w.op e.node).copyFields.dur = _
      rw [hdur e he]
  intro f
  induction f with
  | zero => intro e he; rw [evStart.eq_1, evStart.eq_1, evEnd.eq_1, evEnd.eq_1]; exact ⟨rfl, rfl⟩
  | succ f ih =>
    intro e he
    constructor
    · rw [evStart_succ, evStart_succ, hD e he f]
      cases f with
      | zero => rw [evDur.eq_1]; rfl
      | succ f =>
        have hl := (C.node_leaf he).2.2
        have hL := (C.node e he).2
        rw [hl, evRef_single w' _ (by rw [hL]) f, evRef_single w _ (H.single _ (hmem e he)) f, hL]
        cases hp : e.parent with
        | none =>
          rw [hself e he hp]
          rfl
        | some p =>
          rw [H.child e he p hp]
          obtain ⟨pe, hpe, hpq, _⟩ := H.built.parent_mem he hp
          obtain ⟨i1, i2⟩ := ih pe hpe
          rw [hpq] at i1 i2
          simp only [Option.map_some, Option.toList_some, List.head?_cons, Option.bind_some, i1, i2]
    · rw [evEnd.eq_2, evEnd.eq_2, (ih e he).1, hD e he f]

end Qco
