import QcoVerif.Lemmas.DefinedUnrollC
/-
  C01, definedness after unrolling — part D: `World.applyModifiers` keeps the acyclicity certificate.

  * `RepInvD`               — invariant of the repetition loop next to `RepInvT` (Lemmas/UnrollNested.lean): closed, acyclic,
                              the link table only grew, no group link strictly below a node of `c` / below the pristine copy;
  * `unrollTop_certified`   — pristine copy, repetition loop and reset of the count keep the certificate;
  * `applyModifiers_certified` — the recursion into the nodes (main theorem, by induction on the depth bound).
-/
namespace Qco.DefinedUnroll

open Qco Qco.Defined

/-! ### the repetition loop -/

structure RepInvD (w0 : World) (c f : Nat) (w : World) : Prop where
  closed : Closed w
  acyclic : Acyclic w
  links : LinksExt w0 w
  kidsS : ∀ n ∈ w.kids c, SingleUnder w f n
  origS : SingleUnder w (f + 1) w0.ops.size

theorem repInvD_base (w : World) (f c : Nat) (ht : TreeBelow w (f + 1) c) (hcomp : (w.op c).isComp = true)
    (hf : f + 1 ≤ w.depthFuel) (hc : Closed w) (ha : Acyclic w) (hsu : SingleUnder w (f + 1) c) :
    RepInvD w c f (w.copy c).1 := by
  have hcs := copy_tree w (f + 1) c ht hf
  obtain ⟨c2, a2, _, _, _⟩ := copy_certified hc ha c ht.lt
  obtain ⟨_, hnest⟩ := copy_fresh ht hf hc ha hsu
  have hle := copy_linksExt hc ha c ht.lt
  have hid := hcs.id
  rw [hid] at hcs hnest
  refine ⟨c2, a2, hle, ?_, nested_single _ (f + 1) _ hcs.tree hnest⟩
  intro n hn
  have hk : (w.copy c).1.kids c = w.kids c := by unfold World.kids; rw [hcs.old c ht.lt]
  rw [hk] at hn
  have hlt : ∀ j ∈ w.below f n, j < w.ops.size := below_lt w f n (ht.kid hcomp hn)
  apply singleUnder_congr _ _ (singleUnder_kid ht hcomp hsu hn).2
  · intro j hj; exact op_eq_noLink (hcs.old j (hlt j hj))
  · intro j hj _; exact lnk_frame hc hle (hcs.old j (hlt j hj))

theorem repInvD_step (w0 : World) (c f : Nat) (hc : c < w0.ops.size) (w : World) (i : Nat)
    (hT : RepInvT w0 c f w i) (hD : RepInvD w0 c f w) (hf : f + 1 ≤ w.depthFuel) :
    RepInvD w0 c f ((w.copy w0.ops.size).1.extend c (w.copy w0.ops.size).2) := by
  have hcw : c < w.ops.size := Nat.lt_trans hc hT.size
  have hcs := copy_tree w (f + 1) w0.ops.size hT.otree hf
  obtain ⟨c2, _, _, _, _⟩ := copy_certified hD.closed hD.acyclic w0.ops.size hT.otree.lt
  obtain ⟨_, hnest⟩ := copy_fresh hT.otree hf hD.closed hD.acyclic hD.origS
  obtain ⟨c', a', l1, l2⟩ := copy_extend_certified hD.closed hD.acyclic hcw hT.ccomp hT.otree hT.ocomp hf hD.origS
  have hid := hcs.id
  rw [hid] at hcs hnest c' a' l1 l2 ⊢
  generalize (w.copy w0.ops.size).1 = w2 at hcs c2 hnest c' a' l1 l2 ⊢
  have hc2 : c < w2.ops.size := Nat.lt_trans hcw hcs.size
  have hcpc : (w2.op w.ops.size).isComp = true := by rw [hcs.kind]; exact hT.ocomp
  have hp : (listing (w2.op w.ops.size).graph).Perm (w2.kids w.ops.size) := listing_perm _
  have hk2 : w2.kids c = w.kids c := by unfold World.kids; rw [hcs.old c hcw]
  have hkids : (w2.extend c w.ops.size).kids c = w.kids c ++ listing (w2.op w.ops.size).graph := by
    rw [extend_kids w2 c w.ops.size hc2, hk2]
  -- the appended nodes are new objects
  have hNfresh : ∀ m ∈ listing (w2.op w.ops.size).graph, w.ops.size ≤ m := by
    intro m hm
    have hk := hp.mem_iff.mp hm
    exact hcs.fresh m (below_kid w2 f _ m m hcpc hk (hcs.tree.kid hcpc hk).self_mem)
  -- an old object other than `c` is not written
  have hold : ∀ j, j < w.ops.size → j ≠ c → (w2.extend c w.ops.size).op j = w.op j := by
    intro j hj hjc
    rw [extend_op_other w2 c w.ops.size j hjc (fun hm => by have := hNfresh j hm; omega), hcs.old j hj]
  refine ⟨c', a', LinksExt.trans hD.links l1, ?_, ?_⟩
  · intro n hn
    rw [hkids] at hn
    rcases List.mem_append.mp hn with hn | hn
    · have hr : ∀ j ∈ w.below f n, j < w.ops.size ∧ j ≠ c := fun j hj =>
        ⟨below_lt w f n (hT.cforest.tree n hn) j hj, (hT.csub n hn j hj).1⟩
      apply singleUnder_congr _ _ (hD.kidsS n hn)
      · intro j hj; exact op_eq_noLink (hold j (hr j hj).1 (hr j hj).2)
      · intro j hj _; exact lnk_frame hD.closed l1 (hold j (hr j hj).1 (hr j hj).2)
    · have hk := hp.mem_iff.mp hn
      have tn : TreeBelow w2 f n := hcs.tree.kid hcpc hk
      have su2 : SingleUnder w2 f n := nested_single w2 f n tn (hnest hcpc n hk).2.2
      have hfr : ∀ j ∈ w2.below f n, j ≠ c := by
        intro j hj
        have := hcs.fresh j (below_kid w2 f _ n j hcpc hk hj)
        omega
      apply singleUnder_congr _ _ su2
      · intro j hj
        exact (extend_spec w2 c w.ops.size hc2).2.2.2.2.2 j (hfr j hj)
      · intro j hj hjn
        have hnot : j ∉ listing (w2.op w.ops.size).graph := by
          intro hm
          have hkj := hp.mem_iff.mp hm
          exact hcs.tree.disj hcpc hkj hk hjn j (hcs.tree.kid hcpc hkj).self_mem hj
        exact lnk_frame c2 l2 (extend_op_other w2 c w.ops.size j (hfr j hj) hnot)
  · have hr : ∀ j ∈ w.below (f + 1) w0.ops.size, j < w.ops.size ∧ j ≠ c := by
      intro j hj
      have := hT.ofresh j hj
      exact ⟨below_lt w (f + 1) _ hT.otree j hj, by omega⟩
    apply singleUnder_congr _ _ hD.origS
    · intro j hj; exact op_eq_noLink (hold j (hr j hj).1 (hr j hj).2)
    · intro j hj _; exact lnk_frame hD.closed l1 (hold j (hr j hj).1 (hr j hj).2)

theorem rep_loop (w0 : World) (c f : Nat) (hc : c < w0.ops.size) (hf : f + 1 ≤ w0.depthFuel) :
    ∀ (L : List Nat) (w : World) (i : Nat), RepInvT w0 c f w i → RepInvD w0 c f w →
    RepInvT w0 c f (L.foldl (fun w _ => (w.copy w0.ops.size).1.extend c (w.copy w0.ops.size).2) w) (i + L.length) ∧
    RepInvD w0 c f (L.foldl (fun w _ => (w.copy w0.ops.size).1.extend c (w.copy w0.ops.size).2) w) := by
  intro L
  induction L with
  | nil => intro w i h1 h2; simpa using ⟨h1, h2⟩
  | cons x xs ih =>
    intro w i h1 h2
    simp only [List.foldl_cons, List.length_cons]
    have hf' : f + 1 ≤ w.depthFuel := by
      have := h1.size
      unfold World.depthFuel at hf ⊢
      omega
    have := ih _ (i + 1) (repInvT_step w0 c f hc w i h1 hf') (repInvD_step w0 c f hc w i h1 h2 hf')
    have hk : i + (xs.length + 1) = i + 1 + xs.length := by omega
    rw [hk]; exact this

/-! ### resetting the count changes no dependency -/

theorem setRep_op (w : World) (c : Nat) (r : Rep) (j : Nat) :
    ((w.setOp c { w.op c with rep := r }).op j).link = (w.op j).link ∧
    ((w.setOp c { w.op c with rep := r }).op j).graph = (w.op j).graph ∧
    ((w.setOp c { w.op c with rep := r }).op j).isComp = (w.op j).isComp := by
  rw [op_setOp]
  split
  · rename_i h
    rw [← h.1]
    exact ⟨rfl, rfl, rfl⟩
  · exact ⟨rfl, rfl, rfl⟩

theorem setRep_certified {w : World} (c : Nat) (r : Rep) (hc : Closed w) (ha : Acyclic w) :
    Closed (w.setOp c { w.op c with rep := r }) ∧ Acyclic (w.setOp c { w.op c with rep := r }) := by
  have hl : ∀ l, (w.setOp c { w.op c with rep := r }).lnk l = w.lnk l := fun l => rfl
  have hsz : (w.setOp c { w.op c with rep := r }).ops.size = w.ops.size := setOp_size _ _ _
  have hls : (w.setOp c { w.op c with rep := r }).links.size = w.links.size := rfl
  obtain ⟨rk, hrk⟩ := ha
  refine ⟨⟨fun o x hx => ?_, fun o e he => ?_, fun o => ?_⟩, ⟨rk, ⟨fun o x hx => ?_, fun o hco e he => ?_⟩⟩⟩
  · rw [(setRep_op w c r o).1, hl] at hx; rw [hsz]; exact hc.ref o x hx
  · rw [(setRep_op w c r o).2.1] at he; rw [hsz]; exact hc.node o e he
  · rw [(setRep_op w c r o).1, hls]; exact hc.link o
  · rw [(setRep_op w c r o).1, hl] at hx; exact hrk.ref o x hx
  · rw [(setRep_op w c r o).2.2] at hco
    rw [(setRep_op w c r o).2.1] at he
    exact hrk.node o hco e he

/-- **pristine copy, repetition loop and reset of the count keep the certificate**; no group link strictly below any node
    of `c` afterwards. -/
theorem unrollTop_certified (w : World) (f c : Nat) (ht : TreeBelow w (f + 1) c) (hcomp : (w.op c).isComp = true)
    (hf : f + 1 ≤ w.depthFuel) (hc : Closed w) (ha : Acyclic w) (hsu : SingleUnder w (f + 1) c) :
    Closed (unrollTop w c) ∧ Acyclic (unrollTop w c) ∧ LinksExt w (unrollTop w c) ∧
    ∀ n ∈ (unrollTop w c).kids c, SingleUnder (unrollTop w c) f n := by
  obtain ⟨hid, baseT⟩ := repInvT_base w f c ht hcomp hf
  have baseD := repInvD_base w f c ht hcomp hf hc ha hsu
  have loop := rep_loop w c f ht.lt hf (List.range (w.repCount (w.op c).rep - 1)) (w.copy c).1 0 baseT baseD
  unfold unrollTop repLoop
  rw [hid]
  generalize (List.range (w.repCount (w.op c).rep - 1)).foldl
    (fun (w1 : World) _ => (w1.copy w.ops.size).1.extend c (w1.copy w.ops.size).2) (w.copy c).1 = w3 at loop
  obtain ⟨lT, lD⟩ := loop
  obtain ⟨c4, a4⟩ := setRep_certified c (.fixed 1) lD.closed lD.acyclic
  have hl : ∀ l, (w3.setOp c { w3.op c with rep := .fixed 1 }).lnk l = w3.lnk l := fun l => rfl
  have hother : ∀ j, j ≠ c → (w3.setOp c { w3.op c with rep := .fixed 1 }).op j = w3.op j := by
    intro j hj
    rw [op_setOp, if_neg (fun e => hj e.1.symm)]
  refine ⟨c4, a4, LinksExt.trans lD.links ⟨Nat.le_refl _, fun l _ => hl l⟩, ?_⟩
  intro n hn
  have hk : (w3.setOp c { w3.op c with rep := .fixed 1 }).kids c = w3.kids c := by
    unfold World.kids; rw [(setRep_op w3 c (.fixed 1) c).2.1]
  rw [hk] at hn
  apply singleUnder_congr _ _ (lD.kidsS n hn)
  · intro j hj; rw [hother j (lT.csub n hn j hj).1]
  · intro j hj _; rw [hother j (lT.csub n hn j hj).1, hl]

/-! ### the recursion into the nodes -/

theorem kids_fold_certified (w4 : World) (f g : Nat) (K : List Nat) (hf4 : f ≤ w4.depthFuel) (hfg : f ≤ g)
    (ih : ∀ (w : World) (n : Nat), TreeBelow w f n → f ≤ w.depthFuel → Closed w → Acyclic w → SingleUnder w f n →
      Closed (w.applyModifiers g n) ∧ Acyclic (w.applyModifiers g n) ∧ LinksExt w (w.applyModifiers g n)) :
    ∀ (L : List Nat) (w : World) (P : List Nat), KidsInv w4 f K w P → Closed w → Acyclic w → LinksExt w4 w →
      L.Nodup → (∀ n ∈ L, n ∈ K ∧ SingleUnder w f n) →
      Closed (L.foldl (fun w n => w.applyModifiers g n) w) ∧ Acyclic (L.foldl (fun w n => w.applyModifiers g n) w) ∧
      LinksExt w4 (L.foldl (fun w n => w.applyModifiers g n) w) := by
  intro L
  induction L with
  | nil => intro w P _ hc ha hl _ _; exact ⟨hc, ha, hl⟩
  | cons n ns ihL =>
    intro w P h hc ha hl hnd hL
    simp only [List.foldl_cons]
    obtain ⟨hn, hsn⟩ := hL n List.mem_cons_self
    have hfw : f ≤ w.depthFuel := by
      have := h.size
      unfold World.depthFuel at hf4 ⊢
      omega
    have htn := h.forest.tree n hn
    obtain ⟨c', a', l'⟩ := ih w n htn hfw hc ha hsn
    have hs := applyModifiers_tree f w n g htn hfg hfw
    have hK := kidsInv_step w4 f K w P n _ h hn hs
    refine ihL (w.applyModifiers g n) (P ++ [n]) hK c' a' (LinksExt.trans hl l') (List.nodup_cons.mp hnd).2 ?_
    intro m hm
    obtain ⟨hmK, hsm⟩ := hL m (List.mem_cons_of_mem _ hm)
    have hmn : m ≠ n := fun e => (List.nodup_cons.mp hnd).1 (e ▸ hm)
    have hfr : ∀ j ∈ w.below f m, (w.applyModifiers g n).op j = w.op j := by
      intro j hj
      exact hs.frame j (below_lt w f m (h.forest.tree m hmK) j hj) (h.forest.disj m hmK n hn hmn j hj)
    refine ⟨hmK, ?_⟩
    apply singleUnder_congr _ _ hsm
    · intro j hj; exact op_eq_noLink (hfr j hj)
    · intro j hj _; exact lnk_frame hc l' (hfr j hj)

/-- **`applyModifiers` keeps the acyclicity certificate** on a tree `c` of depth ≤ `f` without group links strictly
    below `c` (fuel `g ≥ f` for the recursion, `f ≤ depthFuel` for the copies); old link objects are untouched. -/
theorem applyModifiers_certified : ∀ (f : Nat) (w : World) (c g : Nat), TreeBelow w f c → f ≤ g → f ≤ w.depthFuel →
    Closed w → Acyclic w → SingleUnder w f c →
    Closed (w.applyModifiers g c) ∧ Acyclic (w.applyModifiers g c) ∧ LinksExt w (w.applyModifiers g c) := by
  intro f
  induction f with
  | zero => intro w c g h; exact h.elim
  | succ f ih =>
    intro w c g ht hg hf hc ha hsu
    by_cases hcomp : (w.op c).isComp = true
    · cases g with
      | zero => omega
      | succ g =>
        rw [applyModifiers_comp w g c hcomp]
        have top := unrollTop_spec w f c ht hcomp hf
        obtain ⟨c4, a4, l4, s4⟩ := unrollTop_certified w f c ht hcomp hf hc ha hsu
        generalize unrollTop w c = w4 at top c4 a4 l4 s4
        have base : KidsInv w4 f (w4.kids c) w4 [] :=
          ⟨Nat.le_refl _, rfl, fun _ _ _ => rfl, top.cforest, fun _ _ j hj => Or.inl hj,
            fun _ _ => List.Perm.refl _, fun _ h => (by cases h)⟩
        have hp : (listing (w4.op c).graph).Perm (w4.kids c) := listing_perm _
        have hf4 : f ≤ w4.depthFuel := by
          have := top.size
          unfold World.depthFuel at hf ⊢
          omega
        obtain ⟨cf, af, lf⟩ := kids_fold_certified w4 f g (w4.kids c) hf4 (by omega)
          (fun w' n h1 h2 h3 h4 h5 => ih w' n g h1 (by omega) h2 h3 h4 h5)
          (listing (w4.op c).graph) w4 [] base c4 a4 (LinksExt.refl w4) (hp.nodup_iff.mpr top.cforest.nodup)
          (fun n hn => ⟨hp.mem_iff.mp hn, s4 n (hp.mem_iff.mp hn)⟩)
        exact ⟨cf, af, LinksExt.trans l4 lf⟩
    · have hl : (w.op c).isComp = false := by simpa using hcomp
      rw [applyModifiers_leaf w g c hl]
      exact ⟨hc, ha, LinksExt.refl w⟩

end Qco.DefinedUnroll
