"""Writes lean/QcoVerif/Generated/C10Worlds.lean — plain data for the library clause of C10.

For a fixed list of constructor inputs (the shipped descriptions, small distances / cycle counts):
  1. the real constructor is run under the recorder (harness/record.py) -> build program;
  2. the program is run through the Lean model driver, which must list the same circuit as the implementation,
     and the driver's `dump` command prints the heap the model built (ops, links, graphs);
  3. a symbolic schedule (start / lead / span of every object as linear forms in four variables, for the two regimes
     of the decoupling wait) is computed here — an UNTRUSTED certificate;
  4. world + tables are written as a Lean literal; `Qco.C10.Case.ok` (verified checker) is evaluated on them by
     `decide +kernel` in QcoVerif/Properties/C10.lean.
Worlds with more than --max-objects heap objects (default 110) are certified here in Python but left out of the Lean
file: the kernel evaluation of the checker costs about n^2.6 (50 s for 200 objects).
Prints one JSON line (report).  Usage: python tools/gen_c10_programs.py [--out FILE] [--big] [--max-objects N]
"""
from __future__ import annotations
import json
import os
import sys
from pathlib import Path

ROOT = Path(__file__).resolve().parent.parent
sys.path.insert(0, str(ROOT))
os.environ.setdefault('TQDM_DISABLE', '1')
sys.setrecursionlimit(200000)

from harness import common, progs, record  # noqa: E402

OUT = ROOT / 'lean' / 'QcoVerif' / 'Generated' / 'C10Worlds.lean'

CLS = {'SingleQubitOperation': 'single', 'Reset': 'reset', 'Wait': 'wait', 'Identity': 'identity',
       'Hadamard': 'hadamard', 'Rx180': 'rx180', 'Rx90': 'rx90', 'Rxm90': 'rxm90', 'Ry180': 'ry180', 'Ry90': 'ry90',
       'Rym90': 'rym90', 'Rx180ef': 'rx180ef', 'VirtualPhase': 'vphase', 'VirtualPark': 'vpark', 'Rphi90': 'rphi90',
       'TwoQubitOperation': 'two', 'CPhase': 'cphase', 'TwoQubitVirtualPhase': 'twovphase',
       'DispersiveMeasure': 'measure', 'Barrier': 'barrier', 'VirtualVacant': 'vacant',
       'VirtualTwoQubitVacant': 'twovacant', 'VirtualEmpty': 'empty', 'CoordinateShiftOperation': 'cshift',
       'DetectorOperation': 'detector', 'LogicalObservableOperation': 'observable',
       'CircuitCompositeOperation': 'comp'}
CHAN = {'A': 'all', 'R': 'ro', 'M': 'mw', 'F': 'fl'}
REL = {'FB': 'fb', 'JS': 'js', 'JE': 'je'}

REGIMES = {   # forms (c, x, y, fl, rs)
    'A': {'ro': (0, 2, 1, 0, 0), 'mw': (0, 0, 1, 0, 0), 'wait': (0, 1, 0, 0, 0)},
    'B': {'ro': (0, 1, 0, 0, 0), 'mw': (1, 1, 1, 0, 0), 'wait': (0, 0, 0, 0, 0)},
}
ZERO = (0, 0, 0, 0, 0)
PROBE = (1.0, 1.37, 2.11, 3.53, 5.71)


def add(p, q): return tuple(a + b for a, b in zip(p, q))
def sub(p, q): return tuple(a - b for a, b in zip(p, q))
def nonneg(p): return all(a >= 0 for a in p)
def num(p): return sum(a * b for a, b in zip(p, PROBE))


class Uncertifiable(Exception):
    pass


def schedule(world, regime):
    """rows [(start, lead, span, lo, hi, hd)] for every object, or raises Uncertifiable."""
    ops, links = world['ops'], world['links']
    R = REGIMES[regime]
    dreg = {k: v for k, v in world['dreg']}
    LS, ST, CERT = {}, {}, {}

    def dur_form(d):
        if d == 'd':
            return R['wait']
        if d[0] == 'f':
            return (int(d[1:]), 0, 0, 0, 0)
        if d[0] == 'r':
            return (dreg.get(int(d[1:]), 0), 0, 0, 0, 0)
        return {'gR': R['ro'], 'gM': R['mw'], 'gF': (0, 0, 0, 1, 0), 'gS': (0, 0, 0, 0, 1)}[d]

    def lead_span(o):
        if o in LS:
            return LS[o]
        op = ops[o]
        if op['cls'] != 'CircuitCompositeOperation':
            r = (ZERO, dur_form(op['dur']))
        elif not op['graph']:
            r = (ZERO, ZERO)
        else:
            nodes = [e[0] for e in op['graph']]
            hds = [e[0] for e in op['graph'] if e[1] < 0]
            lo_f = {m: sub(start(m), lead_span(m)[0]) for m in nodes}
            hi_f = {m: add(lo_f[m], lead_span(m)[1]) for m in nodes}
            lo = min(nodes, key=lambda m: num(lo_f[m]))
            hi = max(nodes, key=lambda m: num(hi_f[m]))
            hd = min(hds, key=lambda m: num(start(m)))
            if not all(nonneg(sub(lo_f[m], lo_f[lo])) for m in nodes):
                raise Uncertifiable(f'earliest node of composite {o} is not dominated coefficient-wise')
            if not all(nonneg(sub(hi_f[hi], hi_f[m])) for m in nodes):
                raise Uncertifiable(f'latest node of composite {o} does not dominate coefficient-wise')
            if not all(nonneg(sub(start(h), start(hd))) for h in hds):
                raise Uncertifiable(f'earliest head of composite {o} is not dominated coefficient-wise')
            CERT[o] = (lo, hi, hd)
            r = (sub(start(hd), lo_f[lo]), sub(hi_f[hi], lo_f[lo]))
        LS[o] = r
        return r

    def start(o):
        if o in ST:
            return ST[o]
        multi, refs, rel = links[ops[o]['link']]
        if multi:
            if refs:
                raise Uncertifiable('multi link (unrolled circuit)')
            r = ZERO
        elif not refs:
            r = ZERO
        else:
            ref = refs[0]
            s, e = start(ref), add(start(ref), lead_span(ref)[1])
            r = {'FB': e, 'JS': s, 'JE': sub(e, lead_span(o)[1])}[rel]
        ST[o] = r
        return r

    rows = []
    for o in range(len(ops)):
        l, s = lead_span(o)
        lo, hi, hd = CERT.get(o, (0, 0, 0))
        rows.append((start(o), l, s, lo, hi, hd))
    return rows


def contents(world, c):
    out = []
    for e in world['ops'][c]['graph']:
        if world['ops'][e[0]]['cls'] == 'CircuitCompositeOperation':
            out += contents(world, e[0])
        else:
            out.append(e[0])
    return out


def chans(op):
    q = op['qs']
    c = op['cls']
    if c in ('SingleQubitOperation', 'Reset', 'DetectorOperation', 'LogicalObservableOperation'):
        return [(q[0], 'A')]
    if c in ('Wait', 'VirtualVacant', 'VirtualEmpty'):
        return [(q[0], op['chan'])]
    if c == 'VirtualPark':
        return [(q[0], 'F')]
    if c == 'TwoQubitOperation':
        return [(q[0], 'A'), (q[1], 'A')]
    if c == 'CPhase':
        return [(q[0], 'F'), (q[0], 'M'), (q[1], 'F'), (q[1], 'M')]
    if c == 'TwoQubitVirtualPhase':
        return [(q[0], 'M'), (q[1], 'M')]
    if c == 'DispersiveMeasure':
        return [(q[0], 'R')]
    if c in ('Barrier', 'CoordinateShiftOperation'):
        return [(x, 'A') for x in q]
    if c == 'VirtualTwoQubitVacant':
        return [(q[0], op['chan']), (q[1], op['chan'])]
    return [(q[0], 'M')]


def pairs_ok(world, rows, c):
    """the pair check of `checkPairs`, in Python (so that a failing case is reported here, not by lake)."""
    xs = contents(world, c)
    ops = world['ops']
    ch = {a: chans(ops[a]) for a in xs}
    for a in xs:
        for b in xs:
            if a == b:
                continue
            if not any(x[0] == y[0] and (x[1] == y[1] or 'A' in (x[1], y[1])) for x in ch[a] for y in ch[b]):
                continue
            barrier = ops[a]['cls'] == 'Barrier' or ops[b]['cls'] == 'Barrier'
            if not barrier and (rows[a][2] == ZERO or rows[b][2] == ZERO):
                continue
            ea, eb = add(rows[a][0], rows[a][2]), add(rows[b][0], rows[b][2])
            if not (nonneg(sub(rows[b][0], ea)) or nonneg(sub(rows[a][0], eb))):
                return False, (a, b)
    return True, None


# ----------------------------------------------------------------------------- Lean syntax

def lf(p):
    return '⟨%d, %d, %d, %d, %d⟩' % p


def lean_dur(d):
    if d == 'd':
        return '.decoupling'
    if d[0] == 'f':
        v = int(d[1:])
        return f'.fixed ({v})' if v < 0 else f'.fixed {v}'
    if d[0] == 'r':
        return f'.reg {d[1:]}'
    return {'gR': '.glob .ro', 'gM': '.glob .mw', 'gF': '.glob .fl', 'gS': '.glob .rs'}[d]


def lean_int(x):
    return f'({x})' if x < 0 else str(x)


def lean_op(op):
    parts = [f'cls := .{CLS[op["cls"]]}']
    if op['qs']:
        parts.append('qs := [' + ', '.join(lean_int(q) for q in op['qs']) + ']')
    if op['chan'] != 'A':
        parts.append(f'chan := .{CHAN[op["chan"]]}')
    parts.append(f'dur := {lean_dur(op["dur"])}')
    parts.append(f'link := {op["link"]}')
    if op['tag']:
        parts.append(f'tag := {op["tag"]}')
    if op['reg']:
        parts.append(f'reg := {op["reg"]}')
    if op['ints']:
        parts.append('ints := [' + ', '.join('none' if x is None else f'some {lean_int(x)}' for x in op['ints']) + ']')
    if op['rep'] != 'f1':
        parts.append('rep := ' + (f'.fixed {op["rep"][1:]}' if op['rep'][0] == 'f' else f'.reg {op["rep"][1:]}'))
    if op['graph']:
        ents = ', '.join('⟨%d, %s, [%s]⟩' % (e[0], 'none' if e[1] < 0 else f'some {e[1]}', ', '.join(map(str, e[2])))
                         for e in op['graph'])
        parts.append(f'graph := [{ents}]')
    return '{ ' + ', '.join(parts) + ' }'


def lean_link(l):
    multi, refs, rel = l
    parts = []
    if multi:
        parts.append('multi := true')
    if refs:
        parts.append('refs := [' + ', '.join(map(str, refs)) + ']')
    if rel != 'FB':
        parts.append(f'rel := .{REL[rel]}')
    return '{ ' + ', '.join(parts) + ' }' if parts else '{}'


def lean_table(rows):
    return '#[' + ',\n    '.join('⟨%s, %s, %s, %d, %d, %d⟩' % (lf(r[0]), lf(r[1]), lf(r[2]), r[3], r[4], r[5])
                                  for r in rows) + ']'


def lean_world(world):
    ops = ',\n    '.join(lean_op(o) for o in world['ops'])
    links = ', '.join(lean_link(l) for l in world['links'])
    dreg = ', '.join(f'({k}, {lean_int(v)})' for k, v in world['dreg'])
    return f'{{ ops := #[{ops}],\n    links := #[{links}],\n    dreg := [{dreg}] }}'


# ----------------------------------------------------------------------------- cases

def case_list(big=False):
    cs = []
    for length, cycles in ((3, (0, 1, 2, 3, 4)), (5, (0, 1, 2, 4)), (7, (3,) if not big else (0, 1, 2, 3, 4))):
        nd = (length + 1) // 2
        for c in cycles:
            cs.append({'kind': 'full', 'cycles': c, 'desc': ['chain', length, 1], 'data': ('10' * nd)[:nd]})
    cs.append({'kind': 'full', 'cycles': 3, 'desc': ['chain', 5, 0], 'data': '101'})
    for length in (3, 5):
        nd = (length + 1) // 2
        for c in (0, 1, 3):
            for refocus in (1, 0):
                cs.append({'kind': 'simplified', 'cycles': c, 'desc': ['chain', length, refocus], 'data': ('10' * nd)[:nd]})
    for name in record.LAYOUTS:
        n = len(record.layout_chain(name))
        for start, length in ((0, 3), (2, 5), (n - 5, 5)):
            nd = (length + 1) // 2
            cs.append({'kind': 'full', 'cycles': 2, 'desc': ['layout', name, start, length, 1], 'data': ('01' * nd)[:nd]})
            cs.append({'kind': 'simplified', 'cycles': 2, 'desc': ['layout', name, start, length, 1], 'data': ('01' * nd)[:nd]})
    for t in ('QUBIT', 'QUTRIT'):
        cs.append({'kind': 'calib', 'type': t, 'n': 3})
    return cs


def case_name(c):
    d = c.get('desc')
    ds = 'default' if d is None else '-'.join(str(x) for x in d)
    if c['kind'] == 'calib':
        return f"calib {c['type']} n={c['n']}"
    return f"{c['kind']} {ds} cycles={c.get('cycles')} data={c.get('data', '')}"


def main():
    big = '--big' in sys.argv
    max_objects = int(sys.argv[sys.argv.index('--max-objects') + 1]) if '--max-objects' in sys.argv else 110
    out = Path(sys.argv[sys.argv.index('--out') + 1]) if '--out' in sys.argv else OUT
    report = {'generated': str(out.relative_to(ROOT)) if out.is_relative_to(ROOT) else str(out), 'cases': 0,
              'uncertified': [], 'model_mismatch': [], 'objects': 0, 'too_large_for_the_kernel_budget': []}
    if 'ops' not in progs.OBSERVERS or not common.driver_available():
        report['error'] = 'driver or the `ops` command missing'
        print(json.dumps(report))
        return 2
    ambient = progs.ambient_durations()
    items = []
    lines = []
    spans = []
    for c in case_list(big):
        fn, kw = record.build_case(c)
        prog, idx, real = record.record(fn, **kw)
        want = record.real_listing(real)
        l = progs.to_lines(prog + [['list', idx]], ambient) + ['heap dump']
        spans.append((len(lines), len(l)))
        lines += l
        items.append((c, idx, want))
    try:
        res = common.run_driver(lines)
    except common.LeanFailure as e:
        report['error'] = f'driver: {e.output[-300:]}'
        print(json.dumps(report))
        return 2
    if any(res[a + k - 1] == 'bad-op' for a, k in spans):
        # the driver in this tree does not know `heap dump` yet: keep the committed generated file as it is
        report['error'] = 'driver lacks the `dump` command (Driver/Heap.lean); generated file left untouched'
        print(json.dumps(report))
        return 2
    lean_cases = []
    for (c, idx, want), (a, k) in zip(items, spans):
        got, dump = res[a + k - 2], res[a + k - 1]
        if got != want or not dump.startswith('{'):
            report['model_mismatch'].append(case_name(c))
            continue
        world = json.loads(dump)
        comp = world['circs'][idx]
        if len(world['ops']) > max_objects:
            report['too_large_for_the_kernel_budget'].append(f'{case_name(c)} ({len(world["ops"])} objects)')
            continue
        try:
            tabs = {}
            for r in 'AB':
                rows = schedule(world, r)
                ok, pair = pairs_ok(world, rows, comp)
                if not ok:
                    raise Uncertifiable(f'regime {r}: operations {pair} are not separated coefficient-wise')
                tabs[r] = rows
        except Uncertifiable as e:
            report['uncertified'].append({'case': case_name(c), 'why': str(e)})
            continue
        report['objects'] += len(world['ops'])
        lean_cases.append((case_name(c), world, comp, tabs['A'], tabs['B']))
    body = ['import QcoVerif.Lemmas.C10Sched',
            '/- GENERATED by tools/gen_c10_programs.py from the live code (recorder + model driver). Plain data. -/',
            'namespace Qco.C10.Generated', 'open Qco Qco.C10', '']
    for i, (name, world, comp, ta, tb) in enumerate(lean_cases):
        body.append(f'/-- {name} -/')
        body.append(f'def w{i} : World :=\n  {lean_world(world)}')
        body.append(f'def tA{i} : Table :=\n  {lean_table(ta)}')
        body.append(f'def tB{i} : Table :=\n  {lean_table(tb)}')
        body.append('')
    # four chunks of balanced size (one `decide +kernel` each in Properties/C10.lean)
    order = sorted(range(len(lean_cases)), key=lambda i: -len(lean_cases[i][1]['ops']))
    chunks = [[] for _ in range(4)]
    load = [0] * 4
    for i in order:
        k = load.index(min(load))
        chunks[k].append(i)
        load[k] += len(lean_cases[i][1]['ops']) ** 3
    for k, idxs in enumerate(chunks):
        body.append(f'def chunk{k} : List Case := [')
        body.append(',\n'.join(f'  ⟨{json.dumps(lean_cases[i][0])}, w{i}, {lean_cases[i][2]}, tA{i}, tB{i}⟩'
                               for i in sorted(idxs)))
        body.append(']')
    body.append('def cases : List Case := chunk0 ++ chunk1 ++ chunk2 ++ chunk3')
    body.append('')
    body.append('end Qco.C10.Generated')
    text = '\n'.join(body) + '\n'
    out.parent.mkdir(parents=True, exist_ok=True)
    if not out.exists() or out.read_text() != text:
        out.write_text(text)
    report['cases'] = len(lean_cases)
    report['names'] = [x[0] for x in lean_cases]
    print(json.dumps(report))
    return 0


if __name__ == '__main__':
    sys.exit(main())
