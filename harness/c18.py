"""C18 — drawing shows the schedule and leaves the circuit alone.

Build programs (random circuits through the real API) are extended by `plot` commands:

    ['plot', c, order, labels, compact, ro, mw, fl, rs]      (flat tokens, same as the Lean driver line)

For every case the real `plot_circuit` is called (Agg, figure closed) with a spy on
`plot_circuit_description` that reads the `VisualCircuitDescription` and the rectilinear transforms of its draw
components *inside* the drawing's own duration override.  Three things are decided per case:

  (a) correspondence: the canonical description equals the one of the Lean model (`Model/Draw.lean`, the
      definitions the theorems of `Properties/C18.lean` are about);
  (b) the property predicate, stated directly over what the implementation reports (rows, labels, pivots, widths,
      figure width, highlights; `plot_circuit` does not raise on a valid input; an unknown channel raises);
  (c) the side-effect clause: `list` (operations, times, duration, acquisition indices) immediately before and after
      the plot, and the final observations of a twin run without the plot, are identical — under ambient global
      durations different from the drawing's own.
"""
from __future__ import annotations
import contextlib
import io
import json
import multiprocessing as mp
import os
import random
import time
import warnings
from collections import Counter
from fractions import Fraction

from . import common, progs, stream, findings

PROP = 'C18'
TOL = 1e-9            # tolerance (time units of the implementation) for non-dyadic x-offsets and for y = -row*1.2
SPACING = 1.2         # channel_spacing = channel_height * 1.2, channel_height = 1.0
MAX_OPS = {'quick': 120, 'thorough': 300}      # base programs whose largest circuit lists more operations are not plotted (counted)
CASE_SECONDS = {'quick': 8, 'thorough': 120}   # wall-clock guard per case; a slower case is counted as skipped, never as a verdict
TIER = 'quick'
DEGENERATE_STREAM = True   # circuits containing Barrier([]) / CoordinateShiftOperation([]) (R18: must be skipped, not raise)

# ambient global durations (ro, mw, fl, rs; units of 1/8), each component different from the drawing's (16, 8, 8, 16)
AMBIENTS = [(24, 4, 12, 8), (8, 16, 4, 24), (40, 2, 16, 12), (12, 12, 24, 4)]
ROTATIONS = {'Rx180', 'Rx90', 'Rxm90', 'Ry180', 'Ry90', 'Rym90', 'Rx180ef', 'VirtualPhase', 'Rphi90'}
TWO_DRAWN = {'CPhase', 'VirtualTwoQubitVacant'}
LABELS = ['D1', 'D2', 'X3', 'Z_a', 'q7', 'anc', 'A', 'b2']

_dc = None


def dc():
    global _dc
    if _dc is None:
        progs.api()
        with contextlib.redirect_stderr(io.StringIO()):
            import matplotlib
            matplotlib.use('Agg')
            from qce_circuit.visualization.visualize_circuit import display_circuit
        _dc = display_circuit
    return _dc


def draw_durs():
    """The drawing's own duration table, read from the live code, in model units (ro, mw, fl, rs)."""
    a = progs.api()
    reg = dc().VISUALIZATION_DURATION_REGISTRY
    return tuple(progs.to_units(reg[a.GK[k]]) for k in 'RMFS')


# ----------------------------------------------------------------------------- reading the implementation

def _row_of_y(y):
    r = round(-y / SPACING)
    if r < 0 or abs(-1 * r * SPACING - y) > TOL:
        raise ValueError(f'y={y!r} is not -row*{SPACING}')
    return r


def _x8(x):
    """x in eighths; exact integer where possible (string), else float repr."""
    v = float(x) * progs.UNIT
    return str(int(v)) if v == int(v) else repr(v)


def read_component(comp):
    """(glyph, width in eighths, [(x string, row)]) of one operation draw component."""
    name = type(comp).__name__
    if hasattr(comp, 'main_pivot'):
        p0 = comp.main_pivot.get_pivot(None)
        p1 = comp.vertical_pivot.get_pivot(None)
        w = comp.single_block_width.get_length(None)
        h = comp.single_block_height.get_length(None)
        piv = [(p0.x, p0.y), (p1.x, p1.y)]
        align = comp.alignment.name
    elif hasattr(comp, 'multiple_transforms'):
        ts = comp.multiple_transforms
        piv = [(t.pivot.x, t.pivot.y) for t in ts]
        ws = {t.width for t in ts}
        w = ws.pop() if len(ws) == 1 else (0.0 if not ws else float('nan'))
        h = 1.0 if all(t.height == 1.0 for t in ts) else float('nan')
        align = 'MID_LEFT' if all(t.parent_alignment.name == 'MID_LEFT' for t in ts) else 'mixed'
    else:
        t = comp.rectilinear_transform
        piv = [(comp.pivot.x, comp.pivot.y)]
        w = t.width
        h = t.height
        align = t.parent_alignment.name
        if (t.pivot.x, t.pivot.y) != piv[0]:
            raise ValueError('rectilinear transform pivot differs from the component pivot')
    if h != 1.0 or align != 'MID_LEFT':
        raise ValueError(f'{name}: height {h!r} / alignment {align} (expected 1.0 / MID_LEFT)')
    return name, progs.to_units(w), [(_x8(x), _row_of_y(y)) for x, y in piv]


def read_highlight(comp):
    t = comp.rectilinear_transform
    if t.parent_alignment.name != 'BOT_LEFT':
        raise ValueError('highlight alignment')
    bot = comp.pivot.y
    top = comp.pivot.y + comp.height
    row_max = _row_of_y(bot + 0.5)
    row_min = _row_of_y(top - 0.5)
    txt = comp.text_string
    return (progs.to_units(comp.pivot.x), progs.to_units(comp.width), row_min, row_max,
            int(txt[1:]) if txt.startswith('x') else -1)


def fmt_plot(rows, labels, width, raises, comps, hls):
    cs = ';'.join(f'{g}:{w}:' + ('+'.join(f'{x}@{r}' for x, r in piv) if piv else '-') for g, w, piv in comps) or '-'
    hs = ';'.join(':'.join(str(v) for v in h) for h in hls) or '-'
    return (f'ok rows={progs._ints(rows)} labels={",".join(labels) or "-"} width={width} raises={raises} '
            f'comps={cs} hl={hs}')


def parse_plot(s):
    """Canonical answer → dict (x-positions as Fractions or floats)."""
    if not s.startswith('ok '):
        return {'kind': s}
    d = {'kind': 'ok'}
    for tok in s.split(' ')[1:]:
        k, _, v = tok.partition('=')
        d[k] = v
    comps = []
    if d.get('comps', '-') != '-':
        for c in d['comps'].split(';'):
            g, w, piv = c.split(':')
            ps = []
            if piv != '-':
                for p in piv.split('+'):
                    x, r = p.split('@')
                    if '/' in x:
                        n, m = x.split('/')
                        xv = Fraction(int(n), int(m))
                    else:
                        try:
                            xv = Fraction(int(x))
                        except ValueError:
                            xv = float(x)
                    ps.append((xv, int(r)))
            comps.append((g, int(w), ps))
    d['comps'] = comps
    return d


def same_plot(impl_s, model_s):
    a, b = parse_plot(impl_s), parse_plot(model_s)
    if a['kind'] != b['kind']:
        return False
    if a['kind'] != 'ok':
        return True
    for k in ('rows', 'labels', 'width', 'raises', 'hl'):
        if a.get(k) != b.get(k):
            return False
    if len(a['comps']) != len(b['comps']):
        return False
    for (g1, w1, p1), (g2, w2, p2) in zip(a['comps'], b['comps']):
        if g1 != g2 or w1 != w2 or len(p1) != len(p2):
            return False
        for (x1, r1), (x2, r2) in zip(p1, p2):
            if r1 != r2 or abs(float(x1) - float(x2)) > TOL * progs.UNIT:
                return False
    return True


def strip_settled(model_s):
    """model answer without the `settled=` token; returns (answer, settled flag or None)."""
    if not model_s.startswith('ok '):
        return model_s, None
    toks = model_s.split(' ')
    flag = None
    keep = []
    for t in toks:
        if t.startswith('settled='):
            flag = t == 'settled=1'
        else:
            keep.append(t)
    return ' '.join(keep), flag


# ----------------------------------------------------------------------------- the property predicate

def predicate(info):
    """Property clauses over what the implementation reported for one successful plot. Returns failure dicts."""
    fails = []
    occ, order, lmap = info['occ'], info['order'], info['labels_in']
    rows = info['rows']
    exp_rows = list(order) + [q for q in occ if q not in order]
    if rows != exp_rows:
        fails.append({'what': 'channel_indices is not order ++ (occupied minus order)', 'rows': rows, 'expected': exp_rows})
    if len(set(order)) == len(order) and len(set(rows)) != len(rows):
        fails.append({'what': 'a channel has two rows'})
    if any(q not in rows for q in occ):
        fails.append({'what': 'an occupied channel has no row'})
    exp_labels = [str(lmap.get(q, q)) for q in rows]
    if info['labels'] != exp_labels:
        fails.append({'what': 'channel label is not the requested label of the channel on that row',
                      'labels': info['labels'], 'expected': exp_labels})
    latest = max([1.0] + [o['end'] for o in info['ops']])
    if info['width_f'] != latest + 1.0:
        fails.append({'what': 'figure width is not max(1, latest end) + 1', 'width': info['width_f'], 'latest': latest})
    if info.get('comps') is None:
        return fails

    def row(q):
        return rows.index(q)

    # components of single-pivot operations and barriers: exact multiset
    expected = Counter()
    two_ops = []
    for o in info['ops']:
        n = o['cls']
        if n in ('TwoQubitOperation', 'TwoQubitVirtualPhase'):
            continue
        if n in ('Barrier', 'CoordinateShiftOperation') and not o['qs']:
            continue        # occupies no channel: nothing to draw (and nothing may be drawn)
        if n in TWO_DRAWN:
            two_ops.append(o)
            continue
        s8, d8 = progs.to_units(o['start']), progs.to_units(o['dur'])
        if n == 'Barrier':
            key = (d8, tuple((str(s8), row(q)) for q in o['qs']))
        else:
            key = (8 if n in ROTATIONS else d8, ((str(s8), row(o['qs'][0])),))
        expected[key] += 1
    got = Counter()
    two_comps = []
    for g, w, piv in info['comps']:
        if g in ('BlockTwoQubitGate', 'BlockTwoQubitVacant'):
            two_comps.append((g, w, piv))
        else:
            got[(w, tuple(piv))] += 1
    if got != expected:
        fails.append({'what': 'an operation is not drawn on the row of its qubit at x = start with width = duration',
                      'missing': repr(list((expected - got).items())[:3]), 'extra': repr(list((got - expected).items())[:3])})
    # two-qubit gates: rows of control/target, width = duration, x = start (simultaneous gates: |x - start| <= dur/4)
    all_two_starts = Counter(o['start'] for o in info['all_two'])
    pool = list(two_comps)
    if len(pool) != len(two_ops):
        fails.append({'what': 'number of two-qubit components differs from the number of drawable two-qubit operations'})
    # a perfect matching operation <-> component must exist in which every pair agrees on rows and width and
    # x = start (gates sharing their start time with another two-qubit operation: |x - start| <= duration/4)
    def edges(strict):
        adj = []
        for o in two_ops:
            s, d = o['start'], o['dur']
            r0, r1 = row(o['qs'][0]), row(o['qs'][1])
            shared = all_two_starts[s] > 1
            es = []
            for k, (g, w, piv) in enumerate(pool):
                if w != progs.to_units(d) or [p[1] for p in piv] != [r0, r1] or piv[0][0] != piv[1][0]:
                    continue
                dev = abs(float(piv[0][0]) / progs.UNIT - s)
                if not strict or ((dev == 0.0) if not shared else (dev <= d / 4 + TOL)):
                    es.append(k)
            adj.append(es)
        return adj

    def matching(adj):
        owner = {}

        def aug(i, seen):
            for k in adj[i]:
                if k in seen:
                    continue
                seen.add(k)
                if k not in owner or aug(owner[k], seen):
                    owner[k] = i
                    return True
            return False
        unmatched = [i for i in range(len(adj)) if not aug(i, set())]
        return owner, unmatched

    _, bad = matching(edges(True))
    if bad:
        owner, bad2 = matching(edges(False))
        if bad2:
            o = two_ops[bad2[0]]
            fails.append({'what': 'a two-qubit gate has no component on the rows of its qubits with width = duration',
                          'start': o['start'], 'duration': o['dur'], 'qubits': o['qs']})
        else:
            o = two_ops[bad[0]]
            k = next(k for k, i in owner.items() if i == bad[0])
            x = float(pool[k][2][0][0]) / progs.UNIT
            shared = all_two_starts[o['start']] > 1
            fails.append({'what': 'simultaneous two-qubit gate drawn further than duration/4 from its start time' if shared
                          else 'a two-qubit gate is not drawn at x = start',
                          'start': o['start'], 'duration': o['dur'], 'x': x, 'qubits': o['qs']})
    # highlights
    if info.get('hl') is not None:
        exp_h = []
        for h in info['composites']:
            if h['count'] == 1 or not h['qs']:
                continue
            rs = [row(q) for q in h['qs']]
            exp_h.append((progs.to_units(h['start']), progs.to_units(h['dur']), min(rs), max(rs), h['count']))
        if exp_h != info['hl']:
            fails.append({'what': 'repetition highlight does not span the repeated block', 'got': info['hl'], 'expected': exp_h})
    return fails


# ----------------------------------------------------------------------------- running the implementation

class DrawRun(progs.ImplRun):
    """`progs.ImplRun` + the `plot` / `occupied` commands."""

    def __init__(self, clear_cache=False):
        super().__init__(clear_cache=clear_cache)
        self.fails = []
        self.plots = []

    def close(self):
        # leave an open global-duration override explicitly: relying on the finaliser of the generator based
        # context manager restores a stale lookup at an arbitrary later time when a reference cycle delays it
        if self.in_override:
            self.ctx.__exit__(None, None, None)
            self.in_override = False
        self.ctx = None
        super().close()

    def occupied(self, c):
        out = []
        for ci in self.circs[c].occupied_qubit_channels:
            if ci.id not in out:
                out.append(ci.id)
        return out

    def step(self, cmd):
        if cmd[0] == 'plot':
            return self.plot(cmd)
        if cmd[0] == 'occupied':
            return progs._ints(self.occupied(cmd[1]))
        if cmd[0] == 'size':     # number of leaf operations below a circuit, without the mutating listing
            return str(max(len(progs.expand(x.circuit_structure)) for x in self.circs))
        return super().step(cmd)

    def plot(self, cmd):
        import matplotlib.pyplot as plt
        D = dc()
        _, c, order_s, labels_s, compact = cmd[:5]
        order = None if order_s == '-' else [int(x) for x in str(order_s).split(',')]
        lmap = None if labels_s == '-' else {int(k): v for k, v in (kv.split('=') for kv in labels_s.split(','))}
        circ = self.circs[c]
        occ = self.occupied(c)
        info = {'occ': occ, 'order': order or [], 'labels_in': lmap or {}, 'compact': int(compact)}
        cap = {}
        orig = D.plot_circuit_description

        def spy(description, **kw):
            cap['rows'] = list(description.channel_indices)
            cap['labels'] = [description.get_channel_header(index=i).channel_name for i in range(len(cap['rows']))]
            cap['width_f'] = description.channel_width
            cap['ops'] = [{'cls': type(o).__name__, 'qs': progs.qubits_of(o), 'start': o.start_time,
                           'dur': o.duration, 'end': o.end_time} for o in description.operations]
            cap['all_two'] = [o for o in cap['ops'] if o['cls'] in progs.TWO]
            cap['composites'] = []
            for s in description.composite_operations:
                qs = []
                for ci in s.channel_identifiers:
                    qs.append(ci.id)
                cap['composites'].append({'count': s.nr_of_repetitions, 'qs': qs, 'start': s.start_time, 'dur': s.duration})
            try:
                cap['comps'] = [read_component(x) for x in description.get_operation_draw_components()]
                cap['hl'] = [read_highlight(x) for x in description.get_highlight_draw_components()]
            except progs.NonDyadic:
                raise
            except Exception as e:  # noqa — a component cannot be built: the real call below will raise as well
                cap['read_error'] = f'{type(e).__name__}:{str(e)[:80]}'
            return orig(description, **kw)

        D.plot_circuit_description = spy
        raised = None
        try:
            fig, ax = D.plot_circuit(circ, channel_order=order, channel_map=lmap, compact_visualization=bool(int(compact)))
            plt.close(fig)
        except RecursionError:
            raise
        except progs.NonDyadic:
            raise
        except Exception as e:  # noqa
            raised = (type(e), str(e))      # no reference to the exception object (traceback -> frame -> self cycle)
        finally:
            D.plot_circuit_description = orig
            plt.close('all')
        unknown = any(q not in occ for q in (order or []))
        if raised is not None and issubclass(raised[0], ValueError) and raised[1].startswith('All indices in specific_order') \
                and 'rows' not in cap:
            if not unknown:
                self.fails.append({'what': 'a channel order over occupied channels is rejected', 'order': order, 'occupied': occ})
            self.plots.append({'kind': 'reject', 'unknown': unknown})
            return 'reject'
        if unknown:
            self.fails.append({'what': 'an unknown channel in the requested order is not rejected with an error',
                               'order': order, 'occupied': occ, 'raised': repr(raised)})
        if 'rows' not in cap:
            # raised before the description existed
            self.fails.append({'what': 'plot_circuit raises on a valid input', 'exception': f'{raised[0].__name__}:{raised[1][:120]}'})
            return f'EXC:{raised[0].__name__}:{raised[1][:80]}'
        info.update(cap)
        info['width'] = progs.to_units(cap['width_f'])
        if raised is not None:
            self.fails.append({'what': 'plot_circuit raises on a valid input',
                               'exception': f'{raised[0].__name__}:{raised[1][:120]}'})
            info['comps'] = None
            info['hl'] = None
        elif 'read_error' in cap:
            self.fails.append({'what': 'draw components unreadable although plot_circuit succeeded', 'error': cap['read_error']})
            info['comps'] = None
            info['hl'] = None
        if not unknown:
            self.fails.extend(predicate(info))
        self.plots.append({'kind': 'ok', 'rows': len(info['rows']), 'comps': len(info['comps'] or []),
                           'hl': len(info['hl'] or []), 'raised': raised is not None,
                           'offset': any('.' in p[0] for _, _, piv in (info['comps'] or []) for p in piv)})
        return fmt_plot(info['rows'], info['labels'], info['width'], 1 if raised is not None else 0,
                        info['comps'] or [], info['hl'] or [])


def run_prog(prog):
    """One program on the implementation. Returns (answers, failures, plot summaries)."""
    r = DrawRun()
    out = []
    fails = []
    try:
        with contextlib.redirect_stderr(io.StringIO()), warnings.catch_warnings():
            warnings.simplefilter('ignore')
            for i, cmd in enumerate(prog):
                n0 = len(r.fails)
                try:
                    ans = r.step(cmd)
                    out.append(ans)
                except RecursionError:
                    out.append('undef')
                    break
                except progs.NonDyadic as e:
                    out.append(f'EXC:NonDyadic:{e}')
                    break
                except AssertionError as e:
                    out.append(f'EXC:Assert:{e}')
                    break
                except Exception as e:  # noqa
                    out.append(f'EXC:{type(e).__name__}:{str(e)[:120]}')
                    break
                finally:
                    for f in r.fails[n0:]:
                        fails.append({'at': i, **f})
                # side-effect clause, local form: list / plot / list on the same circuit
                if cmd[0] == 'list' and i >= 2 and prog[i - 1][0] == 'plot' and prog[i - 2][0] == 'list' \
                        and prog[i - 1][1] == cmd[1] and prog[i - 2][1] == cmd[1] and out[i - 1] is not None \
                        and not str(out[i - 1]).startswith('EXC'):
                    if out[i] != out[i - 2]:
                        fails.append({'at': i, 'what': 'listing (operations, times, duration, acquisition indices) differs before and after plotting',
                                      'before': out[i - 2], 'after': out[i]})
                if cmd[0] == 'plot' and i >= 1 and prog[i - 1] == cmd and out[i - 1] is not None and out[i] != out[i - 1]:
                    fails.append({'at': i, 'what': 'plotting twice gives a different description',
                                  'first': out[i - 1], 'second': out[i]})
    finally:
        r.close()
    return out, fails, r.plots


def without_plots(prog):
    return [c for c in prog if c[0] != 'plot']


def run_case(prog):
    """Program + its twin without the plot commands; the observations of the twin must be the same."""
    out, fails, plots = run_prog(prog)
    if any(c[0] == 'plot' for c in prog) and len(out) == len(prog) and not any(str(x).startswith('EXC') for x in out if x):
        twin = without_plots(prog)
        tout, _, _ = run_prog(twin)
        obs = [x for c, x in zip(prog, out) if c[0] in progs.OBSERVERS]
        tobs = [x for c, x in zip(twin, tout) if c[0] in progs.OBSERVERS]
        if obs != tobs:
            k = next((j for j, (x, y) in enumerate(zip(obs, tobs)) if x != y), min(len(obs), len(tobs)))
            fails.append({'at': len(prog) - 1, 'what': 'a run with plotting observes something else than the same run without plotting',
                          'observer_index': k, 'with_plot': obs[k] if k < len(obs) else None,
                          'without_plot': tobs[k] if k < len(tobs) else None})
    return out, fails, plots


# ----------------------------------------------------------------------------- generation

def gen_cfg(tier):
    w = []
    for n in progs.ALL_LEAF:
        if n in ('CPhase', 'VirtualTwoQubitVacant'):
            w.append(2.5)
        elif n in ('TwoQubitOperation', 'TwoQubitVirtualPhase', 'Barrier', 'DispersiveMeasure', 'Wait'):
            w.append(1.5)
        else:
            w.append(1.0)
    return progs.GenConfig(n_cmds=(3, 26) if tier == 'quick' else (3, 40), nq=4, p_new=0.13, p_sub=0.14, p_list=0.04,
                           p_apply=0.05, p_flatten=0.015, p_copy=0.02, p_gdur=0.03, p_setreg=0.04,
                           reps=[1, 2, 2, 3], p_regrep=0.15, final_list=False, class_weights=w)


def n_circs(prog):
    return sum(1 for c in prog if c[0] in ('new', 'copy'))


def n_handles(prog):
    return sum(1 for c in prog if c[0] in ('op', 'sub'))


def force_features(base, rng, stream_kind):
    """Appends commands that force the shapes named in the quantifier."""
    base = [json.loads(json.dumps(c)) for c in base]
    nc = n_circs(base)
    c = 0 if rng.random() < 0.6 else rng.randrange(nc)
    if stream_kind == 'simultaneous':
        # several two-qubit gates starting together on overlapping / disjoint rows, some with long fixed durations
        nh = n_handles(base)
        k = rng.randrange(2, 5)
        first = None
        for j in range(k):
            a = rng.randrange(4)
            b = (a + 1 + rng.randrange(3)) % 4
            cls = rng.choice(['CPhase', 'CPhase', 'VirtualTwoQubitVacant', 'VirtualTwoQubitVacant', 'TwoQubitOperation',
                              'TwoQubitVirtualPhase'])
            dur = None
            if cls in progs.DUR_SETTABLE and rng.random() < 0.7:
                dur = f'f{rng.choice([4, 8, 8, 16, 24, 40])}'
            rel = None if first is None else [first, 'JS']
            base.append(['op', c, cls, [a, b], rng.choice('ARMF'), dur, 0, 0, [], rel])
            if first is None:
                first = nh
            nh += 1
    elif stream_kind == 'empty-sub':
        # empty (repeated) sub-circuits, also nested in an otherwise empty one
        if nc < 8:
            base.append(['new', rng.choice(['f2', 'f3', 'f1', 'r0'])])
            e = nc
            nc += 1
            if rng.random() < 0.4 and nc < 9:
                base.append(['new', rng.choice(['f2', 'f1'])])
                base.append(['sub', nc, e])
                e = nc
                nc += 1
            base.append(['sub', c, e])
            if rng.random() < 0.5:
                base.append(['op', c, 'Rx180', [rng.randrange(4)], 'A', None, 0, 0, [], None])
    elif stream_kind == 'degenerate':
        cls = rng.choice(['Barrier', 'CoordinateShiftOperation'])
        base.append(['op', c, cls, [], 'A', None, 0, 0, [1, 0] if cls == 'CoordinateShiftOperation' else [], None])
    elif stream_kind == 'unroll':
        base.append(['apply', c])
    return base, c


def make_variants(base, c, rng, k, dd, kinds=None):
    """k programs `base + tail`, the tail plotting circuit c. Occupied channels are read from the implementation."""
    out, _, _ = run_prog(base + [['size', c], ['occupied', c]])
    if len(out) != len(base) + 2 or out[-1] is None or str(out[-1]).startswith('EXC') or out[-1] == 'undef':
        occ = []
        broken = True
    else:
        if int(out[-2]) > MAX_OPS[TIER]:
            return []       # run time of listing + drawing grows quadratically; not part of the property
        occ = [] if out[-1] == '-' else [int(x) for x in out[-1].split(',')]
        broken = False
    nc = n_circs(base)
    res = []
    for _ in range(k):
        kind = rng.choices(['none', 'perm', 'prefix', 'unknown', 'dup'], weights=[0.15, 0.32, 0.30, 0.17, 0.06])[0]
        if kinds:
            kind = rng.choice(kinds)
        perm = list(occ)
        rng.shuffle(perm)
        if kind == 'none':
            order = []
        elif kind == 'perm':
            order = perm
        elif kind == 'prefix':
            order = perm[:rng.randrange(0, len(perm) + 1)]
        elif kind == 'unknown':
            order = perm[:rng.randrange(0, len(perm) + 1)]
            bad = rng.choice([q for q in list(range(-1, 7)) if q not in occ])
            order.insert(rng.randrange(0, len(order) + 1), bad)
        else:
            order = perm[:rng.randrange(0, len(perm) + 1)]
            if order and len(occ) <= 3:
                order.insert(rng.randrange(0, len(order) + 1), rng.choice(order))
            else:
                kind = 'prefix'
        order_s = progs._ints(order)
        if rng.random() < 0.3:
            labels_s = '-'
        else:
            keys = [q for q in occ if rng.random() < 0.6]
            if rng.random() < 0.25:
                keys.append(rng.choice([q for q in range(-1, 8) if q not in occ]))
            labels_s = ','.join(f'{q}={rng.choice(LABELS)}' for q in keys) or '-'
        compact = 1 if rng.random() < 0.6 else 0
        amb = rng.randrange(len(AMBIENTS)) if rng.random() < 0.88 else None
        plot = ['plot', c, order_s, labels_s, compact] + list(dd)
        tail = []
        if amb is not None:
            tail.append(['gdur'] + list(AMBIENTS[amb]))
        pre = rng.random() < 0.5
        if pre:
            tail.append(['list', c])
        tail.append(plot)
        if rng.random() < 0.15:
            tail.append(list(plot))
        if pre:
            tail.append(['list', c])
        if rng.random() < 0.2:
            tail.append(['dur', c])
        if amb is not None and rng.random() < 0.5:
            tail.append(['gdur-leave'])
        for i in range(nc):
            tail.append(['list', i])
        res.append({'prog': base + tail, 'order_kind': kind, 'compact': compact, 'ambient': amb, 'broken_base': broken,
                    'pre_list': pre, 'n_occ': len(occ)})
    return res


class CaseTimeout(BaseException):
    pass


def _alarm(signum, frame):
    raise CaseTimeout()


def _worker(args):
    import signal
    base, seed, k, dd, stream_kind = args
    rng = random.Random(seed)
    base, c = force_features(base, rng, stream_kind)
    old = signal.signal(signal.SIGALRM, _alarm)
    done = []
    try:
        signal.alarm(CASE_SECONDS[TIER])
        try:
            cases = make_variants(base, c, rng, k, dd)
        except CaseTimeout:
            return [{'skipped': 'timeout', 'stream': stream_kind}]
        finally:
            signal.alarm(0)
        if not cases:
            return [{'skipped': 'large', 'stream': stream_kind}]
        for cs in cases:
            signal.alarm(CASE_SECONDS[TIER])
            try:
                out, fails, plots = run_case(cs['prog'])
            except CaseTimeout:
                done.append({'skipped': 'timeout', 'stream': stream_kind})
                continue
            finally:
                signal.alarm(0)
            cs.update({'impl': out, 'fails': fails, 'plots': plots, 'stream': stream_kind})
            done.append(cs)
    finally:
        signal.signal(signal.SIGALRM, old)
    return done


def _worker_fixed(prog):
    out, fails, plots = run_case(prog)
    return {'prog': prog, 'impl': out, 'fails': fails, 'plots': plots, 'stream': 'corpus', 'order_kind': 'fixed',
            'compact': None, 'ambient': None, 'broken_base': False, 'pre_list': None, 'n_occ': None}


def pool_map(fn, args):
    jobs = min(16, os.cpu_count() or 1)
    if jobs <= 1 or len(args) < 8:
        return [fn(a) for a in args]
    with mp.get_context('fork').Pool(jobs) as pool:
        return pool.map(fn, args, chunksize=max(1, len(args) // (jobs * 8)))


# ----------------------------------------------------------------------------- comparison with the model

def compare(prog, impl_out, model_out):
    """First disagreement (index, impl, model) or None; plot lines are compared structurally."""
    for i, io_ in enumerate(impl_out):
        if io_ is None:
            continue
        mo = model_out[i] if i < len(model_out) else '<missing>'
        if prog[i][0] == 'plot':
            mo, _ = strip_settled(mo)
            if io_ == 'undef':
                return None if mo == 'undef' else (i, io_, mo)
            if io_.startswith('EXC:') or not same_plot(io_, mo):
                return (i, io_, mo)
            continue
        if io_.startswith('EXC:'):
            return (i, io_, mo)
        if io_ == 'undef':
            later = [model_out[j] for j in range(i, len(model_out)) if prog[j][0] in ('list', 'dur', 'plot')]
            later = [strip_settled(x)[0] for x in later]
            if prog[i][0] in ('list', 'dur'):
                return None if mo == 'undef' else (i, io_, mo)
            return None if (not later or 'undef' in later) else (i, io_, later[0])
        if io_ != mo:
            return (i, io_, mo)
    return None


def unsettled(prog, impl_out, model_out):
    """indices of successful model plots after which a further listing would still change the model heap
    (hypothesis of `C18.plot_frame_partial`, checked on every explored case)."""
    bad = []
    for i, cmd in enumerate(prog):
        if cmd[0] == 'plot' and i < len(model_out) and i < len(impl_out):
            _, flag = strip_settled(model_out[i])
            if flag is False:
                bad.append(i)
    return bad


def evaluate(programs, ambient):
    impl = pool_map(_worker_fixed, programs)
    model = stream.run_model_many(programs, ambient)
    for r, mo in zip(impl, model):
        r['model'] = mo
        r['dis'] = compare(r['prog'], r['impl'], mo)
    return impl


# ----------------------------------------------------------------------------- the check

def shrink_case(prog, still_fails, max_steps=250):
    """Delta-debugging over the commands in front of the first plot-tail; circuits are never dropped."""
    cur = list(prog)
    steps = 0
    changed = True
    while changed and steps < max_steps:
        changed = False
        first_plot = next((j for j, c in enumerate(cur) if c[0] == 'plot'), len(cur))
        for i in range(len(cur) - 1, -1, -1):
            if cur[i][0] in ('new', 'copy', 'plot'):
                continue
            if i > first_plot and cur[i][0] not in ('list', 'dur', 'gdur-leave'):
                continue
            cand = stream._drop(cur, i)
            if cand is None:
                continue
            steps += 1
            if steps > max_steps:
                break
            try:
                if still_fails(cand):
                    cur = cand
                    changed = True
            except Exception:  # noqa
                pass
    return cur


def load_corpus():
    d = common.CORPUS / PROP
    out = []
    if d.exists():
        for f in sorted(d.glob('*.json')):
            try:
                out.append(json.loads(f.read_text())['program'])
            except Exception:  # noqa
                common.log(f'corpus file unreadable: {f}')
    return out


RULE = ('random build programs over all 26 operation classes (4 qubits, nesting <= 4, counts 1-3 fixed/registry, '
        'relations, apply_modifiers / flatten / copy, registry and global-duration changes), plus forced streams: '
        'simultaneous two-qubit gates on overlapping rows with fixed durations, empty (repeated, nested) sub-circuits, '
        'unrolled circuits, channel-less Barrier([])/CoordinateShiftOperation([]); each base program is plotted with channel order in '
        '{none, permutation, prefix of a permutation, with an unknown channel, with a duplicate} of the channels the '
        'implementation reports as occupied, label maps over occupied and foreign keys, compact / non-compact, under 4 '
        'ambient global-duration settings that differ from the drawing\'s table in every entry (and the configured one), '
        'with and without a listing in front, override left or kept afterwards; all circuits listed at the end and '
        'compared with a twin run without the plot. non-trivial = a successful plot with >= 2 rows and >= 3 draw '
        'components, or a rejection; distinct = distinct program text')

ASSUMPTIONS = [
    'times are exact multiples of 1/8; the x-offset of simultaneous two-qubit gates (thirds occur) and y = -row*1.2 are '
    'compared with tolerance 1e-9',
    'matplotlib itself is trusted only not to raise (Agg backend, figures closed); no pixel is compared',
    'float noise in the sort key of SpaceSharedOperations.divide (bottom edge of rows >= 4 differs by one ulp between '
    'blocks of different height) is outside the model: programs use <= 4 qubits, duplicates only with <= 3 channels',
    'Python recursion limit not modelled',
]


def run(tier, seed):
    global TIER
    TIER = 'quick' if tier == 'quick' else 'thorough'
    t0 = time.time()
    oc = common.Outcome(PROP)
    lean = common.proof_obligations(PROP)
    proof_ok = lean['build_ok'] and not lean['failed']
    if not common.driver_available():
        print(f'model driver missing: {lean.get("build_output", "")[-800:]}')
        return 2
    ambient = progs.ambient_durations()
    dd = draw_durs()
    rng = common.rng_for(seed, PROP)
    quick = tier == 'quick'
    n_base = 600 if quick else 5000
    k = 3
    cfg = gen_cfg(tier)
    jobs = []
    kinds = ['plain'] * 10 + ['simultaneous'] * 4 + ['empty-sub'] * 3 + ['unroll'] * 2
    n_deg = (24 if quick else 300) if DEGENERATE_STREAM else 0
    for j in range(n_base + n_deg):
        base = progs.gen_program(random.Random(rng.getrandbits(64)), cfg)
        sk = 'degenerate' if j >= n_base else kinds[j % len(kinds)]
        jobs.append((base, rng.getrandbits(64), k if sk != 'degenerate' else 1, dd, sk))
    corpus = load_corpus()
    raw = [r for group in pool_map(_worker, jobs) for r in group]
    skipped = Counter(r['skipped'] + ':' + r['stream'] for r in raw if 'skipped' in r)
    results = [r for r in raw if 'skipped' not in r]
    if corpus:
        results = pool_map(_worker_fixed, corpus) + results
    model = stream.run_model_many([r['prog'] for r in results], ambient)
    for r, mo in zip(results, model):
        r['model'] = mo
        r['dis'] = compare(r['prog'], r['impl'], mo)
        r['unsettled'] = unsettled(r['prog'], r['impl'], mo)

    # ---- statistics
    feats = {}
    dist = Counter()
    distinct = set()
    nontrivial = set()
    n_dis = 0
    exc = Counter()
    n_plots = 0
    for r in results:
        progs.merge_features(feats, progs.features(r['prog']))
        key = json.dumps(r['prog'], separators=(',', ':'))
        distinct.add(key)
        dist['stream:' + r['stream']] += 1
        dist['order:' + str(r['order_kind'])] += 1
        dist['compact:' + str(r['compact'])] += 1
        dist['ambient:' + str(r['ambient'])] += 1
        if r.get('broken_base'):
            dist['base program raises or is undefined'] += 1
        for p in r['plots']:
            n_plots += 1
            dist['plot:' + p['kind']] += 1
            if p['kind'] == 'ok':
                dist['rows:%d' % min(p['rows'], 5)] += 1
                dist['comps:' + ('0' if p['comps'] == 0 else '1-2' if p['comps'] < 3 else '3-9' if p['comps'] < 10 else '10+')] += 1
                if p['hl']:
                    dist['with highlight'] += 1
                if p['offset']:
                    dist['with offset two-qubit gates'] += 1
                if p['raised']:
                    dist['plot raised'] += 1
            if p['kind'] == 'reject' or (p['kind'] == 'ok' and p['rows'] >= 2 and p['comps'] >= 3):
                nontrivial.add(key)
        if any(x == 'undef' for x in r['impl'] if x):
            dist['undefined runs'] += 1
        for x in r['impl']:
            if x and x.startswith('EXC:'):
                exc[x.split(':')[1]] += 1
        if r['dis'] is not None:
            n_dis += 1

    # ---- verdicts
    def refails(what):
        def f(cand):
            _, fails, _ = run_case(cand)
            return any(x['what'] == what for x in fails)
        return f

    def redisagrees(cand):
        rr = evaluate([cand], ambient)[0]
        return rr['dis'] is not None

    reported = set()
    for r in results:
        for fl in r['fails']:
            kf = findings.attribute(PROP, r, fl)
            if kf is not None:
                oc.known_finding(kf)
                continue
            if fl['what'] in reported:
                continue
            reported.add(fl['what'])
            small = shrink_case(r['prog'], refails(fl['what']))
            rr = evaluate([small], ambient)[0]
            oc.violation({'property': PROP, 'kind': 'predicate-fails-on-implementation', 'failure': fl, 'program': small,
                          'implementation_answers': rr['impl'], 'model_answers': rr['model'],
                          'model_agrees': rr['dis'] is None, 'replay': './check replay <this file>'})
        if r['dis'] is not None:
            if 'dis' in reported or r['fails']:
                continue
            reported.add('dis')
            small = shrink_case(r['prog'], redisagrees)
            rr = evaluate([small], ambient)[0]
            oc.violation({'property': PROP, 'kind': 'correspondence-broken',
                          'unchecked': 'correspondence Model/Draw.lean <-> display_circuit.py on build programs',
                          'program': small, 'first_difference': rr['dis'], 'implementation_answers': rr['impl'],
                          'model_answers': rr['model'], 'predicate_failures': rr['fails']}, found_input=bool(rr['fails']))
        if r['unsettled'] and 'unsettled' not in reported and r['dis'] is None:
            reported.add('unsettled')
            # the run-time hypothesis of plot_frame_partial fails in the model: search = the twin/list comparison above
            oc.violation({'property': PROP, 'kind': 'frame-hypothesis-fails-in-model',
                          'unchecked': 'C18.plot_frame_partial hypothesis `settled` after a plot', 'program': r['prog'],
                          'at': r['unsettled'], 'predicate_failures': r['fails']}, found_input=bool(r['fails']))
    sem = common.pysem_stage(oc, PROP, ['draw'], seed, tier)
    if not proof_ok and not oc.violations:
        oc.violation({'property': PROP, 'kind': 'proof-obligation-broken', 'unchecked': lean.get('failed'),
                      'build_output': lean.get('build_output', '')[-3000:], 'axioms': lean.get('axioms')}, found_input=False)

    wall = time.time() - t0
    samples = [r['prog'] for r in results if r['stream'] == 'plain'][:2] or [r['prog'] for r in results[:2]]
    coverage = {}
    if lean['obligations']:
        coverage.update({'obligations': lean['obligations'], 'discharged': lean['discharged']})
    coverage.update({
        'checker_cmd': lean['checker_cmd'],
        'trusted_base': common.TRUSTED_BASE + ['matplotlib (Agg): only that drawing a component does not raise'],
        'theorems': lean.get('theorems', []),
        'axioms': lean.get('axioms', {}),
        **sem,
        'evaluations': len(results),
        'plots': n_plots,
        'distinct_nontrivial': len(nontrivial),
        'distinct': len(distinct),
        'rule': RULE,
        'samples': samples,
        'traces_validated_against_impl': len(results) - n_dis,
        'disagreements': n_dis,
        'corpus_programs': len(corpus),
        'input_distribution': {'programs': feats, 'cases': dict(sorted(dist.items()))},
        'skipped_base_programs': dict(skipped),
        'drawing_durations': list(dd),
        'ambient_settings': [list(a) for a in AMBIENTS] + [list(ambient)],
        'implementation_exceptions': dict(exc),
        'known_findings_printed': oc.known,
        'lean': {k_: lean.get(k_) for k_ in ('build_ok', 'build_s', 'lean_s', 'failed', 'forbidden_hits', 'translator')},
    })
    common.write_evidence(PROP, tier, seed, coverage, wall, len(oc.violations), ASSUMPTIONS)
    return oc.emit()
