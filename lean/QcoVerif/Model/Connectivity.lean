import QcoVerif.Generated.Surface17
import QcoVerif.Generated.Layouts
/-
  Executable model of the connectivity logic of `qce_circuit` (C16, C17), over the GENERATED tables.
  Core Lean only (no Mathlib): the driver links this file.

  A qubit is its position in `Surface17Layer().qubit_ids`; an edge is the pair (qubit_id0, qubit_id1) *as
  written* (orientation kept, `Edge.same` is the code's order-independent `EdgeIDObj.__eq__`).

  Modelled functions (file → definition here):
    intrf_channel_identifier.py   EdgeIDObj.contains / get_connected_qubit_id / __eq__   → Edge.has / other / same
    intrf_connectivity_surface_code.py  FrequencyGroupIdentifier.is_higher_than / is_lower_than → Freq.isHigher / isLower
    connectivity_surface_code.py  get_edges, get_neighbors (qubit / edge), on_moving_side,
                                  get_requires_parking (after the repair 59ebca9)        → getEdges … requiresParking
    gate_sequence_generator.py    OperationConstraint.get_possible_operations / get_requires_idle / intersect /
                                  get_forbidden_operations / constraint_operations / get_allowed_operations,
                                  GateSequenceGenerator.get_mutually_allowed / get_combination_size /
                                  construct_allowed_gate_sequences                        → possibleOps … constructAllowed
    combinatorics.py              generate_unique_subgroup_combinations                   → subgroupCombinations
    circuit_components.py         RepetitionCodeDescription.from_connectivity, qubit_ids, circuit_channel_map,
                                  get_gate_sequence_indices, get_park_sequence_indices,
                                  CompositeRepetitionCodeDescription.gate_sequences (after the repair 9bbfc50), qubit_ids
                                                                                           → fromConnectivity … compositeLayers
  Totalisations (the code raises there; every theorem states the guard): `freqOf` of an unknown qubit is LOW,
  `Edge.other` of a qubit that is not on the edge is the qubit itself, `subgroupCombinations` with subgroup size 0
  is `[]` (the code recurses forever).
-/
namespace Qco.Conn

abbrev Qubit := Nat
abbrev Edge := Nat × Nat

/-! ## Tables -/

def qubitNames : List String := Gen.Surface17.qubitNames
def nQubits : Nat := qubitNames.length
/-- `connectivity.qubit_ids` -/
def qubitIds : List Qubit := List.range nQubits
/-- `connectivity.edge_ids` -/
def deviceEdges : List Edge := Gen.Surface17.edges

inductive Freq | low | mid | high
  deriving DecidableEq, Repr, Inhabited

def Freq.ofCode : Nat → Freq
  | 0 => .low
  | 1 => .mid
  | _ => .high

def Freq.code : Freq → Nat
  | .low => 0
  | .mid => 1
  | .high => 2

/-- `connectivity.get_frequency_group_identifier(q)` (KeyError for an unknown qubit: totalised to LOW). -/
def freqOf (q : Qubit) : Freq := Freq.ofCode (Gen.Surface17.freq.getD q 0)

/-- `FrequencyGroupIdentifier.is_higher_than`, branch by branch. -/
def Freq.isHigher (a b : Freq) : Bool :=
  if a == b then false
  else if a == .mid && b == .low then true
  else if a == .high then true
  else false

/-- `FrequencyGroupIdentifier.is_lower_than`, branch by branch. -/
def Freq.isLower (a b : Freq) : Bool :=
  if a == b then false
  else if a.isHigher b then false
  else true

/-! ## Edge identifiers -/

/-- `EdgeIDObj.contains` -/
def Edge.has (e : Edge) (q : Qubit) : Bool := q == e.1 || q == e.2

/-- `EdgeIDObj.qubit_ids` -/
def Edge.qubits (e : Edge) : List Qubit := [e.1, e.2]

/-- `EdgeIDObj.get_connected_qubit_id` (ValueError if `q` is not on the edge: totalised to `q`). -/
def Edge.other (e : Edge) (q : Qubit) : Qubit :=
  if q == e.1 then e.2 else if q == e.2 then e.1 else q

/-- `EdgeIDObj.__eq__`: `a == b` is `b.contains(a.q0) and b.contains(a.q1)`. -/
def Edge.same (a b : Edge) : Bool := b.has a.1 && b.has a.2

def Edge.swap (e : Edge) : Edge := (e.2, e.1)

/-- Python's `x in list` with a custom `__eq__`: some item satisfies `item == x`. -/
def memBy {α} (eq : α → α → Bool) (x : α) (l : List α) : Bool := l.any (fun item => eq item x)

/-- `unique_in_order` (first occurrences kept). -/
def uniqAux {α} (eq : α → α → Bool) (seen : List α) : List α → List α
  | [] => []
  | x :: xs => if memBy eq x seen then uniqAux eq seen xs else x :: uniqAux eq (x :: seen) xs

def uniqueInOrder {α} (eq : α → α → Bool) (l : List α) : List α := uniqAux eq [] l

def qEq (a b : Qubit) : Bool := a == b

/-! ## Surface17Layer -/

/-- `Surface17Layer.get_edges` -/
def getEdges (q : Qubit) : List Edge := deviceEdges.filter (fun e => e.has q)

/-- `Surface17Layer.get_neighbors` (order 1) -/
def neighbors (q : Qubit) : List Qubit := (getEdges q).map (fun e => e.other q)

/-- module function `get_neighbors` on an edge: unique_in_order of both ends' neighbours. -/
def edgeNeighbors (e : Edge) : List Qubit := uniqueInOrder qEq (e.qubits.flatMap neighbors)

/-- `on_moving_side` -/
def onMovingSide (q : Qubit) (e : Edge) : Bool :=
  if !e.has q then false else (freqOf q).isHigher (freqOf (e.other q))

/-- `get_requires_parking` as the code computes it now (every neighbour paired with every edge it is part of). -/
def requiresParking (q : Qubit) (es : List Edge) : Bool :=
  let spectator := es.any (fun e => memBy qEq q (edgeNeighbors e))
  if !spectator then false else
  if es.any (fun e => e.has q) then false else
  let nb := neighbors q
  let pairs : List (Qubit × Edge) :=
    es.flatMap (fun e => e.qubits.filterMap (fun x => if memBy qEq x nb then some (x, e) else none))
  pairs.any (fun p => (freqOf p.1).isHigher (freqOf q) && onMovingSide p.1 p.2)

/-! ## gate_sequence_generator.py -/

inductive Op
  | idle (q : Qubit)
  | park (q : Qubit)
  | gate (e : Edge)
  deriving Repr, Inhabited, DecidableEq

/-- dataclass `Operation.__eq__`: same type and `identifier == identifier`. -/
def Op.eq : Op → Op → Bool
  | .idle a, .idle b => a == b
  | .park a, .park b => a == b
  | .gate a, .gate b => a.same b
  | _, _ => false

/-- `Operation.contains(qubit)` -/
def Op.hasQubit : Op → Qubit → Bool
  | .idle a, q => a == q
  | .park a, q => a == q
  | .gate e, q => e.has q

/-- `get_neighbors(operation.identifier, connectivity)` -/
def Op.neighbors : Op → List Qubit
  | .idle a => Conn.neighbors a
  | .park a => Conn.neighbors a
  | .gate e => Conn.edgeNeighbors e

/-- `OperationConstraint.intersect(operation.identifier, edge)` -/
def Op.intersects : Op → Edge → Bool
  | .idle a, d => d.has a
  | .park a, d => d.has a
  | .gate e, d => e.qubits.any (fun x => d.has x)

/-- `OperationConstraint.get_possible_operations` -/
def possibleOps (q : Qubit) : List Op := [Op.idle q, Op.park q] ++ (getEdges q).map Op.gate

/-- index of the first item equal to `x` (`list.index`) -/
def indexOf (x : Qubit) : List Qubit → Nat
  | [] => 0
  | y :: ys => if y == x then 0 else indexOf x ys + 1

/-- `OperationConstraint.get_requires_idle` (still pairs a neighbour with the FIRST edge containing it). -/
def requiresIdle (q : Qubit) (es : List Edge) : Bool :=
  let spectator := es.any (fun e => memBy qEq q (edgeNeighbors e))
  if !spectator then false else
  let nb := neighbors q
  let involvedQubits := es.flatMap (fun e => e.qubits)
  let involvedEdges := es.flatMap (fun e => [e, e])
  let involvedNeighbors := nb.filter (fun x => memBy qEq x involvedQubits)
  involvedNeighbors.any (fun x =>
    let e := involvedEdges.getD (indexOf x involvedQubits) (0, 0)
    (freqOf x).isLower (freqOf q) && !onMovingSide x e)

/-- `OperationConstraint.get_forbidden_operations` -/
def forbiddenOps (op : Op) (q : Qubit) : List Op :=
  if op.hasQubit q then (possibleOps q).filter (fun o => !(o.eq op))
  else if !memBy qEq q op.neighbors then []
  else
    let operating : List Edge := match op with | .gate e => [e] | _ => []
    let available := (getEdges q).filter (fun d => !op.intersects d)
    let down := requiresIdle q operating
    let stay := requiresParking q operating
    let r0 := ((getEdges q).filter (fun d => !memBy Edge.same d available)).map Op.gate
    let r1 := if stay then
        r0 ++ [Op.idle q] ++ (available.filter (fun d => !onMovingSide q d)).map Op.gate else r0
    if down then
        r1 ++ [Op.park q] ++ (available.filter (fun d => onMovingSide q d)).map Op.gate else r1

/-- `OperationConstraint.constraint_operations` of `construct_operation_constraints(op)` -/
def constraintOps (op : Op) : List Op := uniqueInOrder Op.eq (qubitIds.flatMap (forbiddenOps op))

/-- all possible operations of the device (`get_allowed_operations`, first half) -/
def allPossibleOps : List Op := uniqueInOrder Op.eq (qubitIds.flatMap possibleOps)

/-- `OperationConstraint.get_allowed_operations` -/
def allowedOps (op : Op) : List Op :=
  let c := constraintOps op
  allPossibleOps.filter (fun o => !memBy Op.eq o c)

/-- one step of the inner loop of `get_mutually_allowed`: `simultaneous in allowed_operations(target)` -/
def okPair (target simultaneous : Op) : Bool := memBy Op.eq simultaneous (allowedOps target)

/-- `GateSequenceGenerator.get_mutually_allowed` -/
def mutuallyAllowed (ops : List Op) : Bool := ops.all (fun t => ops.all (fun s => okPair t s))

/-- acceptance of a list of gates: `get_mutually_allowed([Operation.type_gate(e) for e in es])` -/
def allowedGates (es : List Edge) : Bool := mutuallyAllowed (es.map Op.gate)

/-! ## combinatorics.py -/

/-- `itertools.combinations(l, k)` in its order -/
def combos {α} : Nat → List α → List (List α)
  | 0, _ => [[]]
  | _ + 1, [] => []
  | k + 1, x :: xs => (combos k xs).map (fun c => x :: c) ++ combos (k + 1) xs

def natLe (a b : Nat) : Bool := a ≤ b

/-- insertion into a sorted list (before the first element that is not `le`-below `x`) -/
def orderedInsert {α} (le : α → α → Bool) (x : α) : List α → List α
  | [] => [x]
  | y :: ys => if le x y then x :: y :: ys else y :: orderedInsert le x ys

/-- Python's `sorted` (insertion sort: structural, so that it also evaluates in the kernel) -/
def isort {α} (le : α → α → Bool) : List α → List α
  | [] => []
  | x :: xs => orderedInsert le x (isort le xs)

/-- Python's `<=` on lists of ints (lexicographic) -/
def lexLe : List Nat → List Nat → Bool
  | [], _ => true
  | _ :: _, [] => false
  | a :: as, b :: bs => if a < b then true else if b < a then false else lexLe as bs

/-- `sorted([sorted(subgroup) for subgroup in current_subgroups])` -/
def canonGroups (g : List (List Nat)) : List (List Nat) :=
  isort lexLe (g.map (fun s => isort natLe s))

/-- the recursive helper `generate_combinations`; `fuel` bounds the recursion depth -/
def genCombos (k : Nat) : Nat → List Nat → List (List Nat) → List (List (List Nat))
  | _, [], cur => [canonGroups cur]
  | 0, _ :: _, _ => []
  | fuel + 1, r :: rs, cur =>
    (combos k (r :: rs)).flatMap (fun c => genCombos k fuel (c.foldl List.erase (r :: rs)) (cur ++ [c]))

def groupsEq (a b : List (List Nat)) : Bool := a == b

/-- lexicographic order on sequences (only used to print the set of results canonically) -/
def lexLe2 : List (List Nat) → List (List Nat) → Bool
  | [], _ => true
  | _ :: _, [] => false
  | a :: as, b :: bs => if a == b then lexLe2 as bs else lexLe a b

/-- `generate_unique_subgroup_combinations(elements, subgroup_size)` — the *set* of results, printed in sorted
order (the code returns them in the iteration order of a Python `set`). Subgroup size 0: `[]` (the code does
not terminate). -/
def subgroupCombinations (elements : List Nat) (k : Nat) : List (List (List Nat)) :=
  if k == 0 then [] else
  isort lexLe2 (uniqueInOrder groupsEq (genCombos k (elements.length + 1) elements []))

def factorial : Nat → Nat
  | 0 => 1
  | n + 1 => (n + 1) * factorial n

/-- `GateSequenceGenerator.get_combination_size` (exact integer division; the code divides floats and rounds up) -/
def combinationSize (n k : Nat) : Nat :=
  if k > n || k == 0 || n % k != 0 then 0 else
  let g := n / k
  let d := factorial k ^ g * factorial g
  (factorial n + d - 1) / d

/-- step of a sequence (index pointers) → the gates it points at -/
def stepEdges (es : List Edge) (step : List Nat) : List Edge := step.map (fun i => es.getD i (0, 0))

/-- step of a sequence → gate operations -/
def stepOps (es : List Edge) (step : List Nat) : List Op := (stepEdges es step).map Op.gate

/-- `construct_allowed_gate_sequences(subgroup_size, max_combinations).index_pointers`;
`none` = ExceedingCombinationCountException -/
def constructAllowed (es : List Edge) (k : Nat) (maxCombinations : Nat := 20000) : Option (List (List (List Nat))) :=
  if combinationSize es.length k > maxCombinations then none else
  some ((subgroupCombinations (List.range es.length) k).filter
    (fun g => g.all (fun step => mutuallyAllowed (stepOps es step))))

/-! ## Layouts and derived descriptions (C17) -/

abbrev Layer := List Edge × List Qubit
abbrev Parity := Nat × Qubit × List Qubit

structure Layout where
  name : String
  layers : List Layer
  parityX : List Parity
  parityZ : List Parity
  deriving Repr, Inhabited

def Layout.ofRow (r : String × List Layer × List Parity × List Parity) : Layout :=
  { name := r.1, layers := r.2.1, parityX := r.2.2.1, parityZ := r.2.2.2 }

/-- the shipped gate-sequence layouts (`repetition_code_connectivity.py`) -/
def layouts : List Layout := Gen.Layouts.layouts.map Layout.ofRow

/-- `parity_group_x + parity_group_z` -/
def Layout.parity (L : Layout) : List Parity := L.parityX ++ L.parityZ

/-- `GenericSurfaceCode.data_qubit_ids` -/
def Layout.dataIds (L : Layout) : List Qubit := uniqueInOrder qEq (L.parity.flatMap (fun p => p.2.2))

/-- `GenericSurfaceCode.ancilla_qubit_ids` -/
def Layout.ancillaIds (L : Layout) : List Qubit := uniqueInOrder qEq (L.parity.map (fun p => p.2.1))

/-- `ParityGroup.edge_ids`: (ancilla, data) for every data qubit -/
def parityEdges (p : Parity) : List Edge := p.2.2.map (fun d => (p.2.1, d))

/-- Python `dict` with insertion order: assignment to an existing key keeps its position. -/
def dictSet {β} (d : List (Nat × β)) (k : Nat) (v : β) : List (Nat × β) :=
  match d with
  | [] => [(k, v)]
  | (k', v') :: rest => if k' == k then (k, v) :: rest else (k', v') :: dictSet rest k v

def dictGet {β} (d : List (Nat × β)) (k : Nat) : Option β := (d.find? (fun p => p.1 == k)).map (·.2)

def dictOfList {β} (l : List (Nat × β)) : List (Nat × β) := l.foldl (fun d p => dictSet d p.1 p.2) []

/-- `enumerate(involved_qubit_ids)` as (qubit, position) pairs, counting from `s` -/
def enumFrom (s : Nat) : List Qubit → List (Qubit × Nat)
  | [] => []
  | q :: qs => (q, s) :: enumFrom (s + 1) qs

/-- `{qubit_id: i for i, qubit_id in enumerate(involved_qubit_ids)}`: only looked up, never iterated, so the dict is
kept as its list of assignments and `lookupLast` gives the value a Python dict holds (the last assignment wins) -/
def defaultIndexMap (involved : List Qubit) : List (Qubit × Nat) := enumFrom 0 involved

/-- value of the last assignment to key `q` (`dict[q]`; `none` = KeyError) -/
def lookupLast : List (Qubit × Nat) → Qubit → Option Nat
  | [], _ => none
  | (k, v) :: rest, q => match lookupLast rest q with
    | some r => some r
    | none => if k == q then some v else none

structure Desc where
  dataIds : List Qubit
  ancillaIds : List Qubit
  layers : List Layer
  indexMap : List (Qubit × Nat)
  deriving Repr, Inhabited

/-- gate filter of `from_connectivity`: both ends involved -/
def keepGate (involved : List Qubit) (e : Edge) : Bool := e.qubits.all (fun x => memBy qEq x involved)

/-- dynamic parking: every device qubit that requires parking for the kept gates -/
def dynamicParks (gates : List Edge) : List Qubit := qubitIds.filter (fun q => requiresParking q gates)

/-- one layer of `from_connectivity` -/
def deriveLayer (involved : List Qubit) (layer : Layer) : Layer :=
  let gates := layer.1.filter (keepGate involved)
  (gates, dynamicParks gates)

/-- `RepetitionCodeDescription.from_connectivity(involved, layout, qubit_index_map)` -/
def fromConnectivity (L : Layout) (involved : List Qubit) (indexMap : Option (List (Qubit × Nat)) := none) : Desc :=
  { dataIds := involved.filter (fun q => memBy qEq q L.dataIds)
    ancillaIds := involved.filter (fun q => memBy qEq q L.ancillaIds)
    layers := L.layers.map (deriveLayer involved)
    indexMap := indexMap.getD (defaultIndexMap involved) }

/-- alternate data and ancilla, then the rest of the longer list -/
def interleave : List Qubit → List Qubit → List Qubit
  | [], bs => bs
  | as, [] => as
  | a :: as, b :: bs => a :: b :: interleave as bs

/-- `RepetitionCodeDescription.qubit_ids` -/
def Desc.qubitIds (d : Desc) : List Qubit := interleave d.dataIds d.ancillaIds

/-- `map_qubit_id_to_circuit_index` (KeyError → none) -/
def Desc.index (d : Desc) (q : Qubit) : Option Nat := lookupLast d.indexMap q

/-- the dict comprehension of `circuit_channel_map`, one assignment per qubit of `qubit_ids`; `none` = KeyError -/
def buildChannelMap (index : Qubit → Option Nat) : List (Nat × Qubit) → List Qubit → Option (List (Nat × Qubit))
  | m, [] => some m
  | m, q :: qs => match index q with
    | some i => buildChannelMap index (dictSet m i q) qs
    | none => none

/-- `circuit_channel_map` as the insertion-ordered dict {index: qubit}; `none` = KeyError -/
def Desc.channelMap (d : Desc) : Option (List (Nat × Qubit)) := buildChannelMap d.index [] d.qubitIds

/-- `GateSequenceLayer.edge_ids` -/
def layerEdgeIds (layer : Layer) : List Edge := uniqueInOrder Edge.same layer.1

def optAll {α β} (f : α → Option β) : List α → Option (List β)
  | [] => some []
  | x :: xs => match f x, optAll f xs with
    | some y, some ys => some (y :: ys)
    | _, _ => none

/-- `get_gate_sequence_indices` of an explicit layer list; outer `none` = index out of range (returns None),
inner `none` = KeyError -/
def gateSequenceIndices (index : Qubit → Option Nat) (layers : List Layer) (i : Nat) : Option (Option (List (Nat × Nat))) :=
  match layers[i]? with
  | none => none
  | some layer => some (optAll (fun e : Edge => match index e.1, index e.2 with
      | some a, some b => some (a, b)
      | _, _ => none) (layerEdgeIds layer))

/-- `get_park_sequence_indices`: parked qubits that are in `qubit_ids`, mapped -/
def parkSequenceIndices (index : Qubit → Option Nat) (qubitIds : List Qubit) (layers : List Layer) (i : Nat) :
    Option (Option (List Nat)) :=
  match layers[i]? with
  | none => none
  | some layer => some (optAll index (layer.2.filter (fun q => memBy qEq q qubitIds)))

/-- parking of a composite layer (after the repair 9bbfc50 of /repo): only-required = recomputed from
`get_requires_parking`; otherwise the base list plus every required qubit that is not yet in it -/
def compositeParks (baseParks : List Qubit) (gates : List Edge) (onlyRequired : Bool) : List Qubit :=
  if onlyRequired then dynamicParks gates
  else baseParks ++ (dynamicParks gates).filter (fun q => !memBy qEq q baseParks)

/-- the exclusion filter of `CompositeRepetitionCodeDescription.gate_sequences`: the gate is neither an excluded
edge nor touches an excluded qubit -/
def keepComposite (excludeEdges : List Edge) (excludeQubits : List Qubit) (e : Edge) : Bool :=
  !memBy Edge.same e excludeEdges && !(e.qubits.any (fun x => memBy qEq x excludeQubits))

/-- `CompositeRepetitionCodeDescription.gate_sequences` over the leading (or base) layers -/
def compositeLayers (base : List Layer) (excludeEdges : List Edge) (excludeQubits : List Qubit)
    (onlyRequired : Bool) : List Layer :=
  base.map (fun layer =>
    let gates := layer.1.filter (keepComposite excludeEdges excludeQubits)
    (gates, compositeParks layer.2 gates onlyRequired))

/-- `CompositeRepetitionCodeDescription.qubit_ids`: the base description's ids, then the ids of the leading gate
description that are not yet present -/
def compositeQubitIds (base : List Qubit) (lead : Option (List Qubit)) : List Qubit :=
  match lead with
  | none => base
  | some l => l.foldl (fun acc q => if memBy qEq q acc then acc else acc ++ [q]) base

/-! ## Specification predicates (what the properties say; the theorems of `Properties/C16.lean`, `C17.lean`
relate them to the model above, and the driver evaluates them on the implementation's answers) -/
namespace Spec

def rank : Freq → Nat
  | .low => 0
  | .mid => 1
  | .high => 2

/-- operating level of a gate = level of its lower-frequency member -/
def level (e : Edge) : Nat := min (rank (freqOf e.1)) (rank (freqOf e.2))

/-- two qubits are joined by a device edge -/
def adjacent (a b : Qubit) : Bool := deviceEdges.any (fun d => (d.1 == a && d.2 == b) || (d.1 == b && d.2 == a))

def disjoint (e f : Edge) : Bool := e.1 != f.1 && e.1 != f.2 && e.2 != f.1 && e.2 != f.2

/-- two different gates may run together: no shared qubit, and no neighbouring qubits (one of each gate) that end
up at the same operating level -/
def pairOk (e f : Edge) : Bool :=
  disjoint e f && !((e.qubits.any (fun a => f.qubits.any (fun b => adjacent a b))) && level e == level f)

/-- the acceptance predicate of C16 on a list of gates (identity of gates = unordered pair) -/
def accepted (es : List Edge) : Bool := es.all (fun e => es.all (fun f => e.same f || pairOk e f))

/-- the moving member(s) of a gate: the end whose frequency group is strictly higher -/
def moving (e : Edge) (x : Qubit) : Bool := e.has x && rank (freqOf (e.other x)) < rank (freqOf x)

/-- `q` neighbours the moving member of gate `e` and idles at the gate's operating level -/
def parkTrigger (q : Qubit) (e : Edge) : Bool :=
  e.qubits.any (fun x => moving e x && adjacent q x) && rank (freqOf q) == level e

/-- the parking predicate of C16 -/
def needsParking (q : Qubit) (es : List Edge) : Bool :=
  !(es.any (fun e => e.has q)) && es.any (fun e => parkTrigger q e)

/-- is a device edge, in either orientation -/
def isDeviceEdge (e : Edge) : Bool := deviceEdges.any (fun d => d == e || d == e.swap)

/-- qubits of a list of gates, with multiplicity -/
def gateQubits (gates : List Edge) : List Qubit := gates.flatMap Edge.qubits

def nodupB : List Nat → Bool
  | [] => true
  | x :: xs => !xs.contains x && nodupB xs

/-- a layer is executable (C17): device edges, distinct qubits, parked ∩ gated = ∅, required ⊆ parked, accepted -/
def layerGatesAreEdges (layer : Layer) : Bool := layer.1.all isDeviceEdge
def layerQubitsDistinct (layer : Layer) : Bool := nodupB (gateQubits layer.1)
def layerParkedNotGated (layer : Layer) : Bool := layer.2.all (fun q => !(gateQubits layer.1).contains q)
def layerRequiredParked (layer : Layer) : Bool := qubitIds.all (fun q => !needsParking q layer.1 || layer.2.contains q)
def layerAccepted (layer : Layer) : Bool := accepted layer.1

def layerOk (layer : Layer) : Bool :=
  layerGatesAreEdges layer && layerQubitsDistinct layer && layerParkedNotGated layer &&
  layerRequiredParked layer && layerAccepted layer

/-- number of gates of the whole sequence equal (as unordered pairs) to `e` -/
def occurrences (layers : List Layer) (e : Edge) : Nat := ((layers.flatMap (·.1)).filter (fun g => g.same e)).length

/-- every edge of every parity group is exercised exactly once over the sequence -/
def parityCovered (parity : List Parity) (layers : List Layer) : Bool :=
  parity.all (fun p => (parityEdges p).all (fun e => occurrences layers e == 1))

end Spec

end Qco.Conn
