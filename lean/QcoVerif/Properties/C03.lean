import QcoVerif.Properties.C18
import QcoVerif.Properties.C05
import QcoVerif.Lemmas.Listing
import QcoVerif.Lemmas.C10Timing
/-
  C03 — answers depend on the circuit, not on what was asked before.

  In the model every observer is a function of the heap (the timing evaluator has no memo that outlives a
  query), so the only way an observation can influence a later answer is through what it WRITES.  Proved:
   * a listing writes nothing but relation links and allocates nothing (`listing_writes_links_only`), listing
     again returns the same sequence (`listing_answer_idempotent`), and on a heap on which a listing has nothing
     left to assign ("settled") it writes nothing at all (`listing_fixed_point`);
   * plotting is exactly one listing on the heap, for any ambient and drawing durations (`plot_is_one_listing`);
   * a copy writes to no existing object or link (`copy_observer_frame`, leaf case);
   * time queries do not write (they are pure functions `World → Option Int`).
  NOT proved, and FALSE of model and code: "a listing before copying/nesting does not change the copy" — the links a
  listing assigns make distinct objects value-equal keys of the copy lookup (known finding R3; the histories are in
  corpus/C03 and known_findings.json).  The full frame statement (every observer commutes with every later mutation
  that performs no value-keyed lookup) is not proved either; the check replays every generated history on the
  implementation with and without its intermediate observations.
-/
namespace Qco.C03

open Qco

/-- a listing writes nothing but relation links: objects keep kind, qubits, channel, duration strategy, tag, fields,
    count and graph; no object and no link is allocated; durations and registries are not touched. -/
theorem listing_writes_links_only (w : World) (c : Nat) :
    Shape (w.operations c).1 w ∧ (w.operations c).1.ops.size = w.ops.size ∧ (w.operations c).1.links = w.links :=
  ⟨operations_shape w c, operations_ops_size w c, operations_links w c⟩

/-- listing twice: the second listing answers the same sequence. -/
theorem listing_answer_idempotent (w : World) (c : Nat) :
    ((w.operations c).1.operations c).2 = (w.operations c).2 := operations_twice w c

/-- on a settled heap (every relation-less node already carries its block's link) a listing is the identity on
    the heap. -/
theorem listing_fixed_point (w : World) (c : Nat) (hs : Draw.settled w w.depthFuel c = true) :
    (w.operations c).1 = w := by
  rw [Qco.C18.settled_listing w c hs]

/-- plotting, with any channel order that is accepted, any label map, compact or not, under any ambient durations,
    leaves exactly the heap one listing leaves. -/
theorem plot_is_one_listing (w : World) (c : Nat) (a : Draw.Args) (rows : List Int)
    (h : Draw.reorder (Draw.occupied w c) a.order = some rows) : (Draw.plot w c a).1 = (w.operations c).1 :=
  (Qco.C18.plot_world w c a rows h).1

/-- a rejected plot (a channel in the requested order that the circuit does not occupy) leaves the heap untouched. -/
theorem plot_rejected_is_identity (w : World) (c : Nat) (a : Draw.Args) (x : Int) (hx : x ∈ a.order)
    (hn : x ∉ Draw.occupied w c) : (Draw.plot w c a).1 = w := by
  rw [Qco.C18.plot_reject w c a x hx hn]

/-- copying an operation (as observer) writes to no existing object or link. -/
theorem copy_observer_frame (w : World) (o : Nat) (lk : Lookup) :
    (∀ i, i < w.ops.size → (w.copyLeaf o lk).1.op i = w.op i) ∧
    (∀ i, i < w.links.size → (w.copyLeaf o lk).1.lnk i = w.lnk i) :=
  ⟨(Qco.C05.copyLeaf_frame w o lk).2.1, (Qco.C05.copyLeaf_frame w o lk).2.2⟩

/-- reported times are a function of the heap alone: heaps that agree on objects, links and duration settings get
    the same answers (there is no hidden state such as a process-wide memo — R1 in the pinned code). -/
theorem times_depend_on_heap_only (w w' : World) (ho : w.ops = w'.ops) (hl : w.links = w'.links)
    (h1 : w.gRo = w'.gRo) (h2 : w.gMw = w'.gMw) (h3 : w.gFl = w'.gFl) (h4 : w.gRs = w'.gRs)
    (h5 : w.dreg = w'.dreg) (f o : Nat) :
    evStart w f o = evStart w' f o ∧ evEnd w f o = evEnd w' f o ∧ evDur w f o = evDur w' f o := by
  have key : ∀ f, (∀ o, evLeadSpan w f o = evLeadSpan w' f o) ∧ (∀ o, evInterval w f o = evInterval w' f o) ∧
      (∀ o, evDur w f o = evDur w' f o) ∧ (∀ o, evStart w f o = evStart w' f o) ∧
      (∀ o, evEnd w f o = evEnd w' f o) ∧ (∀ l, evRef w f l = evRef w' f l) := by
    have hop : ∀ i, w.op i = w'.op i := by intro i; simp [World.op, ho]
    have hlk : ∀ i, w.lnk i = w'.lnk i := by intro i; simp [World.lnk, hl]
    have hld : ∀ d, w.leafDur d = w'.leafDur d := by
      intro d
      cases d with
      | fixed x => rfl
      | glob k => cases k <;> simp [World.leafDur, World.gdur, h1, h2, h3, h4]
      | reg key => simp [World.leafDur, h5]
      | decoupling => simp [World.leafDur, h1, h2]
    intro f
    induction f with
    | zero =>
      refine ⟨?_, ?_, ?_, ?_, ?_, ?_⟩ <;> intro o
      · rw [evLeadSpan.eq_1, evLeadSpan.eq_1]
      · rw [evInterval.eq_1, evInterval.eq_1]
      · rw [evDur.eq_1, evDur.eq_1]
      · rw [evStart.eq_1, evStart.eq_1]
      · rw [evEnd.eq_1, evEnd.eq_1]
      · rw [evRef.eq_1, evRef.eq_1]
    | succ f ih =>
      obtain ⟨i1, i2, i3, i4, i5, i6⟩ := ih
      have e4 : (fun n => evStart w f n) = (fun n => evStart w' f n) := funext i4
      have e2 : (fun n => evInterval w f n) = (fun n => evInterval w' f n) := funext i2
      have e5 : (fun r => (evEnd w f r).map (fun e => (r, e))) = (fun r => (evEnd w' f r).map (fun e => (r, e))) :=
        funext (fun r => by rw [i5 r])
      refine ⟨?_, ?_, ?_, ?_, ?_, ?_⟩ <;> intro o
      · rw [evLeadSpan.eq_2, evLeadSpan.eq_2, hop o, e4, e2, hld]
      · rw [evInterval.eq_2, evInterval.eq_2, i4 o, i1 o]
      · rw [evDur.eq_2, evDur.eq_2, i1 o]
      · rw [Qco.C10.evStart_succ, Qco.C10.evStart_succ, i3 o, hop o, i6, hlk]
        congr 1; funext d; congr 1; funext r
        cases r with
        | none => rfl
        | some r => simp only [i4 r, i5 r]
      · rw [evEnd.eq_2, evEnd.eq_2, i4 o, i3 o]
      · rw [evRef.eq_2, evRef.eq_2, hlk o, e5]
        split
        · rfl
        · split
          · rfl
          · rename_i r0 _ _
            simp only [i5 r0]
  exact ⟨(key f).2.2.2.1 o, (key f).2.2.2.2.1 o, (key f).2.2.1 o⟩

end Qco.C03
