import QcoVerif.Properties.C02
import QcoVerif.Properties.C05
import QcoVerif.Properties.C11
/-
  Heap-level facts about `add`, `extend`, `copy` of a flat block and the repetition phase of `applyModifiers`
  (used by Properties/C06.lean).  Core Lean only.
-/
namespace Qco

/-- "links-only change": same number of objects, every object equal up to its link, same count registry. -/
def LinksOnly (w' w : World) : Prop := w'.ops.size = w.ops.size ∧ Shape w' w

theorem LinksOnly.refl (w : World) : LinksOnly w w := ⟨rfl, Shape.refl w⟩

theorem LinksOnly.trans {a b c : World} (h1 : LinksOnly a b) (h2 : LinksOnly b c) : LinksOnly a c :=
  ⟨h1.1.trans h2.1, ⟨h1.2.1.trans h2.2.1, fun j => (h1.2.2 j).trans (h2.2.2 j)⟩⟩

theorem newLink_linksOnly (w : World) (L : Link) : LinksOnly (w.newLink L).1 w :=
  ⟨rfl, ⟨rfl, fun _ => rfl⟩⟩

theorem setLink_linksOnly (w : World) (i l : Nat) : LinksOnly (w.setLink i l) w :=
  ⟨setLink_size w i l, (Shape.refl w).setLink i l⟩

theorem addToGraph_size (w : World) (g : List Entry) (o : Nat) : (w.addToGraph g o).1.ops.size = w.ops.size := by
  unfold World.addToGraph
  simp only
  split
  · split
    · rfl
    · split <;> simp [World.newLink, setLink_size]
  · split
    · split
      · rfl
      · split <;> simp [World.newLink, setLink_size]
    · split <;> simp [World.newLink, setLink_size]

theorem addToGraph_linksOnly (w : World) (g : List Entry) (o : Nat) : LinksOnly (w.addToGraph g o).1 w :=
  ⟨addToGraph_size w g o, C11.addToGraph_shape w g o (Shape.refl w)⟩

/-- `add` appends exactly one entry (for the added operation) to the graph of `c` and changes nothing else but links. -/
theorem add_spec (w : World) (c o : Nat) (hc : c < w.ops.size) :
    (w.add c o).ops.size = w.ops.size ∧ (w.add c o).rreg = w.rreg ∧
    (∃ e : Entry, e.node = o ∧ ((w.add c o).op c).graph = (w.op c).graph ++ [e]) ∧
    ((w.add c o).op c).rep = (w.op c).rep ∧ ((w.add c o).op c).cls = (w.op c).cls ∧
    ∀ j, j ≠ c → ((w.add c o).op j).noLink = (w.op j).noLink := by
  unfold World.add
  have hl := addToGraph_linksOnly w (w.op c).graph o
  obtain ⟨p, hp⟩ := C02.addToGraph_attach w (w.op c).graph o
  obtain ⟨k, hk⟩ := attach_eq (w.op c).graph p o
  have hc' : c < (w.addToGraph (w.op c).graph o).1.ops.size := by rw [hl.1]; exact hc
  refine ⟨?_, ?_, ?_, ?_, ?_, ?_⟩
  · simp only [World.setGraph, setOp_size]; exact hl.1
  · simp only [World.setGraph, World.setOp]; exact hl.2.1
  · refine ⟨{ node := o, parent := p, key := k }, rfl, ?_⟩
    rw [C11.setGraph_graph _ _ _ hc', hp, hk]
  · simp only [World.setGraph]
    rw [op_setOp]; simp only [hc', and_self, if_true]
    exact hl.2.rep c
  · simp only [World.setGraph]
    rw [op_setOp]; simp only [hc', and_self, if_true]
    exact hl.2.cls c
  · intro j hj
    simp only [World.setGraph]
    rw [op_setOp]
    have : ¬ (c = j ∧ c < (w.addToGraph (w.op c).graph o).1.ops.size) := fun h => hj h.1.symm
    simp only [this, if_false]
    exact hl.2.2 j

/-- one step of `extend`: give the node the group link if it has no relation, then add it. -/
def extendStep (c rel : Nat) (w : World) (n : Nat) : World :=
  (if !w.hasRel n then w.setLink n rel else w).add c n

theorem extendStep_spec (c rel : Nat) (w : World) (n : Nat) (hc : c < w.ops.size) :
    (extendStep c rel w n).ops.size = w.ops.size ∧ (extendStep c rel w n).rreg = w.rreg ∧
    (((extendStep c rel w n).op c).graph.map (·.node)) = (w.op c).graph.map (·.node) ++ [n] ∧
    ((extendStep c rel w n).op c).rep = (w.op c).rep ∧ ((extendStep c rel w n).op c).cls = (w.op c).cls ∧
    ∀ j, j ≠ c → ((extendStep c rel w n).op j).noLink = (w.op j).noLink := by
  unfold extendStep
  have key : ∀ w1 : World, LinksOnly w1 w →
      (w1.add c n).ops.size = w.ops.size ∧ (w1.add c n).rreg = w.rreg ∧
      (((w1.add c n).op c).graph.map (·.node)) = (w.op c).graph.map (·.node) ++ [n] ∧
      ((w1.add c n).op c).rep = (w.op c).rep ∧ ((w1.add c n).op c).cls = (w.op c).cls ∧
      ∀ j, j ≠ c → ((w1.add c n).op j).noLink = (w.op j).noLink := by
    intro w1 h1
    have hc1 : c < w1.ops.size := by rw [h1.1]; exact hc
    obtain ⟨a1, a2, ⟨e, he, a3⟩, a4, a5, a6⟩ := add_spec w1 c n hc1
    refine ⟨a1.trans h1.1, a2.trans h1.2.1, ?_, a4.trans (h1.2.rep c), a5.trans (h1.2.cls c),
      fun j hj => (a6 j hj).trans (h1.2.2 j)⟩
    rw [a3, h1.2.graph c, List.map_append, List.map_cons, List.map_nil, he]
  split
  · exact key _ (setLink_linksOnly w n rel)
  · exact key _ (LinksOnly.refl w)

theorem extend_fold_spec (c rel : Nat) : ∀ (L : List Nat) (w : World), c < w.ops.size →
    (L.foldl (extendStep c rel) w).ops.size = w.ops.size ∧ (L.foldl (extendStep c rel) w).rreg = w.rreg ∧
    (((L.foldl (extendStep c rel) w).op c).graph.map (·.node)) = (w.op c).graph.map (·.node) ++ L ∧
    ((L.foldl (extendStep c rel) w).op c).rep = (w.op c).rep ∧
    ((L.foldl (extendStep c rel) w).op c).cls = (w.op c).cls ∧
    ∀ j, j ≠ c → ((L.foldl (extendStep c rel) w).op j).noLink = (w.op j).noLink := by
  intro L
  induction L with
  | nil => intro w _; simp
  | cons n ns ih =>
    intro w hc
    obtain ⟨s1, s2, s3, s4, s5, s6⟩ := extendStep_spec c rel w n hc
    obtain ⟨i1, i2, i3, i4, i5, i6⟩ := ih (extendStep c rel w n) (by rw [s1]; exact hc)
    simp only [List.foldl_cons]
    refine ⟨i1.trans s1, i2.trans s2, ?_, i4.trans s4, i5.trans s5, fun j hj => (i6 j hj).trans (s6 j hj)⟩
    rw [i3, s3, List.append_assoc, List.singleton_append]

/-- **`extend` appends exactly the listed nodes of `other` to the graph of `c`**, in listing order, and changes nothing
    else but links (and allocates one link). -/
theorem extend_spec (w : World) (c other : Nat) (hc : c < w.ops.size) :
    (w.extend c other).ops.size = w.ops.size ∧ (w.extend c other).rreg = w.rreg ∧
    (((w.extend c other).op c).graph.map (·.node)) =
      (w.op c).graph.map (·.node) ++ listing (w.op other).graph ∧
    ((w.extend c other).op c).rep = (w.op c).rep ∧ ((w.extend c other).op c).cls = (w.op c).cls ∧
    ∀ j, j ≠ c → ((w.extend c other).op j).noLink = (w.op j).noLink := by
  unfold World.extend
  simp only
  have key : ∀ (w1 : World) (rel : Nat), LinksOnly w1 w →
      let r := (listing (w1.op other).graph).foldl (extendStep c rel) w1
      r.ops.size = w.ops.size ∧ r.rreg = w.rreg ∧
      ((r.op c).graph.map (·.node)) = (w.op c).graph.map (·.node) ++ listing (w.op other).graph ∧
      (r.op c).rep = (w.op c).rep ∧ (r.op c).cls = (w.op c).cls ∧
      ∀ j, j ≠ c → (r.op j).noLink = (w.op j).noLink := by
    intro w1 rel h1
    obtain ⟨i1, i2, i3, i4, i5, i6⟩ := extend_fold_spec c rel (listing (w1.op other).graph) w1 (by rw [h1.1]; exact hc)
    refine ⟨i1.trans h1.1, i2.trans h1.2.1, ?_, i4.trans (h1.2.rep c), i5.trans (h1.2.cls c),
      fun j hj => (i6 j hj).trans (h1.2.2 j)⟩
    rw [i3, h1.2.graph c, h1.2.graph other]
  split
  · exact key _ _ (newLink_linksOnly w _)
  · exact key _ _ (newLink_linksOnly w _)

/-! ### copy of a flat block (all nodes are leaf operations) -/

theorem copyFields_cls (op : Op) : op.copyFields.cls = op.cls := by
  unfold Op.copyFields
  split <;> rfl

theorem copyLink_rreg (w : World) (l : Nat) (lk : Lookup) : (w.copyLink l lk).1.rreg = w.rreg := by
  unfold World.copyLink
  simp only
  split <;> rfl

theorem copyLeaf_spec (w : World) (o : Nat) (lk : Lookup) :
    (w.copyLeaf o lk).2 = w.ops.size ∧ (w.copyLeaf o lk).1.ops.size = w.ops.size + 1 ∧
    (w.copyLeaf o lk).1.rreg = w.rreg ∧
    (∀ i, i < w.ops.size → (w.copyLeaf o lk).1.op i = w.op i) ∧
    ((w.copyLeaf o lk).1.op w.ops.size).cls = (w.op o).cls ∧
    ((w.copyLeaf o lk).1.op w.ops.size).graph = [] := by
  obtain ⟨h1, h2, _⟩ := C05.copyLeaf_frame w o lk
  have hf := C05.copyLeaf_fields w o lk
  refine ⟨h1, ?_, ?_, h2, ?_, ?_⟩
  · unfold World.copyLeaf
    simp only [C05.copy_keeps_link_all_classes, if_true]
    simp [World.newOp, (C05.copyLink_frame w (w.op o).link lk).1]
  · unfold World.copyLeaf
    simp only [C05.copy_keeps_link_all_classes, if_true]
    simp only [World.newOp]
    exact copyLink_rreg w _ lk
  · rw [← h1, hf.1, copyFields_cls]
  · rw [← h1]
    unfold World.copyLeaf
    simp only [C05.copy_keeps_link_all_classes, if_true]
    rw [C05.newOp_op_new]
    unfold Op.copyFields
    split <;> rfl

/-- one step of the copy loop of `CircuitCompositeOperation.copy`. -/
def copyStep (f res : Nat) (acc : World × Lookup) (n : Nat) : World × Lookup :=
  let key := acc.1.eqKey n
  let r := acc.1.copyObj f n acc.2
  let w := if r.2.2.any (fun p => p.1 == key) then { r.1 with collisions := r.1.collisions + 1 } else r.1
  (w.add res r.2.1, r.2.2.set key r.2.1)

theorem copyObj_comp (w : World) (f o : Nat) (lk : Lookup) (h : (w.op o).isComp = true) :
    w.copyObj (f + 1) o lk =
      (((listing (w.op o).graph).foldl (copyStep f (w.copyLink (w.op o).link lk).1.ops.size)
          (((w.copyLink (w.op o).link lk).1.newOp
              { cls := .comp, link := (w.copyLink (w.op o).link lk).2, rep := (w.op o).rep }).1, lk)).1,
       (w.copyLink (w.op o).link lk).1.ops.size,
       ((listing (w.op o).graph).foldl (copyStep f (w.copyLink (w.op o).link lk).1.ops.size)
          (((w.copyLink (w.op o).link lk).1.newOp
              { cls := .comp, link := (w.copyLink (w.op o).link lk).2, rep := (w.op o).rep }).1, lk)).2) := by
  rw [World.copyObj]
  simp only [h, Bool.not_true, Bool.false_eq_true, if_false]
  rfl

/-- invariant of the copy loop of a flat block: `res` is the new composite, `w0` the heap before the copy. -/
structure FlatInv (w0 : World) (res : Nat) (rep : Rep) (wi : World) (k : Nat) : Prop where
  size : wi.ops.size = res + 1 + k
  old : ∀ j, j < res → (wi.op j).noLink = (w0.op j).noLink
  rreg : wi.rreg = w0.rreg
  len : (wi.op res).graph.length = k
  nodes : ∀ e ∈ (wi.op res).graph, res < e.node ∧ e.node < wi.ops.size
  rep : (wi.op res).rep = rep
  cls : (wi.op res).cls = .comp
  fresh : ∀ j, res < j → j < wi.ops.size → (wi.op j).isComp = false

theorem noLink_isComp {a b : Op} (h : a.noLink = b.noLink) : a.isComp = b.isComp := by
  have : a.noLink.cls = b.noLink.cls := congrArg Op.cls h
  unfold Op.isComp
  exact congrArg (· == Cls.comp) this

theorem copyStep_flat (w0 : World) (res : Nat) (rep : Rep) (wi : World) (k f n : Nat) (lk : Lookup)
    (hi : FlatInv w0 res rep wi k) (hn : n < res) (hleaf : (w0.op n).isComp = false) :
    FlatInv w0 res rep (copyStep (f + 1) res (wi, lk) n).1 (k + 1) := by
  have hleaf' : (wi.op n).isComp = false := by rw [noLink_isComp (hi.old n hn)]; exact hleaf
  unfold copyStep
  simp only
  rw [World.copyObj]
  simp only [hleaf', Bool.not_false, if_true]
  obtain ⟨c1, c2, c3, c4, c5, _⟩ := copyLeaf_spec wi n lk
  -- the world after the (diagnostic) collision count has the same objects
  have hw : ∀ (b : Bool), (if b then { (wi.copyLeaf n lk).1 with collisions := (wi.copyLeaf n lk).1.collisions + 1 }
      else (wi.copyLeaf n lk).1).ops = (wi.copyLeaf n lk).1.ops ∧
      (if b then { (wi.copyLeaf n lk).1 with collisions := (wi.copyLeaf n lk).1.collisions + 1 }
      else (wi.copyLeaf n lk).1).rreg = (wi.copyLeaf n lk).1.rreg := by
    intro b; cases b <;> exact ⟨rfl, rfl⟩
  generalize hb : (lk.any fun p => p.1 == wi.eqKey n) = b
  obtain ⟨ho, hr⟩ := hw b
  generalize hw2 : (if b then { (wi.copyLeaf n lk).1 with collisions := (wi.copyLeaf n lk).1.collisions + 1 }
      else (wi.copyLeaf n lk).1) = w2 at ho hr
  have hop : ∀ j, w2.op j = (wi.copyLeaf n lk).1.op j := by intro j; unfold World.op; rw [ho]
  have hsz : w2.ops.size = wi.ops.size + 1 := by rw [ho]; exact c2
  have hres : res < w2.ops.size := by rw [hsz, hi.size]; omega
  obtain ⟨a1, a2, ⟨e, he, a3⟩, a4, a5, a6⟩ := add_spec w2 res (wi.copyLeaf n lk).2 hres
  have hres_lt : res < wi.ops.size := by rw [hi.size]; omega
  have hres_op : w2.op res = wi.op res := by rw [hop]; exact c4 res hres_lt
  refine ⟨?_, ?_, ?_, ?_, ?_, ?_, ?_, ?_⟩
  · rw [a1, hsz, hi.size]; omega
  · intro j hj
    have hjne : j ≠ res := by omega
    rw [a6 j hjne, hop, c4 j (by omega)]
    exact hi.old j hj
  · rw [a2, hr, c3]; exact hi.rreg
  · rw [a3, hres_op, List.length_append, hi.len]; rfl
  · intro e' he'
    rw [a3, hres_op, List.mem_append] at he'
    rw [a1, hsz]
    rcases he' with he' | he'
    · have := hi.nodes e' he'
      exact ⟨this.1, by omega⟩
    · simp only [List.mem_singleton] at he'
      subst he'
      rw [he, c1]
      exact ⟨hres_lt, by omega⟩
  · rw [a4, hres_op]; exact hi.rep
  · rw [a5, hres_op]; exact hi.cls
  · intro j hj1 hj2
    rw [a1, hsz] at hj2
    have hjne : j ≠ res := by omega
    rw [noLink_isComp (a6 j hjne), hop]
    by_cases hjo : j < wi.ops.size
    · rw [c4 j hjo]; exact hi.fresh j hj1 hjo
    · have : j = wi.ops.size := by omega
      subst this
      unfold Op.isComp
      rw [c5]
      exact hleaf'

theorem op_congr {w1 w2 : World} (h : w1.ops = w2.ops) (j : Nat) : w1.op j = w2.op j := by
  unfold World.op; rw [h]

theorem copyFold_flat (w0 : World) (res : Nat) (rep : Rep) (f : Nat) : ∀ (L : List Nat) (wi : World) (lk : Lookup) (k : Nat),
    FlatInv w0 res rep wi k → (∀ n ∈ L, n < res ∧ (w0.op n).isComp = false) →
    FlatInv w0 res rep (L.foldl (copyStep (f + 1) res) (wi, lk)).1 (k + L.length) := by
  intro L
  induction L with
  | nil => intro wi lk k hi _; simpa using hi
  | cons n ns ih =>
    intro wi lk k hi hL
    simp only [List.foldl_cons, List.length_cons]
    have hn := hL n List.mem_cons_self
    have hstep := copyStep_flat w0 res rep wi k f n lk hi hn.1 hn.2
    have := ih (copyStep (f + 1) res (wi, lk) n).1 (copyStep (f + 1) res (wi, lk) n).2 (k + 1) hstep
      (fun m hm => hL m (List.mem_cons_of_mem _ hm))
    have hk : k + (ns.length + 1) = k + 1 + ns.length := by omega
    rw [hk]
    exact this

/-- **copy of a flat block**: the copy is a fresh composite `N = w.ops.size` with the same count whose graph has one
    fresh leaf node per node of the original; nothing that existed is changed (up to nothing at all: not even links). -/
theorem copy_flat (w : World) (o : Nat) (ho : (w.op o).isComp = true)
    (hflat : ∀ n ∈ listing (w.op o).graph, n < w.ops.size ∧ (w.op n).isComp = false) :
    (w.copy o).2 = w.ops.size ∧
    FlatInv w w.ops.size (w.op o).rep (w.copy o).1 (w.op o).graph.length := by
  unfold World.copy
  have hf : w.depthFuel = (w.ops.size + 1) + 1 := rfl
  rw [hf, copyObj_comp w (w.ops.size + 1) o [] ho]
  have hops := (C05.copyLink_frame w (w.op o).link []).1
  have hsz : (w.copyLink (w.op o).link []).1.ops.size = w.ops.size := by rw [hops]
  refine ⟨hsz, ?_⟩
  rw [hsz]
  have base : FlatInv w w.ops.size (w.op o).rep
      ((w.copyLink (w.op o).link []).1.newOp
        { cls := .comp, link := (w.copyLink (w.op o).link []).2, rep := (w.op o).rep }).1 0 := by
    have hnew := C05.newOp_op_new (w.copyLink (w.op o).link []).1
      { cls := .comp, link := (w.copyLink (w.op o).link []).2, rep := (w.op o).rep }
    have hid : ((w.copyLink (w.op o).link []).1.newOp
        { cls := .comp, link := (w.copyLink (w.op o).link []).2, rep := (w.op o).rep }).2 = w.ops.size := by
      simp [World.newOp, hsz]
    rw [hid] at hnew
    refine ⟨?_, ?_, ?_, ?_, ?_, ?_, ?_, ?_⟩
    · simp [World.newOp, hsz]
    · intro j hj
      rw [C05.newOp_op_old _ _ j (by rw [hsz]; exact hj), op_congr hops j]
    · simp only [World.newOp]; exact copyLink_rreg w _ _
    · rw [hnew]; rfl
    · intro e he; rw [hnew] at he; cases he
    · rw [hnew]
    · rw [hnew]
    · intro j h1 h2
      simp [World.newOp, hsz] at h2
      omega
  have := copyFold_flat w w.ops.size (w.op o).rep w.ops.size (listing (w.op o).graph) _ [] 0 base hflat
  rw [listing_length, Nat.zero_add] at this
  exact this

/-! ### the repetition phase of `apply_modifiers_to_self` on a flat block -/

theorem noLink_graph {a b : Op} (h : a.noLink = b.noLink) : a.graph = b.graph :=
  show a.noLink.graph = b.noLink.graph from congrArg Op.graph h
theorem noLink_rep {a b : Op} (h : a.noLink = b.noLink) : a.rep = b.rep :=
  show a.noLink.rep = b.noLink.rep from congrArg Op.rep h
theorem noLink_cls {a b : Op} (h : a.noLink = b.noLink) : a.cls = b.cls :=
  show a.noLink.cls = b.noLink.cls from congrArg Op.cls h

/-- a block is flat in `w`: every listed node is an existing leaf operation. -/
def FlatIn (w : World) (o : Nat) : Prop :=
  ∀ n ∈ listing (w.op o).graph, n < w.ops.size ∧ (w.op n).isComp = false

/-- invariant of the repetition loop: `c` holds `i + 1` copies' worth of leaf nodes, `orig` is an untouched flat copy. -/
structure RepInv (w0 : World) (c orig k : Nat) (w : World) (i : Nat) : Prop where
  hc : c < w.ops.size
  rreg : w.rreg = w0.rreg
  crep : (w.op c).rep = (w0.op c).rep
  ccls : (w.op c).cls = .comp
  clen : (w.op c).graph.length = k * (i + 1)
  cflat : FlatIn w c
  ho : orig < w.ops.size
  hne : orig ≠ c
  ocomp : (w.op orig).isComp = true
  olen : (w.op orig).graph.length = k
  oflat : FlatIn w orig

theorem repStep_inv (w0 : World) (c orig k : Nat) (w : World) (i : Nat) (h : RepInv w0 c orig k w i) :
    RepInv w0 c orig k ((w.copy orig).1.extend c (w.copy orig).2) (i + 1) := by
  obtain ⟨hid, hf⟩ := copy_flat w orig h.ocomp h.oflat
  rw [hid]
  rw [h.olen] at hf
  have hcN : c < w.ops.size := h.hc
  have hcA : c < (w.copy orig).1.ops.size := by rw [hf.size]; omega
  obtain ⟨e1, e2, e3, e4, e5, e6⟩ := extend_spec (w.copy orig).1 c w.ops.size hcA
  -- objects that existed before the copy and are not `c` are unchanged up to links
  have hold : ∀ j, j < w.ops.size → j ≠ c →
      (((w.copy orig).1.extend c w.ops.size).op j).noLink = (w.op j).noLink :=
    fun j hj hjc => (e6 j hjc).trans (hf.old j hj)
  have hcgraph : ((w.copy orig).1.op c).graph = (w.op c).graph := noLink_graph (hf.old c hcN)
  have hccomp : (w.op c).isComp = true := by unfold Op.isComp; rw [h.ccls]; rfl
  have leaf_ne_c : ∀ n, (w.op n).isComp = false → n ≠ c := by
    intro n hn hnc; rw [hnc, hccomp] at hn; cases hn
  refine ⟨?_, ?_, ?_, ?_, ?_, ?_, ?_, h.hne, ?_, ?_, ?_⟩
  · rw [e1]; exact hcA
  · rw [e2, hf.rreg]; exact h.rreg
  · rw [e4, noLink_rep (hf.old c hcN)]; exact h.crep
  · rw [e5, noLink_cls (hf.old c hcN)]; exact h.ccls
  · have : (((w.copy orig).1.extend c w.ops.size).op c).graph.length =
        ((((w.copy orig).1.extend c w.ops.size).op c).graph.map (·.node)).length := by simp
    rw [this, e3, List.length_append, List.length_map, hcgraph, h.clen, listing_length, hf.len]
    simp only [Nat.mul_add, Nat.mul_one]
  · intro n hn
    rw [mem_listing_iff] at hn
    obtain ⟨e, he, hen⟩ := hn
    have hmem : n ∈ (((w.copy orig).1.extend c w.ops.size).op c).graph.map (·.node) :=
      List.mem_map.mpr ⟨e, he, hen⟩
    rw [e3, List.mem_append] at hmem
    rw [e1]
    rcases hmem with hmem | hmem
    · rw [hcgraph] at hmem
      obtain ⟨e', he', hen'⟩ := List.mem_map.mp hmem
      have := h.cflat n (mem_listing_iff.mpr ⟨e', he', hen'⟩)
      refine ⟨by rw [hf.size]; omega, ?_⟩
      rw [noLink_isComp (hold n this.1 (leaf_ne_c n this.2))]; exact this.2
    · rw [mem_listing_iff] at hmem
      obtain ⟨e', he', hen'⟩ := hmem
      have hb := hf.nodes e' he'
      rw [hen'] at hb
      refine ⟨hb.2, ?_⟩
      have hnc : n ≠ c := by omega
      rw [noLink_isComp (e6 n hnc)]
      exact hf.fresh n hb.1 hb.2
  · rw [e1, hf.size]; have := h.ho; omega
  · rw [noLink_isComp (hold orig h.ho h.hne)]; exact h.ocomp
  · rw [noLink_graph (hold orig h.ho h.hne)]; exact h.olen
  · intro n hn
    rw [noLink_graph (hold orig h.ho h.hne)] at hn
    have := h.oflat n hn
    rw [e1]
    refine ⟨by rw [hf.size]; omega, ?_⟩
    rw [noLink_isComp (hold n this.1 (leaf_ne_c n this.2))]; exact this.2

theorem repLoop_inv (w0 : World) (c orig k : Nat) : ∀ (L : List Nat) (w : World) (i : Nat), RepInv w0 c orig k w i →
    RepInv w0 c orig k (L.foldl (fun w _ => (w.copy orig).1.extend c (w.copy orig).2) w) (i + L.length) := by
  intro L
  induction L with
  | nil => intro w i h; simpa using h
  | cons x xs ih =>
    intro w i h
    simp only [List.foldl_cons, List.length_cons]
    have := ih _ (i + 1) (repStep_inv w0 c orig k w i h)
    have hk : i + (xs.length + 1) = i + 1 + xs.length := by omega
    rw [hk]; exact this

end Qco
