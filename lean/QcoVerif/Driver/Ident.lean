import QcoVerif.Model.Ident
/-
  Stateless driver module `ident` (C19).  One query per line, one answer per line.

    ident match q1 c1 q2 c2           → "<matches> <hashKey equal> <setHit>"          (c ∈ R M F A)
    ident qeq n1 n2                   → "<QubitId.eq>"
    ident eeq a b c d ha hb hc hd     → "<(a,b).eq (c,d)> lo1 hi1 lo2 hi2 <hashKey equal> <setHit stored=(a,b) probe=(c,d)>"
    ident pyeq <obj> <obj>            → "<Obj.pyEq>"     obj = c:<q>:<ch> | q:<name> | f:<name> | e:<a>:<b> | o:<tag>
    ident uniq int  i,i,…             → "<uniqueLoop (==)> <uniqueInOrder>"
    ident uniq str  s,s,…             (tokens are opaque strings)   same
    ident uniq qubit n,n,…            → loop with (hash name, QubitId.eq) and uniqueInOrder
    ident uniq chan q:c,q:c,…         → "<uniqueLoop ChId.setHit> <dedupChans>"
    ident uniq edge a:b,… n=h,n=h,…   → "<uniqueLoop (EdgeId.setHit h)>"   (h = the table; absent names hash to 0)
  Lists are comma separated, "-" = empty.
-/
namespace Qco.Driver.Ident
open Qco

def b2s (b : Bool) : String := if b then "1" else "0"

def parseChan? : String → Option Chan
  | "A" => some .all | "R" => some .ro | "M" => some .mw | "F" => some .fl | _ => none

def chanCode : Chan → String
  | .all => "A" | .ro => "R" | .mw => "M" | .fl => "F"

def parseChId? (s : String) : Option ChId :=
  match s.splitOn ":" with
  | [q, c] => do some ⟨← q.toInt?, ← parseChan? c⟩
  | _ => none

def parseEdge? (s : String) : Option EdgeId :=
  match s.splitOn ":" with
  | [a, b] => some ⟨⟨a⟩, ⟨b⟩⟩
  | _ => none

def parseObj? (s : String) : Option Obj :=
  match s.splitOn ":" with
  | ["c", q, c] => do some (.chan ⟨← q.toInt?, ← parseChan? c⟩)
  | ["q", n] => some (.qubit ⟨n⟩)
  | ["f", n] => some (.feedline n)
  | ["e", a, b] => some (.edge ⟨⟨a⟩, ⟨b⟩⟩)
  | ["o", t] => t.toNat?.map .other
  | _ => none

def parseList {α} (p : String → Option α) (s : String) : Option (List α) :=
  if s == "-" then some [] else (s.splitOn ",").mapM p

def showList {α} (f : α → String) (l : List α) : String :=
  if l.isEmpty then "-" else ",".intercalate (l.map f)

def parseTable (s : String) : Option (List (String × Int)) :=
  parseList (fun t => match t.splitOn "=" with
    | [n, h] => h.toInt?.map (fun v => (n, v))
    | _ => none) s

def tableHash (t : List (String × Int)) (n : String) : Int :=
  ((t.find? (·.1 == n)).map (·.2)).getD 0

def showChId (c : ChId) : String := s!"{c.q}:{chanCode c.c}"
def showEdge (e : EdgeId) : String := s!"{e.q0.name}:{e.q1.name}"

def handle (args : List String) : String :=
  match args with
  | ["match", q1, c1, q2, c2] =>
    match q1.toInt?, parseChan? c1, q2.toInt?, parseChan? c2 with
    | some q1, some c1, some q2, some c2 =>
      let a : ChId := ⟨q1, c1⟩
      let b : ChId := ⟨q2, c2⟩
      s!"{b2s (a.matches b)} {b2s (a.hashKey == b.hashKey)} {b2s (a.setHit b)}"
    | _, _, _, _ => "bad-op"
  | ["qeq", a, b] => b2s ((QubitId.mk a).eq ⟨b⟩)
  | ["eeq", a, b, c, d, ha, hb, hc, hd] =>
    match ha.toInt?, hb.toInt?, hc.toInt?, hd.toInt? with
    | some ha, some hb, some hc, some hd =>
      let h := tableHash [(a, ha), (b, hb), (c, hc), (d, hd)]
      let e : EdgeId := ⟨⟨a⟩, ⟨b⟩⟩
      let f : EdgeId := ⟨⟨c⟩, ⟨d⟩⟩
      let ke := e.hashKey h
      let kf := f.hashKey h
      s!"{b2s (e.eq f)} {ke.1} {ke.2} {kf.1} {kf.2} {b2s (ke == kf)} {b2s (e.setHit h f)}"
    | _, _, _, _ => "bad-op"
  | ["pyeq", a, b] =>
    match parseObj? a, parseObj? b with
    | some a, some b => b2s (a.pyEq b)
    | _, _ => "bad-op"
  | ["uniq", "int", l] =>
    match parseList String.toInt? l with
    | some l => s!"{showList toString (uniqueLoop (fun s x => s == x) l)} {showList toString (uniqueInOrder l)}"
    | none => "bad-op"
  | ["uniq", "str", l] =>
    match parseList (fun s => some s) l with
    | some (l : List String) => s!"{showList id (uniqueLoop (fun s x => s == x) l)} {showList id (uniqueInOrder l)}"
    | none => "bad-op"
  | ["uniq", "qubit", l] =>
    match parseList (fun s => some (QubitId.mk s)) l with
    | some l =>
      s!"{showList QubitId.name (uniqueLoop (setHit (fun q => q.name) QubitId.eq) l)} {showList QubitId.name (uniqueInOrder l)}"
    | none => "bad-op"
  | ["uniq", "chan", l] =>
    match parseList parseChId? l with
    | some l => s!"{showList showChId (uniqueLoop ChId.setHit l)} {showList showChId (dedupChans l)}"
    | none => "bad-op"
  | ["uniq", "edge", l, t] =>
    match parseList parseEdge? l, parseTable t with
    | some l, some t => showList showEdge (uniqueLoop (EdgeId.setHit (tableHash t)) l)
    | _, _ => "bad-op"
  | _ => "bad-op"

end Qco.Driver.Ident
