#!/bin/bash
# usage: tools/soak.sh "<seeds>" "<props>" [tier]   — clean-tree soak: every check must exit 0 for every seed.
# Under `vp run --with-repo` the snapshot of /repo's HEAD is imported instead of /repo itself (VP_RUN_REPO).
cd "$(dirname "$0")/.."
[ -n "$VP_RUN_REPO" ] && export PYTHONPATH="$VP_RUN_REPO/src:$PYTHONPATH"
SEEDS=${1:-"1 2 3"}; PROPS=${2:-"C01 C02 C03 C04 C05 C06 C07 C08 C09 C10 C11 C12 C13 C14 C15 C16 C17 C18 C19"}; TIER=${3:-quick}
[ -x lean/.lake/build/bin/qcodriver ] || (cd lean && lake build > /dev/null 2>&1)
mkdir -p soaklogs
for s in $SEEDS; do for p in $PROPS; do
  t0=$(date +%s)
  VERIF_SEED=$s ./check $p --tier $TIER > soaklogs/$p-$s.log 2>&1; rc=$?
  echo "seed=$s $p exit=$rc $(( $(date +%s) - t0 ))s $(grep -c '^VIOLATION' soaklogs/$p-$s.log) violations"
  [ $rc -ne 0 ] && grep '^VIOLATION' soaklogs/$p-$s.log && cp -r replays soaklogs/replays-$p-$s 2>/dev/null
done; done
