import QcoVerif.Lemmas.Kernel
/-
  C12 — index kernels tile the acquisition index range without gaps or overlap.

  All statements are about the definitions of `QcoVerif/Model/Kernel.lean` that the driver executes
  (`ExpKernel.new?`, `RepKernel.*Idx`, `CalKernel.*`, the getters of `ExpKernel`, `estimate`).
  Quantifier: every rounds list (any length ≥ 1, any order, rounds ≥ 0 — distinctness is only needed where a
  getter has to find "its" kernel, `getter_finds_own_kernel`), both heralded settings, both values of the
  calibration flag `q` (after the repair R22 the calibration kernel is part of the cycle iff `q`), arbitrary identifier lists (a qubit may be data, ancilla, both or neither), all repetitions.
  `hK : ExpKernel.new? … = some K` says "the constructor returned K"; it does so iff the rounds list is not empty.

  Vocabulary (Lemmas/Kernel.lean): `hInt h` = 0/1, `slotLen h r = hInt h + max 0 (r-1) + 1` (DESIGN.md's `len r h`),
  `calLen h = 3·hInt h + 3`, `calPart h q = if q then calLen h else 0`, `K.spans` = the (start, stop) pairs of `indexing_kernels`, `k.all e` / `c.all e` /
  `K.cycleIndices e` = the concatenation of all categories of qubit `e` in a kernel / the calibration kernel /
  one whole cycle.
-/
namespace Qco.C12

open Qco.Kernel

variable {rounds : List Nat} {h q : Bool} {d a : List QId} {reps : Nat} {K : ExpKernel}

/-- The constructor answers (does not raise `IndexError`) exactly on non-empty rounds lists. -/
theorem constructor_defined (rounds : List Nat) (h q : Bool) (d a : List QId) (reps : Nat) :
    (ExpKernel.new? rounds h q d a reps).isSome ↔ rounds ≠ [] :=
  new?_isSome_iff rounds h q d a reps

/-- `start_0 = 0`, `start_{i+1} = stop_i + 1`, the last kernel (the calibration kernel if the flag is set, else the
last repetition kernel) stops at `cycle - 1`, and there is one kernel per rounds entry plus the calibration kernel
iff the flag is set. -/
theorem kernels_contiguous (hK : ExpKernel.new? rounds h q d a reps = some K) :
    K.startIndex = 0 ∧
    K.spans.head?.map Prod.fst = some 0 ∧
    (∀ (i : Nat) (p p' : Int × Int), K.spans[i]? = some p → K.spans[i + 1]? = some p' → p'.1 = p.2 + 1) ∧
    K.spans.getLast?.map Prod.snd = some (K.cycleLength - 1) ∧
    K.spans.length = rounds.length + (if q then 1 else 0) := by
  have B := new?_spec hK
  refine ⟨B.start_eq, ?_, ?_, ?_, ?_⟩
  · rw [B.spans_eq]
    cases hr : rounds with
    | nil => exact absurd hr B.ne
    | cons r rs => rfl
  · intro i p p' h1 h2
    rw [B.spans_eq] at h1 h2
    exact chain_consecutive _ _ i p p' h1 h2
  · rw [B.spans_eq, chain_getLast _ _ B.lens_ne, B.cycle_eq, List.sum_append, calLens_sum]
    simp only [Option.some.injEq]
    omega
  · rw [B.spans_eq, chain_length]
    cases q <;> simp [calLens]

example : ∃ K, ExpKernel.new? [0, 3, 6, 2] true true [1, 2] [10] 5 = some K ∧ K.spans.length = 5 :=
  ⟨_, rfl, rfl⟩
example : ∃ K, ExpKernel.new? [0, 3, 6, 2] true false [1, 2] [10] 5 = some K ∧ K.spans.length = 4 :=
  ⟨_, rfl, rfl⟩

/-- No kernel is empty and every kernel lies strictly before every later one: the index ranges are disjoint. -/
theorem kernels_disjoint (hK : ExpKernel.new? rounds h q d a reps = some K) :
    (∀ p ∈ K.spans, p.1 ≤ p.2) ∧
    List.Pairwise (fun p p' : Int × Int => p.2 < p'.1) K.spans := by
  have B := new?_spec hK
  rw [B.spans_eq]
  refine ⟨fun p hp => (chain_start_ge (Built.lens_pos h q rounds) p hp).2.1,
    chain_pairwise (Built.lens_pos h q rounds)⟩

example : ∃ K, ExpKernel.new? [1, 0] false true [] [10] 1 = some K ∧ K.spans = [(0, 0), (1, 1), (2, 4)] :=
  ⟨_, rfl, rfl⟩
example : ∃ K, ExpKernel.new? [1, 0] false false [] [10] 1 = some K ∧ K.spans = [(0, 0), (1, 1)] :=
  ⟨_, rfl, rfl⟩

/-- Together the kernels cover exactly `[0, cycle)`: no gap. -/
theorem kernels_tile (hK : ExpKernel.new? rounds h q d a reps = some K) (x : Int) :
    (0 ≤ x ∧ x < K.cycleLength) ↔ ∃ p ∈ K.spans, p.1 ≤ x ∧ x ≤ p.2 := by
  have B := new?_spec hK
  have := chain_cover (s := 0) (Built.lens_pos h q rounds) x
  rw [B.spans_eq, ← this, B.cycle_eq, List.sum_append, calLens_sum]
  simp only [Int.zero_add]

example : ∃ K, ExpKernel.new? [0] true true [] [10] 1 = some K ∧ K.cycleLength = 8 := ⟨_, rfl, rfl⟩

/-- `cycle_length = Σ len(r, h) + (3h + 3 if the calibration flag is set)`, the experiment starts at 0 and its
`stop_index` is `repetitions · cycle` (one past the last index — see `experiment_stop_is_exclusive`). -/
theorem cycle_length (hK : ExpKernel.new? rounds h q d a reps = some K) :
    K.cycleLength = (rounds.map (slotLen h)).sum + (if q then 3 * hInt h + 3 else 0) ∧
    K.startIndex = 0 ∧
    K.stopIndex = (reps : Int) * K.cycleLength := by
  have B := new?_spec hK
  refine ⟨?_, B.start_eq, ?_⟩
  · rw [B.cycle_eq, calPart, calLen]
  · rw [ExpKernel.stopIndex, B.start_eq, B.reps_eq]; omega

example : ∃ K, ExpKernel.new? [0, 3, 6, 2] false true [1, 2] [10] 5 = some K ∧ K.cycleLength = 15 :=
  ⟨_, rfl, rfl⟩
example : ∃ K, ExpKernel.new? [0, 3, 6, 2] true false [1, 2] [10] 5 = some K ∧ K.cycleLength = 16 :=
  ⟨_, rfl, rfl⟩

/-- Every category of every qubit lies inside its kernel — for ANY repetition kernel and ANY calibration kernel,
whatever their offset strategy. -/
theorem category_in_kernel (k : RepKernel) (c : CalKernel) (e : QId) :
    (∀ x ∈ k.heraldedIdx e, k.startIndex ≤ x ∧ x ≤ k.stopIndex) ∧
    (∀ x ∈ k.stabIdx e, k.startIndex ≤ x ∧ x ≤ k.stopIndex) ∧
    (∀ x ∈ k.finalIdx e, k.startIndex ≤ x ∧ x ≤ k.stopIndex) ∧
    (∀ s, ∀ x ∈ c.heraldedState s e, c.startIndex ≤ x ∧ x ≤ c.stopIndex) ∧
    (∀ s, ∀ x ∈ c.projectedState s e, c.startIndex ≤ x ∧ x ≤ c.stopIndex) := by
  refine ⟨?_, ?_, ?_, ?_, ?_⟩
  · exact fun x hx => RepKernel.mem_all_in_span (e := e) (by simp [RepKernel.all, hx])
  · exact fun x hx => RepKernel.mem_all_in_span (e := e) (by simp [RepKernel.all, hx])
  · exact fun x hx => RepKernel.mem_all_in_span (e := e) (by simp [RepKernel.all, hx])
  · intro s x hx
    apply CalKernel.mem_all_in_span (e := e)
    cases s <;> simp [CalKernel.all, CalKernel.heraldedState] at hx ⊢ <;> simp [hx]
  · intro s x hx
    apply CalKernel.mem_all_in_span (e := e)
    cases s <;> simp [CalKernel.all, CalKernel.projectedState] at hx ⊢ <;> simp [hx]

/-- A getter called with round count `rounds[i]` answers from the i-th kernel when the rounds are distinct
(the code returns the FIRST kernel with that count). -/
theorem getter_finds_own_kernel (hK : ExpKernel.new? rounds h q d a reps = some K) (hd : rounds.Nodup)
    {i r : Nat} (hi : rounds[i]? = some r) :
    K.findKernel r = K.repKernels[i]? ∧ (K.repKernels[i]?).map (·.nr) = some r := by
  have B := new?_spec hK
  have hnr : K.repKernels.map (·.nr) = rounds := by rw [B.kernels, buildReps_nr]
  refine ⟨?_, ?_⟩
  · exact find?_of_nodup_map (·.nr) K.repKernels i r (by rw [hnr]; exact hd) (by rw [hnr]; exact hi)
  · rw [← List.getElem?_map, hnr]; exact hi

example : ∃ K, ExpKernel.new? [0, 3, 6, 2] true true [1, 2] [10] 5 = some K ∧
    (K.findKernel 6).map (·.startIndex) = some 6 := ⟨_, rfl, rfl⟩

/-- What the three cycle getters return, and that every returned index of repetition `j` lies inside the kernel
found, translated by `j · cycle`. `none` (count not in the rounds list) is the code's empty array. -/
theorem getters_in_kernel (hK : ExpKernel.new? rounds h q d a reps = some K) {count : Nat} {k : RepKernel}
    (hf : K.findKernel count = some k) (e : QId) :
    k ∈ K.repKernels ∧ k.nr = count ∧
    ∀ rows, (K.heraldedCycle e count = some rows ∨ K.stabilizerAndProjectedCycle e count = some rows ∨
        K.projectedCycle e count = some rows) →
      rows.length = reps ∧
      ∀ (j : Nat) (row : List Int), rows[j]? = some row → ∀ x ∈ row,
        k.startIndex + (j : Int) * K.cycleLength ≤ x ∧ x ≤ k.stopIndex + (j : Int) * K.cycleLength := by
  have B := new?_spec hK
  have hk : k ∈ K.repKernels := List.mem_of_find?_eq_some hf
  have hn : k.nr = count := by
    have := List.find?_some hf
    simpa using this
  refine ⟨hk, hn, ?_⟩
  intro rows hrows
  have key : ∀ l : List Int, (∀ x ∈ l, k.startIndex ≤ x ∧ x ≤ k.stopIndex) →
      rows = slicedArrays l K.cycleLength K.reps →
      rows.length = reps ∧ ∀ (j : Nat) (row : List Int), rows[j]? = some row → ∀ x ∈ row,
        k.startIndex + (j : Int) * K.cycleLength ≤ x ∧ x ≤ k.stopIndex + (j : Int) * K.cycleLength := by
    intro l hl hr
    subst hr
    refine ⟨by rw [slicedArrays_length, B.reps_eq], ?_⟩
    intro j row hj x hx
    have hjl : j < K.reps := by
      have := (List.getElem?_eq_some_iff.mp hj).1
      rwa [slicedArrays_length] at this
    rw [slicedArrays_getElem? _ _ _ _ hjl] at hj
    injection hj with hj
    subst hj
    obtain ⟨x0, hx0, rfl⟩ := List.mem_map.mp hx
    have := hl x0 hx0
    omega
  have hcat := category_in_kernel k K.calKernel e
  rcases hrows with hr | hr | hr
  · simp only [ExpKernel.heraldedCycle, hf, Option.map_some, Option.some.injEq] at hr
    exact key _ hcat.1 hr.symm
  · simp only [ExpKernel.stabilizerAndProjectedCycle, hf, Option.map_some, Option.some.injEq] at hr
    refine key _ ?_ hr.symm
    intro x hx
    rcases List.mem_append.mp hx with hx | hx
    · exact hcat.2.1 x hx
    · exact hcat.2.2.1 x hx
  · simp only [ExpKernel.projectedCycle, hf, Option.map_some, Option.some.injEq] at hr
    exact key _ hcat.2.2.1 hr.symm

example : ∃ K k, ExpKernel.new? [0, 3] true true [1, 2] [10] 2 = some K ∧ K.findKernel 3 = some k ∧
    K.stabilizerAndProjectedCycle 10 3 = some [[3, 4, 5], [15, 16, 17]] := ⟨_, _, rfl, rfl, rfl⟩

/-- The categories of one qubit in one kernel are pairwise disjoint and free of duplicates — in fact
heralded < stabilizer < final, each strictly ascending; likewise the six calibration categories.
Holds for any kernel and any qubit (data, ancilla, both, neither). -/
theorem categories_disjoint_kernel (k : RepKernel) (c : CalKernel) (e : QId) :
    List.Pairwise (· < ·) (k.heraldedIdx e ++ k.stabIdx e ++ k.finalIdx e) ∧
    List.Pairwise (· < ·)
      (c.heralded0 e ++ c.state0 e ++ c.heralded1 e ++ c.state1 e ++ c.heralded2 e ++ c.state2 e) :=
  ⟨k.all_sorted e, c.all_sorted e⟩

/-- Explicit form for the calibration getters: two getters share an index only if they are the same getter. -/
theorem categories_disjoint_calibration (c : CalKernel) (e : QId) (s s' : StateKey) (x : Int) :
    (x ∈ c.heraldedState s e → x ∈ c.heraldedState s' e → s = s') ∧
    (x ∈ c.projectedState s e → x ∈ c.projectedState s' e → s = s') ∧
    (x ∈ c.heraldedState s e → x ∈ c.projectedState s' e → False) := by
  simp only [CalKernel.mem_heraldedState, CalKernel.mem_projectedState]
  refine ⟨?_, ?_, ?_⟩
  · rintro ⟨_, _, h1⟩ ⟨_, _, h2⟩
    cases s <;> cases s' <;> simp only [StateKey.num] at h1 h2 <;> first | rfl | omega
  · rintro ⟨_, h1⟩ ⟨_, h2⟩
    rcases hInt_cases c.heralded with e0 | e0 <;> simp only [e0] at h1 h2 <;>
      cases s <;> cases s' <;> simp only [StateKey.num] at h1 h2 <;> first | rfl | omega
  · rintro ⟨_, hh, h1⟩ ⟨_, h2⟩
    simp only [hh, hInt_true] at h2
    cases s <;> cases s' <;> simp only [StateKey.num] at h1 h2 <;> omega

/-- All indices that one cycle attributes to a qubit — kernel after kernel, category after category, calibration
last — are strictly ascending: no index is attributed twice, neither within a kernel nor across kernels. -/
theorem categories_disjoint (hK : ExpKernel.new? rounds h q d a reps = some K) (e : QId) :
    List.Pairwise (· < ·) (K.cycleIndices e) :=
  (new?_spec hK).cycleIndices_sorted e

example : ∃ K, ExpKernel.new? [0, 3, 6, 2] true true [1, 2] [10] 5 = some K ∧
    K.cycleIndices 10 = [0, 2, 3, 4, 5, 6, 7, 8, 9, 10, 11, 12, 13, 14, 15, 16, 17, 18, 19, 20, 21] ∧
    K.cycleIndices 1 = [0, 1, 2, 5, 6, 12, 13, 15, 16, 17, 18, 19, 20, 21] := ⟨_, rfl, rfl, rfl⟩

/-- An ancilla's categories cover the whole cycle `[0, cycle)` except the last slot of every 0-round kernel
(the documented missing slot: the code returns no final index for an ancilla when `nr_repeated_parities = 0`). -/
theorem ancilla_cover (hK : ExpKernel.new? rounds h q d a reps = some K) {e : QId} (he : e ∈ a) (x : Int) :
    x ∈ K.cycleIndices e ↔
      (0 ≤ x ∧ x < K.cycleLength ∧ ¬ ∃ k ∈ K.repKernels, k.nr = 0 ∧ x = k.stopIndex) := by
  have B := new?_spec hK
  have hcal : e ∈ K.calKernel.ids := by rw [B.cal_ids]; simp [he]
  have hcs := K.calKernel.start_le_stop
  have hc0 := B.cal_start_nonneg
  have hcle := B.cal_start_le_cycle
  rw [mem_cycleIndices, B.qutrit_eq]
  constructor
  · rintro (⟨k, hk, hx⟩ | hx)
    · have hanc : e ∈ k.ancIds := by rw [(B.mem_fields hk).2.2]; exact he
      obtain ⟨h1, h2, h3⟩ := (RepKernel.mem_all_anc hanc x).mp hx
      have hin := B.rep_in_cycle hk
      refine ⟨by omega, by omega, ?_⟩
      rintro ⟨k', hk', hz, rfl⟩
      have hs' := k'.start_le_stop
      rcases pairwise_trichotomy B.rep_pairwise hk hk' with rfl | hlt | hlt
      · exact h3 ⟨hz, rfl⟩
      · omega
      · omega
    · obtain ⟨hq, hx⟩ := hx
      have hcyc := B.cal_stop_cycle hq
      obtain ⟨h1, h2⟩ := (CalKernel.mem_all_of_mem hcal x).mp hx
      refine ⟨by omega, by omega, ?_⟩
      rintro ⟨k', hk', _, rfl⟩
      have := B.rep_in_cycle hk'
      omega
  · rintro ⟨h0, h1, hmiss⟩
    by_cases hx : x < K.calKernel.startIndex
    · obtain ⟨k, hk, h2, h3⟩ := (B.rep_cover x).mp ⟨h0, hx⟩
      have hanc : e ∈ k.ancIds := by rw [(B.mem_fields hk).2.2]; exact he
      exact Or.inl ⟨k, hk, (RepKernel.mem_all_anc hanc x).mpr ⟨h2, h3, fun hz => hmiss ⟨k, hk, hz⟩⟩⟩
    · cases hq : q with
      | false => have := B.cal_start_eq_cycle hq; omega
      | true =>
        have hcyc := B.cal_stop_cycle hq
        exact Or.inr ⟨rfl, (CalKernel.mem_all_of_mem hcal x).mpr ⟨by omega, by omega⟩⟩

/-- non-vacuity and the missing slot itself: rounds `[0]`, heralded; slot 1 is nobody's for the ancilla. -/
example : ∃ K, ExpKernel.new? [0] true true [1] [10] 1 = some K ∧ (10 : QId) ∈ [10] ∧
    K.cycleIndices 10 = [0, 2, 3, 4, 5, 6, 7] ∧ K.cycleLength = 8 := ⟨_, rfl, by decide, rfl, rfl⟩
example : ∃ K, ExpKernel.new? [2, 0] true false [1] [10] 1 = some K ∧ (10 : QId) ∈ [10] ∧
    K.cycleIndices 10 = [0, 1, 2, 3] ∧ K.cycleLength = 5 := ⟨_, rfl, by decide, rfl, rfl⟩

/-- A pure data qubit owns the heralded slot (if heralded) and the last slot of every repetition kernel, and the
whole calibration kernel (if the calibration flag is set). -/
theorem data_indices (hK : ExpKernel.new? rounds h q d a reps = some K) {e : QId} (hd : e ∈ d) (ha : e ∉ a)
    (x : Int) :
    x ∈ K.cycleIndices e ↔
      (∃ k ∈ K.repKernels, (h = true ∧ x = k.startIndex) ∨ x = k.stopIndex) ∨
      (q = true ∧ K.calKernel.startIndex ≤ x ∧ x ≤ K.calKernel.stopIndex) := by
  have B := new?_spec hK
  have hcal : e ∈ K.calKernel.ids := by rw [B.cal_ids]; simp [hd]
  rw [mem_cycleIndices, CalKernel.mem_all_of_mem hcal, B.qutrit_eq]
  constructor
  · rintro (⟨k, hk, hx⟩ | hx)
    · obtain ⟨f1, f2, f3⟩ := B.mem_fields hk
      rw [RepKernel.mem_all_data (by rw [f2]; exact hd) (by rw [f3]; exact ha), f1] at hx
      exact Or.inl ⟨k, hk, hx⟩
    · exact Or.inr hx
  · rintro (⟨k, hk, hx⟩ | hx)
    · obtain ⟨f1, f2, f3⟩ := B.mem_fields hk
      refine Or.inl ⟨k, hk, ?_⟩
      rw [RepKernel.mem_all_data (by rw [f2]; exact hd) (by rw [f3]; exact ha), f1]
      exact hx
    · exact Or.inr hx

example : ∃ K, ExpKernel.new? [0, 3] true true [1] [10] 1 = some K ∧ (1 : QId) ∈ [1] ∧ (1 : QId) ∉ [10] ∧
    K.cycleIndices 1 = [0, 1, 2, 5, 6, 7, 8, 9, 10, 11] := ⟨_, rfl, by decide, by decide, rfl, ⟩

/-- Successive experiment repetitions are exact translates: row `j` of every cycle getter is row 0 shifted by
`j · cycle`, there is one row per repetition, and the flat calibration getters are the concatenation of the
single-cycle indices shifted by `0, cycle, 2·cycle, …` (empty when the calibration flag is off). -/
theorem repetition_translate (K : ExpKernel) (e : QId) :
    (∀ count rows, (K.heraldedCycle e count = some rows ∨ K.stabilizerAndProjectedCycle e count = some rows ∨
        K.projectedCycle e count = some rows) →
      rows.length = K.reps ∧
      ∀ (j : Nat) (row : List Int), rows[j]? = some row →
        ∃ row0, rows[0]? = some row0 ∧ row = row0.map (fun x => x + (j : Int) * K.cycleLength)) ∧
    (∀ s, K.projectedCalibration e s =
      if K.qutrit then ((List.range K.reps).map (fun (j : Nat) =>
        (K.calKernel.projectedState s e).map (fun x => x + (j : Int) * K.cycleLength))).flatten else []) ∧
    (∀ s, K.heraldedCalibration e s =
      if K.qutrit then ((List.range K.reps).map (fun (j : Nat) =>
        (K.calKernel.heraldedState s e).map (fun x => x + (j : Int) * K.cycleLength))).flatten else []) := by
  refine ⟨?_, fun _ => rfl, fun _ => rfl⟩
  intro count rows hrows
  have key : ∀ l : List Int, rows = slicedArrays l K.cycleLength K.reps →
      rows.length = K.reps ∧ ∀ (j : Nat) (row : List Int), rows[j]? = some row →
        ∃ row0, rows[0]? = some row0 ∧ row = row0.map (fun x => x + (j : Int) * K.cycleLength) := by
    intro l hr
    subst hr
    refine ⟨slicedArrays_length _ _ _, ?_⟩
    intro j row hj
    have hjl : j < K.reps := by
      have := (List.getElem?_eq_some_iff.mp hj).1
      rwa [slicedArrays_length] at this
    rw [slicedArrays_getElem? _ _ _ _ hjl] at hj
    injection hj with hj
    refine ⟨l.map (fun x => x + ((0 : Nat) : Int) * K.cycleLength),
      slicedArrays_getElem? _ _ _ _ (by omega), ?_⟩
    rw [← hj, List.map_map]
    apply List.map_congr_left
    intro x _
    simp
  cases hf : K.findKernel count with
  | none => simp [ExpKernel.heraldedCycle, ExpKernel.stabilizerAndProjectedCycle, ExpKernel.projectedCycle, hf] at hrows
  | some k =>
    simp only [ExpKernel.heraldedCycle, ExpKernel.stabilizerAndProjectedCycle, ExpKernel.projectedCycle, hf,
      Option.map_some, Option.some.injEq] at hrows
    rcases hrows with hr | hr | hr <;> exact key _ hr.symm

example : ∃ K, ExpKernel.new? [0, 3] true true [1, 2] [10] 3 = some K ∧
    K.heraldedCycle 10 3 = some [[2], [14], [26]] ∧ K.projectedCalibration 10 .s1 = [9, 21, 33] :=
  ⟨_, rfl, rfl, rfl⟩

/-- Repetition `j` of everything lives in the window `[j · cycle, (j+1) · cycle)`: repetitions do not overlap and
the last index used is below `stop_index = repetitions · cycle`. -/
theorem repetition_window (hK : ExpKernel.new? rounds h q d a reps = some K) (e : QId) :
    (∀ count rows, (K.heraldedCycle e count = some rows ∨ K.stabilizerAndProjectedCycle e count = some rows ∨
        K.projectedCycle e count = some rows) →
      ∀ (j : Nat) (row : List Int), rows[j]? = some row → ∀ x ∈ row,
        (j : Int) * K.cycleLength ≤ x ∧ x < ((j : Int) + 1) * K.cycleLength) ∧
    (∀ s, ∀ x ∈ K.projectedCalibration e s ++ K.heraldedCalibration e s,
      ∃ j : Nat, j < reps ∧ (j : Int) * K.cycleLength ≤ x ∧ x < ((j : Int) + 1) * K.cycleLength) := by
  have B := new?_spec hK
  have hcs := K.calKernel.start_le_stop
  have hcle := B.cal_start_le_cycle
  refine ⟨?_, ?_⟩
  · intro count rows hrows j row hj x hx
    cases hf : K.findKernel count with
    | none =>
      simp [ExpKernel.heraldedCycle, ExpKernel.stabilizerAndProjectedCycle, ExpKernel.projectedCycle, hf] at hrows
    | some k =>
      obtain ⟨hk, _, hall⟩ := getters_in_kernel hK hf e
      have := (hall rows hrows).2 j row hj x hx
      have := B.rep_in_cycle hk
      have hmul : ((j : Int) + 1) * K.cycleLength = (j : Int) * K.cycleLength + K.cycleLength := by
        rw [Int.add_mul, Int.one_mul]
      omega
  · intro s x hx
    cases hq : q with
    | false =>
      simp [ExpKernel.projectedCalibration, ExpKernel.heraldedCalibration, B.qutrit_eq, hq] at hx
    | true =>
    have hcyc := B.cal_stop_cycle hq
    have hKq : K.qutrit = true := by rw [B.qutrit_eq, hq]
    simp only [ExpKernel.projectedCalibration, ExpKernel.heraldedCalibration, hKq, if_true] at hx
    have hcat := category_in_kernel default K.calKernel e
    have hstart := B.cal_start_nonneg
    have key : ∀ l : List Int, (∀ y ∈ l, K.calKernel.startIndex ≤ y ∧ y ≤ K.calKernel.stopIndex) →
        x ∈ slicedArray l K.cycleLength K.reps →
        ∃ j : Nat, j < reps ∧ (j : Int) * K.cycleLength ≤ x ∧ x < ((j : Int) + 1) * K.cycleLength := by
      intro l hl hxl
      obtain ⟨j, hj, y, hy, rfl⟩ := mem_slicedArray.mp hxl
      have := hl y hy
      have hmul : ((j : Int) + 1) * K.cycleLength = (j : Int) * K.cycleLength + K.cycleLength := by
        rw [Int.add_mul, Int.one_mul]
      exact ⟨j, by rw [← B.reps_eq]; exact hj, by omega, by omega⟩
    rcases List.mem_append.mp hx with hx | hx
    · exact key _ (hcat.2.2.2.2 s) hx
    · exact key _ (hcat.2.2.2.1 s) hx

example : ∃ K, ExpKernel.new? [1, 0] true false [1] [10] 2 = some K ∧
    K.projectedCycle 1 0 = some [[3], [7]] ∧ K.cycleLength = 4 := ⟨_, rfl, rfl, rfl⟩

/-- `RepetitionExperimentKernel.stop_index` is EXCLUSIVE (one past the last index in use) although the kernels it is
built from use inclusive stops; the inherited `kernel_length = stop - start + 1` therefore over-counts by one. Not
part of the tiling statement; recorded because `stop_index` is an observation point of the property. -/
theorem experiment_stop_is_exclusive (hK : ExpKernel.new? rounds h q d a reps = some K) :
    K.stopIndex = K.startIndex + (reps : Int) * K.cycleLength ∧
    K.kernelLength = (reps : Int) * K.cycleLength + 1 := by
  have B := new?_spec hK
  refine ⟨by rw [ExpKernel.stopIndex, B.reps_eq], ?_⟩
  rw [ExpKernel.kernelLength, ExpKernel.stopIndex, B.reps_eq]
  omega

example : ∃ K, ExpKernel.new? [1] false true [1] [10] 3 = some K ∧ K.stopIndex = 12 ∧ K.kernelLength = 13 ∧
    K.projectedCalibration 10 .s2 = [3, 7, 11] := ⟨_, rfl, rfl, rfl, rfl⟩

/-- The cycle length `estimate_experiment_repetitions` computes from `(rounds, heralded, flag)` is the cycle length of
the kernel constructed from the same description (after the repair R22 both honour the calibration flag). -/
theorem estimate_cycle (hK : ExpKernel.new? rounds h q d a reps = some K) :
    estimateCycle? rounds h q = some K.cycleLength := by
  have B := new?_spec hK
  have hsp := buildReps_spans h [] [] (.fixed 0) rounds
  have hl := chain_getLast (Strategy.fixed 0).getIndex (rounds.map (slotLen h)) (by simpa using B.ne)
  rw [← hsp, List.getLast?_map] at hl
  cases hr : rounds with
  | nil => exact absurd hr B.ne
  | cons r rs =>
    rw [hr] at hl
    unfold estimateCycle?
    simp only
    cases hlast : (buildReps h [] [] (.fixed 0) (r :: rs)).getLast? with
    | none => rw [hlast] at hl; simp at hl
    | some last =>
      rw [hlast] at hl
      simp only [Option.map_some, Option.some.injEq, Strategy.getIndex] at hl
      have hc := B.cycle_eq
      rw [hr] at hc
      simp only [buildReps, List.head?_cons, RepKernel.startIndex, Strategy.getIndex, Option.some.injEq]
      cases q <;> simp only [CalKernel.stop_eq, CalKernel.startIndex, Strategy.getIndex, hl, hc, calPart, if_true,
        Bool.false_eq_true, if_false] <;> omega

example : ∃ K K', ExpKernel.new? [2, 0] true true [1] [10] 1 = some K ∧ K.cycleLength = 11 ∧
    estimateCycle? [2, 0] true true = some 11 ∧
    ExpKernel.new? [2, 0] true false [1] [10] 1 = some K' ∧ K'.cycleLength = 5 ∧
    estimateCycle? [2, 0] true false = some 5 :=
  ⟨_, _, rfl, rfl, rfl, rfl, rfl, rfl⟩

/-- The repetition estimate inverts `dataset size = repetitions × cycle length`, for every experiment description —
both values of the calibration flag — in the range `reps · cycle < 2^53` in which the code's float division is exact
and the model answers at all (above it the model answers `inexact`; the code's own `assert` turns a rounding error into
an exception, never a wrong value — checked on the implementation by harness/c12.py). -/
theorem estimate_inverts (hK : ExpKernel.new? rounds h q d a reps = some K)
    (hexact : (reps : Int) * K.cycleLength < (floatExactBound : Int)) :
    estimate rounds h q ((reps : Int) * K.cycleLength).toNat = .value reps := by
  have B := new?_spec hK
  have hpos := B.cycle_pos
  have hnn : 0 ≤ (reps : Int) * K.cycleLength := Int.mul_nonneg (by omega) (by omega)
  unfold estimate
  rw [estimate_cycle hK]
  simp only
  have hcast : ((((reps : Int) * K.cycleLength).toNat : Nat) : Int) = (reps : Int) * K.cycleLength :=
    Int.toNat_of_nonneg hnn
  have hlt : ¬ floatExactBound ≤ ((reps : Int) * K.cycleLength).toNat := by omega
  rw [if_neg hlt, hcast, Int.mul_emod_left]
  simp only [if_true]
  rw [Int.mul_ediv_cancel _ (by omega)]
  simp

example : ∃ K, ExpKernel.new? [0, 3, 6, 2] false true [1, 2] [10] 5 = some K ∧
    (5 : Int) * K.cycleLength < (floatExactBound : Int) ∧ estimate [0, 3, 6, 2] false true 75 = .value 5 :=
  ⟨_, rfl, by decide, rfl⟩

/-- the former witness of R22 (rounds `[1]`, no heralding, flag off, 3 repetitions), now an instance of the theorem:
the cycle is 1, the data set has 3 entries and the estimate is 3. -/
example : ∃ K, ExpKernel.new? [1] false false [1] [10] 3 = some K ∧ K.cycleLength = 1 ∧
    (3 : Int) * K.cycleLength < (floatExactBound : Int) ∧ estimate [1] false false 3 = .value 3 :=
  ⟨_, rfl, rfl, by decide, rfl⟩

/-- The assertion of the code, on the model: a data-set size that is not a multiple of the cycle length is refused,
a multiple is answered with the exact quotient. -/
theorem estimate_sound (hK : ExpKernel.new? rounds h q d a reps = some K) (dataset : Nat)
    (hexact : dataset < floatExactBound) :
    estimate rounds h q dataset =
      if (dataset : Int) % K.cycleLength = 0 then .value ((dataset : Int) / K.cycleLength).toNat
      else .assertionError := by
  unfold estimate
  rw [estimate_cycle hK]
  have hlt : ¬ floatExactBound ≤ dataset := by omega
  simp only [if_neg hlt]

example : ∃ K, ExpKernel.new? [2, 0] true false [1] [10] 2 = some K ∧ (11 : Nat) < floatExactBound ∧
    estimate [2, 0] true false 11 = .assertionError ∧ estimate [2, 0] true false 20 = .value 4 :=
  ⟨_, rfl, by decide, rfl, rfl⟩


end Qco.C12
