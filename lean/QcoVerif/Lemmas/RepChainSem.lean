import QcoVerif.Lemmas.RepCode
/-
  C09, all chain lengths: layer lemmas for the product-state semantics.

  A register is written `mk N F` (qubit `q < N` is in state `F q`).  A layer of single-qubit gates on
  distinct qubits, a layer of CZ gates whose "control" ends are Z-eigenstates that no gate of the layer
  modifies, a layer of measurements, of detectors, of observable includes: each has a closed-form effect.
-/
namespace Qco.RepChain
open Qco.StimSem Qco.RepCode

/-- the register in which qubit `q < N` is in state `F q` -/
def mk (N : Nat) (F : Nat → Q) : List Q := (List.range N).map F

def upd (F : Nat → Q) (q : Nat) (v : Q) : Nat → Q := fun x => if x = q then v else F x

theorem mk_length (N : Nat) (F : Nat → Q) : (mk N F).length = N := by simp [mk]

theorem mk_get {N : Nat} (F : Nat → Q) {q : Nat} (h : q < N) : (mk N F)[q]? = some (F q) := by
  simp [mk, List.getElem?_map, List.getElem?_range h]

theorem mk_get_none {N : Nat} (F : Nat → Q) {q : Nat} (h : N ≤ q) : (mk N F)[q]? = none := by
  simp [mk, h]

theorem mk_congr {N : Nat} {F G : Nat → Q} (h : ∀ q, q < N → F q = G q) : mk N F = mk N G := by
  apply List.map_congr_left
  intro q hq
  exact h q (List.mem_range.mp hq)

theorem mk_set (N : Nat) (F : Nat → Q) (q : Nat) (v : Q) : (mk N F).set q v = mk N (upd F q v) := by
  apply List.ext_getElem?
  intro j
  rw [List.getElem?_set]
  by_cases hj : j < N
  · rw [mk_get _ hj, mk_get _ hj, mk_length]
    by_cases hq : q = j
    · subst hq; simp [upd, hj]
    · have : ¬ j = q := fun h => hq h.symm
      simp [upd, hq, this]
  · have hj' : N ≤ j := by omega
    rw [mk_get_none _ hj', mk_get_none _ hj', mk_length]
    by_cases hq : q = j
    · subst hq; simp [hj]
    · simp [hq]


/-! ### a layer of single-qubit Cliffords on distinct qubits -/

def loc (onZ onX onY : Basis × Nat) (x : Q) : Q :=
  match x.b with
  | .Z => ⟨onZ.1, x.f ^^^ onZ.2⟩
  | .X => ⟨onX.1, x.f ^^^ onX.2⟩
  | .Y => ⟨onY.1, x.f ^^^ onY.2⟩

theorem act1_mk (onZ onX onY : Basis × Nat) {N : Nat} (F : Nat → Q) {q : Nat} (h : q < N)
    (mrec det : List Nat) (obs : Nat) :
    act1 onZ onX onY ⟨mk N F, mrec, det, obs⟩ q =
      some ⟨mk N (upd F q (loc onZ onX onY (F q))), mrec, det, obs⟩ := by
  unfold act1
  simp only [mk_get F h]
  rcases hq : F q with ⟨b, f⟩
  cases b <;> simp [loc, mk_set]

theorem run_act1_layer (G : Nat → Ins) (onZ onX onY : Basis × Nat)
    (hG : ∀ s q, step s (G q) = act1 onZ onX onY s q)
    (N : Nat) (l : List Nat) (hl : ∀ q ∈ l, q < N) (hnd : l.Nodup) (F : Nat → Q)
    (mrec det : List Nat) (obs : Nat) :
    run (l.map G) ⟨mk N F, mrec, det, obs⟩ =
      some ⟨mk N (fun x => if x ∈ l then loc onZ onX onY (F x) else F x), mrec, det, obs⟩ := by
  induction l generalizing F with
  | nil => simp [run]
  | cons q l ih =>
    have hq : q < N := hl q (List.mem_cons_self)
    have hnd' := List.nodup_cons.mp hnd
    simp only [List.map_cons, run, hG, act1_mk onZ onX onY F hq]
    rw [ih (fun x hx => hl x (List.mem_cons_of_mem _ hx)) hnd'.2]
    congr 2
    apply mk_congr
    intro x _
    by_cases hx : x = q
    · subst hx; simp [upd, hnd'.1]
    · by_cases hxl : x ∈ l <;> simp [upd, hx, hxl]

/-! ### a layer of CZ gates: target `t` (an X-eigenstate) picks up the form of its control `c t`
    (a Z-eigenstate that is no target of the layer) -/

theorem run_cz_layer (N : Nat) (c : Nat → Nat) (mkI : Nat → Ins)
    (hI : ∀ t, mkI t = .CZ (c t) t ∨ mkI t = .CZ t (c t))
    (ts : List Nat) (hnd : ts.Nodup) (F : Nat → Q)
    (h : ∀ t ∈ ts, t < N ∧ c t < N ∧ (F (c t)).b = .Z ∧ (F t).b = .X)
    (hdis : ∀ t ∈ ts, c t ∉ ts)
    (mrec det : List Nat) (obs : Nat) :
    run (ts.map mkI) ⟨mk N F, mrec, det, obs⟩ =
      some ⟨mk N (fun x => if x ∈ ts then ⟨.X, (F x).f ^^^ (F (c x)).f⟩ else F x), mrec, det, obs⟩ := by
  induction ts generalizing F with
  | nil => simp [run]
  | cons t ts ih =>
    obtain ⟨ht, hct, hz, hx⟩ := h t List.mem_cons_self
    have hnd' := List.nodup_cons.mp hnd
    have hne : c t ≠ t := fun e => hdis t List.mem_cons_self (by rw [e]; exact List.mem_cons_self)
    have hstep : step ⟨mk N F, mrec, det, obs⟩ (mkI t) =
        some ⟨mk N (upd F t ⟨.X, (F t).f ^^^ (F (c t)).f⟩), mrec, det, obs⟩ := by
      rcases hFt : F t with ⟨bt, ft⟩
      rcases hFc : F (c t) with ⟨bc, fc⟩
      rw [hFt] at hx; rw [hFc] at hz
      simp only at hx hz
      subst hx; subst hz
      rcases hI t with e | e
      · rw [e]
        simp only [step, hne, if_false, mk_get F ht, mk_get F hct, hFt, hFc, mk_set]
      · rw [e]
        have hne' : ¬ t = c t := fun e => hne e.symm
        simp only [step, hne', if_false, mk_get F ht, mk_get F hct, hFt, hFc, mk_set]
    simp only [List.map_cons, run, hstep]
    rw [ih hnd'.2]
    · congr 2
      apply mk_congr
      intro x _
      by_cases hxt : x = t
      · subst hxt; simp [upd, hnd'.1]
      · by_cases hxl : x ∈ ts
        · have hcx : c x ≠ t := fun e => hdis x (List.mem_cons_of_mem _ hxl) (by rw [e]; exact List.mem_cons_self)
          simp [upd, hxt, hxl, hcx]
        · simp [upd, hxt, hxl]
    · intro t' ht'
      obtain ⟨a1, a2, a3, a4⟩ := h t' (List.mem_cons_of_mem _ ht')
      have hct' : c t' ≠ t := fun e => hdis t' (List.mem_cons_of_mem _ ht') (by rw [e]; exact List.mem_cons_self)
      have htt' : t' ≠ t := fun e => hnd'.1 (e ▸ ht')
      refine ⟨a1, a2, ?_, ?_⟩
      · simpa [upd, hct'] using a3
      · simpa [upd, htt'] using a4
    · intro t' ht' hmem
      exact hdis t' (List.mem_cons_of_mem _ ht') (List.mem_cons_of_mem _ hmem)

/-! ### measurement, reset, detector, observable layers -/

theorem run_M_layer (N : Nat) (l : List Nat) (F : Nat → Q)
    (h : ∀ q ∈ l, q < N ∧ (F q).b = .Z) (mrec det : List Nat) (obs : Nat) :
    run (l.map .M) ⟨mk N F, mrec, det, obs⟩ =
      some ⟨mk N F, (l.map fun q => (F q).f).reverse ++ mrec, det, obs⟩ := by
  induction l generalizing mrec with
  | nil => simp [run]
  | cons q l ih =>
    obtain ⟨hq, hz⟩ := h q List.mem_cons_self
    rcases hFq : F q with ⟨b, f⟩
    rw [hFq] at hz
    simp only at hz
    subst hz
    simp only [List.map_cons, run, step, mk_get F hq, hFq]
    rw [ih (fun x hx => h x (List.mem_cons_of_mem _ hx))]
    simp

theorem run_DET_layer {α : Type} (l : List α) (c0 c1 : α → Int) (ts : α → List Int) (v : α → Nat)
    (q : List Q) (mrec det : List Nat) (obs : Nat)
    (h : ∀ a ∈ l, sumLookbacks mrec (ts a) = some (v a)) :
    run (l.map fun a => .DET (c0 a) (c1 a) (ts a)) ⟨q, mrec, det, obs⟩ =
      some ⟨q, mrec, (l.map v).reverse ++ det, obs⟩ := by
  induction l generalizing det with
  | nil => simp [run]
  | cons a l ih =>
    simp only [List.map_cons, run, step, h a List.mem_cons_self]
    rw [ih _ (fun x hx => h x (List.mem_cons_of_mem _ hx))]
    simp

theorem run_OBS_layer {α : Type} (l : List α) (ts : α → List Int) (v : α → Nat)
    (q : List Q) (mrec det : List Nat) (obs : Nat)
    (h : ∀ a ∈ l, sumLookbacks mrec (ts a) = some (v a)) :
    run (l.map fun a => .OBS 0 (ts a)) ⟨q, mrec, det, obs⟩ =
      some ⟨q, mrec, det, (l.map v).foldl (· ^^^ ·) obs⟩ := by
  induction l generalizing obs with
  | nil => simp [run]
  | cons a l ih =>
    simp only [List.map_cons, run, step, h a List.mem_cons_self]
    simp only [ne_eq, not_true_eq_false, if_false]
    rw [ih _ (fun x hx => h x (List.mem_cons_of_mem _ hx))]
    simp

theorem run_single {i : Ins} {s s' : St} (h : step s i = some s') : run [i] s = some s' := by
  simp [run, h]

theorem run_TICK (s : St) : run [.TICK] s = some s := rfl

end Qco.RepChain
