import QcoVerif.Lemmas.Export
/-
  The mutating listing (`decomposed_operations`) allocates nothing and is idempotent on the sequence it
  returns.  Core Lean only.
-/
namespace Qco

theorem setOp_size (w : World) (i : Nat) (o : Op) : (w.setOp i o).ops.size = w.ops.size := by
  simp [World.setOp]

theorem setLink_size (w : World) (i l : Nat) : (w.setLink i l).ops.size = w.ops.size := by
  simp [World.setLink, setOp_size]

theorem setLink_links (w : World) (i l : Nat) : (w.setLink i l).links = w.links := by
  simp [World.setLink, World.setOp]

theorem foldl_inv {α β} (P : α → Prop) (step : α → β → α) (hstep : ∀ a b, P a → P (step a b)) :
    ∀ (L : List β) (a : α), P a → P (L.foldl step a) := by
  intro L
  induction L with
  | nil => intro a h; exact h
  | cons x xs ih => intro a h; exact ih _ (hstep a x h)

/-- the listing allocates no object and no link. -/
theorem decomposed_sizes : ∀ (f c : Nat) (w : World),
    (w.decomposed f c).1.ops.size = w.ops.size ∧ (w.decomposed f c).1.links = w.links := by
  intro f
  induction f with
  | zero => intro c w; exact ⟨rfl, rfl⟩
  | succ f ih =>
    intro c w
    unfold World.decomposed
    exact foldl_inv (fun acc : World × List Nat => acc.1.ops.size = w.ops.size ∧ acc.1.links = w.links) _
      (by
        intro acc n h
        obtain ⟨w1, out⟩ := acc
        simp only at h ⊢
        have key : ∀ w2 : World, w2.ops.size = w.ops.size ∧ w2.links = w.links →
            (if (w2.op n).isComp = true then ((w2.decomposed f n).fst, out ++ (w2.decomposed f n).snd)
              else (w2, out ++ [n])).fst.ops.size = w.ops.size ∧
            (if (w2.op n).isComp = true then ((w2.decomposed f n).fst, out ++ (w2.decomposed f n).snd)
              else (w2, out ++ [n])).fst.links = w.links := by
          intro w2 h2
          by_cases hc : (w2.op n).isComp = true
          · simp only [hc, if_true]
            have := ih n w2
            exact ⟨this.1.trans h2.1, this.2.trans h2.2⟩
          · simp only [hc]
            exact h2
        by_cases hr : w1.hasRel n = true
        · simp only [hr, Bool.not_true, Bool.false_eq_true, if_false]
          exact key w1 h
        · have hr' : w1.hasRel n = false := by simpa using hr
          simp only [hr', Bool.not_false, if_true]
          exact key _ ⟨by rw [setLink_size]; exact h.1, by rw [setLink_links]; exact h.2⟩) _ (w, []) ⟨rfl, rfl⟩

theorem operations_ops_size (w : World) (c : Nat) : (w.operations c).1.ops.size = w.ops.size :=
  (decomposed_sizes w.depthFuel c w).1

theorem operations_links (w : World) (c : Nat) : (w.operations c).1.links = w.links :=
  (decomposed_sizes w.depthFuel c w).2

/-- the pure walk only reads class flags and graphs, which the listing does not touch. -/
theorem leafListing_shape {w w0 : World} (h : Shape w w0) : ∀ (f c : Nat), w.leafListing f c = w0.leafListing f c := by
  intro f
  induction f with
  | zero => intro c; rfl
  | succ f ih =>
    intro c
    unfold World.leafListing
    rw [h.graph c]
    apply flatMap_congr'
    intro n _
    rw [h.isComp n, ih n]

/-- listing twice gives the same sequence. -/
theorem operations_twice (w : World) (c : Nat) :
    ((w.operations c).1.operations c).2 = (w.operations c).2 := by
  have hs := operations_shape w c
  have h1 := (decomposed_spec w (w.operations c).1.depthFuel c (w.operations c).1 hs).2
  have hfuel : (w.operations c).1.depthFuel = w.depthFuel := by
    unfold World.depthFuel; rw [operations_ops_size]
  rw [hfuel] at h1
  have h2 := (decomposed_spec w w.depthFuel c w (Shape.refl w)).2
  show ((w.operations c).1.decomposed (w.operations c).1.depthFuel c).2 = (w.decomposed w.depthFuel c).2
  rw [hfuel, h1, h2]

end Qco
