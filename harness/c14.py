"""C14 — noise dressing only adds noise, with the configured strengths.

Lean side: `QcoVerif/Model/Noise.lean` (executable model of `apply_noise`), `QcoVerif/Properties/C14.lean`
(strip_dress, measurement_arg, idle_structure, probability bounds over the reals), driver module `noise`.

This file:
  * builds Stim circuits the exporter can produce — `to_stim` of random circuits drawn with `progs.gen_program`
    restricted to the classes the exporter supports (plus a few it silently skips), `to_stim` of the two
    repetition-code constructors (all distances 2–5, 0–4 cycles, random initial states), and a synthetic stream
    over the exporter's instruction set (REPEAT blocks, runs of TICKs, empty circuits) — plus a malformed stream
    (record / inverted targets, multi-argument instructions) on which the code raises while parsing targets;
  * draws noise settings (default and per-qubit T1/T2 as exact rationals of ns, T2/T1 on both sides of 2,
    assignment errors p/q, four operation durations incl. 0 and "a gate longer than the measurement") and index
    maps (empty, partial, full, unknown names, shared names);
  * runs `apply_noise`, compares the dressed circuit instruction by instruction (after splitting fused targets)
    with the model's answer: names, targets, literal arguments and assignment errors exactly, idle-channel
    parameters against the formula evaluated here in floats (same expression, numpy `exp`; relative tolerance
    1e-12) and against a 50-digit Decimal evaluation of the exact rationals (absolute tolerance 1e-15);
  * evaluates the property predicates on the implementation's output without the model: Stim's own
    `without_noise() == flattened()`, the strip on split instructions, bounds, per-qubit assignment errors
    (looked up here from the plain dictionaries), and the block structure with
    t = half the longest configured duration in the block — MEASUREMENTS INCLUDED (R7).
"""
from __future__ import annotations
import json
import math
import os
import random
import time
from collections import Counter
from decimal import Decimal, getcontext
from fractions import Fraction

from . import common

PROP = 'C14'
EXPORT_CLASSES = ['Reset', 'Barrier', 'Hadamard', 'Identity', 'CPhase', 'DispersiveMeasure', 'Rx180', 'Rx90', 'Rxm90',
                  'Ry180', 'Rym90', 'Ry90', 'DetectorOperation', 'LogicalObservableOperation',
                  'CoordinateShiftOperation']
SKIPPED_CLASSES = ['Wait', 'VirtualPark']          # no factory: the exporter passes over them
EXPORT_GATES_1 = ['R', 'H', 'I', 'X', 'Y', 'SQRT_X', 'SQRT_X_DAG', 'SQRT_Y', 'SQRT_Y_DAG']
ANNOT = ('DETECTOR', 'OBSERVABLE_INCLUDE', 'SHIFT_COORDS')
NOISE_NAMES = {'PAULI_CHANNEL_1', 'PAULI_CHANNEL_2', 'DEPOLARIZE1', 'DEPOLARIZE2', 'X_ERROR', 'Y_ERROR', 'Z_ERROR', 'E',
               'CORRELATED_ERROR', 'ELSE_CORRELATED_ERROR', 'HERALDED_ERASE', 'HERALDED_PAULI_CHANNEL_1'}
ARITY2 = {'CZ', 'CX', 'CY', 'CNOT', 'SWAP', 'ISWAP', 'XCX', 'XCY', 'XCZ', 'YCX', 'YCY', 'YCZ', 'ZCX', 'ZCY', 'ZCZ',
          'SQRT_XX', 'SQRT_YY', 'SQRT_ZZ', 'DEPOLARIZE2', 'PAULI_CHANNEL_2'}
ARITY0 = {'TICK', 'DETECTOR', 'OBSERVABLE_INCLUDE', 'SHIFT_COORDS', 'QUBIT_COORDS', 'MPP', 'REPEAT', 'E',
          'CORRELATED_ERROR', 'ELSE_CORRELATED_ERROR'}
NS = 10 ** 9
REL_TOL = 1e-12
ABS_TOL_EXACT = 1e-15


# ------------------------------------------------------------------------------------------ implementation access

_I = None


def impl():
    global _I
    if _I is not None:
        return _I
    import warnings
    warnings.filterwarnings('ignore')
    import types
    import numpy as np
    import stim
    from qce_circuit.addon_stim.factory_manager import to_stim
    from qce_circuit.addon_stim.noise_factory_manager import apply_noise
    from qce_circuit.addon_stim.noise_settings_manager import (
        NoiseSettings, QubitNoiseModelParameters, OperationDurationParameters)
    from qce_circuit.connectivity.intrf_channel_identifier import QubitIDObj
    _I = types.SimpleNamespace(np=np, stim=stim, to_stim=to_stim, apply_noise=apply_noise, NoiseSettings=NoiseSettings,
                               QubitNoiseModelParameters=QubitNoiseModelParameters,
                               OperationDurationParameters=OperationDurationParameters, QubitIDObj=QubitIDObj)
    return _I


def sec(fr) -> float:
    """exact rational of ns → float seconds (correctly rounded)."""
    return float(Fraction(fr) / NS)


# ------------------------------------------------------------------------------------------ settings

def gen_settings(rng: random.Random, qubits: list[int]) -> dict:
    """JSON-able settings: rationals as [num, den]; durations integers of ns."""
    def rat(fr):
        fr = Fraction(fr)
        return [fr.numerator, fr.denominator]

    def qnoise():
        t1 = Fraction(rng.choice([rng.randint(2000, 200000), rng.randint(2000, 200000), rng.randint(10 ** 5, 10 ** 6),
                                  Fraction(rng.randint(20000, 900000), rng.choice([3, 7, 10]))]))
        ratio = rng.choice([Fraction(3, 10), Fraction(1, 1), Fraction(3, 2), Fraction(2, 1), Fraction(2, 1),
                            Fraction(21, 10), Fraction(5, 2), Fraction(rng.randint(1, 40), 10)])
        t2 = t1 * ratio
        a = Fraction(rng.choice([0, 1, 5, 10, 20, rng.randint(0, 500), rng.randint(0, 500), 1000]), 1000)
        return {'t1': rat(t1), 't2': rat(t2), 'a': rat(a)}

    names = [f'D{i}' for i in range(6)] + ['X1', 'Z3', 'Dummy0']
    ind = {}
    for n in rng.sample(names, rng.randint(0, 5)):
        ind[n] = qnoise()
    mode = rng.choice(['empty', 'partial', 'full', 'full'])
    imap = {}
    pool = names + ['Unknown1', 'Unknown2']
    if mode != 'empty':
        # also indices the circuit does not use
        cand = sorted(set(qubits) | {max(qubits, default=0) + 1})
        for q in cand:
            if mode == 'full' or rng.random() < 0.5:
                imap[str(q)] = rng.choice(pool)
    mz = rng.choice([0, 100, 250, 400, 500, 1000, rng.randint(1, 2000)])
    cz = rng.choice([0, 20, 40, 60, 100, rng.randint(1, 200)])
    h = rng.choice([0, 10, 20, 40, rng.randint(1, 60), 3000])
    x = rng.choice([0, 10, 20, 30, rng.randint(1, 60)])
    return {'default': qnoise(), 'individual': ind, 'index_map': imap, 'index_mode': mode,
            'durations': {'mz': mz, 'cz': cz, 'h': h, 'x': x}}


def fr(p) -> Fraction:
    return Fraction(p[0], p[1])


def build_settings(spec: dict):
    I = impl()

    def qn(d):
        return I.QubitNoiseModelParameters(t1=sec(fr(d['t1'])), t2=sec(fr(d['t2'])), assignment_error=float(fr(d['a'])))
    dflt = spec['default']
    ns = I.NoiseSettings(
        default_t1=sec(fr(dflt['t1'])), default_t2=sec(fr(dflt['t2'])), default_assignment_error=float(fr(dflt['a'])),
        individual_noise={I.QubitIDObj(n): qn(d) for n, d in spec['individual'].items()},
        operation_durations=I.OperationDurationParameters(**{f'duration_{k}': sec(v) for k, v in spec['durations'].items()}))
    imap = {int(k): I.QubitIDObj(v) for k, v in spec['index_map'].items()}
    return ns, imap


def cfg_for(spec: dict, q: int) -> dict:
    """per-qubit parameters looked up HERE from the plain dictionaries (not through the library)."""
    name = spec['index_map'].get(str(q))
    if name is not None and name in spec['individual']:
        return spec['individual'][name]
    return spec['default']


def configured_duration(spec: dict, name: str) -> int:
    """the property's reading of 'configured operation durations': measurement, CZ, H, X; nothing else is configured."""
    d = spec['durations']
    return {'M': d['mz'], 'MZ': d['mz'], 'CZ': d['cz'], 'H': d['h'], 'X': d['x']}.get(name, 0)


def settings_tokens(spec: dict) -> list[str]:
    def q3(d):
        return ','.join(f'{d[k][0]}/{d[k][1]}' for k in ('t1', 't2', 'a'))
    ind = ';'.join(f'{n}:{q3(d)}' for n, d in sorted(spec['individual'].items())) or '-'
    imap = ';'.join(f'{k}:{v}' for k, v in sorted(spec['index_map'].items(), key=lambda kv: int(kv[0]))) or '-'
    d = spec['durations']
    return [q3(spec['default']), ind, imap, f"{d['mz']},{d['cz']},{d['h']},{d['x']}"]


# ------------------------------------------------------------------------------------------ instructions

def arity(name: str) -> int:
    return 2 if name in ARITY2 else 0 if name in ARITY0 else 1


def enc_target(t) -> str:
    if t.is_measurement_record_target:
        return f'r{t.value}'
    if t.is_qubit_target and not t.is_inverted_result_target:
        return str(t.value)
    return f'o{abs(hash(str(t))) % 1000}'


def instr_list(circuit) -> list[tuple]:
    """(name, [target tokens], [Fraction args]) of a flat circuit."""
    out = []
    for i in circuit:
        if i.name == 'REPEAT':
            raise ValueError('not flat')
        out.append((i.name, [enc_target(t) for t in i.targets_copy()], list(i.gate_args_copy())))
    return out


def split(instrs: list[tuple]) -> list[tuple]:
    out = []
    for name, ts, args in instrs:
        k = arity(name)
        if k == 0:
            out.append((name, ts, args))
        elif k == 1:
            out.extend((name, [t], args) for t in ts)
        else:
            out.extend((name, ts[j:j + 2], args) for j in range(0, len(ts), 2))
    return out


def strip(instrs: list[tuple]) -> list[tuple]:
    return [(n, ts, [] if n == 'M' else a) for n, ts, a in instrs if n not in NOISE_NAMES]


def instr_tokens(instrs: list[tuple]) -> list[str]:
    toks = []
    for name, ts, args in instrs:
        a = ','.join('%d/%d' % Fraction(x).as_integer_ratio() for x in args) or '-'
        toks.append(f"{name}|{','.join(ts) or '-'}|{a}")
    return toks


# ------------------------------------------------------------------------------------------ the formula

def clamp01(v):
    return min(max(v, 0.0), 1.0)


def ref_pauli(d_ns: int, t1: Fraction, t2: Fraction):
    """get_pauli_error(t = d/2, T1, T2) evaluated here: same expression in floats, numpy exp."""
    np = impl().np
    t = sec(d_ns) * 0.5
    if t == 0:
        return (0.0, 0.0, 0.0)
    a = float(np.exp(-t / sec(t1)))
    b = float(np.exp(-t / sec(t2)))
    px = 0.25 * (1 - a)
    pz = 0.5 * (1 - b) - 0.25 * (1 - a)
    return (clamp01(px), clamp01(px), clamp01(pz))


def exact_pauli(d_ns: int, t1: Fraction, t2: Fraction):
    """the same formula on the exact rationals with 50 digits."""
    getcontext().prec = 50
    if d_ns == 0:
        return (0.0, 0.0, 0.0)
    t = Decimal(d_ns) / 2

    def e(T):
        return (-(t * T.denominator) / Decimal(T.numerator)).exp()
    a, b = e(t1), e(t2)
    px = (1 - a) / 4
    pz = (1 - b) / 2 - (1 - a) / 4
    cl = lambda v: float(min(max(v, Decimal(0)), Decimal(1)))
    return (cl(px), cl(px), cl(pz))


def close(u: float, v: float) -> bool:
    return u == v or abs(u - v) <= REL_TOL * max(abs(u), abs(v))


# ------------------------------------------------------------------------------------------ predicates on the implementation

def predicates(I, circuit, out, flat_in, out_split, spec) -> list[str]:
    """property predicates evaluated directly on the implementation's output. Returns names of the failed ones."""
    bad = []
    # strip: Stim's own notion, and ours on split instructions
    flat = circuit.flattened()
    if out.without_noise() != flat.without_noise() or \
            (not any(n in NOISE_NAMES or (n == 'M' and a) for n, _, a in flat_in) and out.without_noise() != flat):
        bad.append('strip_dress(stim.without_noise)')
    in_split = split(flat_in)
    if strip(out_split) != strip(in_split):
        bad.append('strip_dress')
    # bounds
    for n, ts, a in out_split:
        if n == 'PAULI_CHANNEL_1':
            if len(a) != 3 or not all(0.0 <= p <= 1.0 for p in a) or not (a[0] + a[1] + a[2] <= 1.0):
                bad.append('pauli_bounds')
                break
        if n == 'M' and not (len(a) == 1 and 0.0 <= a[0] <= 1.0):
            bad.append('measurement_arg(bounds)')
            break
    # measurement args
    for n, ts, a in out_split:
        if n == 'M':
            want = float(fr(cfg_for(spec, int(ts[0]))['a']))
            if len(a) != 1 or a[0] != want:
                bad.append('measurement_arg')
                break
    # block structure and durations
    targets = sorted({int(t) for n, ts, a in flat_in if n not in ANNOT for t in ts})
    blocks = [[]]
    for ins in in_split:
        blocks[-1].append(ins)
        if ins[0] == 'TICK':
            blocks.append([])
    pos = 0
    ok = True

    def noise_ok(ins, q, d):
        if ins[0] != 'PAULI_CHANNEL_1' or ins[1] != [str(q)] or len(ins[2]) != 3:
            return False
        c = cfg_for(spec, q)
        ref = ref_pauli(d, fr(c['t1']), fr(c['t2']))
        ex = exact_pauli(d, fr(c['t1']), fr(c['t2']))
        return all(close(u, v) for u, v in zip(ins[2], ref)) and all(abs(u - v) <= ABS_TOL_EXACT for u, v in zip(ins[2], ex))

    for blk in blocks:
        d = max([configured_duration(spec, n) for n, _, _ in blk], default=0)
        need = len(targets) * 2 + len(blk)
        seg = out_split[pos:pos + need]
        pos += need
        if len(seg) != need:
            ok = False
            break
        k = len(targets)
        if not all(noise_ok(seg[j], q, d) for j, q in enumerate(reversed(targets))):
            ok = False
            break
        if not all(noise_ok(seg[k + len(blk) + j], q, d) for j, q in enumerate(targets)):
            ok = False
            break
        if strip(seg[k:k + len(blk)]) != strip(blk):
            ok = False
            break
    if not ok or pos != len(out_split):
        bad.append('idle_structure/block_duration')
    return bad


# ------------------------------------------------------------------------------------------ one case

def run_case(case: dict) -> dict:
    """case: {'stim': text, 'settings': spec, 'source': label}. Runs the implementation, evaluates the predicates,
    prepares the model query. JSON-able result."""
    I = impl()
    res = {'source': case['source'], 'fails': [], 'impl_error': None}
    circuit = I.stim.Circuit(case['stim'])
    spec = case['settings']
    flat = circuit.flattened()
    flat_in = instr_list(flat)
    res['line'] = 'noise dress ' + ' '.join(settings_tokens(spec) + instr_tokens(flat_in))
    ns, imap = build_settings(spec)
    # A defaults sweep: ANOTHER settings object over the SAME overrides dictionary (what `dataclasses.replace` gives) dresses the
    # circuit first.  What `ns` says afterwards must not depend on it (seeded change C14-m7: a lookup that writes the defaults of the
    # object at hand into the shared dictionary).
    try:
        import dataclasses as _dc
        other = _dc.replace(ns, default_assignment_error=0.5 - ns.default_assignment_error / 2,
                            default_t1=ns.default_t1 * 3 + 1e-6, default_t2=ns.default_t2 * 2 + 1e-6)
        I.apply_noise(circuit, imap, noise_settings=other)
    except Exception:   # noqa — the warm-up is not what is judged
        pass
    try:
        out = I.apply_noise(circuit, imap, noise_settings=ns)
    except Exception as e:   # noqa
        res['impl_error'] = f'{type(e).__name__}: {str(e)[:100]}'
        res['impl'] = None
        return res
    out_split = split(instr_list(out))
    res['impl'] = [[n, ts, list(a)] for n, ts, a in out_split]
    res['fails'] = predicates(I, circuit, out, flat_in, out_split, spec)
    names = Counter(n for n, _, _ in flat_in)
    res['n_instr'] = len(flat_in)
    res['n_ticks'] = names.get('TICK', 0)
    res['n_meas'] = sum(len(ts) for n, ts, _ in flat_in if n == 'M')
    res['n_qubits'] = len({t for n, ts, a in flat_in if n not in ANNOT for t in ts})
    res['has_repeat'] = 'REPEAT' in case['stim']
    res['names'] = dict(names)
    return res


def parse_model(ans: str):
    """model answer → ('error', None) | ('ok', [(name, targets, args)]) with args as tagged tuples."""
    if ans == 'error':
        return 'error', None, None
    if not ans.startswith('ok'):
        return 'bad', ans, None
    body, _, tail = ans[2:].partition('#')
    out = []
    for tok in body.split():
        n, t, a = tok.split('|')
        ts = [] if t == '-' else t.split(',')
        args = []
        if a != '-':
            for x in a.split(','):
                if x[0] == 'l':
                    args.append(('l', Fraction(x[1:])))
                elif x[0] == 'a':
                    args.append(('a', Fraction(x[1:])))
                else:
                    ax, d, t1, t2 = x.split(':')
                    args.append((ax, int(d), Fraction(t1), Fraction(t2)))
        out.append((n, ts, args))
    return 'ok', out, tail.strip()


def compare(res: dict, ans: str):
    """first difference between implementation and model, or None."""
    kind, mo, _ = parse_model(ans)
    if kind == 'bad':
        return {'where': 'driver', 'model': str(mo)[:200]}
    if res['impl'] is None:
        if kind == 'error' and res['impl_error'].startswith('ValueError'):
            return None
        return {'where': 'raises', 'implementation': res['impl_error'], 'model': kind}
    if kind == 'error':
        return {'where': 'raises', 'implementation': 'no exception', 'model': 'error'}
    im = res['impl']
    if len(im) != len(mo):
        return {'where': 'length', 'implementation': len(im), 'model': len(mo)}
    for j, ((n, ts, a), (mn, mts, ma)) in enumerate(zip(im, mo)):
        if n != mn or ts != mts or len(a) != len(ma):
            return {'where': j, 'implementation': [n, ts, a], 'model': [mn, mts, [str(x) for x in ma]]}
        for k, (u, v) in enumerate(zip(a, ma)):
            if v[0] == 'l':
                same = Fraction(u) == v[1]
            elif v[0] == 'a':
                same = (u == float(v[1]))
            else:
                comp = {'px': 0, 'py': 1, 'pz': 2}[v[0]]
                ref = ref_pauli(v[1], v[2], v[3])[comp]
                ex = exact_pauli(v[1], v[2], v[3])[comp]
                same = close(u, ref) and abs(u - ex) <= ABS_TOL_EXACT
            if not same:
                return {'where': j, 'arg': k, 'implementation': [n, ts, a], 'model': [mn, mts, [str(x) for x in ma]]}
    return None


# ------------------------------------------------------------------------------------------ circuit sources

def circuits_from_programs(rng: random.Random, n: int) -> list[tuple[str, str]]:
    from . import progs
    I = impl()
    weights = [2, 4, 3, 1, 4, 5, 3, 1, 1, 1, 1, 1, 2, 1, 1] + [1, 1]
    cfg = progs.GenConfig(classes=EXPORT_CLASSES + SKIPPED_CLASSES, class_weights=weights, n_cmds=(4, 34), nq=4,
                          p_list=0.0, p_apply=0.03, p_flatten=0.02, p_copy=0.0, p_gdur=0.0, p_setreg=0.03,
                          p_new=0.12, p_sub=0.14, reps=[1, 1, 2, 3], final_list=False)
    out = []
    tries = 0
    while len(out) < n and tries < 20 * n + 50:
        tries += 1
        prog = progs.gen_program(random.Random(rng.getrandbits(64)), cfg)
        r = progs.ImplRun()
        try:
            for cmd in prog:
                r.step(cmd)
        except Exception:   # noqa  (a build error is not this property's business)
            pass
        finally:
            r.close()
        for c in r.circs:
            try:
                s = I.to_stim(c)
            except Exception:   # noqa
                continue
            if len(s) == 0 and rng.random() < 0.9:
                continue
            out.append(('to_stim(random build program)', str(s)))
            if len(out) >= n:
                break
    return out


def circuits_from_library(rng: random.Random, n: int) -> list[tuple[str, str, dict]]:
    I = impl()
    from qce_circuit.language.intrf_declarative_circuit import InitialStateEnum
    from qce_circuit import InitialStateContainer
    from qce_circuit.library.repetition_code.circuit_constructors import (
        construct_repetition_code_circuit, construct_repetition_code_circuit_simplified)
    from qce_circuit.library.repetition_code.circuit_components import RepetitionCodeDescription
    out = []
    for k in range(n):
        dist = 2 + (k % 4)
        cycles = (k // 4) % 5
        st = InitialStateContainer.from_ordered_list(
            [rng.choice([InitialStateEnum.ZERO, InitialStateEnum.ONE]) for _ in range(dist)])
        simplified = (k % 3 == 2)
        try:
            if simplified:
                c = construct_repetition_code_circuit_simplified(qec_cycles=max(cycles, 1), initial_state=st)
            else:
                c = construct_repetition_code_circuit(qec_cycles=cycles, initial_state=st)
            s = I.to_stim(c)
            cmap = RepetitionCodeDescription.from_initial_state(initial_state=st).circuit_channel_map
        except Exception as e:   # noqa
            common.log(f'library constructor failed: {type(e).__name__}: {e}')
            continue
        label = 'to_stim(construct_repetition_code_circuit%s)' % ('_simplified' if simplified else '')
        out.append((label, str(s), {str(i): q.id for i, q in cmap.items()}))
    return out


def synthetic_circuit(rng: random.Random) -> str:
    """random text over the exporter's instruction set."""
    nq = rng.randint(1, 5)
    lines = []

    def body(n, depth):
        nmeas = 0
        for _ in range(n):
            r = rng.random()
            if r < 0.22:
                lines.append('TICK')
            elif r < 0.30 and depth < 2:
                cnt = rng.randint(1, 3)
                lines.append(f'REPEAT {cnt} {{')
                k = body(rng.randint(1, 4), depth + 1)
                if lines[-1].startswith('REPEAT'):
                    lines.append('TICK')
                lines.append('}')
                nmeas += k * cnt
            elif r < 0.45:
                qs = rng.sample(range(nq), rng.randint(1, nq))
                lines.append('M ' + ' '.join(map(str, qs)))
                nmeas += len(qs)
            elif r < 0.58 and nq >= 2:
                k = rng.randint(1, 2)
                ts = []
                for _ in range(k):
                    ts += rng.sample(range(nq), 2)
                lines.append('CZ ' + ' '.join(map(str, ts)))
            elif r < 0.66 and nmeas > 0 and depth == 0:
                k = rng.randint(1, min(3, nmeas))
                recs = ' '.join(f'rec[-{j}]' for j in rng.sample(range(1, nmeas + 1), k))
                lines.append(rng.choice([f'DETECTOR({rng.randint(0, 4)}, 0) {recs}', f'OBSERVABLE_INCLUDE(0) {recs}']))
            elif r < 0.70:
                lines.append(f'SHIFT_COORDS({rng.randint(0, 2)}, {rng.randint(0, 2)})')
            else:
                g = rng.choice(EXPORT_GATES_1 + ['H', 'X', 'H'])
                qs = [rng.randrange(nq) for _ in range(rng.randint(1, 4))]
                lines.append(g + ' ' + ' '.join(map(str, qs)))
        return nmeas
    body(rng.choice([0, 1, 2, 4, 8, 14]), 0)
    return '\n'.join(lines)


MALFORMED = ['M !0', 'M 0\nCX rec[-1] 1', 'QUBIT_COORDS(0, 1) 0\nH 0', 'H 0\nTICK\nMPP X0*X1', 'PAULI_CHANNEL_1(0.1, 0, 0) 0',
             'M 0 !1\nTICK', 'R 0\nTICK\nCZ rec[-1] 0']


def qubits_of_text(text: str) -> list[int]:
    I = impl()
    qs = set()
    for n, ts, a in instr_list(I.stim.Circuit(text).flattened()):
        if n not in ANNOT:
            qs.update(int(t) for t in ts if t.isdigit())
    return sorted(qs)


def gen_cases(rng: random.Random, tier: str) -> list[dict]:
    n_prog, n_lib, n_syn, per = (260, 40, 260, 2) if tier == 'quick' else (6000, 400, 8000, 3)
    cases = []
    for label, text in circuits_from_programs(rng, n_prog):
        qs = qubits_of_text(text)
        for _ in range(per):
            cases.append({'source': label, 'stim': text, 'settings': gen_settings(rng, qs)})
    for label, text, cmap in circuits_from_library(rng, n_lib):
        qs = qubits_of_text(text)
        for j in range(per):
            s = gen_settings(rng, qs)
            if j == 0:               # the library's own index map
                s['index_map'] = cmap
                s['index_mode'] = 'library'
            cases.append({'source': label, 'stim': text, 'settings': s})
    for _ in range(n_syn):
        text = synthetic_circuit(rng)
        cases.append({'source': 'synthetic over the exporter instruction set', 'stim': text,
                      'settings': gen_settings(rng, qubits_of_text(text))})
    for text in MALFORMED:
        cases.append({'source': 'malformed', 'stim': text, 'settings': gen_settings(rng, [0, 1])})
    return cases


def load_corpus() -> list[dict]:
    d = common.CORPUS / PROP
    out = []
    if d.exists():
        for f in sorted(d.glob('*.json')):
            try:
                doc = json.loads(f.read_text())
                out.append({'source': f'corpus/{f.name}', 'stim': doc['stim'], 'settings': doc['settings']})
            except Exception:   # noqa
                common.log(f'corpus file unreadable: {f}')
    return out


# ------------------------------------------------------------------------------------------ shrinking

def shrink(case: dict, still_bad) -> dict:
    """delta-debugging over the lines of the flattened circuit, then the settings' dictionaries."""
    I = impl()
    lines = str(I.stim.Circuit(case['stim']).flattened()).split('\n')
    cur = dict(case)

    def ok(ls):
        try:
            I.stim.Circuit('\n'.join(ls))
        except Exception:   # noqa
            return False
        cand = dict(cur, stim='\n'.join(ls))
        try:
            return still_bad(cand)
        except Exception:   # noqa
            return False
    if not ok(lines):
        return case
    changed = True
    while changed and len(lines) > 1:
        changed = False
        for j in range(len(lines) - 1, -1, -1):
            cand = lines[:j] + lines[j + 1:]
            if ok(cand):
                lines = cand
                changed = True
    cur['stim'] = '\n'.join(lines)
    for key in ('individual', 'index_map'):
        for k in list(cur['settings'][key]):
            s2 = json.loads(json.dumps(cur['settings']))
            del s2[key][k]
            cand = dict(cur, settings=s2)
            try:
                if still_bad(cand):
                    cur = cand
            except Exception:   # noqa
                pass
    return cur


def evaluate(cases: list[dict]) -> list[dict]:
    """implementation + predicates + model + comparison for a list of cases."""
    res = [run_case(c) for c in cases]
    answers = common.run_driver([r['line'] for r in res])
    for r, a in zip(res, answers):
        r['model'] = a
        r['dis'] = compare(r, a)
    return res


def _worker(chunk):
    return [run_case(c) for c in chunk]


def run_cases_parallel(cases: list[dict]) -> list[dict]:
    n = min(16, os.cpu_count() or 1)
    if len(cases) < 400 or n <= 1:
        return [run_case(c) for c in cases]
    import multiprocessing as mp
    size = (len(cases) + 4 * n - 1) // (4 * n)
    chunks = [cases[i:i + size] for i in range(0, len(cases), size)]
    with mp.get_context('fork').Pool(n) as pool:
        parts = pool.map(_worker, chunks)
    return [r for p in parts for r in p]


# ------------------------------------------------------------------------------------------ the run

def table_check(oc) -> dict:
    """the model's duration table against the live `duration_mapper`."""
    I = impl()
    live = I.OperationDurationParameters(duration_mz=sec(101), duration_cz=sec(103), duration_h=sec(107),
                                         duration_x=sec(109)).duration_mapper
    back = {sec(101): 101, sec(103): 103, sec(107): 107, sec(109): 109}
    live_i = {k: back.get(v, v) for k, v in live.items()}
    ans = common.run_driver(['noise table 101 103 107 109'])[0]
    model = {kv.split('=')[0]: int(kv.split('=')[1]) for kv in ans.split(',')} if '=' in ans else {'<bad>': ans}
    dflt = I.OperationDurationParameters().default_duration
    return {'live': live_i, 'model': model, 'default_duration': dflt, 'agree': live_i == model and dflt == 0.0}


def run(tier: str, seed: int) -> int:
    t0 = time.time()
    oc = common.Outcome(PROP)
    lean = common.proof_obligations(PROP)
    proof_ok = lean['build_ok'] and not lean['failed']
    if not common.driver_available():
        print(f'model driver missing: {lean.get("build_output", "")[-800:]}')
        return 2
    rng = common.rng_for(seed, PROP)
    I = impl()
    corpus = load_corpus()
    cases = corpus + gen_cases(rng, tier)
    t_gen = time.time() - t0
    res = run_cases_parallel(cases)
    try:
        answers = common.run_driver([r['line'] for r in res])
    except common.LeanFailure as e:
        print(f'driver failure: {e.output[-600:]}')
        return 2
    tab = table_check(oc)

    n_dis = 0
    dist = Counter()
    names = Counter()
    modes = Counter()
    nontrivial = set()
    distinct = set()
    impl_errors = Counter()
    reported = set()
    regime = Counter()
    for case, r, a in zip(cases, res, answers):
        r['model'] = a
        r['dis'] = compare(r, a)
        key = r['line']
        distinct.add(key)
        dist[r['source']] += 1
        modes[case['settings'].get('index_mode', '?')] += 1
        if r['impl'] is None:
            impl_errors[r['impl_error'].split(':')[0]] += 1
        else:
            for k, v in r['names'].items():
                names[k] += v
            if r['n_ticks'] >= 1 and r['n_meas'] >= 1 and r['n_qubits'] >= 2:
                nontrivial.add(key)
            dist['with REPEAT'] += int(r['has_repeat'])
            dist['with >= 1 measurement'] += int(r['n_meas'] >= 1)
            dist['with >= 2 blocks'] += int(r['n_ticks'] >= 1)
        for q in [case['settings']['default']] + list(case['settings']['individual'].values()):
            regime['T2 > 2*T1 (pz clamp active for short t)' if fr(q['t2']) > 2 * fr(q['t1']) else 'T2 <= 2*T1'] += 1

        # 1. predicate fails on the implementation's own answer
        for what in r['fails']:
            if what in reported:
                continue
            reported.add(what)

            def still(c, what=what):
                return what in run_case(c)['fails']
            small = shrink(case, still)
            rr = evaluate([small])[0]
            oc.violation({'property': PROP, 'kind': 'predicate-fails-on-implementation', 'failure': what,
                          'stim': small['stim'], 'settings': small['settings'],
                          'implementation_answer': rr['impl'], 'model_answer': rr['model'],
                          'how_to_replay': 'apply_noise(stim.Circuit(stim), index_map, noise_settings=build_settings(settings)) '
                                           '— harness/c14.py: run_case'})
        # 2. model and implementation disagree
        if r['dis'] is not None:
            n_dis += 1
            if 'dis' in reported or r['fails']:
                continue
            reported.add('dis')

            def still_dis(c):
                return evaluate([c])[0]['dis'] is not None
            small = shrink(case, still_dis)
            rr = evaluate([small])[0]
            oc.violation({'property': PROP, 'kind': 'correspondence-broken',
                          'unchecked': 'model (Model/Noise.lean dress) <-> apply_noise',
                          'stim': small['stim'], 'settings': small['settings'], 'first_difference': rr['dis'],
                          'implementation_answer': rr['impl'], 'implementation_error': rr['impl_error'],
                          'model_answer': rr['model'], 'predicate_failures': rr['fails']},
                         found_input=bool(rr['fails']))
    if not tab['agree'] and not oc.violations:
        # the table differs and no generated input violated the property: search with a measurement-only block
        probe = {'source': 'probe', 'stim': 'M 0\nTICK\nCZ 0 1\nTICK\nH 0\nTICK\nX 1\nTICK',
                 'settings': gen_settings(common.rng_for(seed, 'probe'), [0, 1])}
        pr = run_case(probe)
        oc.violation({'property': PROP, 'kind': 'correspondence-broken', 'unchecked': 'duration table', 'table': tab,
                      'stim': probe['stim'], 'settings': probe['settings'], 'predicate_failures': pr['fails']},
                     found_input=bool(pr['fails']))
    if not proof_ok and not oc.violations:
        oc.violation({'property': PROP, 'kind': 'proof-obligation-broken', 'unchecked': lean.get('failed'),
                      'build_output': lean.get('build_output', '')[-3000:], 'axioms': lean.get('axioms')},
                     found_input=False)

    wall = time.time() - t0
    sample_idx = [i for i, r in enumerate(res) if r['impl'] is not None and r['n_meas'] and r['n_ticks']][:2] or [0]
    coverage = {}
    if lean['obligations']:
        coverage.update({'obligations': lean['obligations'], 'discharged': lean['discharged']})
    coverage.update({
        'checker_cmd': lean['checker_cmd'],
        'trusted_base': common.TRUSTED_BASE + [
            'stim: Circuit.flattened(), instruction canonical names, fusion on append (made invisible by splitting targets)',
            'numpy exp / float rounding: probabilities compared with relative tolerance 1e-12 to the same float expression '
            'and absolute 1e-15 to a 50-digit evaluation; the real-valued theorems are about Real.exp'],
        'theorems': lean.get('theorems', []),
        'axioms': lean.get('axioms', {}),
        'evaluations': len(res),
        'distinct_nontrivial': len(nontrivial),
        'distinct_cases': len(distinct),
        'rule': 'case = (Stim circuit, noise settings, index map); circuits from to_stim of random build programs over the '
                'exporter-supported classes, to_stim of the repetition-code constructors, a synthetic stream over the exporter '
                'instruction set, a malformed stream; non-trivial = the implementation answered, the flattened circuit has '
                '>= 1 TICK, >= 1 measurement and >= 2 qubits; distinct = distinct (settings, flattened circuit) text',
        'samples': [{'stim': cases[i]['stim'], 'settings': cases[i]['settings'], 'source': cases[i]['source']}
                    for i in sample_idx],
        'traces_validated_against_impl': len(res) - n_dis,
        'disagreements': n_dis,
        'predicate_failures': sum(1 for r in res if r['fails']),
        'implementation_exceptions': dict(impl_errors),
        'corpus_cases': len(corpus),
        'duration_table': tab,
        'input_distribution': {'source': dict(dist), 'instruction_names': dict(names), 'index_map_mode': dict(modes),
                               'qubit_parameter_regime': dict(regime)},
        'tolerances': {'relative_vs_float_formula': REL_TOL, 'absolute_vs_exact': ABS_TOL_EXACT},
        'known_findings_printed': oc.known,
        'timing': {'generation_s': round(t_gen, 1)},
        'lean': {k: lean.get(k) for k in ('build_ok', 'build_s', 'lean_s', 'failed', 'forbidden_hits', 'translator')},
    })
    common.write_evidence(PROP, tier, seed, coverage, wall, len(oc.violations),
                          ['T1, T2 != 0 and positive (the code divides by them); assignment errors in [0, 1] (Stim rejects others)',
                           'operation durations >= 0',
                           'the circuit is one the exporter can produce: gates R H I X Y SQRT_X(_DAG) SQRT_Y(_DAG) CZ M, TICK, '
                           'DETECTOR, OBSERVABLE_INCLUDE, SHIFT_COORDS, REPEAT; other instructions only in the malformed stream',
                           'only MZ/M, CZ, H, X have a configured duration; every other gate counts 0 (as the code does)'])
    return oc.emit()


def replay(doc: dict) -> int:
    """re-runs one replay file (`./check replay <path>`): 1 = still violates / disagrees, 0 = passes now."""
    if 'stim' not in doc:
        print('replay names a broken proof obligation or table, not an input: re-run ./check C14')
        return run('quick', common.seed_from_env(0))
    r = evaluate([{'source': 'replay', 'stim': doc['stim'], 'settings': doc['settings']}])[0]
    print(json.dumps({'predicate_failures': r['fails'], 'first_difference': r['dis'], 'implementation_error': r['impl_error']},
                     default=str))
    return 1 if (r['fails'] or r['dis'] is not None) else 0
