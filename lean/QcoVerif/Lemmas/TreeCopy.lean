import QcoVerif.Lemmas.TreeHeap
/-
  The general copy lemma: `World.copyObj` on a tree-shaped heap returns a FRESH tree with the same count-expanded
  multiset of leaf signatures and the same repetition strategy, and writes no object that existed (`copyObj_tree`).
  On the way: `add` of a separated tree to a composite keeps the forest of its nodes (`add_forest`).  Core Lean only.
-/
namespace Qco

theorem op_eq_noLink {w w' : World} {j : Nat} (h : w'.op j = w.op j) : (w'.op j).noLink = (w.op j).noLink := by
  rw [h]

/-- **adding a separated tree**: if the nodes of `c` form a forest, `o` is a tree sharing no object with them, and `c`
    occurs in none of these trees, then after `add c o` the nodes `kids c ++ [o]` form a forest with the same objects
    below every node and the same expansions. -/
theorem add_forest (w : World) (f c o : Nat) (hc : c < w.ops.size) (hF : Forest w f (w.kids c))
    (hcK : ∀ n ∈ w.kids c, c ∉ w.below f n) (ho : TreeBelow w f o) (hco : c ∉ w.below f o)
    (hd : ∀ a ∈ w.kids c, ∀ j, j ∈ w.below f a → j ∉ w.below f o) :
    (w.add c o).kids c = w.kids c ++ [o] ∧ Forest (w.add c o) f (w.kids c ++ [o]) ∧
    (∀ n ∈ w.kids c ++ [o], (w.add c o).below f n = w.below f n ∧ (w.add c o).expand f n = w.expand f n) ∧
    (∀ n ∈ w.kids c ++ [o], ∀ j ∈ w.below f n, ((w.add c o).op j).noLink = (w.op j).noLink) := by
  obtain ⟨a1, a2, _, _, _, a6⟩ := add_spec w c o hc
  have hF2 : Forest w f (w.kids c ++ [o]) := by
    refine hF.append (Forest.single ho) ?_
    intro a ha b hb
    simp only [List.mem_singleton] at hb
    subst hb
    exact hd a ha
  have hne : ∀ n ∈ w.kids c ++ [o], ∀ j ∈ w.below f n, j ≠ c := by
    intro n hn j hj hjc
    subst hjc
    rcases List.mem_append.mp hn with hn | hn
    · exact hcK n hn hj
    · simp only [List.mem_singleton] at hn
      subst hn; exact hco hj
  have hsame : ∀ n ∈ w.kids c ++ [o], ∀ j ∈ w.below f n, ((w.add c o).op j).noLink = (w.op j).noLink :=
    fun n hn j hj => a6 j (hne n hn j hj)
  obtain ⟨hF3, hb3⟩ := hF2.congr (Nat.le_of_eq a1.symm) hsame
  refine ⟨add_kids w c o hc, hF3, ?_, hsame⟩
  intro n hn
  exact ⟨hb3 n hn, expand_congr w (w.add c o) a2 f n (hsame n hn)⟩

/-! ### the result of a copy -/

/-- what `copyObj` returns on a tree `o` of depth ≤ `f`: a fresh tree `cp` (the first new object), nothing old written,
    same expansion, same kind and repetition strategy. -/
structure TreeCopySpec (w : World) (f o : Nat) (w' : World) (cp : Nat) : Prop where
  id : cp = w.ops.size
  size : w.ops.size < w'.ops.size
  old : ∀ j, j < w.ops.size → w'.op j = w.op j
  rreg : w'.rreg = w.rreg
  tree : TreeBelow w' f cp
  fresh : ∀ j ∈ w'.below f cp, w.ops.size ≤ j
  kind : (w'.op cp).isComp = (w.op o).isComp
  rep : (w.op o).isComp = true → (w'.op cp).rep = (w.op o).rep
  expand : (w'.expand f cp).Perm (w.expand f o)
  content : ∀ f', f = f' + 1 → (w.op o).isComp = true → (w'.content f' cp).Perm (w.content f' o)
  shape : ∀ cnt : Rep → Nat, (w'.expandWith cnt f cp).Perm (w.expandWith cnt f o)

theorem copyLeaf_new (w : World) (o : Nat) (lk : Lookup) :
    ∃ l r, (w.copyLeaf o lk).1.op w.ops.size = { (w.op o).copyFields with link := l, reg := r } := by
  have hsz : (w.copyLink (w.op o).link lk).1.ops.size = w.ops.size := by
    rw [(C05.copyLink_frame w (w.op o).link lk).1]
  unfold World.copyLeaf
  simp only [C05.copy_keeps_link_all_classes, if_true]
  refine ⟨(w.copyLink (w.op o).link lk).2,
    (if (w.op o).cls == .measure then
      (lk.get? ((w.copyLink (w.op o).link lk).1.eqKey (w.op o).reg)).getD (w.op o).reg
      else (w.op o).copyFields.reg), ?_⟩
  rw [← hsz]
  exact C05.newOp_op_new _ _

/-- the copy of a leaf of a tree. -/
theorem copyLeaf_tree (w : World) (f o : Nat) (lk : Lookup) (ht : TreeBelow w (f + 1) o)
    (hl : (w.op o).isComp = false) : TreeCopySpec w (f + 1) o (w.copyLeaf o lk).1 (w.copyLeaf o lk).2 := by
  obtain ⟨c1, c2, c3, c4, c5, _⟩ := copyLeaf_spec w o lk
  obtain ⟨l, r, hnew⟩ := copyLeaf_new w o lk
  have hleaf' : ((w.copyLeaf o lk).1.op w.ops.size).isComp = false := by
    unfold Op.isComp at hl ⊢; rw [c5]; exact hl
  have hst := ht.stable hl
  have hsig : ((w.copyLeaf o lk).1.op w.ops.size).sig = (w.op o).sig := by
    rw [hnew]; exact hst
  rw [c1]
  refine ⟨rfl, by omega, c4, c3, ?_, ?_, ?_, ?_, ?_, ?_, ?_⟩
  · refine TreeBelow.leaf_intro (by omega) hleaf' ?_
    rw [hnew]
    exact copyFields_idem (w.op o) l r
  · intro j hj
    rw [below_leaf _ f _ hleaf'] at hj
    simp only [List.mem_singleton] at hj
    omega
  · rw [hleaf', hl]
  · intro h; rw [hl] at h; cases h
  · rw [expand_leaf _ f _ hleaf', expand_leaf _ f _ hl, hsig]
  · intro f' _ h; rw [hl] at h; cases h
  · intro cnt
    simp only [World.expandWith, hleaf', hl, Bool.false_eq_true, if_false]
    rw [hsig]

/-! ### the copy loop of a composite -/

/-- invariant of the copy loop: `res = w0.ops.size` is the new composite, `done` the nodes of the original copied so
    far; the nodes of `res` form a forest of fresh trees whose expansions are those of `done`. -/
structure TreeCopyInv (w0 : World) (res f : Nat) (rep : Rep) (wi : World) (done : List Nat) : Prop where
  size : res < wi.ops.size
  old : ∀ j, j < res → wi.op j = w0.op j
  rreg : wi.rreg = w0.rreg
  cls : (wi.op res).isComp = true
  rep : (wi.op res).rep = rep
  forest : Forest wi f (wi.kids res)
  range : ∀ n ∈ wi.kids res, ∀ j ∈ wi.below f n, res < j
  perm : ((wi.kids res).flatMap (wi.expand f)).Perm (done.flatMap (w0.expand f))
  permW : ∀ cnt : Rep → Nat,
    ((wi.kids res).flatMap (wi.expandWith cnt f)).Perm (done.flatMap (w0.expandWith cnt f))

theorem copyInv_step (w0 : World) (res f : Nat) (rep : Rep) (wi : World) (done : List Nat) (n : Nat)
    (hres : res = w0.ops.size) (hi : TreeCopyInv w0 res f rep wi done) (hn : TreeBelow w0 f n)
    (w1 : World) (cp : Nat) (hcs : TreeCopySpec wi f n w1 cp)
    (w2 : World) (hops : w2.ops = w1.ops) (hrr : w2.rreg = w1.rreg) :
    TreeCopyInv w0 res f rep (w2.add res cp) (done ++ [n]) := by
  have hop2 : ∀ j, w2.op j = w1.op j := op_congr hops
  have hsz2 : w2.ops.size = w1.ops.size := by rw [hops]
  have hresop : w2.op res = wi.op res := (hop2 res).trans (hcs.old res hi.size)
  have hK : w2.kids res = wi.kids res := by unfold World.kids; rw [hresop]
  have hres2 : res < w2.ops.size := by rw [hsz2]; exact Nat.lt_trans hi.size hcs.size
  -- the forest of the nodes copied so far, seen in `w2`
  have hKlt : ∀ a ∈ wi.kids res, ∀ j ∈ wi.below f a, j < wi.ops.size :=
    fun a ha => below_lt wi f a (hi.forest.tree a ha)
  obtain ⟨hF2, hb2⟩ := hi.forest.congr (w' := w2) (by rw [hsz2]; exact Nat.le_of_lt hcs.size)
    (fun a ha j hj => op_eq_noLink ((hop2 j).trans (hcs.old j (hKlt a ha j hj))))
  have hx2 : ∀ a ∈ wi.kids res, w2.expand f a = wi.expand f a := fun a ha =>
    expand_congr wi w2 (hrr.trans hcs.rreg) f a
      (fun j hj => op_eq_noLink ((hop2 j).trans (hcs.old j (hKlt a ha j hj))))
  -- the new tree, seen in `w2`
  have hcp2 : TreeBelow w2 f cp := tree_congr w1 w2 (Nat.le_of_eq hsz2.symm) f cp hcs.tree
    (fun j _ => op_eq_noLink (hop2 j))
  have hbcp : w2.below f cp = w1.below f cp := below_congr w1 w2 f cp (fun j _ => op_eq_noLink (hop2 j))
  have hxcp : w2.expand f cp = w1.expand f cp := expand_congr w1 w2 hrr f cp (fun j _ => op_eq_noLink (hop2 j))
  -- the original node is untouched so far
  have hnlt : ∀ j ∈ w0.below f n, j < res := fun j hj => hres ▸ below_lt w0 f n hn j hj
  have hxn : wi.expand f n = w0.expand f n := expand_congr w0 wi hi.rreg f n
    (fun j hj => op_eq_noLink (hi.old j (hnlt j hj)))
  have hsame2 : ∀ a ∈ wi.kids res, ∀ j ∈ wi.below f a, (w2.op j).noLink = (wi.op j).noLink :=
    fun a ha j hj => op_eq_noLink ((hop2 j).trans (hcs.old j (hKlt a ha j hj)))
  have hnsame : ∀ j ∈ w0.below f n, (wi.op j).noLink = (w0.op j).noLink :=
    fun j hj => op_eq_noLink (hi.old j (hnlt j hj))
  obtain ⟨k1, k2, k3, k4⟩ := add_forest w2 f res cp hres2 (hK ▸ hF2)
    (by
      intro a ha hmem
      rw [hK] at ha
      rw [hb2 a ha] at hmem
      exact Nat.lt_irrefl _ (hi.range a ha res hmem))
    hcp2
    (by
      intro hmem
      rw [hbcp] at hmem
      have := hcs.fresh res hmem
      have := hi.size
      omega)
    (by
      intro a ha j hja hjc
      rw [hK] at ha
      rw [hb2 a ha] at hja
      rw [hbcp] at hjc
      have := hKlt a ha j hja
      have := hcs.fresh j hjc
      omega)
  obtain ⟨a1, a2, _, a4, a5, _⟩ := add_spec w2 res cp hres2
  rw [hK] at k1 k2 k3 k4
  refine ⟨?_, ?_, ?_, ?_, ?_, ?_, ?_, ?_, ?_⟩
  · rw [a1]; exact hres2
  · intro j hj
    have h1 : j ≠ res := by omega
    have h2 : j ≠ cp := by have := hcs.id; have := hi.size; omega
    rw [add_op_other w2 res cp j h1 h2, hop2 j, hcs.old j (by have := hi.size; omega)]
    exact hi.old j hj
  · rw [a2, hrr, hcs.rreg]; exact hi.rreg
  · unfold Op.isComp; rw [a5, hresop]; exact hi.cls
  · rw [a4, hresop]; exact hi.rep
  · rw [k1]; exact k2
  · intro a ha j hj
    rw [k1] at ha
    rw [(k3 a ha).1] at hj
    rcases List.mem_append.mp ha with ha | ha
    · rw [hb2 a ha] at hj; exact hi.range a ha j hj
    · simp only [List.mem_singleton] at ha
      subst ha
      rw [hbcp] at hj
      have := hcs.fresh j hj
      have := hi.size
      omega
  · rw [k1, List.flatMap_append, List.flatMap_append]
    refine List.Perm.append ?_ ?_
    · have : (wi.kids res).flatMap ((w2.add res cp).expand f) = (wi.kids res).flatMap (wi.expand f) := by
        apply flatMap_congr'
        intro a ha
        rw [(k3 a (List.mem_append_left _ ha)).2, hx2 a ha]
      rw [this]; exact hi.perm
    · simp only [List.flatMap_cons, List.flatMap_nil, List.append_nil]
      rw [(k3 cp (List.mem_append_right _ (List.mem_singleton.mpr rfl))).2, hxcp, ← hxn]
      exact hcs.expand
  · intro cnt
    rw [k1, List.flatMap_append, List.flatMap_append]
    refine List.Perm.append ?_ ?_
    · have : (wi.kids res).flatMap ((w2.add res cp).expandWith cnt f) =
          (wi.kids res).flatMap (wi.expandWith cnt f) := by
        apply flatMap_congr'
        intro a ha
        have hb : ∀ j ∈ w2.below f a, ((w2.add res cp).op j).noLink = (w2.op j).noLink :=
          k4 a (List.mem_append_left _ ha)
        rw [expandWith_congr w2 _ cnt f a hb, expandWith_congr wi w2 cnt f a (hsame2 a ha)]
      rw [this]; exact hi.permW cnt
    · simp only [List.flatMap_cons, List.flatMap_nil, List.append_nil]
      have hb : ∀ j ∈ w2.below f cp, ((w2.add res cp).op j).noLink = (w2.op j).noLink :=
        k4 cp (List.mem_append_right _ (List.mem_singleton.mpr rfl))
      rw [expandWith_congr w2 _ cnt f cp hb,
        expandWith_congr w1 w2 cnt f cp (fun j _ => op_eq_noLink (hop2 j)),
        ← expandWith_congr w0 wi cnt f n hnsame]
      exact hcs.shape cnt

theorem copyFold_tree (f g : Nat)
    (ih : ∀ (w : World) (o : Nat) (lk : Lookup), TreeBelow w f o →
      TreeCopySpec w f o (w.copyObj g o lk).1 (w.copyObj g o lk).2.1)
    (w0 : World) (res : Nat) (rep : Rep) (hres : res = w0.ops.size) :
    ∀ (L : List Nat) (wi : World) (lk : Lookup) (done : List Nat), TreeCopyInv w0 res f rep wi done →
      (∀ n ∈ L, TreeBelow w0 f n) →
      TreeCopyInv w0 res f rep (L.foldl (copyStep g res) (wi, lk)).1 (done ++ L) := by
  intro L
  induction L with
  | nil => intro wi lk done hi _; simpa using hi
  | cons n ns ihL =>
    intro wi lk done hi hL
    simp only [List.foldl_cons]
    have hn := hL n List.mem_cons_self
    have hnlt : ∀ j ∈ w0.below f n, j < res := fun j hj => hres ▸ below_lt w0 f n hn j hj
    have hni : TreeBelow wi f n := tree_congr w0 wi (by rw [← hres]; exact Nat.le_of_lt hi.size) f n hn
      (fun j hj => op_eq_noLink (hi.old j (hnlt j hj)))
    have hcs := ih wi n lk hni
    have hstep : TreeCopyInv w0 res f rep (copyStep g res (wi, lk) n).1 (done ++ [n]) := by
      unfold copyStep
      simp only
      by_cases hb : ((wi.copyObj g n lk).2.2.any fun p => p.1 == wi.eqKey n) = true
      · rw [if_pos hb]
        exact copyInv_step w0 res f rep wi done n hres hi hn _ _ hcs _ rfl rfl
      · rw [if_neg hb]
        exact copyInv_step w0 res f rep wi done n hres hi hn _ _ hcs _ rfl rfl
    have := ihL (copyStep g res (wi, lk) n).1 (copyStep g res (wi, lk) n).2 (done ++ [n]) hstep
      (fun m hm => hL m (List.mem_cons_of_mem _ hm))
    rw [List.append_assoc, List.singleton_append] at this
    exact this

/-- **the general copy lemma**: on a tree `o` of depth ≤ `f`, `copyObj` (any lookup, any fuel ≥ `f`) returns a fresh tree
    — its root is the first new object, all its objects are new, it is a tree in the new heap — with the same
    count-expanded multiset of leaf signatures, the same kind and repetition strategy; no old object is written. -/
theorem copyObj_tree : ∀ (f : Nat) (w : World) (o : Nat) (lk : Lookup) (g : Nat), TreeBelow w f o → f ≤ g →
    TreeCopySpec w f o (w.copyObj g o lk).1 (w.copyObj g o lk).2.1 := by
  intro f
  induction f with
  | zero => intro w o lk g h _; exact h.elim
  | succ f ih =>
    intro w o lk g ht hg
    cases g with
    | zero => omega
    | succ g =>
      by_cases hc : (w.op o).isComp = true
      · rw [copyObj_comp w g o lk hc]
        simp only
        have hops := (C05.copyLink_frame w (w.op o).link lk).1
        have hsz : (w.copyLink (w.op o).link lk).1.ops.size = w.ops.size := by rw [hops]
        rw [hsz]
        have hnew := C05.newOp_op_new (w.copyLink (w.op o).link lk).1
          { cls := .comp, link := (w.copyLink (w.op o).link lk).2, rep := (w.op o).rep }
        have hid : ((w.copyLink (w.op o).link lk).1.newOp
            { cls := .comp, link := (w.copyLink (w.op o).link lk).2, rep := (w.op o).rep }).2 = w.ops.size := by
          simp [World.newOp, hsz]
        rw [hid] at hnew
        have base : TreeCopyInv w w.ops.size f (w.op o).rep
            ((w.copyLink (w.op o).link lk).1.newOp
              { cls := .comp, link := (w.copyLink (w.op o).link lk).2, rep := (w.op o).rep }).1 [] := by
          refine ⟨?_, ?_, ?_, ?_, ?_, ?_, ?_, ?_, ?_⟩
          · simp [World.newOp, hsz]
          · intro j hj
            rw [C05.newOp_op_old _ _ j (by rw [hsz]; exact hj), op_congr hops j]
          · simp only [World.newOp]; exact copyLink_rreg w _ _
          · rw [hnew]; rfl
          · rw [hnew]
          · unfold World.kids; rw [hnew]; exact Forest.nil _ _
          · intro n hn; unfold World.kids at hn; rw [hnew] at hn; cases hn
          · unfold World.kids; rw [hnew]; exact List.Perm.refl _
          · intro cnt; unfold World.kids; rw [hnew]; exact List.Perm.refl _
        have hL : ∀ n ∈ listing (w.op o).graph, TreeBelow w f n := by
          intro n hn
          apply ht.kid hc
          unfold World.kids
          exact (listing_perm _).mem_iff.mp hn
        have hfin := copyFold_tree f g (fun w' o' lk' h' => ih w' o' lk' g h' (by omega)) w w.ops.size (w.op o).rep rfl
          (listing (w.op o).graph) _ lk [] base hL
        rw [List.nil_append] at hfin
        generalize ((listing (w.op o).graph).foldl (copyStep g w.ops.size)
          (((w.copyLink (w.op o).link lk).1.newOp
            { cls := .comp, link := (w.copyLink (w.op o).link lk).2, rep := (w.op o).rep }).1, lk)).1 = wf at hfin
        have hcontent : (wf.content f w.ops.size).Perm (w.content f o) := by
          unfold World.content
          refine hfin.perm.trans ?_
          exact List.Perm.flatMap_right _ (listing_perm _)
        refine ⟨rfl, hfin.size, hfin.old, hfin.rreg, ?_, ?_, ?_, ?_, ?_, ?_, ?_⟩
        · refine TreeBelow.of_forest hfin.size hfin.cls hfin.forest ?_
          intro n hn hmem
          exact Nat.lt_irrefl _ (hfin.range n hn _ hmem)
        · intro j hj
          rw [mem_below_comp wf f _ j hfin.cls] at hj
          rcases hj with rfl | ⟨n, hn, hj⟩
          · exact Nat.le_refl _
          · exact Nat.le_of_lt (hfin.range n hn j hj)
        · rw [hfin.cls, hc]
        · intro _; exact hfin.rep
        · rw [expand_comp wf f _ hfin.cls, expand_comp w f o hc, hfin.rep]
          have : wf.repCount (w.op o).rep = w.repCount (w.op o).rep := by
            unfold World.repCount; rw [hfin.rreg]
          rw [this]
          exact Perm.repeatList _ hcontent
        · intro f' hf' _
          have : f = f' := by omega
          subst this
          exact hcontent
        · intro cnt
          simp only [World.expandWith, hfin.cls, hc, if_true]
          rw [hfin.rep]
          refine Perm.repeatList _ ((hfin.permW cnt).trans ?_)
          exact List.Perm.flatMap_right _ (listing_perm _)
      · have hl : (w.op o).isComp = false := by simpa using hc
        rw [World.copyObj]
        simp only [hl, Bool.not_false, if_true]
        exact copyLeaf_tree w f o lk ht hl

/-- `copy()` without a lookup. -/
theorem copy_tree (w : World) (f o : Nat) (ht : TreeBelow w f o) (hf : f ≤ w.depthFuel) :
    TreeCopySpec w f o (w.copy o).1 (w.copy o).2 :=
  copyObj_tree f w o [] w.depthFuel ht hf

end Qco
