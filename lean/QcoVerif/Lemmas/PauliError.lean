import Mathlib.Analysis.Complex.Exponential
import Mathlib.Tactic.Linarith
import Mathlib.Tactic.NormNum
/-
  Real-valued part of C14: `PauliAdditiveCircuitNoiseFactory.get_pauli_error(t, t1, t2)`.

      if t == 0: return 0, 0, 0
      px = 0.25 * (1 - exp(-t / t1));  py = px
      pz = 0.5 * (1 - exp(-t / t2)) - 0.25 * (1 - exp(-t / t1))
      each clamped to [0, 1]

  Statements are about `Real.exp`; numpy's `exp` and float rounding are outside (DESIGN.md §3).
  Lean's `x / 0 = 0` would make the statements true for the wrong reason at `t1 = 0` / `t2 = 0`, where the code
  raises `ZeroDivisionError`; the theorems of `Properties/C14.lean` carry the guard `T1 ≠ 0`, `T2 ≠ 0`.
-/
namespace Qco.Noise.Analysis

/-- `min(max(v, 0.0), 1.0)`. -/
noncomputable def clamp01 (v : ℝ) : ℝ := min (max v 0) 1

noncomputable def pxRaw (t T1 : ℝ) : ℝ := 0.25 * (1 - Real.exp (-t / T1))

noncomputable def pzRaw (t T1 T2 : ℝ) : ℝ :=
  0.5 * (1 - Real.exp (-t / T2)) - 0.25 * (1 - Real.exp (-t / T1))

/-- `get_pauli_error`. -/
noncomputable def pauliError (t T1 T2 : ℝ) : ℝ × ℝ × ℝ :=
  if t = 0 then (0, 0, 0)
  else (clamp01 (pxRaw t T1), clamp01 (pxRaw t T1), clamp01 (pzRaw t T1 T2))

theorem clamp01_nonneg (v : ℝ) : 0 ≤ clamp01 v := by
  unfold clamp01; exact le_min (le_max_right _ _) zero_le_one

theorem clamp01_le_one (v : ℝ) : clamp01 v ≤ 1 := by
  unfold clamp01; exact min_le_right _ _

theorem clamp01_of_mem {v : ℝ} (h0 : 0 ≤ v) (h1 : v ≤ 1) : clamp01 v = v := by
  unfold clamp01; rw [max_eq_left h0, min_eq_left h1]

theorem clamp01_of_nonpos {v : ℝ} (h0 : v ≤ 0) : clamp01 v = 0 := by
  unfold clamp01; rw [max_eq_right h0, min_eq_left zero_le_one]

/-- the algebra behind the bound: for ANY positive `a`, `b` (the two exponentials). -/
theorem clamped_sum_le_one (a b : ℝ) (ha : 0 < a) (hb : 0 < b) :
    clamp01 (0.25 * (1 - a)) + clamp01 (0.25 * (1 - a)) + clamp01 (0.5 * (1 - b) - 0.25 * (1 - a)) ≤ 1 := by
  rcases le_total (0.25 * (1 - a)) 0 with h | h
  · rw [clamp01_of_nonpos h]
    have := clamp01_le_one (0.5 * (1 - b) - 0.25 * (1 - a))
    linarith
  · have h1 : 0.25 * (1 - a) ≤ 1 := by linarith
    rw [clamp01_of_mem h h1]
    rcases le_total (0.5 * (1 - b) - 0.25 * (1 - a)) 0 with k | k
    · rw [clamp01_of_nonpos k]; linarith
    · have k1 : 0.5 * (1 - b) - 0.25 * (1 - a) ≤ 1 := by linarith
      rw [clamp01_of_mem k k1]; linarith

theorem pauliError_zero (T1 T2 : ℝ) : pauliError 0 T1 T2 = (0, 0, 0) := by simp [pauliError]

/-- every component is a probability. -/
theorem pauliError_bounds (t T1 T2 : ℝ) :
    (0 ≤ (pauliError t T1 T2).1 ∧ (pauliError t T1 T2).1 ≤ 1) ∧
    (0 ≤ (pauliError t T1 T2).2.1 ∧ (pauliError t T1 T2).2.1 ≤ 1) ∧
    (0 ≤ (pauliError t T1 T2).2.2 ∧ (pauliError t T1 T2).2.2 ≤ 1) := by
  unfold pauliError
  split
  · simp
  · exact ⟨⟨clamp01_nonneg _, clamp01_le_one _⟩, ⟨clamp01_nonneg _, clamp01_le_one _⟩,
      ⟨clamp01_nonneg _, clamp01_le_one _⟩⟩

/-- X + Y + Z ≤ 1, with no relation between T1 and T2 needed: the clamping takes care of `T2 > 2·T1`. -/
theorem pauliError_sum_le_one (t T1 T2 : ℝ) :
    (pauliError t T1 T2).1 + (pauliError t T1 T2).2.1 + (pauliError t T1 T2).2.2 ≤ 1 := by
  unfold pauliError
  split
  · simp
  · exact clamped_sum_le_one _ _ (Real.exp_pos _) (Real.exp_pos _)

/-- physical regime: `t ≥ 0`, `T1 > 0`: X and Y are not clamped and stay below 1/4. -/
theorem pxRaw_mem (t T1 : ℝ) (ht : 0 ≤ t) (hT1 : 0 < T1) : 0 ≤ pxRaw t T1 ∧ pxRaw t T1 < 1 / 4 := by
  have hpos := Real.exp_pos (-t / T1)
  have hle : Real.exp (-t / T1) ≤ 1 := by
    apply Real.exp_le_one_iff.2
    have : 0 ≤ t / T1 := div_nonneg ht hT1.le
    rw [neg_div]; linarith
  unfold pxRaw
  constructor <;> nlinarith

/-- physical regime: the total stays below 3/4. -/
theorem pauliError_sum_le_physical (t T1 T2 : ℝ) (ht : 0 ≤ t) (hT1 : 0 < T1) :
    (pauliError t T1 T2).1 + (pauliError t T1 T2).2.1 + (pauliError t T1 T2).2.2 ≤ 3 / 4 := by
  unfold pauliError
  split
  · norm_num
  · obtain ⟨h0, h1⟩ := pxRaw_mem t T1 ht hT1
    have hb := Real.exp_pos (-t / T2)
    rw [clamp01_of_mem h0 (by linarith)]
    show pxRaw t T1 + pxRaw t T1 + clamp01 (pzRaw t T1 T2) ≤ 3 / 4
    rcases le_total (pzRaw t T1 T2) 0 with k | k
    · rw [clamp01_of_nonpos k]; linarith
    · have e : pzRaw t T1 T2 = 0.5 * (1 - Real.exp (-t / T2)) - pxRaw t T1 := rfl
      have k1 : pzRaw t T1 T2 ≤ 1 := by rw [e]; nlinarith
      rw [clamp01_of_mem k k1, e]; nlinarith

/-- `T2 ≤ 2·T1` is exactly what keeps the Z component from being clamped: then the raw value is ≥ 0. -/
theorem pzRaw_nonneg_of_T2_le (t T1 T2 : ℝ) (ht : 0 ≤ t) (hT1 : 0 < T1) (hT2 : 0 < T2) (h : T2 ≤ 2 * T1) :
    0 ≤ pzRaw t T1 T2 := by
  set c := Real.exp (-t / (2 * T1)) with hc
  have ha : Real.exp (-t / T1) = c * c := by
    rw [hc, ← Real.exp_add]; congr 1; field_simp; ring
  have hb : Real.exp (-t / T2) ≤ c := by
    apply Real.exp_le_exp.2
    rw [neg_div, neg_div, neg_le_neg_iff]
    exact div_le_div_of_nonneg_left ht hT2 h
  unfold pzRaw
  rw [ha]
  nlinarith [sq_nonneg (1 - c)]

/-- without it the raw Z value can be negative (T1 = 1, T2 = 4 > 2·T1, t = 1) and the code returns pz = 0. -/
theorem pzRaw_neg_witness : pzRaw 1 1 4 < 0 ∧ (pauliError 1 1 4).2.2 = 0 := by
  have h1 : (3 : ℝ) / 4 < Real.exp (-1 / 4) := by
    have := Real.add_one_lt_exp (x := (-1 / 4 : ℝ)) (by norm_num)
    linarith
  have h2 : Real.exp (-1 / 1) < 1 / 2 := by
    have e : (2 : ℝ) < Real.exp 1 := by
      have := Real.add_one_lt_exp (x := (1 : ℝ)) (by norm_num)
      linarith
    have : Real.exp (-1 / 1) = (Real.exp 1)⁻¹ := by rw [← Real.exp_neg]; norm_num
    rw [this]
    have hpos := Real.exp_pos 1
    rw [inv_lt_comm₀ hpos (by norm_num)]
    norm_num; linarith
  have hneg : pzRaw 1 1 4 < 0 := by unfold pzRaw; linarith
  refine ⟨hneg, ?_⟩
  unfold pauliError
  rw [if_neg one_ne_zero]
  exact clamp01_of_nonpos hneg.le

end Qco.Noise.Analysis
