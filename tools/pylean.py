"""Translator: Python SOURCE TEXT of selected functions of the live package -> mini-Python syntax in Lean.

For every entry of TARGETS the source of the module is read (`inspect.getsource` of the module that is importable NOW),
parsed with `ast`, and the function body is translated statement by statement into a value of `Qco.Py.FnDef`
(lean/QcoVerif/Model/PyLang.lean).  The translation is syntax-directed and total: a construct outside the fragment
becomes `.unsupported "<source text>"`, which the interpreter evaluates to an error — the `…_matches_source`
theorem about that function then no longer compiles, which the checks report as a broken proof obligation.

Nothing semantic happens here: names stay names, attribute chains stay attribute chains, keyword arguments are
appended to the positional ones in source order.  Conventions (all visible in the generated text):
  * a leading docstring and bare string statements (attribute docstrings) are dropped;
  * `X.MEMBER` with `X` capitalised and `MEMBER` upper-case is an enum constant `.enumc "X" "MEMBER"`;
  * `np.f(..)` / `numpy.f(..)` are calls of the function "np.f"; `a.m(..)` on anything else is a method call;
  * a call of a capitalised name (constructor) or of a function of a known module (`stim.f`) keeps its keyword names: each
    keyword argument becomes the pair `(name, value)`; other calls append keyword values to the positional ones;
  * `xs.extend(e)` / `xs.append(e)` on a local list is `xs += list(e)` / `xs += [e]`; `obj.a = e`, `obj[k] = e` and calls made as
    statements are EFFECTS (`.setattr`, `.setitem`, `.expr`): recorded by `Py.callEffects`, not executed;
  * `int(a / b)` is the builtin "int_truediv" (truncation of the exact quotient);
  * `assert c, msg` is `if c: pass else: raise`;
  * decorators are recorded by name (a cache decorator on a timing function is a semantic change: finding R1).

Output: Generated/PySrc.lean with one `def` per target, the list `all`, and `sourceDigest` (sha256 of the translated
source segments).  Used by tools/extract_tables.py (section "pysrc").
"""
from __future__ import annotations
import ast
import hashlib
import importlib
import inspect
from fractions import Fraction

# (lean name, module, class or None, function)
TARGETS = [
    # --- C12 / C13: acquisition index kernels
    ('FixedIndexStrategy_get_index', 'qce_circuit.structure.acquisition_indexing.intrf_index_strategy', 'FixedIndexStrategy', 'get_index'),
    ('RelativeIndexStrategy_get_index', 'qce_circuit.structure.acquisition_indexing.intrf_index_strategy', 'RelativeIndexStrategy', 'get_index'),
    ('IIndexingKernel_kernel_length', 'qce_circuit.structure.acquisition_indexing.intrf_index_kernel', 'IIndexingKernel', 'kernel_length'),
    ('RepKernel_start_index', 'qce_circuit.structure.acquisition_indexing.kernel_repetition_code', 'RepetitionIndexKernel', 'start_index'),
    ('RepKernel_exclusive_start_index', 'qce_circuit.structure.acquisition_indexing.kernel_repetition_code', 'RepetitionIndexKernel', '_exclusive_start_index'),
    ('RepKernel_delta_heralded', 'qce_circuit.structure.acquisition_indexing.kernel_repetition_code', 'RepetitionIndexKernel', 'index_delta_heralded_initialization'),
    ('RepKernel_delta_stabilizer', 'qce_circuit.structure.acquisition_indexing.kernel_repetition_code', 'RepetitionIndexKernel', 'index_delta_stabilizer_measurements'),
    ('RepKernel_delta_final', 'qce_circuit.structure.acquisition_indexing.kernel_repetition_code', 'RepetitionIndexKernel', 'index_delta_final_measurement'),
    ('RepKernel_stop_index', 'qce_circuit.structure.acquisition_indexing.kernel_repetition_code', 'RepetitionIndexKernel', 'stop_index'),
    ('RepKernel_involved_qubit_ids', 'qce_circuit.structure.acquisition_indexing.kernel_repetition_code', 'RepetitionIndexKernel', 'involved_qubit_ids'),
    ('RepKernel_contains', 'qce_circuit.structure.acquisition_indexing.kernel_repetition_code', 'RepetitionIndexKernel', 'contains'),
    ('RepKernel_heralded_index', 'qce_circuit.structure.acquisition_indexing.kernel_repetition_code', 'RepetitionIndexKernel', 'get_heralded_measurement_index'),
    ('RepKernel_stabilizer_indices', 'qce_circuit.structure.acquisition_indexing.kernel_repetition_code', 'RepetitionIndexKernel', 'get_ordered_stabilizer_measurement_indices'),
    ('RepKernel_final_index', 'qce_circuit.structure.acquisition_indexing.kernel_repetition_code', 'RepetitionIndexKernel', 'get_final_measurement_index'),
    ('ExpKernel_start_index', 'qce_circuit.structure.acquisition_indexing.kernel_repetition_code', 'RepetitionExperimentKernel', 'start_index'),
    ('ExpKernel_stop_index', 'qce_circuit.structure.acquisition_indexing.kernel_repetition_code', 'RepetitionExperimentKernel', 'stop_index'),
    ('ExpKernel_kernel_cycle_length', 'qce_circuit.structure.acquisition_indexing.kernel_repetition_code', 'RepetitionExperimentKernel', 'kernel_cycle_length'),
    ('ExpKernel_experiment_repetitions', 'qce_circuit.structure.acquisition_indexing.kernel_repetition_code', 'RepetitionExperimentKernel', 'experiment_repetitions'),
    ('ExpKernel_indexing_kernels', 'qce_circuit.structure.acquisition_indexing.kernel_repetition_code', 'RepetitionExperimentKernel', 'indexing_kernels'),
    ('ExpKernel_heralded_cycle', 'qce_circuit.structure.acquisition_indexing.kernel_repetition_code', 'RepetitionExperimentKernel', 'get_heralded_cycle_acquisition_indices'),
    ('ExpKernel_stabilizer_and_projected_cycle', 'qce_circuit.structure.acquisition_indexing.kernel_repetition_code', 'RepetitionExperimentKernel', 'get_stabilizer_and_projected_cycle_acquisition_indices'),
    ('ExpKernel_projected_cycle', 'qce_circuit.structure.acquisition_indexing.kernel_repetition_code', 'RepetitionExperimentKernel', 'get_projected_cycle_acquisition_indices'),
    ('ExpKernel_projected_calibration', 'qce_circuit.structure.acquisition_indexing.kernel_repetition_code', 'RepetitionExperimentKernel', 'get_projected_calibration_acquisition_indices'),
    ('ExpKernel_heralded_calibration', 'qce_circuit.structure.acquisition_indexing.kernel_repetition_code', 'RepetitionExperimentKernel', 'get_heralded_calibration_acquisition_indices'),
    ('CalKernel_start_index', 'qce_circuit.structure.acquisition_indexing.kernel_calibration', 'QutritCalibrationIndexKernel', 'start_index'),
    ('CalKernel_exclusive_start_index', 'qce_circuit.structure.acquisition_indexing.kernel_calibration', 'QutritCalibrationIndexKernel', '_exclusive_start_index'),
    ('CalKernel_delta_heralded', 'qce_circuit.structure.acquisition_indexing.kernel_calibration', 'QutritCalibrationIndexKernel', 'index_delta_heralded_initialization'),
    ('CalKernel_delta_state_0', 'qce_circuit.structure.acquisition_indexing.kernel_calibration', 'QutritCalibrationIndexKernel', 'index_delta_state_0'),
    ('CalKernel_delta_state_1', 'qce_circuit.structure.acquisition_indexing.kernel_calibration', 'QutritCalibrationIndexKernel', 'index_delta_state_1'),
    ('CalKernel_delta_state_2', 'qce_circuit.structure.acquisition_indexing.kernel_calibration', 'QutritCalibrationIndexKernel', 'index_delta_state_2'),
    ('CalKernel_stop_index', 'qce_circuit.structure.acquisition_indexing.kernel_calibration', 'QutritCalibrationIndexKernel', 'stop_index'),
    ('CalKernel_contains', 'qce_circuit.structure.acquisition_indexing.kernel_calibration', 'QutritCalibrationIndexKernel', 'contains'),
    ('CalKernel_heralded_state_0', 'qce_circuit.structure.acquisition_indexing.kernel_calibration', 'QutritCalibrationIndexKernel', 'get_heralded_state_0_measurement_index'),
    ('CalKernel_heralded_state_1', 'qce_circuit.structure.acquisition_indexing.kernel_calibration', 'QutritCalibrationIndexKernel', 'get_heralded_state_1_measurement_index'),
    ('CalKernel_heralded_state_2', 'qce_circuit.structure.acquisition_indexing.kernel_calibration', 'QutritCalibrationIndexKernel', 'get_heralded_state_2_measurement_index'),
    ('CalKernel_state_0', 'qce_circuit.structure.acquisition_indexing.kernel_calibration', 'QutritCalibrationIndexKernel', 'get_state_0_measurement_index'),
    ('CalKernel_state_1', 'qce_circuit.structure.acquisition_indexing.kernel_calibration', 'QutritCalibrationIndexKernel', 'get_state_1_measurement_index'),
    ('CalKernel_state_2', 'qce_circuit.structure.acquisition_indexing.kernel_calibration', 'QutritCalibrationIndexKernel', 'get_state_2_measurement_index'),
    # --- C01 / C04: relation links and times
    ('RelationLink_get_start_time', 'qce_circuit.structure.intrf_circuit_operation', 'RelationLink', 'get_start_time'),
    ('MultiRelationLink_reference_node', 'qce_circuit.structure.intrf_circuit_operation', 'MultiRelationLink', 'reference_node'),
    ('MultiRelationLink_get_start_time', 'qce_circuit.structure.intrf_circuit_operation', 'MultiRelationLink', 'get_start_time'),
    ('IDurationComponent_end_time', 'qce_circuit.structure.intrf_circuit_operation', 'IDurationComponent', 'end_time'),
    ('IRelationComponent_has_relation', 'qce_circuit.structure.intrf_circuit_operation', 'IRelationComponent', 'has_relation'),
    ('Composite_start_time', 'qce_circuit.structure.intrf_circuit_operation_composite', 'CircuitCompositeOperation', 'start_time'),
    ('Composite_duration', 'qce_circuit.structure.intrf_circuit_operation_composite', 'CircuitCompositeOperation', 'duration'),
    ('Composite_lead_and_span', 'qce_circuit.structure.intrf_circuit_operation_composite', 'CircuitCompositeOperation', '_lead_and_span'),
    # --- C02 / C05 / C06 / C11: the builder (effects are recorded, not executed: `Py.callEffects`)
    ('Graph_add_to_graph', 'qce_circuit.structure.intrf_circuit_operation_composite', 'CircuitGraphBranch', 'add_to_graph'),
    ('Graph_get_leaf_at_any', 'qce_circuit.structure.intrf_circuit_operation_composite', 'CircuitGraphBranch', 'get_leaf_at_any'),
    ('Graph_get_corresponding_node', 'qce_circuit.structure.intrf_circuit_operation_composite', 'CircuitGraphBranch', 'get_corresponding_node'),
    ('Composite_add', 'qce_circuit.structure.intrf_circuit_operation_composite', 'CircuitCompositeOperation', 'add'),
    ('Composite_copy', 'qce_circuit.structure.intrf_circuit_operation_composite', 'CircuitCompositeOperation', 'copy'),
    ('Composite_apply_modifiers', 'qce_circuit.structure.intrf_circuit_operation_composite', 'CircuitCompositeOperation', 'apply_modifiers_to_self'),
    ('Composite_decomposed', 'qce_circuit.structure.intrf_circuit_operation_composite', 'CircuitCompositeOperation', 'decomposed_operations'),
    ('Composite_flatten', 'qce_circuit.structure.intrf_circuit_operation_composite', 'CircuitCompositeOperation', 'apply_flatten_to_self'),
    ('Composite_extend', 'qce_circuit.structure.intrf_circuit_operation_composite', 'CircuitCompositeOperation', 'extend'),
    ('Composite_repeat', 'qce_circuit.structure.intrf_circuit_operation_composite', 'CircuitCompositeOperation', 'repeat'),
    ('RelationLink_copy', 'qce_circuit.structure.intrf_circuit_operation', 'RelationLink', 'copy'),
    ('MultiRelationLink_copy', 'qce_circuit.structure.intrf_circuit_operation', 'MultiRelationLink', 'copy'),
    # --- C07: acquisition index scan
    ('AcquisitionRegistry_get_registry_at', 'qce_circuit.structure.registry_acquisition', 'AcquisitionRegistry', 'get_registry_at'),
    # --- C08: annotation instructions
    ('Detector_to_stim', 'qce_circuit.addon_stim.circuit_operations', 'DetectorOperation', 'to_stim_instruction'),
    ('Observable_to_stim', 'qce_circuit.addon_stim.circuit_operations', 'LogicalObservableOperation', 'to_stim_instruction'),
    ('CoordinateShift_to_stim', 'qce_circuit.addon_stim.circuit_operations', 'CoordinateShiftOperation', 'to_stim_instruction'),
    # --- C16: acceptance of simultaneous gates
    ('Gen_get_mutually_allowed', 'qce_circuit.connectivity.mapping.gate_sequence_generator', 'GateSequenceGenerator', 'get_mutually_allowed'),
    # --- C16: frequency ordering, moving side of a gate
    ('Freq_is_equal_to', 'qce_circuit.connectivity.intrf_connectivity_surface_code', 'FrequencyGroupIdentifier', 'is_equal_to'),
    ('Freq_is_higher_than', 'qce_circuit.connectivity.intrf_connectivity_surface_code', 'FrequencyGroupIdentifier', 'is_higher_than'),
    ('Freq_is_lower_than', 'qce_circuit.connectivity.intrf_connectivity_surface_code', 'FrequencyGroupIdentifier', 'is_lower_than'),
    ('Conn_on_moving_side', 'qce_circuit.connectivity.connectivity_surface_code', None, 'on_moving_side'),
    ('Conn_get_requires_parking', 'qce_circuit.connectivity.connectivity_surface_code', None, 'get_requires_parking'),
    ('Conn_get_higher_frequency_qubit_id', 'qce_circuit.connectivity.connectivity_surface_code', None, 'get_higher_frequency_qubit_id'),
    ('Conn_get_lower_frequency_qubit_id', 'qce_circuit.connectivity.connectivity_surface_code', None, 'get_lower_frequency_qubit_id'),
    # --- the facade (C02/C03/C05/C06/C07/C11): what `DeclarativeCircuit` adds around the structure
    ('Decl_add_operation', 'qce_circuit.language.declarative_circuit', 'DeclarativeCircuit', 'add_operation'),
    ('Decl_add_sub_circuit', 'qce_circuit.language.declarative_circuit', 'DeclarativeCircuit', 'add_sub_circuit'),
    ('Decl_get_last_entry', 'qce_circuit.language.declarative_circuit', 'DeclarativeCircuit', 'get_last_entry'),
    ('Decl_apply_modifiers', 'qce_circuit.language.declarative_circuit', 'DeclarativeCircuit', 'apply_modifiers'),
    ('Decl_flatten', 'qce_circuit.language.declarative_circuit', 'DeclarativeCircuit', 'flatten'),
    ('Decl_operations', 'qce_circuit.language.declarative_circuit', 'DeclarativeCircuit', 'operations'),
    ('Decl_duration', 'qce_circuit.language.declarative_circuit', 'DeclarativeCircuit', 'duration'),
    ('Decl_get_acquisition_strategy', 'qce_circuit.language.declarative_circuit', 'DeclarativeCircuit', 'get_acquisition_strategy'),
    # --- C19: order-preserving de-duplication
    ('Util_unique_in_order', 'qce_circuit.utilities.array_manipulation', None, 'unique_in_order'),
    # --- C18: row order of the drawing
    ('Draw_reorder_indices', 'qce_circuit.visualization.visualize_circuit.display_circuit', None, 'reorder_indices'),
    # --- C19: identifiers
    ('ChannelIdentifier_eq', 'qce_circuit.structure.intrf_circuit_operation', 'ChannelIdentifier', '__eq__'),
    ('EdgeIDObj_contains', 'qce_circuit.connectivity.intrf_channel_identifier', 'EdgeIDObj', 'contains'),
    ('EdgeIDObj_eq', 'qce_circuit.connectivity.intrf_channel_identifier', 'EdgeIDObj', '__eq__'),
    ('EdgeIDObj_get_connected_qubit_id', 'qce_circuit.connectivity.intrf_channel_identifier', 'EdgeIDObj', 'get_connected_qubit_id'),
]

NUMPY_NAMES = {'np', 'numpy'}
MODULE_NAMES = {'stim', 'warnings'}
MODULE_FUNCTIONS: dict = {}    # top-level functions of the module being translated: name -> parameter names


def lstr(s: str) -> str:
    out = []
    for ch in s:
        if ch == '\\':
            out.append('\\\\')
        elif ch == '"':
            out.append('\\"')
        elif ch == '\n':
            out.append('\\n')
        elif ch == '\t':
            out.append('\\t')
        elif ord(ch) < 32 or ord(ch) > 126:
            out.append('?')
        else:
            out.append(ch)
    return '"' + ''.join(out) + '"'


def lint(i: int) -> str:
    return f'({i})' if i < 0 else str(i)


def llist(items) -> str:
    return '[' + ', '.join(items) + ']'


BINOPS = {ast.Add: 'add', ast.Sub: 'sub', ast.Mult: 'mul', ast.FloorDiv: 'floordiv', ast.Mod: 'mod', ast.Pow: 'pow'}
CMPOPS = {ast.Eq: 'eq', ast.NotEq: 'ne', ast.Lt: 'lt', ast.LtE: 'le', ast.Gt: 'gt', ast.GtE: 'ge',
          ast.Is: 'is_', ast.IsNot: 'isNot', ast.In: 'in_', ast.NotIn: 'notIn'}


def unsupported_e(node) -> str:
    return f'.unsupported {lstr(ast.unparse(node)[:160])}'


def expr(e: ast.AST) -> str:
    if isinstance(e, ast.Constant):
        v = e.value
        if isinstance(v, bool):
            return f'.bool {"true" if v else "false"}'
        if isinstance(v, int):
            return f'.int {lint(v)}'
        if v is None:
            return '.none'
        if isinstance(v, str):
            return f'.str {lstr(v)}'
        if isinstance(v, float):
            if v != v or v in (float('inf'), float('-inf')):
                return unsupported_e(e)
            fr = Fraction(v)
            return f'.flt {lint(fr.numerator)} {fr.denominator}'
        return unsupported_e(e)
    if isinstance(e, ast.Name):
        return f'.name {lstr(e.id)}'
    if isinstance(e, ast.Attribute):
        if isinstance(e.value, ast.Name) and e.value.id in NUMPY_NAMES and e.attr == 'inf':
            return '.enumc "float" "inf"'                   # +infinity (only `min`/`max`/unary minus know it)
        if isinstance(e.value, ast.Name) and e.value.id[:1].isupper() and e.attr.isupper():
            return f'.enumc {lstr(e.value.id)} {lstr(e.attr)}'
        return f'.attr ({expr(e.value)}) {lstr(e.attr)}'
    if isinstance(e, ast.BinOp):
        if type(e.op) in BINOPS:
            return f'.bin .{BINOPS[type(e.op)]} ({expr(e.left)}) ({expr(e.right)})'
        return unsupported_e(e)
    if isinstance(e, ast.UnaryOp):
        if isinstance(e.op, ast.USub):
            return f'.neg ({expr(e.operand)})'
        if isinstance(e.op, ast.Not):
            return f'.not ({expr(e.operand)})'
        if isinstance(e.op, ast.UAdd):
            return expr(e.operand)
        return unsupported_e(e)
    if isinstance(e, ast.BoolOp):
        ctor = '.and' if isinstance(e.op, ast.And) else '.or'
        vals = [expr(v) for v in e.values]
        acc = vals[-1]
        for v in reversed(vals[:-1]):
            acc = f'{ctor} ({v}) ({acc})'
        return acc
    if isinstance(e, ast.Compare):
        if len(e.ops) == 1 and type(e.ops[0]) in CMPOPS:
            return f'.cmp .{CMPOPS[type(e.ops[0])]} ({expr(e.left)}) ({expr(e.comparators[0])})'
        return unsupported_e(e)
    if isinstance(e, ast.IfExp):
        return f'.ite ({expr(e.test)}) ({expr(e.body)}) ({expr(e.orelse)})'
    if isinstance(e, ast.Call):
        if any(isinstance(a, ast.Starred) for a in e.args) or any(k.arg is None for k in e.keywords):
            return unsupported_e(e)
        args = [expr(a) for a in e.args] + [expr(k.value) for k in e.keywords]
        # constructor calls (capitalised name) and calls of module functions keep their keyword NAMES: `(name, value)` pairs
        tagged = [expr(a) for a in e.args] + [f'.tuple [.str {lstr(k.arg)}, {expr(k.value)}]' for k in e.keywords]
        if isinstance(e.func, ast.Name):
            if e.func.id == 'int' and len(e.args) == 1 and isinstance(e.args[0], ast.BinOp) and isinstance(e.args[0].op, ast.Div):
                return f'.call "int_truediv" {llist([expr(e.args[0].left), expr(e.args[0].right)])}'
            if e.func.id == 'isinstance' and len(e.args) == 2 and isinstance(e.args[1], ast.Name) and not e.keywords:
                return f'.call "isinstance" {llist([expr(e.args[0]), ".str " + lstr(e.args[1].id)])}'
            if e.func.id[:1].isupper():
                return f'.call {lstr(e.func.id)} {llist(tagged)}'
            if e.keywords and e.func.id in MODULE_FUNCTIONS:
                # a function of the same module called with keywords: bind them by the callee's signature (the written order of
                # keywords means nothing in Python); a keyword that is not a parameter, or a gap, is outside the fragment
                params = MODULE_FUNCTIONS[e.func.id]
                bound = {p: expr(a) for p, a in zip(params, e.args)}
                for k in e.keywords:
                    if k.arg not in params or k.arg in bound:
                        return unsupported_e(e)
                    bound[k.arg] = expr(k.value)
                n = len(bound)
                if params is None or any(p not in bound for p in params[:n]):
                    return unsupported_e(e)
                return f'.call {lstr(e.func.id)} {llist([bound[p] for p in params[:n]])}'
            return f'.call {lstr(e.func.id)} {llist(args)}'
        if isinstance(e.func, ast.Attribute):
            if isinstance(e.func.value, ast.Name) and (e.func.value.id in MODULE_NAMES or
                                                       (e.func.value.id[:1].isupper() and not e.func.attr.isupper())):
                # a function of a known module, or a static / class method called on the class: `Cls.method(…)`
                return f'.call {lstr(e.func.value.id + "." + e.func.attr)} {llist(tagged)}'
            if isinstance(e.func.value, ast.Name) and e.func.value.id in NUMPY_NAMES:
                # `dtype=` does not change the integer values the fragment is about
                args = [expr(a) for a in e.args] + [expr(k.value) for k in e.keywords if k.arg != 'dtype']
                return f'.call {lstr("np." + e.func.attr)} {llist(args)}'
            return f'.mcall ({expr(e.func.value)}) {lstr(e.func.attr)} {llist(args)}'
        return unsupported_e(e)
    if isinstance(e, (ast.ListComp, ast.GeneratorExp)):
        if len(e.generators) == 1 and isinstance(e.generators[0].target, ast.Name) and not e.generators[0].ifs \
                and not e.generators[0].is_async:
            g = e.generators[0]
            return f'.comp ({expr(e.elt)}) {lstr(g.target.id)} ({expr(g.iter)})'
        if len(e.generators) == 1 and isinstance(e.generators[0].target, ast.Name) and len(e.generators[0].ifs) == 1 \
                and not e.generators[0].is_async:
            g = e.generators[0]
            return f'.compIf ({expr(e.elt)}) {lstr(g.target.id)} ({expr(g.iter)}) ({expr(g.ifs[0])})'
        if len(e.generators) == 1 and isinstance(e.generators[0].target, ast.Tuple) and not e.generators[0].ifs \
                and not e.generators[0].is_async and all(isinstance(t, ast.Name) for t in e.generators[0].target.elts):
            g = e.generators[0]
            return f'.compT ({expr(e.elt)}) {llist([lstr(t.id) for t in g.target.elts])} ({expr(g.iter)})'
        return unsupported_e(e)
    if isinstance(e, ast.JoinedStr):
        return '.fstr'
    if isinstance(e, ast.Dict) and not e.keys:
        return '.call "dict" []'
    if isinstance(e, ast.Dict) and all(k is not None for k in e.keys):
        # a dictionary display: the list of its (key, value) pairs, in written order
        flat = []
        for k, v in zip(e.keys, e.values):
            flat += [expr(k), expr(v)]
        return f'.call "dict_of" {llist(flat)}'
    if isinstance(e, ast.List):
        return f'.list {llist([expr(x) for x in e.elts])}'
    if isinstance(e, ast.Tuple):
        return f'.tuple {llist([expr(x) for x in e.elts])}'
    if isinstance(e, ast.Subscript):
        idx = e.slice
        if isinstance(idx, ast.UnaryOp) and isinstance(idx.op, ast.USub) and isinstance(idx.operand, ast.Constant) \
                and isinstance(idx.operand.value, int):
            return f'.index ({expr(e.value)}) {lint(-idx.operand.value)}'
        if isinstance(idx, ast.Constant) and isinstance(idx.value, int) and not isinstance(idx.value, bool):
            return f'.index ({expr(e.value)}) {lint(idx.value)}'
        if not isinstance(idx, (ast.Slice, ast.Tuple)):
            return f'.mcall ({expr(e.value)}) "__getitem__" {llist([expr(idx)])}'      # lookup by key: a method of the container
        return unsupported_e(e)
    return unsupported_e(e)


LOCAL_SETS: set = set()       # names bound to `set()` in the function being translated: a set the function only adds to and asks membership of
LOCAL_LISTS: set = set()      # names bound to a list display / comprehension in the function being translated


def is_docstring(s: ast.stmt) -> bool:
    return isinstance(s, ast.Expr) and isinstance(s.value, ast.Constant) and isinstance(s.value.value, str)


def block(stmts) -> str:
    return llist([stmt(s) for s in stmts if not is_docstring(s)])


def stmt(s: ast.stmt) -> str:
    if isinstance(s, ast.AnnAssign):
        if isinstance(s.target, ast.Name) and s.value is not None:
            return f'.assign {lstr(s.target.id)} ({expr(s.value)})'
        return f'.unsupported {lstr(ast.unparse(s)[:160])}'
    if isinstance(s, ast.Assign):
        if len(s.targets) == 1 and isinstance(s.targets[0], ast.Name):
            return f'.assign {lstr(s.targets[0].id)} ({expr(s.value)})'
        if len(s.targets) == 1 and isinstance(s.targets[0], ast.Attribute):
            return f'.setattr ({expr(s.targets[0].value)}) {lstr(s.targets[0].attr)} ({expr(s.value)})'
        if len(s.targets) == 1 and isinstance(s.targets[0], ast.Subscript):
            return f'.setitem ({expr(s.targets[0].value)}) ({expr(s.targets[0].slice)}) ({expr(s.value)})'
        if len(s.targets) == 1 and isinstance(s.targets[0], ast.Tuple) and all(isinstance(t, ast.Name) for t in s.targets[0].elts):
            return f'.assignTuple {llist([lstr(t.id) for t in s.targets[0].elts])} ({expr(s.value)})'
        return f'.unsupported {lstr(ast.unparse(s)[:160])}'
    if isinstance(s, ast.AugAssign):
        if isinstance(s.target, ast.Name) and type(s.op) in BINOPS:
            return f'.aug {lstr(s.target.id)} .{BINOPS[type(s.op)]} ({expr(s.value)})'
        return f'.unsupported {lstr(ast.unparse(s)[:160])}'
    if isinstance(s, ast.Return):
        return f'.ret ({expr(s.value) if s.value is not None else ".none"})'
    if isinstance(s, ast.Raise):
        what = ast.unparse(s.exc.func) if isinstance(s.exc, ast.Call) else (ast.unparse(s.exc) if s.exc else 'reraise')
        return f'.raise {lstr(what)}'
    if isinstance(s, ast.If):
        return f'.ifs ({expr(s.test)}) {block(s.body)} {block(s.orelse)}'
    if isinstance(s, ast.For):
        if isinstance(s.target, ast.Name) and not s.orelse:
            return f'.for_ {lstr(s.target.id)} ({expr(s.iter)}) {block(s.body)}'
        return f'.unsupported {lstr(ast.unparse(s)[:160])}'
    if isinstance(s, ast.Assert):
        return f'.ifs ({expr(s.test)}) [] [.raise "AssertionError"]'
    if isinstance(s, ast.Pass):
        return '.pass'
    if isinstance(s, ast.Expr):
        v = s.value
        # `xs.extend(e)` / `xs.append(e)` on a LOCAL list (bound to a list display in this function, never aliased by the
        # functions translated here) is the rebinding `xs += list(e)` / `xs += [e]`
        if isinstance(v, ast.Call) and isinstance(v.func, ast.Attribute) and isinstance(v.func.value, ast.Name) \
                and v.func.value.id in LOCAL_LISTS and len(v.args) == 1 and not v.keywords:
            if v.func.attr == 'extend':
                return f'.aug {lstr(v.func.value.id)} .add (.call "list" [{expr(v.args[0])}])'
            if v.func.attr == 'append':
                return f'.aug {lstr(v.func.value.id)} .add (.list [{expr(v.args[0])}])'
        # `seen.add(e)` on a LOCAL set (bound to `set()` here, only added to and asked for membership): the list of the elements
        # added — membership by `==` is all the fragment asks of it (that hash agrees with `==` is C19's own statement)
        if isinstance(v, ast.Call) and isinstance(v.func, ast.Attribute) and isinstance(v.func.value, ast.Name) \
                and v.func.value.id in LOCAL_SETS and v.func.attr == 'add' and len(v.args) == 1 and not v.keywords:
            return f'.aug {lstr(v.func.value.id)} .add (.list [{expr(v.args[0])}])'
        return f'.expr ({expr(s.value)})'
    return f'.unsupported {lstr(ast.unparse(s)[:160])}'


def decorator_name(d: ast.AST) -> str:
    if isinstance(d, ast.Call):
        d = d.func
    return ast.unparse(d)


def find_function(tree: ast.Module, cls: str | None, fn: str) -> ast.FunctionDef:
    scope = tree.body
    if cls is not None:
        cdef = next(n for n in tree.body if isinstance(n, ast.ClassDef) and n.name == cls)
        scope = cdef.body
    cands = [n for n in scope if isinstance(n, ast.FunctionDef) and n.name == fn]
    # a property with a setter has two defs of the same name: the getter is the one decorated `property`
    for c in cands:
        if not any(decorator_name(d).endswith('.setter') for d in c.decorator_list):
            return c
    raise LookupError(f'{cls}.{fn}')


def translate(lean_name: str, module: str, cls: str | None, fn: str, cache: dict) -> tuple[str, str]:
    if module not in cache:
        mod = importlib.import_module(module)
        src = inspect.getsource(mod)
        cache[module] = (src, ast.parse(src))
    src, tree = cache[module]
    f = find_function(tree, cls, fn)
    a = f.args
    if a.vararg or a.kwarg or a.kwonlyargs or a.posonlyargs:
        params = None
    else:
        params = [x.arg for x in a.args]
    LOCAL_LISTS.clear()
    LOCAL_SETS.clear()
    MODULE_FUNCTIONS.clear()
    for n in tree.body:
        if isinstance(n, ast.FunctionDef) and not (n.args.vararg or n.args.kwarg or n.args.kwonlyargs or n.args.posonlyargs):
            MODULE_FUNCTIONS[n.name] = [x.arg for x in n.args.args]
    for n in ast.walk(f):
        tgt = None
        if isinstance(n, ast.AnnAssign) and isinstance(n.target, ast.Name):
            tgt, val = n.target.id, n.value
        elif isinstance(n, ast.Assign) and len(n.targets) == 1 and isinstance(n.targets[0], ast.Name):
            tgt, val = n.targets[0].id, n.value
        if tgt and isinstance(val, (ast.List, ast.ListComp)):
            LOCAL_LISTS.add(tgt)
        if tgt and isinstance(val, ast.Call) and isinstance(val.func, ast.Name) and val.func.id == 'set' and not val.args and not val.keywords:
            LOCAL_SETS.add(tgt)
    segment = ast.get_source_segment(src, f) or ''
    decs = [decorator_name(d) for d in f.decorator_list]
    body = block(f.body) if params is not None else '[.unsupported "signature"]'
    qual = (cls + '.' if cls else '') + fn
    text = (f'/-- `{module}` : `{qual}` -/\n'
            f'def {lean_name} : FnDef :=\n'
            f'  {{ name := {lstr(qual)}, decorators := {llist([lstr(d) for d in decs])}, params := {llist([lstr(p) for p in (params or [])])},\n'
            f'    body := {body} }}\n')
    return text, segment


def generate() -> dict:
    cache: dict = {}
    parts = []
    digest = hashlib.sha256()
    names = []
    for lean_name, module, cls, fn in TARGETS:
        try:
            text, seg = translate(lean_name, module, cls, fn, cache)
        except Exception as e:  # the function is gone / renamed: an empty body that raises, so the theorem breaks
            qual = (cls + '.' if cls else '') + fn
            text = (f'/-- `{module}` : `{qual}` — NOT FOUND ({type(e).__name__}) -/\n'
                    f'def {lean_name} : FnDef :=\n  {{ name := {lstr(qual)}, decorators := [], params := [], body := [.unsupported "function not found"] }}\n')
            seg = ''
        parts.append(text)
        digest.update(seg.encode())
        names.append(lean_name)
    header = ('/-\n  GENERATED by tools/pylean.py from the SOURCE TEXT of the live package qce_circuit — do not edit.\n'
              '  Mini-Python syntax (QcoVerif/Model/PyLang.lean) of the functions the `…_matches_source` theorems are about.\n-/\n'
              'import QcoVerif.Model.PyLang\nnamespace Qco.Gen.PySrc\nopen Qco.Py\n\n')
    out = header + '\n'.join(parts)
    out += '\n/-- every translated function, by its Lean name. -/\ndef all : List (String × FnDef) :=\n  ' + \
        llist([f'({lstr(n)}, {n})' for n in names]) + '\n'
    out += f'\n/-- sha256 (first 16 hex digits) of the translated source segments. -/\ndef sourceDigest : String := {lstr(digest.hexdigest()[:16])}\n'
    out += '\nend Qco.Gen.PySrc\n'
    return {'PySrc.lean': out}


if __name__ == '__main__':
    import sys
    sys.stdout.write(generate()['PySrc.lean'])
