import QcoVerif.Properties.C12
import QcoVerif.Lemmas.KernelSrc
/-
  C12 — tie to the SOURCE TEXT (DESIGN.md §2.3b).  Kept in a file of its own that nothing imports: a change of the translated
  source functions breaks THESE obligations only, not the build of the property files that import Properties/C12.lean.
-/
namespace Qco.C12
open Qco.Kernel

/-! ### tie to the SOURCE TEXT (DESIGN.md §2.3b)

`Gen.PySrc.*` is the mini-Python syntax of the functions of `kernel_repetition_code.py`, `kernel_calibration.py`,
`intrf_index_strategy.py`, `intrf_index_kernel.py`, regenerated from the source text on every run (tools/pylean.py).  Each
theorem below runs the interpreter `Py.callFn` (Model/PyLang.lean) on that syntax, for ALL kernels / elements / counts, with a
`self` object whose fields are the dataclass fields and whose other members have the MODEL's values (Lemmas/KernelSrc.lean), and
states that the result is the model's value.  The members depend on each other acyclicly (start_index ← strategy;
_exclusive_start ← start; stop ← _exclusive_start, deltas; getters ← _exclusive_start, deltas, id lists; contains ← getters;
experiment kernel ← kernels), so together they say that every member's source text computes what the model says.  A change of
the source text changes `Gen.PySrc` and the corresponding theorem no longer compiles. -/

section SourceTie
open Qco Qco.Py Qco.Gen.PySrc Qco.KernelSrc

theorem fixed_get_index_matches_source (i : Int) (task : Val) :
    callFn {} FixedIndexStrategy_get_index [strategyObj (.fixed i), task] = .int (Strategy.getIndex (.fixed i)) := by
  py_simp [FixedIndexStrategy_get_index, strategyObj, Strategy.getIndex]

theorem relative_get_index_matches_source (st : Int) (task : Val) :
    callFn {} RelativeIndexStrategy_get_index [strategyObj (.relative st), task] = .int (Strategy.getIndex (.relative st)) := by
  py_simp [RelativeIndexStrategy_get_index, strategyObj, Strategy.getIndex]

theorem rep_start_index_matches_source (k : RepKernel) :
    callFn fieldMethods RepKernel_start_index [repSelf k] = .int k.startIndex := by
  cases hs : k.strategy <;>
  py_simp [RepKernel_start_index, repSelf, repFields, fieldMethods, strategyObj, RepKernel.startIndex, hs]

theorem rep_exclusive_start_matches_source (k : RepKernel) :
    callFn {} RepKernel_exclusive_start_index [repSelf k] = .int k.exclStart := by
  py_simp [RepKernel_exclusive_start_index, repSelf, repFields, RepKernel.exclStart]

theorem rep_delta_heralded_matches_source (k : RepKernel) :
    callFn {} RepKernel_delta_heralded [repSelf k] = .int k.dHer := by
  cases h : k.heralded <;> py_simp [RepKernel_delta_heralded, repSelf, repFields, RepKernel.dHer, h]

theorem rep_delta_stabilizer_matches_source (k : RepKernel) :
    callFn {} RepKernel_delta_stabilizer [repSelf k] = .int k.dStab := by
  py_simp [RepKernel_delta_stabilizer, repSelf, repFields, RepKernel.dStab]
  omega

theorem rep_delta_final_matches_source (k : RepKernel) :
    callFn {} RepKernel_delta_final [repSelf k] = .int k.dFinal := by
  py_simp [RepKernel_delta_final, repSelf, repFields, RepKernel.dFinal]

theorem rep_stop_index_matches_source (k : RepKernel) :
    callFn {} RepKernel_stop_index [repSelf k] = .int k.stopIndex := by
  py_simp [RepKernel_stop_index, repSelf, repFields, RepKernel.stopIndex]

theorem rep_involved_matches_source (k : RepKernel) :
    callFn {} RepKernel_involved_qubit_ids [repSelf k] = nats k.involved := by
  py_simp [RepKernel_involved_qubit_ids, repSelf, repFields, RepKernel.involved]

theorem rep_heralded_index_matches_source (k : RepKernel) (e : QId) :
    callFn {} RepKernel_heralded_index [repSelf k, .int e] = ints (k.heraldedIdx e) := by
  unfold RepKernel.heraldedIdx
  cases h : k.heralded <;> by_cases hm : e ∈ k.involved <;>
  py_simp [RepKernel_heralded_index, repSelf, repFields, h, hm]

theorem rep_final_index_matches_source (k : RepKernel) (e : QId) :
    callFn {} RepKernel_final_index [repSelf k, .int e] = ints (k.finalIdx e) := by
  unfold RepKernel.finalIdx
  by_cases hm : e ∈ k.involved <;> by_cases ha : e ∈ k.ancIds <;> cases hb : (k.nr == 0) <;>
  (first
    | (have h0 : k.nr ≠ 0 := by simpa using hb
       py_simp [RepKernel_final_index, repSelf, repFields, hm, ha, h0, hb])
    | (have h0 : k.nr = 0 := by simpa using hb
       py_simp [RepKernel_final_index, repSelf, repFields, hm, ha, h0]))

theorem rep_stabilizer_indices_matches_source (k : RepKernel) (e : QId) :
    callFn {} RepKernel_stabilizer_indices [repSelf k, .int e] = ints (k.stabIdx e) := by
  unfold RepKernel.stabIdx
  by_cases ha : e ∈ k.ancIds
  · cases hb : (k.nr == 1)
    · have h1 : k.nr ≠ 1 := by simpa using hb
      have hr : rangeVals 1 (k.nr : Int) = (List.range (k.nr - 1)).map (fun (i : Nat) => Val.int (1 + i)) := by
        by_cases h0 : k.nr = 0
        · simp [h0, rangeVals]
        · have : (k.nr : Int) = 1 + ((k.nr - 1 : Nat) : Int) := by omega
          rw [this, rangeVals_eq]
      py_simp [RepKernel_stabilizer_indices, repSelf, repFields, ha, hb, h1, hr, broadcastL, List.range'_eq_map_range]
    · have h1 : k.nr = 1 := by simpa using hb
      py_simp [RepKernel_stabilizer_indices, repSelf, repFields, ha, h1]
  · py_simp [RepKernel_stabilizer_indices, repSelf, repFields, ha]

set_option maxRecDepth 8000 in
theorem rep_contains_matches_source (k : RepKernel) (e : QId) :
    callFn (elemMethods e) RepKernel_contains [repSelfE k e, .int e] = ints (k.contains e) := by
  py_simp [RepKernel_contains, repSelfE, repFields, elemMethods, RepKernel.contains, sortInts_eq]

theorem kernel_length_matches_source_rep (k : RepKernel) :
    callFn {} IIndexingKernel_kernel_length [repSelf k] = .int k.kernelLength := by
  py_simp [IIndexingKernel_kernel_length, repSelf, repFields, RepKernel.kernelLength]

theorem cal_start_index_matches_source (c : CalKernel) :
    callFn fieldMethods CalKernel_start_index [calSelf c] = .int c.startIndex := by
  cases hs : c.strategy <;>
  py_simp [CalKernel_start_index, calSelf, calFields, fieldMethods, strategyObj, CalKernel.startIndex, hs]

theorem cal_exclusive_start_matches_source (c : CalKernel) :
    callFn {} CalKernel_exclusive_start_index [calSelf c] = .int c.exclStart := by
  py_simp [CalKernel_exclusive_start_index, calSelf, calFields, CalKernel.exclStart]

theorem cal_delta_heralded_matches_source (c : CalKernel) :
    callFn {} CalKernel_delta_heralded [calSelf c] = .int c.dHer := by
  cases h : c.heralded <;> py_simp [CalKernel_delta_heralded, calSelf, calFields, CalKernel.dHer, h]

theorem cal_delta_states_match_source (c : CalKernel) :
    callFn {} CalKernel_delta_state_0 [calSelf c] = .int c.d0 ∧
    callFn {} CalKernel_delta_state_1 [calSelf c] = .int c.d1 ∧
    callFn {} CalKernel_delta_state_2 [calSelf c] = .int c.d2 := by
  refine ⟨?_, ?_, ?_⟩
  · py_simp [CalKernel_delta_state_0, calSelf, calFields, CalKernel.d0]
  · py_simp [CalKernel_delta_state_1, calSelf, calFields, CalKernel.d1]
  · py_simp [CalKernel_delta_state_2, calSelf, calFields, CalKernel.d2]

theorem cal_stop_index_matches_source (c : CalKernel) :
    callFn {} CalKernel_stop_index [calSelf c] = .int c.stopIndex := by
  py_simp [CalKernel_stop_index, calSelf, calFields, CalKernel.stopIndex]

theorem cal_heralded_states_match_source (c : CalKernel) (e : QId) :
    callFn {} CalKernel_heralded_state_0 [calSelf c, .int e] = ints (c.heralded0 e) ∧
    callFn {} CalKernel_heralded_state_1 [calSelf c, .int e] = ints (c.heralded1 e) ∧
    callFn {} CalKernel_heralded_state_2 [calSelf c, .int e] = ints (c.heralded2 e) := by
  unfold CalKernel.heralded0 CalKernel.heralded1 CalKernel.heralded2 CalKernel.heraldedGuard
  refine ⟨?_, ?_, ?_⟩
  · cases h : c.heralded <;> by_cases hm : e ∈ c.ids <;>
      py_simp [CalKernel_heralded_state_0, calSelf, calFields, h, hm]
  · cases h : c.heralded <;> by_cases hm : e ∈ c.ids <;>
      py_simp [CalKernel_heralded_state_1, calSelf, calFields, h, hm]
  · cases h : c.heralded <;> by_cases hm : e ∈ c.ids <;>
      py_simp [CalKernel_heralded_state_2, calSelf, calFields, h, hm]

theorem cal_states_match_source (c : CalKernel) (e : QId) :
    callFn {} CalKernel_state_0 [calSelf c, .int e] = ints (c.state0 e) ∧
    callFn {} CalKernel_state_1 [calSelf c, .int e] = ints (c.state1 e) ∧
    callFn {} CalKernel_state_2 [calSelf c, .int e] = ints (c.state2 e) := by
  unfold CalKernel.state0 CalKernel.state1 CalKernel.state2 CalKernel.stateGuard
  refine ⟨?_, ?_, ?_⟩
  · by_cases hm : e ∈ c.ids <;> py_simp [CalKernel_state_0, calSelf, calFields, hm]
  · by_cases hm : e ∈ c.ids <;> py_simp [CalKernel_state_1, calSelf, calFields, hm]
  · by_cases hm : e ∈ c.ids <;> py_simp [CalKernel_state_2, calSelf, calFields, hm]

theorem cal_contains_matches_source (c : CalKernel) (e : QId) :
    callFn (elemMethods e) CalKernel_contains [calSelfE c e, .int e] = ints (c.contains e) := by
  py_simp [CalKernel_contains, calSelfE, calFields, elemMethods, CalKernel.contains, sortInts_eq]

theorem kernel_length_matches_source_cal (c : CalKernel) :
    callFn {} IIndexingKernel_kernel_length [calSelf c] = .int c.kernelLength := by
  py_simp [IIndexingKernel_kernel_length, calSelf, calFields, CalKernel.kernelLength]

theorem exp_repetitions_matches_source (K : ExpKernel) (e : QId) :
    callFn {} ExpKernel_experiment_repetitions [expSelf K e] = .int K.reps := by
  py_simp [ExpKernel_experiment_repetitions, expSelf, expFields]

/-- `indexing_kernels[0].start_index` (the constructor guarantees a non-empty kernel list). -/
theorem exp_start_index_matches_source (K : ExpKernel) (e : QId) (hne : K.indexingKernels ≠ []) :
    callFn {} ExpKernel_start_index [expSelf K e] = .int K.startIndex := by
  unfold ExpKernel.startIndex
  cases hk : K.indexingKernels with
  | nil => exact absurd hk hne
  | cons k rest =>
    have h0 := indexVal_map_zero ikVal k rest
    have hv : Vars.get (bindParams ExpKernel_start_index.params [expSelf K e] []) "self" = expSelf K e := by
      simp [ExpKernel_start_index, bindParams, Vars.get, Vars.set]
    simp only [callFn, ExpKernel_start_index, execBlock, exec, eval] at hv ⊢
    simp only [hv, expSelf_indexing, hk, h0, ikVal_start]
    simp

theorem exp_cycle_length_matches_source (K : ExpKernel) (e : QId) (hne : K.indexingKernels ≠ []) :
    callFn {} ExpKernel_kernel_cycle_length [expSelf K e] = .int K.cycleLength := by
  unfold ExpKernel.cycleLength ExpKernel.lastStopIndex ExpKernel.startIndex
  cases hk : K.indexingKernels with
  | nil => exact absurd hk hne
  | cons k rest =>
    obtain ⟨lst, hl⟩ : ∃ lst, (k :: rest).getLast? = some lst := ⟨_, List.getLast?_eq_some_getLast (by simp)⟩
    have h0 := indexVal_map_zero ikVal k rest
    have h1 := indexVal_map_last ikVal (k :: rest) lst hl
    have hv : Vars.get (bindParams ExpKernel_kernel_cycle_length.params [expSelf K e] []) "self" = expSelf K e := by
      simp [ExpKernel_kernel_cycle_length, bindParams, Vars.get, Vars.set]
    simp only [callFn, ExpKernel_kernel_cycle_length, execBlock, exec, eval] at hv ⊢
    simp only [hv, expSelf_indexing, hk, h0, h1, ikVal_start, ikVal_stop, hl]
    simp [evalBin, Val.asInt?, intBin, Val.isErr, Vars.get, Vars.set]

theorem exp_stop_index_matches_source (K : ExpKernel) (e : QId) :
    callFn {} ExpKernel_stop_index [expSelf K e] = .int K.stopIndex := by
  py_simp [ExpKernel_stop_index, expSelf, expFields, ExpKernel.stopIndex]

/-- the list the source builds holds the kernels' objects for element `e` (the calibration kernel iff the flag). -/
theorem exp_indexing_kernels_matches_source (K : ExpKernel) (e : QId) :
    callFn {} ExpKernel_indexing_kernels [expSelf K e] =
      .list (K.repKernels.map (fun k => repSelfE k e) ++ (if K.qutrit then [calSelfE K.calKernel e] else [])) := by
  cases h : K.qutrit <;> py_simp [ExpKernel_indexing_kernels, expSelf, expFields, h]

theorem exp_heralded_cycle_matches_source (K : ExpKernel) (e : QId) (count : Nat) :
    callFn (expEnv e) ExpKernel_heralded_cycle [expSelf K e, .int e, .int count] = cycleVal (K.heraldedCycle e count) := by
  have L := cycle_loop e count
    [.ifs (.cmp .eq (.attr (.name "repetition_kernel") "nr_repeated_parities") (.name "cycle_stabilizer_count"))
      [.assign "heralded_indices" (.mcall (.name "repetition_kernel") "get_heralded_measurement_index" [.name "qubit_id"]),
       .ret (.mcall (.name "self") "create_sliced_arrays" [.name "heralded_indices", .attr (.name "self") "kernel_cycle_length", .attr (.name "self") "experiment_repetitions"])] []]
    (fun k => arr2 (slicedArrays (k.heraldedIdx e) K.cycleLength K.reps))
    (bindParams ExpKernel_heralded_cycle.params [expSelf K e, .int e, .int count] [])
    (by
      intro k
      cases hk : (k.nr == count) <;>
      py_simp [ExpKernel_heralded_cycle, expEnv, expSelf, expFields, repSelfE, repFields, hk])
    K.repKernels _ (fun _ => rfl)
  have hiter : (eval (expEnv e) (bindParams ExpKernel_heralded_cycle.params [expSelf K e, .int e, .int count] [])
      (.attr (.name "self") "_repetition_kernels")).elems? = some (K.repKernels.map (fun k => repSelfE k e)) := by
    py_simp [ExpKernel_heralded_cycle, expSelf, expFields]
  unfold ExpKernel.heraldedCycle ExpKernel.findKernel
  have hbodyEq : ExpKernel_heralded_cycle.body = [.for_ "repetition_kernel" (.attr (.name "self") "_repetition_kernels")
      [.ifs (.cmp .eq (.attr (.name "repetition_kernel") "nr_repeated_parities") (.name "cycle_stabilizer_count"))
      [.assign "heralded_indices" (.mcall (.name "repetition_kernel") "get_heralded_measurement_index" [.name "qubit_id"]),
       .ret (.mcall (.name "self") "create_sliced_arrays" [.name "heralded_indices", .attr (.name "self") "kernel_cycle_length", .attr (.name "self") "experiment_repetitions"])] []], .ret (.call "np.asarray" [.list []])] := rfl
  have harity : (ExpKernel_heralded_cycle.params.length != [expSelf K e, Val.int ↑e, Val.int ↑count].length) = false := rfl
  unfold callFn
  rw [harity, hbodyEq, execBlock_for _ _ _ _ _ _ _ hiter]
  cases hf : K.repKernels.find? (fun k => k.nr == count) with
  | none =>
    rw [hf] at L
    obtain ⟨vs'', hv⟩ := L
    rw [hv]
    py_simp [cycleVal]
  | some k =>
    rw [hf] at L
    rw [L]
    simp [cycleVal]

theorem exp_stabilizer_and_projected_cycle_matches_source (K : ExpKernel) (e : QId) (count : Nat) :
    callFn (expEnv e) ExpKernel_stabilizer_and_projected_cycle [expSelf K e, .int e, .int count] = cycleVal (K.stabilizerAndProjectedCycle e count) := by
  have L := cycle_loop e count
    [.ifs (.cmp .eq (.attr (.name "repetition_kernel") "nr_repeated_parities") (.name "cycle_stabilizer_count"))
      [.assign "stabilizer_measurement_indices" (.mcall (.name "repetition_kernel") "get_ordered_stabilizer_measurement_indices" [.name "qubit_id"]),
       .assign "final_measurement_indices" (.mcall (.name "repetition_kernel") "get_final_measurement_index" [.name "qubit_id"]),
       .ret (.mcall (.name "self") "create_sliced_arrays" [.bin .add (.name "stabilizer_measurement_indices") (.name "final_measurement_indices"), .attr (.name "self") "kernel_cycle_length", .attr (.name "self") "experiment_repetitions"])] []]
    (fun k => arr2 (slicedArrays (k.stabIdx e ++ k.finalIdx e) K.cycleLength K.reps))
    (bindParams ExpKernel_stabilizer_and_projected_cycle.params [expSelf K e, .int e, .int count] [])
    (by
      intro k
      cases hk : (k.nr == count) <;>
      py_simp [ExpKernel_stabilizer_and_projected_cycle, expEnv, expSelf, expFields, repSelfE, repFields, hk])
    K.repKernels _ (fun _ => rfl)
  have hiter : (eval (expEnv e) (bindParams ExpKernel_stabilizer_and_projected_cycle.params [expSelf K e, .int e, .int count] [])
      (.attr (.name "self") "_repetition_kernels")).elems? = some (K.repKernels.map (fun k => repSelfE k e)) := by
    py_simp [ExpKernel_stabilizer_and_projected_cycle, expSelf, expFields]
  unfold ExpKernel.stabilizerAndProjectedCycle ExpKernel.findKernel
  have hbodyEq : ExpKernel_stabilizer_and_projected_cycle.body = [.for_ "repetition_kernel" (.attr (.name "self") "_repetition_kernels")
      [.ifs (.cmp .eq (.attr (.name "repetition_kernel") "nr_repeated_parities") (.name "cycle_stabilizer_count"))
      [.assign "stabilizer_measurement_indices" (.mcall (.name "repetition_kernel") "get_ordered_stabilizer_measurement_indices" [.name "qubit_id"]),
       .assign "final_measurement_indices" (.mcall (.name "repetition_kernel") "get_final_measurement_index" [.name "qubit_id"]),
       .ret (.mcall (.name "self") "create_sliced_arrays" [.bin .add (.name "stabilizer_measurement_indices") (.name "final_measurement_indices"), .attr (.name "self") "kernel_cycle_length", .attr (.name "self") "experiment_repetitions"])] []], .ret (.call "np.asarray" [.list []])] := rfl
  have harity : (ExpKernel_stabilizer_and_projected_cycle.params.length != [expSelf K e, Val.int ↑e, Val.int ↑count].length) = false := rfl
  unfold callFn
  rw [harity, hbodyEq, execBlock_for _ _ _ _ _ _ _ hiter]
  cases hf : K.repKernels.find? (fun k => k.nr == count) with
  | none =>
    rw [hf] at L
    obtain ⟨vs'', hv⟩ := L
    rw [hv]
    py_simp [cycleVal]
  | some k =>
    rw [hf] at L
    rw [L]
    simp [cycleVal]

theorem exp_projected_cycle_matches_source (K : ExpKernel) (e : QId) (count : Nat) :
    callFn (expEnv e) ExpKernel_projected_cycle [expSelf K e, .int e, .int count] = cycleVal (K.projectedCycle e count) := by
  have L := cycle_loop e count
    [.ifs (.cmp .eq (.attr (.name "repetition_kernel") "nr_repeated_parities") (.name "cycle_stabilizer_count"))
      [.assign "final_measurement_indices" (.mcall (.name "repetition_kernel") "get_final_measurement_index" [.name "qubit_id"]),
       .ret (.mcall (.name "self") "create_sliced_arrays" [.name "final_measurement_indices", .attr (.name "self") "kernel_cycle_length", .attr (.name "self") "experiment_repetitions"])] []]
    (fun k => arr2 (slicedArrays (k.finalIdx e) K.cycleLength K.reps))
    (bindParams ExpKernel_projected_cycle.params [expSelf K e, .int e, .int count] [])
    (by
      intro k
      cases hk : (k.nr == count) <;>
      py_simp [ExpKernel_projected_cycle, expEnv, expSelf, expFields, repSelfE, repFields, hk])
    K.repKernels _ (fun _ => rfl)
  have hiter : (eval (expEnv e) (bindParams ExpKernel_projected_cycle.params [expSelf K e, .int e, .int count] [])
      (.attr (.name "self") "_repetition_kernels")).elems? = some (K.repKernels.map (fun k => repSelfE k e)) := by
    py_simp [ExpKernel_projected_cycle, expSelf, expFields]
  unfold ExpKernel.projectedCycle ExpKernel.findKernel
  have hbodyEq : ExpKernel_projected_cycle.body = [.for_ "repetition_kernel" (.attr (.name "self") "_repetition_kernels")
      [.ifs (.cmp .eq (.attr (.name "repetition_kernel") "nr_repeated_parities") (.name "cycle_stabilizer_count"))
      [.assign "final_measurement_indices" (.mcall (.name "repetition_kernel") "get_final_measurement_index" [.name "qubit_id"]),
       .ret (.mcall (.name "self") "create_sliced_arrays" [.name "final_measurement_indices", .attr (.name "self") "kernel_cycle_length", .attr (.name "self") "experiment_repetitions"])] []], .ret (.call "np.asarray" [.list []])] := rfl
  have harity : (ExpKernel_projected_cycle.params.length != [expSelf K e, Val.int ↑e, Val.int ↑count].length) = false := rfl
  unfold callFn
  rw [harity, hbodyEq, execBlock_for _ _ _ _ _ _ _ hiter]
  cases hf : K.repKernels.find? (fun k => k.nr == count) with
  | none =>
    rw [hf] at L
    obtain ⟨vs'', hv⟩ := L
    rw [hv]
    py_simp [cycleVal]
  | some k =>
    rw [hf] at L
    rw [L]
    simp [cycleVal]

/-- key of a calibration state as the enum constant of the source. -/
def stateVal : StateKey → Val
  | .s0 => .enum "StateKey" "STATE_0"
  | .s1 => .enum "StateKey" "STATE_1"
  | .s2 => .enum "StateKey" "STATE_2"

/-- the two calibration getters (guard on the flag, dispatch on the state key, `create_sliced_array`). -/
theorem exp_projected_calibration_matches_source (K : ExpKernel) (e : QId) (s : StateKey) :
    callFn (expEnv e) ExpKernel_projected_calibration [expSelf K e, .int e, stateVal s] =
      .arr ((K.projectedCalibration e s).map Val.int) := by
  unfold ExpKernel.projectedCalibration CalKernel.projectedState
  cases hq : K.qutrit <;> cases s <;>
  py_simp [ExpKernel_projected_calibration, expEnv, expSelf, expFields, calSelfE, calFields, stateVal, hq]

theorem exp_heralded_calibration_matches_source (K : ExpKernel) (e : QId) (s : StateKey) :
    callFn (expEnv e) ExpKernel_heralded_calibration [expSelf K e, .int e, stateVal s] =
      .arr ((K.heraldedCalibration e s).map Val.int) := by
  unfold ExpKernel.heraldedCalibration CalKernel.heraldedState
  cases hq : K.qutrit <;> cases s <;>
  py_simp [ExpKernel_heralded_calibration, expEnv, expSelf, expFields, calSelfE, calFields, stateVal, hq]

/-- the decorators of the translated members are the ones the model assumes (`property` for the attributes read without call). -/
theorem kernel_members_decorators :
    RepKernel_stop_index.decorators = ["property"] ∧ RepKernel_start_index.decorators = ["property"] ∧
    CalKernel_stop_index.decorators = ["property"] ∧ ExpKernel_kernel_cycle_length.decorators = ["property"] ∧
    ExpKernel_stop_index.decorators = ["property"] ∧ RepKernel_contains.decorators = [] ∧
    ExpKernel_heralded_cycle.decorators = [] := by decide

end SourceTie


end Qco.C12
