import QcoVerif.Properties.C03
import QcoVerif.Lemmas.BuilderSrc
/-
  C03 — tie to the SOURCE TEXT (DESIGN.md §2.3b).  Kept in a file of its own that nothing imports: a change of the translated
  source functions breaks THESE obligations only, not the build of the property files that import Properties/C03.lean.
-/
namespace Qco.C03
open Qco

/-! ### tie to the SOURCE TEXT of the builder (DESIGN.md §2.3b; proofs in Lemmas/BuilderSrc.lean)

`decomposed_operations` (the listing).  The functions act on objects: the fragment records such effects (`Py.callEffects`) instead of executing them. -/

section BuilderSourceTie
open Qco.Py Qco.Gen.PySrc Qco.BuilderSrc

/-- **`decomposed_operations`**: hands the enclosing link to exactly the relation-less nodes (an effect on those operations) and returns the concatenation of the nodes' own decompositions — the step of `World.decomposed`. -/
theorem decomposed_matches_source (nodes : List (Nat × Bool × List Nat)) :
    callFn builderEnv Composite_decomposed [compSelf nodes] = nats ((nodes.map (·.2.2)).flatten) ∧
    callEffects builderEnv Composite_decomposed [compSelf nodes] = decEffects nodes :=
  BuilderSrc.decomposed_matches_source nodes

end BuilderSourceTie


end Qco.C03
