"""Build programs: representation, generator, runner on the real API, serialiser for the Lean driver.

A program is a list of commands (JSON-able lists):
  ["new", rep]                       rep = "f<n>" fixed count | "r<key>" registry-provided count
  ["gdur", ro, mw, fl, rs]           enter a temporary global-duration override (units of 1/8)
  ["gdur-leave"]                     leave it
  ["setreg", key, value]             DurationRegistry.set_registry_at
  ["setrep", key, value]             RepetitionRegistry.set_registry_at
  ["op", c, cls, qs, chan, dur, tag, reg, ints, rel]   create + add an operation → handle
        rel = None | [h, "FB"|"JS"|"JE"]   a fresh RelationLink to handle h
            | [h, "SAME"]                  the very link OBJECT handle h carries at that moment (shared instance)
            | [[h1, h2, …], "FB"|"JS"|"JE"]  a fresh MultiRelationLink (latest of the group) with that relation type
  ["sub", a, b]                      a.add(b) → handle
  ["list", c] ["dur", c] ["chans", c] ["reps", c]       observers (list = listing + times + acquisition indices)
  ["ops", c]                         pure listing (c.operations only; answers the count)
  ["copyobs", c]                     copy the structure and list the copy (observer)
  ["apply", c] ["flatten", c] ["copy", c]               mutators (copy → new circuit handle)
  ["new", rep, [h, T]]               a circuit constructed with an explicit relation T to the existing operation h
  ["adopt", h]                       the nested copy a `sub` returned (handle h) becomes a circuit index of its own: the caller
                                     keeps the handle and adds to it later (forced streams only)
"""
from __future__ import annotations
import contextlib
import io
import os
import sys
import warnings

os.environ.setdefault('TQDM_DISABLE', '1')
os.environ.setdefault('MPLBACKEND', 'Agg')
warnings.filterwarnings('ignore')

UNIT = 8  # model time unit = 1/8

SINGLE_MW = ['Identity', 'Hadamard', 'Rx180', 'Rx90', 'Rxm90', 'Ry180', 'Ry90', 'Rym90', 'Rx180ef',
             'VirtualPhase', 'Rphi90']
CHANNELLED = ['Wait', 'VirtualVacant', 'VirtualEmpty']
TWO = ['TwoQubitOperation', 'CPhase', 'TwoQubitVirtualPhase', 'VirtualTwoQubitVacant']
ALL_LEAF = (['SingleQubitOperation', 'Reset'] + CHANNELLED + SINGLE_MW + ['VirtualPark'] + TWO +
            ['DispersiveMeasure', 'Barrier', 'CoordinateShiftOperation', 'DetectorOperation',
             'LogicalObservableOperation'])
DUR_SETTABLE = {'SingleQubitOperation', 'Wait', 'TwoQubitOperation', 'VirtualVacant', 'VirtualTwoQubitVacant',
                'VirtualEmpty'}
NO_RELATION_ARG = {'Barrier', 'CoordinateShiftOperation'}
OBSERVERS = {'list', 'dur', 'chans', 'reps', 'copyobs', 'collisions', 'ops', 'evalcheck'}


# ----------------------------------------------------------------------------- serialisation for Lean

def _ints(xs):
    return ','.join(str(x) for x in xs) if xs else '-'


def rel_spec(rel) -> str:
    if rel is None:
        return '-'
    if isinstance(rel[0], list):
        return 'm' + '+'.join(str(h) for h in rel[0]) + f':{rel[1]}'
    return f'{rel[0]}:{rel[1]}'


def rel_handles(rel) -> list:
    if rel is None:
        return []
    return list(rel[0]) if isinstance(rel[0], list) else [rel[0]]


def to_lines(prog, ambient):
    """Driver lines for a program. `ambient` = (ro, mw, fl, rs) in force outside overrides."""
    lines = ['heap reset', 'heap gdur %d %d %d %d' % tuple(ambient)]
    for cmd in prog:
        k = cmd[0]
        if k == 'op':
            _, c, cls, qs, chan, dur, tag, reg, ints, rel = cmd
            ints_s = ','.join('n' if x is None else str(x) for x in ints) if ints else '-'
            rel_s = rel_spec(rel)
            lines.append(f'heap op {c} {cls} {_ints(qs)} {chan} {dur or "-"} {tag} {reg} {ints_s} {rel_s}')
        elif k == 'gdur':
            lines.append('heap gdur %d %d %d %d' % tuple(cmd[1:5]))
        elif k == 'gdur-leave':
            lines.append('heap gdur %d %d %d %d' % tuple(ambient))
        elif k == 'new' and len(cmd) > 2 and cmd[2] is not None:
            lines.append(f'heap new {cmd[1]} {cmd[2][0]}:{cmd[2][1]}')
        elif k == 'new':
            lines.append(f'heap new {cmd[1]}')
        else:
            lines.append('heap ' + ' '.join(str(x) for x in cmd))
    return lines


def model_answer(prog, model_out, i):
    """answer of the model for command i of prog (model_out as returned by stream.run_model_many)."""
    return model_out[i]


def observer_positions(prog):
    """indices into to_lines(prog) of the observer commands (2 preamble lines)."""
    return [i + 2 for i, cmd in enumerate(prog) if cmd[0] in OBSERVERS]


# ----------------------------------------------------------------------------- the real API

_api = None


def api():
    """Lazy import of the implementation (so that harness modules import without it)."""
    global _api
    if _api is not None:
        return _api
    import types
    with contextlib.redirect_stderr(io.StringIO()):
        import qce_circuit  # noqa
        from qce_circuit.language.declarative_circuit import DeclarativeCircuit
        from qce_circuit.structure import circuit_operations as co
        from qce_circuit.addon_stim import circuit_operations as so
        from qce_circuit.structure.intrf_circuit_operation import (
            RelationLink, RelationType, QubitChannel, MultiRelationLink, ChannelIdentifier)
        from qce_circuit.structure.intrf_circuit_operation_composite import CircuitCompositeOperation
        from qce_circuit.structure import registry_duration as rd
        from qce_circuit.structure import registry_repetition as rr
        from qce_circuit.library.repetition_code.circuit_components import GlobalDecouplingWaitDurationStrategy
    ns = types.SimpleNamespace(
        DeclarativeCircuit=DeclarativeCircuit, co=co, so=so, RelationLink=RelationLink, RelationType=RelationType,
        QubitChannel=QubitChannel, MultiRelationLink=MultiRelationLink, ChannelIdentifier=ChannelIdentifier,
        CircuitCompositeOperation=CircuitCompositeOperation, rd=rd, rr=rr,
        Decoupling=GlobalDecouplingWaitDurationStrategy)
    ns.RT = {'FB': RelationType.FOLLOWED_BY, 'JS': RelationType.JOINED_START, 'JE': RelationType.JOINED_END}
    ns.QC = {'A': QubitChannel.ALL, 'R': QubitChannel.READOUT, 'M': QubitChannel.MICROWAVE, 'F': QubitChannel.FLUX}
    ns.QC_INV = {v: k for k, v in ns.QC.items()}
    ns.GK = {'R': rd.GlobalRegistryKey.READOUT, 'M': rd.GlobalRegistryKey.MICROWAVE,
             'F': rd.GlobalRegistryKey.FLUX, 'S': rd.GlobalRegistryKey.RESET}
    ns.classes = {}
    for name in ALL_LEAF:
        ns.classes[name] = getattr(co, name, None) or getattr(so, name)
    _api = ns
    return ns


def clear_caches():
    a = api()
    for cls in (a.RelationLink, a.MultiRelationLink):
        f = getattr(cls.get_start_time, 'cache_clear', None)
        if f:
            f()


def ambient_durations():
    """(ro, mw, fl, rs) currently answered by the global registry, in model units."""
    a = api()
    reg = a.rd.GlobalDurationRegistryManager.read_config()
    vals = [reg.get_registry_at(a.GK[k]) for k in 'RMFS']
    return tuple(to_units(v) for v in vals)


class NonDyadic(Exception):
    pass


def to_units(x: float) -> int:
    y = float(x) * UNIT
    if y != int(y):
        raise NonDyadic(repr(x))
    return int(y)


def qubits_of(op) -> list:
    if hasattr(op, 'qubit_indices'):
        return list(op.qubit_indices)
    if hasattr(op, 'control_qubit_index'):
        return [op.control_qubit_index, op.target_qubit_index]
    return [op.qubit_index]


def ints_of(op) -> list:
    n = type(op).__name__
    if n == 'DetectorOperation':
        return [op.last_acquisition_index, op.main_target, op.secondary_target, op.reference_offset, op.secondary_offset]
    if n == 'LogicalObservableOperation':
        return [op.last_acquisition_index, op.main_target]
    if n == 'CoordinateShiftOperation':
        return [op.time_shift, op.space_shift]
    return []


def show_chans(chs) -> str:
    a = api()
    return '.'.join(f'{c.id}{a.QC_INV[c.channel]}' for c in chs)


def show_op(op, with_acq=True) -> str:
    """Canonical entry, same format as the Lean driver's `showListing`."""
    n = type(op).__name__
    s = to_units(op.start_time)
    d = to_units(op.duration)
    acq = '-'
    tag = 0
    if n == 'DispersiveMeasure':
        if with_acq:
            acq = f'{op.acquisition_index},{op.circuit_level_acquisition_index}'
        t = op.acquisition_tag
        tag = int(t[1:]) if t.startswith('t') and t[1:].isdigit() else -1
    ints = ints_of(op)
    ints_s = ','.join('n' if x is None else str(x) for x in ints) if ints else '-'
    return f'{n} {_ints(qubits_of(op))} {show_chans(op.channel_identifiers)} {s} {d} {acq} {tag} {ints_s}'



def graph_nodes(structure):
    """direct node operations of a composite, listing order (read-only)."""
    return [n.operation for n in structure._circuit_graph.get_node_iterator()]


def expand(structure):
    """leaf operations below a composite, without the mutating listing."""
    a = api()
    out = []
    for o in graph_nodes(structure):
        if isinstance(o, a.CircuitCompositeOperation):
            out.extend(expand(o))
        else:
            out.append(o)
    return out


def sig(op):
    """value signature of a leaf operation: kind, qubits, channels, duration strategy, tag, extra fields."""
    d = op.duration_strategy
    dn = type(d).__name__
    if dn == 'FixedDurationStrategy':
        ds = ('f', d.duration)
    elif dn == 'GlobalDurationStrategy':
        ds = ('g', d.key.name)
    elif dn == 'RegistryDurationStrategy':
        ds = ('r', d.registry_key)
    else:
        ds = (dn,)
    tag = getattr(op, 'acquisition_tag', None)
    return (type(op).__name__, tuple(qubits_of(op)), show_chans(op.channel_identifiers), ds, tag,
            tuple(ints_of(op)))


def shadow_count(sh):
    """Counter of leaf signatures of a shadow structure (sub-circuits expanded once)."""
    from collections import Counter
    c = Counter()
    for it in sh['items']:
        if it[0] == 'leaf':
            c[it[1]] += 1
        else:
            c.update(shadow_count(it[1]))
    return c


def shadow_leaves(sh):
    for it in sh['items']:
        if it[0] == 'leaf':
            yield it
        else:
            yield from shadow_leaves(it[1])


class ImplRun:
    """Executes a program on the real API."""

    def __init__(self, clear_cache: bool = False):
        self.a = api()
        self.circs = []
        self.handles = []
        self.dreg = self.a.rd.DurationRegistry()
        self.rreg = self.a.rr.RepetitionRegistry()
        self.stack = contextlib.ExitStack()
        self.in_override = False
        self.clear_cache = clear_cache
        self.ctx = None
        self.shadow = []
        self.last_ops = None
        self.implicit_only = True
        self.nested_into = {}     # circuit index -> set of circuit indices it was (transitively) nested into
        self.meas_reg = {}        # id(measurement original) -> circuit index of its registry
        self.shadow_broken = False
        self.handle_shadow = {}     # handle of a placed sub-circuit -> its shadow object inside the parent's shadow
        self.adopted = False
        self.twins = {}           # circuit index -> earlier wrapper objects around the SAME structure (apply_modifiers() and
                                  # flatten() return a new DeclarativeCircuit sharing the structure modified in place)

    def close(self):
        if self.in_override and self.ctx is not None:
            try:
                self.ctx.__exit__(None, None, None)
            except Exception:
                pass
            self.in_override = False
        self.stack.close()

    def _dur(self, spec):
        a = self.a
        if spec.startswith('f'):
            return a.rd.FixedDurationStrategy(int(spec[1:]) / UNIT)
        if spec.startswith('g'):
            return a.rd.GlobalDurationStrategy(a.GK[spec[1]])
        if spec.startswith('r'):
            return a.rd.RegistryDurationStrategy(self.dreg, spec[1:])
        if spec == 'd':
            return a.Decoupling()
        raise ValueError(spec)

    def _rep(self, spec):
        a = self.a
        if spec.startswith('f'):
            return a.rr.FixedRepetitionStrategy(int(spec[1:]))
        return a.rr.RegistryRepetitionStrategy(self.rreg, spec[1:])

    def make_op(self, cls, qs, chan, dur, tag, reg, ints, rel):
        a = self.a
        C = a.classes[cls]
        kw = {}
        if rel is not None and cls not in NO_RELATION_ARG:
            if isinstance(rel[0], list):
                kw['relation'] = a.MultiRelationLink(_reference_nodes=[self.handles[h] for h in rel[0]],
                                                     _relation_type=a.RT[rel[1]])
            elif rel[1] == 'SAME':
                kw['relation'] = self.handles[rel[0]].relation_link
            else:
                kw['relation'] = a.RelationLink(self.handles[rel[0]], a.RT[rel[1]])
        if dur is not None and cls in DUR_SETTABLE:
            kw['duration_strategy'] = self._dur(dur)
        if cls in CHANNELLED or cls == 'VirtualTwoQubitVacant':
            kw['qubit_channel'] = a.QC[chan]
        if cls == 'DispersiveMeasure':
            return C(qs[0], acquisition_strategy=self.circs[reg].get_acquisition_strategy(),
                     acquisition_tag=f't{tag}', **kw)
        if cls == 'Barrier':
            return C(list(qs))
        if cls == 'CoordinateShiftOperation':
            return C(list(qs), time_shift=ints[0], space_shift=ints[1])
        if cls == 'DetectorOperation':
            return C(qs[0], last_acquisition_index=ints[0], main_target=ints[1], secondary_target=ints[2],
                     reference_offset=ints[3], secondary_offset=ints[4], **kw)
        if cls == 'LogicalObservableOperation':
            return C(qs[0], last_acquisition_index=ints[0], main_target=ints[1], **kw)
        if cls in TWO:
            return C(qs[0], qs[1], **kw)
        return C(qs[0], **kw)

    def rep_count(self, spec):
        if spec.startswith('f'):
            return int(spec[1:])
        return self.rreg.get_registry_at(spec[1:])

    def shadow_unroll(self, sh):
        """shadow after apply_modifiers: counts multiplied out, all counts reset."""
        import copy as _copy
        items = []
        for it in sh['items']:
            if it[0] == 'leaf':
                items.append(it)
            else:
                items.append(('sub', self.shadow_unroll(it[1])))
        n = max(1, self.rep_count(sh['rep']))
        return {'rep': 'f1', 'items': [_copy.deepcopy(it) for _ in range(n) for it in items]}

    def measurements_own_registry(self, c):
        """every measurement listed in circuit c was created against the registry of the circuit it was added to
        (the quantifier of C07), decided from the program, not from the implementation's state."""
        if self.shadow_broken:
            return False
        return all(it[2] for it in shadow_leaves(self.shadow[c]))

    def shadow_expected(self, c):
        if self.shadow_broken:
            return None
        try:
            return shadow_count(self.shadow[c])
        except Exception:
            return None

    def observe_list(self, c) -> str:
        if self.clear_cache:
            clear_caches()
        circ = self.circs[c]
        rows = []
        self.last_ops = None
        ops = circ.operations
        for o in ops:
            if self.clear_cache:
                clear_caches()
            rows.append(show_op(o))
        self.last_ops = ops
        if self.clear_cache:
            clear_caches()
        ans = ';'.join(rows) + f' # {to_units(circ.duration)}'
        # the wrappers a caller still holds from before apply_modifiers()/flatten() describe the same circuit: what they list
        # is part of the observation (on the unchanged code they cannot differ — one shared structure, nothing kept per wrapper)
        for j, old in enumerate(self.twins.get(c, [])):
            rows2 = [show_op(o) for o in old.operations]
            ans2 = ';'.join(rows2) + f' # {to_units(old.duration)}'
            if ans2 != ans:
                ans += f' !earlier-wrapper{j}: {ans2}'
        return ans

    def step(self, cmd):
        """Returns the observer answer (str) or None."""
        a = self.a
        k = cmd[0]
        if k == 'new':
            # `nr_qubits` is advisory (nothing in the package reads it): circuits are declared with 0, 1, 2 qubits in turn, whatever
            # qubits they are then given (seeded change C07-m7: an index filter that trusts the declared number)
            nq = (0, 1, 2, 0)[len(self.circs) % 4]
            if len(cmd) > 2 and cmd[2] is not None:
                # a circuit constructed with an explicit relation to an existing operation
                self.implicit_only = False
                self.circs.append(a.DeclarativeCircuit(nr_qubits=nq, relation=a.RelationLink(self.handles[cmd[2][0]], a.RT[cmd[2][1]]),
                                                       repetition_strategy=self._rep(cmd[1])))
            else:
                self.circs.append(a.DeclarativeCircuit(nr_qubits=nq, repetition_strategy=self._rep(cmd[1])))
            self.shadow.append({'rep': cmd[1], 'items': []})
        elif k == 'gdur':
            if self.in_override:
                self.ctx.__exit__(None, None, None)
            vals = {a.GK[key]: v / UNIT for key, v in zip('RMFS', cmd[1:5])}
            self.ctx = a.rd.temporary_override_get_registry_at(vals)
            self.ctx.__enter__()
            self.in_override = True
        elif k == 'gdur-leave':
            if self.in_override:
                self.ctx.__exit__(None, None, None)
                self.in_override = False
        elif k == 'setreg':
            self.dreg.set_registry_at(str(cmd[1]), cmd[2] / UNIT)
        elif k == 'setrep':
            self.rreg.set_registry_at(str(cmd[1]), cmd[2])
        elif k == 'op':
            _, c, cls, qs, chan, dur, tag, reg, ints, rel = cmd
            op = self.make_op(cls, qs, chan, dur, tag, reg, ints, rel)
            if rel is not None and cls not in NO_RELATION_ARG:
                self.implicit_only = False
            ret = self.circs[c].add(op)
            assert ret is op, 'add() must return the added operation'
            assert self.circs[c].get_last_entry() is op, 'get_last_entry() must return the added operation'
            self.handles.append(op)
            self.shadow[c]['items'].append(('leaf', sig(op), cls != 'DispersiveMeasure' or reg == c))
        elif k == 'sub':
            ret = self.circs[cmd[1]].add(self.circs[cmd[2]])
            assert isinstance(ret, a.CircuitCompositeOperation)
            assert self.circs[cmd[1]].get_last_entry() is ret
            self.handles.append(ret)
            import copy as _copy
            sh = _copy.deepcopy(self.shadow[cmd[2]])
            self.shadow[cmd[1]]['items'].append(('sub', sh))
            self.handle_shadow[len(self.handles) - 1] = sh
        elif k == 'adopt':
            # the nested copy a `sub` returned, kept by the caller and added to later: addressable as a circuit of its own
            obj = self.handles[cmd[1]]
            assert isinstance(obj, a.CircuitCompositeOperation)
            d = a.DeclarativeCircuit()
            d._structure = obj
            self.circs.append(d)
            sh = self.handle_shadow.get(cmd[1])
            if sh is not None:
                # the parent's shadow holds this very object: what is added through the handle is expected in the parent's listing
                # (seeded change C02-m9: a listing cached per wrapper loses exactly these operations)
                self.shadow.append(sh)
                self.adopted = True
            else:
                self.shadow.append({'rep': 'f1', 'items': []})
                self.shadow_broken = True      # the shadow of the parent no longer follows what is added through the handle
        elif k == 'list':
            return self.observe_list(cmd[1])
        elif k == 'dur':
            if self.clear_cache:
                clear_caches()
            return str(to_units(self.circs[cmd[1]].duration))
        elif k == 'ops':
            return str(len(self.circs[cmd[1]].operations))
        elif k == 'copyobs':
            cp = self.circs[cmd[1]].circuit_structure.copy()
            rows = [show_op(o) for o in cp.decomposed_operations()]
            return ';'.join(rows) + f' # {to_units(cp.duration)}'
        elif k in ('collisions', 'evalcheck'):
            return None   # model-only diagnostics
        elif k == 'chans':
            return show_chans(self.circs[cmd[1]].occupied_qubit_channels)
        elif k == 'reps':
            return _ints([x.nr_of_repetitions for x in self.circs[cmd[1]].composite_operations])
        elif k == 'apply':
            if self.clear_cache:
                clear_caches()
            self.shadow[cmd[1]] = self.shadow_unroll(self.shadow[cmd[1]])
            self.handle_shadow.clear()       # placed copies may be replaced by the unrolling: later adoptions are not followed
            if self.adopted:
                self.shadow_broken = True
            self.twins.setdefault(cmd[1], []).append(self.circs[cmd[1]])
            self.circs[cmd[1]] = self.circs[cmd[1]].apply_modifiers()
        elif k == 'flatten':
            if self.clear_cache:
                clear_caches()
            self.twins.setdefault(cmd[1], []).append(self.circs[cmd[1]])
            self.circs[cmd[1]] = self.circs[cmd[1]].flatten()
            self.handle_shadow.clear()
            if self.adopted:
                self.shadow_broken = True
            sh = self.shadow[cmd[1]]
            self.shadow[cmd[1]] = {'rep': sh['rep'], 'items': list(shadow_leaves(sh))}
        elif k == 'copy':
            if self.clear_cache:
                clear_caches()
            cp = self.circs[cmd[1]].circuit_structure.copy()
            d = a.DeclarativeCircuit()
            d._structure = cp
            self.circs.append(d)
            import copy as _copy
            self.shadow.append(_copy.deepcopy(self.shadow[cmd[1]]))
        else:
            raise ValueError(cmd)
        return None


def run_impl(prog, clear_cache=False):
    """Runs a program on the implementation. Returns list aligned with prog: observer answer / None.
    An exception at command i is recorded as 'EXC:<type>' and ends the run ('undef' for RecursionError)."""
    r = ImplRun(clear_cache=clear_cache)
    out = []
    try:
        with contextlib.redirect_stderr(io.StringIO()), warnings.catch_warnings():
            warnings.simplefilter('ignore')
            for cmd in prog:
                try:
                    out.append(r.step(cmd))
                except RecursionError:
                    out.append('undef')
                    break
                except NonDyadic as e:
                    out.append(f'EXC:NonDyadic:{e}')
                    break
                except AssertionError as e:
                    out.append(f'EXC:Assert:{e}')
                    break
                except Exception as e:  # noqa
                    out.append(f'EXC:{type(e).__name__}:{str(e)[:80]}')
                    break
    finally:
        r.close()
    return out


# ----------------------------------------------------------------------------- generator

DURS_FIXED = [0, 2, 4, 8, 16, 24, 40]   # 0, 1/4, 1/2, 1, 2, 3, 5
DURS_HUGE = [800000, 800001, 800002, 800008, 1600000, 1600001]   # 100000, 100000.125, … (still exact dyadic floats)
GDUR_CHOICES = [2, 4, 8, 12, 16, 24, 40]


class GenConfig:
    def __init__(self, **kw):
        self.n_cmds = (3, 18)
        self.nq = 3
        self.p_new = 0.12
        self.p_sub = 0.10
        self.p_list = 0.08
        self.p_apply = 0.04
        self.p_flatten = 0.03
        self.p_copy = 0.02
        self.p_gdur = 0.03
        self.p_setreg = 0.03
        self.p_rel = 0.45
        self.p_foreign = 0.05
        self.classes = ALL_LEAF
        self.class_weights = None
        self.max_circs = 6
        self.reps = [1, 1, 2, 3]
        self.p_regrep = 0.15
        self.final_list = True
        self.measure_weight = 1.0
        self.tags = [0, 1, 2, 12]      # 't1' is a substring/prefix of 't12'
        self.p_same = 0.04             # share the link object of an earlier handle
        self.p_multi = 0.04            # explicit group relation (MultiRelationLink) of any relation type
        self.allow_zero_gdur = False
        self.max_nest = 4
        self.max_size = 60              # bound on the number of leaves of a circuit after unrolling
        self.static_durations = False   # duration/count settings only at the start of the program
        self.p_newrel = 0.0             # fraction of new circuits constructed with an explicit relation to an existing operation
        self.p_huge = 0.0               # fraction of programs in which fixed durations may be ~10^5 (times where a relative
                                        # floating-point tolerance exceeds the 1/8 grid: seeded change C06-m6)
        for k, v in kw.items():
            if not hasattr(self, k):
                raise AttributeError(k)
            setattr(self, k, v)


def gen_op(rng, cfg, c, ncircs, handles_here, nhandles, force_cls=None):
    cls = force_cls or rng.choices(cfg.classes, weights=cfg.class_weights)[0]
    nq = cfg.nq
    chan = 'A'
    dur = None
    tag = 0
    reg = 0
    ints = []
    if cls in TWO:
        a = rng.randrange(nq)
        b = (a + 1 + rng.randrange(nq - 1)) % nq
        qs = [a, b]
    elif cls in ('Barrier', 'CoordinateShiftOperation'):
        qs = sorted(rng.sample(range(nq), rng.randrange(1, nq + 1)))
    else:
        qs = [rng.randrange(nq)]
    if cls in CHANNELLED or cls == 'VirtualTwoQubitVacant':
        chan = rng.choice('ARMF')
    if cls in DUR_SETTABLE:
        r = rng.random()
        if r < 0.6:
            dur = f'f{rng.choice(DURS_FIXED)}'
            if getattr(cfg, '_huge', False) and rng.random() < 0.3:
                dur = f'f{rng.choice(DURS_HUGE)}'
        elif r < 0.75:
            dur = 'g' + rng.choice('RMFS')
        elif r < 0.9:
            dur = f'r{rng.randrange(3)}'
        elif r < 0.95:
            dur = 'd'
    if cls == 'DispersiveMeasure':
        tag = rng.choice(cfg.tags)
        reg = c if rng.random() < 0.8 else rng.randrange(ncircs)
        if reg in getattr(cfg, '_copies', ()):
            reg = 0   # a raw structure copy has no acquisition registry of its own
    if cls == 'CoordinateShiftOperation':
        ints = [rng.randrange(0, 3), rng.randrange(0, 3)]
    if cls == 'DetectorOperation':
        ints = [rng.choice([None, rng.randrange(-2, 9)]) for _ in range(5)]
        if ints[0] is None:
            ints[0] = rng.randrange(0, 9)   # last_acquisition_index=None raises in every non-trivial branch
    if cls == 'LogicalObservableOperation':
        ints = [rng.choice([None, rng.randrange(0, 9)]), rng.choice([None, rng.randrange(0, 9)])]
    rel = None
    if cls not in NO_RELATION_ARG:
        r = rng.random()
        if handles_here and r < cfg.p_rel:
            rel = [rng.choice(handles_here), rng.choice(['FB', 'JS', 'JE'])]
        elif handles_here and r < cfg.p_rel + cfg.p_same:
            # the link OBJECT of an earlier operation of this circuit (two cooperating users of one link)
            rel = [rng.choice(handles_here), 'SAME']
        elif len(handles_here) >= 2 and r < cfg.p_rel + cfg.p_same + cfg.p_multi:
            k = rng.randrange(2, min(3, len(handles_here)) + 1)
            rel = [rng.sample(handles_here, k), rng.choice(['FB', 'JS', 'JE'])]
        elif nhandles and rng.random() < cfg.p_foreign:
            rel = [rng.randrange(nhandles), rng.choice(['FB', 'JS', 'JE'])]
    return ['op', c, cls, qs, chan, dur, tag, reg, ints, rel]


def gdur_values(rng, cfg):
    """four global durations (readout, microwave, flux, reset); with `allow_zero_gdur` a value is exactly 0 now and then
    (seeded change C01-m8: an override of 0.0 treated as 'not overridden' — `x or default`)."""
    vals = [rng.choice(GDUR_CHOICES) for _ in range(4)]
    if cfg.allow_zero_gdur:
        vals = [0 if rng.random() < 0.15 else v for v in vals]
    return vals


def gen_program(rng, cfg: GenConfig):
    prog = [['new', 'f1']]
    cfg._copies = set()
    cfg._huge = cfg.p_huge > 0 and rng.random() < cfg.p_huge
    handles = [[]]      # per circuit: handles added to it
    nest_depth = [0]    # nesting depth of content
    size = [0]          # leaves of each circuit's content after unrolling nested counts (own count excluded)
    mult = [1]          # own repetition count (upper bound for registry-provided counts)
    nh = 0
    in_override = False
    n = rng.randrange(*cfg.n_cmds)
    if cfg.static_durations:
        if rng.random() < 0.5:
            prog.append(['gdur'] + gdur_values(rng, cfg))
        for key in range(3):
            if rng.random() < 0.6:
                prog.append(['setreg', key, rng.choice(DURS_FIXED)])
        for key in range(2):
            if rng.random() < 0.6:
                prog.append(['setrep', key, rng.choice([1, 2, 3])])
    kinds = [('new', cfg.p_new), ('sub', cfg.p_sub), ('obs', cfg.p_list), ('apply', cfg.p_apply),
             ('flatten', cfg.p_flatten), ('copy', cfg.p_copy), ('gdur', cfg.p_gdur), ('setreg', cfg.p_setreg)]
    for _ in range(n):
        r = rng.random()
        nc = len(handles)
        c = rng.randrange(nc)
        kind = 'op'
        acc = 0.0
        for name, p in kinds:
            acc += p
            if r < acc:
                kind = name
                break
        if cfg.static_durations and kind in ('gdur', 'setreg'):
            kind = 'op'
        if kind == 'new' and nc < cfg.max_circs:
            rep = rng.choice(cfg.reps)
            spec = f'r{rng.randrange(2)}' if rng.random() < cfg.p_regrep else f'f{rep}'
            if cfg.p_newrel > 0 and nh and rng.random() < cfg.p_newrel:
                prog.append(['new', spec, [rng.randrange(nh), rng.choice(['FB', 'JS', 'JE'])]])
            else:
                prog.append(['new', spec])
            handles.append([])
            nest_depth.append(0)
            size.append(0)
            mult.append(3 if spec.startswith('r') else rep)
            continue
        if kind == 'sub' and nc > 1:
            a, b = rng.sample(range(nc), 2)
            if nest_depth[b] + 1 <= cfg.max_nest and (size[a] + size[b] * mult[b]) * mult[a] <= cfg.max_size:
                size[a] += size[b] * mult[b]
                prog.append(['sub', a, b])
                handles[a].append(nh)
                nh += 1
                nest_depth[a] = max(nest_depth[a], nest_depth[b] + 1)
                continue
        if kind == 'obs':
            prog.append([rng.choice(['list', 'list', 'list', 'dur', 'chans', 'reps']), c])
            continue
        if kind == 'apply':
            prog.append(['apply', c])
            size[c] *= mult[c]
            mult[c] = 1
            continue
        if kind == 'flatten':
            prog.append(['flatten', c])
            continue
        if kind == 'copy' and nc < cfg.max_circs:
            prog.append(['copy', c])
            cfg._copies.add(len(handles))
            handles.append([])
            nest_depth.append(nest_depth[c])
            size.append(size[c])
            mult.append(mult[c])
            continue
        if kind == 'gdur':
            if in_override and rng.random() < 0.5:
                prog.append(['gdur-leave'])
                in_override = False
            else:
                prog.append(['gdur'] + gdur_values(rng, cfg))
                in_override = True
            continue
        if kind == 'setreg':
            if rng.random() < 0.5:
                prog.append(['setreg', rng.randrange(3), rng.choice(DURS_FIXED)])
            else:
                prog.append(['setrep', rng.randrange(2), rng.choice([1, 2, 3])])
            continue
        # an operation (also the fall-back when the drawn kind is not applicable)
        if (size[c] + 1) * mult[c] > cfg.max_size:
            continue
        size[c] += 1
        cmd = gen_op(rng, cfg, c, nc, handles[c], nh)
        prog.append(cmd)
        handles[c].append(nh)
        nh += 1
    if cfg.final_list:
        for i in range(len(handles)):
            prog.append(['list', i])
    return prog


def features(prog) -> dict:
    """Measured input distribution of one program."""
    f = {'ops': 0, 'rel': {}, 'cls': {}, 'sub': 0, 'apply': 0, 'flatten': 0, 'copy': 0, 'gdur': 0, 'setreg': 0,
         'obs': 0, 'foreign': 0, 'rep_gt1': 0, 'zero_dur': 0}
    owner = {}
    nh = 0
    for cmd in prog:
        k = cmd[0]
        if k == 'op':
            f['ops'] += 1
            f['cls'][cmd[2]] = f['cls'].get(cmd[2], 0) + 1
            if cmd[9] is not None:
                kind = ('group-' if isinstance(cmd[9][0], list) else '') + cmd[9][1]
                f['rel'][kind] = f['rel'].get(kind, 0) + 1
                if any(owner.get(h) != cmd[1] for h in rel_handles(cmd[9])):
                    f['foreign'] += 1
            if cmd[5] == 'f0':
                f['zero_dur'] += 1
            owner[nh] = cmd[1]
            nh += 1
        elif k == 'sub':
            f['sub'] += 1
            owner[nh] = cmd[1]
            nh += 1
        elif k == 'new':
            if cmd[1] not in ('f1',):
                f['rep_gt1'] += 1
        elif k in OBSERVERS:
            f['obs'] += 1
        elif k in f:
            f[k] += 1
    return f


def merge_features(total: dict, f: dict):
    for k, v in f.items():
        if isinstance(v, dict):
            d = total.setdefault(k, {})
            for kk, vv in v.items():
                d[kk] = d.get(kk, 0) + vv
        else:
            total[k] = total.get(k, 0) + v
