import QcoVerif.Lemmas.RepChainState
/-
  C09, all chain lengths: acquisition indices (`lastAcq`, `lastAcqOf`) of the chain's listings, record
  look-ups, and the detector / observable instructions.
-/
namespace Qco.RepChain
open Qco.StimSem Qco.RepCode

/-! ### `lastIdxOf` -/

theorem lastIdxOf_concat (ms : List Nat) (x q : Nat) :
    lastIdxOf (ms ++ [x]) q = if x == q then some ms.length else lastIdxOf ms q := by
  unfold lastIdxOf
  have hz : (List.range (ms ++ [x]).length).zip (ms ++ [x]) = (List.range ms.length).zip ms ++ [(ms.length, x)] := by
    rw [List.length_append, List.length_singleton, List.range_succ, List.zip_append (by simp)]
    rfl
  rw [hz, List.filter_append]
  by_cases h : (x == q) = true
  · simp [h]
  · simp [h]

theorem lastIdxOf_last (A B : List Nat) (q : Nat) (hB : q ∉ B) :
    lastIdxOf (A ++ q :: B) q = some A.length := by
  have key : ∀ R : List Nat, q ∉ R → lastIdxOf (A ++ q :: R.reverse) q = some A.length := by
    intro R
    induction R with
    | nil =>
      intro _
      have e : A ++ q :: ([] : List Nat).reverse = A ++ [q] := rfl
      rw [e, lastIdxOf_concat]; simp
    | cons x R ih =>
      intro hR
      have hx : ¬ x = q := fun e => hR (by simp [e])
      have hR' : q ∉ R := fun h => hR (by simp [h])
      have e : A ++ q :: (x :: R).reverse = (A ++ q :: R.reverse) ++ [x] := by simp
      rw [e, lastIdxOf_concat, ih hR']
      simp [hx]
  have := key B.reverse (by simpa using hB)
  simpa using this

theorem lastIdxOf_append_nodup (A l : List Nat) (hl : l.Nodup) (i : Nat) (hi : i < l.length) :
    lastIdxOf (A ++ l) l[i] = some (A.length + i) := by
  have e : l = l.take i ++ (l[i] :: l.drop (i + 1)) := by
    rw [List.getElem_cons_drop, List.take_append_drop]
  have h2 : (l.take i ++ (l[i] :: l.drop (i + 1))).Nodup := e ▸ hl
  have h3 : l[i] ∉ l.drop (i + 1) := (List.nodup_cons.mp (List.nodup_append.mp h2).2.1).1
  have e2 : A ++ l = (A ++ l.take i) ++ l[i] :: l.drop (i + 1) := by
    rw [List.append_assoc, ← e]
  rw [e2, lastIdxOf_last _ _ _ h3]
  simp
  omega

/-! ### `measured` -/

theorem measured_append (A B : List Ins) : measured (A ++ B) = measured A ++ measured B := by
  simp [measured, List.filterMap_append]

theorem measured_M (l : List Nat) : measured (l.map .M) = l := by
  induction l with
  | nil => rfl
  | cons a l ih => simp only [List.map_cons, measured, List.filterMap_cons] at ih ⊢; rw [ih]

theorem measured_noM (l : List Ins) (h : ∀ i ∈ l, isM i = false) : measured l = [] := by
  induction l with
  | nil => rfl
  | cons a l ih =>
    have ha := h a List.mem_cons_self
    have := ih (fun i hi => h i (List.mem_cons_of_mem _ hi))
    simp only [measured] at this ⊢
    cases a <;> simp_all [isM]

theorem measured_roundIns (m : Nat) : measured (roundIns m) = ancL m := by
  unfold roundIns
  simp only [measured_append, measured_M]
  rw [measured_noM ((ancL m).map .SY) (by simp [isM]),
    measured_noM ((ancL m).map fun t => .CZ (t - 1) t) (by simp [isM]),
    measured_noM ((ancL m).map fun t => .CZ t (t + 1)) (by simp [isM]),
    measured_noM ((ancL m).map .SYd) (by simp [isM])]
  simp [measured]

theorem measured_roundPlain (m : Nat) (hm : 0 < m) (r : Bool) :
    measured (roundPlain (chainDesc (m + 1) r)) = ancL m := by
  rw [chain_roundPlain m hm, measured_roundIns]

theorem measured_roundDD (m : Nat) (hm : 0 < m) (r : Bool) :
    measured (roundDD (chainDesc (m + 1) r)) = ancL m := by
  rw [chain_roundDD m hm, measured_append, measured_append, measured_roundIns]
  cases r
  · simp [measured]
  · simp only [if_true]
    rw [measured_noM ((dataL m).map .X) (by simp [isM])]
    simp [measured]


/-! ### record look-ups -/

/-- `n` record entries, entry of position `j` (chronological) being `h j`, most recent first -/
def chunk (n : Nat) (h : Nat → Nat) : List Nat := ((List.range n).map h).reverse

theorem chunk_length (n : Nat) (h : Nat → Nat) : (chunk n h).length = n := by simp [chunk]

theorem anc_chunk (m : Nat) (g : Nat → Nat) : ((ancL m).map g).reverse = chunk m fun j => g (2 * j + 1) := by
  simp [chunk, ancL, List.map_map, Function.comp_def]

theorem data_chunk (m : Nat) (g : Nat → Nat) : ((dataL m).map g).reverse = chunk (m + 1) fun i => g (2 * i) := by
  simp [chunk, dataL, List.map_map, Function.comp_def]

theorem lookback_hit (n : Nat) (h : Nat → Nat) (T : List Nat) (j : Nat) (hj : j < n) (t : Int)
    (ht : t = (j : Int) - n) : lookback (chunk n h ++ T) t = some (h j) := by
  unfold lookback
  have h1 : t < 0 := by omega
  have h2 : (-t).toNat - 1 = n - 1 - j := by omega
  simp only [h1, if_true, h2]
  rw [List.getElem?_append_left (by rw [chunk_length]; omega)]
  unfold chunk
  rw [List.getElem?_reverse (by simp; omega)]
  simp only [List.length_map, List.length_range]
  have h3 : n - 1 - (n - 1 - j) = j := by omega
  rw [h3, List.getElem?_map, List.getElem?_range hj]
  rfl

theorem lookback_skip (A T : List Nat) (t : Int) (ht : t + A.length < 0) :
    lookback (A ++ T) t = lookback T (t + A.length) := by
  unfold lookback
  have h1 : t < 0 := by omega
  simp only [h1, ht, if_true]
  rw [List.getElem?_append_right (by omega)]
  congr 1
  omega

/-! ### acquisition indices -/

theorem lastAcqOf_anc (m : Nat) (body : List Ins) (K : List Nat) (hb : measured body = K ++ ancL m)
    (j : Nat) (hj : j < m) : lastAcqOf body (2 * j + 1) = ((K.length + j : Nat) : Int) := by
  have hj' : j < (ancL m).length := by rw [ancL_length]; exact hj
  have := lastIdxOf_append_nodup K (ancL m) (ancL_nodup m) j hj'
  rw [ancL_getElem] at this
  rw [lastAcqOf, hb, this]
  rfl

theorem lastAcq_anc (m : Nat) (body : List Ins) (K : List Nat) (hb : measured body = K ++ ancL m) :
    lastAcq body = ((K.length + m : Nat) : Int) - 1 := by
  rw [lastAcq, hb, List.length_append, ancL_length]

theorem lastAcqOf_data (m : Nat) (L : List Ins) (i : Nat) (hi : i < m + 1) :
    lastAcqOf (L ++ (dataL m).map .M) (2 * i) = (((measured L).length + i : Nat) : Int) := by
  have hi' : i < (dataL m).length := by rw [dataL_length]; exact hi
  have := lastIdxOf_append_nodup (measured L) (dataL m) (dataL_nodup m) i hi'
  rw [dataL_getElem] at this
  rw [lastAcqOf, measured_append, measured_M, this]
  rfl

theorem lastAcq_data (m : Nat) (L : List Ins) :
    lastAcq (L ++ (dataL m).map .M) = (((measured L).length + (m + 1) : Nat) : Int) - 1 := by
  rw [lastAcq, measured_append, measured_M, List.length_append, dataL_length]

/-! ### the detectors of a sub-circuit -/

theorem run_blockDets (m : Nat) (r : Bool) (body : List Ins) (hb : measured body = ancL m)
    (ref : Option Int) (v : Nat → Nat) (q : List Q) (mrec D : List Nat) (o : Nat)
    (hv : ∀ j, j < m → sumLookbacks mrec
        (match ref with
         | none => [(j : Int) - m]
         | some x => [(j : Int) - m, (j : Int) - m - x]) = some (v (2 * j + 1))) :
    run (blockDets (chainDesc (m + 1) r) body ref) ⟨q, mrec, D, o⟩ =
      some ⟨q, mrec, ((ancL m).map v).reverse ++ D, o⟩ := by
  unfold blockDets
  rw [chain_ancIdx]
  apply run_DET_layer
  intro a ha
  have h := mem_ancL.mp ha
  obtain ⟨j, rfl⟩ : ∃ j, a = 2 * j + 1 := ⟨a / 2, by omega⟩
  have hj : j < m := by omega
  have hb' : measured body = [] ++ ancL m := by simpa using hb
  rw [lastAcqOf_anc m body [] hb' j hj, lastAcq_anc m body [] hb']
  have := hv j hj
  have e : ((([] : List Nat).length + j : Nat) : Int) - (((([] : List Nat).length + m : Nat) : Int) - 1 + 1)
      = (j : Int) - m := by simp
  cases ref with
  | none =>
    simp only [detTargets, e] at this ⊢
    exact this
  | some x =>
    simp only [detTargets, e] at this ⊢
    exact this

end Qco.RepChain
