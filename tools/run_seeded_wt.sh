#!/bin/bash
# usage: tools/run_seeded_wt.sh <seeded id> ["<props>"] [seed] — runs checks against a seeded change WITHOUT touching /repo:
# a scratch worktree of /repo HEAD gets the patch, a scratch copy of this /verif (with its Lean build) runs the checks with
# PYTHONPATH/QCO_REPO pointing at the worktree.  Both scratch trees are removed afterwards.  Prints "<id> <prop> exit=<rc>".
set -u
cd "$(dirname "$0")/.."
id=$1; PROPS=${2:-$(python3 -c "import json;print(json.load(open('seeded/$id/meta.json'))['property'])")}; export VERIF_SEED=${3:-0}
W=$(mktemp -d /tmp/swt_XXXXXX)
git -C /repo worktree add --detach -q $W/repo HEAD || exit 2
git -C $W/repo apply --whitespace=nowarn "$(pwd)/seeded/$id/patch.diff" || { echo "$id patch-failed"; git -C /repo worktree remove --force $W/repo; rm -rf $W; exit 2; }
mkdir -p $W/verif && rsync -a --exclude .git --exclude replays --exclude soaklogs ./ $W/verif/
caught=""
for p in $PROPS; do
  ( cd $W/verif && QCO_REPO=$W/repo PYTHONPATH="$W/repo/src:$W/verif" TQDM_DISABLE=1 MPLBACKEND=Agg /venv/bin/python -m harness.main $p --tier quick > $W/log_$p.txt 2>&1 ); rc=$?
  echo "$id $p exit=$rc $(grep -h '^VIOLATION' $W/log_$p.txt | head -2 | tr '\n' ' ')"
  [ $rc -eq 1 ] && caught="$caught $p"
  [ $rc -eq 2 ] && tail -5 $W/log_$p.txt
  mkdir -p soaklogs && cp $W/log_$p.txt soaklogs/wt-$id-$p.log; [ -d $W/verif/replays ] && mkdir -p soaklogs/wt-replays-$id && cp -r $W/verif/replays/. soaklogs/wt-replays-$id/ 2>/dev/null
done
echo "MATRIX $id caught-by:$caught"
git -C /repo worktree remove --force $W/repo; rm -rf $W
