import QcoVerif.Lemmas.C10ParamCheck
/-
  C10, parametric layer lemmas, part 4: heaps given as binary tries (evaluation-friendly data).

  The kernel evaluates a look-up in a 1000-element array or list in about 1000 steps; in a binary trie it takes 10.
  A heap is given as two tries (`opsT`, `lnkT`: index 0 at the root, odd indices `i` at index `(i-1)/2` of the left
  sub-trie, even ones at `(i-2)/2` of the right one); `mkWorld` is the `World` with exactly those objects, and
  `trieOp / trieLnk` are its accessors (`mkWorld_op`, `mkWorld_lnk`) — no invariant on the shape of the trie is needed.
-/
namespace Qco.C10Param

open Qco Qco.C10

inductive BT (α : Type) where
  | nil : BT α
  | node (l : BT α) (v : α) (r : BT α) : BT α
  deriving Repr

def BT.get? {α} : BT α → Nat → Option α
  | .nil, _ => none
  | .node l v r, i => if i = 0 then some v else if i % 2 = 1 then l.get? ((i - 1) / 2) else r.get? ((i - 2) / 2)

/-- the first `n` entries, missing ones replaced by `d`. -/
def BT.toList {α} (T : BT α) (d : α) (n : Nat) : List α := (List.range n).map (fun i => (T.get? i).getD d)

def trieGet {α} (T : BT α) (d : α) (n : Nat) (i : Nat) : α := if i < n then (T.get? i).getD d else d

theorem BT.toList_getD {α} (T : BT α) (d : α) (n i : Nat) :
    ((T.toList d n)[i]?).getD d = trieGet T d n i := by
  unfold BT.toList trieGet
  by_cases h : i < n
  · simp [h]
  · simp [h]

/-- the heap whose objects are the first `n` entries of `opsT` and whose links are the first `m` entries of `lnkT`. -/
def mkWorld (opsT : BT Op) (n : Nat) (lnkT : BT Link) (m : Nat) (dreg : List (Nat × Int)) : World :=
  { ops := (opsT.toList default n).toArray, links := (lnkT.toList default m).toArray, dreg := dreg }

theorem mkWorld_op (opsT : BT Op) (n : Nat) (lnkT : BT Link) (m : Nat) (dreg : List (Nat × Int)) :
    (mkWorld opsT n lnkT m dreg).op = trieGet opsT default n := by
  funext i
  unfold World.op mkWorld
  simp only [Array.getD_eq_getD_getElem?, List.getElem?_toArray]
  exact BT.toList_getD opsT default n i

theorem mkWorld_lnk (opsT : BT Op) (n : Nat) (lnkT : BT Link) (m : Nat) (dreg : List (Nat × Int)) :
    (mkWorld opsT n lnkT m dreg).lnk = trieGet lnkT default m := by
  funext i
  unfold World.lnk mkWorld
  simp only [Array.getD_eq_getD_getElem?, List.getElem?_toArray]
  exact BT.toList_getD lnkT default m i

/-- layer certificate given as a table. -/
def certOf (tbl : List (Nat × List (List LayerData))) (X : Nat) : List (List LayerData) :=
  ((tbl.find? (fun p => p.1 == X)).map (·.2)).getD []

/-- one recorded library circuit, heap given as tries, with a layer certificate. -/
structure TCase where
  name : String
  opsT : BT Op
  n : Nat
  lnkT : BT Link
  m : Nat
  dreg : List (Nat × Int)
  cert : List (Nat × List (List LayerData))
  c : Nat

def TCase.w (x : TCase) : World := mkWorld x.opsT x.n x.lnkT x.m x.dreg

/-- the layered check through the trie accessors, one regime. -/
def TCase.okR (x : TCase) (R : Regime) : Bool :=
  layeredOkF (trieGet x.opsT default x.n) (trieGet x.lnkT default x.m) x.w R (certOf x.cert) x.c

def TCase.ok (x : TCase) : Bool := x.okR regimeA && x.okR regimeB

theorem TCase.okR_eq (x : TCase) (R : Regime) : x.okR R = layeredOk x.w R (certOf x.cert) x.c := by
  unfold TCase.okR layeredOk TCase.w
  rw [mkWorld_op, mkWorld_lnk]

/-- a heap given as tries that passes the layered check in both regimes is free of double booking for ALL
    non-negative durations. -/
theorem TCase.sound (x : TCase) (h : x.ok = true)
    {ro mw fl rs : Int} (hro : 0 ≤ ro) (hmw : 0 ≤ mw) (hfl : 0 ≤ fl) (hrs : 0 ≤ rs)
    (heven : mw ≤ ro → (ro - mw) % 2 = 0) : NoDoubleBooking (withDurations x.w ro mw fl rs) x.c := by
  unfold TCase.ok at h
  rw [Bool.and_eq_true, TCase.okR_eq, TCase.okR_eq] at h
  exact layered_all_durations h.1 h.2 hro hmw hfl hrs heven

end Qco.C10Param
