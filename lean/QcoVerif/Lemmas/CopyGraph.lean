import QcoVerif.Lemmas.GraphBuilt
/-
  Graph-level copy theorem for `World.copyObj` / `World.copy`, flat blocks (Stage 1): the copy's relation tree is the
  image of the original's under the position-wise node map, every internal relation re-pointed to the corresponding copy.
  (Imported by Properties/C05.lean; must not import it.)  Core Lean only.
-/
namespace Qco

/-! ### reading the heap after a push -/

theorem op_congr' {w w' : World} (h : w'.ops = w.ops) (j : Nat) : w'.op j = w.op j := by
  unfold World.op; rw [h]

theorem lnk_congr' {w w' : World} (h : w'.links = w.links) (l : Nat) : w'.lnk l = w.lnk l := by
  unfold World.lnk; rw [h]

theorem op_push_lt {w w' : World} {x : Op} (h : w'.ops = w.ops.push x) {j : Nat} (hj : j < w.ops.size) :
    w'.op j = w.op j := by
  unfold World.op; rw [h]
  simp [Array.getD, Array.size_push, hj, Nat.lt_succ_of_lt hj, Array.getElem_push_lt hj]

theorem op_push_eq {w w' : World} {x : Op} (h : w'.ops = w.ops.push x) : w'.op w.ops.size = x := by
  unfold World.op; rw [h]
  simp [Array.getD]

theorem lnk_push_lt {w w' : World} {x : Link} (h : w'.links = w.links.push x) {j : Nat} (hj : j < w.links.size) :
    w'.lnk j = w.lnk j := by
  unfold World.lnk; rw [h]
  simp [Array.getD, Array.size_push, hj, Nat.lt_succ_of_lt hj, Array.getElem_push_lt hj]

theorem lnk_push_eq {w w' : World} {x : Link} (h : w'.links = w.links.push x) : w'.lnk w.links.size = x := by
  unfold World.lnk; rw [h]
  simp [Array.getD]

theorem eqKey_congr {w w' : World} (hi : w'.identKeys = w.identKeys) {x : Nat} (ho : w'.op x = w.op x) :
    w'.eqKey x = w.eqKey x := by
  unfold World.eqKey; rw [hi, ho]

/-- same duration / repetition settings (what `leafDur` and `repCount` read). -/
def SameEnv (w' w : World) : Prop :=
  w'.gRo = w.gRo ∧ w'.gMw = w.gMw ∧ w'.gFl = w.gFl ∧ w'.gRs = w.gRs ∧ w'.dreg = w.dreg ∧ w'.rreg = w.rreg

theorem SameEnv.refl (w : World) : SameEnv w w := ⟨rfl, rfl, rfl, rfl, rfl, rfl⟩

theorem SameEnv.trans {a b c : World} (h1 : SameEnv a b) (h2 : SameEnv b c) : SameEnv a c :=
  ⟨h1.1.trans h2.1, h1.2.1.trans h2.2.1, h1.2.2.1.trans h2.2.2.1, h1.2.2.2.1.trans h2.2.2.2.1,
   h1.2.2.2.2.1.trans h2.2.2.2.2.1, h1.2.2.2.2.2.trans h2.2.2.2.2.2⟩

theorem SameEnv.leafDur {w' w : World} (h : SameEnv w' w) (d : Dur) : w'.leafDur d = w.leafDur d := by
  obtain ⟨h1, h2, h3, h4, h5, _⟩ := h
  unfold World.leafDur World.gdur
  rw [h1, h2, h3, h4, h5]

theorem lnk_setGraph (w : World) (i : Nat) (g : List Entry) (l : Nat) : (w.setGraph i g).lnk l = w.lnk l := rfl

theorem op_setGraph (w : World) (i : Nat) (g : List Entry) (j : Nat) :
    (w.setGraph i g).op j = if i = j ∧ i < w.ops.size then { w.op i with graph := g } else w.op j := by
  unfold World.setGraph; rw [op_setOp]

theorem setGraph_size' (w : World) (c : Nat) (g : List Entry) : (w.setGraph c g).ops.size = w.ops.size := by
  simp [World.setGraph, World.setOp]

/-! ### the transfer lookup -/

theorem find_map_ne (k k' : EqKey) (v : Nat) (h : k' ≠ k) : ∀ lk : Lookup,
    ((lk.map (fun p => if p.1 == k then (p.1, v) else p)).find? (fun p => p.1 == k')).map (·.2) =
      (lk.find? (fun p => p.1 == k')).map (·.2) := by
  intro lk
  induction lk with
  | nil => rfl
  | cons p ps ih =>
    simp only [List.map_cons, List.find?_cons]
    by_cases hp : p.1 = k
    · have h1 : (p.1 == k) = true := by simpa using hp
      have h2 : (p.1 == k') = false := by rw [hp]; simpa using (Ne.symm h)
      simp only [h1, if_true, h2]
      exact ih
    · have h1 : (p.1 == k) = false := by simpa using hp
      simp only [h1, Bool.false_eq_true, if_false]
      cases p.1 == k'
      · exact ih
      · rfl

/-- writing key `k` does not change the answer for another key. -/
theorem lookup_get_set_ne (lk : Lookup) (k k' : EqKey) (v : Nat) (h : k' ≠ k) :
    (Lookup.set lk k v).get? k' = lk.get? k' := by
  unfold Lookup.set Lookup.get?
  have hk : (k == k') = false := by simpa using (Ne.symm h)
  split
  · exact find_map_ne k k' v h lk
  · rw [List.find?_append]
    simp [hk]

/-- after `set k v` the lookup answers `v` for `k` (same statement as `C05.lookup_get_set`, which lives downstream). -/
theorem lookup_get_set_eq (lk : Lookup) (k : EqKey) (v : Nat) : (Lookup.set lk k v).get? k = some v := by
  unfold Lookup.set Lookup.get?
  induction lk with
  | nil => simp
  | cons p ps ih =>
    by_cases hp : p.1 = k
    · simp [hp]
    · have hp' : (p.1 == k) = false := by simpa using hp
      by_cases h : ps.any (fun p => p.1 == k) = true
      · simp only [List.any_cons, hp', Bool.false_or, h, if_true, List.map_cons, Bool.false_eq_true, if_false,
          List.find?_cons] at ih ⊢
        exact ih
      · have h' : ps.any (fun p => p.1 == k) = false := Bool.eq_false_iff.mpr h
        simp only [List.any_cons, hp', Bool.false_or, h', Bool.false_eq_true, if_false, List.cons_append,
          List.find?_cons] at ih ⊢
        exact ih

/-! ### the pieces of `copyObj` on a leaf with a single (non-group) link -/

/-- the references of the copy of a single link: the head reference sent through the lookup, dropped if unknown. -/
def copyRefs (w : World) (l : Nat) (lk : Lookup) : List Nat :=
  match (w.lnk l).refs.head? with
  | none => []
  | some r => match lk.get? (w.eqKey r) with
    | none => []
    | some r' => [r']

theorem copyLink_single (w : World) (l : Nat) (lk : Lookup) (hm : (w.lnk l).multi = false) :
    w.copyLink l lk =
      ({ w with links := w.links.push { refs := copyRefs w l lk, rel := (w.lnk l).rel } }, w.links.size) := by
  unfold World.copyLink copyRefs
  simp only [hm, Bool.not_false, if_true]
  rfl

theorem copyLeaf_single (w : World) (o : Nat) (lk : Lookup) (hm : (w.lnk (w.op o).link).multi = false) :
    ∃ rg, w.copyLeaf o lk =
      ({ w with links := w.links.push { refs := copyRefs w (w.op o).link lk, rel := (w.lnk (w.op o).link).rel },
                ops := w.ops.push { (w.op o).copyFields with link := w.links.size, reg := rg } }, w.ops.size) := by
  unfold World.copyLeaf
  simp only [show ∀ c : Cls, c.copyKeepsLink = true from fun _ => rfl, if_true]
  rw [copyLink_single w _ lk hm]
  exact ⟨_, rfl⟩

theorem copyObj_leaf (w : World) (f o : Nat) (lk : Lookup) (h : (w.op o).isComp = false) :
    w.copyObj (f + 1) o lk = ((w.copyLeaf o lk).1, (w.copyLeaf o lk).2, lk) := by
  rw [World.copyObj]
  simp only [h, Bool.not_false, if_true]

theorem copyFields_cls' (op : Op) : op.copyFields.cls = op.cls := by
  unfold Op.copyFields
  split <;> rfl

/-- the per-class copy keeps the channel identifiers (no side condition). -/
theorem copyFields_leafChans (op : Op) : op.copyFields.leafChans = op.leafChans := by
  cases h : op.cls <;> simp [Op.copyFields, Op.leafChans, h]

theorem chansOf_leaf (w : World) (o : Nat) (h : (w.op o).isComp = false) : w.chansOf o = (w.op o).leafChans := by
  show w.chans (w.ops.size + 1 + 1) o = _
  rw [World.chans]
  simp only [h, Bool.false_eq_true, if_false]

/-- channel match as used by `leafAtAny`. -/
def chMatch (a b : List ChId) : Bool := a.any (fun x => b.any (fun y => x.matches y))

theorem leafAtAny_none (w : World) (g : List Entry) (chs : List ChId)
    (h : ∀ e ∈ g, chMatch chs (w.chansOf e.node) = false) : w.leafAtAny g chs = none := by
  unfold World.leafAtAny
  rw [List.find?_eq_none]
  intro x hx
  have hx' : x ∈ listing g := by simpa using hx
  obtain ⟨e, he, hen⟩ := mem_listing_iff.mp hx'
  have := h e he
  rw [hen] at this
  simpa [chMatch] using this

theorem addToGraph_root (w : World) (g : List Entry) (o : Nat) (hr : w.hasRel o = false)
    (hl : w.leafAtAny g (w.chansOf o) = none) : w.addToGraph g o = (w, attach g none o) := by
  unfold World.addToGraph
  simp only [hr, hl, Bool.not_false, if_true]

theorem addToGraph_child (w : World) (g : List Entry) (o r : Nat) (hr : w.hasRel o = true)
    (hm : (w.lnk (w.op o).link).multi = false) (hh : (w.lnk (w.op o).link).refs.head? = some r)
    (hin : inGraph g r = true) : w.addToGraph g o = (w, attach g (some r) o) := by
  unfold World.addToGraph
  have href : w.refOf (w.op o).link = some (some r) := by
    unfold World.refOf
    simp only [hm, Bool.not_false, if_true, hh]
  simp only [hr, Bool.not_true, Bool.false_eq_true, if_false, href, hin, if_true]

/-! ### the copy loop on a flat block -/

/-- one step of the copy loop of `CircuitCompositeOperation.copy` (the fold body of `World.copyObj`). -/
def cpStep (f res : Nat) (acc : World × Lookup) (n : Nat) : World × Lookup :=
  let key := acc.1.eqKey n
  let r := acc.1.copyObj f n acc.2
  let w := if r.2.2.any (fun p => p.1 == key) then { r.1 with collisions := r.1.collisions + 1 } else r.1
  (w.add res r.2.1, r.2.2.set key r.2.1)

theorem copyObj_comp' (w : World) (f o : Nat) (lk : Lookup) (h : (w.op o).isComp = true) :
    w.copyObj (f + 1) o lk =
      (((listing (w.op o).graph).foldl (cpStep f (w.copyLink (w.op o).link lk).1.ops.size)
          (((w.copyLink (w.op o).link lk).1.newOp
              { cls := .comp, link := (w.copyLink (w.op o).link lk).2, rep := (w.op o).rep }).1, lk)).1,
       (w.copyLink (w.op o).link lk).1.ops.size,
       ((listing (w.op o).graph).foldl (cpStep f (w.copyLink (w.op o).link lk).1.ops.size)
          (((w.copyLink (w.op o).link lk).1.newOp
              { cls := .comp, link := (w.copyLink (w.op o).link lk).2, rep := (w.op o).rep }).1, lk)).2) := by
  rw [World.copyObj]
  simp only [h, Bool.not_true, Bool.false_eq_true, if_false]
  rfl

/-- node map of the loop: the `i`-th listed node goes to object `R + 1 + i`. -/
def cpNode (R : Nat) (S : List Entry) (n : Nat) : Nat := R + 1 + (S.map (·.node)).idxOf n
/-- link map of the loop: the copy of the `i`-th listed node owns link `K + i`. -/
def cpLink (K : Nat) (S : List Entry) (n : Nat) : Nat := K + (S.map (·.node)).idxOf n

theorem idxOf_split {S A B : List Entry} {e : Entry} (hs : S = A ++ e :: B) (hn : (S.map (·.node)).Nodup) :
    (S.map (·.node)).idxOf e.node = A.length := by
  rw [hs, List.map_append, List.nodup_append] at hn
  rw [hs, List.map_append, List.idxOf_append]
  have : e.node ∉ A.map (·.node) := by
    intro hmem
    exact hn.2.2 e.node hmem e.node (by simp) rfl
  rw [if_neg this]
  simp

theorem idxOf_prefix {S A B : List Entry} (hs : S = A ++ B) {x : Entry} (hx : x ∈ A) :
    (S.map (·.node)).idxOf x.node < A.length := by
  have hm : x.node ∈ A.map (·.node) := List.mem_map.mpr ⟨x, hx, rfl⟩
  rw [hs, List.map_append, List.idxOf_append, if_pos hm]
  have := List.idxOf_lt_length_of_mem hm
  simpa using this

theorem idxOf_inj {l : List Nat} {a b : Nat} (ha : a ∈ l) (hb : b ∈ l) (h : l.idxOf a = l.idxOf b) : a = b := by
  have h1 : l[l.idxOf a]? = some a := by
    rw [List.getElem?_eq_getElem (List.idxOf_lt_length_of_mem ha)]; simp
  have h2 : l[l.idxOf b]? = some b := by
    rw [List.getElem?_eq_getElem (List.idxOf_lt_length_of_mem hb)]; simp
  rw [h, h2] at h1
  exact (Option.some.inj h1).symm

theorem cpNode_inj (R : Nat) (S : List Entry) : InjOn (cpNode R S) S := by
  intro a ha b hb h
  unfold cpNode at h
  exact idxOf_inj (l := S.map (·.node)) (List.mem_map.mpr ⟨a, ha, rfl⟩) (List.mem_map.mpr ⟨b, hb, rfl⟩) (by omega)

/-- hypotheses of the flat copy theorem, relative to the sorted entry list `S` of the block (see `FlatOk`). -/
structure FlatHyp (w : World) (S : List Entry) : Prop where
  built : Built S
  leaf : ∀ e ∈ S, e.node < w.ops.size ∧ (w.op e.node).isComp = false
  keyInj : ∀ a ∈ S, ∀ b ∈ S, w.eqKey a.node = w.eqKey b.node → a.node = b.node
  linkLt : ∀ e ∈ S, (w.op e.node).link < w.links.size
  single : ∀ e ∈ S, (w.lnk (w.op e.node).link).multi = false
  child : ∀ e ∈ S, ∀ p, e.parent = some p → (w.lnk (w.op e.node).link).refs.head? = some p
  root : ∀ e ∈ S, e.parent = none → ∀ r, (w.lnk (w.op e.node).link).refs.head? = some r →
    r < w.ops.size ∧ ∀ m ∈ S, w.eqKey m.node ≠ w.eqKey r
  apart : ∀ A e B, S = A ++ e :: B → e.parent = none →
    ∀ x ∈ A, chMatch (w.chansOf e.node) (w.chansOf x.node) = false

/-- invariant of the copy loop after the entries `A` (a prefix of `S`) have been copied. -/
structure CopyInv (w : World) (S : List Entry) (R K : Nat) (c0 : Op) (A : List Entry) (wi : World) (lk : Lookup) :
    Prop where
  opsz : wi.ops.size = R + 1 + A.length
  lnksz : wi.links.size = K + A.length
  ident : wi.identKeys = w.identKeys
  env : SameEnv wi w
  oldop : ∀ j, j < w.ops.size → wi.op j = w.op j
  oldlnk : ∀ l, l < w.links.size → wi.lnk l = w.lnk l
  resop : wi.op R = { c0 with graph := A.map (Entry.image (cpNode R S)) }
  cp : ∀ e ∈ A, (∃ rg, wi.op (cpNode R S e.node) =
        { (w.op e.node).copyFields with link := cpLink K S e.node, reg := rg }) ∧
      wi.lnk (cpLink K S e.node) =
        { refs := (e.parent.map (cpNode R S)).toList, rel := (w.lnk (w.op e.node).link).rel }
  hit : ∀ e ∈ A, lk.get? (w.eqKey e.node) = some (cpNode R S e.node)
  miss : ∀ key, (∀ e ∈ A, w.eqKey e.node ≠ key) → lk.get? key = none

/-- the references of the copied link are the image of the tree parent. -/
theorem copyRefs_step {w : World} {S : List Entry} {R K : Nat} {c0 : Op} {A B : List Entry} {e : Entry} {wi : World}
    {lk : Lookup} (H : FlatHyp w S) (hs : S = A ++ e :: B) (I : CopyInv w S R K c0 A wi lk) :
    copyRefs wi (w.op e.node).link lk = (e.parent.map (cpNode R S)).toList := by
  have heS : e ∈ S := by rw [hs]; simp
  have hAS : ∀ x ∈ A, x ∈ S := by intro x hx; rw [hs]; simp [hx]
  have hlnk : wi.lnk (w.op e.node).link = w.lnk (w.op e.node).link := I.oldlnk _ (H.linkLt e heS)
  unfold copyRefs
  rw [hlnk]
  cases hp : e.parent with
  | some p =>
    rw [H.child e heS p hp]
    obtain ⟨pe, hpeA, hpq⟩ := inGraph_iff.mp ((H.built A e B hs).2.1 p hp)
    have hpS := hAS pe hpeA
    have hk : wi.eqKey p = w.eqKey p :=
      eqKey_congr I.ident (I.oldop _ (by rw [← hpq]; exact (H.leaf pe hpS).1))
    simp only [hk]
    rw [← hpq, I.hit pe hpeA]
    rfl
  | none =>
    cases hh : (w.lnk (w.op e.node).link).refs.head? with
    | none => rfl
    | some r =>
      obtain ⟨hr, hne⟩ := H.root e heS hp r hh
      have hk : wi.eqKey r = w.eqKey r := eqKey_congr I.ident (I.oldop _ hr)
      simp only [hk]
      rw [I.miss _ (fun x hx => hne x (hAS x hx))]
      rfl

/-- the world after the leaf copy and the (diagnostic) collision count: `wi` with one more link and one more object. -/
structure Pushed (wi w4 : World) (Lnew : Link) (Onew : Op) : Prop where
  ops : w4.ops = wi.ops.push Onew
  links : w4.links = wi.links.push Lnew
  ident : w4.identKeys = wi.identKeys
  env : SameEnv w4 wi

/-- `add` of the fresh copy to the new composite: the same attach as in the original, the heap is not touched
    (no re-linking happens). -/
theorem add_step {w : World} {S : List Entry} {R K : Nat} {c0 : Op} {A B : List Entry} {e : Entry} {wi w4 : World}
    {lk : Lookup} {rg : Nat} (H : FlatHyp w S) (hs : S = A ++ e :: B)
    (I : CopyInv w S R K c0 A wi lk)
    (P : Pushed wi w4 { refs := (e.parent.map (cpNode R S)).toList, rel := (w.lnk (w.op e.node).link).rel }
      { (w.op e.node).copyFields with link := wi.links.size, reg := rg }) :
    w4.add R wi.ops.size = w4.setGraph R ((A ++ [e]).map (Entry.image (cpNode R S))) := by
  have heS : e ∈ S := by rw [hs]; simp
  have hAS : ∀ x ∈ A, x ∈ S := by intro x hx; rw [hs]; simp [hx]
  have hnd := H.built.nodup
  have hφe : cpNode R S e.node = wi.ops.size := by unfold cpNode; rw [idxOf_split hs hnd, I.opsz]
  have op4_old : ∀ j, j < wi.ops.size → w4.op j = wi.op j := fun j hj => op_push_lt P.ops hj
  have op4_new := op_push_eq P.ops
  have lnk4_new := lnk_push_eq P.links
  have hRlt : R < wi.ops.size := by rw [I.opsz]; omega
  have hR4 : w4.op R = { c0 with graph := A.map (Entry.image (cpNode R S)) } := by
    rw [op4_old R hRlt]; exact I.resop
  obtain ⟨a1, a2, a3⟩ := attach_image H.built hs (cpNode R S) (cpNode_inj R S)
  rw [hφe] at a1
  have hcomp4 : (w4.op wi.ops.size).isComp = false := by
    rw [op4_new]
    show ((w.op e.node).copyFields.cls == Cls.comp) = false
    rw [copyFields_cls']
    exact (H.leaf e heS).2
  have hadd : w4.addToGraph (A.map (Entry.image (cpNode R S))) wi.ops.size =
      (w4, (A ++ [e]).map (Entry.image (cpNode R S))) := by
    cases hp : e.parent with
    | none =>
      rw [hp] at a1
      have hrel : w4.hasRel wi.ops.size = false := by
        unfold World.hasRel
        rw [op4_new]
        show (!(w4.lnk wi.links.size).refs.isEmpty) = false
        rw [lnk4_new, hp]
        rfl
      have hleaf : w4.leafAtAny (A.map (Entry.image (cpNode R S))) (w4.chansOf wi.ops.size) = none := by
        apply leafAtAny_none
        intro x' hx'
        obtain ⟨x, hx, hxx⟩ := List.mem_map.mp hx'
        subst hxx
        have hxlt : cpNode R S x.node < wi.ops.size := by
          unfold cpNode; rw [I.opsz]; have := idxOf_prefix hs hx; omega
        obtain ⟨⟨rg', hop⟩, _⟩ := I.cp x hx
        have hxop : w4.op (cpNode R S x.node) =
            { (w.op x.node).copyFields with link := cpLink K S x.node, reg := rg' } := by
          rw [op4_old _ hxlt]; exact hop
        have hxcomp : (w4.op (cpNode R S x.node)).isComp = false := by
          rw [hxop]
          show ((w.op x.node).copyFields.cls == Cls.comp) = false
          rw [copyFields_cls']
          exact (H.leaf x (hAS x hx)).2
        rw [chansOf_leaf w4 _ hcomp4, Entry.image_node, chansOf_leaf w4 _ hxcomp, op4_new, hxop]
        show chMatch (w.op e.node).copyFields.leafChans (w.op x.node).copyFields.leafChans = false
        rw [copyFields_leafChans, copyFields_leafChans, ← chansOf_leaf w _ (H.leaf e heS).2,
          ← chansOf_leaf w _ (H.leaf x (hAS x hx)).2]
        exact H.apart A e B hs hp x hx
      rw [addToGraph_root w4 _ _ hrel hleaf]
      simp only [Option.map_none] at a1
      rw [a1]
    | some p =>
      rw [hp] at a1
      simp only [Option.map_some] at a1
      have hl4 : w4.lnk (w4.op wi.ops.size).link =
          { refs := [cpNode R S p], rel := (w.lnk (w.op e.node).link).rel } := by
        rw [op4_new]
        show w4.lnk wi.links.size = _
        rw [lnk4_new, hp]
        rfl
      have hrel : w4.hasRel wi.ops.size = true := by
        unfold World.hasRel
        rw [hl4]; rfl
      rw [addToGraph_child w4 _ _ (cpNode R S p) hrel (by rw [hl4]) (by rw [hl4]; rfl) (a3 p hp), a1]
  unfold World.add
  rw [hR4]
  simp only
  rw [hadd]

/-- the invariant is kept by a push of the copy and its link followed by the graph update. -/
theorem inv_step {w : World} {S : List Entry} {R K : Nat} {c0 : Op} {A B : List Entry} {e : Entry} {wi w4 : World}
    {lk : Lookup} {rg : Nat} (H : FlatHyp w S) (hR : w.ops.size ≤ R) (hK : w.links.size ≤ K)
    (hs : S = A ++ e :: B) (I : CopyInv w S R K c0 A wi lk)
    (P : Pushed wi w4 { refs := (e.parent.map (cpNode R S)).toList, rel := (w.lnk (w.op e.node).link).rel }
      { (w.op e.node).copyFields with link := wi.links.size, reg := rg }) :
    CopyInv w S R K c0 (A ++ [e]) (w4.setGraph R ((A ++ [e]).map (Entry.image (cpNode R S))))
      (lk.set (w.eqKey e.node) wi.ops.size) := by
  have heS : e ∈ S := by rw [hs]; simp
  have hAS : ∀ x ∈ A, x ∈ S := by intro x hx; rw [hs]; simp [hx]
  have hnd := H.built.nodup
  have hφe : cpNode R S e.node = wi.ops.size := by unfold cpNode; rw [idxOf_split hs hnd, I.opsz]
  have hψe : cpLink K S e.node = wi.links.size := by unfold cpLink; rw [idxOf_split hs hnd, I.lnksz]
  have op4_old : ∀ j, j < wi.ops.size → w4.op j = wi.op j := fun j hj => op_push_lt P.ops hj
  have op4_new := op_push_eq P.ops
  have lnk4_old : ∀ j, j < wi.links.size → w4.lnk j = wi.lnk j := fun j hj => lnk_push_lt P.links hj
  have lnk4_new := lnk_push_eq P.links
  have sz4 : w4.ops.size = wi.ops.size + 1 := by rw [P.ops]; simp
  have hRlt : R < wi.ops.size := by rw [I.opsz]; omega
  have hR4 : w4.op R = { c0 with graph := A.map (Entry.image (cpNode R S)) } := by
    rw [op4_old R hRlt]; exact I.resop
  have hne : ∀ x ∈ A, x.node ≠ e.node := inGraph_false_iff.mp (H.built A e B hs).1
  refine ⟨?_, ?_, ?_, ?_, ?_, ?_, ?_, ?_, ?_, ?_⟩
  · rw [setGraph_size', sz4, I.opsz, List.length_append]; simp; omega
  · show w4.links.size = _
    rw [P.links, Array.size_push, I.lnksz, List.length_append]; simp; omega
  · show w4.identKeys = _
    rw [P.ident]; exact I.ident
  · exact SameEnv.trans (show SameEnv w4 wi from P.env) I.env
  · intro j hj
    rw [op_setGraph, if_neg (by omega), op4_old j (by omega)]
    exact I.oldop j hj
  · intro l hl
    rw [lnk_setGraph, lnk4_old l (by rw [I.lnksz]; omega)]
    exact I.oldlnk l hl
  · rw [op_setGraph, if_pos ⟨rfl, by omega⟩, hR4]
  · intro x hx
    rw [List.mem_append, List.mem_singleton] at hx
    rcases hx with hx | hx
    · have hi := idxOf_prefix hs hx
      have hxlt : cpNode R S x.node < wi.ops.size := by unfold cpNode; rw [I.opsz]; omega
      have hxne : ¬ (R = cpNode R S x.node ∧ R < w4.ops.size) := by unfold cpNode; omega
      have hllt : cpLink K S x.node < wi.links.size := by unfold cpLink; rw [I.lnksz]; omega
      rw [op_setGraph, if_neg hxne, op4_old _ hxlt, lnk_setGraph, lnk4_old _ hllt]
      exact I.cp x hx
    · subst hx
      have hxne : ¬ (R = cpNode R S x.node ∧ R < w4.ops.size) := by rw [hφe]; omega
      rw [op_setGraph, if_neg hxne, lnk_setGraph, hφe, hψe, op4_new, lnk4_new]
      exact ⟨⟨rg, rfl⟩, rfl⟩
  · intro x hx
    rw [List.mem_append, List.mem_singleton] at hx
    rcases hx with hx | hx
    · have : w.eqKey x.node ≠ w.eqKey e.node := fun h => hne x hx (H.keyInj x (hAS x hx) e heS h)
      rw [lookup_get_set_ne _ _ _ _ this]
      exact I.hit x hx
    · subst hx
      rw [lookup_get_set_eq, hφe]
  · intro key hkey
    have : key ≠ w.eqKey e.node := fun h => hkey e (by simp) h.symm
    rw [lookup_get_set_ne _ _ _ _ this]
    exact I.miss key (fun x hx => hkey x (by simp [hx]))

/-- **one step of the copy loop keeps the invariant.** -/
theorem cpStep_inv {w : World} {S : List Entry} {R K : Nat} {c0 : Op} {A B : List Entry} {e : Entry} {wi : World}
    {lk : Lookup} (f : Nat) (H : FlatHyp w S) (hR : w.ops.size ≤ R) (hK : w.links.size ≤ K)
    (hs : S = A ++ e :: B) (I : CopyInv w S R K c0 A wi lk) :
    CopyInv w S R K c0 (A ++ [e]) (cpStep (f + 1) R (wi, lk) e.node).1 (cpStep (f + 1) R (wi, lk) e.node).2 := by
  have heS : e ∈ S := by rw [hs]; simp
  obtain ⟨hnlt, hnleaf⟩ := H.leaf e heS
  have hopn : wi.op e.node = w.op e.node := I.oldop _ hnlt
  have hkey : wi.eqKey e.node = w.eqKey e.node := eqKey_congr I.ident hopn
  have hlnk : wi.lnk (w.op e.node).link = w.lnk (w.op e.node).link := I.oldlnk _ (H.linkLt e heS)
  have hm : (wi.lnk (wi.op e.node).link).multi = false := by rw [hopn, hlnk]; exact H.single e heS
  obtain ⟨rg, hcl⟩ := copyLeaf_single wi e.node lk hm
  rw [hopn, hlnk, copyRefs_step H hs I] at hcl
  unfold cpStep
  simp only
  rw [copyObj_leaf wi f e.node lk (by rw [hopn]; exact hnleaf), hcl, hkey]
  simp only
  have aux : ∀ w4 : World,
      Pushed wi w4 { refs := (e.parent.map (cpNode R S)).toList, rel := (w.lnk (w.op e.node).link).rel }
        { (w.op e.node).copyFields with link := wi.links.size, reg := rg } →
      CopyInv w S R K c0 (A ++ [e]) (w4.add R wi.ops.size) (lk.set (w.eqKey e.node) wi.ops.size) := by
    intro w4 P4
    rw [add_step H hs I P4]
    exact inv_step H hR hK hs I P4
  split
  · exact aux _ ⟨rfl, rfl, rfl, SameEnv.refl _⟩
  · exact aux _ ⟨rfl, rfl, rfl, SameEnv.refl _⟩

theorem cpFold_inv {w : World} {S : List Entry} {R K : Nat} {c0 : Op} (f : Nat) (H : FlatHyp w S)
    (hR : w.ops.size ≤ R) (hK : w.links.size ≤ K) :
    ∀ (B A : List Entry) (wi : World) (lk : Lookup), S = A ++ B → CopyInv w S R K c0 A wi lk →
      CopyInv w S R K c0 S ((B.map (·.node)).foldl (cpStep (f + 1) R) (wi, lk)).1
        ((B.map (·.node)).foldl (cpStep (f + 1) R) (wi, lk)).2 := by
  intro B
  induction B with
  | nil =>
    intro A wi lk hs I
    rw [List.append_nil] at hs
    subst hs
    exact I
  | cons e B ih =>
    intro A wi lk hs I
    simp only [List.map_cons, List.foldl_cons]
    exact ih (A ++ [e]) _ _ (by rw [hs]; simp) (cpStep_inv f H hR hK hs I)

/-- two leaf operations with the same lookup key are the same object or carry the same link object. -/
theorem eqKey_inj_link (w : World) (x y : Nat) (h : w.eqKey x = w.eqKey y)
    (hx : (w.op x).isComp = false) (hy : (w.op y).isComp = false) : x = y ∨ (w.op x).link = (w.op y).link := by
  unfold World.eqKey at h
  have hx' : (w.op x).cls ≠ .comp := by
    intro hc; unfold Op.isComp at hx; rw [hc] at hx; cases hx
  have hy' : (w.op y).cls ≠ .comp := by
    intro hc; unfold Op.isComp at hy; rw [hc] at hy; cases hy
  simp only at h
  split at h
  · left; exact EqKey.ident.inj h
  · split at h <;> split at h <;> first
      | exact absurd rfl hx' | exact absurd rfl hy' | (left; exact EqKey.ident.inj h) | (cases h) | (right; injection h)

/-- the link copy pushes exactly one link and changes nothing else the copy reads. -/
theorem copyLink_pushed (w : World) (l : Nat) (lk : Lookup) :
    ∃ L : Link, (w.copyLink l lk).1.ops = w.ops ∧ (w.copyLink l lk).1.links = w.links.push L ∧
      (w.copyLink l lk).1.identKeys = w.identKeys ∧ (w.copyLink l lk).2 = w.links.size ∧
      SameEnv (w.copyLink l lk).1 w := by
  unfold World.copyLink
  simp only
  split
  · exact ⟨_, rfl, rfl, rfl, rfl, SameEnv.refl _⟩
  · exact ⟨_, rfl, rfl, rfl, rfl, SameEnv.refl _⟩

/-! ### the flat copy theorem -/

/-- **Hypotheses of the flat graph-level copy theorem** for the composite `o` in heap `w`
    (H1 = `keyInj`, H2 = `single`, H3 = `child`/`root`/`apart`, H4 = `built`/`leaf`/`linkLt`). -/
structure FlatOk (w : World) (o : Nat) : Prop where
  /-- `o` is a sub-circuit -/
  comp : (w.op o).isComp = true
  /-- H4: the relation tree was built by `attach` (canonical path keys, nodes pairwise distinct, parents present) -/
  built : Built (w.op o).graph
  /-- flat block: every node is an existing leaf operation -/
  leaf : ∀ n ∈ listing (w.op o).graph, n < w.ops.size ∧ (w.op n).isComp = false
  /-- H1: the nodes are pairwise distinct as keys of the transfer lookup -/
  keyInj : ∀ a ∈ listing (w.op o).graph, ∀ b ∈ listing (w.op o).graph, w.eqKey a = w.eqKey b → a = b
  /-- H4: link identifiers are allocated -/
  linkLt : ∀ n ∈ listing (w.op o).graph, (w.op n).link < w.links.size
  /-- H2: no node carries a group link -/
  single : ∀ n ∈ listing (w.op o).graph, (w.lnk (w.op n).link).multi = false
  /-- H3: a node hangs under the operation its relation refers to -/
  child : ∀ e ∈ (w.op o).graph, ∀ p, e.parent = some p → (w.lnk (w.op e.node).link).refs.head? = some p
  /-- H3: the relation of a depth-1 node has no reference, or refers to an existing object outside the block that no
      node of the block equals as a lookup key -/
  root : ∀ e ∈ (w.op o).graph, e.parent = none → ∀ r, (w.lnk (w.op e.node).link).refs.head? = some r →
    r < w.ops.size ∧ ∀ m ∈ listing (w.op o).graph, w.eqKey m ≠ w.eqKey r
  /-- H3 (`RootsApart`): a depth-1 node shares no channel with an earlier depth-1 node (this is why `add` put it
      under the root) -/
  apart : (heads (w.op o).graph).Pairwise (fun x y => chMatch (w.chansOf y) (w.chansOf x) = false)

theorem node_mem_listing {g : List Entry} {e : Entry} (h : e ∈ sortedEntries g) : e.node ∈ listing g :=
  List.mem_map.mpr ⟨e, h, rfl⟩

theorem FlatOk.toHyp {w : World} {o : Nat} (H : FlatOk w o) : FlatHyp w (sortedEntries (w.op o).graph) := by
  have hb := built_sortedEntries H.built
  refine ⟨hb, ?_, ?_, ?_, ?_, ?_, ?_, ?_⟩
  · intro e he; exact H.leaf _ (node_mem_listing he)
  · intro a ha b hb' h; exact H.keyInj _ (node_mem_listing ha) _ (node_mem_listing hb') h
  · intro e he; exact H.linkLt _ (node_mem_listing he)
  · intro e he; exact H.single _ (node_mem_listing he)
  · intro e he; exact H.child e (mem_sortedEntries.mp he)
  · intro e he hp r hr
    obtain ⟨h1, h2⟩ := H.root e (mem_sortedEntries.mp he) hp r hr
    exact ⟨h1, fun m hm => h2 _ (node_mem_listing hm)⟩
  · intro A e B hs hp x hx
    have heS : e ∈ sortedEntries (w.op o).graph := by rw [hs]; simp
    have hxS : x ∈ sortedEntries (w.op o).graph := by rw [hs]; simp [hx]
    have hxlen := (sorted_split_depth hs).1 x hx
    have helen := (hb.root_iff heS).mp hp
    have hxne : 0 < x.key.length := List.length_pos_iff.mpr (hb.key_ne_nil hxS)
    have hxroot : x.parent = none := (hb.root_iff hxS).mpr (by omega)
    have hap := H.apart
    unfold heads at hap
    rw [hs, List.filter_append, List.filter_cons] at hap
    simp only [hp, Option.isNone_none, if_true, List.map_append, List.map_cons] at hap
    rw [List.pairwise_append] at hap
    exact hap.2.2 x.node (List.mem_map.mpr ⟨x, List.mem_filter.mpr ⟨hx, by simp [hxroot]⟩, rfl⟩) e.node (by simp)

/-- the node map of `w.copy o`: the `i`-th node of the listing goes to the fresh object `w.ops.size + 1 + i`
    (`w.ops.size` itself is the new composite). -/
def copyMap (w : World) (o : Nat) (n : Nat) : Nat := w.ops.size + 1 + (listing (w.op o).graph).idxOf n

/-- the link owned by the copy of the `i`-th node: the fresh link `w.links.size + 1 + i`. -/
def copyLinkMap (w : World) (o : Nat) (n : Nat) : Nat := w.links.size + 1 + (listing (w.op o).graph).idxOf n

theorem copyMap_eq (w : World) (o : Nat) : copyMap w o = cpNode w.ops.size (sortedEntries (w.op o).graph) := rfl
theorem copyLinkMap_eq (w : World) (o : Nat) :
    copyLinkMap w o = cpLink (w.links.size + 1) (sortedEntries (w.op o).graph) := rfl

/-- the loop invariant at the end of `w.copy o`. -/
theorem copy_flat_inv (w : World) (o : Nat) (H : FlatOk w o) :
    (w.copy o).2 = w.ops.size ∧
    ∃ (lc : Nat) (lk : Lookup),
      CopyInv w (sortedEntries (w.op o).graph) w.ops.size (w.links.size + 1)
        { cls := .comp, link := lc, rep := (w.op o).rep } (sortedEntries (w.op o).graph) (w.copy o).1 lk := by
  have hf : w.depthFuel = (w.ops.size + 1) + 1 := rfl
  obtain ⟨L, h1, h2, h3, h4, h5⟩ := copyLink_pushed w (w.op o).link []
  have hsz : (w.copyLink (w.op o).link []).1.ops.size = w.ops.size := by rw [h1]
  have base : CopyInv w (sortedEntries (w.op o).graph) w.ops.size (w.links.size + 1)
      { cls := .comp, link := (w.copyLink (w.op o).link []).2, rep := (w.op o).rep } []
      ((w.copyLink (w.op o).link []).1.newOp
        { cls := .comp, link := (w.copyLink (w.op o).link []).2, rep := (w.op o).rep }).1 [] := by
    have hops : ((w.copyLink (w.op o).link []).1.newOp
        { cls := .comp, link := (w.copyLink (w.op o).link []).2, rep := (w.op o).rep }).1.ops =
        w.ops.push { cls := .comp, link := (w.copyLink (w.op o).link []).2, rep := (w.op o).rep } := by
      simp only [World.newOp, h1]
    have hlinks : ((w.copyLink (w.op o).link []).1.newOp
        { cls := .comp, link := (w.copyLink (w.op o).link []).2, rep := (w.op o).rep }).1.links =
        w.links.push L := h2
    refine ⟨?_, ?_, h3, h5, ?_, ?_, ?_, ?_, ?_, ?_⟩
    · rw [hops]; simp
    · rw [hlinks]; simp
    · intro j hj; exact op_push_lt hops hj
    · intro l hl; exact lnk_push_lt hlinks hl
    · exact op_push_eq hops
    · intro e he; cases he
    · intro e he; cases he
    · intro key _; rfl
  have := cpFold_inv (c0 := { cls := .comp, link := (w.copyLink (w.op o).link []).2, rep := (w.op o).rep })
    w.ops.size H.toHyp (Nat.le_refl _) (Nat.le_succ _) (sortedEntries (w.op o).graph) [] _ [] rfl base
  unfold World.copy
  rw [hf, copyObj_comp' w (w.ops.size + 1) o [] H.comp]
  dsimp only
  rw [hsz]
  exact ⟨rfl, _, _, this⟩

/-- what the flat copy theorem says about `(w', o') = w.copy o`, with `φ = copyMap w o`, `ψ = copyLinkMap w o`. -/
structure FlatCopy (w : World) (o : Nat) (w' : World) (o' : Nat) : Prop where
  fresh : o' = w.ops.size
  opsz : w'.ops.size = w.ops.size + 1 + (w.op o).graph.length
  lnksz : w'.links.size = w.links.size + 1 + (w.op o).graph.length
  ident : w'.identKeys = w.identKeys
  env : SameEnv w' w
  cls : (w'.op o').cls = .comp
  rep : (w'.op o').rep = (w.op o).rep
  /-- the copy's entries, in listing order, are the images of the original's: same keys, parents mapped -/
  graph : (w'.op o').graph = (sortedEntries (w.op o).graph).map (Entry.image (copyMap w o))
  /-- each copied operation: class-faithful fields, its own fresh single link, re-pointed to the copy of the parent -/
  node : ∀ e ∈ (w.op o).graph,
    (∃ rg, w'.op (copyMap w o e.node) =
      { (w.op e.node).copyFields with link := copyLinkMap w o e.node, reg := rg }) ∧
    w'.lnk (copyLinkMap w o e.node) =
      { refs := (e.parent.map (copyMap w o)).toList, rel := (w.lnk (w.op e.node).link).rel }
  oldop : ∀ j, j < w.ops.size → w'.op j = w.op j
  oldlnk : ∀ l, l < w.links.size → w'.lnk l = w.lnk l

theorem copy_flat_copy (w : World) (o : Nat) (H : FlatOk w o) : FlatCopy w o (w.copy o).1 (w.copy o).2 := by
  obtain ⟨hid, lc, lk, I⟩ := copy_flat_inv w o H
  have hlen : (sortedEntries (w.op o).graph).length = (w.op o).graph.length :=
    (sortedEntries_perm _).length_eq
  rw [hid]
  refine ⟨rfl, ?_, ?_, I.ident, I.env, ?_, ?_, ?_, ?_, I.oldop, I.oldlnk⟩
  · rw [I.opsz, hlen]
  · rw [I.lnksz, hlen]
  · rw [I.resop]
  · rw [I.resop]
  · rw [I.resop]; rfl
  · intro e he
    exact I.cp e (mem_sortedEntries.mpr he)

theorem listing_idxOf_lt {g : List Entry} {n : Nat} (h : n ∈ listing g) : (listing g).idxOf n < g.length := by
  have := List.idxOf_lt_length_of_mem h
  rwa [listing_length] at this

theorem copyMap_inj (w : World) (o : Nat) {a b : Nat} (ha : a ∈ listing (w.op o).graph)
    (hb : b ∈ listing (w.op o).graph) (h : copyMap w o a = copyMap w o b) : a = b := by
  unfold copyMap at h
  exact idxOf_inj ha hb (by omega)

theorem copyLinkMap_inj (w : World) (o : Nat) {a b : Nat} (ha : a ∈ listing (w.op o).graph)
    (hb : b ∈ listing (w.op o).graph) (h : copyLinkMap w o a = copyLinkMap w o b) : a = b := by
  unfold copyLinkMap at h
  exact idxOf_inj ha hb (by omega)

theorem FlatCopy.listing_eq {w : World} {o : Nat} {w' : World} {o' : Nat} (C : FlatCopy w o w' o') :
    listing (w'.op o').graph = (listing (w.op o).graph).map (copyMap w o) := by
  rw [C.graph]; exact listing_image _ _

theorem FlatCopy.node_lt {w : World} {o : Nat} {w' : World} {o' : Nat} (C : FlatCopy w o w' o') {n : Nat}
    (hn : n ∈ listing (w.op o).graph) : w.ops.size < copyMap w o n ∧ copyMap w o n < w'.ops.size := by
  have := listing_idxOf_lt hn
  unfold copyMap; rw [C.opsz]; omega

/-- the copied operation is a leaf with the channel identifiers of the original. -/
theorem FlatCopy.node_leaf {w : World} {o : Nat} {w' : World} {o' : Nat} (C : FlatCopy w o w' o') {e : Entry}
    (he : e ∈ (w.op o).graph) :
    (w'.op (copyMap w o e.node)).isComp = (w.op e.node).isComp ∧
    (w'.op (copyMap w o e.node)).leafChans = (w.op e.node).leafChans ∧
    (w'.op (copyMap w o e.node)).link = copyLinkMap w o e.node := by
  obtain ⟨⟨rg, hop⟩, _⟩ := C.node e he
  rw [hop]
  refine ⟨?_, ?_, rfl⟩
  · show ((w.op e.node).copyFields.cls == Cls.comp) = ((w.op e.node).cls == Cls.comp)
    rw [copyFields_cls']
  · show (w.op e.node).copyFields.leafChans = _
    exact copyFields_leafChans _

/-- **the copy of a well-linked flat block is a well-linked flat block** — the theorem can be iterated. -/
theorem FlatCopy.flatOk {w : World} {o : Nat} {w' : World} {o' : Nat} (H : FlatOk w o) (C : FlatCopy w o w' o') :
    FlatOk w' o' := by
  have hb := built_sortedEntries H.built
  have hlist := C.listing_eq
  -- every listed node of the copy is the image of a listed node, which is the node of an entry
  have hnode : ∀ n' ∈ listing (w'.op o').graph, ∃ e ∈ (w.op o).graph, n' = copyMap w o e.node := by
    intro n' hn'
    rw [hlist] at hn'
    obtain ⟨n, hn, hnn⟩ := List.mem_map.mp hn'
    obtain ⟨e, he, hen⟩ := mem_listing_iff.mp hn
    exact ⟨e, he, by rw [hen, hnn]⟩
  have hmem : ∀ e ∈ (w.op o).graph, e.node ∈ listing (w.op o).graph :=
    fun e he => mem_listing_iff.mpr ⟨e, he, rfl⟩
  have hleaf : ∀ e ∈ (w.op o).graph, (w'.op (copyMap w o e.node)).isComp = false := by
    intro e he; rw [(C.node_leaf he).1]; exact (H.leaf _ (hmem e he)).2
  have hent : ∀ e' ∈ (w'.op o').graph, ∃ e ∈ (w.op o).graph, e' = e.image (copyMap w o) := by
    intro e' he'
    rw [C.graph] at he'
    obtain ⟨e, he, hee⟩ := List.mem_map.mp he'
    exact ⟨e, mem_sortedEntries.mp he, hee.symm⟩
  refine ⟨?_, ?_, ?_, ?_, ?_, ?_, ?_, ?_, ?_⟩
  · unfold Op.isComp; rw [C.cls]; rfl
  · rw [C.graph]
    exact built_image hb _ (by rw [copyMap_eq]; exact cpNode_inj _ _)
  · intro n' hn'
    obtain ⟨e, he, rfl⟩ := hnode n' hn'
    exact ⟨(C.node_lt (hmem e he)).2, hleaf e he⟩
  · intro a' ha' b' hb' h
    obtain ⟨a, ha, rfl⟩ := hnode a' ha'
    obtain ⟨b, hb2, rfl⟩ := hnode b' hb'
    rcases eqKey_inj_link w' _ _ h (hleaf a ha) (hleaf b hb2) with h' | h'
    · exact h'
    · rw [(C.node_leaf ha).2.2, (C.node_leaf hb2).2.2] at h'
      rw [copyLinkMap_inj w o (hmem a ha) (hmem b hb2) h']
  · intro n' hn'
    obtain ⟨e, he, rfl⟩ := hnode n' hn'
    rw [(C.node_leaf he).2.2, C.lnksz]
    have := listing_idxOf_lt (hmem e he)
    unfold copyLinkMap; omega
  · intro n' hn'
    obtain ⟨e, he, rfl⟩ := hnode n' hn'
    rw [(C.node_leaf he).2.2, (C.node e he).2]
  · intro e' he' p' hp'
    obtain ⟨e, he, rfl⟩ := hent e' he'
    simp only [Entry.image_node, Entry.image_parent] at hp' ⊢
    rw [(C.node_leaf he).2.2, (C.node e he).2, hp']
    rfl
  · intro e' he' hp' r hr
    obtain ⟨e, he, rfl⟩ := hent e' he'
    simp only [Entry.image_node, Entry.image_parent] at hp' hr
    rw [(C.node_leaf he).2.2, (C.node e he).2, hp'] at hr
    cases hr
  · rw [C.graph, heads_image, List.pairwise_map]
    have hheads : ∀ x ∈ heads (w.op o).graph, ∃ e ∈ (w.op o).graph, e.node = x := by
      intro x hx
      unfold heads at hx
      obtain ⟨e, he, hex⟩ := List.mem_map.mp hx
      exact ⟨e, mem_sortedEntries.mp (List.mem_filter.mp he).1, hex⟩
    have hch : ∀ x ∈ heads (w.op o).graph, w'.chansOf (copyMap w o x) = w.chansOf x := by
      intro x hx
      obtain ⟨e, he, rfl⟩ := hheads x hx
      rw [chansOf_leaf w' _ (hleaf e he), chansOf_leaf w _ (H.leaf _ (hmem e he)).2, (C.node_leaf he).2.1]
    have hp := H.apart
    rw [List.pairwise_iff_forall_sublist] at hp ⊢
    intro a b hab
    have ha : a ∈ heads (w.op o).graph := hab.subset (by simp)
    have hb' : b ∈ heads (w.op o).graph := hab.subset (by simp)
    rw [hch a ha, hch b hb']
    exact hp hab

/-- the references of the copied link in terms of the ORIGINAL link: the head reference re-pointed to its copy when it is a
    node of the block, dropped otherwise. -/
def headRefImage (w : World) (o n : Nat) : List Nat :=
  match (w.lnk (w.op n).link).refs.head? with
  | none => []
  | some r => if r ∈ listing (w.op o).graph then [copyMap w o r] else []

theorem FlatOk.parent_refs {w : World} {o : Nat} (H : FlatOk w o) {e : Entry} (he : e ∈ (w.op o).graph) :
    (e.parent.map (copyMap w o)).toList = headRefImage w o e.node := by
  unfold headRefImage
  cases hp : e.parent with
  | some p =>
    rw [H.child e he p hp]
    obtain ⟨pe, hpe, hpq, _⟩ := H.built.parent_mem he hp
    have : p ∈ listing (w.op o).graph := mem_listing_iff.mpr ⟨pe, hpe, hpq⟩
    simp [this]
  | none =>
    cases hh : (w.lnk (w.op e.node).link).refs.head? with
    | none => rfl
    | some r =>
      have hr := (H.root e he hp r hh).2
      have : r ∉ listing (w.op o).graph := fun hmem => hr r hmem rfl
      simp [this]

end Qco
