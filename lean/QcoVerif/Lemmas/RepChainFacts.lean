import QcoVerif.Lemmas.RepChainFinal
import QcoVerif.Lemmas.RepLift
/-
  C09, all chain lengths: the per-description `Facts` (which `RepLift` lifts to every number of cycles and
  every computational initial state) for `chainDesc (m+1) r`, every m ≥ 1 — by proof instead of by table.
-/
namespace Qco.RepChain
open Qco.StimSem Qco.RepCode

section
variable (m : Nat) (hm : 0 < m) (r : Bool) (nD nA : Nat)

local notation "d" => chainDesc (m + 1) r

theorem measured_blockDets (dd : Desc) (body : List Ins) (ref : Option Int) :
    measured (blockDets dd body ref) = [] :=
  measured_noM _ (by simp [blockDets, isM])

include hm

theorem measured_block1 : measured (block1 d) = ancL m := by
  simp only [block1, measured_append, measured_roundDD m hm, measured_blockDets]
  simp [measured]

theorem measured_block2 : measured (block2 d) = ancL m := by
  simp only [block2, measured_append, measured_roundDD m hm, measured_blockDets]
  simp [measured]

theorem measured_block3 (w : Bool) : measured (block3 d w) = ancL m := by
  simp only [block3, measured_append, measured_roundPlain m hm, measured_blockDets]
  simp [measured]

theorem chain_round (b : Bool) :
    run (roundDD d) ⟨stateB d nD nA b, [], [], 0⟩ = some ⟨stateB d nD nA (!b), cB d nD nA (!b), [], 0⟩ := by
  have := run_roundDD_chain m hm r nD nA b [] [] 0
  simpa using this

theorem chain_mid (b : Bool) :
    run (block2 d) ⟨stateB d nD nA b, cB d nD nA b ++ cB d nD nA (!b), [], 0⟩ =
      some ⟨stateB d nD nA (!b), cB d nD nA (!b) ++ (cB d nD nA b ++ cB d nD nA (!b)),
            List.replicate (chainDesc (m + 1) r).ancIdx.length 0, 0⟩ := by
  have := run_block2 m hm r nD nA b [] [] 0
  rw [chain_ancIdx, ancL_length]
  simpa using this

omit hm in
theorem cycleForm_one : cycleForm d nD nA 1 = cycleFormB d nD nA true := rfl
omit hm in
theorem cycleForm_two : cycleForm d nD nA 2 = cycleFormB d nD nA false := rfl

theorem chain_pre :
    run (block1 d ++ block1 d) ⟨stateB d nD nA false, [], [], 0⟩ =
      some ⟨stateB d nD nA false, cB d nD nA false ++ cB d nD nA true,
            ((chainDesc (m + 1) r).ancIdx.map (cycleForm d nD nA 1) ++
              (chainDesc (m + 1) r).ancIdx.map (cycleForm d nD nA 2)).reverse, 0⟩ := by
  have h1 := run_block1 m hm r nD nA false [] [] 0
  have h2 := run_block1 m hm r nD nA true (cB d nD nA true) (cB d nD nA true) 0
  simp only [Bool.not_false, Bool.not_true, List.append_nil] at h1 h2
  rw [run_append_some h1, h2, List.reverse_append, chain_ancIdx, cycleForm_one, cycleForm_two,
    ← cB_chain, ← cB_chain]

theorem measured_qecListing4 : measured (qecListing4 d) = (ancL m ++ ancL m) ++ ancL m := by
  rw [qecListing4, measured_append, measured_append, measured_block1 m hm, measured_block2 m hm,
    measured_block3 m hm]

theorem chain_post (b : Bool) :
    view (run (block3 d true ++ finalPart4 d) ⟨stateB d nD nA b, cB d nD nA b ++ cB d nD nA (!b), [], 0⟩) =
      some (finB d nD b ++ (cB d nD nA (!b) ++ (cB d nD nA b ++ cB d nD nA (!b))),
            List.replicate (2 * (chainDesc (m + 1) r).ancIdx.length) 0, expectedObservableB d nD b) := by
  have h1 := run_block3_true m hm r nD nA b [] [] 0
  have h2 := run_finalPart_2 m r nD nA (initPart d [] ++ qecListing4 d) (qecListing4 d) _
    (measured_qecListing4 m hm r) b (!b) (!b) (cB d nD nA (!b)) (List.replicate m 0)
  simp only [Bool.not_not, List.append_nil] at h1 h2
  rw [run_append_some h1, finalPart4, h2, chain_ancIdx, ancL_length]
  simp [view, Nat.two_mul]


/-! ### 0, 1, 2, 3 cycles -/

omit hm in
theorem body_0 (dd : Desc) : body dd 0 = dd.measAnc.map .M ++
    finalPart dd false false (initPart dd [] ++ dd.measAnc.map .M) (dd.measAnc.map .M) := by
  simp [body, qecBlocks, unroll, once]
omit hm in
theorem body_1 (dd : Desc) : body dd 1 = block3 dd false ++
    finalPart dd true false (initPart dd [] ++ block3 dd false) (block3 dd false) := by
  simp [body, qecBlocks, unroll, once]
omit hm in
theorem body_2 (dd : Desc) : body dd 2 = block1 dd ++ (block3 dd false ++
    finalPart dd true true (initPart dd [] ++ (block1 dd ++ block3 dd false)) (block1 dd ++ block3 dd false)) := by
  simp [body, qecBlocks, unroll, once]
omit hm in
theorem body_3 (dd : Desc) : body dd 3 = block1 dd ++ (block1 dd ++ (block3 dd true ++
    finalPart dd true true (initPart dd [] ++ (block1 dd ++ block3 dd true)) (block1 dd ++ block3 dd true))) := by
  simp [body, qecBlocks, unroll, once, List.replicate]

omit hm in
theorem cycleFormB_false (dd : Desc) (q : Nat) : cycleFormB dd nD nA false q = aVar dd nD nA q := by
  simp [cycleFormB]

omit hm in
theorem zeros_reverse (dd : Desc) : (zeros dd).reverse = zeros dd := by simp [zeros]

omit hm in
theorem expectedView_0 (dd : Desc) : expectedView dd 0 nD nA =
    (finB dd nD false ++ (cB dd nD nA false ++ zeros dd), (dd.ancIdx.map (parityForm dd nD)).reverse,
      expectedObservableB dd nD false) := by
  have h : cycleFormB dd nD nA false = aVar dd nD nA := funext (cycleFormB_false nD nA dd)
  simp only [expectedView, expectedRecord, expectedDetectors, expectedObservable, if_true, List.reverse_append,
    zeros_reverse, finB, cB, h, List.append_assoc]
  rfl

omit hm in
theorem run_M_anc_SB (b ba : Bool) (T D : List Nat) (o : Nat) :
    run ((ancL m).map .M) ⟨mk (2 * m + 1) (SB d nD nA b ba), T, D, o⟩ =
      some ⟨mk (2 * m + 1) (SB d nD nA b ba), cB d nD nA ba ++ T, D, o⟩ := by
  rw [run_M_layer _ _ _ (fun q hq => ⟨anc_lt hq, SB_Z _ _ _ _ _ q⟩), cB_chain]
  have : (ancL m).map (fun q => (SB d nD nA b ba q).f) = (ancL m).map (cycleFormB d nD nA ba) :=
    List.map_congr_left (fun q hq => by rw [SB_anc m r nD nA b ba hq])
  rw [this]

omit hm in
theorem chain_small0 :
    view (run (body d 0) ⟨stateB d nD nA false, zeros d, [], 0⟩) = some (expectedView d 0 nD nA) := by
  rw [body_0, expectedView_0, chain_measAnc, stateB_eq,
    run_append_some (run_M_anc_SB m r nD nA false false (zeros d) [] 0),
    run_finalPart_0 m r nD nA _ ((ancL m).map .M) [] (by rw [measured_M]; rfl), chain_ancIdx]
  simp [view]


omit hm in
theorem parity_xor_cycle_true (dd : Desc) (t : Nat) :
    parityForm dd nD t ^^^ cycleFormB dd nD nA true t = aVar dd nD nA t := by
  simp only [cycleFormB, if_true]
  rw [Nat.xor_comm, Nat.xor_assoc, Nat.xor_self, Nat.xor_zero]

omit hm in
theorem expectedView_1 (dd : Desc) : expectedView dd 1 nD nA =
    (finB dd nD false ++ (cB dd nD nA true ++ zeros dd),
      (dd.ancIdx.map (aVar dd nD nA)).reverse ++ (dd.ancIdx.map (cycleFormB dd nD nA true)).reverse,
      expectedObservableB dd nD false) := by
  simp only [expectedView, expectedRecord_reverse dd nD nA 1 (by omega), expectedDetectors, expectedObservable]
  simp [revRounds, par, cycleForm]

theorem chain_small1 :
    view (run (body d 1) ⟨stateB d nD nA false, zeros d, [], 0⟩) = some (expectedView d 1 nD nA) := by
  have h1 := run_block3_false m hm r nD nA false (zeros d) [] 0
  have h2 := run_finalPart_1 m r nD nA (initPart d [] ++ block3 d false) (block3 d false) []
    (by rw [measured_block3 m hm]; rfl) false true true (zeros d) (cB d nD nA true)
  simp only [Bool.not_false, List.append_nil] at h1
  rw [body_1, expectedView_1, run_append_some h1, h2, chain_ancIdx]
  have : ((ancL m).map fun t => parityForm d nD t ^^^ cycleFormB d nD nA true t) = (ancL m).map (aVar d nD nA) :=
    List.map_congr_left (fun t _ => parity_xor_cycle_true nD nA d t)
  rw [this, cB_chain]
  simp [view]

omit hm in
theorem expectedView_ge2 (dd : Desc) (c : Nat) (hc : 2 ≤ c) : expectedView dd c nD nA =
    (finB dd nD (par (c - 1)) ++ (revRounds (cB dd nD nA) c ++ zeros dd),
      List.replicate ((c - 1) * dd.ancIdx.length) 0 ++
        ((dd.ancIdx.map (cycleFormB dd nD nA false)).reverse ++ (dd.ancIdx.map (cycleFormB dd nD nA true)).reverse),
      expectedObservableB dd nD (par (c - 1))) := by
  simp only [expectedView, expectedRecord_reverse dd nD nA c (by omega), expectedDetectors_reverse dd nD nA c hc,
    expectedObservable, List.reverse_append]
  rfl

theorem chain_small2 :
    view (run (body d 2) ⟨stateB d nD nA false, zeros d, [], 0⟩) = some (expectedView d 2 nD nA) := by
  have h1 := run_block1 m hm r nD nA false (zeros d) [] 0
  have h2 := run_block3_false m hm r nD nA true (cB d nD nA true ++ zeros d) (cB d nD nA true) 0
  have h3 := run_finalPart_2 m r nD nA (initPart d [] ++ (block1 d ++ block3 d false)) (block1 d ++ block3 d false)
    (ancL m) (by rw [measured_append, measured_block1 m hm, measured_block3 m hm]) true false false (zeros d)
    (cB d nD nA false ++ cB d nD nA true)
  simp only [Bool.not_false, Bool.not_true, List.append_nil] at h1 h2 h3
  rw [body_2, expectedView_ge2 nD nA d 2 (by omega), run_append_some h1, run_append_some h2, h3, chain_ancIdx,
    ancL_length, ← cB_chain, ← cB_chain]
  simp [view, revRounds, par]

theorem chain_small3 :
    view (run (body d 3) ⟨stateB d nD nA false, zeros d, [], 0⟩) = some (expectedView d 3 nD nA) := by
  have h1 := run_block1 m hm r nD nA false (zeros d) [] 0
  have h2 := run_block1 m hm r nD nA true (cB d nD nA true ++ zeros d) (cB d nD nA true) 0
  have h3 := run_block3_true m hm r nD nA false (zeros d) (cB d nD nA false ++ cB d nD nA true) 0
  have h4 := run_finalPart_2 m r nD nA (initPart d [] ++ (block1 d ++ block3 d true)) (block1 d ++ block3 d true)
    (ancL m) (by rw [measured_append, measured_block1 m hm, measured_block3 m hm]) false true true
    (cB d nD nA true ++ zeros d) (List.replicate m 0 ++ (cB d nD nA false ++ cB d nD nA true))
  simp only [Bool.not_false, Bool.not_true, List.append_nil] at h1 h2 h3 h4
  rw [body_3, expectedView_ge2 nD nA d 3 (by omega), run_append_some h1, run_append_some h2, run_append_some h3,
    h4, chain_ancIdx, ancL_length, ← cB_chain, ← cB_chain]
  simp [view, revRounds, par, Nat.two_mul]
  rw [← List.append_assoc, List.replicate_append_replicate]

end

end Qco.RepChain
