import QcoVerif.Lemmas.Commute
/-
  C03 — the listing of `c` commutes with `c.add_sub_circuit(sub)` when `sub` is a separate tree (identity-keyed copy
  lookup, no group links).

  Part H  the listing of a tree does not depend on the fuel (once it covers the depth).
  Part I  listing a circuit in an extension of the heap (new objects, new links) does the same to the old objects.
  Part J  `copyObj` does not read the links of objects outside the copied tree (no group links; the keys it reads are
          identities or keys of objects outside the region).
  Part K  assembly.
  Core Lean only.
-/
namespace Qco.Commute

open Qco

/-! ### Part H: fuel -/

theorem foldl_congr_inv {α β} (P : α → Prop) (s1 s2 : α → β → α) (L : List β)
    (hs : ∀ a b, b ∈ L → P a → s1 a b = s2 a b) (hP : ∀ a b, b ∈ L → P a → P (s1 a b)) :
    ∀ a, P a → L.foldl s1 a = L.foldl s2 a := by
  induction L with
  | nil => intro a _; rfl
  | cons x xs ih =>
    intro a ha
    simp only [List.foldl_cons]
    rw [← hs a x List.mem_cons_self ha]
    exact ih (fun a b hb => hs a b (List.mem_cons_of_mem _ hb)) (fun a b hb => hP a b (List.mem_cons_of_mem _ hb)) _
      (hP a x List.mem_cons_self ha)

/-- the listing of a tree-shaped circuit is the same for every fuel that covers its depth. -/
theorem decomposed_fuel : ∀ (f g g' c : Nat) (y : World), TreeBelow y f c → (y.op c).isComp = true → f ≤ g → f ≤ g' →
    y.decomposed g c = y.decomposed g' c := by
  intro f
  induction f with
  | zero => intro g g' c y h; exact h.elim
  | succ f ih =>
    intro g g' c y ht hc hg hg'
    cases g with
    | zero => omega
    | succ g =>
      cases g' with
      | zero => omega
      | succ g' =>
        rw [Draw.decomposed_succ, Draw.decomposed_succ]
        apply foldl_congr_inv (fun acc : World × List Nat => Shape acc.1 y ∧ acc.1.ops.size = y.ops.size)
        · intro acc n hn hacc
          have ht' : TreeBelow y f n := ht.kid hc ((mem_listing_kids y c n).mp hn)
          have hs1 : Shape (pre (y.op c).link acc.1 n) y := pre_shape _ hacc.1 n
          have ht1 : TreeBelow (pre (y.op c).link acc.1 n) f n :=
            tree_congr y _ (by rw [pre_size, hacc.2]; exact Nat.le_refl _) f n ht' (fun j _ => hs1.2 j)
          show (if ((pre (y.op c).link acc.1 n).op n).isComp then
              (((pre (y.op c).link acc.1 n).decomposed g n).1, acc.2 ++ ((pre (y.op c).link acc.1 n).decomposed g n).2)
            else (pre (y.op c).link acc.1 n, acc.2 ++ [n])) =
            (if ((pre (y.op c).link acc.1 n).op n).isComp then
              (((pre (y.op c).link acc.1 n).decomposed g' n).1, acc.2 ++ ((pre (y.op c).link acc.1 n).decomposed g' n).2)
            else (pre (y.op c).link acc.1 n, acc.2 ++ [n]))
          split
          · rename_i hcn
            rw [ih g g' n _ ht1 hcn (by omega) (by omega)]
          · rfl
        · intro acc n _ hacc
          rw [decompStep_fst]
          exact ⟨wstep_shape g _ hacc.1 n, by rw [wstep_size]; exact hacc.2⟩
        · exact ⟨Shape.refl y, rfl⟩

/-! ### Part I: listing in an extension of the heap -/

/-- two heaps of possibly different size that agree on the objects `Xs` (all of them existing in both, with links below
    `K`) and on the links below `K`. -/
def SimReg (K : Nat) (Xs : List Nat) (y z : World) : Prop :=
  (∀ l, l < K → z.lnk l = y.lnk l) ∧
  ∀ j ∈ Xs, z.op j = y.op j ∧ (y.op j).link < K ∧ j < y.ops.size ∧ j < z.ops.size

theorem simReg_spec (K : Nat) (Xs : List Nat) : SimSpec (fun n => n ∈ Xs) (fun k => k < K) (SimReg K Xs) := by
  refine ⟨?_, ?_, ?_, ?_⟩
  · intro y z n k h hn hk
    obtain ⟨h1, h2⟩ := h
    refine ⟨?_, ?_⟩
    · intro l hl
      unfold World.lnk
      rw [setLink_links, setLink_links]
      exact h1 l hl
    · intro j hj
      obtain ⟨a1, a2, a3, a4⟩ := h2 j hj
      obtain ⟨b1, _, b3, b4⟩ := h2 n hn
      refine ⟨?_, ?_, by rw [setLink_size]; exact a3, by rw [setLink_size]; exact a4⟩
      · unfold World.setLink
        rw [op_setOp, op_setOp, b1, a1]
        simp only [b3, b4, and_true]
      · unfold World.setLink
        rw [op_setOp]
        split
        · exact hk
        · exact a2
  · intro y z n h hn
    unfold World.hasRel
    rw [(h.2 n hn).1, h.1 _ (h.2 n hn).2.1]
  · intro y z n h hn
    exact (h.2 n hn).1
  · intro y z n h hn
    exact (h.2 n hn).2.1

/-! ### Part J: `copyObj` does not read the links of objects outside the copied tree -/

/-- the invariant under which the copy is analysed: no group link anywhere, every object's link is an existing link. -/
structure CInv (y : World) : Prop where
  single : ∀ l, (y.lnk l).multi = false
  range : ∀ j, (y.op j).link < y.links.size

/-- `z` is `y` up to the links of the objects in `X`. -/
def SimX (X : Nat → Prop) (y z : World) : Prop :=
  OpsOnly y z ∧ z.ops.size = y.ops.size ∧ (∀ j, ¬ X j → z.op j = y.op j) ∧ (∀ j, (z.op j).noLink = (y.op j).noLink)

theorem SimX.shape {X : Nat → Prop} {y z : World} (h : SimX X y z) : Shape z y :=
  ⟨by rw [h.1], h.2.2.2⟩

theorem SimX.links {X : Nat → Prop} {y z : World} (h : SimX X y z) : z.links = y.links := h.1.links

theorem SimX.ident {X : Nat → Prop} {y z : World} (h : SimX X y z) : z.identKeys = y.identKeys := by rw [h.1]

/-- `y'` has the links of `y` and possibly more. -/
def LinksExt (y y' : World) : Prop := y.links.size ≤ y'.links.size ∧ ∀ l, l < y.links.size → y'.lnk l = y.lnk l

theorem LinksExt.refl (y : World) : LinksExt y y := ⟨Nat.le_refl _, fun _ _ => rfl⟩

theorem LinksExt.trans {a b c : World} (h1 : LinksExt a b) (h2 : LinksExt b c) : LinksExt a c :=
  ⟨Nat.le_trans h1.1 h2.1, fun l hl => (h2.2 l (Nat.lt_of_lt_of_le hl h1.1)).trans (h1.2 l hl)⟩

theorem LinksExt.of_eq {a b : World} (h : b.links = a.links) : LinksExt a b :=
  ⟨by rw [h]; exact Nat.le_refl _, fun l _ => Flat.lnk_of_links_eq h l⟩

theorem eqKey_ident (y : World) (h : y.identKeys = true) (r : Nat) : y.eqKey r = .ident r := by
  unfold World.eqKey
  simp [h]

theorem eqKey_congr {y z : World} (hi : z.identKeys = y.identKeys) (r : Nat) (h : z.op r = y.op r) :
    z.eqKey r = y.eqKey r := by
  unfold World.eqKey
  rw [hi, h]

theorem eqKey_of_ops {y y' : World} (ho : y'.ops = y.ops) (hi : y'.identKeys = y.identKeys) (r : Nat) :
    y'.eqKey r = y.eqKey r := eqKey_congr hi r (Flat.op_of_ops_eq ho r)

/-- the keys `copyObj` reads when it copies object `j` — the key of the reference of its link and, for a measurement,
    of its registry — do not depend on the links of the objects of `X`: the lookup is keyed by identity, or these objects
    are not in `X`. -/
def KeyFree (X : Nat → Prop) (y : World) (j : Nat) : Prop :=
  y.identKeys = true ∨
    ((∀ r, (y.lnk (y.op j).link).refs.head? = some r → ¬ X r) ∧ ((y.op j).cls = .measure → ¬ X (y.op j).reg))

theorem KeyFree.mono {X X' : Nat → Prop} (h : ∀ r, X r → X' r) {y : World} {j : Nat} (hk : KeyFree X' y j) :
    KeyFree X y j := by
  rcases hk with hi | ⟨h1, h2⟩
  · exact Or.inl hi
  · exact Or.inr ⟨fun r hr hx => h1 r hr (h r hx), fun hm hx => h2 hm (h _ hx)⟩

theorem KeyFree.link {X : Nat → Prop} {y z : World} {j : Nat} (h : SimX X y z) (hk : KeyFree X y j) (r : Nat)
    (hr : (y.lnk (y.op j).link).refs.head? = some r) : z.eqKey r = y.eqKey r := by
  rcases hk with hi | ⟨h1, _⟩
  · rw [eqKey_ident y hi, eqKey_ident z (by rw [h.ident]; exact hi)]
  · exact eqKey_congr h.ident r (h.2.2.1 r (h1 r hr))

theorem KeyFree.reg {X : Nat → Prop} {y z : World} {j : Nat} (h : SimX X y z) (hk : KeyFree X y j)
    (hm : (y.op j).cls = .measure) : z.eqKey (y.op j).reg = y.eqKey (y.op j).reg := by
  rcases hk with hi | ⟨_, h2⟩
  · rw [eqKey_ident y hi, eqKey_ident z (by rw [h.ident]; exact hi)]
  · exact eqKey_congr h.ident _ (h.2.2.1 _ (h2 hm))

theorem lnk_newLink (y : World) (L : Link) (l : Nat) :
    (y.newLink L).1.lnk l = if l = y.links.size then L else y.lnk l := by
  unfold World.newLink World.lnk
  simp only [Array.getD_eq_getD_getElem?, Array.getElem?_push]
  by_cases h : l = y.links.size
  · simp [h]
  · simp [h]

theorem op_newOp (y : World) (v : Op) (j : Nat) :
    (y.newOp v).1.op j = if j = y.ops.size then v else y.op j := by
  unfold World.newOp World.op
  simp only [Array.getD_eq_getD_getElem?, Array.getElem?_push]
  by_cases h : j = y.ops.size
  · simp [h]
  · simp [h]

theorem opsOnly_exists {y z : World} (h : OpsOnly y z) : ∃ O, z = { y with ops := O } := ⟨z.ops, h⟩

theorem simX_newLink {X : Nat → Prop} {y z : World} (h : SimX X y z) (L : Link) :
    SimX X (y.newLink L).1 (z.newLink L).1 ∧ (z.newLink L).2 = (y.newLink L).2 := by
  obtain ⟨h1, h2, h3, h4⟩ := h
  refine ⟨⟨?_, h2, h3, h4⟩, by show z.links.size = y.links.size; rw [h1.links]⟩
  obtain ⟨O, rfl⟩ := opsOnly_exists h1
  rfl

theorem cinv_newLink {y : World} (h : CInv y) (L : Link) (hL : L.multi = false) : CInv (y.newLink L).1 := by
  refine ⟨?_, ?_⟩
  · intro l
    rw [lnk_newLink]
    split
    · exact hL
    · exact h.single l
  · intro j
    show (y.op j).link < (y.links.push L).size
    have := h.range j
    simp only [Array.size_push]
    omega

theorem simX_newOp {X : Nat → Prop} {y z : World} (h : SimX X y z) (v : Op) :
    SimX X (y.newOp v).1 (z.newOp v).1 ∧ (z.newOp v).2 = (y.newOp v).2 := by
  obtain ⟨h1, h2, h3, h4⟩ := h
  refine ⟨⟨?_, ?_, ?_, ?_⟩, h2⟩
  · obtain ⟨O, rfl⟩ := opsOnly_exists h1
    rfl
  · show (z.ops.push v).size = (y.ops.push v).size
    simp only [Array.size_push, h2]
  · intro j hj
    rw [op_newOp, op_newOp, h2, h3 j hj]
  · intro j
    rw [op_newOp, op_newOp, h2]
    split
    · rfl
    · exact h4 j

theorem cinv_newOp {y : World} (h : CInv y) (v : Op) (hv : v.link < y.links.size) : CInv (y.newOp v).1 := by
  refine ⟨h.single, ?_⟩
  intro j
  rw [op_newOp]
  split
  · exact hv
  · exact h.range j

/-- the copy of a link that is not a group link is one allocation. -/
theorem copyLink_single (y : World) (l : Nat) (lk : Lookup) (hs : (y.lnk l).multi = false) :
    y.copyLink l lk = y.newLink
      { refs := (match (y.lnk l).refs.head? with
          | none => []
          | some r => match lk.get? (y.eqKey r) with
            | none => []
            | some r' => [r']),
        rel := (y.lnk l).rel } := by
  unfold World.copyLink
  simp only [hs, Bool.not_false, if_true]
  rfl

theorem simX_copyLink {X : Nat → Prop} {y z : World} (h : SimX X y z) (hc : CInv y) (l : Nat) (lk : Lookup)
    (hk : ∀ r, (y.lnk l).refs.head? = some r → z.eqKey r = y.eqKey r) :
    SimX X (y.copyLink l lk).1 (z.copyLink l lk).1 ∧ (z.copyLink l lk).2 = (y.copyLink l lk).2 := by
  have hzl : z.lnk l = y.lnk l := Flat.lnk_of_links_eq h.links l
  rw [copyLink_single y l lk (hc.single l), copyLink_single z l lk (by rw [hzl]; exact hc.single l), hzl]
  have hL : (match (y.lnk l).refs.head? with
      | none => ([] : List Nat)
      | some r => match lk.get? (z.eqKey r) with
        | none => []
        | some r' => [r']) =
      (match (y.lnk l).refs.head? with
      | none => ([] : List Nat)
      | some r => match lk.get? (y.eqKey r) with
        | none => []
        | some r' => [r']) := by
    cases hh : (y.lnk l).refs.head? with
    | none => rfl
    | some r => simp only [hk r hh]
  rw [hL]
  exact simX_newLink h _

theorem cinv_copyLink {y : World} (hc : CInv y) (l : Nat) (lk : Lookup) :
    CInv (y.copyLink l lk).1 ∧ (y.copyLink l lk).1.ops = y.ops ∧ (y.copyLink l lk).2 = y.links.size ∧
    (y.copyLink l lk).1.links.size = y.links.size + 1 ∧ LinksExt y (y.copyLink l lk).1 ∧
    (y.copyLink l lk).1.identKeys = y.identKeys := by
  rw [copyLink_single y l lk (hc.single l)]
  have hsz : ∀ L : Link, (y.newLink L).1.links.size = y.links.size + 1 := by
    intro L; show (y.links.push L).size = _; simp
  refine ⟨cinv_newLink hc _ rfl, rfl, rfl, hsz _, ⟨by rw [hsz]; omega, ?_⟩, rfl⟩
  intro l' hl'
  rw [lnk_newLink]
  have : l' ≠ y.links.size := by omega
  simp only [this, if_false]

theorem copyLeaf_eq (y : World) (o : Nat) (lk : Lookup) :
    y.copyLeaf o lk = (y.copyLink (y.op o).link lk).1.newOp
      { (y.op o).copyFields with
        link := (y.copyLink (y.op o).link lk).2,
        reg := if (y.op o).cls == .measure then
            (lk.get? ((y.copyLink (y.op o).link lk).1.eqKey (y.op o).reg)).getD (y.op o).reg
          else (y.op o).copyFields.reg } := by
  unfold World.copyLeaf
  have : (y.op o).cls.copyKeepsLink = true := rfl
  simp only [this, if_true]

theorem simX_copyLeaf {X : Nat → Prop} {y z : World} (h : SimX X y z) (hc : CInv y) (o : Nat) (ho : ¬ X o)
    (lk : Lookup) (hk : KeyFree X y o) :
    SimX X (y.copyLeaf o lk).1 (z.copyLeaf o lk).1 ∧ (z.copyLeaf o lk).2 = (y.copyLeaf o lk).2 := by
  rw [copyLeaf_eq y o lk, copyLeaf_eq z o lk, h.2.2.1 o ho]
  obtain ⟨h1, h2⟩ := simX_copyLink h hc (y.op o).link lk (fun r hr => hk.link h r hr)
  obtain ⟨_, c2, _, _, _, c6⟩ := cinv_copyLink hc (y.op o).link lk
  have hky : ∀ r, (y.copyLink (y.op o).link lk).1.eqKey r = y.eqKey r := fun r => eqKey_of_ops c2 c6 r
  have hzs : (z.lnk (y.op o).link).multi = false := by
    rw [Flat.lnk_of_links_eq h.links]; exact hc.single _
  have e1 : (z.copyLink (y.op o).link lk).1.ops = z.ops := by
    rw [copyLink_single z _ lk hzs]; rfl
  have e2 : (z.copyLink (y.op o).link lk).1.identKeys = z.identKeys := by
    rw [copyLink_single z _ lk hzs]; rfl
  have hkz : ∀ r, (z.copyLink (y.op o).link lk).1.eqKey r = z.eqKey r := fun r => eqKey_of_ops e1 e2 r
  rw [h2, hky, hkz]
  by_cases hm : (y.op o).cls = .measure
  · rw [hk.reg h hm]
    exact simX_newOp h1 _
  · have hm' : ((y.op o).cls == Cls.measure) = false := by simpa using hm
    simp only [hm', Bool.false_eq_true, if_false]
    exact simX_newOp h1 _

theorem cinv_copyLeaf {y : World} (hc : CInv y) (o : Nat) (lk : Lookup) :
    CInv (y.copyLeaf o lk).1 ∧ (y.copyLeaf o lk).1.ops.size = y.ops.size + 1 ∧ (y.copyLeaf o lk).2 = y.ops.size ∧
    (∀ j, j < y.ops.size → (y.copyLeaf o lk).1.op j = y.op j) ∧ LinksExt y (y.copyLeaf o lk).1 ∧
    (y.copyLeaf o lk).1.identKeys = y.identKeys := by
  rw [copyLeaf_eq y o lk]
  obtain ⟨c1, c2, c3, c4, c5, c6⟩ := cinv_copyLink hc (y.op o).link lk
  have hsz : (y.copyLink (y.op o).link lk).1.ops.size = y.ops.size := by rw [c2]
  refine ⟨cinv_newOp c1 _ (by show (y.copyLink (y.op o).link lk).2 < _; rw [c3, c4]; omega), ?_, ?_, ?_, c5, c6⟩
  · show ((y.copyLink (y.op o).link lk).1.ops.push _).size = _
    rw [Array.size_push, hsz]
  · show (y.copyLink (y.op o).link lk).1.ops.size = _
    exact hsz
  · intro j hj
    rw [op_newOp, hsz]
    have : j ≠ y.ops.size := by omega
    simp only [this, if_false]
    exact Flat.op_of_ops_eq c2 j

/-! #### `add` -/

theorem addDec_single (hr : Bool) (leaf : Option Nat) (ref : Option (Option Nat)) (g : List Entry)
    (a : Nat) (b : Bool) (L : Link) (h : (addDec hr leaf ref g).1 = some (a, b, L)) : L.multi = false := by
  have hrl : ∀ a' b', (relinkDec a' b' leaf).1 = some (a, b, L) → L.multi = false := by
    intro a' b' h
    unfold relinkDec at h
    cases leaf with
    | none => simp only [Option.some.injEq, Prod.mk.injEq] at h; rw [← h.2.2]
    | some lf => simp only [Option.some.injEq, Prod.mk.injEq] at h; rw [← h.2.2]
  unfold addDec at h
  split at h
  · split at h
    · cases h
    · exact hrl _ _ h
  · split at h
    · split at h
      · cases h
      · exact hrl _ _ h
    · exact hrl _ _ h

theorem modW_identKeys (k : Option (Nat × Bool × Link)) (o : Nat) (y : World) :
    (modW k o y).identKeys = y.identKeys := by
  cases k with
  | none => rfl
  | some k => rfl

theorem modW_links (k : Option (Nat × Bool × Link)) (o : Nat) (y : World) :
    (modW k o y).links = match k with
      | none => y.links
      | some (_, _, L) => y.links.push L := by
  cases k with
  | none => rfl
  | some k => rfl

theorem addW_links_size (k : Option (Nat × Bool × Link)) (G : List Entry) (c o : Nat) (y : World) :
    y.links.size ≤ (addW k G c o y).links.size := by
  show y.links.size ≤ (modW k o y).links.size
  rw [modW_links]
  cases k with
  | none => exact Nat.le_refl _
  | some k => simp

theorem cinv_addW {y : World} (hc : CInv y) (k : Option (Nat × Bool × Link)) (G : List Entry) (c o : Nat)
    (hk : ∀ a b L, k = some (a, b, L) → L.multi = false) : CInv (addW k G c o y) := by
  have hl : (addW k G c o y).links = (modW k o y).links := rfl
  refine ⟨?_, ?_⟩
  · intro l
    unfold World.lnk
    rw [hl, modW_links]
    cases k with
    | none => exact hc.single l
    | some k =>
      obtain ⟨a, b, L⟩ := k
      have := lnk_newLink y L l
      unfold World.lnk World.newLink at this
      simp only at this ⊢
      rw [this]
      split
      · exact hk a b L rfl
      · exact hc.single l
  · intro j
    have hsize : y.links.size ≤ (addW k G c o y).links.size := addW_links_size k G c o y
    have hsome : k.isSome = true → y.links.size < (addW k G c o y).links.size := by
      intro hs
      rw [hl, modW_links]
      cases k with
      | none => cases hs
      | some k => simp
    have hm : ∀ i, ((modW k o y).op i).link < (addW k G c o y).links.size := by
      intro i
      rw [modW_op]
      split
      · rename_i h; exact hsome h.1
      · exact Nat.lt_of_lt_of_le (hc.range i) hsize
    rw [addW_op]
    split
    · exact hm c
    · exact hm j

theorem simX_add {X : Nat → Prop} {y z : World} (h : SimX X y z) (hc : CInv y) (c o : Nat) (hcX : ¬ X c)
    (hoX : ¬ X o) : SimX X (y.add c o) (z.add c o) ∧ CInv (y.add c o) ∧ (y.add c o).ops.size = y.ops.size ∧
      LinksExt y (y.add c o) ∧ (y.add c o).identKeys = y.identKeys := by
  have hopo := h.2.2.1 o hoX
  have hopc := h.2.2.1 c hcX
  have hrel : z.hasRel o = y.hasRel o := by
    unfold World.hasRel; rw [hopo, Flat.lnk_of_links_eq h.links]
  have href : z.refOf (z.op o).link = y.refOf (y.op o).link := by
    rw [hopo, Flat.refOf_single y _ (hc.single _),
      Flat.refOf_single z _ (by rw [Flat.lnk_of_links_eq h.links]; exact hc.single _), Flat.lnk_of_links_eq h.links]
  have hlf : z.leafAtAny (z.op c).graph (z.chansOf o) = y.leafAtAny (y.op c).graph (y.chansOf o) := by
    rw [hopc, chansOf_shape h.shape h.2.1, leafAtAny_shape h.shape h.2.1]
  rw [add_eq z c o, add_eq y c o, hrel, href, hlf, hopc]
  generalize hdec : addDec (y.hasRel o) (y.leafAtAny (y.op c).graph (y.chansOf o)) (y.refOf (y.op o).link)
    (y.op c).graph = dec
  have hk : ∀ a b L, dec.1 = some (a, b, L) → L.multi = false := by
    intro a b L hL
    rw [← hdec] at hL
    exact addDec_single _ _ _ _ a b L hL
  show SimX X (addW dec.1 (attach (y.op c).graph dec.2 o) c o y) (addW dec.1 (attach (y.op c).graph dec.2 o) c o z) ∧
    CInv (addW dec.1 (attach (y.op c).graph dec.2 o) c o y) ∧
    (addW dec.1 (attach (y.op c).graph dec.2 o) c o y).ops.size = y.ops.size ∧
    LinksExt y (addW dec.1 (attach (y.op c).graph dec.2 o) c o y) ∧
    (addW dec.1 (attach (y.op c).graph dec.2 o) c o y).identKeys = y.identKeys
  refine ⟨⟨addW_opsOnly _ _ c o h.1, by rw [addW_size, addW_size, h.2.1], ?_, ?_⟩, cinv_addW hc _ _ c o hk,
    addW_size _ _ c o y, ⟨addW_links_size _ _ c o y, fun l hl => addW_lnk _ _ c o y l hl⟩, modW_identKeys _ o y⟩
  · intro j hj
    exact addW_op_congr _ _ c o h.2.1 (by rw [h.links]) j hopo hopc (h.2.2.1 j hj)
  · intro j
    exact (addW_shape _ _ c o h.shape h.2.1).2 j

/-! #### the copy loop and `copyObj` -/

theorem simX_bump {X : Nat → Prop} {y z : World} (h : SimX X y z) :
    SimX X { y with collisions := y.collisions + 1 } { z with collisions := z.collisions + 1 } := by
  obtain ⟨h1, h2, h3, h4⟩ := h
  refine ⟨?_, h2, h3, h4⟩
  obtain ⟨O, rfl⟩ := opsOnly_exists h1
  rfl

theorem cinv_bump {y : World} (h : CInv y) : CInv { y with collisions := y.collisions + 1 } :=
  ⟨h.single, h.range⟩

theorem copyObj_leaf' (y : World) (g o : Nat) (lk : Lookup) (h : (y.op o).isComp = false) :
    y.copyObj (g + 1) o lk = ((y.copyLeaf o lk).1, (y.copyLeaf o lk).2, lk) := by
  rw [World.copyObj]
  simp only [h, Bool.not_false, if_true]

/-- what the locality lemma states about one call of `copyObj`: same identifier and lookup in both heaps, the two
    results are again equal up to the links of `X`; the copy is the first new object; no old object and no old link is
    written. -/
def CopyLocal (X : Nat → Prop) (g o : Nat) (lk : Lookup) (y z : World) : Prop :=
  (z.copyObj g o lk).2 = (y.copyObj g o lk).2 ∧ SimX X (y.copyObj g o lk).1 (z.copyObj g o lk).1 ∧
  CInv (y.copyObj g o lk).1 ∧ y.ops.size ≤ (y.copyObj g o lk).1.ops.size ∧
  (∀ j, j < y.ops.size → (y.copyObj g o lk).1.op j = y.op j) ∧
  (y.copyObj g o lk).2.1 = y.ops.size ∧ LinksExt y (y.copyObj g o lk).1 ∧
  (y.copyObj g o lk).1.identKeys = y.identKeys

/-- the hypothesis of the locality lemma on a tree: its objects are outside `X` and the keys read for them are stable. -/
def Outside (X : Nat → Prop) (y : World) (f o : Nat) : Prop := ∀ j ∈ y.below f o, ¬ X j ∧ KeyFree X y j

theorem cpFold_local (X : Nat → Prop) (n0 : Nat) (hXb : ∀ j, X j → j < n0) (f g res : Nat)
    (ih : ∀ (o : Nat) (lk : Lookup) (y z : World), SimX X y z → CInv y → n0 ≤ y.ops.size → TreeBelow y f o →
      Outside X y f o → CopyLocal X g o lk y z)
    (yb : World) (hrb : ∀ j, (yb.op j).link < yb.links.size) (hres : yb.ops.size ≤ res) (hresX : ¬ X res) :
    ∀ (L : List Nat) (lk : Lookup) (y z : World), SimX X y z → CInv y → n0 ≤ y.ops.size → yb.ops.size ≤ y.ops.size →
      (∀ j, j < yb.ops.size → y.op j = yb.op j) → LinksExt yb y → y.identKeys = yb.identKeys →
      (∀ n ∈ L, TreeBelow yb f n ∧ Outside X yb f n) →
      (L.foldl (cpStep g res) (z, lk)).2 = (L.foldl (cpStep g res) (y, lk)).2 ∧
      SimX X (L.foldl (cpStep g res) (y, lk)).1 (L.foldl (cpStep g res) (z, lk)).1 ∧
      CInv (L.foldl (cpStep g res) (y, lk)).1 ∧ y.ops.size ≤ (L.foldl (cpStep g res) (y, lk)).1.ops.size ∧
      (∀ j, j < yb.ops.size → (L.foldl (cpStep g res) (y, lk)).1.op j = yb.op j) ∧
      LinksExt y (L.foldl (cpStep g res) (y, lk)).1 ∧
      (L.foldl (cpStep g res) (y, lk)).1.identKeys = y.identKeys := by
  intro L
  induction L with
  | nil => intro lk y z h hc _ _ hfr _ _ _; exact ⟨rfl, h, hc, Nat.le_refl _, hfr, LinksExt.refl y, rfl⟩
  | cons n ns ihL =>
    intro lk y z h hc hn0 hs0 hfr hle hid hL
    simp only [List.foldl_cons]
    obtain ⟨htb, hob⟩ := hL n List.mem_cons_self
    -- the tree below `n` is the same in the current heap
    have hsame : ∀ j ∈ yb.below f n, (y.op j).noLink = (yb.op j).noLink := fun j hj =>
      op_eq_noLink (hfr j (below_lt yb f n htb j hj))
    have hty : TreeBelow y f n := tree_congr yb y hs0 f n htb hsame
    have hby : y.below f n = yb.below f n := below_congr yb y f n hsame
    have hoy : Outside X y f n := by
      intro j hj
      rw [hby] at hj
      obtain ⟨h1, h2⟩ := hob j hj
      refine ⟨h1, ?_⟩
      have hopj : y.op j = yb.op j := hfr j (below_lt yb f n htb j hj)
      rcases h2 with hi | ⟨k1, k2⟩
      · exact Or.inl (by rw [hid]; exact hi)
      · refine Or.inr ⟨?_, by rw [hopj]; exact k2⟩
        intro r hr
        rw [hopj, hle.2 _ (hrb j)] at hr
        exact k1 r hr
    obtain ⟨r1, r2, r3, r4, r5, r6, r7, r8⟩ := ih n lk y z h hc hn0 hty hoy
    have hnX : ¬ X n := (hoy n hty.self_mem).1
    have hkz : z.eqKey n = y.eqKey n := eqKey_congr h.ident n (h.2.2.1 n hnX)
    have hcpX : ¬ X (y.copyObj g n lk).2.1 := by
      rw [r6]; intro hx; have := hXb _ hx; omega
    -- the step in both heaps
    have hsy : cpStep g res (y, lk) n =
        ((if (y.copyObj g n lk).2.2.any (fun p => p.1 == y.eqKey n) then
            { (y.copyObj g n lk).1 with collisions := (y.copyObj g n lk).1.collisions + 1 }
          else (y.copyObj g n lk).1).add res (y.copyObj g n lk).2.1,
         (y.copyObj g n lk).2.2.set (y.eqKey n) (y.copyObj g n lk).2.1) := rfl
    have hsz : cpStep g res (z, lk) n =
        ((if (y.copyObj g n lk).2.2.any (fun p => p.1 == y.eqKey n) then
            { (z.copyObj g n lk).1 with collisions := (z.copyObj g n lk).1.collisions + 1 }
          else (z.copyObj g n lk).1).add res (y.copyObj g n lk).2.1,
         (y.copyObj g n lk).2.2.set (y.eqKey n) (y.copyObj g n lk).2.1) := by
      unfold cpStep; simp only [hkz, r1]
    rw [hsy, hsz]
    -- the collision counter
    have hb : SimX X
        (if (y.copyObj g n lk).2.2.any (fun p => p.1 == y.eqKey n) then
            { (y.copyObj g n lk).1 with collisions := (y.copyObj g n lk).1.collisions + 1 }
          else (y.copyObj g n lk).1)
        (if (y.copyObj g n lk).2.2.any (fun p => p.1 == y.eqKey n) then
            { (z.copyObj g n lk).1 with collisions := (z.copyObj g n lk).1.collisions + 1 }
          else (z.copyObj g n lk).1) ∧
        CInv (if (y.copyObj g n lk).2.2.any (fun p => p.1 == y.eqKey n) then
            { (y.copyObj g n lk).1 with collisions := (y.copyObj g n lk).1.collisions + 1 }
          else (y.copyObj g n lk).1) ∧
        (∀ j, (if (y.copyObj g n lk).2.2.any (fun p => p.1 == y.eqKey n) then
            { (y.copyObj g n lk).1 with collisions := (y.copyObj g n lk).1.collisions + 1 }
          else (y.copyObj g n lk).1).op j = (y.copyObj g n lk).1.op j) ∧
        (if (y.copyObj g n lk).2.2.any (fun p => p.1 == y.eqKey n) then
            { (y.copyObj g n lk).1 with collisions := (y.copyObj g n lk).1.collisions + 1 }
          else (y.copyObj g n lk).1).ops.size = (y.copyObj g n lk).1.ops.size ∧
        (if (y.copyObj g n lk).2.2.any (fun p => p.1 == y.eqKey n) then
            { (y.copyObj g n lk).1 with collisions := (y.copyObj g n lk).1.collisions + 1 }
          else (y.copyObj g n lk).1).links = (y.copyObj g n lk).1.links ∧
        (if (y.copyObj g n lk).2.2.any (fun p => p.1 == y.eqKey n) then
            { (y.copyObj g n lk).1 with collisions := (y.copyObj g n lk).1.collisions + 1 }
          else (y.copyObj g n lk).1).identKeys = (y.copyObj g n lk).1.identKeys := by
      split
      · exact ⟨simX_bump r2, cinv_bump r3, fun _ => rfl, rfl, rfl, rfl⟩
      · exact ⟨r2, r3, fun _ => rfl, rfl, rfl, rfl⟩
    obtain ⟨b1, b2, b3, b4, b5, b6⟩ := hb
    obtain ⟨a1, a2, a3, a5, a6⟩ := simX_add b1 b2 res (y.copyObj g n lk).2.1 hresX hcpX
    have hsize : y.ops.size ≤ ((if (y.copyObj g n lk).2.2.any (fun p => p.1 == y.eqKey n) then
            { (y.copyObj g n lk).1 with collisions := (y.copyObj g n lk).1.collisions + 1 }
          else (y.copyObj g n lk).1).add res (y.copyObj g n lk).2.1).ops.size := by
      rw [a3, b4]; exact r4
    have hfr' : ∀ j, j < yb.ops.size → ((if (y.copyObj g n lk).2.2.any (fun p => p.1 == y.eqKey n) then
            { (y.copyObj g n lk).1 with collisions := (y.copyObj g n lk).1.collisions + 1 }
          else (y.copyObj g n lk).1).add res (y.copyObj g n lk).2.1).op j = yb.op j := by
      intro j hj
      rw [add_op_other _ _ _ j (by omega) (by rw [r6]; omega), b3 j, r5 j (Nat.lt_of_lt_of_le hj hs0)]
      exact hfr j hj
    have hle' : LinksExt y ((if (y.copyObj g n lk).2.2.any (fun p => p.1 == y.eqKey n) then
            { (y.copyObj g n lk).1 with collisions := (y.copyObj g n lk).1.collisions + 1 }
          else (y.copyObj g n lk).1).add res (y.copyObj g n lk).2.1) :=
      r7.trans ((LinksExt.of_eq b5).trans a5)
    obtain ⟨f1, f2, f3, f4, f5, f6, f7⟩ := ihL ((y.copyObj g n lk).2.2.set (y.eqKey n) (y.copyObj g n lk).2.1) _ _ a1 a2
      (Nat.le_trans hn0 hsize) (Nat.le_trans hs0 hsize) hfr' (hle.trans hle') (by rw [a6, b6, r8, hid])
      (fun m hm => hL m (List.mem_cons_of_mem _ hm))
    exact ⟨f1, f2, f3, Nat.le_trans hsize f4, f5, hle'.trans f6, by rw [f7, a6, b6, r8]⟩

/-- **locality of the copy**: without group links, `copyObj` of a tree whose objects are outside `X` and whose keys are
    stable gives, on two heaps that differ in the links of the objects of `X` only, the same new objects and links, the
    same identifier and the same lookup; it writes to no old object. -/
theorem copyObj_local (X : Nat → Prop) (n0 : Nat) (hXb : ∀ j, X j → j < n0) :
    ∀ (f g o : Nat) (lk : Lookup) (y z : World), f ≤ g → SimX X y z → CInv y → n0 ≤ y.ops.size → TreeBelow y f o →
      Outside X y f o → CopyLocal X g o lk y z := by
  intro f
  induction f with
  | zero => intro g o lk y z _ _ _ _ ht; exact ht.elim
  | succ f ih =>
    intro g o lk y z hfg h hc hn0 ht hout
    cases g with
    | zero => omega
    | succ g =>
      have hoX : ¬ X o := (hout o ht.self_mem).1
      have hopo : z.op o = y.op o := h.2.2.1 o hoX
      have hnew : ∀ j, y.ops.size ≤ j → ¬ X j := fun j hj hx => by have := hXb j hx; omega
      unfold CopyLocal
      by_cases hcomp : (y.op o).isComp = true
      · -- composite
        rw [copyObj_comp' y g o lk hcomp, copyObj_comp' z g o lk (by rw [hopo]; exact hcomp), hopo]
        obtain ⟨l1, l2⟩ := simX_copyLink h hc (y.op o).link lk (fun r hr => (hout o ht.self_mem).2.link h r hr)
        obtain ⟨c1, c2, c3, c4, c5, c6⟩ := cinv_copyLink hc (y.op o).link lk
        have hsz1 : (y.copyLink (y.op o).link lk).1.ops.size = y.ops.size := by rw [c2]
        have hsz1z : (z.copyLink (y.op o).link lk).1.ops.size = y.ops.size := by rw [l1.2.1, hsz1]
        rw [l2, hsz1, hsz1z]
        obtain ⟨n1, _⟩ := simX_newOp l1 { cls := .comp, link := (y.copyLink (y.op o).link lk).2, rep := (y.op o).rep }
        have hc2 := cinv_newOp c1 { cls := .comp, link := (y.copyLink (y.op o).link lk).2, rep := (y.op o).rep }
          (by show (y.copyLink (y.op o).link lk).2 < _; rw [c3, c4]; omega)
        have hsz2 : ((y.copyLink (y.op o).link lk).1.newOp
            { cls := .comp, link := (y.copyLink (y.op o).link lk).2, rep := (y.op o).rep }).1.ops.size =
            y.ops.size + 1 := by
          show ((y.copyLink (y.op o).link lk).1.ops.push _).size = _
          rw [Array.size_push, hsz1]
        have hfr2 : ∀ j, j < y.ops.size → ((y.copyLink (y.op o).link lk).1.newOp
            { cls := .comp, link := (y.copyLink (y.op o).link lk).2, rep := (y.op o).rep }).1.op j = y.op j := by
          intro j hj
          rw [op_newOp, hsz1]
          have : j ≠ y.ops.size := by omega
          simp only [this, if_false]
          exact Flat.op_of_ops_eq c2 j
        have hL : ∀ n ∈ listing (y.op o).graph, TreeBelow y f n ∧ Outside X y f n := by
          intro n hn
          have hk := (mem_listing_kids y o n).mp hn
          refine ⟨ht.kid hcomp hk, fun j hj => hout j (below_kid y f o n j hcomp hk hj)⟩
        have hle2 : LinksExt y ((y.copyLink (y.op o).link lk).1.newOp
            { cls := .comp, link := (y.copyLink (y.op o).link lk).2, rep := (y.op o).rep }).1 := c5
        obtain ⟨f1, f2, f3, f4, f5, f6, f7⟩ := cpFold_local X n0 hXb f g y.ops.size
          (fun o' lk' y' z' h' hc' hn' ht' ho' => ih g o' lk' y' z' (by omega) h' hc' hn' ht' ho') y hc.range
          (Nat.le_refl _) (hnew _ (Nat.le_refl _)) (listing (y.op o).graph) lk _ _ n1 hc2 (by rw [hsz2]; omega)
          (by rw [hsz2]; omega) hfr2 hle2 c6 hL
        have hsize := f4
        rw [hsz2] at hsize
        refine ⟨?_, f2, f3, Nat.le_trans (Nat.le_succ _) hsize, f5, rfl, hle2.trans f6, by rw [f7]; exact c6⟩
        rw [f1]
      · -- leaf
        have hleaf : (y.op o).isComp = false := by simpa using hcomp
        rw [copyObj_leaf' y g o lk hleaf, copyObj_leaf' z g o lk (by rw [hopo]; exact hleaf)]
        obtain ⟨s1, s2⟩ := simX_copyLeaf h hc o hoX lk (hout o ht.self_mem).2
        obtain ⟨c1, c2, c3, c4, c5, c6⟩ := cinv_copyLeaf hc o lk
        exact ⟨by rw [s2], s1, c1, by rw [c2]; omega, c4, c3, c5, c6⟩

/-! ### Part K: listing `c`, then `c.add_sub_circuit(sub)` -/

/-- listing a tree in an extension of the heap: the old objects end as in the old heap. -/
theorem decomposed_ext (y z : World) (g c : Nat) (hl : LinksExt y z)
    (hr : ∀ j, (y.op j).link < y.links.size)
    (hX : ∀ j ∈ c :: reach y g c, z.op j = y.op j ∧ j < y.ops.size ∧ j < z.ops.size) :
    ∀ j ∈ c :: reach y g c, (z.decomposed g c).1.op j = (y.decomposed g c).1.op j := by
  have h0 : SimReg y.links.size (c :: reach y g c) y z :=
    ⟨hl.2, fun j hj => ⟨(hX j hj).1, hr j, (hX j hj).2.1, (hX j hj).2.2⟩⟩
  have := decomposed_sim (simReg_spec y.links.size (c :: reach y g c)) g c y z h0 List.mem_cons_self
    (fun j hj => List.mem_cons_of_mem _ hj)
  intro j hj
  exact (this.2 j hj).1

theorem addSub_eq (y : World) (c sub : Nat) :
    y.addSub c sub =
      ((y.copyObj y.depthFuel sub [(y.eqKey sub, c)]).1.add c (y.copyObj y.depthFuel sub [(y.eqKey sub, c)]).2.1,
       (y.copyObj y.depthFuel sub [(y.eqKey sub, c)]).2.1) := rfl

/-- the hypotheses of the commutation theorem for `add_sub_circuit`: `c` and `sub` are separate trees within the fuel of
    the driver, the relation tree of `c` was built by `attach`, the heap has no group link and all link ids in range
    (`CInv`), and the keys the copy reads for the objects below `sub` (of the reference of each link, of the registry of
    each measurement) are identities or keys of objects that are not below `c` (`KeyFree`). -/
structure SubOk (w : World) (f f' c sub : Nat) : Prop where
  tree : TreeBelow w f c
  fuel : f ≤ w.depthFuel
  comp : (w.op c).isComp = true
  stree : TreeBelow w f' sub
  sfuel : f' ≤ w.depthFuel
  apart : ∀ j ∈ w.below f' sub, j ∉ w.below f c
  inv : CInv w
  built : Built (w.op c).graph
  keys : ∀ j ∈ w.below f' sub, KeyFree (fun r => r ∈ w.below f c) w j

/-- **listing `c` before `c.add_sub_circuit(sub)` leaves no trace** (no group links, `sub` a separate tree that does not
    refer into the tree of `c`): the same copy is made, and after the next listing of `c` the heaps and the sequences
    agree. -/
theorem listing_then_addSub (w : World) (f f' c sub : Nat) (H : SubOk w f f' c sub) :
    ((w.operations c).1.addSub c sub).2 = (w.addSub c sub).2 ∧
    ((w.operations c).1.addSub c sub).1.operations c = (w.addSub c sub).1.operations c := by
  obtain ⟨ht, hfuel, hcomp, hst, hsfuel, hapart, hinv, hbuilt, hkeys⟩ := H
  have hc : c < w.ops.size := ht.lt
  -- the listed heap
  have hs1 : Shape (w.operations c).1 w := operations_shape w c
  have hsz1 : (w.operations c).1.ops.size = w.ops.size := operations_ops_size w c
  have hO1 : OpsOnly w (w.operations c).1 := decomposed_opsOnly _ c w
  have hdec : (w.operations c).1 = (w.decomposed ((w.ops.size + 1) + 1) c).1 := rfl
  have hfu1 : (w.operations c).1.depthFuel = w.depthFuel := by unfold World.depthFuel; rw [hsz1]
  -- the region `X` the listing writes to
  have hcone : ∀ j, j ∈ cone w ((w.ops.size + 1) + 1) c ↔ j ∈ w.below f c :=
    mem_cone_iff_below w f c ht _ hfuel
  have hconeq : cone w ((w.ops.size + 1) + 1) c = c :: reach w ((w.ops.size + 1) + 1) c := by
    unfold cone; simp [hcomp]
  have hXbelow : ∀ j, j ∈ reach w ((w.ops.size + 1) + 1) c → j ∈ w.below f c := fun j hj =>
    (hcone j).mp (by rw [hconeq]; exact List.mem_cons_of_mem _ hj)
  have hXb : ∀ j, j ∈ reach w ((w.ops.size + 1) + 1) c → j < w.ops.size := fun j hj =>
    below_lt w f c ht j (hXbelow j hj)
  have hsim : SimX (fun j => j ∈ reach w ((w.ops.size + 1) + 1) c) w (w.operations c).1 :=
    ⟨hO1, hsz1, fun j hj => by rw [hdec]; exact decomposed_frame _ c w j hj, hs1.2⟩
  -- the copied tree avoids `X`
  have hout : Outside (fun j => j ∈ reach w ((w.ops.size + 1) + 1) c) w f' sub := fun j hj =>
    ⟨fun hx => hapart j hj (hXbelow j hx), (hkeys j hj).mono hXbelow⟩
  have hsubX : sub ∉ reach w ((w.ops.size + 1) + 1) c := (hout sub hst.self_mem).1
  have hkey : (w.operations c).1.eqKey sub = w.eqKey sub := eqKey_congr hsim.ident sub (hsim.2.2.1 sub hsubX)
  obtain ⟨l1, l2, l3, _, _, _, l7, _⟩ := copyObj_local (fun j => j ∈ reach w ((w.ops.size + 1) + 1) c) w.ops.size hXb
    f' w.depthFuel sub [(w.eqKey sub, c)] w (w.operations c).1 hsfuel hsim hinv (Nat.le_refl _) hst hout
  -- facts about the copy in `w`
  have hcp := copyObj_tree f' w sub [(w.eqKey sub, c)] w.depthFuel hst hsfuel
  have hcp1 := copyObj_tree f' (w.operations c).1 sub [(w.eqKey sub, c)] w.depthFuel
    (tree_congr w _ (by rw [hsz1]; exact Nat.le_refl _) f' sub hst (fun j _ => hs1.2 j)) hsfuel
  rw [addSub_eq, addSub_eq, hfu1, hkey]
  show ((w.operations c).1.copyObj w.depthFuel sub [(w.eqKey sub, c)]).2.1 =
      (w.copyObj w.depthFuel sub [(w.eqKey sub, c)]).2.1 ∧
    (((w.operations c).1.copyObj w.depthFuel sub [(w.eqKey sub, c)]).1.add c
      ((w.operations c).1.copyObj w.depthFuel sub [(w.eqKey sub, c)]).2.1).operations c =
    ((w.copyObj w.depthFuel sub [(w.eqKey sub, c)]).1.add c
      (w.copyObj w.depthFuel sub [(w.eqKey sub, c)]).2.1).operations c
  generalize w.copyObj w.depthFuel sub [(w.eqKey sub, c)] = R at l1 l2 l3 l7 hcp
  generalize (w.operations c).1.copyObj w.depthFuel sub [(w.eqKey sub, c)] = R1 at l1 l2 hcp1
  have hcpeq : R1.2.1 = R.2.1 := congrArg Prod.fst l1
  refine ⟨hcpeq, ?_⟩
  rw [hcpeq]
  -- the tree below `c` is untouched by the copy
  have hsame : ∀ j ∈ w.below f c, (R.1.op j).noLink = (w.op j).noLink := fun j hj =>
    op_eq_noLink (hcp.old j (below_lt w f c ht j hj))
  have htR : TreeBelow R.1 f c := tree_congr w R.1 (Nat.le_of_lt hcp.size) f c ht hsame
  have hbR : R.1.below f c = w.below f c := below_congr w R.1 f c hsame
  have hopcR : R.1.op c = w.op c := hcp.old c hc
  have hcompR : (R.1.op c).isComp = true := by rw [hopcR]; exact hcomp
  have hfuelR : f ≤ R.1.depthFuel := by
    unfold World.depthFuel at hfuel ⊢
    have := hcp.size
    omega
  -- the copy made in the listed heap is the listed copy
  have hW : R1.1 = (R.1.operations c).1 := by
    have e1 : OpsOnly R.1 R1.1 := l2.1
    have e2 : OpsOnly R.1 (R.1.operations c).1 := decomposed_opsOnly _ c R.1
    have hops : R1.1.ops = (R.1.operations c).1.ops := by
      apply ops_ext (by rw [l2.2.1, operations_ops_size])
      intro j
      -- the listing of `c` in `R.1`, with the fuel of `w`
      have hfu : R.1.operations c = R.1.decomposed ((w.ops.size + 1) + 1) c :=
        decomposed_fuel f _ _ c R.1 htR hcompR hfuelR hfuel
      rw [hfu]
      by_cases hj : j ∈ reach w ((w.ops.size + 1) + 1) c
      · have hjlt : j < w.ops.size := hXb j hj
        have hext := decomposed_ext w R.1 ((w.ops.size + 1) + 1) c l7 hinv.range
          (fun i hi => by
            have hi' : i < w.ops.size := by
              rcases List.mem_cons.mp hi with rfl | hi
              · exact hc
              · exact hXb i hi
            exact ⟨hcp.old i hi', hi', Nat.lt_trans hi' hcp.size⟩)
          j (List.mem_cons_of_mem _ hj)
        rw [hext, ← hdec]
        exact hcp1.old j (by rw [hsz1]; exact hjlt)
      · rw [l2.2.2.1 j hj]
        refine (decomposed_frame _ c R.1 j ?_).symm
        intro hjR
        -- `reach` in `R.1` is `reach` in `w`
        have hcR : ∀ i, i ∈ cone R.1 ((w.ops.size + 1) + 1) c ↔ i ∈ R.1.below f c :=
          mem_cone_iff_below R.1 f c htR _ hfuel
        have hcRq : cone R.1 ((w.ops.size + 1) + 1) c = c :: reach R.1 ((w.ops.size + 1) + 1) c := by
          unfold cone; simp [hcompR]
        have h1 : j ∈ R.1.below f c := (hcR j).mp (by rw [hcRq]; exact List.mem_cons_of_mem _ hjR)
        rw [hbR] at h1
        have h2 := (hcone j).mpr h1
        rw [hconeq] at h2
        rcases List.mem_cons.mp h2 with rfl | h2
        · exact not_mem_reach_self R.1 f _ j htR hfuel hcompR hjR
        · exact hj h2
    unfold OpsOnly at e1 e2
    rw [e1, e2, hops]
  rw [hW]
  -- the commutation theorem for `add`, in the heap after the copy
  apply listing_then_add R.1 f c R.2.1
  refine AddOk.of_tree htR hfuelR hcompR hcp.tree ?_ ?_ l3.range (by rw [hopcR]; exact hbuilt) (l3.single _)
  · unfold World.depthFuel at hsfuel ⊢
    have := hcp.size
    omega
  · intro j hj hjc
    rw [hbR] at hjc
    have h1 := hcp.fresh j hj
    have h2 := below_lt w f c ht j hjc
    omega

end Qco.Commute
