"""C09 — implementation side: builds repetition-code circuits through the real API, canonicalises the Stim
export, simulates it with stim, evaluates the protocol predicate directly on the implementation.

Everything here touches only /repo's public API and stim; nothing depends on the Lean model."""
from __future__ import annotations
import os
import warnings

LAYOUTS = ('Repetition9Code', 'Repetition9Round6Code', 'Repetition5Round4Code')


def _quiet():
    os.environ.setdefault('TQDM_DISABLE', '1')
    warnings.filterwarnings('ignore')


# ----------------------------------------------------------------------------- descriptions

def layout_chain(name: str) -> list[str]:
    """Qubit names of a repetition layout in chain order, derived from its PARITY GROUPS (ancilla between its two data
    qubits; walk from the lexicographically smaller end) — not from the gate layers: whether the gates realise the chain is what
    `layout_gate_problems` judges (round 4: a layout whose gate layers couple an ancilla twice to the same data qubit made the
    former gate-derived walk fail an assertion, i.e. crash the check)."""
    _quiet()
    from qce_circuit.library.repetition_code import repetition_code_connectivity as m
    lay = getattr(m, name)()
    adj: dict[str, list[str]] = {}
    for g in list(lay.parity_group_x) + list(lay.parity_group_z):
        a = g.ancilla_id.id
        for d in g.data_ids:
            adj.setdefault(a, [])
            adj.setdefault(d.id, [])
            if d.id not in adj[a]:
                adj[a].append(d.id)
            if a not in adj[d.id]:
                adj[d.id].append(a)
    ends = sorted(q for q, n in adj.items() if len(n) == 1)
    if not (len(ends) == 2 and all(len(n) <= 2 for n in adj.values())):
        raise ValueError(f'{name}: the parity groups do not form a chain')
    chain = [ends[0]]
    while True:
        nxt = [q for q in adj[chain[-1]] if q not in chain]
        if not nxt:
            break
        chain.append(nxt[0])
    if len(chain) != len(adj):
        raise ValueError(f'{name}: the parity groups do not form a chain')
    return chain


def layout_gate_problems(name: str) -> list:
    """the gate layers of a repetition layout couple every ancilla exactly once with each of its two chain neighbours and with
    nothing else (what "accumulated parity of its two neighbouring data qubits" needs).  Returns the offending pairs."""
    _quiet()
    from qce_circuit.library.repetition_code import repetition_code_connectivity as m
    lay = getattr(m, name)()
    chain = layout_chain(name)
    want = sorted(tuple(sorted(p)) for p in zip(chain, chain[1:]))
    got = []
    for i in range(lay.gate_sequence_count):
        for e in lay.get_gate_sequence_at_index(index=i).edge_ids:
            got.append(tuple(sorted(q.id for q in e.qubit_ids)))
    got.sort()
    if got == want:
        return []
    return [{'layout': name, 'missing': [p for p in want if p not in got], 'extra_or_repeated': [p for p in got if got.count(p) > 1 or p not in want]}]


def layout_data_names(name: str) -> set[str]:
    _quiet()
    from qce_circuit.library.repetition_code import repetition_code_connectivity as m
    lay = getattr(m, name)()
    # a chain's data qubits are the ones named in a parity group's data list
    out = set()
    for g in lay.parity_group_x + lay.parity_group_z:
        out.update(q.id for q in g.data_ids)
    return out


def sub_chains(name: str, data_terminated: bool = True) -> list[list[str]]:
    """Every contiguous sub-chain (forward order).  data_terminated: both ends are data qubits — the ones the
    constructor accepts; otherwise the remaining ones (an end ancilla lacks a neighbour)."""
    chain = layout_chain(name)
    data = layout_data_names(name)
    out = []
    for i in range(len(chain)):
        for j in range(i, len(chain)):
            ok = chain[i] in data and chain[j] in data
            if ok == data_terminated:
                out.append(chain[i:j + 1])
    return out


def make_description(spec: dict):
    """spec: {'kind': 'chain', 'dist': d, 'refocus': bool}
           | {'kind': 'layout', 'layout': name, 'ids': [...], 'refocus': bool, 'index_map': [...] | absent}"""
    _quiet()
    from qce_circuit.language import InitialStateContainer, InitialStateEnum
    from qce_circuit.library.repetition_code.circuit_components import RepetitionCodeDescription
    if spec['kind'] == 'chain':
        dummy = InitialStateContainer.from_ordered_list([InitialStateEnum.ZERO] * spec['dist'])
        return RepetitionCodeDescription.from_initial_state(dummy, qubit_refocusing=spec['refocus'])
    from qce_circuit.library.repetition_code import repetition_code_connectivity as m
    from qce_circuit.connectivity.intrf_channel_identifier import QubitIDObj
    index_map = None
    if spec.get('index_map') is not None:
        index_map = {QubitIDObj(x): int(i) for x, i in zip(spec['ids'], spec['index_map'])}
    return RepetitionCodeDescription.from_connectivity(
        involved_qubit_ids=[QubitIDObj(x) for x in spec['ids']],
        connectivity=getattr(m, spec['layout'])(),
        qubit_index_map=index_map,
        qubit_refocusing=spec['refocus'],
    )


def describe(desc) -> dict:
    """What the constructors read from the description, as plain indices (input of the model)."""
    anc = list(desc.ancilla_qubit_indices)
    nbr = []
    for a in desc.detector_qubit_indices:
        pg = desc.get_parity_group(element=desc.get_element(index=a))[0]
        nbr.append([desc.get_index(pg.data_ids[0]), desc.get_index(pg.data_ids[1])])
    layers = []
    for i in range(desc.gate_sequence_count):
        layers.append([[list(p) for p in desc.get_gate_sequence_indices(i)], list(desc.get_park_sequence_indices(i))])
    return {'data': [int(x) for x in desc.data_qubit_indices], 'anc': [int(x) for x in anc],
            'all': [int(x) for x in desc.qubit_indices],
            'layers': [[[[int(a), int(b)] for a, b in g], [int(x) for x in p]] for g, p in layers],
            'nbr': [[int(a), int(b)] for a, b in nbr], 'refocus': bool(desc.contains_qubit_refocusing)}


def _csv(xs, sep='.'):
    return sep.join(str(x) for x in xs) if xs else '_'


def explicit_tokens(dd: dict) -> str:
    layers = '/'.join(_csv([f'{a}-{b}' for a, b in g]) + ':' + _csv(p) for g, p in dd['layers']) or '_'
    nbr = _csv([f'{a}-{b}' for a, b in dd['nbr']])
    return f"explicit {_csv(dd['data'])} {_csv(dd['anc'])} {layers} {nbr} {int(dd['refocus'])}"


def bits(xs) -> str:
    return ''.join('1' if x else '0' for x in xs) or '_'


# ----------------------------------------------------------------------------- export, canonical text

def build(spec: dict, cycles: int, ds: list[int], as_: list[int]):
    _quiet()
    from qce_circuit.language import InitialStateContainer, InitialStateEnum
    from qce_circuit.library.repetition_code.circuit_constructors import construct_repetition_code_circuit
    E = {0: InitialStateEnum.ZERO, 1: InitialStateEnum.ONE}
    ist = InitialStateContainer.from_ordered_list([E[b] for b in ds], [E[b] for b in as_])
    desc = make_description(spec)
    warm_up_composite(spec, desc)
    return desc, construct_repetition_code_circuit(qec_cycles=cycles, description=desc, initial_state=ist)


def warm_up_composite(spec: dict, desc) -> None:
    """Before the circuit is built, the description serves as the base of a composite description (as a multi-code script does:
    one plain description per chain, composites on top of them) whose leading description brings OTHER qubits, and the composite is
    read.  What the plain description says afterwards must not depend on it (seeded change C09-m7: `qubit_ids` computed once and handed
    out un-copied; the composite extends the list it was given).  Layout descriptions only; nothing the composite answers is judged."""
    if spec.get('kind') != 'layout':
        return
    try:
        from qce_circuit.library.repetition_code import repetition_code_connectivity as m
        from qce_circuit.library.repetition_code.circuit_components import RepetitionCodeDescription, CompositeRepetitionCodeDescription
        from qce_circuit.connectivity.intrf_channel_identifier import QubitIDObj
        lay = getattr(m, spec['layout'])()
        other = next((c for c in sub_chains(spec['layout']) if len(c) == 3 and not set(c) <= set(spec['ids'])), None)
        if other is None:
            return
        lead = RepetitionCodeDescription.from_connectivity(involved_qubit_ids=[QubitIDObj(x) for x in other], connectivity=lay)
        names = list(dict.fromkeys(list(spec['ids']) + list(other)))
        comp = CompositeRepetitionCodeDescription(
            _base_description=desc, _qubit_index_map={QubitIDObj(x): i for i, x in enumerate(names)}, _connectivity=lay,
            _leading_gate_description=lead)
        _ = (comp.qubit_ids, comp.data_qubit_ids, comp.ancilla_qubit_ids, comp.gate_sequences, comp.qubit_indices)
    except Exception:   # noqa — the warm-up is not what is judged
        pass


def _fmt_num(x: float) -> str:
    return str(int(x)) if float(x) == int(x) else repr(float(x))


def canon(circ, keep_blocks: bool = True) -> list[str]:
    """One line per target / pair; REPEAT blocks unrolled by hand (so SHIFT_COORDS survive)."""
    import stim
    out: list[str] = []
    for ins in circ:
        if isinstance(ins, stim.CircuitRepeatBlock):
            body = canon(ins.body_copy())
            for _ in range(ins.repeat_count):
                out.extend(body)
            continue
        name = ins.name
        args = ins.gate_args_copy()
        tg = ins.targets_copy()
        if name in ('DETECTOR', 'OBSERVABLE_INCLUDE'):
            recs = ''.join(f' rec[{t.value}]' for t in tg)
            assert all(t.is_measurement_record_target for t in tg)
            out.append(f"{name}({', '.join(_fmt_num(a) for a in args)}){recs}")
        elif name == 'SHIFT_COORDS':
            out.append(f"SHIFT_COORDS({', '.join(_fmt_num(a) for a in args)})")
        elif name == 'TICK':
            out.append('TICK')
        elif name in ('CZ',):
            vals = [t.value for t in tg]
            for k in range(0, len(vals), 2):
                out.append(f'CZ {vals[k]} {vals[k + 1]}')
        else:
            assert not args, (name, args)
            for t in tg:
                out.append(f'{name} {t.value}')
    return out


def without_shift(lines: list[str]) -> list[str]:
    return [x for x in lines if not x.startswith('SHIFT_COORDS')]


# ----------------------------------------------------------------------------- simulation with stim

def simulate(circ, stop_after_ticks: int | None = None) -> dict:
    """Noise-free run on stim's tableau simulator, instruction by instruction.  Every measurement must be
    deterministic (`measure_kickback` returns no kickback).  Returns record, detector parities, observable."""
    import stim
    flat = circ.flattened()
    sim = stim.TableauSimulator()
    n = max(flat.num_qubits, 1)
    sim.set_num_qubits(n)
    rec: list[int] = []
    det: list[int] = []
    obs = 0
    random_measurements = 0
    ticks = 0
    for ins in flat:
        name = ins.name
        if name == 'M':
            for t in ins.targets_copy():
                res, kick = sim.measure_kickback(t.value)
                if kick is not None:
                    random_measurements += 1
                rec.append(int(res))
        elif name == 'DETECTOR':
            v = 0
            for t in ins.targets_copy():
                v ^= rec[t.value]
            det.append(v)
        elif name == 'OBSERVABLE_INCLUDE':
            for t in ins.targets_copy():
                obs ^= rec[t.value]
        elif name == 'TICK':
            ticks += 1
            if stop_after_ticks is not None and ticks == stop_after_ticks:
                break
        elif name in ('SHIFT_COORDS', 'QUBIT_COORDS'):
            pass
        else:
            sim.do(ins)
    peek = {}
    for q in range(n):
        z = sim.peek_z(q)
        peek[q] = {1: 0, -1: 1, 0: None}[z]
    return {'rec': rec, 'det': det, 'obs': obs, 'random': random_measurements, 'peek': peek}


def stim_checks(circ, shots: int = 4) -> dict:
    """stim's own notion of determinism: the detector error model can be built (raises on a non-deterministic
    detector or observable), the detector sampler reports no detection event and no observable flip, and
    the measurement sampler returns the same record every shot."""
    import numpy as np
    out = {'dem_ok': True, 'dem_error': None}
    try:
        circ.detector_error_model()
    except Exception as e:  # noqa
        out['dem_ok'] = False
        out['dem_error'] = f'{type(e).__name__}: {e}'[:300]
    if circ.num_detectors or circ.num_observables:
        d, o = circ.compile_detector_sampler(seed=1).sample(shots, separate_observables=True)
        out['events'] = int(np.count_nonzero(d)) + int(np.count_nonzero(o))
    else:
        out['events'] = 0
    if circ.num_measurements:
        m = circ.compile_sampler(seed=1).sample(shots)
        out['sampler_constant'] = bool((m == m[0]).all())
        out['sampler_rec'] = [int(x) for x in m[0]]
    else:
        out['sampler_constant'] = True
        out['sampler_rec'] = []
    out['num_detectors'] = circ.num_detectors
    out['num_observables'] = circ.num_observables
    return out


# ----------------------------------------------------------------------------- the protocol, written down directly

def protocol(dd: dict, cycles: int, ds: list[int], as_: list[int]) -> dict:
    """The record the protocol prescribes (independent of the Lean model): heralding zeros; cycle c ancilla j:
    a_j xor (c mod 2)(x_a xor x_b); final data x_i xor [refocusing and (cycles-1) odd]."""
    x = {q: (ds[i] if i < len(ds) else 0) for i, q in enumerate(dd['data'])}
    a = {q: (as_[j] if j < len(as_) else 0) for j, q in enumerate(dd['anc'])}
    nb = {q: dd['nbr'][j] for j, q in enumerate(dd['anc'])}
    order_anc = [q for q in dd['all'] if q in a]
    order_data = [q for q in dd['all'] if q in x]
    rec = [0] * len(dd['all'])
    if cycles == 0:
        rec += [a[q] for q in order_anc]
    for c in range(1, cycles + 1):
        rec += [a[q] ^ ((c % 2) * (x[nb[q][0]] ^ x[nb[q][1]])) for q in order_anc]
    flip = 1 if (dd['refocus'] and cycles >= 1 and (cycles - 1) % 2 == 1) else 0
    rec += [x[q] ^ flip for q in order_data]
    obs = 0
    for q in dd['data']:
        obs ^= x[q] ^ flip
    # detectors, in the order of the detector loop (ancilla indices): cycle 1 raw outcome, cycle 2 raw outcome (no
    # reference), every later detector compares an outcome with the one two cycles earlier -> 0, the final one closes
    # the last cycle(s) against the data measurement
    par = {q: x[nb[q][0]] ^ x[nb[q][1]] for q in dd['anc']}
    if cycles == 0:
        det = [par[q] for q in dd['anc']]
    elif cycles == 1:
        det = [a[q] ^ par[q] for q in dd['anc']] + [a[q] for q in dd['anc']]
    else:
        det = [a[q] ^ par[q] for q in dd['anc']] + [a[q] for q in dd['anc']] + [0] * ((cycles - 1) * len(dd['anc']))
    return {'rec': rec, 'obs': obs, 'det': det, 'n_det': len(dd['anc']) * (cycles + 1), 'x': x, 'a': a}


# ----------------------------------------------------------------------------- one case, implementation side

def run_case(case: dict) -> dict:
    """case: {'spec':…, 'cycles': c, 'ds': [...], 'as': [...], 'deep': bool}.  Never raises."""
    import traceback
    res: dict = {'case': case}
    try:
        _quiet()
        from qce_circuit.addon_stim import to_stim
        desc, circuit = build(case['spec'], case['cycles'], case['ds'], case['as'])
        dd = describe(desc)
        res['desc'] = dd
        sc = to_stim(circuit)
        res['stim'] = canon(sc)
        res['flat'] = canon(sc.flattened())
        res['sim'] = simulate(sc)
        res['checks'] = stim_checks(sc)
        res['prep'] = simulate(sc, stop_after_ticks=2)['peek']
        if case.get('deep'):
            for label, f in (('applied', lambda c: c.apply_modifiers()),
                             ('flattened', lambda c: c.apply_modifiers().flatten())):
                try:
                    _d, c2 = build(case['spec'], case['cycles'], case['ds'], case['as'])
                    s2 = to_stim(f(c2))
                    res[label] = {'stim': canon(s2), 'sim': simulate(s2), 'checks': stim_checks(s2)}
                except Exception as e:  # noqa
                    res[label] = {'error': f'{type(e).__name__}: {e}'[:300]}
    except Exception as e:  # noqa
        res['error'] = f'{type(e).__name__}: {e}'[:300]
        res['trace'] = traceback.format_exc()[-1200:]
    return res
