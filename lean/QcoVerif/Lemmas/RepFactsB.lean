import QcoVerif.Lemmas.RepCode
import QcoVerif.Generated.RepLayouts
/- C09: the per-description facts of the generated layout table `Qco.Generated.RepLayouts.repetition9Round6Code`, each by one symbolic run. -/
namespace Qco.RepCode

theorem factsB : checkAll (entries Qco.Generated.RepLayouts.repetition9Round6Code) = true := by decide +kernel

end Qco.RepCode
