import QcoVerif.Model.StimSem
/-
  General facts about the product-state semantics (used by Properties/C09.lean):
    * `run_append`
    * `run_hom`      a GF(2)-linear map of the forms that sends variable v to σ v commutes with running,
                     when the symbolic preparation gates are instantiated by σ
    * `evalNat_*`    instantiation of the variables is such a map
    * `run_frame`    a defined run does not depend on older record entries / earlier detectors
    * `run_dropShift` SHIFT_COORDS instructions are irrelevant for the run
    * `run_repeat`   period-2 induction over a repeated block
-/
namespace Qco.StimSem

theorem run_append (p q : List Ins) (s : St) :
    run (p ++ q) s = (run p s).bind (run q) := by
  induction p generalizing s with
  | nil => simp [run]
  | cons i is ih =>
    simp only [List.cons_append, run]
    cases step s i with
    | none => simp
    | some s' => simpa using ih s'

theorem run_append_some {p q : List Ins} {s s' : St} (h : run p s = some s') :
    run (p ++ q) s = run q s' := by
  rw [run_append, h]; rfl

theorem set_eq_self {α} {l : List α} {q : Nat} {y : α} (h : l[q]? = some y) : l.set q y = l := by
  have hl : q < l.length := by
    rcases Nat.lt_or_ge q l.length with hl | hl
    · exact hl
    · rw [List.getElem?_eq_none hl] at h; cases h
  apply List.ext_getElem?
  intro j
  rw [List.getElem?_set]
  by_cases hj : q = j
  · subst hj
    rw [List.getElem?_eq_getElem hl] at h
    simp [hl, h]
  · simp [hj]

theorem bool_xor_and_distrib (A B ta tb c : Bool) :
    ((A ^^ B) ^^ ((ta ^^ tb) && c)) = ((A ^^ (ta && c)) ^^ (B ^^ (tb && c))) := by
  cases A <;> cases B <;> cases ta <;> cases tb <;> cases c <;> rfl

/-! ### homomorphisms of forms -/

structure FormHom (h : Nat → Nat) (σ : Nat → Bool) : Prop where
  xor : ∀ a b, h (a ^^^ b) = h a ^^^ h b
  zero : h 0 = 0
  one : h 1 = 1
  var : ∀ v, h (Qco.StimSem.var v) = (σ v).toNat

theorem lookback_map (h : Nat → Nat) (r : List Nat) (t : Int) :
    lookback (r.map h) t = (lookback r t).map h := by
  unfold lookback
  split <;> simp [List.getElem?_map]

theorem sumLookbacks_map {h : Nat → Nat} {σ} (H : FormHom h σ) (r : List Nat) (ts : List Int) :
    sumLookbacks (r.map h) ts = (sumLookbacks r ts).map h := by
  induction ts with
  | nil => simp [sumLookbacks, H.zero]
  | cons t ts ih =>
    simp only [sumLookbacks, ih, lookback_map]
    cases lookback r t <;> cases sumLookbacks r ts <;> simp [H.xor]

theorem act1_map {h : Nat → Nat} {σ} (H : FormHom h σ) (onZ onX onY : Basis × Nat)
    (hz : h onZ.2 = onZ.2) (hx : h onX.2 = onX.2) (hy : h onY.2 = onY.2) (s : St) (q : Nat) :
    act1 onZ onX onY (mapSt h s) q = (act1 onZ onX onY s q).map (mapSt h) := by
  unfold act1
  simp only [mapSt, List.getElem?_map]
  cases hq : s.q[q]? with
  | none => simp
  | some x =>
    obtain ⟨b, f⟩ := x
    cases b <;> simp [mapQ, mapSt, List.map_set, H.xor, hz, hx, hy]

theorem step_hom {h : Nat → Nat} {σ} (H : FormHom h σ) (s : St) (i : Ins) :
    step (mapSt h s) (instIns σ i) = (step s i).map (mapSt h) := by
  have h0 := H.zero
  have h1 := H.one
  cases i with
  | R q =>
    simp only [instIns, step, mapSt, List.length_map]
    split <;> simp [mapSt, mapQ, List.map_set, h0]
  | M q =>
    simp only [instIns, step, mapSt, List.getElem?_map]
    cases hq : s.q[q]? with
    | none => simp
    | some x => obtain ⟨b, f⟩ := x; cases b <;> simp [mapQ, mapSt]
  | I q =>
    simp only [instIns, step, mapSt, List.length_map]
    split <;> simp [mapSt]
  | X q => exact act1_map H _ _ _ h1 h0 h1 s q
  | Y q => exact act1_map H _ _ _ h1 h1 h0 s q
  | H q => exact act1_map H _ _ _ h0 h0 h1 s q
  | SX q => exact act1_map H _ _ _ h1 h0 h0 s q
  | SXd q => exact act1_map H _ _ _ h0 h0 h1 s q
  | SY q => exact act1_map H _ _ _ h0 h1 h0 s q
  | SYd q => exact act1_map H _ _ _ h1 h0 h0 s q
  | CZ a b =>
    simp only [instIns, step]
    by_cases hab : a = b
    · simp [hab]
    · simp only [hab, if_false, mapSt, List.getElem?_map]
      cases ha : s.q[a]? with
      | none => simp
      | some x =>
        cases hb : s.q[b]? with
        | none => obtain ⟨bx, fx⟩ := x; cases bx <;> simp [mapQ]
        | some y =>
          obtain ⟨bx, fx⟩ := x
          obtain ⟨by', fy⟩ := y
          cases bx <;> cases by' <;> simp [mapQ, mapSt, List.map_set, H.xor]
  | TICK => simp [instIns, step]
  | SHIFT a b => simp [instIns, step]
  | DET a b ts =>
    simp only [instIns, step, mapSt, sumLookbacks_map H]
    cases sumLookbacks s.mrec ts <;> simp [mapSt]
  | OBS idx ts =>
    simp only [instIns, step]
    by_cases hi : idx = 0
    · simp only [hi, ne_eq, not_true_eq_false, if_false, mapSt, sumLookbacks_map H]
      cases sumLookbacks s.mrec ts <;> simp [mapSt, H.xor]
    · simp [hi]
  | XV q v =>
    simp only [instIns]
    by_cases hv : σ v = true
    · simp only [hv, if_true, step, act1, mapSt, List.getElem?_map]
      cases hq : s.q[q]? with
      | none => simp
      | some x =>
        obtain ⟨b, f⟩ := x
        cases b <;> simp [mapQ, mapSt, List.map_set, H.xor, H.var, hv]
    · have hv' : σ v = false := by simpa using hv
      simp only [hv', step, mapSt, List.getElem?_map, List.length_map]
      cases hq : s.q[q]? with
      | none =>
        have : ¬ q < s.q.length := by
          intro hl
          rw [List.getElem?_eq_getElem hl] at hq
          cases hq
        simp [this]
      | some x =>
        have hl : q < s.q.length := by
          rcases Nat.lt_or_ge q s.q.length with hl | hl
          · exact hl
          · rw [List.getElem?_eq_none hl] at hq; cases hq
        obtain ⟨b, f⟩ := x
        have hset : (s.q.map (mapQ h)).set q (mapQ h ⟨b, f⟩) = s.q.map (mapQ h) :=
          set_eq_self (by simp [hq])
        cases b <;> simp_all [mapQ, mapSt, List.map_set, H.xor, H.var]

theorem run_hom {h : Nat → Nat} {σ} (H : FormHom h σ) (p : List Ins) (s : St) :
    run (p.map (instIns σ)) (mapSt h s) = (run p s).map (mapSt h) := by
  induction p generalizing s with
  | nil => simp [run]
  | cons i is ih =>
    simp only [List.map_cons, run, step_hom H]
    cases step s i with
    | none => simp
    | some s' => simpa using ih s'

theorem map_instIns_of_noXV (σ : Nat → Bool) (p : List Ins) (hp : p.all (fun i => !isXV i) = true) :
    p.map (instIns σ) = p := by
  induction p with
  | nil => rfl
  | cons i is ih =>
    simp only [List.all_cons, Bool.and_eq_true] at hp
    rw [List.map_cons, ih hp.2]
    cases i <;> simp_all [instIns, isXV]

/-! ### instantiation is a homomorphism -/

theorem evalBounded_succ (σ : Nat → Bool) (n f : Nat) :
    evalBounded σ (n + 1) f = (evalBounded σ n f ^^ (f.testBit n && (n == 0 || σ (n - 1)))) := by
  simp [evalBounded, List.range_succ, List.foldl_append]

theorem evalBounded_zero_bound (σ : Nat → Bool) (f : Nat) : evalBounded σ 0 f = false := rfl

theorem evalBounded_xor (σ : Nat → Bool) (nb a b : Nat) :
    evalBounded σ nb (a ^^^ b) = (evalBounded σ nb a ^^ evalBounded σ nb b) := by
  induction nb with
  | zero => rfl
  | succ n ih =>
    rw [evalBounded_succ, evalBounded_succ, evalBounded_succ, ih, Nat.testBit_xor]
    exact bool_xor_and_distrib _ _ _ _ _

theorem evalBounded_stable (σ : Nat → Bool) (f n m : Nat) (hf : f < 2 ^ n) (hnm : n ≤ m) :
    evalBounded σ m f = evalBounded σ n f := by
  induction m with
  | zero =>
    have : n = 0 := by omega
    subst this; rfl
  | succ k ih =>
    by_cases hk : n ≤ k
    · have hbit : f.testBit k = false := by
        apply Nat.testBit_lt_two_pow
        exact Nat.lt_of_lt_of_le hf (Nat.pow_le_pow_right (by omega) hk)
      rw [evalBounded_succ, ih hk, hbit]
      simp
    · have : n = k + 1 := by omega
      subst this; rfl

theorem evalForm_eq_bounded (σ : Nat → Bool) (f n : Nat) (hf : f < 2 ^ n) :
    evalForm σ f = evalBounded σ n f := by
  unfold evalForm
  have h1 := evalBounded_stable σ f (f.log2 + 1) (max (f.log2 + 1) n) Nat.lt_log2_self (Nat.le_max_left _ _)
  have h2 := evalBounded_stable σ f n (max (f.log2 + 1) n) hf (Nat.le_max_right _ _)
  rw [← h1, h2]

theorem evalForm_xor (σ : Nat → Bool) (a b : Nat) :
    evalForm σ (a ^^^ b) = (evalForm σ a ^^ evalForm σ b) := by
  let N := max (a.log2 + 1) (b.log2 + 1)
  have ha : a < 2 ^ N := Nat.lt_of_lt_of_le Nat.lt_log2_self (Nat.pow_le_pow_right (by omega) (Nat.le_max_left _ _))
  have hb : b < 2 ^ N := Nat.lt_of_lt_of_le Nat.lt_log2_self (Nat.pow_le_pow_right (by omega) (Nat.le_max_right _ _))
  rw [evalForm_eq_bounded σ _ N (Nat.xor_lt_two_pow ha hb), evalForm_eq_bounded σ a N ha,
    evalForm_eq_bounded σ b N hb, evalBounded_xor]

theorem evalBounded_zero (σ : Nat → Bool) (nb : Nat) : evalBounded σ nb 0 = false := by
  induction nb with
  | zero => rfl
  | succ n ih => rw [evalBounded_succ, ih]; simp

/-- a form with a single set bit `k` evaluates to that bit's meaning -/
theorem evalBounded_pow (σ : Nat → Bool) (nb k : Nat) (hk : k < nb) :
    evalBounded σ nb (2 ^ k) = (k == 0 || σ (k - 1)) := by
  have hstab := evalBounded_stable σ (2 ^ k) (k + 1) nb (Nat.pow_lt_pow_right (by omega) (by omega)) (by omega)
  rw [hstab]
  have hz : ∀ m, m ≤ k → evalBounded σ m (2 ^ k) = false := by
    intro m
    induction m with
    | zero => intro _; rfl
    | succ m ihm =>
      intro hm
      have hb : (2 ^ k).testBit m = false := by
        rw [Nat.testBit_two_pow]; simp; omega
      rw [evalBounded_succ, ihm (by omega), hb]
      simp
  rw [evalBounded_succ, hz k (Nat.le_refl k), Nat.testBit_two_pow]
  simp

theorem evalNat_xor (σ : Nat → Bool) (a b : Nat) :
    evalNat σ (a ^^^ b) = evalNat σ a ^^^ evalNat σ b := by
  unfold evalNat
  rw [evalForm_xor]
  cases evalForm σ a <;> cases evalForm σ b <;> rfl

theorem evalNat_zero (σ : Nat → Bool) : evalNat σ 0 = 0 := by
  simp [evalNat, evalForm, evalBounded_zero]

theorem evalNat_one (σ : Nat → Bool) : evalNat σ 1 = 1 := by
  have := evalBounded_pow σ 1 0 (by omega)
  simp at this
  simp [evalNat, evalForm_eq_bounded σ 1 1 (by omega), this]

theorem evalNat_var (σ : Nat → Bool) (v : Nat) : evalNat σ (var v) = (σ v).toNat := by
  have := evalBounded_pow σ (v + 2) (v + 1) (by omega)
  simp at this
  simp [evalNat, var, evalForm_eq_bounded σ (2 ^ (v + 1)) (v + 2) (Nat.pow_lt_pow_right (by omega) (by omega)), this]

theorem evalNat_formHom (σ : Nat → Bool) : FormHom (evalNat σ) σ :=
  ⟨evalNat_xor σ, evalNat_zero σ, evalNat_one σ, evalNat_var σ⟩

/-! ### frame: older record entries / earlier detectors / the observable so far do not matter -/

def extend (s : St) (t D : List Nat) (o : Nat) : St := ⟨s.q, s.mrec ++ t, s.det ++ D, s.obs ^^^ o⟩

theorem lookback_append {r : List Nat} {t : Int} {v : Nat} (tail : List Nat)
    (h : lookback r t = some v) : lookback (r ++ tail) t = some v := by
  unfold lookback at h ⊢
  split at h
  · rename_i ht
    simp only [ht, if_true]
    have hl : (-t).toNat - 1 < r.length := by
      rcases Nat.lt_or_ge ((-t).toNat - 1) r.length with hl | hl
      · exact hl
      · rw [List.getElem?_eq_none hl] at h; cases h
    rw [List.getElem?_append_left hl]; exact h
  · cases h

theorem sumLookbacks_append {r : List Nat} {ts : List Int} {v : Nat} (tail : List Nat)
    (h : sumLookbacks r ts = some v) : sumLookbacks (r ++ tail) ts = some v := by
  induction ts generalizing v with
  | nil => simpa [sumLookbacks] using h
  | cons t ts ih =>
    simp only [sumLookbacks] at h ⊢
    cases h1 : lookback r t with
    | none => simp [h1] at h
    | some a =>
      cases h2 : sumLookbacks r ts with
      | none => simp [h1, h2] at h
      | some b =>
        rw [lookback_append tail h1, ih h2]
        simpa [h1, h2] using h

local macro "fin_frame " h:ident : tactic =>
  `(tactic| first | (cases $h:ident; rfl) | (cases $h:ident; simp) | (subst $h:ident; simp))

theorem step_frame {s s' : St} {i : Ins} (t D : List Nat) (o : Nat) (h : step s i = some s') :
    step (extend s t D o) i = some (extend s' t D o) := by
  cases i with
  | R q =>
    simp only [step, extend] at h ⊢
    split at h
    · rename_i hq; simp only [hq, if_true]; fin_frame h
    · cases h
  | M q =>
    simp only [step, extend] at h ⊢
    cases hq : s.q[q]? with
    | none => simp [hq] at h
    | some x =>
      obtain ⟨b, f⟩ := x
      cases b <;> simp [hq] at h ⊢
      fin_frame h
  | I q =>
    simp only [step, extend] at h ⊢
    split at h
    · rename_i hq; simp only [hq, if_true]; fin_frame h
    · cases h
  | X q | Y q | H q | SX q | SXd q | SY q | SYd q | XV q v =>
    simp only [step, act1, extend] at h ⊢
    cases hq : s.q[q]? with
    | none => simp [hq] at h
    | some x =>
      obtain ⟨b, f⟩ := x
      cases b <;> simp [hq] at h ⊢ <;> fin_frame h
  | CZ a b =>
    simp only [step, extend] at h ⊢
    by_cases hab : a = b
    · simp [hab] at h
    · simp only [hab, if_false] at h ⊢
      cases ha : s.q[a]? with
      | none => simp [ha] at h
      | some x =>
        cases hb : s.q[b]? with
        | none => obtain ⟨bx, fx⟩ := x; cases bx <;> simp [ha, hb] at h
        | some y =>
          obtain ⟨bx, fx⟩ := x
          obtain ⟨by', fy⟩ := y
          cases bx <;> cases by' <;> simp [ha, hb] at h ⊢ <;> fin_frame h
  | TICK => simp only [step] at h ⊢; fin_frame h
  | SHIFT a b => simp only [step] at h ⊢; fin_frame h
  | DET a b ts =>
    simp only [step, extend] at h ⊢
    cases hs : sumLookbacks s.mrec ts with
    | none => simp [hs] at h
    | some v =>
      rw [sumLookbacks_append t hs]
      simp [hs] at h ⊢
      fin_frame h
  | OBS idx ts =>
    simp only [step, extend] at h ⊢
    by_cases hi : idx = 0
    · simp only [hi, ne_eq, not_true_eq_false, if_false] at h ⊢
      cases hs : sumLookbacks s.mrec ts with
      | none => simp [hs] at h
      | some v =>
        rw [sumLookbacks_append t hs]
        simp [hs] at h ⊢
        cases h
        simp [Nat.xor_assoc, Nat.xor_comm v o]
    · simp [hi] at h

theorem run_frame {p : List Ins} {s s' : St} (t D : List Nat) (o : Nat) (h : run p s = some s') :
    run p (extend s t D o) = some (extend s' t D o) := by
  induction p generalizing s with
  | nil => simp only [run] at h ⊢; cases h; rfl
  | cons i is ih =>
    simp only [run] at h ⊢
    cases hs : step s i with
    | none => simp [hs] at h
    | some s1 =>
      rw [step_frame t D o hs]
      simp only [hs] at h
      exact ih h

/-! ### SHIFT_COORDS is irrelevant for the run -/

theorem run_dropShift (p : List Ins) (s : St) :
    run (p.filter (fun i => !isShift i)) s = run p s := by
  induction p generalizing s with
  | nil => rfl
  | cons i is ih =>
    by_cases hi : isShift i = true
    · have hs : step s i = some s := by cases i <;> simp_all [isShift, step]
      simp only [List.filter, hi, Bool.not_true, run, hs]
      exact ih s
    · have hi' : isShift i = false := by simpa using hi
      simp only [List.filter, hi', Bool.not_false, run]
      cases step s i with
      | none => rfl
      | some s' => exact ih s'

/-! ### a block repeated k times, period 2 -/

def repeatBlock (k : Nat) (B : List Ins) : List Ins := (List.replicate k B).flatten

theorem repeatBlock_succ (k : Nat) (B : List Ins) : repeatBlock (k + 1) B = B ++ repeatBlock k B := by
  simp [repeatBlock, List.replicate_succ]

theorem par_succ (r : Nat) : par (r + 1) = !par r := by
  unfold par
  rcases Nat.mod_two_eq_zero_or_one r with h | h <;> simp [Nat.add_mod, h]

/-- the rounds' outcomes, most recent first: round r emits `c (par r)` -/
def revRounds (c : Bool → List Nat) : Nat → List Nat
  | 0 => []
  | r + 1 => c (par (r + 1)) ++ revRounds c r

/-- Period-2 induction.  `q b` = qubit state after a number of rounds of parity `b`; round r emits `c (par r)`.
    If one pass of the block `B` from (state of parity b, last two rounds on top of the record) appends the next
    round and emits `n` zero detectors, then k passes append k rounds, for any older record. -/
theorem run_repeat (B : List Ins) (q : Bool → List Q) (c : Bool → List Nat) (n : Nat)
    (hB : ∀ b, run B ⟨q b, c b ++ c (!b), [], 0⟩ = some ⟨q (!b), c (!b) ++ (c b ++ c (!b)), List.replicate n 0, 0⟩)
    (k r : Nat) (T D : List Nat) (o : Nat) :
    run (repeatBlock k B) ⟨q (par (r + 2)), revRounds c (r + 2) ++ T, D, o⟩ =
      some ⟨q (par (r + 2 + k)), revRounds c (r + 2 + k) ++ T, List.replicate (k * n) 0 ++ D, o⟩ := by
  induction k generalizing r D with
  | zero => simp [repeatBlock, run]
  | succ k ih =>
    rw [repeatBlock_succ]
    have hfr := run_frame (revRounds c r ++ T) D o (hB (par (r + 2)))
    have hpar : par (r + 2) = par r := by rw [par_succ, par_succ]; simp
    have hstart : extend ⟨q (par (r + 2)), c (par (r + 2)) ++ c (!par (r + 2)), [], 0⟩ (revRounds c r ++ T) D o
        = ⟨q (par (r + 2)), revRounds c (r + 2) ++ T, D, o⟩ := by
      simp [extend, revRounds, par_succ, List.append_assoc]
    rw [hstart] at hfr
    rw [run_append_some hfr]
    have hnext : extend ⟨q (!par (r + 2)), c (!par (r + 2)) ++ (c (par (r + 2)) ++ c (!par (r + 2))), List.replicate n 0, 0⟩
        (revRounds c r ++ T) D o
        = ⟨q (par (r + 1 + 2)), revRounds c (r + 1 + 2) ++ T, List.replicate n 0 ++ D, o⟩ := by
      simp [extend, revRounds, par_succ, List.append_assoc]
    rw [hnext, ih (r + 1) (List.replicate n 0 ++ D)]
    have e1 : r + 1 + 2 + k = r + 2 + (k + 1) := by omega
    have e2 : List.replicate (k * n) 0 ++ (List.replicate n 0 ++ D) = List.replicate ((k + 1) * n) 0 ++ D := by
      rw [← List.append_assoc, List.replicate_append_replicate, Nat.succ_mul]
    rw [e1, e2]

end Qco.StimSem
