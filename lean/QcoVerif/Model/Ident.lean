import QcoVerif.Model.Builder
/-
  Identifiers (C19): what `==`, `hash` and `in <set>` compute for `ChannelIdentifier`
  (`structure/intrf_circuit_operation.py`), `QubitIDObj`, `FeedlineIDObj`, `EdgeIDObj`
  (`connectivity/intrf_channel_identifier.py`), and the loop of `unique_in_order`
  (`utilities/array_manipulation.py`).  Core Lean only.

  `Qco.Chan`, `Qco.ChId`, `Qco.ChId.matches` live in `Model/Basic.lean`, `Qco.uniqueInOrder` in
  `Model/Builder.lean` (the heap model uses them); this file adds what they are compared against.

  Python facts modelled here (read off the code, confirmed by `harness/c19.py`):
  * `ChannelIdentifier` is `@dataclass(frozen=True)` with a hand-written `__eq__`; the dataclass machinery
    therefore still GENERATES `__hash__` from the compared fields: `hash((id, channel))`.  `==` is the
    matching relation (`ChId.matches`), the hash is the one of exact equality.
  * a `set` looks an item up by full hash first and only then calls `stored == item`
    (`set_lookkey`: `entry->hash == hash && (entry->key is key || entry->key == key)`); we ignore collisions
    of Python's own `hash` of distinct tuples/strings (trusted base, DESIGN.md §3).  So `x in seen` is
    `seen.any (fun s => hashKey s = hashKey x ∧ s.__eq__(x))` — `setHit` below.
  * `EdgeIDObj.__eq__(self, other) = other.contains(self.q0) and other.contains(self.q1)` for an `IEdgeID`,
    `False` otherwise; `__hash__ = hash((min(h0, h1), max(h0, h1)))` with `h_i` the qubits' hashes.
  * `QubitIDObj.__eq__(self, other) = self.id == other.id` for an `IQubitID`, `False` otherwise (never
    `NotImplemented`, so Python does not try the reflected comparison); `__hash__ = hash(self.id)`.
-/
namespace Qco

/-! ### channel identifiers -/

/-- the tuple the generated `ChannelIdentifier.__hash__` hashes. -/
def ChId.hashKey (a : ChId) : Int × Chan := (a.q, a.c)

/-- what a Python `set` tests between a stored entry `s` and a probe `x`. -/
def setHit {α κ} [BEq κ] (hk : α → κ) (eq : α → α → Bool) (s x : α) : Bool :=
  hk s == hk x && eq s x

/-- `stored == item` inside a set of `ChannelIdentifier`s. -/
def ChId.setHit (s x : ChId) : Bool := Qco.setHit ChId.hashKey ChId.matches s x

/-! ### qubit / feedline / edge identifiers -/

/-- `QubitIDObj` (`_id : str`). -/
structure QubitId where
  name : String
  deriving DecidableEq, Repr, Inhabited, Hashable

/-- `QubitIDObj.__eq__` restricted to `IQubitID` arguments. -/
def QubitId.eq (a b : QubitId) : Bool := a.name == b.name

/-- `EdgeIDObj` (`qubit_id0`, `qubit_id1`). -/
structure EdgeId where
  q0 : QubitId
  q1 : QubitId
  deriving DecidableEq, Repr, Inhabited, Hashable

/-- `EdgeIDObj.contains(element)`: `element in [q0, q1]`. -/
def EdgeId.contains (e : EdgeId) (x : QubitId) : Bool := e.q0.eq x || e.q1.eq x

/-- `EdgeIDObj.__eq__(self, other)` for an `IEdgeID` argument:
    `other.contains(self.qubit_id0) and other.contains(self.qubit_id1)`. -/
def EdgeId.eq (self other : EdgeId) : Bool := other.contains self.q0 && other.contains self.q1

def EdgeId.swap (e : EdgeId) : EdgeId := ⟨e.q1, e.q0⟩

/-- the tuple `EdgeIDObj.__hash__` hashes, for a given hash `h` of qubit names (`str.__hash__`). -/
def EdgeId.hashKey (h : String → Int) (e : EdgeId) : Int × Int :=
  (min (h e.q0.name) (h e.q1.name), max (h e.q0.name) (h e.q1.name))

/-- same unordered pair of qubits. -/
def EdgeId.sameUnordered (e f : EdgeId) : Prop :=
  (e.q0 = f.q0 ∧ e.q1 = f.q1) ∨ (e.q0 = f.q1 ∧ e.q1 = f.q0)

/-- `stored == item` inside a set of `EdgeIDObj`s. -/
def EdgeId.setHit (h : String → Int) (s x : EdgeId) : Bool := Qco.setHit (EdgeId.hashKey h) EdgeId.eq s x

/-! ### Python `==` across kinds -/

/-- the objects the harness compares with each other. `other n` stands for a non-identifier
    (`None`, an `int`, a `str`, a `tuple` …; equal tags = equal objects). -/
inductive Obj
  | chan (c : ChId)
  | qubit (q : QubitId)
  | feedline (n : String)
  | edge (e : EdgeId)
  | other (tag : Nat)
  deriving DecidableEq, Repr, Inhabited

/-- `a == b` in Python: `a.__eq__(b)`; the identifier classes answer `False` (never `NotImplemented`) to a
    foreign argument; a non-identifier answers `NotImplemented` to an identifier, Python then asks the
    identifier (reflected), which answers `False`. -/
def Obj.pyEq : Obj → Obj → Bool
  | .chan a, .chan b => a.matches b
  | .qubit a, .qubit b => a.eq b
  | .feedline a, .feedline b => a == b
  | .edge a, .edge b => a.eq b
  | .other a, .other b => a == b
  | _, _ => false

/-! ### `unique_in_order` as written: a loop over a growing `seen` set -/

/-- `hit stored item` is the set's test; `acc` is `result` (which holds the same elements as `seen`). -/
def uniqueLoopAux {α} (hit : α → α → Bool) (acc : List α) : List α → List α
  | [] => acc
  | x :: xs =>
    if acc.any (fun s => hit s x) then uniqueLoopAux hit acc xs
    else uniqueLoopAux hit (acc ++ [x]) xs

/-- `unique_in_order(iterable)` for a container whose membership test is `hit`. -/
def uniqueLoop {α} (hit : α → α → Bool) (l : List α) : List α := uniqueLoopAux hit [] l

/-- index of the first element equal to `x` (`l.length` if absent). -/
def firstIdx {α} [BEq α] (x : α) : List α → Nat
  | [] => 0
  | y :: ys => if y == x then 0 else firstIdx x ys + 1

end Qco
