import QcoVerif.Lemmas.C10ParamNested
/-
  C10, parametric layer lemmas, part 3: the hypotheses of `nested_no_double_booking` as a Boolean function of a heap
  (`layeredOk`), so that a concrete library heap is shown to be an instance by evaluation, and a function that
  reads the layers off the relation trees (`autoCertF`; a certificate producer, nothing is assumed about it).

  Durations are symbolic as in Lemmas/C10Sched.lean: `Regime` gives the four global durations and the decoupling
  wait as linear forms in four non-negative variables; dominance ("the path the next layer hangs below is one of
  the last to end") is checked coefficient-wise on sums of `durForm`s; two operations "may conflict" if they share a
  channel and one is a barrier or both duration forms are non-zero.
  `layeredOk_sound`: `layeredOk w R cert c = true` ⇒ `NoDoubleBooking (R.world w v) c` for ALL non-negative `v`.
  The checker functions take the accessors `op : Nat → Op`, `lnk : Nat → Link` as arguments (`layeredOkF`), so that
  evaluation-friendly accessors can be used (`layeredOkL`: lists; Lemmas/C10ParamFast.lean: binary tries).
  The check is local: per layer, per path — its cost is near-linear in the heap (the schedule check compares all
  pairs of operations).
-/
namespace Qco.C10Param

open Qco Qco.C10

/-! ### structural checks -/

def directFbB (op : Nat → Op) (lnk : Nat → Link) (a x : Nat) : Bool :=
  let L := lnk (op x).link
  decide (L.rel = .fb) && ((!L.multi && L.refs.head? == some a) || (L.multi && L.refs == [a]))

def fbStepB (op : Nat → Op) (lnk : Nat → Link) (a x : Nat) : Bool :=
  let L := lnk (op x).link
  decide (L.rel = .fb) && ((!L.multi && L.refs.head? == some a) || (L.multi && L.refs.contains a))

def fbPathB (op : Nat → Op) (lnk : Nat → Link) : Nat → List Nat → Bool
  | _, [] => true
  | a, x :: xs => directFbB op lnk a x && fbPathB op lnk x xs

variable {w : World} {R : Regime} {v : Vars}

theorem directFbB_sound {a x : Nat} (h : directFbB w.op w.lnk a x = true) : DirectFb (R.world w v) a x := by
  show DirectFb w a x
  unfold directFbB at h
  simp only [Bool.and_eq_true, Bool.or_eq_true, decide_eq_true_eq, Bool.not_eq_true', beq_iff_eq] at h
  exact ⟨h.1, h.2⟩

theorem fbStepB_sound {a x : Nat} (h : fbStepB w.op w.lnk a x = true) : FbStep (R.world w v) a x := by
  show FbStep w a x
  unfold fbStepB at h
  simp only [Bool.and_eq_true, Bool.or_eq_true, decide_eq_true_eq, Bool.not_eq_true', beq_iff_eq,
    List.contains_iff_mem] at h
  exact ⟨h.1, h.2⟩

theorem fbPathB_sound : ∀ (xs : List Nat) (a : Nat), fbPathB w.op w.lnk a xs = true → FbPath (R.world w v) a xs := by
  intro xs
  induction xs with
  | nil => intro a _; trivial
  | cons x xs ih =>
    intro a h
    simp only [fbPathB, Bool.and_eq_true] at h
    exact ⟨directFbB_sound h.1, ih x h.2⟩

/-- every path is a path below its first operation. -/
def internalB (op : Nat → Op) (lnk : Nat → Link) (chains : List (List Nat)) : Bool :=
  chains.all (fun c => match c with | [] => true | x :: xs => fbPathB op lnk x xs)

theorem internalB_sound {chains : List (List Nat)} (h : internalB w.op w.lnk chains = true) :
    ∀ c ∈ chains, ∀ x xs, c = x :: xs → FbPath (R.world w v) x xs := by
  intro c hc x xs hcx
  unfold internalB at h
  rw [List.all_eq_true] at h
  have := h c hc
  rw [hcx] at this
  exact fbPathB_sound xs x this

/-- a property of the first operation of every path. -/
def headsAll (chains : List (List Nat)) (p : Nat → Bool) : Bool :=
  chains.all (fun c => match c with | [] => true | x :: _ => p x)

theorem headsAll_sound {chains : List (List Nat)} {p : Nat → Bool} (h : headsAll chains p = true) :
    ∀ c ∈ chains, ∀ x xs, c = x :: xs → p x = true := by
  intro c hc x xs hcx
  unfold headsAll at h
  rw [List.all_eq_true] at h
  have := h c hc
  rw [hcx] at this
  exact this

/-- the first operations of all paths carry one link object. -/
def sameLinkB (op : Nat → Op) (chains : List (List Nat)) : Bool :=
  headsAll chains (fun x => headsAll chains (fun y => (op x).link == (op y).link))

theorem sameLinkB_sound {chains : List (List Nat)} (h : sameLinkB w.op chains = true) :
    ∀ c ∈ chains, ∀ c' ∈ chains, ∀ x xs x' xs', c = x :: xs → c' = x' :: xs' →
      ((R.world w v).op x).link = ((R.world w v).op x').link := by
  intro c hc c' hc' x xs x' xs' hcx hcx'
  have h1 := headsAll_sound h c hc x xs hcx
  have h2 := headsAll_sound h1 c' hc' x' xs' hcx'
  simpa using h2

/-! ### durations: dominance, conflicts, non-negativity -/

/-- sum of the duration forms of the leaf operations of a list (sub-circuits count 0: a lower bound). -/
def sumForm (op : Nat → Op) (R : Regime) (w : World) : List Nat → LinForm
  | [] => .zero
  | x :: xs => (if (op x).isComp then LinForm.zero else durForm R w (op x).dur).add (sumForm op R w xs)

/-- every duration strategy of the heap is non-negative for all non-negative variables. -/
def dursNonnegB (w : World) (R : Regime) : Bool :=
  w.ops.toList.all (fun op => (durForm R w op.dur).isNonneg)

theorem dursNonnegB_sound (h : dursNonnegB w R = true) (hv : v.Nonneg) (hR : R.Valid v) :
    LeafDurNonneg (R.world w v) := by
  intro o _
  rw [leafDur_eq R w v hR]
  apply LinForm.eval_nonneg _ hv
  unfold dursNonnegB at h
  rw [List.all_eq_true] at h
  show (durForm R w (w.op o).dur).isNonneg = true
  unfold World.op
  by_cases ho : o < w.ops.size
  · have hmem : w.ops[o] ∈ w.ops.toList := by simp
    have := h _ hmem
    simpa [Array.getD, ho] using this
  · have : w.ops.getD o default = default := by
      simp [Array.getD, ho]
    rw [this]
    rfl

theorem sumForm_le_pathDur (hd : LeafDurNonneg (R.world w v)) (hR : R.Valid v) :
    ∀ (l : List Nat) (D : Int), PathDur (R.world w v) l D → (sumForm w.op R w l).eval v ≤ D := by
  intro l
  induction l with
  | nil => intro D h; simp only [PathDur] at h; subst h; simp [sumForm]
  | cons x xs ih =>
    intro D h
    obtain ⟨d, E, hdv, hE, rfl⟩ := h
    have h1 := ih E hE
    simp only [sumForm, LinForm.eval_add]
    by_cases hc : (w.op x).isComp = true
    · rw [if_pos hc, LinForm.eval_zero]
      have := dur_nonneg hd hdv
      omega
    · rw [if_neg hc]
      have hleaf : ((R.world w v).op x).isComp = false := by simpa using hc
      have := hdv.unique (durV_leaf hleaf)
      rw [leafDur_eq R w v hR] at this
      simp only [world_op] at this
      omega

theorem durSum_eq_sumForm (hR : R.Valid v) : ∀ (l : List Nat), (∀ x ∈ l, (w.op x).isComp = false) →
    durSum (R.world w v) l = (sumForm w.op R w l).eval v := by
  intro l
  induction l with
  | nil => intro _; simp [durSum, sumForm]
  | cons x xs ih =>
    intro hl
    have hx := hl x List.mem_cons_self
    simp only [durSum, sumForm, LinForm.eval_add, hx, Bool.false_eq_true, if_false]
    rw [ih (fun y hy => hl y (List.mem_cons_of_mem _ hy)), leafDur_eq R w v hR]
    rfl

/-- `main` dominates: every other path consists of leaf operations and is coefficient-wise at most as long. -/
def domB (op : Nat → Op) (w : World) (R : Regime) (L : LayerData) : Bool :=
  L.chains.all (fun c => c == L.main ||
    (c.all (fun x => !(op x).isComp) && ((sumForm op R w L.main).sub (sumForm op R w c)).isNonneg))

theorem domB_sound {L : LayerData} (h : domB w.op w R L = true) (hv : v.Nonneg) (hR : R.Valid v)
    (hd : LeafDurNonneg (R.world w v)) : Dominated (R.world w v) L.chains L.main := by
  intro c hc pre suf hsplit D Dm hD hDm
  unfold domB at h
  rw [List.all_eq_true] at h
  have hcase := h c hc
  rw [Bool.or_eq_true] at hcase
  rcases hcase with hcm | hcl
  · have hcm' : c = L.main := by simpa using hcm
    rw [← hcm', hsplit] at hDm
    obtain ⟨D1, D2, h1, h2, rfl⟩ := pathDur_append.mp hDm
    have := hD.unique h1
    have := h2.nonneg hd
    omega
  · rw [Bool.and_eq_true, List.all_eq_true] at hcl
    obtain ⟨hleaf, hform⟩ := hcl
    have hleaf' : ∀ x ∈ c, (w.op x).isComp = false := fun x hx => by simpa using hleaf x hx
    have hpre : ∀ x ∈ pre, ((R.world w v).op x).isComp = false :=
      fun x hx => hleaf' x (by rw [hsplit]; simp [hx])
    have hsuf : ∀ x ∈ suf, ((R.world w v).op x).isComp = false :=
      fun x hx => hleaf' x (by rw [hsplit]; simp [hx])
    have h1 := hD.unique (pathDur_leaves hpre)
    have h2 := durSum_nonneg hd hsuf
    have h3 : durSum (R.world w v) c = (sumForm w.op R w c).eval v := durSum_eq_sumForm hR c hleaf'
    rw [hsplit, durSum_append] at h3
    have h4 := sumForm_le_pathDur hd hR L.main Dm hDm
    have h5 := LinForm.le_of_sub_nonneg hform hv
    rw [hsplit] at h5
    omega

/-- may the two leaf operations conflict? (share a channel; a barrier, or both of non-zero duration form) -/
def confB (op : Nat → Op) (w : World) (R : Regime) (a b : Nat) : Bool :=
  sharesChannel (op a) (op b) &&
  (decide ((op a).cls = .barrier) || decide ((op b).cls = .barrier) ||
   (!(durForm R w (op a).dur).isZero && !(durForm R w (op b).dur).isZero))

theorem confB_sound {a b : Nat} (h : confB w.op w R a b = false) (hR : R.Valid v) : ¬ Conflict (R.world w v) a b := by
  rintro ⟨hsh, hreq⟩
  simp only [world_op] at hsh hreq
  unfold confB at h
  rw [hsh, Bool.true_and] at h
  simp only [Bool.or_eq_false_iff, Bool.and_eq_false_iff, decide_eq_false_iff_not, Bool.not_eq_false'] at h
  obtain ⟨⟨h1, h2⟩, h3⟩ := h
  rcases hreq with hb | hb | ⟨ha, hb⟩
  · exact h1 hb
  · exact h2 hb
  · rw [leafDur_eq R w v hR] at ha hb
    rcases h3 with hz | hz
    · simp only [LinForm.isZero, decide_eq_true_eq] at hz
      rw [hz] at ha; simp at ha
    · simp only [LinForm.isZero, decide_eq_true_eq] at hz
      rw [hz] at hb; simp at hb

/-- `contents` / `leavesBelow` through an accessor function. -/
def contentsF (op : Nat → Op) : Nat → Nat → List Nat
  | 0, _ => []
  | f+1, c => (op c).graph.flatMap (fun e => if (op e.node).isComp then contentsF op f e.node else [e.node])

def leavesF (op : Nat → Op) (f x : Nat) : List Nat := if (op x).isComp then contentsF op f x else [x]

theorem contentsF_eq (w : World) : ∀ (f c : Nat), contentsF w.op f c = contents w f c := by
  intro f
  induction f with
  | zero => intro c; rfl
  | succ f ih =>
    intro c
    show ((w.op c).graph.flatMap (fun e => if (w.op e.node).isComp then contentsF w.op f e.node else [e.node])) =
      ((w.op c).graph.flatMap (fun e => if (w.op e.node).isComp then contents w f e.node else [e.node]))
    simp only [ih]

theorem leavesF_eq (w : World) (f x : Nat) : leavesF w.op f x = leavesBelow w f x := by
  unfold leavesF leavesBelow
  rw [contentsF_eq]

theorem leavesBelow_world (f x : Nat) : leavesBelow (R.world w v) f x = leavesBelow w f x := by
  unfold leavesBelow
  rw [contents_world]
  rfl

/-- operations on two different paths of the layer never conflict. -/
def sepB (op : Nat → Op) (w : World) (R : Regime) (f : Nat) (L : LayerData) : Bool :=
  L.chains.all (fun c => L.chains.all (fun c' => c == c' ||
    c.all (fun x => c'.all (fun y =>
      (leavesF op f x).all (fun a => (leavesF op f y).all (fun b => !confB op w R a b))))))

theorem sepB_sound {f : Nat} {L : LayerData} (h : sepB w.op w R f L = true) (hR : R.Valid v) :
    ∀ c ∈ L.chains, ∀ c' ∈ L.chains, c ≠ c' → ∀ x ∈ c, ∀ y ∈ c',
      ∀ a ∈ leavesBelow (R.world w v) f x, ∀ b ∈ leavesBelow (R.world w v) f y, ¬ Conflict (R.world w v) a b := by
  intro c hc c' hc' hne x hx y hy a ha b hb
  rw [leavesBelow_world, ← leavesF_eq] at ha hb
  unfold sepB at h
  simp only [List.all_eq_true, Bool.or_eq_true, beq_iff_eq, Bool.not_eq_true'] at h
  rcases h c hc c' hc' with heq | hall
  · exact absurd heq hne
  · exact confB_sound (hall x hx y hy a ha b hb) hR

/-- sub-circuits on the dominating path only. -/
def sideB (op : Nat → Op) (L : LayerData) : Bool :=
  L.chains.all (fun c => c == L.main || c.all (fun x => !(op x).isComp))

theorem sideB_sound {Ls : List LayerData} (h : Ls.all (sideB w.op) = true) : SideLeaves (R.world w v) Ls := by
  intro L hL c hc hne x hx
  rw [List.all_eq_true] at h
  have := h L hL
  unfold sideB at this
  simp only [List.all_eq_true, Bool.or_eq_true, beq_iff_eq, Bool.not_eq_true'] at this
  rcases this c hc with heq | hall
  · exact absurd heq hne
  · exact hall x hx

/-! ### layers -/

/-- the check of one opened layer. -/
def layerOkB (op : Nat → Op) (lnk : Nat → Link) (w : World) (R : Regime) (b : Nat) (L : LayerData) : Bool :=
  internalB op lnk L.chains &&
  headsAll L.chains (fun x => fbStepB op lnk b x) &&
  (headsAll L.chains (fun x => directFbB op lnk b x) || sameLinkB op L.chains) &&
  ((L.main.isEmpty && L.chains.isEmpty) || (!L.main.isEmpty && L.chains.contains L.main)) &&
  domB op w R L

theorem layerOkB_sound {b : Nat} {L : LayerData} (h : layerOkB w.op w.lnk w R b L = true) (hv : v.Nonneg) (hR : R.Valid v)
    (hd : LeafDurNonneg (R.world w v)) : LayerOk (R.world w v) b L := by
  unfold layerOkB at h
  simp only [Bool.and_eq_true] at h
  obtain ⟨⟨⟨⟨h1, h2⟩, h3⟩, h4⟩, h5⟩ := h
  refine ⟨internalB_sound h1, ?_, ?_, ?_, domB_sound h5 hv hR hd⟩
  · intro c hc x xs hcx
    exact fbStepB_sound (headsAll_sound h2 c hc x xs hcx)
  · rw [Bool.or_eq_true] at h3
    rcases h3 with h3 | h3
    · left
      intro c hc x xs hcx
      exact directFbB_sound (headsAll_sound h3 c hc x xs hcx)
    · right
      exact sameLinkB_sound h3
  · simp only [Bool.or_eq_true, Bool.and_eq_true, List.isEmpty_iff, Bool.not_eq_true',
      List.contains_iff_mem] at h4
    rcases h4 with ⟨h4, h4'⟩ | ⟨h4, h4'⟩
    · exact Or.inl ⟨h4, h4'⟩
    · refine Or.inr ⟨?_, h4'⟩
      intro hnil
      rw [hnil] at h4
      simp at h4

def layersB (op : Nat → Op) (lnk : Nat → Link) (w : World) (R : Regime) : Nat → List LayerData → Bool
  | _, [] => true
  | b, L :: rest => layerOkB op lnk w R b L && layersB op lnk w R (L.next b) rest

theorem layersB_sound (hv : v.Nonneg) (hR : R.Valid v) (hd : LeafDurNonneg (R.world w v)) :
    ∀ (Ls : List LayerData) (b : Nat), layersB w.op w.lnk w R b Ls = true → Layers (R.world w v) b Ls := by
  intro Ls
  induction Ls with
  | nil => intro b _; trivial
  | cons L rest ih =>
    intro b h
    simp only [layersB, Bool.and_eq_true] at h
    exact ⟨layerOkB_sound h.1 hv hR hd, ih _ h.2⟩

/-! ### blocks, nesting -/

/-- the check of one sequence of layers of sub-circuit `X`. -/
def seqOkB (op : Nat → Op) (lnk : Nat → Link) (w : World) (R : Regime) (X : Nat) (L : LayerData)
    (rest : List LayerData) (f : Nat) : Bool :=
  internalB op lnk L.chains &&
  headsAll L.chains (fun x => (op x).link == (op X).link) &&
  !L.main.isEmpty && L.chains.contains L.main &&
  domB op w R L &&
  layersB op lnk w R (lastOf 0 L.main) rest &&
  (L :: rest).all (sideB op) &&
  (L :: rest).all (sepB op w R f)

theorem seqOkB_sound {X : Nat} {L : LayerData} {rest : List LayerData} {f : Nat}
    (h : seqOkB w.op w.lnk w R X L rest f = true) (hv : v.Nonneg) (hR : R.Valid v)
    (hd : LeafDurNonneg (R.world w v)) : SeqOk (R.world w v) X L rest f := by
  unfold seqOkB at h
  simp only [Bool.and_eq_true] at h
  obtain ⟨⟨⟨⟨⟨⟨⟨h2, h3⟩, h5⟩, h6⟩, h7⟩, h8⟩, h11⟩, h12⟩ := h
  refine ⟨internalB_sound h2, ?_, ?_, ?_, domB_sound h7 hv hR hd, layersB_sound hv hR hd rest _ h8,
    sideB_sound h11, ?_⟩
  · intro c hc x xs hcx
    have := headsAll_sound h3 c hc x xs hcx
    simpa using this
  · intro hnil
    rw [hnil] at h5; simp at h5
  · simpa using h6
  · intro L' hL'
    rw [List.all_eq_true] at h12
    exact sepB_sound (h12 L' hL') hR

/-- nodes that do not lie on a common sequence never conflict (nothing to check for a single sequence). -/
def crossB (op : Nat → Op) (w : World) (R : Regime) (f : Nat) (seqs : List (List LayerData)) : Bool :=
  match seqs with
  | [_] => true
  | _ =>
    seqs.all (fun s => seqs.all (fun s' =>
      (layerOps s).all (fun A => (layerOps s').contains A ||
        (layerOps s').all (fun B => (layerOps s).contains B ||
          (leavesF op f A).all (fun a => (leavesF op f B).all (fun b => !confB op w R a b))))))

theorem crossB_sound {f : Nat} {seqs : List (List LayerData)} (h : crossB w.op w R f seqs = true) (hR : R.Valid v) :
    ∀ s ∈ seqs, ∀ s' ∈ seqs, ∀ A ∈ layerOps s, ∀ B ∈ layerOps s', A ∉ layerOps s' → B ∉ layerOps s →
      ∀ a ∈ leavesBelow (R.world w v) f A, ∀ b ∈ leavesBelow (R.world w v) f B, ¬ Conflict (R.world w v) a b := by
  intro s hs s' hs' A hA B hB hnA hnB a ha b hb
  rw [leavesBelow_world, ← leavesF_eq] at ha hb
  have hgen : (seqs.all (fun s => seqs.all (fun s' =>
      (layerOps s).all (fun A => (layerOps s').contains A ||
        (layerOps s').all (fun B => (layerOps s).contains B ||
          (leavesF w.op f A).all (fun a => (leavesF w.op f B).all (fun b => !confB w.op w R a b))))))) = true →
      confB w.op w R a b = false := by
    intro hall
    simp only [List.all_eq_true, Bool.or_eq_true, List.contains_iff_mem, Bool.not_eq_true'] at hall
    rcases hall s hs s' hs' A hA with h1 | h1
    · exact absurd h1 hnA
    · rcases h1 B hB with h2 | h2
      · exact absurd h2 hnB
      · exact h2 a ha b hb
  unfold crossB at h
  split at h
  · -- a single sequence: `s = s'`
    rename_i t
    simp only [List.mem_singleton] at hs hs'
    subst hs; subst hs'
    exact absurd hA hnA
  · exact confB_sound (hgen h) hR

/-- the check of one sub-circuit against its sequences of layers. -/
def blockOkB (op : Nat → Op) (lnk : Nat → Link) (w : World) (R : Regime) (X : Nat) (seqs : List (List LayerData))
    (f : Nat) : Bool :=
  (op X).isComp &&
  !decide ((lnk (op X).link).rel = .je) &&
  seqs.all (fun s => match s with
    | [] => false
    | L :: rest => seqOkB op lnk w R X L rest f) &&
  (op X).graph.all (fun e => seqs.any (fun s => (layerOps s).contains e.node)) &&
  seqs.any (fun s => match s with
    | [] => false
    | L :: _ => match L.main with
      | [] => false
      | x :: _ => (op X).graph.any (fun e => e.parent.isNone && e.node == x)) &&
  crossB op w R f seqs

theorem blockOkB_sound {X : Nat} {seqs : List (List LayerData)} {f : Nat}
    (h : blockOkB w.op w.lnk w R X seqs f = true) (hv : v.Nonneg) (hR : R.Valid v)
    (hd : LeafDurNonneg (R.world w v)) : BlockOk (R.world w v) X seqs f := by
  unfold blockOkB at h
  simp only [Bool.and_eq_true] at h
  obtain ⟨⟨⟨⟨⟨h1, h4⟩, hseq⟩, h9⟩, h10⟩, hcross⟩ := h
  refine ⟨h1, by simpa using h4, ?_, ?_, ?_, crossB_sound hcross hR⟩
  · intro s hs
    rw [List.all_eq_true] at hseq
    have := hseq s hs
    cases s with
    | nil => simp at this
    | cons L rest => exact ⟨L, rest, rfl, seqOkB_sound this hv hR hd⟩
  · intro e he
    rw [List.all_eq_true] at h9
    have := h9 e he
    simp only [List.any_eq_true, List.contains_iff_mem] at this
    exact this
  · rw [List.any_eq_true] at h10
    obtain ⟨s, hs, hm⟩ := h10
    cases s with
    | nil => simp at hm
    | cons L rest =>
      cases hmain : L.main with
      | nil => simp [hmain] at hm
      | cons x xs =>
        simp only [hmain, List.any_eq_true, Bool.and_eq_true, Option.isNone_iff_eq_none, beq_iff_eq] at hm
        obtain ⟨e, he, hp, hn⟩ := hm
        exact ⟨L :: rest, hs, L, rest, x, xs, rfl, hmain, e, he, hp, hn⟩

/-- the check of everything below `X` to depth `f`. -/
def nestedB (op : Nat → Op) (lnk : Nat → Link) (w : World) (R : Regime) (cert : Nat → List (List LayerData)) :
    Nat → Nat → Bool
  | 0, _ => false
  | f+1, X => !(op X).isComp ||
      (blockOkB op lnk w R X (cert X) f && (op X).graph.all (fun e => nestedB op lnk w R cert f e.node))

theorem nestedB_sound {cert : Nat → List (List LayerData)} (hv : v.Nonneg) (hR : R.Valid v)
    (hd : LeafDurNonneg (R.world w v)) :
    ∀ (f X : Nat), nestedB w.op w.lnk w R cert f X = true → Nested (R.world w v) cert f X := by
  intro f
  induction f with
  | zero => intro X h; simp [nestedB] at h
  | succ f ih =>
    intro X h
    simp only [nestedB, Bool.or_eq_true, Bool.not_eq_true'] at h
    rcases h with h | h
    · exact Or.inl h
    · right
      simp only [Bool.and_eq_true, List.all_eq_true] at h
      exact ⟨blockOkB_sound h.1 hv hR hd, fun e he => ih e.node (h.2 e he)⟩

/-- **the layered check** of circuit `c` of heap `w` under regime `R` with layer certificate `cert`. -/
def layeredOkF (op : Nat → Op) (lnk : Nat → Link) (w : World) (R : Regime) (cert : Nat → List (List LayerData))
    (c : Nat) : Bool :=
  (op c).isComp && dursNonnegB w R && nestedB op lnk w R cert (w.ops.size + 2) c

/-- the check with the heap's own accessors. -/
def layeredOk (w : World) (R : Regime) (cert : Nat → List (List LayerData)) (c : Nat) : Bool :=
  layeredOkF w.op w.lnk w R cert c

/-- **Soundness of the layered check**: for ALL non-negative values of the variables no two conflicting
    operations of `c` overlap. -/
theorem layeredOk_sound {cert : Nat → List (List LayerData)} {c : Nat} (h : layeredOk w R cert c = true)
    (hv : v.Nonneg) (hR : R.Valid v) : NoDoubleBooking (R.world w v) c := by
  unfold layeredOk layeredOkF at h
  simp only [Bool.and_eq_true] at h
  obtain ⟨⟨h1, h2⟩, h3⟩ := h
  have hd := dursNonnegB_sound h2 hv hR
  exact nested_no_double_booking hd h1 (nestedB_sound hv hR hd _ c h3)

/-- both regimes ⇒ all non-negative duration settings (as `C10.noDoubleBooking_of_both_regimes`). -/
theorem layered_all_durations {c : Nat} {certA certB : Nat → List (List LayerData)}
    (hA : layeredOk w regimeA certA c = true) (hB : layeredOk w regimeB certB c = true)
    {ro mw fl rs : Int} (hro : 0 ≤ ro) (hmw : 0 ≤ mw) (hfl : 0 ≤ fl) (hrs : 0 ≤ rs)
    (heven : mw ≤ ro → (ro - mw) % 2 = 0) : NoDoubleBooking (withDurations w ro mw fl rs) c := by
  by_cases hle : mw ≤ ro
  · have h0 : 0 ≤ (ro - mw) / 2 := by omega
    have hv : (Vars.mk ((ro - mw) / 2) mw fl rs).Nonneg := ⟨h0, hmw, hfl, hrs⟩
    have := layeredOk_sound hA hv (regimeA_valid hv)
    have hw : regimeA.world w ⟨(ro - mw) / 2, mw, fl, rs⟩ = withDurations w ro mw fl rs := by
      have := heven hle
      simp only [Regime.world, regimeA, LinForm.eval, withDurations]
      congr 1 <;> omega
    rw [hw] at this; exact this
  · have h0 : 0 ≤ mw - ro - 1 := by omega
    have hv : (Vars.mk ro (mw - ro - 1) fl rs).Nonneg := ⟨hro, h0, hfl, hrs⟩
    have := layeredOk_sound hB hv (regimeB_valid hv)
    have hw : regimeB.world w ⟨ro, mw - ro - 1, fl, rs⟩ = withDurations w ro mw fl rs := by
      simp only [Regime.world, regimeB, LinForm.eval, withDurations]
      congr 1 <;> omega
    rw [hw] at this; exact this

/-! ### reading the layers off a relation tree

A certificate PRODUCER (nothing is proved about it, `layeredOk` checks what it returns): the paths of a layer are
the maximal single-child paths below the opener that stay on the qubits of their first operation (zero-length
non-barrier operations are passed through); the next layer hangs below the path that has children. -/

def kidsOf (g : List Entry) (p : Nat) : List Nat := (g.filter (fun e => e.parent == some p)).map (·.node)

def rootsOf (g : List Entry) : List Nat := (g.filter (fun e => e.parent.isNone)).map (·.node)

/-- qubits touched at or below `x` (to depth `d`). -/
def qubitsBelow (op : Nat → Op) (d : Nat) (x : Nat) : List Int :=
  (leavesF op d x).flatMap (fun a => (op a).leafChans.map (·.q))

def zeroLeaf (op : Nat → Op) (y : Nat) : Bool :=
  !(op y).isComp && !decide ((op y).cls = .barrier) && decide ((op y).dur = .fixed 0)

def chainFrom (op : Nat → Op) (d : Nat) (g : List Entry) (hq : List Int) : Nat → Nat → List Nat
  | 0, x => [x]
  | f+1, x =>
    match kidsOf g x with
    | [y] => if (qubitsBelow op d y).all (hq.contains ·) || zeroLeaf op y then x :: chainFrom op d g hq f y else [x]
    | _ => [x]

/-- sequences of layers below the operations `hs` (to recursion depth `f`): the paths of the layer; the path that
    has children becomes `main`, the next layer hangs below it; FURTHER paths that have children or contain a
    sub-circuit are branches of their own (a sequence each, not part of this layer). -/
def seqsFrom (op : Nat → Op) (d : Nat) (g : List Entry) : Nat → List Nat → List (List LayerData)
  | 0, _ => []
  | f+1, hs =>
    if hs.isEmpty then [] else
    let chains := hs.map (fun h => chainFrom op d g (qubitsBelow op d h) g.length h)
    let cont := chains.filter (fun c => !(kidsOf g (lastOf 0 c)).isEmpty)
    let main := match cont with
      | m :: _ => m
      | [] => chains.getLastD []
    let free := chains.filter (fun c => c != main &&
      (!(kidsOf g (lastOf 0 c)).isEmpty || c.any (fun x => (op x).isComp)))
    let here : LayerData := ⟨chains.filter (fun c => !free.contains c), main⟩
    let below (L : LayerData) (c : List Nat) : List (List LayerData) :=
      match seqsFrom op d g f (kidsOf g (lastOf 0 c)) with
      | [] => [[L]]
      | ss => ss.map (fun s => L :: s)
    below here main ++ free.flatMap (fun c => below ⟨[c], c⟩ c)

/-- sequences of layers of sub-circuit `X`, read off its relation tree (`d` bounds the nesting depth looked at). -/
def autoCertF (op : Nat → Op) (d : Nat) (X : Nat) : List (List LayerData) :=
  let g := (op X).graph
  seqsFrom op d g g.length (rootsOf g)

def autoCert (w : World) (X : Nat) : List (List LayerData) := autoCertF w.op (w.ops.size + 2) X

/-! ### evaluation-friendly accessors

`World.op` is `Array.getD`, which the kernel evaluates slowly; the same look-up through the underlying list is an
order of magnitude cheaper.  `layeredOkL` is `layeredOk` with list look-ups (`layeredOkL_eq`). -/

def listOp (ops : List Op) (i : Nat) : Op := (ops[i]?).getD default
def listLnk (ls : List Link) (i : Nat) : Link := (ls[i]?).getD default

theorem listOp_eq (w : World) : listOp w.ops.toList = w.op := by
  funext i
  unfold listOp World.op
  simp [Array.getD_eq_getD_getElem?]

theorem listLnk_eq (w : World) : listLnk w.links.toList = w.lnk := by
  funext i
  unfold listLnk World.lnk
  simp [Array.getD_eq_getD_getElem?]

/-- the layered check with list look-ups and the layers read off the heap. -/
def layeredOkL (w : World) (R : Regime) (c : Nat) : Bool :=
  layeredOkF (listOp w.ops.toList) (listLnk w.links.toList) w R
    (autoCertF (listOp w.ops.toList) (w.ops.size + 2)) c

theorem layeredOkL_eq (w : World) (R : Regime) (c : Nat) :
    layeredOkL w R c = layeredOk w R (autoCert w) c := by
  unfold layeredOkL layeredOk autoCert
  rw [listOp_eq, listLnk_eq]

/-- the layered check of a recorded library circuit in both regimes. -/
def caseLayered (x : Case) : Bool := layeredOkL x.w regimeA x.c && layeredOkL x.w regimeB x.c

/-- a recorded circuit that passes the layered check is free of double booking for ALL non-negative durations
    (the schedule tables `tA`, `tB` of the case are not used). -/
theorem caseLayered_sound (x : Case) (h : caseLayered x = true)
    {ro mw fl rs : Int} (hro : 0 ≤ ro) (hmw : 0 ≤ mw) (hfl : 0 ≤ fl) (hrs : 0 ≤ rs)
    (heven : mw ≤ ro → (ro - mw) % 2 = 0) : NoDoubleBooking (withDurations x.w ro mw fl rs) x.c := by
  unfold caseLayered at h
  rw [Bool.and_eq_true, layeredOkL_eq, layeredOkL_eq] at h
  exact layered_all_durations h.1 h.2 hro hmw hfl hrs heven

end Qco.C10Param
