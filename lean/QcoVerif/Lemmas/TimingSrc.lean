import QcoVerif.Lemmas.PyBridge
import QcoVerif.Model.Timing
import QcoVerif.Model.Ident
/-
  `self` objects for the translated timing and identifier functions (Generated/PySrc.lean).  Core Lean only.
-/
namespace Qco.TimingSrc
open Qco Qco.Py

def relVal : Rel → Val
  | .fb => .enum "RelationType" "FOLLOWED_BY"
  | .js => .enum "RelationType" "JOINED_START"
  | .je => .enum "RelationType" "JOINED_END"

/-- a referenced operation: identity `n`, start and end as the evaluator reports them. -/
def nodeObj (n : Nat) (s e : Int) : Val := .obj "ICircuitOperation" n [("start_time", .int s), ("end_time", .int e)]

/-- `reference_node` of a link: `None` or the operation. -/
def refVal : Option (Nat × Int × Int) → Val
  | none => .none
  | some (n, s, e) => nodeObj n s e

/-- `self` of a `RelationLink`. -/
def linkSelf (rel : Rel) (ref : Option (Nat × Int × Int)) : Val :=
  .obj "RelationLink" 0 [("reference_node", refVal ref), ("_relation_type", relVal rel)]

/-- `self` of a `MultiRelationLink`: the group as (identity, end time) pairs (start irrelevant for the choice). -/
def multiSelf (rel : Rel) (refs : List (Nat × Int)) : Val :=
  .obj "MultiRelationLink" 0
    [("_reference_nodes", .list (refs.map (fun p => nodeObj p.1 0 p.2))), ("relation_type", relVal rel)]

def chanVal : Chan → Val
  | .ro => .enum "QubitChannel" "READOUT"
  | .mw => .enum "QubitChannel" "MICROWAVE"
  | .fl => .enum "QubitChannel" "FLUX"
  | .all => .enum "QubitChannel" "ALL"

def chIdObj (ident : Nat) (a : ChId) : Val :=
  .obj "ChannelIdentifier" ident [("id", .int a.q), ("channel", chanVal a.c)]

/-- `isinstance(x, C)` by class name (the objects of this file have no subclasses but `EdgeIDObj ≤ IEdgeID`). -/
def classEnv : Env :=
  { func := fun f args => match f, args with
      | "isinstance", [.obj c _ _, .str want] => some (.bool (c == want || (c == "EdgeIDObj" && want == "IEdgeID")))
      | "isinstance", [_, .str _] => some (.bool false)
      | _, _ => Option.none }

def qidVal (q : QubitId) : Val := .str q.name

/-- an `EdgeIDObj`; `contains()` answers for the two qubits of `self` are supplied by the method hook below. -/
def edgeObj (ident : Nat) (e : EdgeId) : Val :=
  .obj "EdgeIDObj" ident [("qubit_id0", qidVal e.q0), ("qubit_id1", qidVal e.q1)]

def decodeEdge (fs : List (String × Val)) : Option EdgeId :=
  match lookupField fs "qubit_id0", lookupField fs "qubit_id1" with
  | some (.str a), some (.str b) => some ⟨⟨a⟩, ⟨b⟩⟩
  | _, _ => Option.none

/-- `other.contains(q)` is answered by the MODEL's `EdgeId.contains` on the decoded receiver (the source of `contains`
    itself is tied by `edge_contains_matches_source`). -/
def edgeEnv : Env :=
  { classEnv with
    method := fun recv m args => match recv, m, args with
      | .obj "EdgeIDObj" _ fs, "contains", [.str q] => (decodeEdge fs).map (fun e => Val.bool (e.contains ⟨q⟩))
      | _, _, _ => Option.none }

theorem vars_get_set_same (vs : Vars) (x : String) (v : Val) : (vs.set x v).get x = v := by
  simp [Vars.get, Vars.set]

theorem vars_get_set_other (vs : Vars) (x y : String) (v : Val) (h : (x == y) = false) : (vs.set x v).get y = vs.get y := by
  unfold Vars.get Vars.set
  simp only [List.find?_cons, h]
  have : List.find? (fun p => p.1 == y) (List.filter (fun p => !(p.1 == x)) vs) = List.find? (fun p => p.1 == y) vs := by
    induction vs with
    | nil => rfl
    | cons p ps ih =>
      by_cases hp : (p.1 == x) = true
      · have hpy : (p.1 == y) = false := by
          have : p.1 = x := by simpa using hp
          rw [this]; exact h
        simp [List.filter_cons, hp, List.find?_cons, hpy, ih]
      · have hp' : (p.1 == x) = false := by simpa using hp
        simp only [List.filter_cons, hp', Bool.not_false, if_true, List.find?_cons, ih]
  rw [this]

def encNode (p : Nat × Int) : Val := nodeObj p.1 0 p.2

/-- the loop of `MultiRelationLink.reference_node`: `latest_node` follows `pickLatest`. -/
theorem latest_loop (body : List Stmt)
    (hbody : body = [.ifs (.cmp .gt (.attr (.name "node") "end_time") (.attr (.name "latest_node") "end_time"))
        [.assign "latest_node" (.name "node")] []]) :
    ∀ (l : List (Nat × Int)) (vs : Vars) (b : Nat × Int), vs.get "latest_node" = encNode b →
      ∃ vs', forLoop (fun vs' v => execBlock {} (vs'.set "node" v) body) (l.map encNode) vs = .cont vs' ∧
        vs'.get "latest_node" = encNode (l.foldl (fun b x => if x.2 > b.2 then x else b) b) := by
  intro l
  induction l with
  | nil => intro vs b h; exact ⟨vs, rfl, h⟩
  | cons x xs ih =>
    intro vs b h
    have hl : (vs.set "node" (encNode x)).get "latest_node" = encNode b := by
      rw [vars_get_set_other _ _ _ _ (by decide)]; exact h
    have hn : (vs.set "node" (encNode x)).get "node" = encNode x := vars_get_set_same _ _ _
    simp only [List.map_cons, forLoop, List.foldl_cons]
    by_cases hgt : x.2 > b.2
    · have hstep : execBlock {} (vs.set "node" (encNode x)) body =
          .cont ((vs.set "node" (encNode x)).set "latest_node" (encNode x)) := by
        subst hbody
        simp only [execBlock, exec, eval, hl, hn]
        simp [encNode, nodeObj, getAttr, lookupField, evalCmp, Val.asInt?, Val.truthy, Val.isErr, hgt]
      rw [hstep]
      simp only [hgt, if_true]
      exact ih _ x (vars_get_set_same _ _ _)
    · have hstep : execBlock {} (vs.set "node" (encNode x)) body = .cont (vs.set "node" (encNode x)) := by
        subst hbody
        simp only [execBlock, exec, eval, hl, hn]
        simp [encNode, nodeObj, getAttr, lookupField, evalCmp, Val.asInt?, Val.truthy, hgt]
      rw [hstep]
      simp only [hgt, if_false]
      exact ih _ b hl

/-- environment of `MultiRelationLink.get_start_time`: the constructor call `RelationLink(reference_node, relation_type)`
    builds the object `linkSelf`-style, and its `get_start_time(duration)` is answered by the MODEL's `linkStart` on the decoded
    fields (the source of that method is tied by `relation_link_start_matches_source`). -/
def multiEnv : Env :=
  { func := fun f args => match f, args with
      | "RelationLink", [.tuple [.str "_reference_node", r], .tuple [.str "_relation_type", t]] =>
          some (.obj "RelationLink" 99 [("reference_node", r), ("_relation_type", t)])
      | _, _ => Option.none
    method := fun recv m args => match recv, m, args with
      | .obj "RelationLink" _ [("reference_node", r), ("_relation_type", t)], "get_start_time", [.int d] =>
          (match t with
           | .enum "RelationType" "FOLLOWED_BY" => some Rel.fb
           | .enum "RelationType" "JOINED_START" => some Rel.js
           | .enum "RelationType" "JOINED_END" => some Rel.je
           | _ => Option.none).bind (fun rel =>
            match r with
            | .none => some (.int (linkStart rel Option.none d))
            | .obj _ _ [("start_time", .int s), ("end_time", .int e)] => some (.int (linkStart rel (some (s, e)) d))
            | _ => Option.none)
      | _, _, _ => Option.none }

/-- `self` of a `MultiRelationLink` whose `reference_node` property has the model's value (`pickLatest`). -/
def multiSelfR (rel : Rel) (ref : Option (Nat × Int × Int)) : Val :=
  .obj "MultiRelationLink" 0 [("reference_node", refVal ref), ("relation_type", relVal rel)]

end Qco.TimingSrc
