import QcoVerif.Properties.C01
/-
  C06 — applying repetition modifiers unrolls n back-to-back copies, once.

  Proved here (about definitions the driver executes):
   * the group link created by `extend` refers to the member that ends latest, first one on ties
     (`copy_follows_latest_leaf`, = `pickLatest`);
   * n copies of a block of duration T chained back to back occupy exactly n·T (`chain_span`) — with the previous
     item: if the last-ending operation of the block is the leaf the next copy is hung under, copy k starts at
     start + k·T;
   * counts are read when modifiers are applied (fixed or registry-provided, default 1), a count of 1 adds
     nothing, operations that are not sub-circuits are left alone.
  NOT proved (`unroll_counts`, `unroll_resets`, `unroll_idempotent` for the heap-level `applyModifiers`: they need
  a frame argument over the recursive copy) — these clauses are evaluated on the implementation and compared
  with the model on every generated program; the library "n-fold concatenation" clause is false of model and
  code (known finding R5).
-/
namespace Qco.C06

open Qco Qco.C10

/-- the copy appended by `extend` follows the latest-ending leaf of what precedes it (first wins ties). -/
theorem copy_follows_latest_leaf (best : Nat × Int) (xs : List (Nat × Int)) :
    (pickLatest best xs = best ∨ pickLatest best xs ∈ xs) ∧
    best.2 ≤ (pickLatest best xs).2 ∧ ∀ x ∈ xs, x.2 ≤ (pickLatest best xs).2 :=
  Qco.C01.group_reference_is_latest best xs

/-- intervals of `n` back-to-back copies of a block of duration `T` starting at `s`. -/
def chain (s T : Int) (n : Nat) : List (Int × Int) :=
  (List.range n).map (fun (k : Nat) => (s + (k : Int) * T, s + ((k : Int) + 1) * T))

theorem minOf_chain (s T : Int) (hT : 0 ≤ T) (n : Nat) : minOf ((chain s T (n + 1)).map (·.1)) = s := by
  apply minOf_eq
  · simp only [chain, List.map_map, List.mem_map, List.mem_range, Function.comp]
    exact ⟨0, by omega, by simp⟩
  · intro x hx
    simp only [chain, List.map_map, List.mem_map, List.mem_range, Function.comp] at hx
    obtain ⟨k, _, rfl⟩ := hx
    have : 0 ≤ (k : Int) * T := Int.mul_nonneg (Int.natCast_nonneg k) hT
    omega

theorem maxOf_chain (s T : Int) (hT : 0 ≤ T) (n : Nat) :
    maxOf ((chain s T (n + 1)).map (·.2)) = s + ((n : Int) + 1) * T := by
  apply maxOf_eq
  · simp only [chain, List.map_map, List.mem_map, List.mem_range, Function.comp]
    exact ⟨n, by omega, rfl⟩
  · intro x hx
    simp only [chain, List.map_map, List.mem_map, List.mem_range, Function.comp] at hx
    obtain ⟨k, hk, rfl⟩ := hx
    have h1 : (k : Int) + 1 ≤ (n : Int) + 1 := by omega
    have := Int.mul_le_mul_of_nonneg_right h1 hT
    omega

/-- **n·T**: a block consisting of n ≥ 1 copies of duration T ≥ 0 chained one after another has lead 0 and
    duration n·T. -/
theorem chain_span (s T : Int) (hT : 0 ≤ T) (n : Nat) :
    leadSpan [s] (chain s T (n + 1)) = (0, ((n : Int) + 1) * T) := by
  unfold leadSpan
  rw [minOf_chain s T hT n, maxOf_chain s T hT n]
  simp only [minOf, List.foldl_nil, Int.sub_self, Prod.mk.injEq, true_and]
  omega

/-- counts are read when modifiers are applied: a fixed count is itself, a registry-provided one is the value
    registered under its key at that time, 1 if none. -/
theorem count_fixed (w : World) (n : Nat) : w.repCount (.fixed n) = n := rfl

theorem count_registry_default (w : World) (k : Nat) (h : ∀ p ∈ w.rreg, p.1 ≠ k) : w.repCount (.reg k) = 1 := by
  unfold World.repCount
  have : w.rreg.find? (fun x => x.1 == k) = none := by
    rw [List.find?_eq_none]; intro x hx; simpa using h x hx
  simp [this]

/-- operations that are not sub-circuits are untouched by `apply_modifiers_to_self`. -/
theorem apply_leaf (w : World) (f o : Nat) (h : (w.op o).isComp = false) : w.applyModifiers f o = w := by
  cases f with
  | zero => rfl
  | succ f => simp [World.applyModifiers, h]

/-- non-vacuity of `chain_span`: three copies of a block of duration 2 (16 units) starting at 1. -/
example : leadSpan [8] (chain 8 16 3) = (0, 48) := by decide

end Qco.C06
