import QcoVerif.Lemmas.Connectivity
/-
  C16 — simultaneous two-qubit gates are accepted iff they cannot collide in frequency.

  All statements are about the definitions of `Model/Connectivity.lean` that the driver executes
  (`allowedGates` = `GateSequenceGenerator.get_mutually_allowed` on gate operations, `requiresParking` =
  `get_requires_parking`, `constructAllowed` = `construct_allowed_gate_sequences`) and about the specification
  predicates `Spec.accepted`, `Spec.needsParking` of the same file.  Quantifier: EVERY list (any length, any order,
  repetitions allowed) of device edges in either orientation (`orientedEdges`) — this contains the property's
  "all subsets of up to four of the 24 edges".  The finite facts are re-checked against the generated tables by
  `decide +kernel` at every build.
-/
namespace Qco.C16
open Qco.Conn

/-- the code's frequency comparison is the strict order LOW < MID < HIGH -/
theorem isHigher_iff_rank (a b : Freq) : a.isHigher b = decide (Spec.rank b < Spec.rank a) := by
  cases a <;> cases b <;> rfl

theorem isLower_iff_rank (a b : Freq) : a.isLower b = decide (Spec.rank a < Spec.rank b) := by
  cases a <;> cases b <;> rfl

/-- `on_moving_side` = "is the strictly higher-frequency end of the edge" -/
theorem onMovingSide_iff (q : Qubit) (e : Edge) : onMovingSide q e = Spec.moving e q := by
  unfold onMovingSide Spec.moving
  rw [isHigher_iff_rank]
  cases e.has q <;> simp

/-- table: the generated device tables are well-formed — every edge joins two different known qubits, every qubit
has a frequency code 0/1/2 -/
theorem table_edges_wellformed :
    (∀ e ∈ deviceEdges, e.1 < nQubits ∧ e.2 < nQubits ∧ e.1 ≠ e.2) ∧
    Gen.Surface17.freq.length = nQubits ∧ (∀ c ∈ Gen.Surface17.freq, c < 3) := by decide +kernel

/-- table (48 × 48 ordered pairs of oriented device edges): the inner test of `get_mutually_allowed` — "the
simultaneous gate is in the target's allowed set", constraints built exactly as the code builds them — is
"same gate, or the two gates cannot collide" -/
theorem table_pairs : ∀ e ∈ orientedEdges, ∀ f ∈ orientedEdges,
    okPair (.gate e) (.gate f) = (e.same f || Spec.pairOk e f) := by decide +kernel

/-- **Acceptance.** For every list of device edges, `get_mutually_allowed` accepts exactly when any two different
gates of the list are disjoint and have no neighbouring qubits at the same operating level. -/
theorem allowed_iff (es : List Edge) (h : ∀ e ∈ es, e ∈ orientedEdges) :
    allowedGates es = Spec.accepted es := by
  unfold Spec.accepted
  exact allowedGates_lift _ es (fun t ht s hs => table_pairs t (h t ht) s (h s hs))

/-- the same, spelled out as a proposition -/
theorem allowed_iff_forall (es : List Edge) (h : ∀ e ∈ es, e ∈ orientedEdges) :
    allowedGates es = true ↔ ∀ e ∈ es, ∀ f ∈ es, e.same f = false → Spec.pairOk e f = true := by
  rw [allowed_iff es h]
  simp only [Spec.accepted, List.all_eq_true, Bool.or_eq_true]
  constructor
  · intro H e he f hf hne
    rcases H e he f hf with h1 | h1
    · rw [h1] at hne; cases hne
    · exact h1
  · intro H e he f hf
    cases hs : e.same f
    · exact Or.inr (H e he f hf hs)
    · exact Or.inl rfl

/-- non-vacuity (stated existentially, so that a legitimate change of the device tables does not break the file):
some pair of different device edges is accepted and some pair is rejected -/
example : (∃ e ∈ deviceEdges, ∃ f ∈ deviceEdges, e.same f = false ∧ allowedGates [e, f] = true) ∧
    (∃ e ∈ deviceEdges, ∃ f ∈ deviceEdges, e.same f = false ∧ allowedGates [e, f] = false) := by decide +kernel

/-- table (17 qubits × 48 oriented edges): the per-gate test of `get_requires_parking` is "neighbours the moving
member of the gate and idles at the gate's operating level", and it implies the code's spectator guard -/
theorem table_parking : ∀ q ∈ qubitIds, ∀ e ∈ orientedEdges,
    parkPair q e = Spec.parkTrigger q e ∧ (parkPair q e = true → spectates q e = true) := by decide +kernel

/-- **Parking.** For every device qubit and every list of device edges (overlapping lists included — the code was
repaired to pair every neighbour with every gate it takes part in), `get_requires_parking` holds exactly when the
qubit is not itself gated, neighbours the moving member of an active gate and idles at that gate's level. -/
theorem parking_iff (q : Qubit) (hq : q ∈ qubitIds) (es : List Edge) (h : ∀ e ∈ es, e ∈ orientedEdges) :
    requiresParking q es = Spec.needsParking q es := by
  unfold Spec.needsParking
  exact requiresParking_lift Spec.parkTrigger q es
    (fun e he => (table_parking q hq e (h e he)).1) (fun e he => (table_parking q hq e (h e he)).2)

/-- non-vacuity: some device qubit requires parking for some single gate -/
example : ∃ q ∈ qubitIds, ∃ e ∈ deviceEdges, requiresParking q [e] = true := by decide +kernel

/-- the verdict does not depend on the order in which the gates are listed (the formal content of the repair of R9:
before it, `[D4-X3, D7-X3]` and its reverse gave different answers for D8; the two lists are in corpus/C16) -/
theorem parking_perm (q : Qubit) (hq : q ∈ qubitIds) (es es' : List Edge) (h : ∀ e ∈ es, e ∈ orientedEdges)
    (hp : es.Perm es') : requiresParking q es = requiresParking q es' := by
  rw [parking_iff q hq es h, parking_iff q hq es' (fun e he => h e (hp.mem_iff.mpr he))]
  unfold Spec.needsParking
  rw [hp.any_eq, hp.any_eq]

/-- acceptance does not depend on the order either -/
theorem allowed_perm (es es' : List Edge) (h : ∀ e ∈ es, e ∈ orientedEdges) (hp : es.Perm es') :
    allowedGates es = allowedGates es' := by
  rw [allowed_iff es h, allowed_iff es' (fun e he => h e (hp.mem_iff.mpr he))]
  unfold Spec.accepted
  rw [hp.all_eq]
  apply all_congr_mem
  intro e _
  exact hp.all_eq

/-- **Generator soundness.** Every sequence `construct_allowed_gate_sequences` emits (for any subgroup size and any
combination limit under which it answers at all) consists of steps of exactly the subgroup size, uses every requested
gate exactly once (its index pointers are a permutation of `0 … n-1`), and every step is accepted by
`get_mutually_allowed` — hence, by `allowed_iff`, collision-free.  Soundness only: completeness of the enumeration
is not claimed by the property. -/
theorem generator_sound (es : List Edge) (h : ∀ e ∈ es, e ∈ orientedEdges) (k mx : Nat)
    (seqs : List (List (List Nat))) (hc : constructAllowed es k mx = some seqs)
    (seq : List (List Nat)) (hs : seq ∈ seqs) :
    (∀ step ∈ seq, step.length = k) ∧ seq.flatten.Perm (List.range es.length) ∧
    (∀ step ∈ seq, allowedGates (stepEdges es step) = true ∧ Spec.accepted (stepEdges es step) = true) := by
  obtain ⟨hl, hp, ha⟩ := constructAllowed_spec es k mx seqs hc seq hs
  refine ⟨hl, hp, ?_⟩
  intro step hst
  have hall : allowedGates (stepEdges es step) = true := ha step hst
  refine ⟨hall, ?_⟩
  rw [← allowed_iff _ ?_]
  · exact hall
  · intro e he
    simp only [stepEdges, List.mem_map] at he
    obtain ⟨i, hi, rfl⟩ := he
    have : i ∈ seq.flatten := List.mem_flatten.mpr ⟨step, hst, hi⟩
    have hlt : i < es.length := by simpa using (hp.mem_iff.mp this)
    apply h
    rw [List.getD_eq_getElem?_getD, List.getElem?_eq_getElem hlt]
    exact List.getElem_mem hlt

/-- non-vacuity: two gates in steps of one are emitted as the one sequence "first, then second"; in one step of
two they are emitted exactly when the pair is accepted -/
example : constructAllowed (deviceEdges.take 2) 1 = some [[[0], [1]]] := by decide +kernel

example : ∃ e ∈ deviceEdges, ∃ f ∈ deviceEdges, constructAllowed [e, f] 2 = some [[[0, 1]]] := by decide +kernel

end Qco.C16
