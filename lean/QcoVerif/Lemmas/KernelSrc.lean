import QcoVerif.Lemmas.PyBridge
import QcoVerif.Model.Kernel
/-
  How the model's kernels are presented to the translated source functions (Generated/PySrc.lean): the `self` objects.
  A `self` carries the dataclass FIELDS and, for every property or method the function under consideration reads, the
  value the MODEL assigns to it — so each `…_matches_source` theorem says "if the other members mean what the model
  says, this member's source text computes what the model says".  The members of one class depend on each other
  acyclically (Properties/C12.lean, `member_dependencies_acyclic`), so the theorems compose to: every member's source
  text computes the model's value.   Core Lean only.
-/
namespace Qco.KernelSrc
open Qco Qco.Py Qco.Kernel

/-- a strategy object: its fields, and the value `get_index` returns as pseudo-field `get_index()`. -/
def strategyObj (s : Strategy) : Val :=
  match s with
  | .fixed i => .obj "FixedIndexStrategy" 1 [("index", .int i), ("get_index()", .int (Strategy.getIndex (.fixed i)))]
  | .relative st => .obj "RelativeIndexStrategy" 1
      [("reference_index_kernel", .obj "IIndexingKernel" 2 [("stop_index", .int st)]),
       ("get_index()", .int (Strategy.getIndex (.relative st)))]

/-- method calls whose arguments the model does not look at are answered from the receiver's `m()` pseudo-field. -/
def fieldMethods : Env :=
  { method := fun recv m _ => match recv with | .obj _ _ fs => lookupField fs (m ++ "()") | _ => Option.none }

/-- `self` of a `RepetitionIndexKernel`. -/
def repFields (k : RepKernel) : List (String × Val) :=
  [("nr_repeated_parities", .int k.nr), ("heralded_initialization", .bool k.heralded),
   ("index_offset_strategy", strategyObj k.strategy),
   ("involved_data_qubit_ids", nats k.dataIds), ("involved_ancilla_qubit_ids", nats k.ancIds),
   ("start_index", .int k.startIndex), ("_exclusive_start_index", .int k.exclStart),
   ("index_delta_heralded_initialization", .int k.dHer),
   ("index_delta_stabilizer_measurements", .int k.dStab),
   ("index_delta_final_measurement", .int k.dFinal),
   ("stop_index", .int k.stopIndex),
   ("involved_qubit_ids", nats k.involved)]

def repSelf (k : RepKernel) : Val := .obj "RepetitionIndexKernel" 0 (repFields k)

/-- the same object with the results of its three element getters for element `e` (pseudo-fields). -/
def repSelfE (k : RepKernel) (e : QId) : Val := .obj "RepetitionIndexKernel" 0
  (repFields k ++
   [("get_heralded_measurement_index()", ints (k.heraldedIdx e)),
    ("get_ordered_stabilizer_measurement_indices()", ints (k.stabIdx e)),
    ("get_final_measurement_index()", ints (k.finalIdx e))])

/-- element getters are answered from the pseudo-fields only when called with exactly the element `e`. -/
def elemMethods (e : QId) : Env :=
  { method := fun recv m args =>
      match args, recv with
      | [.int a], .obj _ _ fs => if a = (e : Int) then lookupField fs (m ++ "()") else Option.none
      | _, _ => Option.none }

/-- `self` of a `QutritCalibrationIndexKernel`. -/
def calFields (c : CalKernel) : List (String × Val) :=
  [("heralded_initialization", .bool c.heralded), ("index_offset_strategy", strategyObj c.strategy),
   ("involved_qubit_ids", nats c.ids),
   ("start_index", .int c.startIndex), ("_exclusive_start_index", .int c.exclStart),
   ("index_delta_heralded_initialization", .int c.dHer),
   ("index_delta_state_0", .int c.d0), ("index_delta_state_1", .int c.d1), ("index_delta_state_2", .int c.d2),
   ("stop_index", .int c.stopIndex)]

def calSelf (c : CalKernel) : Val := .obj "QutritCalibrationIndexKernel" 0 (calFields c)

def calSelfE (c : CalKernel) (e : QId) : Val := .obj "QutritCalibrationIndexKernel" 0
  (calFields c ++
   [("get_heralded_state_0_measurement_index()", ints (c.heralded0 e)),
    ("get_heralded_state_1_measurement_index()", ints (c.heralded1 e)),
    ("get_heralded_state_2_measurement_index()", ints (c.heralded2 e)),
    ("get_state_0_measurement_index()", ints (c.state0 e)),
    ("get_state_1_measurement_index()", ints (c.state1 e)),
    ("get_state_2_measurement_index()", ints (c.state2 e))])

theorem sortInts_eq (l : List Int) : Py.sortInts l = Kernel.sortInts l := by
  unfold Py.sortInts Kernel.sortInts
  induction l with
  | nil => rfl
  | cons a as ih =>
    simp only [List.foldr_cons, ih]
    generalize List.foldr Kernel.insertSorted [] as = m
    induction m with
    | nil => rfl
    | cons b bs ihb => simp only [Py.insertSorted, Kernel.insertSorted, ihb]

end Qco.KernelSrc

namespace Qco.KernelSrc
open Qco Qco.Py Qco.Kernel

/-- an element of `indexing_kernels` as an object. -/
def ikVal : IKernel → Val
  | .rep k => repSelf k
  | .cal c => calSelf c

/-- a 2-d integer array (`create_sliced_arrays`). -/
def arr2 (ll : List (List Int)) : Val := .arr (ll.map (fun l => Val.arr (l.map Val.int)))

/-- `self` of a `RepetitionExperimentKernel` for element `e`: the kernels carry their getter results for `e`. -/
def expFields (K : ExpKernel) (e : QId) : List (String × Val) :=
  [("_repetition_kernels", .list (K.repKernels.map (fun k => repSelfE k e))),
   ("_calibration_kernel", calSelfE K.calKernel e),
   ("_qutrit_calibration_points", .bool K.qutrit), ("_repetitions", .int K.reps),
   ("indexing_kernels", .list (K.indexingKernels.map ikVal)),
   ("start_index", .int K.startIndex), ("kernel_cycle_length", .int K.cycleLength),
   ("experiment_repetitions", .int K.reps)]

def expSelf (K : ExpKernel) (e : QId) : Val := .obj "RepetitionExperimentKernel" 0 (expFields K e)

/-- element getters of the kernels from their pseudo-fields (only for the element `e`), `create_sliced_arrays`
    computed from its ARGUMENTS by the model's `slicedArrays`, `create_sliced_array` by `slicedArray`. -/
def expEnv (e : QId) : Env :=
  { method := fun recv m args =>
      match m, args, recv with
      | "create_sliced_arrays", [.list xs, .int cyc, .int reps], _ =>
          (intsOf? xs).map (fun l => arr2 (slicedArrays l cyc reps.toNat))
      | "create_sliced_array", [.list xs, .int cyc, .int reps], _ =>
          (intsOf? xs).map (fun l => Val.arr ((slicedArray l cyc reps.toNat).map Val.int))
      | _, [.int a], .obj _ _ fs => if a = (e : Int) then lookupField fs (m ++ "()") else Option.none
      | _, _, _ => Option.none }

theorem vars_set_set (vs : Vars) (x : String) (v v' : Val) : (vs.set x v).set x v' = vs.set x v' := by
  unfold Vars.set
  simp only [List.filter_cons, beq_self_eq_true, Bool.not_true, Bool.false_eq_true, if_false, List.filter_filter,
    Bool.and_self]

theorem indexVal_map_zero {α} (f : α → Val) (a : α) (l : List α) :
    indexVal (.list ((a :: l).map f)) 0 = f a := by
  simp [indexVal, Val.elems?]

theorem indexVal_map_last {α} (f : α → Val) (l : List α) (a : α) (h : l.getLast? = some a) :
    indexVal (.list (l.map f)) (-1) = f a := by
  have hne : l ≠ [] := by intro h0; rw [h0] at h; cases h
  have hlen : 0 < l.length := List.length_pos_iff.mpr hne
  have hj : ((l.map f).length : Int) + -1 = ((l.length - 1 : Nat) : Int) := by
    rw [List.length_map]; omega
  have hidx : (l.map f)[l.length - 1]? = some (f a) := by
    rw [List.getElem?_map]
    have : l[l.length - 1]? = some a := by
      rw [← List.getLast?_eq_getElem?]; exact h
    rw [this]; rfl
  simp only [indexVal, Val.elems?]
  have hneg : ((-1 : Int) < 0) := by omega
  simp only [hneg, if_true, hj]
  have hnn : ¬ (((l.length - 1 : Nat) : Int) < 0) := by omega
  simp only [hnn, if_false, Int.toNat_natCast, hidx, Option.getD_some]

theorem ikVal_start (k : IKernel) : getAttr {} (ikVal k) "start_index" = .int k.startIndex := by
  cases k <;> simp [ikVal, repSelf, repFields, calSelf, calFields, getAttr, lookupField, IKernel.startIndex]

theorem ikVal_stop (k : IKernel) : getAttr {} (ikVal k) "stop_index" = .int k.stopIndex := by
  cases k <;> simp [ikVal, repSelf, repFields, calSelf, calFields, getAttr, lookupField, IKernel.stopIndex]

theorem expSelf_indexing (K : ExpKernel) (e : QId) :
    getAttr {} (expSelf K e) "indexing_kernels" = .list (K.indexingKernels.map ikVal) := by
  simp [expSelf, expFields, getAttr, lookupField]

/-- value of a cycle getter: the 2-d array of the model, or the empty 1-d array when no kernel has that round count. -/
def cycleVal : Option (List (List Int)) → Val
  | some ll => arr2 ll
  | none => .arr []

/-- the loop of the three cycle getters (`for repetition_kernel in self._repetition_kernels: if … == count: return …`),
    for a body that returns `R k` on a kernel with the requested round count and continues otherwise. -/
theorem cycle_loop (e : QId) (count : Nat) (stmts : List Stmt) (R : RepKernel → Val) (vs0 : Vars)
    (hbody : ∀ k : RepKernel, execBlock (expEnv e) (vs0.set "repetition_kernel" (repSelfE k e)) stmts =
      if k.nr == count then .ret (R k) else .cont (vs0.set "repetition_kernel" (repSelfE k e))) :
    ∀ (ks : List RepKernel) (vs : Vars), (∀ v, vs.set "repetition_kernel" v = vs0.set "repetition_kernel" v) →
      (match ks.find? (fun k => k.nr == count) with
       | some k => forLoop (fun vs' v => execBlock (expEnv e) (vs'.set "repetition_kernel" v) stmts)
                      (ks.map (fun k => repSelfE k e)) vs = .ret (R k)
       | none => ∃ vs'', forLoop (fun vs' v => execBlock (expEnv e) (vs'.set "repetition_kernel" v) stmts)
                      (ks.map (fun k => repSelfE k e)) vs = .cont vs'') := by
  intro ks
  induction ks with
  | nil => intro vs _; exact ⟨vs, rfl⟩
  | cons k rest ih =>
    intro vs hvs
    simp only [List.map_cons, forLoop, hvs, hbody k, List.find?_cons]
    cases hk : (k.nr == count)
    · simp only [Bool.false_eq_true, if_false]
      exact ih _ (fun v => vars_set_set vs0 _ _ v)
    · simp only [if_true]

end Qco.KernelSrc
