import QcoVerif.Lemmas.DefinedUnrollA
/-
  C01, definedness after unrolling — part B: what a copy of a tree without group links looks like.

  `copyObj_fresh`: on a tree `o` (depth ≤ `f`) none of whose objects strictly below `o` carries a group link, with a
  lookup all of whose values are `≥ B`:
   * every NEW object depends on objects `≥ B` only (with the empty lookup of `copy()`: on new objects only);
   * the copy is `Nested`: every node strictly below the new root carries a plain link to nodes of its own graph;
   * the link of the new root is plain if the link of `o` is.
  The walk re-uses the three existing loop invariants (`Defined.LoopInv`, `TreeCopyInv`) as black boxes.
-/
namespace Qco.DefinedUnroll

open Qco Qco.Defined

theorem depthOk_of_tree (w : World) : ∀ (f o g : Nat), TreeBelow w f o → f ≤ g → depthOk w g o := by
  intro f
  induction f with
  | zero => intro o g h _; exact h.elim
  | succ f ih =>
    intro o g ht hg
    cases g with
    | zero => omega
    | succ g =>
      unfold depthOk
      intro hc n hn
      have hk : n ∈ w.kids o := (listing_perm _).mem_iff.mp hn
      exact ih n g (ht.kid hc hk) (by omega)

structure FreshPost (w : World) (B f o : Nat) (r : World × Nat × Lookup) : Prop where
  deps : ∀ x y, w.ops.size ≤ x → x < r.1.ops.size → Dep r.1 x y → B ≤ y
  nested : Nested r.1 f r.2.1
  rootlink : SingleLink (w.lnk (w.op o).link) → SingleLink (r.1.lnk (r.1.op r.2.1).link)

/-- the edges out of a freshly allocated object. -/
theorem dep_newOp_new (w : World) (op : Op) {y : Nat} (h : Dep (w.newOp op).1 w.ops.size y) :
    y ∈ (w.lnk op.link).refs ∨ (op.isComp = true ∧ ∃ e ∈ op.graph, e.node = y) := by
  unfold Dep at h
  rw [op_newOp, lnk_newOp, if_pos rfl] at h
  exact h

/-- loop invariant of the walk (next to `Defined.LoopInv` and `TreeCopyInv`). -/
structure WInv (w0 : World) (B res f : Nat) (L0 : Link) (wi : World) : Prop where
  deps : ∀ x y, w0.ops.size ≤ x → x < wi.ops.size → Dep wi x y → B ≤ y
  kids : ∀ n ∈ wi.kids res, SingleLink (wi.lnk (wi.op n).link) ∧
    (∀ y ∈ (wi.lnk (wi.op n).link).refs, y ∈ wi.kids res) ∧ Nested wi f n
  reslink : wi.lnk (wi.op res).link = L0

theorem add_link_other {w : World} (hc : Closed w) (c o j : Nat) (hjo : j ≠ o) :
    ((w.add c o).op j).link = (w.op j).link := by
  have ls := addToGraph_linkStep w (w.op c).graph o hc.link
  unfold World.add
  simp only
  rw [setGraph_link, ls.op_other j hjo]

theorem walk_step {w0 : World} {lk0 : Lookup} {B res f : Nat} {rep : Rep} {L0 : Link} {wi : World} {lki : Lookup}
    {done : List Nat} {n g : Nat} (hres : res = w0.ops.size) (hc0 : Closed w0) (hB : B ≤ w0.ops.size)
    (hL : LoopInv w0 lk0 res wi lki) (hT : TreeCopyInv w0 res f rep wi done) (hW : WInv w0 B res f L0 wi)
    (hn : TreeBelow w0 f n) (hns : SingleLink (w0.lnk (w0.op n).link))
    (post : CopyPost wi lki (wi.copyObj g n lki))
    (tcs : TreeCopySpec wi f n (wi.copyObj g n lki).1 (wi.copyObj g n lki).2.1)
    (fp : FreshPost wi B f n (wi.copyObj g n lki))
    (v : World) (hv : Same v (wi.copyObj g n lki).1) :
    WInv w0 B res f L0 (v.add res (wi.copyObj g n lki).2.1) := by
  generalize wi.copyObj g n lki = r at post tcs fp hv
  obtain ⟨w2, cp, lk2⟩ := r
  simp only at post tcs fp hv ⊢
  have p_closed : Closed w2 := post.closed
  have p_op_old : ∀ x, x < wi.ops.size → w2.op x = wi.op x := post.op_old
  have p_lnk_old : ∀ l, l < wi.links.size → w2.lnk l = wi.lnk l := post.lnk_old
  have p_lsize : wi.links.size ≤ w2.links.size := post.lsize_le
  have p_new_lt : cp < w2.ops.size := post.new_lt
  have t_id : cp = wi.ops.size := tcs.id
  have t_tree : TreeBelow w2 f cp := tcs.tree
  have t_fresh : ∀ j ∈ w2.below f cp, wi.ops.size ≤ j := tcs.fresh
  have f_deps : ∀ x y, wi.ops.size ≤ x → x < w2.ops.size → Dep w2 x y → B ≤ y := fp.deps
  have f_nested : Nested w2 f cp := fp.nested
  have f_root : SingleLink (wi.lnk (wi.op n).link) → SingleLink (w2.lnk (w2.op cp).link) := fp.rootlink
  have hcv : Closed v := hv.closed p_closed
  have hopv : ∀ x, v.op x = w2.op x := fun x => op_ops_eq hv.1 x
  have hlnkv : ∀ l, v.lnk l = w2.lnk l := fun l => lnk_links_eq hv.2 l
  have hszv : v.ops.size = w2.ops.size := by rw [hv.1]
  have hsz : (v.add res cp).ops.size = w2.ops.size := by rw [add_size hcv, hszv]
  have hresi : res < wi.ops.size := hL.res_lt
  have hsz_le : wi.ops.size ≤ w2.ops.size := post.size_le
  have hresv : res < v.ops.size := by omega
  have hcpres : cp ≠ res := by omega
  have hresop : v.op res = wi.op res := (hopv res).trans (p_op_old res hresi)
  have hK : v.kids res = wi.kids res := by unfold World.kids; rw [hresop]
  have hkids : (v.add res cp).kids res = wi.kids res ++ [cp] := by rw [Qco.add_kids v res cp hresv, hK]
  -- links: wi ⊑ w2 = v ⊑ v.add
  have hle_w2n : LinksExt w2 (v.add res cp) :=
    ⟨by have := add_links_size hcv res cp; rw [hv.2] at this; exact this,
     fun l hl => by rw [add_lnk_old hcv res cp l (by rw [hv.2]; exact hl)]; exact hlnkv l⟩
  have hle_win : LinksExt wi (v.add res cp) := LinksExt.trans ⟨p_lsize, p_lnk_old⟩ hle_w2n
  -- objects of `wi` other than `res` are not written
  have hold : ∀ j, j < wi.ops.size → j ≠ res → (v.add res cp).op j = wi.op j := by
    intro j hj hjr
    rw [Defined.add_op_other hcv res cp j (by omega) hjr, hopv, p_op_old j hj]
  -- objects of the new tree other than `cp` are not written
  have hnew : ∀ j, j ≠ cp → j ≠ res → (v.add res cp).op j = w2.op j := by
    intro j h1 h2
    rw [Defined.add_op_other hcv res cp j h1 h2, hopv]
  have hnl : ∀ j, j ≠ res → ((v.add res cp).op j).noLink = (w2.op j).noLink := by
    intro j hj
    rw [(Qco.add_spec v res cp hresv).2.2.2.2.2 j hj, hopv]
  refine ⟨?_, ?_, ?_⟩
  · intro x y hx hxlt hxy
    rw [hsz] at hxlt
    rcases dep_add hcv res cp hxy with hd | ⟨_, e, he, rfl⟩ | ⟨_, rfl⟩
    · have hd2 : Dep w2 x y := (hv.dep x y).mp hd
      by_cases hxi : x < wi.ops.size
      · exact hW.deps x y hx hxi (dep_old hL.closed p_op_old p_lnk_old hxi hd2)
      · exact f_deps x y (by omega) hxlt hd2
    · rw [hresop] at he
      have := hL.res_nodes e he
      omega
    · have := hL.size_le; omega
  · intro m hm
    rw [hkids] at hm ⊢
    rcases List.mem_append.mp hm with hm | hm
    · obtain ⟨k1, k2, k3⟩ := hW.kids m hm
      have hmt : TreeBelow wi f m := hT.forest.tree m hm
      have hrange : ∀ j ∈ wi.below f m, j < wi.ops.size ∧ j ≠ res := by
        intro j hj
        have h1 := below_lt wi f m hmt j hj
        have h2 := hT.range m hm j hj
        exact ⟨h1, by omega⟩
      have hmm := hrange m hmt.self_mem
      have hlm : (v.add res cp).lnk ((v.add res cp).op m).link = wi.lnk (wi.op m).link :=
        lnk_frame hL.closed hle_win (hold m hmm.1 hmm.2)
      rw [hlm]
      refine ⟨k1, fun y hy => List.mem_append_left _ (k2 y hy), ?_⟩
      apply nested_congr wi _ f m hmt _ _ k3
      · intro j hj
        rw [hold j (hrange j hj).1 (hrange j hj).2]
      · intro j hj _
        exact lnk_frame hL.closed hle_win (hold j (hrange j hj).1 (hrange j hj).2)
    · simp only [List.mem_singleton] at hm
      subst hm
      have hnlt : n < w0.ops.size := hn.lt
      have hsrc : SingleLink (wi.lnk (wi.op n).link) := by
        have : wi.lnk (wi.op n).link = w0.lnk (w0.op n).link :=
          lnk_frame hc0 ⟨hL.lsize_le, hL.lnk_old⟩ (hL.op_old n hnlt)
        rw [this]; exact hns
      have hsv : SingleLink (v.lnk (v.op m).link) := by rw [hopv, hlnkv]; exact f_root hsrc
      refine ⟨add_link_single hcv res m hsv, ?_, ?_⟩
      · intro y hy
        have := add_refs_single hcv res m (by omega) hsv y hy
        rw [hK] at this
        exact List.mem_append_left _ this
      · have hfr : ∀ j ∈ w2.below f m, j ≠ res := by
          intro j hj
          have := t_fresh j hj
          omega
        apply nested_congr w2 _ f m t_tree _ _ f_nested
        · intro j hj
          exact hnl j (hfr j hj)
        · intro j hj hjm
          exact lnk_frame p_closed hle_w2n (hnew j hjm (hfr j hj))
  · have h1 : ((v.add res cp).op res).link = (wi.op res).link := by
      rw [add_link_other hcv res cp res (fun h => hcpres h.symm), hresop]
    rw [h1, hle_win.lnk_old _ (hL.closed.link res)]
    exact hW.reslink

theorem walk_fold {w0 : World} {lk0 : Lookup} {B res f g : Nat} {rep : Rep} {L0 : Link} (hres : res = w0.ops.size)
    (hc0 : Closed w0) (hB : B ≤ w0.ops.size) (hlk0 : ∀ p ∈ lk0, B ≤ p.2) (hfg : f ≤ g)
    (ihF : ∀ (w : World) (o : Nat) (lk : Lookup), TreeBelow w f o → Closed w → Acyclic w → LkOk w lk →
      B ≤ w.ops.size → (∀ p ∈ lk, B ≤ p.2) → SingleUnder w f o → FreshPost w B f o (w.copyObj g o lk)) :
    ∀ (Ns : List Nat) (acc : World × Lookup) (done : List Nat), LoopInv w0 lk0 res acc.1 acc.2 →
      TreeCopyInv w0 res f rep acc.1 done → WInv w0 B res f L0 acc.1 →
      (∀ n ∈ Ns, TreeBelow w0 f n ∧ SingleLink (w0.lnk (w0.op n).link) ∧ SingleUnder w0 f n) →
      LoopInv w0 lk0 res (Ns.foldl (cStep g res) acc).1 (Ns.foldl (cStep g res) acc).2 ∧
      TreeCopyInv w0 res f rep (Ns.foldl (cStep g res) acc).1 (done ++ Ns) ∧
      WInv w0 B res f L0 (Ns.foldl (cStep g res) acc).1 := by
  intro Ns
  induction Ns with
  | nil => intro acc done h1 h2 h3 _; simpa using ⟨h1, h2, h3⟩
  | cons n Ns ihN =>
    intro acc done hL hT hW hN
    obtain ⟨wi, lki⟩ := acc
    simp only [List.foldl_cons]
    simp only at hL hT hW
    obtain ⟨hn, hns, hnu⟩ := hN n List.mem_cons_self
    have hnlt : ∀ j ∈ w0.below f n, j < res := fun j hj => hres ▸ below_lt w0 f n hn j hj
    have hni : TreeBelow wi f n := tree_congr w0 wi (by rw [← hres]; exact Nat.le_of_lt hT.size) f n hn
      (fun j hj => op_eq_noLink (hT.old j (hnlt j hj)))
    have hle0 : LinksExt w0 wi := ⟨hL.lsize_le, hL.lnk_old⟩
    have hnui : SingleUnder wi f n := by
      apply singleUnder_congr _ _ hnu
      · intro j hj; exact op_eq_noLink (hT.old j (hnlt j hj))
      · intro j hj _; exact lnk_frame hc0 hle0 (hT.old j (hnlt j hj))
    have hBi : B ≤ wi.ops.size := Nat.le_trans hB hL.size_le
    have hlki : ∀ p ∈ lki, B ≤ p.2 := by
      intro p hp
      rcases hL.lk_vals p hp with ⟨q, hq, hqp⟩ | hge
      · rw [← hqp]; exact hlk0 q hq
      · omega
    have hnw : n < wi.ops.size := hni.lt
    have post := copyObj_post g wi n lki hL.closed hL.acyclic hL.lk_ok hnw (depthOk_of_tree wi f n g hni hfg)
    have tcs := copyObj_tree f wi n lki g hni hfg
    have fp := ihF wi n lki hni hL.closed hL.acyclic hL.lk_ok hBi hlki hnui
    have hL' := loop_step hL post
    have hstep : TreeCopyInv w0 res f rep (cStep g res (wi, lki) n).1 (done ++ [n]) ∧
        WInv w0 B res f L0 (cStep g res (wi, lki) n).1 := by
      unfold cStep
      simp only
      by_cases hb : ((wi.copyObj g n lki).2.2.any fun p => p.1 == wi.eqKey n) = true
      · rw [if_pos hb]
        exact ⟨copyInv_step w0 res f rep wi done n hres hT hn _ _ tcs _ rfl rfl,
          walk_step hres hc0 hB hL hT hW hn hns post tcs fp _ ⟨rfl, rfl⟩⟩
      · rw [if_neg hb]
        exact ⟨copyInv_step w0 res f rep wi done n hres hT hn _ _ tcs _ rfl rfl,
          walk_step hres hc0 hB hL hT hW hn hns post tcs fp _ ⟨rfl, rfl⟩⟩
    have := ihN (cStep g res (wi, lki) n) (done ++ [n]) hL' hstep.1 hstep.2
      (fun m hm => hN m (List.mem_cons_of_mem _ hm))
    rw [List.append_assoc, List.singleton_append] at this
    exact this

/-- **the copy of a tree without group links** (any lookup with values `≥ B`, any fuel `≥ f`). -/
theorem copyObj_fresh : ∀ (f : Nat) (w : World) (o : Nat) (lk : Lookup) (g B : Nat), TreeBelow w f o → f ≤ g →
    Closed w → Acyclic w → LkOk w lk → B ≤ w.ops.size → (∀ p ∈ lk, B ≤ p.2) → SingleUnder w f o →
    FreshPost w B f o (w.copyObj g o lk) := by
  intro f
  induction f with
  | zero => intro w o lk g B h; exact h.elim
  | succ f ih =>
    intro w o lk g B ht hg hc ha hlk hB hlkB hsu
    cases g with
    | zero => omega
    | succ g =>
      obtain ⟨w1, L, hs, hL, hLs, hcl⟩ := copyLink_spec w (w.op o).link lk
      have hsz1 : (w1.newLink L).1.ops.size = w.ops.size := by show w1.ops.size = _; rw [hs.1]
      have hLB : ∀ r ∈ L.refs, B ≤ r := by
        intro r hr; obtain ⟨p, hp, rfl⟩ := hL r hr; exact hlkB p hp
      have tcs := copyObj_tree (f + 1) w o lk (g + 1) ht hg
      by_cases hcomp : (w.op o).isComp = true
      · rw [Defined.copyObj_comp' w g o lk hcomp, hcl] at tcs ⊢
        rw [hsz1] at tcs ⊢
        have al := alloc_spec hs hc ha hlk L hL { cls := .comp, link := (w1.newLink L).2, rep := (w.op o).rep } rfl rfl
          (fun h => hLs (h _))
        have inv0 : LoopInv w lk w.ops.size
            ((w1.newLink L).1.newOp { cls := .comp, link := (w1.newLink L).2, rep := (w.op o).rep }).1 lk := by
          refine ⟨al.closed, al.acyclic, by rw [al.size]; omega, Nat.le_refl _, by rw [al.op_new]; rfl, al.unref_new,
            fun p hp => Nat.ne_of_lt (hlk p hp), fun p hp => by rw [al.size]; have := hlk p hp; omega,
            fun p hp => Or.inl ⟨p, hp, rfl⟩, by rw [al.size]; omega, by rw [al.lsize]; omega, al.op_old, al.lnk_old,
            fun x _ hx hu => al.unref_old x hx hu, al.single, ?_, ?_⟩
          · intro _ x y hx hxlt hxres _
            rw [al.size] at hxlt; omega
          · intro e he
            rw [al.op_new] at he; cases he
        have hnew : ((w1.newLink L).1.newOp { cls := .comp, link := (w1.newLink L).2, rep := (w.op o).rep }).1.op
            w.ops.size = { cls := .comp, link := (w1.newLink L).2, rep := (w.op o).rep } := al.op_new
        have base : TreeCopyInv w w.ops.size f (w.op o).rep
            ((w1.newLink L).1.newOp { cls := .comp, link := (w1.newLink L).2, rep := (w.op o).rep }).1 [] := by
          refine ⟨by rw [al.size]; omega, fun j hj => al.op_old j hj, ?_, by rw [hnew]; rfl, by rw [hnew], ?_, ?_, ?_, ?_⟩
          · show w1.rreg = w.rreg
            have := copyLink_rreg w (w.op o).link lk
            rw [hcl] at this
            exact this
          · unfold World.kids; rw [hnew]; exact Forest.nil _ _
          · intro n hn; unfold World.kids at hn; rw [hnew] at hn; cases hn
          · unfold World.kids; rw [hnew]; exact List.Perm.refl _
          · intro cnt; unfold World.kids; rw [hnew]; exact List.Perm.refl _
        have wbase : WInv w B w.ops.size f L
            ((w1.newLink L).1.newOp { cls := .comp, link := (w1.newLink L).2, rep := (w.op o).rep }).1 := by
          refine ⟨?_, ?_, ?_⟩
          · intro x y hx hxlt hxy
            rw [al.size] at hxlt
            have hxe : x = (w1.newLink L).1.ops.size := by omega
            subst hxe
            rcases dep_newOp_new _ _ hxy with h | ⟨_, e, he, _⟩
            · simp only at h
              rw [lnk_newLink_new] at h
              exact hLB y h
            · cases he
          · intro n hn; unfold World.kids at hn; rw [hnew] at hn; cases hn
          · rw [hnew]
            simp only
            rw [lnk_newOp, lnk_newLink_new]
        have hN : ∀ n ∈ listing (w.op o).graph,
            TreeBelow w f n ∧ SingleLink (w.lnk (w.op n).link) ∧ SingleUnder w f n := by
          intro n hn
          have hk : n ∈ w.kids o := (listing_perm _).mem_iff.mp hn
          exact ⟨ht.kid hcomp hk, (singleUnder_kid ht hcomp hsu hk).1, (singleUnder_kid ht hcomp hsu hk).2⟩
        obtain ⟨_, _, fin⟩ := walk_fold (rep := (w.op o).rep) rfl hc hB hlkB (by omega : f ≤ g)
          (fun w' o' lk' h1 h2 h3 h4 h5 h6 h7 => ih w' o' lk' g B h1 (by omega) h2 h3 h4 h5 h6 h7)
          (listing (w.op o).graph) (_, lk) [] inv0 base wbase hN
        refine ⟨fin.deps, ?_, ?_⟩
        · intro _ n hn
          exact fin.kids n hn
        · intro hsrc
          simp only
          rw [fin.reslink]
          exact hLs hsrc
      · have hleaf : (w.op o).isComp = false := by simpa using hcomp
        rw [Defined.copyObj_leaf' w g o lk hleaf] at tcs ⊢
        have hcl' : ∃ op : Op, op.link = (w1.newLink L).2 ∧ op.graph = [] ∧
            w.copyLeaf o lk = (w1.newLink L).1.newOp op := by
          unfold World.copyLeaf
          simp only [Cls.copyKeepsLink, if_true]
          rw [hcl]
          refine ⟨_, ?_, ?_, rfl⟩
          · rfl
          · exact copyFields_graph (w.op o)
        obtain ⟨op, hopl, hopg, hcl''⟩ := hcl'
        rw [hcl''] at tcs ⊢
        have al := alloc_spec hs hc ha hlk L hL op hopl hopg (fun h => hLs (h _))
        have hnewid : ((w1.newLink L).1.newOp op).2 = w.ops.size := by show w1.ops.size = _; rw [hs.1]
        rw [hnewid] at tcs ⊢
        have hkind : (((w1.newLink L).1.newOp op).1.op w.ops.size).isComp = false := by
          have := tcs.kind
          simp only at this
          rw [this]; exact hleaf
        refine ⟨?_, nested_leaf _ _ _ hkind, ?_⟩
        · intro x y hx hxlt hxy
          have hxlt' : x < ((w1.newLink L).1.newOp op).1.ops.size := hxlt
          rw [al.size] at hxlt'
          have hxe : x = (w1.newLink L).1.ops.size := by omega
          subst hxe
          have hxy' : Dep ((w1.newLink L).1.newOp op).1 (w1.newLink L).1.ops.size y := hxy
          rcases dep_newOp_new _ _ hxy' with h | ⟨_, e, he, _⟩
          · rw [hopl, lnk_newLink_new] at h
            exact hLB y h
          · rw [hopg] at he; cases he
        · intro hsrc
          show SingleLink (((w1.newLink L).1.newOp op).1.lnk (((w1.newLink L).1.newOp op).1.op w.ops.size).link)
          rw [al.op_new, hopl, lnk_newOp, lnk_newLink_new]
          exact hLs hsrc

/-- `copy()` (empty lookup, fuel `depthFuel`): the new objects form a component of their own. -/
theorem copy_fresh {w : World} {f o : Nat} (ht : TreeBelow w f o) (hf : f ≤ w.depthFuel) (hc : Closed w)
    (ha : Acyclic w) (hsu : SingleUnder w f o) :
    (∀ x y, w.ops.size ≤ x → x < (w.copy o).1.ops.size → Dep (w.copy o).1 x y → w.ops.size ≤ y) ∧
    Nested (w.copy o).1 f (w.copy o).2 := by
  have := copyObj_fresh f w o [] w.depthFuel w.ops.size ht hf hc ha (fun p hp => by cases hp) (Nat.le_refl _)
    (fun p hp => by cases hp) hsu
  exact ⟨this.deps, this.nested⟩

end Qco.DefinedUnroll
