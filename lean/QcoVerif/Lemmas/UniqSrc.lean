import QcoVerif.Model.Ident
import QcoVerif.Lemmas.ScanSrc
/-
  C19 — source tie of `unique_in_order` (utilities/array_manipulation.py): the loop over a growing `seen` set, as written,
  computes the model's `uniqueLoop` (hence `uniqueInOrder`, by `C19.uniqueLoop_eq_uniqueInOrder`).  A set the function only adds to
  and asks membership of is translated as the list of the elements added (tools/pylean.py).  Core Lean only.
-/
set_option linter.unusedSimpArgs false
namespace Qco.UniqSrc
open Qco Qco.Py Qco.Gen.PySrc Qco.TimingSrc Qco.ScanSrc

def body : List Stmt :=
  [.ifs (.cmp .notIn (.name "item") (.name "seen"))
     [.aug "seen" .add (.list [.name "item"]), .aug "result" .add (.list [.name "item"])] []]

theorem memVal_ints (l : List Int) (e : Int) : memVal (Val.int e) (l.map Val.int) = l.any (fun s => s == e) := by
  unfold memVal
  induction l with
  | nil => rfl
  | cons a as ih =>
    simp only [List.map_cons, List.any_cons, ih]
    rfl

/-- the loop: `seen` and `result` both hold `acc`; after the loop they hold `uniqueLoopAux (· == ·) acc l`. -/
theorem uniq_loop : ∀ (l acc : List Int) (vs : Vars),
    vs.get "seen" = ints acc → vs.get "result" = ints acc →
    ∃ vs', forLoop (fun vs' v => execBlock {} (vs'.set "item" v) body) (l.map Val.int) vs = .cont vs' ∧
      vs'.get "result" = ints (uniqueLoopAux (fun s x => s == x) acc l) := by
  intro l
  induction l with
  | nil => intro acc vs _ hr; exact ⟨vs, rfl, hr⟩
  | cons x xs ih =>
    intro acc vs hs hr
    have hs' : (vs.set "item" (Val.int x)).get "seen" = ints acc := by rw [get_set_ne _ _ _ _ (by decide)]; exact hs
    have hr' : (vs.set "item" (Val.int x)).get "result" = ints acc := by rw [get_set_ne _ _ _ _ (by decide)]; exact hr
    cases hm : acc.any (fun s => s == x)
    · -- not seen: both lists grow
      have hstep : execBlock {} (vs.set "item" (Val.int x)) body =
          .cont (((vs.set "item" (Val.int x)).set "seen" (ints (acc ++ [x]))).set "result" (ints (acc ++ [x]))) := by
        simp [body, execBlock, exec, eval, evalList, vars_get_set_same, hs', hr', evalCmp, ints, Val.elems?, memVal_ints, hm,
          Val.truthy, evalBin, Val.isErr, get_set_ne]
      have := ih (acc ++ [x]) (((vs.set "item" (Val.int x)).set "seen" (ints (acc ++ [x]))).set "result" (ints (acc ++ [x])))
        (by rw [get_set_ne _ _ _ _ (by decide), vars_get_set_same]) (vars_get_set_same _ _ _)
      obtain ⟨vs', h1, h2⟩ := this
      refine ⟨vs', ?_, ?_⟩
      · simp only [List.map_cons, forLoop, hstep]; exact h1
      · simp only [uniqueLoopAux, hm]; exact h2
    · have hstep : execBlock {} (vs.set "item" (Val.int x)) body = .cont (vs.set "item" (Val.int x)) := by
        simp [body, execBlock, exec, eval, evalList, vars_get_set_same, hs', evalCmp, ints, Val.elems?, memVal_ints, hm, Val.truthy]
      obtain ⟨vs', h1, h2⟩ := ih acc _ hs' hr'
      refine ⟨vs', ?_, ?_⟩
      · simp only [List.map_cons, forLoop, hstep]; exact h1
      · simp only [uniqueLoopAux, hm]; exact h2

/-- **`unique_in_order` as written** returns, for every list of integers, the model's `uniqueLoop` with `==` as the set's test. -/
theorem unique_in_order_matches_source (l : List Int) :
    callFn {} Util_unique_in_order [ints l] = ints (uniqueLoop (fun s x => s == x) l) := by
  have hbody : Util_unique_in_order.body =
      [.assign "seen" (.call "set" []), .assign "result" (.list []), .for_ "item" (.name "iterable") body, .ret (.name "result")] := rfl
  let vs0 : Vars := ((Vars.set [] "iterable" (ints l)).set "seen" (ints [])).set "result" (ints [])
  have h0 : execBlock {} (Vars.set [] "iterable" (ints l)) Util_unique_in_order.body =
      execBlock {} vs0 [.for_ "item" (.name "iterable") body, .ret (.name "result")] := by
    rw [hbody]
    simp [execBlock, exec, eval, evalList, builtin, Val.isErr, ints, vs0]
  have hiter : (eval {} vs0 (.name "iterable")).elems? = some (l.map Val.int) := by
    simp [eval, vs0, get_set_ne, vars_get_set_same, ints, Val.elems?]
  obtain ⟨vs', h1, h2⟩ := uniq_loop l [] vs0
    (by simp only [vs0]; rw [get_set_ne _ _ _ _ (by decide), vars_get_set_same]) (by simp only [vs0]; exact vars_get_set_same _ _ _)
  have hp : Util_unique_in_order.params = ["iterable"] := rfl
  simp only [callFn, hp, List.length, bindParams]
  rw [show (1 != 1) = false from rfl]
  simp only [Bool.false_eq_true, if_false]
  rw [h0, execBlock_for _ _ _ _ _ _ _ hiter, h1]
  simp [execBlock, exec, eval, h2, uniqueLoop]

end Qco.UniqSrc
