import QcoVerif.Model.Connectivity
/-
  Stateless driver module `conn`: `handle args` answers one line.

  Tokens: qubit = its index in `Surface17Layer().qubit_ids`; edge = `a-b` (qubit_id0-qubit_id1, orientation kept);
  operation = `i:q` (idle) | `p:q` (park) | `g:a-b` (gate); lists = comma separated, `-` = empty list.
  Booleans answer `1`/`0`.  Malformed input answers `bad-arg`, unknown query `bad-op`.

  Table queries (cover the translator):   qubits | edges | edgenames | freq | parity | feedlines | layouts | layout <i>
  Device logic:                            higher a b | lower a b | getedges q | neighbors q | eneighbors e | moving q e
  C16 model:                               parking q e… | parkset e… | idle q e… | possible q | forbidden op q |
                                           allowedops op | allowed e… | allowedmix op… | combsize n k | subgroups n k |
                                           gen k [max=<n>] e…
  C16 specification predicates:            spec-accepted e… | spec-pairok e f | spec-parking q e… | spec-parkset e… |
                                           spec-level e | spec-adjacent a b | spec-seq k n=<n> <seq> e…
  C17 model:                               derived <layout> <involved> [map=q:i,q:i…] | composite <layout> <involved>
                                           xe=<edges> xq=<qubits> req=<0|1> lead=<involved'|none>
  C17 specification predicates:            spec-layer <gates> <parks> | spec-layout <i> | spec-covered <layout>
-/
namespace Qco.Driver.Conn
open Qco.Conn

def b2s (b : Bool) : String := if b then "1" else "0"

def joinWith (sep : String) (l : List String) : String := sep.intercalate l

def natList (l : List Nat) : String := if l.isEmpty then "-" else joinWith "," (l.map toString)

def edgeStr (e : Edge) : String := s!"{e.1}-{e.2}"

def edgeList (l : List Edge) : String := if l.isEmpty then "-" else joinWith "," (l.map edgeStr)

def opStr : Op → String
  | .idle q => s!"i:{q}"
  | .park q => s!"p:{q}"
  | .gate e => s!"g:{edgeStr e}"

def opList (l : List Op) : String := if l.isEmpty then "-" else joinWith "," (l.map opStr)

def parseQubit (s : String) : Option Nat := s.toNat?

def parseEdge (s : String) : Option Edge :=
  match s.splitOn "-" with
  | [a, b] => match a.toNat?, b.toNat? with
    | some x, some y => some (x, y)
    | _, _ => none
  | _ => none

def parseAll {α} (f : String → Option α) : List String → Option (List α)
  | [] => some []
  | x :: xs => match f x, parseAll f xs with
    | some y, some ys => some (y :: ys)
    | _, _ => none

def parseCsv {α} (f : String → Option α) (s : String) : Option (List α) :=
  if s == "-" || s == "" then some [] else parseAll f (s.splitOn ",")

def parseOp (s : String) : Option Op :=
  match s.splitOn ":" with
  | ["i", q] => (parseQubit q).map Op.idle
  | ["p", q] => (parseQubit q).map Op.park
  | ["g", e] => (parseEdge e).map Op.gate
  | _ => none

def parsePair (s : String) : Option (Nat × Nat) :=
  match s.splitOn ":" with
  | [a, b] => match a.toNat?, b.toNat? with
    | some x, some y => some (x, y)
    | _, _ => none
  | _ => none

/-- qubits must be device qubits: the code raises KeyError otherwise (totalised in the model) -/
def qOk (q : Nat) : Bool := q < nQubits
def eOk (e : Edge) : Bool := qOk e.1 && qOk e.2
def opOk : Op → Bool
  | .idle q => qOk q
  | .park q => qOk q
  | .gate e => eOk e

def parityStr (l : List Parity) : String :=
  if l.isEmpty then "-" else joinWith ";" (l.map (fun p => s!"{p.1}:{p.2.1}:{natList p.2.2}"))

def layerStr (l : Layer) : String := s!"g={edgeList l.1} p={natList l.2}"

def layersStr (l : List Layer) : String := if l.isEmpty then "-" else joinWith "|" (l.map layerStr)

def seqStr (s : List (List Nat)) : String := if s.isEmpty then "-" else joinWith ";" (s.map natList)

def seqsStr (l : List (List (List Nat))) : String := if l.isEmpty then "none" else joinWith "|" (l.map seqStr)

def parseSeq (s : String) : Option (List (List Nat)) :=
  if s == "-" then some [] else parseAll (parseCsv parseQubit) (s.splitOn ";")

def optStr {α} (f : α → String) : Option α → String
  | none => "keyerror"
  | some x => f x

def pairList (l : List (Nat × Nat)) : String :=
  if l.isEmpty then "-" else joinWith "," (l.map (fun p => s!"{p.1}:{p.2}"))

/-- everything the harness observes of a description: ids, layers, the four getters -/
def descStr (d : Desc) : String :=
  let n := d.layers.length
  let gidx := (List.range (n + 1)).map (fun i =>
    match gateSequenceIndices d.index d.layers i with
    | none => "None"
    | some r => optStr pairList r)
  let pidx := (List.range (n + 1)).map (fun i =>
    match parkSequenceIndices d.index d.qubitIds d.layers i with
    | none => "None"
    | some r => optStr natList r)
  s!"data={natList d.dataIds} anc={natList d.ancillaIds} ids={natList d.qubitIds} layers={layersStr d.layers} " ++
  s!"gidx={joinWith "|" gidx} pidx={joinWith "|" pidx} cmap={optStr pairList d.channelMap}"

/-- flags of `Spec.layerOk`, in the order edges, distinct, parkedNotGated, requiredParked, accepted -/
def layerFlags (l : Layer) : String :=
  joinWith "" [b2s (Spec.layerGatesAreEdges l), b2s (Spec.layerQubitsDistinct l), b2s (Spec.layerParkedNotGated l),
    b2s (Spec.layerRequiredParked l), b2s (Spec.layerAccepted l)]

/-- the soundness predicate of a generated sequence: steps of size k, each index exactly once, every step accepted
(by the specification predicate) -/
def seqSound (es : List Edge) (k : Nat) (seq : List (List Nat)) : Bool :=
  seq.all (fun st => st.length == k) &&
  (isort natLe seq.flatten == List.range es.length) &&
  seq.all (fun st => Spec.accepted (st.map (fun i => es.getD i (0, 0))))

def keyVal (key : String) (s : String) : Option String :=
  if s.startsWith (key ++ "=") then some ((s.drop (key.length + 1)).toString) else none

def withEdges (rest : List String) (f : List Edge → String) : String :=
  match parseAll parseEdge rest with
  | some es => if es.all eOk then f es else "bad-arg"
  | none => "bad-arg"

def withQubitEdges (rest : List String) (f : Nat → List Edge → String) : String :=
  match rest with
  | q :: es => match parseQubit q, parseAll parseEdge es with
    | some q, some es => if qOk q && es.all eOk then f q es else "bad-arg"
    | _, _ => "bad-arg"
  | _ => "bad-arg"

def withLayout (tok : String) (f : Layout → String) : String :=
  match tok.toNat? with
  | some i => match layouts[i]? with
    | some L => f L
    | none => "bad-arg"
  | none => "bad-arg"

def handle (args : List String) : String :=
  match args with
  -- tables
  | ["qubits"] => joinWith "," qubitNames
  | ["edges"] => edgeList deviceEdges
  | ["edgenames"] => joinWith "," Gen.Surface17.edgeNames
  | ["freq"] => natList (qubitIds.map (fun q => (freqOf q).code))
  | ["parity"] => s!"x={parityStr Gen.Surface17.parityX} z={parityStr Gen.Surface17.parityZ}"
  | ["feedlines"] => joinWith ";" (Gen.Surface17.feedlines.map (fun f => s!"{f.1}:{natList f.2}"))
  | ["layouts"] => joinWith "," ((layouts.map (·.name)) ++ Gen.Layouts.extraNames.map (fun n => "extra:" ++ n))
  | ["layout", i] => withLayout i (fun L =>
      s!"name={L.name} layers={layersStr L.layers} x={parityStr L.parityX} z={parityStr L.parityZ} " ++
      s!"data={natList L.dataIds} anc={natList L.ancillaIds}")
  -- device logic
  | ["higher", a, b] => match a.toNat?, b.toNat? with
    | some a, some b => if a < 3 && b < 3 then b2s ((Freq.ofCode a).isHigher (Freq.ofCode b)) else "bad-arg"
    | _, _ => "bad-arg"
  | ["lower", a, b] => match a.toNat?, b.toNat? with
    | some a, some b => if a < 3 && b < 3 then b2s ((Freq.ofCode a).isLower (Freq.ofCode b)) else "bad-arg"
    | _, _ => "bad-arg"
  | ["getedges", q] => match parseQubit q with
    | some q => if qOk q then edgeList (getEdges q) else "bad-arg"
    | none => "bad-arg"
  | ["neighbors", q] => match parseQubit q with
    | some q => if qOk q then natList (neighbors q) else "bad-arg"
    | none => "bad-arg"
  | ["eneighbors", e] => withEdges [e] (fun es => natList (edgeNeighbors (es.headD (0, 0))))
  | ["moving", q, e] => withQubitEdges [q, e] (fun q es => b2s (onMovingSide q (es.headD (0, 0))))
  -- C16 model
  | "parking" :: rest => withQubitEdges rest (fun q es => b2s (requiresParking q es))
  | "parkset" :: rest => withEdges rest (fun es => natList (qubitIds.filter (fun q => requiresParking q es)))
  | "idle" :: rest => withQubitEdges rest (fun q es => b2s (requiresIdle q es))
  | ["possible", q] => match parseQubit q with
    | some q => if qOk q then opList (possibleOps q) else "bad-arg"
    | none => "bad-arg"
  | ["forbidden", op, q] => match parseOp op, parseQubit q with
    | some op, some q => if opOk op && qOk q then opList (forbiddenOps op q) else "bad-arg"
    | _, _ => "bad-arg"
  | ["allowedops", op] => match parseOp op with
    | some op => if opOk op then opList (allowedOps op) else "bad-arg"
    | none => "bad-arg"
  | "allowed" :: rest => withEdges rest (fun es => b2s (allowedGates es))
  | "allowedmix" :: rest => match parseAll parseOp rest with
    | some ops => if ops.all opOk then b2s (mutuallyAllowed ops) else "bad-arg"
    | none => "bad-arg"
  | ["combsize", n, k] => match n.toNat?, k.toNat? with
    | some n, some k => if k == 0 then "zerodivision" else toString (combinationSize n k)
    | _, _ => "bad-arg"
  | ["subgroups", n, k] => match n.toNat?, k.toNat? with
    | some n, some k => if k == 0 then "bad-arg" else seqsStr (subgroupCombinations (List.range n) k)
    | _, _ => "bad-arg"
  | "gen" :: k :: rest =>
    let (mx, rest) := match rest with
      | m :: r => match (keyVal "max" m).bind (·.toNat?) with
        | some v => (v, r)
        | none => (20000, m :: r)
      | [] => (20000, [])
    match k.toNat? with
    | some k => if k == 0 then "bad-arg" else withEdges rest (fun es =>
        match constructAllowed es k mx with
        | none => "exceed"
        | some l => seqsStr l)
    | none => "bad-arg"
  -- C16 specification predicates
  | "spec-accepted" :: rest => withEdges rest (fun es => b2s (Spec.accepted es))
  | ["spec-pairok", e, f] => withEdges [e, f] (fun es => b2s (Spec.pairOk (es.getD 0 (0, 0)) (es.getD 1 (0, 0))))
  | "spec-parking" :: rest => withQubitEdges rest (fun q es => b2s (Spec.needsParking q es))
  | "spec-parkset" :: rest => withEdges rest (fun es => natList (qubitIds.filter (fun q => Spec.needsParking q es)))
  | ["spec-level", e] => withEdges [e] (fun es => toString (Spec.level (es.headD (0, 0))))
  | ["spec-adjacent", a, b] => match parseQubit a, parseQubit b with
    | some a, some b => b2s (Spec.adjacent a b)
    | _, _ => "bad-arg"
  | "spec-seq" :: k :: seq :: rest => match k.toNat?, parseSeq seq with
    | some k, some seq => withEdges rest (fun es => b2s (seqSound es k seq))
    | _, _ => "bad-arg"
  -- C17 model
  | "derived" :: lay :: inv :: rest => withLayout lay (fun L =>
      match parseCsv parseQubit inv with
      | none => "bad-arg"
      | some inv =>
        let mp : Option (Option (List (Nat × Nat))) := match rest with
          | [] => some none
          | [m] => match (keyVal "map" m).bind (parseCsv parsePair) with
            | some l => some (some l)
            | none => none
          | _ => none
        match mp with
        | none => "bad-arg"
        | some mp => if inv.all qOk then descStr (fromConnectivity L inv mp) else "bad-arg")
  | ["composite", lay, inv, xe, xq, req, lead] => withLayout lay (fun L =>
      let leadInv : Option (Option (List Nat)) := match keyVal "lead" lead with
        | some "none" => some none
        | some l => (parseCsv parseQubit l).map some
        | none => none
      match parseCsv parseQubit inv, (keyVal "xe" xe).bind (parseCsv parseEdge), (keyVal "xq" xq).bind (parseCsv parseQubit),
            keyVal "req" req, leadInv with
      | some inv, some xe, some xq, some req, some leadInv =>
        if inv.all qOk && xe.all eOk && xq.all qOk && (leadInv.getD []).all qOk then
          let base := fromConnectivity L inv
          let leadDesc := leadInv.map (fun i => fromConnectivity L i)
          let layers := compositeLayers ((leadDesc.getD base).layers) xe xq (req == "1")
          let ids := compositeQubitIds base.qubitIds (leadDesc.map (·.qubitIds))
          -- the harness passes `_qubit_index_map` = positions in unique_in_order(involved ++ leading involved)
          let index := lookupLast (enumFrom 0 (uniqueInOrder qEq (inv ++ leadInv.getD [])))
          let n := layers.length
          let gidx := (List.range (n + 1)).map (fun i => match gateSequenceIndices index layers i with
            | none => "None"
            | some r => optStr pairList r)
          let pidx := (List.range (n + 1)).map (fun i => match parkSequenceIndices index ids layers i with
            | none => "None"
            | some r => optStr natList r)
          s!"ids={natList ids} layers={layersStr layers} gidx={joinWith "|" gidx} pidx={joinWith "|" pidx} " ++
          s!"cmap={optStr pairList (buildChannelMap index [] ids)}"
        else "bad-arg"
      | _, _, _, _, _ => "bad-arg")
  -- C17 specification predicates
  | ["spec-layer", g, p] => match (keyVal "g" g).bind (parseCsv parseEdge), (keyVal "p" p).bind (parseCsv parseQubit) with
    | some g, some p => if g.all eOk && p.all qOk then layerFlags (g, p) else "bad-arg"
    | _, _ => "bad-arg"
  | ["spec-layout", i] => withLayout i (fun L => joinWith "," (L.layers.map layerFlags))
  | ["spec-covered", i] => withLayout i (fun L => b2s (Spec.parityCovered L.parity L.layers))
  | _ => "bad-op"

end Qco.Driver.Conn
