/-
  Model of the acquisition index kernels of `qce_circuit.structure.acquisition_indexing`
  (`kernel_repetition_code.py`, `kernel_calibration.py`, `intrf_index_strategy.py`, `intrf_index_kernel.py`).
  Core Lean only (no Mathlib): the driver links this file.

  The model follows the code line by line; where the code is odd the model is odd in the same way:
    * `_exclusive_start_index = start_index - 1` (so indices are `Int`, the first exclusive start is `-1`);
    * an ancilla has NO final index in a kernel of 0 rounds although the kernel is one slot long
      (`zero_qec_cycle_exception`): the "missing slot";
    * with `qutrit_calibration_points = False` (repair R22, /repo b0b4ce2) the calibration kernel is still constructed
      but is not one of the `indexing_kernels` (so the cycle ends with the last repetition kernel) and the two
      calibration getters return an empty array before anything else is looked at;
    * `RepetitionExperimentKernel.stop_index = start + repetitions * cycle` is one PAST the last index (the kernels
      it is made of use inclusive stop indices), hence the inherited `kernel_length` is `repetitions * cycle + 1`;
    * an empty rounds list raises `IndexError` (`self._repetition_kernels[-1]`): `ExpKernel.new? = none`;
    * the getters look up the FIRST kernel whose round count matches (`for … if … return`).
  Qubit identifiers are natural numbers (the code only ever tests `element in list`).
-/
namespace Qco.Kernel

abbrev QId := Nat

/-! ### `intrf_index_strategy.py` -/

/-- `IIndexStrategy`. A `RelativeIndexStrategy` holds a reference kernel of which `get_index` reads nothing but
`stop_index`; all kernels are frozen, so the reference is represented by that value. -/
inductive Strategy
  | fixed (index : Int)
  | relative (refStop : Int)
  deriving Repr, DecidableEq, Inhabited

/-- `get_index(task)`: `FixedIndexStrategy` → `index`; `RelativeIndexStrategy` → `reference.stop_index + 1`. -/
def Strategy.getIndex : Strategy → Int
  | .fixed i => i
  | .relative s => s + 1

/-- `StateKey`. -/
inductive StateKey | s0 | s1 | s2
  deriving Repr, DecidableEq, Inhabited

/-! ### `RepetitionIndexKernel` -/

structure RepKernel where
  nr : Nat                 -- nr_repeated_parities (the properties quantify over rounds ≥ 0)
  heralded : Bool          -- heralded_initialization
  strategy : Strategy      -- index_offset_strategy
  dataIds : List QId       -- involved_data_qubit_ids
  ancIds : List QId        -- involved_ancilla_qubit_ids
  deriving Repr, Inhabited

namespace RepKernel

def startIndex (k : RepKernel) : Int := k.strategy.getIndex
def exclStart (k : RepKernel) : Int := k.startIndex - 1
/-- `index_delta_heralded_initialization` -/
def dHer (k : RepKernel) : Int := if k.heralded then 1 else 0
/-- `index_delta_stabilizer_measurements = max(0, nr - 1)` -/
def dStab (k : RepKernel) : Int := max 0 ((k.nr : Int) - 1)
/-- `index_delta_final_measurement` -/
def dFinal (_k : RepKernel) : Int := 1
def stopIndex (k : RepKernel) : Int := k.exclStart + (k.dHer + k.dStab + k.dFinal)
/-- `IIndexingKernel.kernel_length` -/
def kernelLength (k : RepKernel) : Int := k.stopIndex - k.startIndex + 1
/-- `involved_qubit_ids` -/
def involved (k : RepKernel) : List QId := k.dataIds ++ k.ancIds

/-- `get_heralded_measurement_index` -/
def heraldedIdx (k : RepKernel) (e : QId) : List Int :=
  if e ∉ k.involved then []
  else if k.heralded = false then []
  else [k.exclStart + k.dHer]

/-- `get_ordered_stabilizer_measurement_indices`: `exclusive_start + delta_heralded + range(1, nr)`. -/
def stabIdx (k : RepKernel) (e : QId) : List Int :=
  if e ∉ k.ancIds then []
  else if k.nr = 1 then []
  else (List.range' 1 (k.nr - 1)).map (fun (i : Nat) => k.exclStart + k.dHer + (i : Int))

/-- `get_final_measurement_index`, with the `zero_qec_cycle_exception`. -/
def finalIdx (k : RepKernel) (e : QId) : List Int :=
  if e ∉ k.involved then []
  else if e ∈ k.ancIds ∧ k.nr = 0 then []
  else [k.exclStart + k.dHer + k.dStab + k.dFinal]

end RepKernel

/-- Python's `sorted` on a list of integers (insertion sort; only the result matters). -/
def insertSorted (x : Int) : List Int → List Int
  | [] => [x]
  | y :: ys => if x ≤ y then x :: y :: ys else y :: insertSorted x ys

def sortInts (l : List Int) : List Int := l.foldr insertSorted []

/-- `RepetitionIndexKernel.contains` -/
def RepKernel.contains (k : RepKernel) (e : QId) : List Int :=
  sortInts (k.heraldedIdx e ++ k.stabIdx e ++ k.finalIdx e)

/-! ### `QutritCalibrationIndexKernel` -/

structure CalKernel where
  heralded : Bool
  strategy : Strategy
  ids : List QId           -- involved_qubit_ids
  deriving Repr, Inhabited

namespace CalKernel

def startIndex (c : CalKernel) : Int := c.strategy.getIndex
def exclStart (c : CalKernel) : Int := c.startIndex - 1
def dHer (c : CalKernel) : Int := if c.heralded then 1 else 0
def d0 (_c : CalKernel) : Int := 1
def d1 (_c : CalKernel) : Int := 1
def d2 (_c : CalKernel) : Int := 1
def stopIndex (c : CalKernel) : Int := c.exclStart + (3 * c.dHer + c.d0 + c.d1 + c.d2)
def kernelLength (c : CalKernel) : Int := c.stopIndex - c.startIndex + 1

/-- the common guard of the three `get_heralded_state_*_measurement_index` -/
def heraldedGuard (c : CalKernel) (e : QId) (x : Int) : List Int :=
  if e ∉ c.ids then [] else if c.heralded = false then [] else [x]

/-- the common guard of the three `get_state_*_measurement_index` -/
def stateGuard (c : CalKernel) (e : QId) (x : Int) : List Int :=
  if e ∉ c.ids then [] else [x]

def heralded0 (c : CalKernel) (e : QId) : List Int := c.heraldedGuard e (c.exclStart + c.dHer)
def heralded1 (c : CalKernel) (e : QId) : List Int := c.heraldedGuard e (c.exclStart + 2 * c.dHer + c.d0)
def heralded2 (c : CalKernel) (e : QId) : List Int := c.heraldedGuard e (c.exclStart + 3 * c.dHer + c.d0 + c.d1)
def state0 (c : CalKernel) (e : QId) : List Int := c.stateGuard e (c.exclStart + c.dHer + c.d0)
def state1 (c : CalKernel) (e : QId) : List Int := c.stateGuard e (c.exclStart + 2 * c.dHer + c.d0 + c.d1)
def state2 (c : CalKernel) (e : QId) : List Int := c.stateGuard e (c.exclStart + 3 * c.dHer + c.d0 + c.d1 + c.d2)

/-- dispatch on the state key as the experiment kernel does -/
def heraldedState (c : CalKernel) (s : StateKey) (e : QId) : List Int :=
  match s with | .s0 => c.heralded0 e | .s1 => c.heralded1 e | .s2 => c.heralded2 e

def projectedState (c : CalKernel) (s : StateKey) (e : QId) : List Int :=
  match s with | .s0 => c.state0 e | .s1 => c.state1 e | .s2 => c.state2 e

/-- `QutritCalibrationIndexKernel.contains` -/
def contains (c : CalKernel) (e : QId) : List Int :=
  sortInts (c.heralded0 e ++ c.heralded1 e ++ c.heralded2 e ++ c.state0 e ++ c.state1 e ++ c.state2 e)

end CalKernel

/-! ### `RepetitionExperimentKernel` -/

/-- The constructor's loop: the first kernel gets `FixedIndexStrategy(0)`, every later one
`RelativeIndexStrategy(previous kernel)`. `strat` is the strategy of the next kernel to be made. -/
def buildReps (h : Bool) (data anc : List QId) : Strategy → List Nat → List RepKernel
  | _, [] => []
  | strat, r :: rs =>
    let k : RepKernel := { nr := r, heralded := h, strategy := strat, dataIds := data, ancIds := anc }
    k :: buildReps h data anc (.relative k.stopIndex) rs

structure ExpKernel where
  rounds : List Nat
  heralded : Bool
  qutrit : Bool            -- `_qutrit_calibration_points`
  dataIds : List QId
  ancIds : List QId
  reps : Nat               -- experiment_repetitions
  repKernels : List RepKernel
  calKernel : CalKernel
  deriving Repr, Inhabited

/-- `RepetitionExperimentKernel.__init__`. `none` = `IndexError` (`self._repetition_kernels[-1]` on an empty list). -/
def ExpKernel.new? (rounds : List Nat) (h q : Bool) (data anc : List QId) (reps : Nat) : Option ExpKernel :=
  let ks := buildReps h data anc (.fixed 0) rounds
  match ks.getLast? with
  | none => none
  | some last => some
    { rounds := rounds, heralded := h, qutrit := q, dataIds := data, ancIds := anc, reps := reps,
      repKernels := ks,
      calKernel := { heralded := h, strategy := .relative last.stopIndex, ids := data ++ anc } }

/-- an element of `indexing_kernels` -/
inductive IKernel
  | rep (k : RepKernel)
  | cal (c : CalKernel)
  deriving Repr, Inhabited

def IKernel.startIndex : IKernel → Int
  | .rep k => k.startIndex
  | .cal c => c.startIndex

def IKernel.stopIndex : IKernel → Int
  | .rep k => k.stopIndex
  | .cal c => c.stopIndex

/-- `create_sliced_arrays`: `[int_list + i * cycle_length for i in range(repetitions)]` -/
def slicedArrays (l : List Int) (cycle : Int) (reps : Nat) : List (List Int) :=
  (List.range reps).map (fun (i : Nat) => l.map (fun x => x + (i : Int) * cycle))

/-- `create_sliced_array`: `np.concatenate` of the above (raises `ValueError` for 0 repetitions, see `calRaises`). -/
def slicedArray (l : List Int) (cycle : Int) (reps : Nat) : List Int :=
  (slicedArrays l cycle reps).flatten

namespace ExpKernel

/-- `indexing_kernels = repetition_kernels + ([calibration_kernel] if qutrit_calibration_points else [])` -/
def indexingKernels (K : ExpKernel) : List IKernel :=
  K.repKernels.map .rep ++ (if K.qutrit then [.cal K.calKernel] else [])

/-- `(start_index, stop_index)` of every indexing kernel, in order -/
def spans (K : ExpKernel) : List (Int × Int) :=
  K.indexingKernels.map (fun k => (k.startIndex, k.stopIndex))

/-- `indexing_kernels[0].start_index` -/
def startIndex (K : ExpKernel) : Int :=
  match K.indexingKernels with
  | k :: _ => k.startIndex
  | [] => 0   -- unreachable: the constructor raised on an empty rounds list

/-- `indexing_kernels[-1].stop_index` -/
def lastStopIndex (K : ExpKernel) : Int :=
  match K.indexingKernels.getLast? with
  | some k => k.stopIndex
  | none => 0   -- unreachable, as above

/-- `indexing_kernels[-1].stop_index - indexing_kernels[0].start_index + 1` -/
def cycleLength (K : ExpKernel) : Int :=
  K.lastStopIndex - K.startIndex + 1

/-- `start_index + experiment_repetitions * kernel_cycle_length` (one past the last index!) -/
def stopIndex (K : ExpKernel) : Int := K.startIndex + (K.reps : Int) * K.cycleLength

/-- inherited `IIndexingKernel.kernel_length = stop_index - start_index + 1` -/
def kernelLength (K : ExpKernel) : Int := K.stopIndex - K.startIndex + 1

/-- `for repetition_kernel in self._repetition_kernels: if repetition_kernel.nr_repeated_parities == count` -/
def findKernel (K : ExpKernel) (count : Nat) : Option RepKernel :=
  K.repKernels.find? (fun k => k.nr == count)

/-- `get_heralded_cycle_acquisition_indices`; `none` = the empty 1-d array of "kernel not found". -/
def heraldedCycle (K : ExpKernel) (e : QId) (count : Nat) : Option (List (List Int)) :=
  (K.findKernel count).map (fun k => slicedArrays (k.heraldedIdx e) K.cycleLength K.reps)

/-- `get_stabilizer_and_projected_cycle_acquisition_indices` -/
def stabilizerAndProjectedCycle (K : ExpKernel) (e : QId) (count : Nat) : Option (List (List Int)) :=
  (K.findKernel count).map (fun k => slicedArrays (k.stabIdx e ++ k.finalIdx e) K.cycleLength K.reps)

/-- `get_projected_cycle_acquisition_indices` -/
def projectedCycle (K : ExpKernel) (e : QId) (count : Nat) : Option (List (List Int)) :=
  (K.findKernel count).map (fun k => slicedArrays (k.finalIdx e) K.cycleLength K.reps)

/-- `get_projected_calibration_acquisition_indices` -/
def projectedCalibration (K : ExpKernel) (e : QId) (s : StateKey) : List Int :=
  if K.qutrit then slicedArray (K.calKernel.projectedState s e) K.cycleLength K.reps
  else []   -- guard clause: `np.asarray([], dtype=int)`

/-- `get_heralded_calibration_acquisition_indices` -/
def heraldedCalibration (K : ExpKernel) (e : QId) (s : StateKey) : List Int :=
  if K.qutrit then slicedArray (K.calKernel.heraldedState s e) K.cycleLength K.reps
  else []

/-- the two calibration getters raise (`np.concatenate` of nothing) iff there are 0 repetitions — and the flag is
set (the guard clause returns first) -/
def calRaises (K : ExpKernel) : Bool := K.qutrit && K.reps == 0

/-- every index the kernels of ONE cycle attribute to qubit `e`, kernel by kernel, category by category -/
def cycleIndices (K : ExpKernel) (e : QId) : List Int :=
  (K.repKernels.map (fun k => k.heraldedIdx e ++ k.stabIdx e ++ k.finalIdx e)).flatten
    ++ (if K.qutrit then
          K.calKernel.heralded0 e ++ K.calKernel.state0 e ++ K.calKernel.heralded1 e ++ K.calKernel.state1 e
            ++ K.calKernel.heralded2 e ++ K.calKernel.state2 e
        else [])

end ExpKernel

/-! ### `estimate_experiment_repetitions` -/

/-- `2^53`: below it every natural number is a float and `int(a / b)` is exact whenever `b` divides `a`. -/
def floatExactBound : Nat := 9007199254740992

/-- cycle length as computed inside `estimate_experiment_repetitions` (the calibration kernel only if the flag is
set). `none` = `IndexError` on an empty rounds list. -/
def estimateCycle? (rounds : List Nat) (h q : Bool) : Option Int :=
  let ks := buildReps h [] [] (.fixed 0) rounds
  match ks.head?, ks.getLast? with
  | some first, some last =>
    let lastStop : Int :=
      if q then (CalKernel.mk h (.relative last.stopIndex) []).stopIndex else last.stopIndex
    some (lastStop - first.startIndex + 1)
  | _, _ => none

inductive Estimate
  | value (n : Nat)
  | assertionError
  | indexError
  /-- `dataset_size ≥ 2^53`: the float division of the code is not modelled; there the code either returns the exact
  quotient or trips its own assertion (checked by the harness, not claimed by the model). -/
  | inexact
  deriving Repr, DecidableEq, Inhabited

/-- `nr = int(dataset_size / cycle); assert dataset_size == nr * cycle; return nr`, on naturals. -/
def estimate (rounds : List Nat) (h q : Bool) (dataset : Nat) : Estimate :=
  match estimateCycle? rounds h q with
  | none => .indexError
  | some c =>
    if floatExactBound ≤ dataset then .inexact
    else if (dataset : Int) % c = 0 then .value ((dataset : Int) / c).toNat
    else .assertionError

end Qco.Kernel
