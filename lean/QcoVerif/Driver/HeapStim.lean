import QcoVerif.Driver.Heap
/-
  Extension of the `heap` session protocol (Stim). `step` returns `none` for commands it does not know.
-/
namespace Qco.Driver.HeapStim

open Qco Qco.Driver

def step (_s : Sess) (_toks : List String) : Option (Sess × String) := none

end Qco.Driver.HeapStim
