import QcoVerif.Lemmas.CopyGraph
/-
  Graph-level copy theorem for `World.copyObj`, nested blocks (Stage 2): recursion on the fuel of `copyObj`, the transfer
  lookup threaded through all levels.  `TreeOk` is the recursive well-formedness predicate over the tree below an object,
  `CopyOf` the recursive statement "the copy's tree is the image of the original's, level by level".
  (Imported by Properties/C05.lean; must not import it.)  Core Lean only.
-/
namespace Qco

theorem setLink_size' (w : World) (i l : Nat) : (w.setLink i l).ops.size = w.ops.size := by
  simp [World.setLink, World.setOp]

/-! ### the tree below an object -/

/-- proper descendants of `o`, in the order `copyObj` records them in the lookup's key space (node, then its content). -/
def World.desc (w : World) : Nat → Nat → List Nat
  | 0, _ => []
  | f+1, o => if (w.op o).isComp then (listing (w.op o).graph).flatMap (fun n => n :: w.desc f n) else []

/-- depth-1 nodes of a block are pairwise channel-disjoint, later against earlier (this is why `add` put them under the
    root). -/
def RootsApart (w : World) (g : List Entry) : Prop :=
  (heads g).Pairwise (fun x y => chMatch (w.chansOf y) (w.chansOf x) = false)

/-- **recursive well-formedness of the tree below `o`** (fuel `f` bounds the depth): every object exists and carries an
    allocated single link; every composite's relation tree was built by `attach`, is "well linked" (H3) and its nodes are
    well formed in turn. -/
def TreeOk (w : World) : Nat → Nat → Prop
  | 0, _ => False
  | f+1, o =>
    o < w.ops.size ∧ (w.op o).link < w.links.size ∧ (w.lnk (w.op o).link).multi = false ∧
    ((w.op o).isComp = true →
      Built (w.op o).graph ∧
      (∀ e ∈ (w.op o).graph, TreeOk w f e.node) ∧
      (∀ e ∈ (w.op o).graph, ∀ p, e.parent = some p → (w.lnk (w.op e.node).link).refs.head? = some p) ∧
      (∀ e ∈ (w.op o).graph, e.parent = none → ∀ r, (w.lnk (w.op e.node).link).refs.head? = some r →
        r < w.ops.size ∧ ∀ m ∈ (w.op o).graph, w.eqKey m.node ≠ w.eqKey r) ∧
      RootsApart w (w.op o).graph)

/-- **the copy's tree is the image of the original's, level by level**: `o'` (in `w'`) is a copy of `o` (in `w`):
    a leaf with the class-faithful fields, or a composite with the same count whose entries are the images of the
    original's entries under a node map `φ` injective on the nodes (same keys, parents mapped), every node's link single
    and re-pointed to the copy of its tree parent (no reference for depth-1 nodes), the relation type kept for every
    internal relation, and every node again a copy of the corresponding node. -/
def CopyOf (w w' : World) : Nat → Nat → Nat → Prop
  | 0, _, _ => False
  | f+1, o, o' =>
    if (w.op o).isComp then
      (w'.op o').cls = .comp ∧ (w'.op o').rep = (w.op o).rep ∧
      ∃ φ : Nat → Nat, InjOn φ (sortedEntries (w.op o).graph) ∧
        (w'.op o').graph = (sortedEntries (w.op o).graph).map (Entry.image φ) ∧
        ∀ e ∈ sortedEntries (w.op o).graph,
          o' < φ e.node ∧ φ e.node < w'.ops.size ∧ (w'.op (φ e.node)).link < w'.links.size ∧
          (w'.lnk (w'.op (φ e.node)).link).multi = false ∧
          (w'.lnk (w'.op (φ e.node)).link).refs = (e.parent.map φ).toList ∧
          (e.parent ≠ none → (w'.lnk (w'.op (φ e.node)).link).rel = (w.lnk (w.op e.node).link).rel) ∧
          CopyOf w w' f e.node (φ e.node)
    else
      ∃ l rg, w'.op o' = { (w.op o).copyFields with link := l, reg := rg }

theorem noLink_eq_with {a b : Op} (h : a.noLink = b.noLink) : a = { b with link := a.link } := by
  cases a; cases b
  simp only [Op.noLink, Op.mk.injEq] at h ⊢
  obtain ⟨h1, h2, h3, h4, _, h6, h7, h8, h9, h10⟩ := h
  exact ⟨h1, h2, h3, h4, trivial, h6, h7, h8, h9, h10⟩

/-- `CopyOf` only reads the objects strictly above `o'`, the non-link part of `o'`, and the links that exist. -/
theorem CopyOf.stable {w w1 w2 : World} : ∀ (f o o' : Nat), CopyOf w w1 f o o' →
    (∀ j, o' < j → j < w1.ops.size → w2.op j = w1.op j) → (w2.op o').noLink = (w1.op o').noLink →
    (∀ l, l < w1.links.size → w2.lnk l = w1.lnk l) → w1.ops.size ≤ w2.ops.size → w1.links.size ≤ w2.links.size →
    CopyOf w w2 f o o' := by
  intro f
  induction f with
  | zero => intro o o' h; exact absurd h (by simp [CopyOf])
  | succ f ih =>
    intro o o' h hop hno hlnk hsz hlsz
    unfold CopyOf at h ⊢
    by_cases hc : (w.op o).isComp = true
    · rw [if_pos hc] at h ⊢
      obtain ⟨h1, h2, φ, hφ, hg, hall⟩ := h
      have hcls : (w2.op o').cls = (w1.op o').cls :=
        show (w2.op o').noLink.cls = (w1.op o').noLink.cls from congrArg Op.cls hno
      have hrep : (w2.op o').rep = (w1.op o').rep :=
        show (w2.op o').noLink.rep = (w1.op o').noLink.rep from congrArg Op.rep hno
      have hgr : (w2.op o').graph = (w1.op o').graph :=
        show (w2.op o').noLink.graph = (w1.op o').noLink.graph from congrArg Op.graph hno
      refine ⟨hcls.trans h1, hrep.trans h2, φ, hφ, hgr.trans hg, ?_⟩
      intro e he
      obtain ⟨a1, a2, a3, a4, a5, a6, a7⟩ := hall e he
      have hope : w2.op (φ e.node) = w1.op (φ e.node) := hop _ a1 a2
      rw [hope, hlnk _ a3]
      refine ⟨a1, by omega, by omega, a4, a5, a6, ?_⟩
      exact ih e.node (φ e.node) a7 (fun j hj1 hj2 => hop j (by omega) hj2) (by rw [hope])
        hlnk hsz hlsz
    · rw [if_neg hc] at h ⊢
      obtain ⟨l, rg, h⟩ := h
      have := noLink_eq_with hno
      rw [h] at this
      exact ⟨_, rg, this⟩

/-- a copy has the channel identifiers of the original (for any fuel that covers the depth of the tree). -/
theorem chans_copyOf {w w' : World} : ∀ (f o o' F F' : Nat), CopyOf w w' f o o' → f ≤ F → f ≤ F' →
    w'.chans F' o' = w.chans F o := by
  intro f
  induction f with
  | zero => intro o o' F F' h; exact absurd h (by simp [CopyOf])
  | succ f ih =>
    intro o o' F F' h hF hF'
    obtain ⟨F0, rfl⟩ : ∃ F0, F = F0 + 1 := ⟨F - 1, by omega⟩
    obtain ⟨F0', rfl⟩ : ∃ F0', F' = F0' + 1 := ⟨F' - 1, by omega⟩
    unfold CopyOf at h
    simp only [World.chans]
    by_cases hc : (w.op o).isComp = true
    · rw [if_pos hc] at h
      obtain ⟨h1, _, φ, _, hg, hall⟩ := h
      have hc' : (w'.op o').isComp = true := by unfold Op.isComp; rw [h1]; rfl
      rw [if_pos hc, if_pos hc', hg, listing_image]
      congr 1
      rw [List.flatMap_map]
      apply flatMap_congr'
      intro n hn
      obtain ⟨e, he, hen⟩ := List.mem_map.mp hn
      subst hen
      exact ih e.node (φ e.node) F0 F0' (hall e he).2.2.2.2.2.2 (by omega) (by omega)
    · rw [if_neg hc] at h
      obtain ⟨l, rg, h⟩ := h
      have hc' : ¬ (w'.op o').isComp = true := by
        rw [h]
        show ¬ ((w.op o).copyFields.cls == Cls.comp) = true
        rw [copyFields_cls']
        exact hc
      rw [if_neg hc, if_neg hc', h]
      show (w.op o).copyFields.leafChans = _
      exact copyFields_leafChans _

theorem chansOf_copyOf {w w' : World} {f o o' : Nat} (h : CopyOf w w' f o o') (hf : f ≤ w.depthFuel)
    (hsz : w.ops.size ≤ w'.ops.size) : w'.chansOf o' = w.chansOf o := by
  unfold World.chansOf
  exact chans_copyOf f o o' _ _ h hf (by unfold World.depthFuel at hf ⊢; omega)

/-! ### the descendants of a copy -/

theorem desc_congr_ops {a b : World} (h : a.ops = b.ops) : ∀ (f o : Nat), a.desc f o = b.desc f o := by
  intro f
  induction f with
  | zero => intro o; rfl
  | succ f ih =>
    intro o
    simp only [World.desc, op_congr' h]
    split
    · apply flatMap_congr'
      intro n _
      rw [ih n]
    · rfl

/-- the descendants of a copy are objects allocated after it. -/
theorem desc_copyOf_range {w w' : World} : ∀ (f o o' : Nat), CopyOf w w' f o o' →
    ∀ x' ∈ w'.desc f o', o' < x' ∧ x' < w'.ops.size := by
  intro f
  induction f with
  | zero => intro o o' h; exact absurd h (by simp [CopyOf])
  | succ f ih =>
    intro o o' h x' hx'
    unfold CopyOf at h
    by_cases hc : (w.op o).isComp = true
    · rw [if_pos hc] at h
      obtain ⟨h1, _, φ, _, hg, hall⟩ := h
      have hc' : (w'.op o').isComp = true := by unfold Op.isComp; rw [h1]; rfl
      rw [World.desc, if_pos hc', hg, listing_image, List.flatMap_map] at hx'
      obtain ⟨n, hn, hx'⟩ := List.mem_flatMap.mp hx'
      obtain ⟨e, he, rfl⟩ := List.mem_map.mp hn
      obtain ⟨a1, a2, _, _, _, _, a7⟩ := hall e he
      rcases List.mem_cons.mp hx' with rfl | hx'
      · exact ⟨a1, a2⟩
      · have := ih e.node (φ e.node) a7 x' hx'
        exact ⟨by omega, this.2⟩
    · rw [if_neg hc] at h
      obtain ⟨l, rg, h⟩ := h
      have hc' : ¬ (w'.op o').isComp = true := by
        rw [h]
        show ¬ ((w.op o).copyFields.cls == Cls.comp) = true
        rw [copyFields_cls']
        exact hc
      rw [World.desc, if_neg hc'] at hx'
      cases hx'

/-- the list of descendants of a copy only reads the objects strictly above it and its own non-link part. -/
theorem desc_stable {w w1 w2 : World} : ∀ (f o o' : Nat), CopyOf w w1 f o o' →
    (∀ j, o' < j → j < w1.ops.size → w2.op j = w1.op j) → (w2.op o').noLink = (w1.op o').noLink →
    w2.desc f o' = w1.desc f o' := by
  intro f
  induction f with
  | zero => intro o o' h; exact absurd h (by simp [CopyOf])
  | succ f ih =>
    intro o o' h hop hno
    have hic : (w2.op o').isComp = (w1.op o').isComp := by
      have : (w2.op o').cls = (w1.op o').cls :=
        show (w2.op o').noLink.cls = (w1.op o').noLink.cls from congrArg Op.cls hno
      unfold Op.isComp; rw [this]
    have hgr : (w2.op o').graph = (w1.op o').graph :=
      show (w2.op o').noLink.graph = (w1.op o').noLink.graph from congrArg Op.graph hno
    simp only [World.desc, hic, hgr]
    unfold CopyOf at h
    by_cases hc : (w.op o).isComp = true
    · rw [if_pos hc] at h
      obtain ⟨h1, _, φ, _, hg, hall⟩ := h
      have hc' : (w1.op o').isComp = true := by unfold Op.isComp; rw [h1]; rfl
      rw [if_pos hc', if_pos hc', hg, listing_image]
      apply flatMap_congr'
      intro n hn
      obtain ⟨n0, hn0, rfl⟩ := List.mem_map.mp hn
      obtain ⟨e, he, rfl⟩ := List.mem_map.mp hn0
      obtain ⟨a1, a2, _, _, _, _, a7⟩ := hall e he
      rw [ih e.node (φ e.node) a7 (fun j hj1 hj2 => hop j (by omega) hj2) (by rw [hop _ a1 a2])]
    · rw [if_neg hc] at h
      obtain ⟨l, rg, h⟩ := h
      have hc' : ¬ (w1.op o').isComp = true := by
        rw [h]
        show ¬ ((w.op o).copyFields.cls == Cls.comp) = true
        rw [copyFields_cls']
        exact hc
      rw [if_neg hc', if_neg hc']

theorem nodup_map_of_injOn {α β} {l : List α} {g : α → β} (hl : l.Nodup)
    (hg : ∀ a ∈ l, ∀ b ∈ l, g a = g b → a = b) : (l.map g).Nodup := by
  induction l with
  | nil => simp
  | cons x xs ih =>
    rw [List.nodup_cons] at hl
    rw [List.map_cons, List.nodup_cons]
    refine ⟨?_, ih hl.2 (fun a ha b hb => hg a (by simp [ha]) b (by simp [hb]))⟩
    intro hmem
    obtain ⟨y, hy, hyx⟩ := List.mem_map.mp hmem
    have := hg y (by simp [hy]) x (by simp) hyx
    subst this
    exact hl.1 hy

/-! ### `add` of a freshly copied node to the new composite -/

/-- what `add R cp` does to the heap in the three cases that occur in a copy: the graph of `R` grows by one entry, `cp` keeps
    everything but (possibly) its link, which ends up single with references `refs'`; nothing else changes. -/
structure Added (w4 : World) (R cp : Nat) (g' : List Entry) (refs' : List Nat) (keepRel : Prop) (w5 : World) : Prop where
  opsz : w5.ops.size = w4.ops.size
  lnksz : w4.links.size ≤ w5.links.size
  oldlnk : ∀ l, l < w4.links.size → w5.lnk l = w4.lnk l
  ident : w5.identKeys = w4.identKeys
  env : SameEnv w5 w4
  opR : w5.op R = { w4.op R with graph := g' }
  opOther : ∀ j, j ≠ R → j ≠ cp → w5.op j = w4.op j
  opCp : (w5.op cp).noLink = (w4.op cp).noLink
  cpLink : (w5.op cp).link < w5.links.size
  cpMulti : (w5.lnk (w5.op cp).link).multi = false
  cpRefs : (w5.lnk (w5.op cp).link).refs = refs'
  cpRel : keepRel → (w5.lnk (w5.op cp).link).rel = (w4.lnk (w4.op cp).link).rel
  cpLinkIs : (w5.op cp).link = (w4.op cp).link ∨ w4.links.size ≤ (w5.op cp).link

theorem added_setGraph (w4 : World) (R cp : Nat) (g' : List Entry) (hRcp : R ≠ cp) (hR : R < w4.ops.size)
    (hlink : (w4.op cp).link < w4.links.size) (hm : (w4.lnk (w4.op cp).link).multi = false) :
    Added w4 R cp g' (w4.lnk (w4.op cp).link).refs True (w4.setGraph R g') := by
  have hcp : (w4.setGraph R g').op cp = w4.op cp := by
    rw [op_setGraph, if_neg (fun h => hRcp h.1)]
  refine ⟨setGraph_size' _ _ _, Nat.le_refl _, fun l _ => rfl, rfl, SameEnv.refl _, ?_, ?_, ?_, ?_, ?_, ?_, ?_, ?_⟩
  · rw [op_setGraph, if_pos ⟨rfl, hR⟩]
  · intro j hj _
    rw [op_setGraph, if_neg (fun h => hj h.1.symm)]
  · rw [hcp]
  · rw [hcp]; exact hlink
  · rw [hcp]; exact hm
  · rw [hcp]; rfl
  · intro _; rw [hcp]; rfl
  · left; rw [hcp]

/-- the node's copied relation refers to a node of the new graph: hung under it, nothing else happens. -/
theorem add_child_added (w4 : World) (R cp q : Nat) (hRcp : R ≠ cp) (hR : R < w4.ops.size)
    (hlink : (w4.op cp).link < w4.links.size) (hm : (w4.lnk (w4.op cp).link).multi = false)
    (hrefs : (w4.lnk (w4.op cp).link).refs = [q]) (hin : inGraph (w4.op R).graph q = true) :
    Added w4 R cp (attach (w4.op R).graph (some q) cp) [q] True (w4.add R cp) := by
  have hrel : w4.hasRel cp = true := by unfold World.hasRel; rw [hrefs]; rfl
  unfold World.add
  rw [addToGraph_child w4 _ cp q hrel hm (by rw [hrefs]; rfl) hin]
  have := added_setGraph w4 R cp (attach (w4.op R).graph (some q) cp) hRcp hR hlink hm
  rw [hrefs] at this
  exact this

/-- the node's copied relation has no reference and no earlier node shares a channel: hung under the root. -/
theorem add_root_added (w4 : World) (R cp : Nat) (hRcp : R ≠ cp) (hR : R < w4.ops.size)
    (hlink : (w4.op cp).link < w4.links.size) (hm : (w4.lnk (w4.op cp).link).multi = false)
    (hrefs : (w4.lnk (w4.op cp).link).refs = [])
    (hleaf : w4.leafAtAny (w4.op R).graph (w4.chansOf cp) = none) :
    Added w4 R cp (attach (w4.op R).graph none cp) [] True (w4.add R cp) := by
  have hrel : w4.hasRel cp = false := by unfold World.hasRel; rw [hrefs]; rfl
  unfold World.add
  rw [addToGraph_root w4 _ cp hrel hleaf]
  have := added_setGraph w4 R cp (attach (w4.op R).graph none cp) hRcp hR hlink hm
  rw [hrefs] at this
  exact this

/-- the node's copied relation refers to an object that is NOT a node of the new graph (an outside relation that the
    lookup re-pointed): warning, the link is replaced by a fresh reference-less one, hung under the root. -/
theorem add_outside_added (w4 : World) (R cp v : Nat) (hRcp : R ≠ cp) (hR : R < w4.ops.size) (hcp : cp < w4.ops.size)
    (hm : (w4.lnk (w4.op cp).link).multi = false)
    (hrefs : (w4.lnk (w4.op cp).link).refs = [v]) (hin : inGraph (w4.op R).graph v = false)
    (hleaf : w4.leafAtAny (w4.op R).graph (w4.chansOf cp) = none) :
    Added w4 R cp (attach (w4.op R).graph none cp) [] False (w4.add R cp) := by
  have hrel : w4.hasRel cp = true := by unfold World.hasRel; rw [hrefs]; rfl
  have href : w4.refOf (w4.op cp).link = some (some v) := by
    unfold World.refOf
    simp only [hm, Bool.not_false, if_true, hrefs, List.head?_cons]
  have hadd : w4.add R cp =
      ((({ w4 with warnings := w4.warnings + 1 } : World).newLink {}).1.setLink cp w4.links.size).setGraph R
        (attach (w4.op R).graph none cp) := by
    unfold World.add World.addToGraph
    simp only [hrel, Bool.not_true, Bool.false_eq_true, if_false, href, hin, hleaf]
    rfl
  rw [hadd]
  generalize hW1 : (({ w4 with warnings := w4.warnings + 1 } : World).newLink {}).1 = W1
  have hW1ops : W1.ops = w4.ops := by subst hW1; rfl
  have hW1links : W1.links = w4.links.push {} := by subst hW1; rfl
  have hW1id : W1.identKeys = w4.identKeys := by subst hW1; rfl
  have hW1env : SameEnv W1 w4 := by subst hW1; exact SameEnv.refl _
  have hcp1 : cp < W1.ops.size := by rw [hW1ops]; exact hcp
  have hR1 : R < (W1.setLink cp w4.links.size).ops.size := by rw [setLink_size', hW1ops]; exact hR
  have hopcp : ((W1.setLink cp w4.links.size).setGraph R (attach (w4.op R).graph none cp)).op cp =
      { w4.op cp with link := w4.links.size } := by
    rw [op_setGraph, if_neg (fun h => hRcp h.1)]
    unfold World.setLink
    rw [op_setOp, if_pos ⟨rfl, hcp1⟩, op_congr' hW1ops]
  have hlnknew : ((W1.setLink cp w4.links.size).setGraph R (attach (w4.op R).graph none cp)).lnk w4.links.size = {} := by
    show W1.lnk w4.links.size = _
    exact lnk_push_eq hW1links
  refine ⟨?_, ?_, ?_, hW1id, hW1env, ?_, ?_, ?_, ?_, ?_, ?_, ?_, ?_⟩
  · rw [setGraph_size', setLink_size', hW1ops]
  · show w4.links.size ≤ W1.links.size
    rw [hW1links]; simp
  · intro l hl
    show W1.lnk l = _
    exact lnk_push_lt hW1links hl
  · rw [op_setGraph, if_pos ⟨rfl, hR1⟩]
    unfold World.setLink
    rw [op_setOp, if_neg (fun h => hRcp h.1.symm), op_congr' hW1ops]
  · intro j hjR hjcp
    rw [op_setGraph, if_neg (fun h => hjR h.1.symm)]
    unfold World.setLink
    rw [op_setOp, if_neg (fun h => hjcp h.1.symm), op_congr' hW1ops]
  · rw [hopcp]; rfl
  · rw [hopcp]
    show w4.links.size < W1.links.size
    rw [hW1links]; simp
  · rw [hopcp]
    show (((W1.setLink cp w4.links.size).setGraph R (attach (w4.op R).graph none cp)).lnk w4.links.size).multi = false
    rw [hlnknew]
  · rw [hopcp]
    show (((W1.setLink cp w4.links.size).setGraph R (attach (w4.op R).graph none cp)).lnk w4.links.size).refs = []
    rw [hlnknew]
  · intro h; exact absurd h id
  · right; rw [hopcp]; exact Nat.le_refl _

/-! ### every copied object owns its link -/

/-- the objects from `base` on carry allocated, pairwise different link objects. -/
def LinkDistinct (base : Nat) (w : World) : Prop :=
  (∀ j, base ≤ j → j < w.ops.size → (w.op j).link < w.links.size) ∧
  (∀ i j, base ≤ i → i < j → j < w.ops.size → (w.op i).link ≠ (w.op j).link)

theorem LinkDistinct.congr {base : Nat} {a b : World} (hops : a.ops = b.ops) (hlinks : a.links = b.links)
    (h : LinkDistinct base b) : LinkDistinct base a := by
  refine ⟨?_, ?_⟩
  · intro j hj1 hj2
    rw [op_congr' hops, hlinks]
    exact h.1 j hj1 (by rw [← hops]; exact hj2)
  · intro i j hi hij hj
    rw [op_congr' hops, op_congr' hops]
    exact h.2 i j hi hij (by rw [← hops]; exact hj)

/-- a new object carrying a link that no existing object can carry. -/
theorem LinkDistinct.newobj {base : Nat} {w w' : World} {O : Op} (hops : w'.ops = w.ops.push O)
    (hl : w.links.size ≤ O.link) (hl' : O.link < w'.links.size) (h : LinkDistinct base w) : LinkDistinct base w' := by
  have hsz : w'.ops.size = w.ops.size + 1 := by rw [hops]; simp
  have hmono : w.links.size ≤ w'.links.size := by omega
  refine ⟨?_, ?_⟩
  · intro j hj1 hj2
    by_cases hj : j < w.ops.size
    · rw [op_push_lt hops hj]
      exact Nat.lt_of_lt_of_le (h.1 j hj1 hj) hmono
    · have : j = w.ops.size := by omega
      subst this
      rw [op_push_eq hops]; exact hl'
  · intro i j hi hij hj
    by_cases hjlt : j < w.ops.size
    · rw [op_push_lt hops hjlt, op_push_lt hops (by omega)]
      exact h.2 i j hi hij hjlt
    · have : j = w.ops.size := by omega
      subst this
      rw [op_push_eq hops, op_push_lt hops hij]
      have := h.1 i hi hij
      omega

theorem LinkDistinct.added {base : Nat} {w4 w5 : World} {R cp : Nat} {g' : List Entry} {refs' : List Nat} {k : Prop}
    (hA : Added w4 R cp g' refs' k w5) (h : LinkDistinct base w4) : LinkDistinct base w5 := by
  have hlink : ∀ j, j ≠ cp → (w5.op j).link = (w4.op j).link := by
    intro j hj
    by_cases hjR : j = R
    · subst hjR; rw [hA.opR]
    · rw [hA.opOther j hjR hj]
  refine ⟨?_, ?_⟩
  · intro j hj1 hj2
    by_cases hj : j = cp
    · subst hj; exact hA.cpLink
    · rw [hlink j hj]
      exact Nat.lt_of_lt_of_le (h.1 j hj1 (by rw [← hA.opsz]; exact hj2)) hA.lnksz
  · intro i j hi hij hj
    have hj4 : j < w4.ops.size := by rw [← hA.opsz]; exact hj
    have hne := h.2 i j hi hij hj4
    have hbi := h.1 i hi (by omega)
    have hbj := h.1 j (by omega) hj4
    by_cases hic : i = cp
    · subst hic
      rw [hlink j (by omega)]
      rcases hA.cpLinkIs with he | hge
      · rw [he]; exact hne
      · omega
    · rw [hlink i hic]
      by_cases hjc : j = cp
      · subst hjc
        rcases hA.cpLinkIs with he | hge
        · rw [he]; exact hne
        · omega
      · rw [hlink j hjc]; exact hne

/-! ### specification of one `copyObj` call -/

/-- the heap `wi` extends the heap `w`: everything that existed is unchanged. -/
structure Ext (w wi : World) : Prop where
  opsz : w.ops.size ≤ wi.ops.size
  lnksz : w.links.size ≤ wi.links.size
  oldop : ∀ j, j < w.ops.size → wi.op j = w.op j
  oldlnk : ∀ l, l < w.links.size → wi.lnk l = w.lnk l
  ident : wi.identKeys = w.identKeys
  env : SameEnv wi w

theorem Ext.refl (w : World) : Ext w w := ⟨Nat.le_refl _, Nat.le_refl _, fun _ _ => rfl, fun _ _ => rfl, rfl, SameEnv.refl _⟩

theorem Ext.trans {a b c : World} (h1 : Ext a b) (h2 : Ext b c) : Ext a c :=
  ⟨Nat.le_trans h1.opsz h2.opsz, Nat.le_trans h1.lnksz h2.lnksz,
   fun j hj => (h2.oldop j (Nat.lt_of_lt_of_le hj h1.opsz)).trans (h1.oldop j hj),
   fun l hl => (h2.oldlnk l (Nat.lt_of_lt_of_le hl h1.lnksz)).trans (h1.oldlnk l hl),
   h2.ident.trans h1.ident, h2.env.trans h1.env⟩

theorem Ext.eqKey {w wi : World} (h : Ext w wi) {x : Nat} (hx : x < w.ops.size) : wi.eqKey x = w.eqKey x :=
  eqKey_congr h.ident (h.oldop x hx)

/-- same objects, links and settings (the worlds may differ in the diagnostic counters). -/
structure SameHeap (a b : World) : Prop where
  ops : a.ops = b.ops
  links : a.links = b.links
  ident : a.identKeys = b.identKeys
  env : SameEnv a b

theorem SameHeap.ext {a b : World} (h : SameHeap a b) : Ext b a :=
  ⟨by rw [h.ops]; exact Nat.le_refl _, by rw [h.links]; exact Nat.le_refl _, fun j _ => op_congr' h.ops j,
   fun l _ => lnk_congr' h.links l, h.ident, h.env⟩

theorem CopyOf.ext {w w1 w2 : World} {f o o' : Nat} (h : CopyOf w w1 f o o') (he : Ext w1 w2)
    (ho : o' < w1.ops.size) : CopyOf w w2 f o o' :=
  CopyOf.stable f o o' h (fun j _ hj => he.oldop j hj) (by rw [he.oldop o' ho]) he.oldlnk he.opsz he.lnksz

theorem desc_ext {w w1 w2 : World} {f o o' : Nat} (h : CopyOf w w1 f o o') (he : Ext w1 w2) (ho : o' < w1.ops.size) :
    w2.desc f o' = w1.desc f o' :=
  desc_stable f o o' h (fun j _ hj => he.oldop j hj) (by rw [he.oldop o' ho])

/-- values of the lookup are objects below `n`. -/
def LkVal (lk : Lookup) (n : Nat) : Prop := ∀ key v, lk.get? key = some v → v < n

/-- **what one call `wi.copyObj f n lk` does** (base heap `w`, current heap `wi`): the copy is the next free object, its own
    link is the next free link and is the single link copy through the CURRENT lookup; nothing that existed is written;
    the tree below the copy is the image of the tree below `n`; the lookup is changed exactly on the keys of the proper
    descendants of `n`, which now point to objects allocated by this call. -/
structure CopySpec (w : World) (f n : Nat) (wi : World) (lk : Lookup) (r : World × Nat × Lookup) : Prop where
  id : r.2.1 = wi.ops.size
  opsz : wi.ops.size < r.1.ops.size
  ext : Ext wi r.1
  ownLink : (r.1.op wi.ops.size).link = wi.links.size
  ownLt : wi.links.size < r.1.links.size
  ownLnk : r.1.lnk wi.links.size = { refs := copyRefs wi (w.op n).link lk, rel := (w.lnk (w.op n).link).rel }
  image : CopyOf w r.1 f n wi.ops.size
  lkFrame : ∀ key, (∀ x ∈ w.desc f n, w.eqKey x ≠ key) → r.2.2.get? key = lk.get? key
  lkRange : ∀ x ∈ w.desc f n, ∃ v, r.2.2.get? (w.eqKey x) = some v ∧ wi.ops.size < v ∧ v < r.1.ops.size
  links : ∀ base, base ≤ wi.ops.size → LinkDistinct base wi → LinkDistinct base r.1
  descNodup : (r.1.desc f wi.ops.size).Nodup

/-- update of a node map at one node. -/
def upd (φ : Nat → Nat) (n v : Nat) : Nat → Nat := fun x => if x = n then v else φ x

theorem upd_self (φ : Nat → Nat) (n v : Nat) : upd φ n v n = v := by simp [upd]
theorem upd_ne (φ : Nat → Nat) {n x : Nat} (v : Nat) (h : x ≠ n) : upd φ n v x = φ x := by simp [upd, h]

/-- the image of a built prefix does not see an update at a node outside the prefix. -/
theorem image_upd {A : List Entry} (hb : Built A) (φ : Nat → Nat) {n : Nat} (v : Nat) (hn : inGraph A n = false) :
    A.map (Entry.image (upd φ n v)) = A.map (Entry.image φ) := by
  apply List.map_congr_left
  intro a ha
  have hne : a.node ≠ n := inGraph_false_iff.mp hn a ha
  unfold Entry.image
  rw [upd_ne φ v hne]
  cases hp : a.parent with
  | none => rfl
  | some q =>
    obtain ⟨pe, hpe, hpq, _⟩ := hb.parent_mem ha hp
    have : q ≠ n := by rw [← hpq]; exact inGraph_false_iff.mp hn pe hpe
    simp [upd_ne φ v this]

/-- hypotheses of the copy loop of one composite at fuel `f + 1`, relative to its sorted entry list `S`. -/
structure NHyp (w : World) (f : Nat) (S : List Entry) : Prop where
  built : Built S
  sub : ∀ e ∈ S, TreeOk w f e.node
  child : ∀ e ∈ S, ∀ p, e.parent = some p → (w.lnk (w.op e.node).link).refs.head? = some p
  root : ∀ e ∈ S, e.parent = none → ∀ r, (w.lnk (w.op e.node).link).refs.head? = some r →
    r < w.ops.size ∧ ∀ m ∈ S, w.eqKey m.node ≠ w.eqKey r
  apart : ∀ A e B, S = A ++ e :: B → e.parent = none →
    ∀ x ∈ A, chMatch (w.chansOf e.node) (w.chansOf x.node) = false
  keys : ((S.flatMap (fun m => m.node :: w.desc f m.node)).map w.eqKey).Nodup
  fuel : f ≤ w.depthFuel

/-- invariant of the copy loop of one composite: `we` is the heap at the entry of the call (`R = we.ops.size` is the new
    composite), `lk0` the lookup at the entry, `φ` the node map so far, `A` the processed prefix. -/
structure NInv (w : World) (f : Nat) (R : Nat) (c0 : Op) (we : World) (lk0 : Lookup) (P : Nat → Prop) (φ : Nat → Nat)
    (A : List Entry) (wi : World) (lk : Lookup) : Prop where
  ext : Ext we wi
  hR : R < wi.ops.size
  resop : wi.op R = { c0 with graph := A.map (Entry.image φ) }
  inj : InjOn φ A
  cp : ∀ e ∈ A, R < φ e.node ∧ φ e.node < wi.ops.size ∧ (wi.op (φ e.node)).link < wi.links.size ∧
    (wi.lnk (wi.op (φ e.node)).link).multi = false ∧
    (wi.lnk (wi.op (φ e.node)).link).refs = (e.parent.map φ).toList ∧
    (e.parent ≠ none → (wi.lnk (wi.op (φ e.node)).link).rel = (w.lnk (w.op e.node).link).rel) ∧
    CopyOf w wi f e.node (φ e.node)
  hit : ∀ e ∈ A, lk.get? (w.eqKey e.node) = some (φ e.node)
  lkFrame : ∀ key, (∀ x ∈ A.flatMap (fun m => m.node :: w.desc f m.node), w.eqKey x ≠ key) → lk.get? key = lk0.get? key
  lkRange : ∀ x ∈ A.flatMap (fun m => m.node :: w.desc f m.node),
    ∃ v, lk.get? (w.eqKey x) = some v ∧ R < v ∧ v < wi.ops.size
  loc : ∀ e ∈ A, ∀ key, lk.get? key = some (φ e.node) → key = w.eqKey e.node
  val : LkVal lk wi.ops.size
  links : ∀ base, base ≤ we.ops.size → P base → LinkDistinct base wi
  dnodup : (A.flatMap (fun m => φ m.node :: wi.desc f (φ m.node))).Nodup

/-- the distinct-keys hypothesis, split at the entry being processed. -/
theorem NHyp.keys_split {w : World} {f : Nat} {S A B : List Entry} {e : Entry} (H : NHyp w f S)
    (hs : S = A ++ e :: B) :
    ((w.desc f e.node).map w.eqKey).Nodup ∧ (∀ x ∈ w.desc f e.node, w.eqKey x ≠ w.eqKey e.node) ∧
    (∀ y ∈ A.flatMap (fun m => m.node :: w.desc f m.node),
      w.eqKey y ≠ w.eqKey e.node ∧ ∀ x ∈ w.desc f e.node, w.eqKey y ≠ w.eqKey x) := by
  have hk := H.keys
  rw [hs, List.flatMap_append, List.flatMap_cons, List.map_append, List.map_append, List.nodup_append] at hk
  obtain ⟨_, h2, h3⟩ := hk
  rw [List.nodup_append] at h2
  obtain ⟨h21, _, _⟩ := h2
  rw [List.map_cons, List.nodup_cons] at h21
  refine ⟨h21.2, ?_, ?_⟩
  · intro x hx heq
    exact h21.1 (heq ▸ List.mem_map.mpr ⟨x, hx, rfl⟩)
  · intro y hy
    have hy' : w.eqKey y ∈ (A.flatMap (fun m => m.node :: w.desc f m.node)).map w.eqKey := List.mem_map.mpr ⟨y, hy, rfl⟩
    refine ⟨?_, ?_⟩
    · exact h3 _ hy' _ (by simp)
    · intro x hx
      exact h3 _ hy' _ (by
        rw [List.mem_append]; left
        rw [List.map_cons, List.mem_cons]; right
        exact List.mem_map.mpr ⟨x, hx, rfl⟩)

theorem upd_injOn {φ : Nat → Nat} {A : List Entry} {e : Entry} {cp : Nat} (hinj : InjOn φ A)
    (hne : ∀ x ∈ A, x.node ≠ e.node) (hlt : ∀ x ∈ A, φ x.node < cp) : InjOn (upd φ e.node cp) (A ++ [e]) := by
  intro a ha b hb h
  rw [List.mem_append, List.mem_singleton] at ha hb
  rcases ha with ha | rfl <;> rcases hb with hb | rfl
  · rw [upd_ne φ _ (hne a ha), upd_ne φ _ (hne b hb)] at h
    exact hinj a ha b hb h
  · rw [upd_ne φ _ (hne a ha), upd_self] at h
    have := hlt a ha
    omega
  · rw [upd_ne φ _ (hne b hb), upd_self] at h
    have := hlt b hb
    omega
  · rfl

theorem Added.weaken {w4 : World} {R cp : Nat} {g' : List Entry} {refs' : List Nat} {k k' : Prop} {w5 : World}
    (h : Added w4 R cp g' refs' k w5) (hk : k' → k) : Added w4 R cp g' refs' k' w5 :=
  ⟨h.opsz, h.lnksz, h.oldlnk, h.ident, h.env, h.opR, h.opOther, h.opCp, h.cpLink, h.cpMulti, h.cpRefs,
   fun x => h.cpRel (hk x), h.cpLinkIs⟩

/-- **`add` of the freshly copied node**: in each of the three cases (internal relation / no reference / outside relation
    re-pointed by the lookup) the new composite gets the image entry, and the copy ends up with a single link to the copy of
    its tree parent. -/
theorem node_added {w : World} {f R : Nat} {c0 : Op} {we : World} {lk0 : Lookup} {P : Nat → Prop} {φ : Nat → Nat} {S A B : List Entry}
    {e : Entry} {wi : World} {lk : Lookup} {r : World × Nat × Lookup} {w4 : World}
    (H : NHyp w f S) (hs : S = A ++ e :: B) (hbase : Ext w we)
    (I : NInv w f R c0 we lk0 P φ A wi lk) (spec : CopySpec w f e.node wi lk r) (h4 : SameHeap w4 r.1) :
    Added w4 R wi.ops.size ((A ++ [e]).map (Entry.image (upd φ e.node wi.ops.size)))
      ((e.parent.map (upd φ e.node wi.ops.size)).toList) (e.parent ≠ none) (w4.add R wi.ops.size) := by
  have heS : e ∈ S := by rw [hs]; simp
  have hAS : ∀ x ∈ A, x ∈ S := by intro x hx; rw [hs]; simp [hx]
  have hExt : Ext w wi := hbase.trans I.ext
  have hbAe : Built (A ++ [e]) := Built.prefix (h := B) (by rw [List.append_assoc, List.singleton_append, ← hs]; exact H.built)
  have hbA : Built A := hbAe.prefix
  have hinA : inGraph A e.node = false := (H.built A e B hs).1
  have himg : A.map (Entry.image (upd φ e.node wi.ops.size)) = A.map (Entry.image φ) :=
    image_upd hbA φ wi.ops.size hinA
  have hne : ∀ x ∈ A, x.node ≠ e.node := inGraph_false_iff.mp hinA
  have hinj' : InjOn (upd φ e.node wi.ops.size) (A ++ [e]) :=
    upd_injOn I.inj hne (fun x hx => (I.cp x hx).2.1)
  obtain ⟨a1, _, a3⟩ := attach_image hbAe (rfl : A ++ [e] = A ++ e :: []) (upd φ e.node wi.ops.size) hinj'
  rw [upd_self] at a1
  -- the heap before the `add`
  have E4 : Ext wi w4 := spec.ext.trans h4.ext
  have hR4 : w4.op R = { c0 with graph := A.map (Entry.image (upd φ e.node wi.ops.size)) } := by
    rw [E4.oldop R I.hR, himg]; exact I.resop
  have hg4 : (w4.op R).graph = A.map (Entry.image (upd φ e.node wi.ops.size)) := by rw [hR4]
  have hRcp : R ≠ wi.ops.size := Nat.ne_of_lt I.hR
  have hRlt : R < w4.ops.size := Nat.lt_of_lt_of_le I.hR E4.opsz
  have hcplt : wi.ops.size < w4.ops.size := by rw [h4.ops]; exact spec.opsz
  have hl4 : (w4.op wi.ops.size).link = wi.links.size := by rw [op_congr' h4.ops]; exact spec.ownLink
  have hL4 : w4.lnk (w4.op wi.ops.size).link =
      { refs := copyRefs wi (w.op e.node).link lk, rel := (w.lnk (w.op e.node).link).rel } := by
    rw [hl4, lnk_congr' h4.links]; exact spec.ownLnk
  have hlinklt : (w4.op wi.ops.size).link < w4.links.size := by rw [hl4, h4.links]; exact spec.ownLt
  have hm4 : (w4.lnk (w4.op wi.ops.size).link).multi = false := by rw [hL4]
  -- the tree of the node
  have hT := H.sub e heS
  obtain ⟨f', rfl⟩ : ∃ f', f = f' + 1 := by
    cases f with
    | zero => exact absurd hT (by simp [TreeOk])
    | succ f' => exact ⟨f', rfl⟩
  unfold TreeOk at hT
  obtain ⟨hnlt, hnlink, _, _⟩ := hT
  have hlnk : wi.lnk (w.op e.node).link = w.lnk (w.op e.node).link := hExt.oldlnk _ hnlink
  cases hp : e.parent with
  | some p =>
    rw [hp] at a1 a3
    simp only [Option.map_some] at a1
    obtain ⟨pe, hpeA, hpq⟩ := inGraph_iff.mp ((H.built A e B hs).2.1 p hp)
    have hpne : p ≠ e.node := by rw [← hpq]; exact hne pe hpeA
    have hφp : upd φ e.node wi.ops.size p = φ p := upd_ne φ _ hpne
    have hplt : p < w.ops.size := by
      have hTp := H.sub pe (hAS pe hpeA)
      unfold TreeOk at hTp
      rw [← hpq]; exact hTp.1
    have hrefs : copyRefs wi (w.op e.node).link lk = [φ p] := by
      unfold copyRefs
      rw [hlnk, H.child e heS p hp]
      simp only [hExt.eqKey hplt]
      rw [← hpq, I.hit pe hpeA]
    have hrefs4 : (w4.lnk (w4.op wi.ops.size).link).refs = [φ p] := by rw [hL4, hrefs]
    have hin : inGraph (w4.op R).graph (φ p) = true := by
      rw [hg4, ← hφp]; exact a3 p rfl
    have hA := add_child_added w4 R wi.ops.size (φ p) hRcp hRlt hlinklt hm4 hrefs4 hin
    rw [hg4, ← hφp, a1] at hA
    simp only [Option.map_some, Option.toList_some]
    exact hA.weaken (fun _ => trivial)
  | none =>
    rw [hp] at a1
    simp only [Option.map_none] at a1
    -- no earlier node of the new graph shares a channel with the copy
    have hleaf : w4.leafAtAny (w4.op R).graph (w4.chansOf wi.ops.size) = none := by
      apply leafAtAny_none
      intro x' hx'
      rw [hg4, himg] at hx'
      obtain ⟨m, hm, hmx⟩ := List.mem_map.mp hx'
      subst hmx
      have hc1 : CopyOf w w4 (f' + 1) e.node wi.ops.size := spec.image.ext h4.ext spec.opsz
      have hc2 : CopyOf w w4 (f' + 1) m.node (φ m.node) := (I.cp m hm).2.2.2.2.2.2.ext E4 (I.cp m hm).2.1
      have hsz : w.ops.size ≤ w4.ops.size := Nat.le_trans hExt.opsz E4.opsz
      rw [chansOf_copyOf hc1 H.fuel hsz, Entry.image_node, chansOf_copyOf hc2 H.fuel hsz]
      exact H.apart A e B hs hp m hm
    simp only [Option.map_none, Option.toList_none]
    cases hh : (w.lnk (w.op e.node).link).refs.head? with
    | none =>
      have hrefs : copyRefs wi (w.op e.node).link lk = [] := by
        unfold copyRefs; rw [hlnk, hh]
      have hrefs4 : (w4.lnk (w4.op wi.ops.size).link).refs = [] := by rw [hL4, hrefs]
      have hA := add_root_added w4 R wi.ops.size hRcp hRlt hlinklt hm4 hrefs4 hleaf
      rw [hg4, a1] at hA
      exact hA.weaken (fun _ => trivial)
    | some r =>
      obtain ⟨hrlt, hrne⟩ := H.root e heS hp r hh
      cases hv : lk.get? (w.eqKey r) with
      | none =>
        have hrefs : copyRefs wi (w.op e.node).link lk = [] := by
          unfold copyRefs; rw [hlnk, hh]; simp only [hExt.eqKey hrlt, hv]
        have hrefs4 : (w4.lnk (w4.op wi.ops.size).link).refs = [] := by rw [hL4, hrefs]
        have hA := add_root_added w4 R wi.ops.size hRcp hRlt hlinklt hm4 hrefs4 hleaf
        rw [hg4, a1] at hA
        exact hA.weaken (fun _ => trivial)
      | some v =>
        have hrefs : copyRefs wi (w.op e.node).link lk = [v] := by
          unfold copyRefs; rw [hlnk, hh]; simp only [hExt.eqKey hrlt, hv]
        have hrefs4 : (w4.lnk (w4.op wi.ops.size).link).refs = [v] := by rw [hL4, hrefs]
        have hin : inGraph (w4.op R).graph v = false := by
          rw [hg4, himg, inGraph_false_iff]
          intro x' hx' hxv
          obtain ⟨m, hm, hmx⟩ := List.mem_map.mp hx'
          subst hmx
          simp only [Entry.image_node] at hxv
          have := I.loc m hm (w.eqKey r) (by rw [hv, hxv])
          exact hrne m (hAS m hm) this.symm
        have hA := add_outside_added w4 R wi.ops.size v hRcp hRlt hcplt hm4 hrefs4 hin hleaf
        rw [hg4, a1] at hA
        exact hA.weaken (fun h => absurd rfl h)

/-- the invariant after the node has been copied, recorded in the lookup and added. -/
theorem node_inv {w : World} {f R : Nat} {c0 : Op} {we : World} {lk0 : Lookup} {P : Nat → Prop} {φ : Nat → Nat} {S A B : List Entry}
    {e : Entry} {wi : World} {lk : Lookup} {r : World × Nat × Lookup} {w4 w5 : World}
    (H : NHyp w f S) (hs : S = A ++ e :: B) (hRwe : we.ops.size ≤ R)
    (I : NInv w f R c0 we lk0 P φ A wi lk) (spec : CopySpec w f e.node wi lk r) (h4 : SameHeap w4 r.1)
    (hA : Added w4 R wi.ops.size ((A ++ [e]).map (Entry.image (upd φ e.node wi.ops.size)))
      ((e.parent.map (upd φ e.node wi.ops.size)).toList) (e.parent ≠ none) w5) :
    NInv w f R c0 we lk0 P (upd φ e.node wi.ops.size) (A ++ [e]) w5 (r.2.2.set (w.eqKey e.node) wi.ops.size) := by
  have hinA : inGraph A e.node = false := (H.built A e B hs).1
  have hne : ∀ x ∈ A, x.node ≠ e.node := inGraph_false_iff.mp hinA
  have hbA : Built A := Built.prefix (h := e :: B) (by rw [← hs]; exact H.built)
  have E4 : Ext wi w4 := spec.ext.trans h4.ext
  have hRlt := I.hR
  have hcplt : wi.ops.size < w4.ops.size := by rw [h4.ops]; exact spec.opsz
  have hR4 : w4.op R = { c0 with graph := A.map (Entry.image φ) } := by
    rw [E4.oldop R I.hR]; exact I.resop
  obtain ⟨k1, k2, k3⟩ := H.keys_split hs
  -- objects below the copy and different from `R` are not touched by the `add`
  have hop5 : ∀ j, j < wi.ops.size → j ≠ R → w5.op j = wi.op j := by
    intro j hj hjR
    rw [hA.opOther j hjR (Nat.ne_of_lt hj), E4.oldop j hj]
  have hlnk5 : ∀ l, l < wi.links.size → w5.lnk l = wi.lnk l := by
    intro l hl
    rw [hA.oldlnk l (Nat.lt_of_lt_of_le hl E4.lnksz), E4.oldlnk l hl]
  -- parents of entries of `A ++ [e]` are nodes of `A`: the update does not change their image
  have hpar : ∀ x ∈ A ++ [e], x.parent.map (upd φ e.node wi.ops.size) = x.parent.map φ := by
    intro x hx
    cases hp : x.parent with
    | none => rfl
    | some q =>
      have hq : q ≠ e.node := by
        rw [List.mem_append, List.mem_singleton] at hx
        rcases hx with hx | rfl
        · obtain ⟨pe, hpe, hpq, _⟩ := hbA.parent_mem hx hp
          rw [← hpq]; exact hne pe hpe
        · obtain ⟨pe, hpe, hpq⟩ := inGraph_iff.mp ((H.built A x B hs).2.1 q hp)
          rw [← hpq]; exact hne pe hpe
      simp [upd_ne φ _ hq]
  refine ⟨?_, ?_, ?_, ?_, ?_, ?_, ?_, ?_, ?_, ?_, ?_, ?_⟩
  · -- ext
    refine ⟨?_, ?_, ?_, ?_, ?_, ?_⟩
    · rw [hA.opsz]; exact Nat.le_trans I.ext.opsz E4.opsz
    · exact Nat.le_trans (Nat.le_trans I.ext.lnksz E4.lnksz) hA.lnksz
    · intro j hj
      have hj' : j < wi.ops.size := Nat.lt_of_lt_of_le hj I.ext.opsz
      rw [hop5 j hj' (by omega)]
      exact I.ext.oldop j hj
    · intro l hl
      rw [hlnk5 l (Nat.lt_of_lt_of_le hl I.ext.lnksz)]
      exact I.ext.oldlnk l hl
    · rw [hA.ident, E4.ident]; exact I.ext.ident
    · exact (hA.env.trans E4.env).trans I.ext.env
  · rw [hA.opsz]; exact Nat.lt_trans I.hR hcplt
  · rw [hA.opR, hR4]
  · exact upd_injOn I.inj hne (fun x hx => (I.cp x hx).2.1)
  · -- the copies
    intro x hx
    rw [hpar x hx]
    rw [List.mem_append, List.mem_singleton] at hx
    rcases hx with hx | rfl
    · obtain ⟨c1, c2, c3, c4, c5, c6, c7⟩ := I.cp x hx
      rw [upd_ne φ _ (hne x hx)]
      have hox : w5.op (φ x.node) = wi.op (φ x.node) := hop5 _ c2 (by omega)
      rw [hox, hlnk5 _ c3]
      refine ⟨c1, by rw [hA.opsz]; omega, Nat.lt_of_lt_of_le c3 (Nat.le_trans E4.lnksz hA.lnksz), c4, c5, c6, ?_⟩
      exact CopyOf.stable f x.node (φ x.node) c7 (fun j hj1 hj2 => hop5 j hj2 (by omega)) (by rw [hox]) hlnk5
        (by rw [hA.opsz]; exact E4.opsz) (Nat.le_trans E4.lnksz hA.lnksz)
    · rw [upd_self]
      have hrel : x.parent ≠ none → (w5.lnk (w5.op wi.ops.size).link).rel = (w.lnk (w.op x.node).link).rel := by
        intro hp
        rw [hA.cpRel hp, op_congr' h4.ops, spec.ownLink, lnk_congr' h4.links, spec.ownLnk]
      have hrefs := hA.cpRefs
      rw [hpar x (by simp)] at hrefs
      refine ⟨I.hR, by rw [hA.opsz]; exact hcplt, hA.cpLink, hA.cpMulti, hrefs, hrel, ?_⟩
      have hc4 : CopyOf w w4 f x.node wi.ops.size := spec.image.ext h4.ext spec.opsz
      exact CopyOf.stable f x.node wi.ops.size hc4
        (fun j hj1 _ => hA.opOther j (by omega) (by omega)) hA.opCp hA.oldlnk (by rw [hA.opsz]; exact Nat.le_refl _)
        hA.lnksz
  · -- hit
    intro x hx
    rw [List.mem_append, List.mem_singleton] at hx
    rcases hx with hx | rfl
    · have hxmem : x.node ∈ A.flatMap (fun m => m.node :: w.desc f m.node) :=
        List.mem_flatMap.mpr ⟨x, hx, by simp⟩
      obtain ⟨q1, q2⟩ := k3 x.node hxmem
      rw [upd_ne φ _ (hne x hx), lookup_get_set_ne _ _ _ _ q1,
        spec.lkFrame _ (fun y hy h => q2 y hy h.symm)]
      exact I.hit x hx
    · rw [upd_self, lookup_get_set_eq]
  · -- lkFrame
    intro key hkey
    have h1 : key ≠ w.eqKey e.node := fun h => hkey e.node (List.mem_flatMap.mpr ⟨e, by simp, by simp⟩) h.symm
    rw [lookup_get_set_ne _ _ _ _ h1, spec.lkFrame key (fun x hx =>
      hkey x (List.mem_flatMap.mpr ⟨e, by simp, by simp [hx]⟩))]
    exact I.lkFrame key (fun x hx => hkey x (by
      rw [List.flatMap_append, List.mem_append]; exact Or.inl hx))
  · -- lkRange
    intro x hx
    rw [List.flatMap_append, List.mem_append] at hx
    rcases hx with hx | hx
    · obtain ⟨v, hv, hv1, hv2⟩ := I.lkRange x hx
      obtain ⟨q1, q2⟩ := k3 x hx
      refine ⟨v, ?_, hv1, by rw [hA.opsz]; omega⟩
      rw [lookup_get_set_ne _ _ _ _ q1, spec.lkFrame _ (fun y hy h => q2 y hy h.symm)]
      exact hv
    · simp only [List.flatMap_cons, List.flatMap_nil, List.append_nil, List.mem_cons] at hx
      rcases hx with rfl | hx
      · exact ⟨wi.ops.size, lookup_get_set_eq _ _ _, I.hR, by rw [hA.opsz]; exact hcplt⟩
      · obtain ⟨v, hv, hv1, hv2⟩ := spec.lkRange x hx
        refine ⟨v, ?_, by have := I.hR; omega, by rw [hA.opsz, h4.ops]; exact hv2⟩
        rw [lookup_get_set_ne _ _ _ _ (k2 x hx)]
        exact hv
  · -- loc
    intro x hx key hkey
    by_cases hk : key = w.eqKey e.node
    · rw [hk, lookup_get_set_eq] at hkey
      rw [List.mem_append, List.mem_singleton] at hx
      rcases hx with hx | rfl
      · rw [upd_ne φ _ (hne x hx)] at hkey
        have := (I.cp x hx).2.1
        have := Option.some.inj hkey
        omega
      · exact hk
    · rw [lookup_get_set_ne _ _ _ _ hk] at hkey
      by_cases hd : ∃ y ∈ w.desc f e.node, w.eqKey y = key
      · obtain ⟨y, hy, hyk⟩ := hd
        obtain ⟨v, hv, hv1, _⟩ := spec.lkRange y hy
        rw [hyk, hkey] at hv
        have hv' := Option.some.inj hv
        rw [List.mem_append, List.mem_singleton] at hx
        rcases hx with hx | rfl
        · rw [upd_ne φ _ (hne x hx)] at hv'
          have := (I.cp x hx).2.1
          omega
        · rw [upd_self] at hv'; omega
      · have hd' : ∀ y ∈ w.desc f e.node, w.eqKey y ≠ key := fun y hy h => hd ⟨y, hy, h⟩
        rw [spec.lkFrame key hd'] at hkey
        rw [List.mem_append, List.mem_singleton] at hx
        rcases hx with hx | rfl
        · rw [upd_ne φ _ (hne x hx)] at hkey
          exact I.loc x hx key hkey
        · rw [upd_self] at hkey
          have := I.val key _ hkey
          omega
  · -- val
    intro key v hkv
    rw [hA.opsz]
    by_cases hk : key = w.eqKey e.node
    · rw [hk, lookup_get_set_eq] at hkv
      have := Option.some.inj hkv
      omega
    · rw [lookup_get_set_ne _ _ _ _ hk] at hkv
      by_cases hd : ∃ y ∈ w.desc f e.node, w.eqKey y = key
      · obtain ⟨y, hy, hyk⟩ := hd
        obtain ⟨v', hv, _, hv2⟩ := spec.lkRange y hy
        rw [hyk, hkv] at hv
        have := Option.some.inj hv
        rw [h4.ops]; omega
      · have hd' : ∀ y ∈ w.desc f e.node, w.eqKey y ≠ key := fun y hy h => hd ⟨y, hy, h⟩
        rw [spec.lkFrame key hd'] at hkv
        have := I.val key v hkv
        omega
  · -- links
    intro base hb hd
    have h1 := spec.links base (Nat.le_trans hb I.ext.opsz) (I.links base hb hd)
    exact LinkDistinct.added hA (LinkDistinct.congr h4.ops h4.links h1)
  · -- the descendants of the copies are pairwise different objects
    rw [List.flatMap_append, List.nodup_append]
    have hold : A.flatMap (fun m => upd φ e.node wi.ops.size m.node :: w5.desc f (upd φ e.node wi.ops.size m.node)) =
        A.flatMap (fun m => φ m.node :: wi.desc f (φ m.node)) := by
      apply flatMap_congr'
      intro m hm
      obtain ⟨c1, c2, _, _, _, _, c7⟩ := I.cp m hm
      rw [upd_ne φ _ (hne m hm)]
      rw [desc_stable f m.node (φ m.node) c7 (fun j hj1 hj2 => hop5 j hj2 (by omega))
        (by rw [hop5 _ c2 (by omega)])]
    have hc4 : CopyOf w w4 f e.node wi.ops.size := spec.image.ext h4.ext spec.opsz
    have hnew' : w5.desc f wi.ops.size = r.1.desc f wi.ops.size := by
      rw [desc_stable f e.node wi.ops.size hc4 (fun j hj1 _ => hA.opOther j (by omega) (by omega)) hA.opCp]
      exact desc_congr_ops h4.ops f _
    have hrange := desc_copyOf_range f e.node wi.ops.size spec.image
    refine ⟨by rw [hold]; exact I.dnodup, ?_, ?_⟩
    · simp only [List.flatMap_cons, List.flatMap_nil, List.append_nil, upd_self]
      rw [hnew', List.nodup_cons]
      refine ⟨?_, spec.descNodup⟩
      intro hmem
      have := (hrange _ hmem).1
      omega
    · intro a ha b hb
      rw [hold] at ha
      simp only [List.flatMap_cons, List.flatMap_nil, List.append_nil, upd_self, hnew'] at hb
      have halt : a < wi.ops.size := by
        obtain ⟨m, hm, ha⟩ := List.mem_flatMap.mp ha
        obtain ⟨c1, c2, _, _, _, _, c7⟩ := I.cp m hm
        rcases List.mem_cons.mp ha with rfl | ha
        · exact c2
        · exact (desc_copyOf_range f m.node (φ m.node) c7 a ha).2
      have hbge : wi.ops.size ≤ b := by
        rcases List.mem_cons.mp hb with rfl | hb
        · exact Nat.le_refl _
        · exact Nat.le_of_lt (hrange b hb).1
      omega

/-! ### the loop and the induction on the fuel -/

theorem TreeOk.lt {w : World} {f n : Nat} (h : TreeOk w f n) :
    n < w.ops.size ∧ (w.op n).link < w.links.size ∧ (w.lnk (w.op n).link).multi = false := by
  cases f with
  | zero => exact absurd h (by simp [TreeOk])
  | succ f => unfold TreeOk at h; exact ⟨h.1, h.2.1, h.2.2.1⟩

/-- the statement proved by induction on the fuel. -/
def SpecAt (w : World) (f : Nat) : Prop :=
  ∀ (n : Nat) (wi : World) (lk : Lookup), TreeOk w f n → Ext w wi → ((w.desc f n).map w.eqKey).Nodup →
    LkVal lk wi.ops.size → f ≤ w.depthFuel → CopySpec w f n wi lk (wi.copyObj f n lk)

theorem cpStep_ninv {w : World} {f R : Nat} {c0 : Op} {we : World} {lk0 : Lookup} {P : Nat → Prop} {φ : Nat → Nat} {S A B : List Entry}
    {e : Entry} {wi : World} {lk : Lookup} (IH : SpecAt w f) (H : NHyp w f S) (hs : S = A ++ e :: B)
    (hbase : Ext w we) (hRwe : we.ops.size ≤ R) (I : NInv w f R c0 we lk0 P φ A wi lk) :
    NInv w f R c0 we lk0 P (upd φ e.node wi.ops.size) (A ++ [e]) (cpStep f R (wi, lk) e.node).1
      (cpStep f R (wi, lk) e.node).2 := by
  have heS : e ∈ S := by rw [hs]; simp
  have hExt : Ext w wi := hbase.trans I.ext
  obtain ⟨k1, _, _⟩ := H.keys_split hs
  have spec := IH e.node wi lk (H.sub e heS) hExt k1 I.val H.fuel
  have hkey : wi.eqKey e.node = w.eqKey e.node := hExt.eqKey (H.sub e heS).lt.1
  have aux : ∀ w4 : World, SameHeap w4 (wi.copyObj f e.node lk).1 →
      NInv w f R c0 we lk0 P (upd φ e.node wi.ops.size) (A ++ [e]) (w4.add R wi.ops.size)
        ((wi.copyObj f e.node lk).2.2.set (w.eqKey e.node) wi.ops.size) :=
    fun w4 h4 => node_inv H hs hRwe I spec h4 (node_added H hs hbase I spec h4)
  unfold cpStep
  simp only
  rw [hkey, spec.id]
  split
  · exact aux _ ⟨rfl, rfl, rfl, SameEnv.refl _⟩
  · exact aux _ ⟨rfl, rfl, rfl, SameEnv.refl _⟩

theorem cpFold_ninv {w : World} {f R : Nat} {c0 : Op} {we : World} {lk0 : Lookup} {P : Nat → Prop} {S : List Entry}
    (IH : SpecAt w f) (H : NHyp w f S) (hbase : Ext w we) (hRwe : we.ops.size ≤ R) :
    ∀ (B A : List Entry) (φ : Nat → Nat) (wi : World) (lk : Lookup), S = A ++ B → NInv w f R c0 we lk0 P φ A wi lk →
      ∃ φ', NInv w f R c0 we lk0 P φ' S ((B.map (·.node)).foldl (cpStep f R) (wi, lk)).1
        ((B.map (·.node)).foldl (cpStep f R) (wi, lk)).2 := by
  intro B
  induction B with
  | nil =>
    intro A φ wi lk hs I
    rw [List.append_nil] at hs
    subst hs
    exact ⟨φ, I⟩
  | cons e B ih =>
    intro A φ wi lk hs I
    simp only [List.map_cons, List.foldl_cons]
    exact ih (A ++ [e]) _ _ _ (by rw [hs]; simp) (cpStep_ninv IH H hs hbase hRwe I)

/-- `RootsApart` in the form the loop uses it. -/
theorem apart_split {w : World} {g : List Entry} (hb : Built g) (hap : RootsApart w g) {A B : List Entry} {e : Entry}
    (hs : sortedEntries g = A ++ e :: B) (hp : e.parent = none) :
    ∀ x ∈ A, chMatch (w.chansOf e.node) (w.chansOf x.node) = false := by
  intro x hx
  have hbs := built_sortedEntries hb
  have heS : e ∈ sortedEntries g := by rw [hs]; simp
  have hxS : x ∈ sortedEntries g := by rw [hs]; simp [hx]
  have hxlen := (sorted_split_depth hs).1 x hx
  have helen := (hbs.root_iff heS).mp hp
  have hxne : 0 < x.key.length := List.length_pos_iff.mpr (hbs.key_ne_nil hxS)
  have hxroot : x.parent = none := (hbs.root_iff hxS).mpr (by omega)
  unfold RootsApart heads at hap
  rw [hs, List.filter_append, List.filter_cons] at hap
  simp only [hp, Option.isNone_none, if_true, List.map_append, List.map_cons] at hap
  rw [List.pairwise_append] at hap
  exact hap.2.2 x.node (List.mem_map.mpr ⟨x, List.mem_filter.mpr ⟨hx, by simp [hxroot]⟩, rfl⟩) e.node (by simp)

theorem desc_comp (w : World) (f o : Nat) (h : (w.op o).isComp = true) :
    w.desc (f + 1) o = (sortedEntries (w.op o).graph).flatMap (fun m => m.node :: w.desc f m.node) := by
  rw [World.desc, if_pos h]
  unfold listing
  rw [List.flatMap_map]

theorem desc_leaf (w : World) (f o : Nat) (h : (w.op o).isComp = false) : w.desc (f + 1) o = [] := by
  rw [World.desc, if_neg (by simp [h])]

theorem TreeOk.toHyp {w : World} {f o : Nat} (h : TreeOk w (f + 1) o) (hc : (w.op o).isComp = true)
    (hk : ((w.desc (f + 1) o).map w.eqKey).Nodup) (hf : f + 1 ≤ w.depthFuel) :
    NHyp w f (sortedEntries (w.op o).graph) := by
  unfold TreeOk at h
  obtain ⟨hb, hsub, hchild, hroot, hap⟩ := h.2.2.2 hc
  refine ⟨built_sortedEntries hb, ?_, ?_, ?_, ?_, ?_, by omega⟩
  · intro e he; exact hsub e (mem_sortedEntries.mp he)
  · intro e he; exact hchild e (mem_sortedEntries.mp he)
  · intro e he hp r hr
    obtain ⟨h1, h2⟩ := hroot e (mem_sortedEntries.mp he) hp r hr
    exact ⟨h1, fun m hm => h2 m (mem_sortedEntries.mp hm)⟩
  · intro A e B hs hp; exact apart_split hb hap hs hp
  · rw [← desc_comp w f o hc]; exact hk

theorem copySpec_leaf {w : World} {f n : Nat} {wi : World} {lk : Lookup} (hT : TreeOk w (f + 1) n) (hE : Ext w wi)
    (hc : (w.op n).isComp = false) : CopySpec w (f + 1) n wi lk (wi.copyObj (f + 1) n lk) := by
  obtain ⟨hnlt, hnlink, hnm⟩ := hT.lt
  have hopn : wi.op n = w.op n := hE.oldop n hnlt
  have hlnk : wi.lnk (w.op n).link = w.lnk (w.op n).link := hE.oldlnk _ hnlink
  have hm : (wi.lnk (wi.op n).link).multi = false := by rw [hopn, hlnk]; exact hnm
  obtain ⟨rg, hcl⟩ := copyLeaf_single wi n lk hm
  rw [hopn, hlnk] at hcl
  rw [copyObj_leaf wi f n lk (by rw [hopn]; exact hc), hcl]
  refine ⟨rfl, ?_, ?_, ?_, ?_, ?_, ?_, ?_, ?_, ?_, ?_⟩
  · simp
  · exact ⟨by simp, by simp, fun j hj => op_push_lt rfl hj, fun l hl => lnk_push_lt rfl hl, rfl, SameEnv.refl _⟩
  · simp only
    rw [op_push_eq (w := wi) rfl]
  · simp
  · exact lnk_push_eq (w := wi) rfl
  · unfold CopyOf
    rw [if_neg (by simp [hc])]
    exact ⟨wi.links.size, rg, op_push_eq (w := wi) rfl⟩
  · intro key _; rfl
  · intro x hx
    rw [desc_leaf w f n hc] at hx
    cases hx
  · intro base _ hd
    exact LinkDistinct.newobj (w := wi) (O := { (w.op n).copyFields with link := wi.links.size, reg := rg }) rfl
      (Nat.le_refl _) (by simp) hd
  · simp only
    rw [World.desc, op_push_eq (w := wi) rfl, if_neg]
    · exact List.nodup_nil
    · show ¬ ((w.op n).copyFields.cls == Cls.comp) = true
      rw [copyFields_cls']
      simpa [Op.isComp] using hc

theorem copySpec_comp {w : World} {f o : Nat} {wi : World} {lk : Lookup} (IH : SpecAt w f) (hT : TreeOk w (f + 1) o)
    (hE : Ext w wi) (hk : ((w.desc (f + 1) o).map w.eqKey).Nodup) (hv : LkVal lk wi.ops.size)
    (hf : f + 1 ≤ w.depthFuel) (hc : (w.op o).isComp = true) :
    CopySpec w (f + 1) o wi lk (wi.copyObj (f + 1) o lk) := by
  obtain ⟨holt, holink, hom⟩ := hT.lt
  have hopo : wi.op o = w.op o := hE.oldop o holt
  have hlnk : wi.lnk (w.op o).link = w.lnk (w.op o).link := hE.oldlnk _ holink
  have hm : (wi.lnk (w.op o).link).multi = false := by rw [hlnk]; exact hom
  have H := hT.toHyp hc hk hf
  rw [copyObj_comp' wi f o lk (by rw [hopo]; exact hc), hopo, copyLink_single wi _ lk hm, hlnk]
  simp only
  -- the heap after the link copy (`we`) and after the allocation of the new composite (`w0`)
  generalize hwe : ({ wi with links := (wi.links.push
      { refs := copyRefs wi (w.op o).link lk, rel := (w.lnk (w.op o).link).rel }) } : World) = we
  have hweops : we.ops = wi.ops := by subst hwe; rfl
  have hwelinks : we.links = (wi.links.push
      { refs := copyRefs wi (w.op o).link lk, rel := (w.lnk (w.op o).link).rel }) := by subst hwe; rfl
  have hEwe : Ext wi we := by
    subst hwe
    exact ⟨Nat.le_refl _, by simp, fun _ _ => rfl, fun l hl => lnk_push_lt rfl hl, rfl, SameEnv.refl _⟩
  have hwesz : we.ops.size = wi.ops.size := by rw [hweops]
  have hbase : Ext w we := hE.trans hEwe
  have base : NInv w f wi.ops.size { cls := .comp, link := wi.links.size, rep := (w.op o).rep } we lk (fun base => LinkDistinct base wi) (fun _ => 0) []
      (we.newOp { cls := .comp, link := wi.links.size, rep := (w.op o).rep }).1 lk := by
    have hops : (we.newOp { cls := .comp, link := wi.links.size, rep := (w.op o).rep }).1.ops =
        we.ops.push { cls := .comp, link := wi.links.size, rep := (w.op o).rep } := rfl
    refine ⟨⟨by rw [hops]; simp, Nat.le_refl _, fun j hj => op_push_lt hops hj, fun _ _ => rfl, rfl, SameEnv.refl _⟩,
      by rw [hops, hweops]; simp, ?_, ?_, ?_, ?_, ?_, ?_, ?_, ?_, ?_, ?_⟩
    · rw [← hwesz]; exact op_push_eq hops
    · intro a ha; cases ha
    · intro e he; cases he
    · intro e he; cases he
    · intro key _; rfl
    · intro x hx; cases hx
    · intro e he; cases he
    · intro key v h
      have := hv key v h
      rw [hops, hweops]; simp; omega
    · intro base _ hd
      exact LinkDistinct.newobj (w := wi) (O := { cls := .comp, link := wi.links.size, rep := (w.op o).rep })
        (by rw [hops, hweops]) (Nat.le_refl _) (by show wi.links.size < we.links.size; rw [hwelinks]; simp) hd
    · exact List.nodup_nil
  obtain ⟨φ, I⟩ := cpFold_ninv IH H hbase (by rw [hwesz]; exact Nat.le_refl _)
    (sortedEntries (w.op o).graph) [] (fun _ => 0) _ lk rfl base
  show CopySpec w (f + 1) o wi lk
    (((listing (w.op o).graph).foldl (cpStep f wi.ops.size)
        ((we.newOp { cls := .comp, link := wi.links.size, rep := (w.op o).rep }).1, lk)).1, wi.ops.size,
     ((listing (w.op o).graph).foldl (cpStep f wi.ops.size)
        ((we.newOp { cls := .comp, link := wi.links.size, rep := (w.op o).rep }).1, lk)).2)
  have hlst : listing (w.op o).graph = (sortedEntries (w.op o).graph).map (·.node) := rfl
  rw [hlst]
  generalize ((sortedEntries (w.op o).graph).map (·.node)).foldl (cpStep f wi.ops.size)
      ((we.newOp { cls := .comp, link := wi.links.size, rep := (w.op o).rep }).1, lk) = res at I
  have hlsz : wi.links.size < we.links.size := by rw [hwelinks]; simp
  refine ⟨rfl, I.hR, hEwe.trans I.ext, ?_, Nat.lt_of_lt_of_le hlsz I.ext.lnksz, ?_, ?_, ?_, ?_, ?_, ?_⟩
  · rw [I.resop]
  · rw [I.ext.oldlnk _ hlsz]
    exact lnk_push_eq hwelinks
  · unfold CopyOf
    rw [if_pos hc]
    refine ⟨by rw [I.resop], by rw [I.resop], φ, I.inj, by rw [I.resop], ?_⟩
    intro e he
    exact I.cp e he
  · intro key hkey
    rw [desc_comp w f o hc] at hkey
    exact I.lkFrame key hkey
  · intro x hx
    rw [desc_comp w f o hc] at hx
    exact I.lkRange x hx
  · intro base hb hd
    exact I.links base (by rw [hwesz]; exact hb) hd
  · have hcR : (res.1.op wi.ops.size).isComp = true := by rw [I.resop]; rfl
    simp only
    rw [World.desc, if_pos hcR, I.resop]
    show ((listing ((sortedEntries (w.op o).graph).map (Entry.image φ))).flatMap _).Nodup
    rw [listing_image, hlst, List.map_map, List.flatMap_map]
    exact I.dnodup

/-- **the specification holds for every fuel.** -/
theorem copyObj_spec (w : World) : ∀ f, SpecAt w f := by
  intro f
  induction f with
  | zero => intro n wi lk hT; exact absurd hT (by simp [TreeOk])
  | succ f ih =>
    intro n wi lk hT hE hk hv hf
    by_cases hc : (w.op n).isComp = true
    · exact copySpec_comp ih hT hE hk hv hf hc
    · exact copySpec_leaf hT hE (by simpa using hc)

/-! ### fuel -/

theorem TreeOk.mono {w : World} : ∀ (f o : Nat), TreeOk w f o → TreeOk w (f + 1) o := by
  intro f
  induction f with
  | zero => intro o h; exact absurd h (by simp [TreeOk])
  | succ f ih =>
    intro o h
    unfold TreeOk at h ⊢
    obtain ⟨h1, h2, h3, h4⟩ := h
    refine ⟨h1, h2, h3, fun hc => ?_⟩
    obtain ⟨a1, a2, a3, a4, a5⟩ := h4 hc
    exact ⟨a1, fun e he => ih e.node (a2 e he), a3, a4, a5⟩

theorem TreeOk.mono_le {w : World} {f f' o : Nat} (hle : f ≤ f') (h : TreeOk w f o) : TreeOk w f' o := by
  induction hle with
  | refl => exact h
  | step _ ih => exact TreeOk.mono _ _ ih

/-- once the fuel covers the depth of the tree, the list of descendants does not depend on it. -/
theorem desc_mono {w : World} : ∀ (f o : Nat), TreeOk w f o → w.desc (f + 1) o = w.desc f o := by
  intro f
  induction f with
  | zero => intro o h; exact absurd h (by simp [TreeOk])
  | succ f ih =>
    intro o h
    by_cases hc : (w.op o).isComp = true
    · unfold TreeOk at h
      obtain ⟨_, hsub, _⟩ := h.2.2.2 hc
      rw [desc_comp w (f + 1) o hc, desc_comp w f o hc]
      apply flatMap_congr'
      intro m hm
      rw [ih m.node (hsub m (mem_sortedEntries.mp hm))]
    · have hc' : (w.op o).isComp = false := by simpa using hc
      rw [desc_leaf w (f + 1) o hc', desc_leaf w f o hc']

theorem desc_mono_le {w : World} {f f' o : Nat} (hle : f ≤ f') (h : TreeOk w f o) : w.desc f' o = w.desc f o := by
  induction hle with
  | refl => rfl
  | step hle' ih => rw [desc_mono _ o (TreeOk.mono_le hle' h), ih]

/-! ### the nested copy theorem -/

/-- **hypotheses of the nested graph-level copy theorem**: the tree below `o` is well formed within depth `d`
    (`TreeOk`: H2–H4 at every level) and all objects below `o`, at all levels, are pairwise distinct as keys of the shared
    transfer lookup, each occurring once (H1 over everything reachable from `o`). -/
structure NestedOk (w : World) (d o : Nat) : Prop where
  fuel : d ≤ w.depthFuel
  tree : TreeOk w d o
  keys : ((w.desc d o).map w.eqKey).Nodup

/-- **`w.copy o` of a well-formed nested block**: the copy is the fresh object `w.ops.size`, its tree is the image of the
    tree of `o` level by level (`CopyOf`), and nothing that existed is written. -/
theorem copy_nested (w : World) (d o : Nat) (H : NestedOk w d o) :
    (w.copy o).2 = w.ops.size ∧ CopyOf w (w.copy o).1 w.depthFuel o (w.copy o).2 ∧ Ext w (w.copy o).1 := by
  have hT : TreeOk w w.depthFuel o := TreeOk.mono_le H.fuel H.tree
  have hk : ((w.desc w.depthFuel o).map w.eqKey).Nodup := by rw [desc_mono_le H.fuel H.tree]; exact H.keys
  have spec := copyObj_spec w w.depthFuel o w [] hT (Ext.refl w) hk (fun key v h => by cases h) (Nat.le_refl _)
  have h1 : (w.copy o).1 = (w.copyObj w.depthFuel o []).1 := rfl
  have h2 : (w.copy o).2 = (w.copyObj w.depthFuel o []).2.1 := rfl
  rw [h1, h2, spec.id]
  exact ⟨rfl, spec.image, spec.ext⟩

/-- the same for the inner call with an arbitrary lookup whose values are existing objects (e.g. the lookup
    `{sub: parent}` of `add_sub_circuit`). -/
theorem copyObj_nested (w : World) (d o : Nat) (lk : Lookup) (H : NestedOk w d o) (hv : LkVal lk w.ops.size) :
    (w.copyObj w.depthFuel o lk).2.1 = w.ops.size ∧
    CopyOf w (w.copyObj w.depthFuel o lk).1 w.depthFuel o w.ops.size ∧ Ext w (w.copyObj w.depthFuel o lk).1 ∧
    (∀ key, (∀ x ∈ w.desc d o, w.eqKey x ≠ key) → (w.copyObj w.depthFuel o lk).2.2.get? key = lk.get? key) := by
  have hT : TreeOk w w.depthFuel o := TreeOk.mono_le H.fuel H.tree
  have hd := desc_mono_le H.fuel H.tree
  have hk : ((w.desc w.depthFuel o).map w.eqKey).Nodup := by rw [hd]; exact H.keys
  have spec := copyObj_spec w w.depthFuel o w lk hT (Ext.refl w) hk hv (Nat.le_refl _)
  refine ⟨spec.id, spec.image, spec.ext, ?_⟩
  intro key hkey
  exact spec.lkFrame key (by rw [hd]; exact hkey)

/-! ### what `CopyOf` says, unfolded one level -/

/-- at a composite: same count, and a node map `φ`, injective on the listing, under which the copy's listing and entries
    are the images of the original's; every node's link is single and refers to the copy of the node's tree parent (the
    relation type kept for these internal relations; depth-1 nodes carry no reference: outside relations are dropped);
    every node is a copy in turn. -/
theorem CopyOf.comp {w w' : World} {f o o' : Nat} (h : CopyOf w w' (f + 1) o o') (hc : (w.op o).isComp = true) :
    (w'.op o').cls = .comp ∧ (w'.op o').rep = (w.op o).rep ∧
    ∃ φ : Nat → Nat,
      (∀ a ∈ listing (w.op o).graph, ∀ b ∈ listing (w.op o).graph, φ a = φ b → a = b) ∧
      listing (w'.op o').graph = (listing (w.op o).graph).map φ ∧
      (w'.op o').graph.length = (w.op o).graph.length ∧
      (∀ e ∈ (w.op o).graph,
        ({ node := φ e.node, parent := e.parent.map φ, key := e.key } : Entry) ∈ (w'.op o').graph) ∧
      ∀ e ∈ (w.op o).graph,
        o' < φ e.node ∧ φ e.node < w'.ops.size ∧
        (w'.lnk (w'.op (φ e.node)).link).multi = false ∧
        (w'.lnk (w'.op (φ e.node)).link).refs = (e.parent.map φ).toList ∧
        (e.parent ≠ none → (w'.lnk (w'.op (φ e.node)).link).rel = (w.lnk (w.op e.node).link).rel) ∧
        CopyOf w w' f e.node (φ e.node) := by
  unfold CopyOf at h
  rw [if_pos hc] at h
  obtain ⟨h1, h2, φ, hφ, hg, hall⟩ := h
  refine ⟨h1, h2, φ, ?_, ?_, ?_, ?_, ?_⟩
  · intro a ha b hb hab
    obtain ⟨ea, hea, rfl⟩ := List.mem_map.mp ha
    obtain ⟨eb, heb, rfl⟩ := List.mem_map.mp hb
    exact hφ ea hea eb heb hab
  · rw [hg]; exact listing_image _ _
  · rw [hg, List.length_map]; exact (sortedEntries_perm _).length_eq
  · intro e he
    rw [hg]
    exact List.mem_map.mpr ⟨e, mem_sortedEntries.mpr he, rfl⟩
  · intro e he
    obtain ⟨a1, a2, _, a4, a5, a6, a7⟩ := hall e (mem_sortedEntries.mpr he)
    exact ⟨a1, a2, a4, a5, a6, a7⟩

/-- at a leaf operation: the class-faithful fields. -/
theorem CopyOf.leaf {w w' : World} {f o o' : Nat} (h : CopyOf w w' (f + 1) o o') (hc : (w.op o).isComp = false) :
    (w'.op o').cls = (w.op o).copyFields.cls ∧ (w'.op o').qs = (w.op o).copyFields.qs ∧
    (w'.op o').chan = (w.op o).copyFields.chan ∧ (w'.op o').dur = (w.op o).copyFields.dur ∧
    (w'.op o').tag = (w.op o).copyFields.tag ∧ (w'.op o').ints = (w.op o).copyFields.ints := by
  unfold CopyOf at h
  rw [if_neg (by simp [hc])] at h
  obtain ⟨l, rg, h⟩ := h
  rw [h]
  exact ⟨rfl, rfl, rfl, rfl, rfl, rfl⟩

/-! ### the copy is well formed again -/

/-- two objects with the same lookup key are the same object or carry the same link object. -/
theorem eqKey_eq_cases (w : World) (x y : Nat) (h : w.eqKey x = w.eqKey y) :
    x = y ∨ (w.op x).link = (w.op y).link := by
  unfold World.eqKey at h
  simp only at h
  split at h
  · left; exact EqKey.ident.inj h
  · split at h <;> split at h <;> first
      | (left; exact EqKey.ident.inj h) | (cases h) | (right; injection h)

/-- **the copy of a well-formed tree is a well-formed tree** (given that the copy itself exists with an allocated single
    link — the caller's business). -/
theorem TreeOk.copy {w w' : World} : ∀ (f o o' : Nat), CopyOf w w' f o o' → TreeOk w f o → f ≤ w.depthFuel →
    w.ops.size ≤ w'.ops.size → o' < w'.ops.size → (w'.op o').link < w'.links.size →
    (w'.lnk (w'.op o').link).multi = false → TreeOk w' f o' := by
  intro f
  induction f with
  | zero => intro o o' h; exact absurd h (by simp [CopyOf])
  | succ f ih =>
    intro o o' h hT hf hsz ho' hl' hm'
    unfold TreeOk
    refine ⟨ho', hl', hm', fun hc' => ?_⟩
    unfold CopyOf at h
    by_cases hc : (w.op o).isComp = true
    · rw [if_pos hc] at h
      obtain ⟨_, _, φ, hφ, hg, hall⟩ := h
      unfold TreeOk at hT
      obtain ⟨hb, hsub, hchild, hroot, hap⟩ := hT.2.2.2 hc
      have hent : ∀ e' ∈ (w'.op o').graph, ∃ e ∈ sortedEntries (w.op o).graph, e' = e.image φ := by
        intro e' he'
        rw [hg] at he'
        obtain ⟨e, he, hee⟩ := List.mem_map.mp he'
        exact ⟨e, he, hee.symm⟩
      refine ⟨?_, ?_, ?_, ?_, ?_⟩
      · rw [hg]; exact built_image (built_sortedEntries hb) φ hφ
      · intro e' he'
        obtain ⟨e, he, rfl⟩ := hent e' he'
        obtain ⟨_, a2, a3, a4, _, _, a7⟩ := hall e he
        exact ih e.node (φ e.node) a7 (hsub e (mem_sortedEntries.mp he)) (by omega) hsz a2 a3 a4
      · intro e' he' p' hp'
        obtain ⟨e, he, rfl⟩ := hent e' he'
        obtain ⟨_, _, _, _, a5, _, _⟩ := hall e he
        simp only [Entry.image_node, Entry.image_parent] at hp' ⊢
        rw [a5, hp']; rfl
      · intro e' he' hp' r hr
        obtain ⟨e, he, rfl⟩ := hent e' he'
        obtain ⟨_, _, _, _, a5, _, _⟩ := hall e he
        simp only [Entry.image_node, Entry.image_parent] at hp' hr
        rw [a5, hp'] at hr
        cases hr
      · unfold RootsApart at hap ⊢
        rw [hg, heads_image, List.pairwise_map]
        have hch : ∀ x ∈ heads (w.op o).graph, w'.chansOf (φ x) = w.chansOf x := by
          intro x hx
          unfold heads at hx
          obtain ⟨e, he, rfl⟩ := List.mem_map.mp hx
          exact chansOf_copyOf (hall e (List.mem_filter.mp he).1).2.2.2.2.2.2 (by omega) hsz
        rw [List.pairwise_iff_forall_sublist] at hap ⊢
        intro a b hab
        rw [hch a (hab.subset (by simp)), hch b (hab.subset (by simp))]
        exact hap hab
    · rw [if_neg hc] at h
      obtain ⟨l, rg, h⟩ := h
      exfalso
      rw [h] at hc'
      have : ((w.op o).copyFields.cls == Cls.comp) = true := hc'
      rw [copyFields_cls'] at this
      exact hc this

/-- **`w.copy o` of a well-formed nested block** — full statement: fresh identity, image tree, frame, and the copy satisfies
    the hypotheses again (so the theorem can be iterated). -/
theorem copy_nested_full (w : World) (d o : Nat) (H : NestedOk w d o) :
    (w.copy o).2 = w.ops.size ∧ CopyOf w (w.copy o).1 w.depthFuel o (w.copy o).2 ∧ Ext w (w.copy o).1 ∧
    NestedOk (w.copy o).1 w.depthFuel (w.copy o).2 := by
  have hT : TreeOk w w.depthFuel o := TreeOk.mono_le H.fuel H.tree
  have hk : ((w.desc w.depthFuel o).map w.eqKey).Nodup := by rw [desc_mono_le H.fuel H.tree]; exact H.keys
  have spec := copyObj_spec w w.depthFuel o w [] hT (Ext.refl w) hk (fun key v h => by cases h) (Nat.le_refl _)
  have h1 : (w.copy o).1 = (w.copyObj w.depthFuel o []).1 := rfl
  have h2 : (w.copy o).2 = (w.copyObj w.depthFuel o []).2.1 := rfl
  rw [h1, h2, spec.id]
  have hld : LinkDistinct w.ops.size (w.copyObj w.depthFuel o []).1 :=
    spec.links w.ops.size (Nat.le_refl _) ⟨fun j h1 h2 => by omega, fun i j h1 h2 h3 => by omega⟩
  have hm : ((w.copyObj w.depthFuel o []).1.lnk ((w.copyObj w.depthFuel o []).1.op w.ops.size).link).multi = false := by
    rw [spec.ownLink, spec.ownLnk]
  have hT' := TreeOk.copy w.depthFuel o w.ops.size spec.image hT (Nat.le_refl _) spec.ext.opsz spec.opsz
    (by rw [spec.ownLink]; exact spec.ownLt) hm
  refine ⟨rfl, spec.image, spec.ext, ⟨?_, hT', ?_⟩⟩
  · have := spec.ext.opsz
    show w.ops.size + 2 ≤ (w.copyObj w.depthFuel o []).1.ops.size + 2
    omega
  · apply nodup_map_of_injOn spec.descNodup
    intro a ha b hb hab
    have ra := desc_copyOf_range _ _ _ spec.image a ha
    have rb := desc_copyOf_range _ _ _ spec.image b hb
    rcases eqKey_eq_cases _ a b hab with h | h
    · exact h
    · rcases Nat.lt_trichotomy a b with hlt | heq | hgt
      · exact absurd h (hld.2 a b (by omega) hlt rb.2)
      · exact heq
      · exact absurd h.symm (hld.2 b a (by omega) hgt ra.2)

end Qco
