/-
  A small, explicitly specified fragment of Python ("mini-Python"): abstract syntax, values and a total
  interpreter.  Core Lean only (no Mathlib): the driver links this file and answers `py` queries with it.

  Purpose (DESIGN.md §2.3b): `tools/pylean.py` translates the SOURCE TEXT of selected functions of /repo (read with
  `ast` on every run) into values of `Py.FnDef` (`QcoVerif/Generated/PySrc*.lean`).  The `…_matches_source` theorems of
  the property files state that running the interpreter on that regenerated syntax gives, for ALL inputs, exactly what
  the hand-written model function gives.  The interpreter itself — the meaning this file gives to the fragment — is
  validated against CPython by the correspondence check (`harness/pysem.py`: the same function is run by CPython and
  by `Py.callFn` on generated arguments).

  What the fragment covers: integer arithmetic (`+ - * // % **`, unary minus), booleans used as integers as in
  Python, comparisons (single, not chained), `is (not) None`, `in / not in` on lists, `and / or / not` on booleans,
  conditional expressions, list and tuple displays, list concatenation, subscripts with a constant index, attribute
  access, calls of a few builtins (`max min len abs int range list sorted sum any all`) and of `np.asarray/np.array`
  with numpy's scalar broadcasting for `+`, method calls and unknown free functions through hooks of the environment;
  statements: (annotated) assignment to a name or a tuple of names, `+=`/`-=`, `if/elif/else`, `for` over a list
  with `continue`-free bodies, `return`, `raise`, `pass`, expression statements.  Anything else is translated to
  `unsupported` and evaluates to `Val.err`, so a theorem about such a function cannot be proved.

  Floats: a float literal is kept as an exact fraction `flt num den`; the fragment gives it a meaning only where the
  modelled quantity is a time: `flt` evaluates to the integer number of 1/8 units (`num * 8 / den` if that is exact).
-/
namespace Qco.Py

inductive BinOp | add | sub | mul | floordiv | mod | pow
  deriving DecidableEq, Repr, Inhabited

inductive CmpOp | eq | ne | lt | le | gt | ge | is_ | isNot | in_ | notIn
  deriving DecidableEq, Repr, Inhabited

inductive Expr
  | int (i : Int)
  | flt (num : Int) (den : Nat)
  | bool (b : Bool)
  | none
  | str (s : String)
  | name (x : String)
  | enumc (cls : String) (member : String)
  | attr (e : Expr) (a : String)
  | bin (op : BinOp) (a b : Expr)
  | neg (a : Expr)
  | not (a : Expr)
  | and (a b : Expr)
  | or (a b : Expr)
  | cmp (op : CmpOp) (a b : Expr)
  | ite (c t e : Expr)
  | call (f : String) (args : List Expr)
  | mcall (recv : Expr) (m : String) (args : List Expr)
  | list (xs : List Expr)
  | tuple (xs : List Expr)
  | index (e : Expr) (i : Int)
  | comp (elt : Expr) (x : String) (iter : Expr)      -- `[elt for x in iter]` / a generator expression
  | compIf (elt : Expr) (x : String) (iter : Expr) (cond : Expr)   -- `[elt for x in iter if cond]`
  | compT (elt : Expr) (xs : List String) (iter : Expr)           -- `[elt for a, b, c in iter]` (tuple target)
  | fstr                                               -- an f-string: some string (its text is never looked at)
  | unsupported (what : String)
  deriving Repr, Inhabited

inductive Stmt
  | assign (x : String) (e : Expr)
  | assignTuple (xs : List String) (e : Expr)
  | aug (x : String) (op : BinOp) (e : Expr)
  | ret (e : Expr)
  | raise (what : String)
  | ifs (c : Expr) (t : List Stmt) (e : List Stmt)
  | for_ (x : String) (iter : Expr) (body : List Stmt)
  | setattr (obj : Expr) (a : String) (e : Expr)       -- `obj.a = e`   (an effect: logged, see `traceVar`)
  | setitem (obj : Expr) (key : Expr) (e : Expr)       -- `obj[key] = e` (an effect: logged)
  | expr (e : Expr)                                    -- expression statement; a call is an effect: logged
  | pass
  | unsupported (what : String)
  deriving Repr, Inhabited

/-- a translated function: parameter names (including `self`) and body. -/
structure FnDef where
  name : String
  decorators : List String := []
  params : List String
  body : List Stmt
  deriving Repr, Inhabited

/-- values. `obj cls ident fields`: an instance with an identity and the attributes the environment gives it;
    `arr`: a numpy array (scalar broadcasting on `+`/`-`/`*`). -/
inductive Val
  | int (i : Int)
  | bool (b : Bool)
  | none
  | str (s : String)
  | list (xs : List Val)
  | tuple (xs : List Val)
  | arr (xs : List Val)
  | enum (cls : String) (member : String)
  | obj (cls : String) (ident : Nat) (fields : List (String × Val))
  | err (why : String)
  deriving Repr, Inhabited

mutual
/-- Python `==` on the values of the fragment (objects by identity, `True == 1` as in Python). -/
def Val.beq : Val → Val → Bool
  | .int a, .int b => a == b
  | .bool a, .bool b => a == b
  | .int a, .bool b => a == (if b then 1 else 0)
  | .bool a, .int b => (if a then 1 else 0) == b
  | .none, .none => true
  | .str a, .str b => a == b
  | .list a, .list b => Val.beqList a b
  | .tuple a, .tuple b => Val.beqList a b
  | .arr a, .arr b => Val.beqList a b
  | .enum c m, .enum c' m' => c == c' && m == m'
  | .obj _ i _, .obj _ j _ => i == j
  | _, _ => false
def Val.beqList : List Val → List Val → Bool
  | [], [] => true
  | a :: as, b :: bs => Val.beq a b && Val.beqList as bs
  | _, _ => false
end

instance : BEq Val := ⟨Val.beq⟩

abbrev Vars := List (String × Val)

def Vars.get (vs : Vars) (x : String) : Val :=
  match vs.find? (fun p => p.1 == x) with
  | some p => p.2
  | none => .err ("unbound " ++ x)

def Vars.set (vs : Vars) (x : String) (v : Val) : Vars :=
  (x, v) :: vs.filter (fun p => !(p.1 == x))

/-- hooks for what lies outside the translated function: attributes that are computed properties of an object,
    methods, free functions. Each returns `none` when it does not know the name. -/
structure Env where
  attr : String → Nat → List (String × Val) → String → Option Val := fun _ _ _ _ => none
  method : Val → String → List Val → Option Val := fun _ _ _ => none
  func : String → List Val → Option Val := fun _ _ => none

/-- integer view of a value (Python: `bool` is a subtype of `int`). -/
def Val.asInt? : Val → Option Int
  | .int i => some i
  | .bool b => some (if b then 1 else 0)
  | _ => Option.none

def Val.truthy : Val → Option Bool
  | .bool b => some b
  | _ => Option.none

def Val.isErr : Val → Bool
  | .err _ => true
  | _ => false

/-- Python floor division and modulo on integers (`//`, `%`: result has the sign of the divisor). -/
def pyFloorDiv (a b : Int) : Int := Int.fdiv a b
def pyMod (a b : Int) : Int := Int.fmod a b

def intBin (op : BinOp) (a b : Int) : Val :=
  match op with
  | .add => .int (a + b)
  | .sub => .int (a - b)
  | .mul => .int (a * b)
  | .floordiv => if b == 0 then .err "ZeroDivisionError" else .int (pyFloorDiv a b)
  | .mod => if b == 0 then .err "ZeroDivisionError" else .int (pyMod a b)
  | .pow => if b < 0 then .err "negative power" else .int (a ^ b.toNat)

/-- scalar ∘ element for numpy broadcasting. -/
def broadcastL (op : BinOp) (a : Int) (xs : List Val) : Val :=
  .arr (xs.map (fun x => match x.asInt? with | some b => intBin op a b | none => .err "array element"))

def broadcastR (op : BinOp) (xs : List Val) (b : Int) : Val :=
  .arr (xs.map (fun x => match x.asInt? with | some a => intBin op a b | none => .err "array element"))

def evalBin (op : BinOp) (a b : Val) : Val :=
  match a, b with
  | .list xs, .list ys => if op == .add then .list (xs ++ ys) else .err "list operator"
  | .tuple xs, .tuple ys => if op == .add then .tuple (xs ++ ys) else .err "tuple operator"
  | .arr xs, .arr ys =>
      if xs.length == ys.length then
        .arr (List.zipWith (fun x y => match x.asInt?, y.asInt? with
          | some p, some q => intBin op p q | _, _ => .err "array element") xs ys)
      else .err "shape mismatch"
  | .arr xs, y => match y.asInt? with | some q => broadcastR op xs q | none => .err "array operand"
  | x, .arr ys => match x.asInt? with | some p => broadcastL op p ys | none => .err "array operand"
  | x, y => match x.asInt?, y.asInt? with
    | some p, some q => intBin op p q
    | _, _ => .err "operand types"

def Val.elems? : Val → Option (List Val)
  | .list xs => some xs
  | .tuple xs => some xs
  | .arr xs => some xs
  | _ => Option.none

/-- `a in xs` (Python compares with `==`). -/
def memVal (a : Val) (xs : List Val) : Bool := xs.any (fun x => x == a)

def evalCmp (op : CmpOp) (a b : Val) : Val :=
  match op with
  | .eq => .bool (a == b)
  | .ne => .bool (!(a == b))
  | .is_ => .bool (a == b)       -- the translator emits `is` only against `None` and enum members
  | .isNot => .bool (!(a == b))
  | .in_ => match b.elems? with | some xs => .bool (memVal a xs) | none => .err "in: not a sequence"
  | .notIn => match b.elems? with | some xs => .bool (!(memVal a xs)) | none => .err "not in: not a sequence"
  | .lt => match a.asInt?, b.asInt? with | some p, some q => .bool (p < q) | _, _ => .err "order"
  | .le => match a.asInt?, b.asInt? with | some p, some q => .bool (p ≤ q) | _, _ => .err "order"
  | .gt => match a.asInt?, b.asInt? with | some p, some q => .bool (p > q) | _, _ => .err "order"
  | .ge => match a.asInt?, b.asInt? with | some p, some q => .bool (p ≥ q) | _, _ => .err "order"

def intsOf? : List Val → Option (List Int)
  | [] => some []
  | v :: vs => match v.asInt?, intsOf? vs with
    | some i, some is => some (i :: is)
    | _, _ => none

def insertSorted (x : Int) : List Int → List Int
  | [] => [x]
  | y :: ys => if x ≤ y then x :: y :: ys else y :: insertSorted x ys

/-- Python's `sorted` on integers. -/
def sortInts (l : List Int) : List Int := l.foldr insertSorted []

def maxInts : List Int → Val
  | [] => .err "max of empty"
  | x :: xs => .int (xs.foldl (fun m y => if y > m then y else m) x)

def minInts : List Int → Val
  | [] => .err "min of empty"
  | x :: xs => .int (xs.foldl (fun m y => if y < m then y else m) x)

/-- `range(a, b)` for integers. -/
def rangeVals (a b : Int) : List Val :=
  (List.range (b - a).toNat).map (fun (i : Nat) => Val.int (a + i))

/-- `min(a, b)` / `max(a, b)` when one side is ±infinity (`np.inf`): the running minimum / maximum of a loop. -/
def minMaxInf (isMin : Bool) (a b : Val) : Option Val :=
  match a, b with
  | .enum "float" "inf", y => if isMin then some y else some (.enum "float" "inf")
  | .enum "float" "-inf", y => if isMin then some (.enum "float" "-inf") else some y
  | x, .enum "float" "inf" => if isMin then some x else some (.enum "float" "inf")
  | x, .enum "float" "-inf" => if isMin then some (.enum "float" "-inf") else some x
  | _, _ => Option.none

/-- `[k1, v1, k2, v2, …]` as `[(k1, v1), (k2, v2), …]` (a trailing odd element is dropped). -/
def pairUp : List Val → List Val
  | k :: v :: rest => .tuple [k, v] :: pairUp rest
  | _ => []

/-- the builtins of the fragment. -/
def builtin (f : String) (args : List Val) : Option Val :=
  match f, args with
  | "max", [v] => match v.elems? with
      | some xs => (intsOf? xs).map maxInts
      | none => some (.err "max: not a sequence")
  | "max", [a, b] => match minMaxInf false a b with
      | some v => some v
      | Option.none => (intsOf? [a, b]).map maxInts
  | "max", a :: b :: rest => (intsOf? (a :: b :: rest)).map maxInts
  | "min", [v] => match v.elems? with
      | some xs => (intsOf? xs).map minInts
      | none => some (.err "min: not a sequence")
  | "min", [a, b] => match minMaxInf true a b with
      | some v => some v
      | Option.none => (intsOf? [a, b]).map minInts
  | "min", a :: b :: rest => (intsOf? (a :: b :: rest)).map minInts
  | "len", [v] => v.elems?.map (fun xs => .int xs.length)
  | "abs", [v] => v.asInt?.map (fun i => .int i.natAbs)
  | "int", [v] => v.asInt?.map .int
  | "float", [v] => v.asInt?.map .int          -- numbers of the fragment are exact; `float(n)` of an integer is that number
  | "int_truediv", [a, b] => match a.asInt?, b.asInt? with
      | some a, some b => if b == 0 then some (.err "ZeroDivisionError") else some (.int (Int.tdiv a b))
      | _, _ => some (.err "int(a / b)")
  | "bool", [v] => v.truthy.map .bool
  | "range", [b] => b.asInt?.map (fun b => .list (rangeVals 0 b))
  | "range", [a, b] => match a.asInt?, b.asInt? with
      | some a, some b => some (.list (rangeVals a b))
      | _, _ => some (.err "range")
  | "list", [v] => v.elems?.map .list
  | "tuple", [v] => v.elems?.map .tuple
  | "sorted", [v] => match v.elems? with
      | some xs => (intsOf? xs).map (fun is => .list ((sortInts is).map .int))
      | none => some (.err "sorted: not a sequence")
  | "sum", [v] => match v.elems? with
      | some xs => (intsOf? xs).map (fun is => .int (is.foldl (· + ·) 0))
      | none => some (.err "sum: not a sequence")
  | "any", [v] => v.elems?.map (fun xs => .bool (xs.any (fun x => x.truthy == some true)))
  | "np.any", [v] => v.elems?.map (fun xs => .bool (xs.any (fun x => x.truthy == some true)))
  | "zip", [a, b] => match a.elems?, b.elems? with
      | some xs, some ys => some (.list (List.zipWith (fun x y => Val.tuple [x, y]) xs ys))
      | _, _ => Option.none
  | "zip", [a, b, c] => match a.elems?, b.elems?, c.elems? with
      | some xs, some ys, some zs => some (.list (List.zipWith (fun x yz => Val.tuple (x :: yz)) xs (List.zipWith (fun y z => [y, z]) ys zs)))
      | _, _, _ => Option.none
  | "all", [v] => v.elems?.map (fun xs => .bool (xs.all (fun x => x.truthy == some true)))
  | "reversed", [v] => v.elems?.map (fun xs => .list xs.reverse)
  | "dict_of", kvs => some (.list (pairUp kvs))   -- a dictionary display `{k1: v1, …}`: the list of its (key, value) pairs
  | "set", [] => some (.list [])                -- the empty set of a function that only adds to it and asks membership
  | "dict", [] => some (.list [])               -- the empty mapping (its only use in the fragment: membership, hooks for lookups)
  | "tqdm", v :: _ => some v                    -- progress bar: the iterable itself
  | "np.asarray", [v] => v.elems?.map .arr
  | "np.array", [v] => v.elems?.map .arr
  | _, _ => none

def lookupField (fs : List (String × Val)) (a : String) : Option Val :=
  (fs.find? (fun p => p.1 == a)).map (·.2)

def getAttr (env : Env) (v : Val) (a : String) : Val :=
  match v with
  | .obj cls ident fs =>
    match lookupField fs a with
    | some x => x
    | none => (env.attr cls ident fs a).getD (.err ("no attribute " ++ a))
  | _ => .err ("attribute " ++ a ++ " of a non-object")

def indexVal (v : Val) (i : Int) : Val :=
  match v.elems? with
  | none => .err "subscript of a non-sequence"
  | some xs =>
    let j : Int := if i < 0 then xs.length + i else i
    if j < 0 then .err "IndexError" else (xs[j.toNat]?).getD (.err "IndexError")

def bindTuple : List String → List Val → Vars → Option Vars
  | [], [], vs => some vs
  | x :: xs, v :: rest, vs => bindTuple xs rest (vs.set x v)
  | _, _, _ => none

mutual
def eval (env : Env) (vs : Vars) : Expr → Val
  | .int i => .int i
  | .flt num den => if den != 0 && (num * 8) % den == 0 then .int (num * 8 / den) else .err "float literal"
  | .bool b => .bool b
  | .none => .none
  | .str s => .str s
  | .name x => vs.get x
  | .enumc c m => .enum c m
  | .attr e a => getAttr env (eval env vs e) a
  | .bin op a b => evalBin op (eval env vs a) (eval env vs b)
  | .neg a => match eval env vs a with
      | .enum "float" "inf" => .enum "float" "-inf"
      | .enum "float" "-inf" => .enum "float" "inf"
      | v => match v.asInt? with | some i => .int (-i) | none => .err "unary minus"
  | .not a => match (eval env vs a).truthy with | some b => .bool (!b) | none => .err "not: not a bool"
  | .and a b => match (eval env vs a).truthy with
      | some false => .bool false
      | some true => (match (eval env vs b).truthy with | some c => .bool c | none => .err "and: not a bool")
      | none => .err "and: not a bool"
  | .or a b => match (eval env vs a).truthy with
      | some true => .bool true
      | some false => (match (eval env vs b).truthy with | some c => .bool c | none => .err "or: not a bool")
      | none => .err "or: not a bool"
  | .cmp op a b => evalCmp op (eval env vs a) (eval env vs b)
  | .ite c t e => match (eval env vs c).truthy with
      | some true => eval env vs t
      | some false => eval env vs e
      | none => .err "if-expression: not a bool"
  | .call f args =>
      let avs := evalList env vs args
      match builtin f avs with
      | some v => v
      | none => (env.func f avs).getD (.err ("unknown function " ++ f))
  | .mcall recv m args =>
      (env.method (eval env vs recv) m (evalList env vs args)).getD (.err ("unknown method " ++ m))
  | .list xs => .list (evalList env vs xs)
  | .tuple xs => .tuple (evalList env vs xs)
  | .index e i => indexVal (eval env vs e) i
  | .comp elt x iter =>
      match (eval env vs iter).elems? with
      | some vals => .list (vals.map (fun v => eval env (vs.set x v) elt))
      | none => .err "comprehension over a non-sequence"
  | .compIf elt x iter cond =>
      match (eval env vs iter).elems? with
      | some vals =>
          .list ((vals.filter (fun v => (eval env (vs.set x v) cond).truthy == some true)).map
            (fun v => eval env (vs.set x v) elt))
      | none => .err "comprehension over a non-sequence"
  | .compT elt xs iter =>
      match (eval env vs iter).elems? with
      | some vals =>
          .list (vals.map (fun v =>
            match v.elems? with
            | some parts => (match bindTuple xs parts vs with
                | some vs' => eval env vs' elt
                | none => .err "unpack")
            | none => .err "unpack of a non-sequence"))
      | none => .err "comprehension over a non-sequence"
  | .fstr => .str "<f-string>"
  | .unsupported what => .err ("unsupported expression: " ++ what)
def evalList (env : Env) (vs : Vars) : List Expr → List Val
  | [] => []
  | e :: es => eval env vs e :: evalList env vs es
end

inductive Outcome
  | cont (vs : Vars)
  | ret (v : Val)
  | raised (what : String)
  deriving Repr, Inhabited

/-- run a loop body over the element values. -/
def forLoop (body : Vars → Val → Outcome) : List Val → Vars → Outcome
  | [], vs => .cont vs
  | v :: rest, vs =>
    match body vs v with
    | .cont vs' => forLoop body rest vs'
    | o => o

mutual
def exec (env : Env) (vs : Vars) : Stmt → Outcome
  | .assign x e =>
      let v := eval env vs e
      if v.isErr then .raised "error value assigned" else .cont (vs.set x v)
  | .assignTuple xs e =>
      match (eval env vs e).elems? with
      | some vals => (match bindTuple xs vals vs with | some vs' => .cont vs' | none => .raised "unpack")
      | none => .raised "unpack of a non-sequence"
  | .aug x op e =>
      let v := evalBin op (vs.get x) (eval env vs e)
      if v.isErr then .raised "error value assigned" else .cont (vs.set x v)
  | .ret e => .ret (eval env vs e)
  | .raise what => .raised what
  | .ifs c t e =>
      match (eval env vs c).truthy with
      | some true => execBlock env vs t
      | some false => execBlock env vs e
      | none => .raised "if: not a bool"
  | .for_ x iter body =>
      match (eval env vs iter).elems? with
      | some vals => forLoop (fun vs' v => execBlock env (vs'.set x v) body) vals vs
      | none => .raised "for: not a sequence"
  | .setattr obj _ e =>
      if (eval env vs obj).isErr || (eval env vs e).isErr then .raised "error value in attribute assignment" else .cont vs
  | .setitem obj key e =>
      if (eval env vs obj).isErr || (eval env vs key).isErr || (eval env vs e).isErr then .raised "error value in item assignment"
      else .cont vs
  | .expr e =>
      match e with
      | .mcall recv _ args =>
          if (eval env vs recv).isErr || (evalList env vs args).any Val.isErr then .raised "error value in call" else .cont vs
      | .call _ args => if (evalList env vs args).any Val.isErr then .raised "error value in call" else .cont vs
      | _ => if (eval env vs e).isErr then .raised "error value" else .cont vs
  | .pass => .cont vs
  | .unsupported what => .raised ("unsupported statement: " ++ what)
def execBlock (env : Env) (vs : Vars) : List Stmt → Outcome
  | [] => .cont vs
  | s :: ss =>
    match exec env vs s with
    | .cont vs' => execBlock env vs' ss
    | o => o
end

def bindParams : List String → List Val → Vars → Vars
  | x :: xs, v :: rest, vs => bindParams xs rest (vs.set x v)
  | _, _, vs => vs

/-- call a translated function: `None` when the body falls off the end, `err` when it raises. -/
def callFn (env : Env) (fn : FnDef) (args : List Val) : Val :=
  if fn.params.length != args.length then .err "arity" else
  match execBlock env (bindParams fn.params args []) fn.body with
  | .ret v => v
  | .cont _ => .none
  | .raised what => .err ("raised: " ++ what)

/-! ### effects

The state the fragment knows is the variable store; objects are values.  What a function DOES to objects — attribute and item
assignments, calls made as statements — is not executed but RECORDED: `effBlock` returns, for the path `exec` takes, the list of
events in program order.  (Reads after a write see the old value; the translated functions never read back what they wrote.) -/

/-- events of a loop: the body's events for each element, while the body continues. -/
def forEff (step : Vars → Val → Outcome) (eff : Vars → Val → List Val) : List Val → Vars → List Val
  | [], _ => []
  | v :: rest, vs =>
    eff vs v ++ (match step vs v with
      | .cont vs' => forEff step eff rest vs'
      | _ => [])

mutual
def effStmt (env : Env) (vs : Vars) : Stmt → List Val
  | .setattr obj a e => [.tuple [.str "setattr", eval env vs obj, .str a, eval env vs e]]
  | .setitem obj key e => [.tuple [.str "setitem", eval env vs obj, eval env vs key, eval env vs e]]
  | .expr (.mcall recv m args) => [.tuple (.str "call" :: eval env vs recv :: .str m :: evalList env vs args)]
  | .expr (.call f args) => [.tuple (.str "call" :: .none :: .str f :: evalList env vs args)]
  | .ifs c t e =>
      match (eval env vs c).truthy with
      | some true => effBlock env vs t
      | some false => effBlock env vs e
      | none => []
  | .for_ x iter body =>
      match (eval env vs iter).elems? with
      | some vals => forEff (fun vs' v => execBlock env (vs'.set x v) body) (fun vs' v => effBlock env (vs'.set x v) body) vals vs
      | none => []
  | _ => []
def effBlock (env : Env) (vs : Vars) : List Stmt → List Val
  | [] => []
  | s :: ss =>
    effStmt env vs s ++ (match exec env vs s with
      | .cont vs' => effBlock env vs' ss
      | _ => [])
end

/-- the effects a translated function performs when called (on the path it takes). -/
def callEffects (env : Env) (fn : FnDef) (args : List Val) : List Val :=
  if fn.params.length != args.length then [] else effBlock env (bindParams fn.params args []) fn.body

end Qco.Py
