import QcoVerif.Model.RepCode
import QcoVerif.Generated.RepLayouts
/-
  Stateless driver module `repcode` (C09).

    repcode <cmd> chain <dist> <refocus 0|1> <cycles> <data bits|_> <ancilla bits|_>
    repcode <cmd> explicit <data idx csv|_> <anc idx csv|_> <layers|_> <nbr|_> <refocus> <cycles> <data bits|_> <anc bits|_>
        layers:  layer/layer/…      layer = gates:parks    gates = a-b.c-d|_     parks = p.q|_
        nbr:     a-b.c-d            (one pair per ancilla)
      cmd = stim        unrolled export, SHIFT_COORDS kept              (instructions joined by ';')
            flat        what stim's `flattened()` yields (shifts applied to detector coordinates)
            record      measurement record of the concrete run, chronological, as bits   | undef
            detectors   detector values of the concrete run, chronological               | undef
            observable  logical observable of the concrete run                          | undef
            prepared    qubit states right after the preparation layer  (e.g. Z0.Z1.Z0)  | undef
            closed      closed-form record / detectors / observable instantiated:  rec|det|obs
            all         stim|flat|record|detectors|observable|prepared|closedrec|closeddet|closedobs
      answers `error` where the constructor raises (state index beyond the qubit list), `malformed` when the
      description violates the guard `wellFormed`, `bad-op` on unparsable input.
    repcode sem <nqubits> <instr> ; <instr> ; …      runs the product-state semantics from |0…0>:
            instr = R q | M q | X q | … | SQRT_Y_DAG q | CZ a b | TICK | SHIFT | DET t1 t2 … | OBS t1 …
            answers  rec=<bits> det=<bits> obs=<bit>  or  undef
    repcode table <layout> <k> explicit <…description…>     is the k-th entry of the generated layout table
            (Generated/RepLayouts.lean, refocus = true) this description?   same | differs | bad-op
-/
namespace Qco.Driver.RepCode
open Qco.StimSem Qco.RepCode

def parseList (s : String) (sep : Char) : List String :=
  if s == "_" || s == "" then [] else s.split (· == sep) |>.toList.map (·.toString)

def parseNats (s : String) : Option (List Nat) := (parseList s '.').mapM (·.toNat?)

def parsePair (s : String) : Option (Nat × Nat) :=
  match s.splitOn "-" with
  | [a, b] => do some (← a.toNat?, ← b.toNat?)
  | _ => none

def parsePairs (s : String) : Option (List (Nat × Nat)) := (parseList s '.').mapM parsePair

def parseLayer (s : String) : Option Layer :=
  match s.splitOn ":" with
  | [g, p] => do some ⟨← parsePairs g, ← parseNats p⟩
  | _ => none

def parseBits (s : String) : Option (List Bool) :=
  if s == "_" then some [] else
  s.toList.mapM fun c => if c == '0' then some false else if c == '1' then some true else none

def parseBool (s : String) : Option Bool :=
  if s == "0" then some false else if s == "1" then some true else none

structure Case where
  d : Desc
  cycles : Nat
  ds : List Bool
  as : List Bool

def parseCase : List String → Option Case
  | ["chain", dist, r, c, ds, as] => do
      some ⟨chainDesc (← dist.toNat?) (← parseBool r), ← c.toNat?, ← parseBits ds, ← parseBits as⟩
  | ["explicit", di, ai, ls, nb, r, c, ds, as] => do
      let layers ← (parseList ls '/').mapM parseLayer
      some ⟨⟨← parseNats (di.replace "," "."), ← parseNats (ai.replace "," "."), layers, ← parsePairs nb, ← parseBool r⟩,
            ← c.toNat?, ← parseBits ds, ← parseBits as⟩
  | _ => none

def bitsText (l : List Nat) : String :=
  String.ofList (l.map fun f => if f == 0 then '0' else if f == 1 then '1' else '?')

def qText (x : Q) : String :=
  (match x.b with | .Z => "Z" | .X => "X" | .Y => "Y") ++ (if x.f == 0 then "0" else if x.f == 1 then "1" else "?")

/-- concrete run of the whole program -/
def runCase (c : Case) : Option St :=
  match program c.d c.cycles c.ds c.as with
  | some p => run p (start c.d.size)
  | none => none

/-- concrete run of the initialisation part only -/
def runPrep (c : Case) : Option St :=
  match prepConc c.d c.ds c.as with
  | some p => run (initPart c.d p) (start c.d.size)
  | none => none

def inst (c : Case) (f : Nat) : Nat := evalNat (assign c.ds c.as) f

def answer (cmd : String) (c : Case) : String :=
  if !c.d.wellFormed then "malformed" else
  match program c.d c.cycles c.ds c.as with
  | none => "error"
  | some p =>
    let stim := progText p
    let flat := progText (applyShifts p 0 0)
    let r := runCase c
    let record := match r with | some s => bitsText s.mrec.reverse | none => "undef"
    let dets := match r with | some s => bitsText s.det.reverse | none => "undef"
    let obs := match r with | some s => bitsText [s.obs] | none => "undef"
    let prepared := match runPrep c with
      | some s => ".".intercalate ((c.d.allIdx.map fun q => qText (s.q.getD q ⟨.Z, 2⟩)))
      | none => "undef"
    let nD := c.ds.length
    let nA := c.as.length
    let crec := bitsText ((expectedRecord c.d c.cycles nD nA).map (inst c))
    let cdet := bitsText ((expectedDetectors c.d c.cycles nD nA).map (inst c))
    let cobs := bitsText [inst c (expectedObservable c.d c.cycles nD)]
    match cmd with
    | "stim" => stim
    | "flat" => flat
    | "record" => record
    | "detectors" => dets
    | "observable" => obs
    | "prepared" => prepared
    | "closed" => s!"{crec}|{cdet}|{cobs}"
    | "all" => s!"{stim}|{flat}|{record}|{dets}|{obs}|{prepared}|{crec}|{cdet}|{cobs}"
    | _ => "bad-op"

def parseInts (l : List String) : Option (List Int) := l.mapM (·.toInt?)

def parseIns (toks : List String) : Option Ins :=
  match toks with
  | ["R", q] => q.toNat?.map .R
  | ["M", q] => q.toNat?.map .M
  | ["X", q] => q.toNat?.map .X
  | ["Y", q] => q.toNat?.map .Y
  | ["I", q] => q.toNat?.map .I
  | ["H", q] => q.toNat?.map .H
  | ["SQRT_X", q] => q.toNat?.map .SX
  | ["SQRT_X_DAG", q] => q.toNat?.map .SXd
  | ["SQRT_Y", q] => q.toNat?.map .SY
  | ["SQRT_Y_DAG", q] => q.toNat?.map .SYd
  | ["CZ", a, b] => do some (.CZ (← a.toNat?) (← b.toNat?))
  | ["TICK"] => some .TICK
  | ["SHIFT"] => some (.SHIFT 0 1)
  | "DET" :: ts => (parseInts ts).map (.DET 0 0)
  | "OBS" :: ts => (parseInts ts).map (.OBS 0)
  | _ => none

/-- split a token list at the separator token ";" -/
def splitSemi : List String → List (List String)
  | [] => [[]]
  | t :: ts =>
    match splitSemi ts with
    | cur :: rest => if t == ";" then [] :: cur :: rest else (t :: cur) :: rest
    | [] => [[t]]

def sem (n : Nat) (toks : List String) : String :=
  match ((splitSemi toks).filter (· ≠ [])).mapM parseIns with
  | none => "bad-op"
  | some p =>
    match run p (start n) with
    | none => "undef"
    | some s => s!"rec={bitsText s.mrec.reverse} det={bitsText s.det.reverse} obs={bitsText [s.obs]}"

def tableOf : String → Option (List Desc)
  | "Repetition9Code" => some Qco.Generated.RepLayouts.repetition9Code
  | "Repetition9Round6Code" => some Qco.Generated.RepLayouts.repetition9Round6Code
  | "Repetition5Round4Code" => some Qco.Generated.RepLayouts.repetition5Round4Code
  | _ => none

def tableCheck (name k : String) (rest : List String) : String :=
  match tableOf name, k.toNat?, parseCase (rest ++ ["0", "_", "_"]) with
  | some t, some k, some c =>
    match t[k]? with
    | some d => if d == c.d then "same" else "differs"
    | none => "differs"
  | _, _, _ => "bad-op"

def handle (args : List String) : String :=
  match args with
  | "table" :: name :: k :: rest => tableCheck name k rest
  | "sem" :: n :: rest =>
    match n.toNat? with
    | some n => sem n rest
    | none => "bad-op"
  | cmd :: rest =>
    match parseCase rest with
    | some c => answer cmd c
    | none => "bad-op"
  | [] => "bad-op"

end Qco.Driver.RepCode
