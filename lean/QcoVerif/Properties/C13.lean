import QcoVerif.Lemmas.KernelCircuit
import QcoVerif.Properties.C12
/-
  C13 — index kernels agree with the experiment circuit they describe.

  Two independent encodings of one experiment layout are compared:
    * `Circuit.ancillaTags rounds` (Model/KernelCircuit.lean): the sequence of acquisition tags one ANCILLA receives in
      `construct_repetition_code_multi_round_circuit(rounds, …)`; `Circuit.positions t seq` is what
      `DeclarativeCircuit.get_acquisition_indices(AcquisitionTag(ancilla, t))` returns (per-qubit running index).
      This sequence is a MODEL of the constructor, tied to the code by harness/c13.py, which builds the real circuits
      and compares both the tag positions and the real kernel's getters (the derivation of the sequence from the heap
      model of the constructors — DESIGN.md `RepCode` + C07 + C11 — is not part of this file).
    * `ExpKernel.new? rounds true true data anc 1`: the index kernel of the same experiment — the circuit always
      heralds and always calibrates the qutrit states, so the kernel is taken with `heralded_initialization = True`
      and `qutrit_calibration_points = True` (since the repair R22 the flag matters: without it the kernel has no
      calibration kernel and would be 6 slots shorter than the circuit); one experiment repetition.
  Quantifier: every non-empty rounds list (any order, repeated entries allowed in the per-kernel form), every ancilla
  identifier, any data/ancilla id lists — hence every code distance; the initial state does not enter the tag sequence.
-/
namespace Qco.C13

open Qco.Kernel Qco.Kernel.Circuit

variable {rounds : List Nat} {d a : List QId} {K : ExpKernel}

/-- The tag sequence, spelled out: per rounds entry `r` one `heralded`, then `r` × `parity` — or one `final` when
`r = 0` —, and ONCE at the end (not per entry) the calibration block `(heralded · final)³`. -/
theorem ancilla_tag_sequence (rounds : List Nat) :
    ancillaTags rounds =
      (rounds.map (fun r => Tag.heralded :: (if r = 0 then [Tag.final] else List.replicate r Tag.parity))).flatten
        ++ [.heralded, .final, .heralded, .final, .heralded, .final] := rfl

/-- The number of acquisitions of an ancilla in the circuit equals the kernel cycle length. -/
theorem count_eq_cycle_length (hK : ExpKernel.new? rounds true true d a 1 = some K) :
    ((ancillaTags rounds).length : Int) = K.cycleLength := by
  have B := new?_spec hK
  have h1 := blocksTags_length rounds
  rw [B.cycle_eq, calPart, if_pos rfl, calLen, hInt_true]
  simp only [ancillaTags, calibrationBlock, List.length_append, List.length_cons, List.length_nil] at h1 ⊢
  simp only [blocksTags] at h1
  omega

example : ∃ K, ExpKernel.new? [0, 3] true true [0, 2] [1] 1 = some K ∧ (ancillaTags [0, 3]).length = 12 ∧
    K.cycleLength = 12 := ⟨_, rfl, rfl, rfl⟩

/-- the flag matters: a kernel built WITHOUT the calibration flag is 6 slots shorter than the circuit -/
example : ∃ K, ExpKernel.new? [0, 3] true false [0, 2] [1] 1 = some K ∧ K.cycleLength = 6 ∧
    (ancillaTags [0, 3]).length = 12 := ⟨_, rfl, rfl, rfl⟩

/-- KERNEL = CIRCUIT, kernel by kernel. For an ancilla `e`:
 * the circuit's `heralded` indices are the kernels' heralded indices followed by the three heralded calibration indices;
 * the circuit's `parity` indices are the kernels' stabilizer indices followed by their final (projected) index
   (`get_stabilizer_and_projected_cycle_acquisition_indices`), kernel after kernel;
 * the circuit's `final` indices are the three projected calibration indices, preceded by — THE DOCUMENTED EXCEPTION —
   one index per 0-round entry: the circuit measures the ancilla once (`final`) in the last slot of that kernel, for
   which the kernel reports no projected index (C12 `ancilla_cover`: exactly the missing slot). -/
theorem kernel_eq_circuit (hK : ExpKernel.new? rounds true true d a 1 = some K) {e : QId} (he : e ∈ a) :
    (positions .heralded (ancillaTags rounds)).map Int.ofNat
      = (K.repKernels.map (fun k => k.heraldedIdx e)).flatten
          ++ (K.calKernel.heralded0 e ++ K.calKernel.heralded1 e ++ K.calKernel.heralded2 e) ∧
    (positions .parity (ancillaTags rounds)).map Int.ofNat
      = (K.repKernels.map (fun k => k.stabIdx e ++ k.finalIdx e)).flatten ∧
    (positions .final (ancillaTags rounds)).map Int.ofNat
      = (K.repKernels.map (fun k => if k.nr = 0 then [k.stopIndex] else [])).flatten
          ++ (K.calKernel.state0 e ++ K.calKernel.state1 e ++ K.calKernel.state2 e) := by
  have B := new?_spec hK
  have hlen := blocksTags_length rounds
  have hcs := B.cal_start
  have hch := B.cal_heralded
  have hci : e ∈ K.calKernel.ids := by rw [B.cal_ids]; simp [he]
  have hblocks := fun t => blocks_eq_kernels d a e he t rounds (.fixed 0) 0 rfl
  have hcat : ∀ t, (K.repKernels.map (category e t)) = (buildReps true d a (.fixed 0) rounds).map (category e t) := by
    intro t; rw [B.kernels]
  have hsplit : ∀ t, (positions t (ancillaTags rounds)).map Int.ofNat
      = (K.repKernels.map (category e t)).flatten
        ++ (positionsFrom t (blocksTags rounds).length calibrationBlock).map Int.ofNat := by
    intro t
    have : ancillaTags rounds = blocksTags rounds ++ calibrationBlock := rfl
    rw [positions, this, positionsFrom_append, List.map_append, hblocks t, hcat t, Nat.zero_add]
  have hn : (((blocksTags rounds).length : Nat) : Int) = K.calKernel.startIndex := by rw [hcs, hlen]
  refine ⟨?_, ?_, ?_⟩
  · rw [hsplit .heralded]
    congr 1
    simp only [calibrationBlock, positionsFrom, if_true, if_false, reduceCtorEq, List.map_cons, List.map_nil,
      CalKernel.heralded0, CalKernel.heralded1, CalKernel.heralded2, CalKernel.heraldedGuard, hci,
      not_true_eq_false, hch, Bool.true_eq_false, CalKernel.exclStart, CalKernel.dHer, CalKernel.d0,
      CalKernel.d1, List.cons_append, List.nil_append, Int.ofNat_eq_natCast, ← hn]
    simp only [List.cons.injEq, and_true]
    refine ⟨?_, ?_, ?_⟩ <;> omega
  · rw [hsplit .parity]
    simp only [calibrationBlock, positionsFrom, if_false, reduceCtorEq, List.map_nil, List.append_nil]
    rfl
  · rw [hsplit .final]
    congr 1
    simp only [calibrationBlock, positionsFrom, if_true, if_false, reduceCtorEq, List.map_cons, List.map_nil,
      CalKernel.state0, CalKernel.state1, CalKernel.state2, CalKernel.stateGuard, hci,
      not_true_eq_false, hch, CalKernel.exclStart, CalKernel.dHer, CalKernel.d0, CalKernel.d1, CalKernel.d2,
      List.cons_append, List.nil_append, Int.ofNat_eq_natCast, ← hn]
    simp only [List.cons.injEq, and_true]
    refine ⟨?_, ?_, ?_⟩ <;> omega

/-- non-vacuity, with the 0-round exception visible: rounds `[0, 3]`, ancilla 1. The circuit's `final` indices are
`[1, 7, 9, 11]`; `1` is the 0-round extra, `7, 9, 11` the projected calibration indices. -/
example : ∃ K, ExpKernel.new? [0, 3] true true [0, 2] [1] 1 = some K ∧ (1 : QId) ∈ [1] ∧
    positions .heralded (ancillaTags [0, 3]) = [0, 2, 6, 8, 10] ∧
    positions .parity (ancillaTags [0, 3]) = [3, 4, 5] ∧
    positions .final (ancillaTags [0, 3]) = [1, 7, 9, 11] ∧
    K.stabilizerAndProjectedCycle 1 3 = some [[3, 4, 5]] ∧ K.stabilizerAndProjectedCycle 1 0 = some [[]] ∧
    K.projectedCalibration 1 .s0 = [7] :=
  ⟨_, rfl, by decide, rfl, rfl, rfl, rfl, rfl, rfl⟩

/-- With one experiment repetition the public getters return exactly the per-kernel lists used above; together with
C12 `getter_finds_own_kernel` (distinct rounds: the getter for count `rounds[i]` answers from the i-th kernel) this turns
`kernel_eq_circuit` into a statement about `get_heralded_cycle_…`, `get_stabilizer_and_projected_cycle_…`,
`get_projected_cycle_…`, `get_heralded_calibration_…` and `get_projected_calibration_acquisition_indices`. -/
theorem getters_single_repetition (hK : ExpKernel.new? rounds true true d a 1 = some K) (e : QId) :
    (∀ count k, K.findKernel count = some k →
      K.heraldedCycle e count = some [k.heraldedIdx e] ∧
      K.stabilizerAndProjectedCycle e count = some [k.stabIdx e ++ k.finalIdx e] ∧
      K.projectedCycle e count = some [k.finalIdx e]) ∧
    (∀ s, K.heraldedCalibration e s = K.calKernel.heraldedState s e ∧
          K.projectedCalibration e s = K.calKernel.projectedState s e) := by
  have B := new?_spec hK
  have hone : ∀ l : List Int, slicedArrays l K.cycleLength K.reps = [l] := by
    intro l
    simp [slicedArrays, B.reps_eq, List.range_succ]
  refine ⟨?_, ?_⟩
  · intro count k hf
    simp [ExpKernel.heraldedCycle, ExpKernel.stabilizerAndProjectedCycle, ExpKernel.projectedCycle, hf, hone]
  · intro s
    simp [ExpKernel.heraldedCalibration, ExpKernel.projectedCalibration, slicedArray, hone, B.qutrit_eq]

example : ∃ K k, ExpKernel.new? [2, 0, 1] true true [0, 2] [1] 1 = some K ∧ K.findKernel 1 = some k ∧
    K.heraldedCycle 1 1 = some [[5]] := ⟨_, _, rfl, rfl, rfl⟩

/-- The same statement through the getters, for distinct rounds: the i-th rounds entry `r` owns the circuit indices
the three cycle getters return for count `r`. (Per entry: heralded = block offset, parity = the `r` following slots;
a 0-round entry has no parity index and the getter returns one empty row.) -/
theorem kernel_getters_eq_circuit (hK : ExpKernel.new? rounds true true d a 1 = some K) (hd : rounds.Nodup)
    {e : QId} (he : e ∈ a) :
    ∃ ks : List RepKernel, K.repKernels = ks ∧ ks.map (·.nr) = rounds ∧
      (∀ k ∈ ks, K.heraldedCycle e k.nr = some [k.heraldedIdx e] ∧
        K.stabilizerAndProjectedCycle e k.nr = some [k.stabIdx e ++ k.finalIdx e]) ∧
      (positions .heralded (ancillaTags rounds)).map Int.ofNat
        = (ks.map (fun k => k.heraldedIdx e)).flatten
            ++ (K.heraldedCalibration e .s0 ++ K.heraldedCalibration e .s1 ++ K.heraldedCalibration e .s2) ∧
      (positions .parity (ancillaTags rounds)).map Int.ofNat
        = (ks.map (fun k => k.stabIdx e ++ k.finalIdx e)).flatten ∧
      (positions .final (ancillaTags rounds)).map Int.ofNat
        = (ks.map (fun k => if k.nr = 0 then [k.stopIndex] else [])).flatten
            ++ (K.projectedCalibration e .s0 ++ K.projectedCalibration e .s1 ++ K.projectedCalibration e .s2) := by
  have B := new?_spec hK
  have hnr : K.repKernels.map (·.nr) = rounds := by rw [B.kernels, buildReps_nr]
  obtain ⟨hg, hc⟩ := getters_single_repetition hK e
  obtain ⟨h1, h2, h3⟩ := kernel_eq_circuit hK he
  refine ⟨K.repKernels, rfl, hnr, ?_, ?_, h2, ?_⟩
  · intro k hk
    obtain ⟨i, hi, hki⟩ := List.getElem_of_mem hk
    have hri : rounds[i]? = some k.nr := by
      rw [← hnr, List.getElem?_map, List.getElem?_eq_getElem hi, hki]; rfl
    have hf := (C12.getter_finds_own_kernel hK hd hri).1
    rw [List.getElem?_eq_getElem hi, hki] at hf
    exact ⟨(hg _ _ hf).1, (hg _ _ hf).2.1⟩
  · rw [h1, (hc .s0).1, (hc .s1).1, (hc .s2).1]; rfl
  · rw [h3, (hc .s0).2, (hc .s1).2, (hc .s2).2]; rfl

example : ∃ K, ExpKernel.new? [2, 0, 1] true true [0, 2] [1] 1 = some K ∧ [2, 0, 1].Nodup ∧ (1 : QId) ∈ [1] :=
  ⟨_, rfl, by decide, by decide⟩

/-- Outside the property (which speaks about ancillas), recorded because the kernel also answers for data qubits:
a DATA qubit is measured twice per rounds entry in the circuit (heralded, final), so its per-qubit circuit indices
are `2i, 2i+1`, whereas the kernel places its final index at the end of an `r`-round kernel (`r + 1` slots).
The two agree only while every entry has at most one round. -/
theorem data_qubit_indices_differ_witness :
    ∃ K, ExpKernel.new? [3, 1] true true [0] [1] 1 = some K ∧
      positions .final (dataTags [3, 1]) = [1, 3, 5, 7, 9] ∧
      K.projectedCycle 0 3 = some [[3]] ∧ K.projectedCycle 0 1 = some [[5]] := ⟨_, rfl, rfl, rfl, rfl⟩

end Qco.C13
