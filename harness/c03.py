"""C03 — answers depend on the circuit, not on what was asked before.

Every generated history (mutations interleaved with observations: listing, times, duration, acquisition indices,
to_stim, plot_circuit, copy) is run on the implementation twice: as generated, and with the intermediate observations
stripped.  The final answers of both runs must be equal — that IS the property.  Both runs are also compared with the
Lean heap model (plot = one listing under the drawing's durations, theorem C18.plot_world)."""
from __future__ import annotations
import json
import random
import time
from collections import Counter

from . import common, progs, stream, findings, exportrun

PROP = 'C03'
MUTATORS = {'new', 'op', 'sub', 'adopt', 'apply', 'flatten', 'copy', 'gdur', 'gdur-leave', 'setreg', 'setrep'}
OBS = ['list', 'list', 'dur', 'chans', 'reps', 'copyobs', 'stim', 'plot', 'plot', 'ops']


class HistRun(exportrun.ExportRun):
    """ExportRun + plot_circuit as an observer (answers nothing; only its side effects matter)."""

    def step(self, cmd):
        if cmd[0] == 'plot':
            import matplotlib
            matplotlib.use('Agg')
            import matplotlib.pyplot as plt
            progs.api()
            from qce_circuit.visualization.visualize_circuit.display_circuit import plot_circuit
            try:
                plot_circuit(self.circs[cmd[1]], compact_visualization=bool(cmd[2]))
            except RecursionError:
                raise
            except Exception as e:  # noqa  (drawing failures are C18's business; an empty circuit cannot be drawn)
                pass
            finally:
                plt.close('all')
            return None
        return super().step(cmd)


RUN_CLS = 'harness.c03.HistRun'


def to_lines(prog, ambient):
    """model lines; `plot c compact` = pure listing (C18.plot_world), `stim c` by the HeapStim extension."""
    mapped = [(['ops', c[1]] if c[0] == 'plot' else c) for c in prog]
    return progs.to_lines(mapped, ambient)


def run_model(programs, ambient, ident_keys=False):
    lines, spans = [], []
    pre = 3 if ident_keys else 2
    for p in programs:
        l = to_lines(p, ambient)
        if ident_keys:
            l = l[:2] + ['heap identkeys'] + l[2:]
        spans.append((len(lines), len(l)))
        lines += l
    res = common.run_driver(lines)
    return [res[a + pre:a + k] for a, k in spans]


def r3_signature(r, ambient):
    """signature of finding R3 for a history whose final answers depend on the intermediate observations:
    the identity-keyed twin of the model (copy lookups keyed by object identity instead of value equality, nothing
    else changed) gives the SAME final answers with and without the observations, and value equality does change the
    heap of at least one of the two runs — i.e. the dependence exists only through the conflation of value-equal keys."""
    t_full, t_bare = run_model([r['full'], r['bare']], ambient, ident_keys=True)
    nf = len(r['final']) + 1
    if t_full[-nf:-1] != t_bare[-nf:-1]:
        return False
    return stream.value_equality_matters(r['full'], ambient) or stream.value_equality_matters(r['bare'], ambient)


def gen_history(rng, cfg):
    """a mutation stream with observations inserted at random points; final observations appended."""
    base = progs.gen_program(rng, cfg)
    base = [c for c in base if c[0] not in progs.OBSERVERS]
    out = []
    ncirc = 0
    for cmd in base:
        out.append(cmd)
        if cmd[0] in ('new', 'copy'):
            ncirc += 1
        k = 0
        while rng.random() < 0.35 and k < 3 and ncirc:
            o = rng.choice(OBS)
            c = rng.randrange(ncirc)
            out.append(['plot', c, rng.randrange(2)] if o == 'plot' else [o, c])
            k += 1
    final = []
    for c in range(ncirc):
        final += [['list', c], ['stim', c], ['reps', c]]
    return out, final


def forced_histories(rng, n):
    """histories of the shape "read acquisition indices, shift them by a mutation, read again" (added after the seeded
    change C03-m3 — a memoised index table in the acquisition registry — was missed by the random stream):
      A  a measurement listed AFTER a repeated block that contains measurements; observe; unroll; (observe)
      B  a measurement deep in a chain; observe; add a measurement that is listed EARLIER (fresh qubit, depth 1); (observe)
      C  like A, the block nested twice (counts multiply).
      D  (after the seeded change C03-m6 — a listing memoised per wrapper object) observe the parent; add through the nested
         copy `add()` returned (`adopt`); (observe); the final listing of the parent must show the operation.
      E  observe; apply_modifiers()/flatten() (returns a second wrapper around the same structure); add through the new
         wrapper; the final listing is also taken through the EARLIER wrapper (progs.ImplRun.observe_list)."""
    out = []
    M = 'DispersiveMeasure'

    def mk(c, cls, qubit, reg):
        return ['op', c, cls, [qubit], 'A' if cls == M else 'M', None, rng.randrange(3) if cls == M else 0, reg if cls == M else 0, [], None]
    for i in range(n):
        kind = 'ABCDE'[i % 5]
        q = rng.randrange(3)
        h = [['new', 'f1']]
        obs = rng.choice([['list', 0], ['list', 0], ['copyobs', 0], ['stim', 0]])
        if kind == 'D':
            h.append(['new', f'f{rng.randint(1, 2)}'])
            nh = 0
            for _ in range(rng.randint(0, 2)):
                h.append(mk(1, rng.choice(['Rx180', 'Wait', 'Hadamard', M]), q, 1))
                nh += 1
            for _ in range(rng.randint(0, 1)):
                h.append(mk(0, rng.choice(['Rx180', M]), rng.randrange(3), 0))
                nh += 1
            h.append(['sub', 0, 1])          # handle nh: the nested copy
            h.append(list(obs))
            h.append(['adopt', nh])          # circuit index 2: the nested copy, added to through the kept handle
            for _ in range(rng.randint(1, 2)):
                h.append(mk(2, rng.choice(['Rx180', 'Wait', M]), rng.randrange(3), 2))
            if rng.random() < 0.5:
                h.append(['list', 0])
            if rng.random() < 0.3:
                h.append(['op', 0, 'Rx180', [rng.randrange(3)], 'M', None, 0, 0, [], None])
        elif kind == 'E':
            cnt = rng.randint(1, 3)
            h.append(['new', f'f{cnt}'])
            h.append(mk(1, rng.choice(['Rx180', 'Wait', M]), q, 1))
            h.append(['sub', 0, 1])
            h.append(mk(0, rng.choice(['Rx180', M]), rng.randrange(3), 0))
            h.append(list(obs))
            h.append([rng.choice(['apply', 'flatten']), 0])
            if rng.random() < 0.5:
                h.append(['list', 0])
            for _ in range(rng.randint(1, 2)):
                h.append(mk(0, rng.choice(['Rx180', 'Wait', M]), rng.randrange(3), 0))
        elif kind in 'AC':
            cnt = rng.randint(2, 3)
            h.append(['new', f'f{cnt}'])
            if rng.random() < 0.5:
                h.append(['op', 1, rng.choice(['Rx180', 'Wait', 'Hadamard']), [q], 'M', None, 0, 0, [], None])
            h.append(['op', 1, M, [q], 'A', None, rng.randrange(3), 1, [], None])
            if kind == 'C':
                h.append(['new', f'f{rng.randint(1, 2)}'])
                h.append(['sub', 2, 1])
                if rng.random() < 0.5:
                    h.append(['op', 0, M, [rng.randrange(3)], 'A', None, rng.randrange(3), 0, [], None])
                h.append(['sub', 0, 2])
            else:
                if rng.random() < 0.5:
                    h.append(['op', 0, M, [rng.randrange(3)], 'A', None, rng.randrange(3), 0, [], None])
                h.append(['sub', 0, 1])
            h.append(['op', 0, M, [rng.choice([q, (q + 1) % 3])], 'A', None, rng.randrange(3), 0, [], None])
            h.append(list(obs))
            h.append(['apply', 0])
            if rng.random() < 0.5:
                h.append(['list', 0])
            if rng.random() < 0.3:
                h.append(['flatten', 0])
        else:
            for _ in range(rng.randint(1, 3)):
                h.append(['op', 0, rng.choice(['Rx180', 'Wait', 'Hadamard']), [q], 'M', None, 0, 0, [], None])
            h.append(['op', 0, M, [q], 'A', None, rng.randrange(3), 0, [], None])
            h.append(list(obs))
            h.append(['op', 0, M, [(q + 1 + rng.randrange(2)) % 3 + 3], 'A', None, rng.randrange(3), 0, [], None])
            if rng.random() < 0.5:
                h.append(['list', 0])
        ncirc = sum(1 for c in h if c[0] in ('new', 'copy'))
        final = []
        for c in range(ncirc):
            final += [['list', c], ['stim', c], ['reps', c]]
        out.append((h, final))
    return out


def strip(hist):
    return [c for c in hist if c[0] in MUTATORS]


def nontrivial(hist):
    """an observation strictly between two mutations, the later one a copy/nest/apply/flatten or duration change."""
    seen_obs = False
    seen_mut = False
    for c in hist:
        if c[0] in MUTATORS:
            if seen_obs and c[0] in ('sub', 'copy', 'apply', 'flatten', 'gdur', 'gdur-leave', 'setreg', 'setrep'):
                return True
            seen_mut = True
        elif seen_mut:
            seen_obs = True
    return False


def final_answers(out, n_final, n_cmds=None):
    """answers to the final queries, taken BY POSITION in the command list (a run that ends early — RecursionError — has a
    shorter output; taking the last n entries would compare misaligned windows: false alarm of soak seed 12)."""
    if n_cmds is None:
        return out[-n_final:] if len(out) >= n_final else None
    start = n_cmds - n_final
    return out[start:] if len(out) > start else None


def evaluate(cases, ambient, depth=0):
    """cases: list of (hist, final). Returns per case a dict with both runs.

    An intermediate OBSERVATION whose answer is undefined (RecursionError on a cyclic relation structure, findings R14/R3)
    ends the implementation run at that point, so nothing after it can be compared with the run without observations.
    Such an observation is removed from the history and the case is evaluated again (the remaining observations are
    still checked); `dropped_undefined_observations` counts them."""
    res = _evaluate(cases, ambient)
    if depth >= 6:
        return res
    redo = {}
    for i, r in enumerate(res):
        o1, full, h = r['impl_full'], r['full'], r['hist']
        k = len(o1) - 1
        if 0 <= k < len(h) and len(o1) < len(full) and o1[-1] == 'undef' and h[k][0] not in MUTATORS:
            redo[i] = (h[:k] + h[k + 1:], r['final'])
    if redo:
        idx = sorted(redo)
        again = evaluate([redo[i] for i in idx], ambient, depth + 1)
        for i, r2 in zip(idx, again):
            r2['dropped_undefined_observations'] = r2.get('dropped_undefined_observations', 0) + 1
            r2['original_hist'] = res[i].get('original_hist', res[i]['hist'])
            res[i] = r2
    return res


def _evaluate(cases, ambient):
    full = [h + f + [['collisions']] for h, f in cases]
    bare = [strip(h) + f + [['collisions']] for h, f in cases]
    impl = stream.run_impl_many(full + bare, [], run_cls=RUN_CLS)
    model = run_model(full + bare, ambient)
    n = len(cases)
    res = []
    for i, (h, f) in enumerate(cases):
        (o1, _), (o2, _) = impl[i], impl[n + i]
        m1, m2 = model[i], model[n + i]
        nf = len(f) + 1
        res.append({'hist': h, 'final': f, 'full': full[i], 'bare': bare[i], 'impl_full': o1, 'impl_bare': o2,
                    'model_full': m1, 'model_bare': m2,
                    'dis_full': exportrun.compare(full[i], o1, m1), 'dis_bare': exportrun.compare(bare[i], o2, m2),
                    'fin_full': final_answers(o1, nf, len(full[i])), 'fin_bare': final_answers(o2, nf, len(bare[i])),
                    'mfin_full': m1[-nf:], 'mfin_bare': m2[-nf:]})
    return res


def differs(r):
    """the property predicate on the implementation: final answers of the two runs."""
    a, b = r['fin_full'], r['fin_bare']
    if a is None or b is None:
        # one of the runs ended before the final queries (exception / recursion): compare what both produced at the end
        return (a is None) != (b is None) or r['impl_full'][-1:] != r['impl_bare'][-1:]
    nf = len(r['final']) + 1
    if len(a) == nf and len(b) == nf:
        return a[:-1] != b[:-1]
    # a run ended during the final queries: the answers given so far must agree, and both must end at the same query
    return a != b


def shrink(case, still):
    hist, final = case
    cur = list(hist)
    changed = True
    steps = 0
    while changed and steps < 300:
        changed = False
        for i in range(len(cur) - 1, -1, -1):
            cand = stream._drop(cur, i) if cur[i][0] not in ('plot', 'stim') else cur[:i] + cur[i + 1:]
            if cand is None:
                continue
            nc = sum(1 for c in cand if c[0] in ('new', 'copy'))
            fin = []
            for c in range(nc):
                fin += [['list', c], ['stim', c], ['reps', c]]
            steps += 1
            try:
                if still((cand, fin)):
                    cur, final = cand, fin
                    changed = True
            except Exception:
                pass
            if steps >= 300:
                break
    return cur, final


def load_corpus():
    d = common.CORPUS / PROP
    out = []
    if d.exists():
        for f in sorted(d.glob('*.json')):
            doc = json.loads(f.read_text())
            out.append((doc['history'], doc['final']))
    return out


def run(tier, seed):
    t0 = time.time()
    oc = common.Outcome(PROP)
    lean = common.proof_obligations(PROP)
    proof_ok = lean['build_ok'] and not lean['failed']
    if not common.driver_available():
        print('model driver missing')
        return 2
    ambient = progs.ambient_durations()
    rng = common.rng_for(seed, PROP)
    n = 700 if tier == 'quick' else 20000
    cfg = progs.GenConfig(n_cmds=(5, 30), p_list=0.0, p_sub=0.14, p_apply=0.07, p_flatten=0.04, p_copy=0.03,
                          p_gdur=0.06, p_setreg=0.05, max_size=40, final_list=False)
    corpus = load_corpus()
    cases = list(corpus)
    forced = forced_histories(common.rng_for(seed, PROP + '-forced'), 45 if tier == 'quick' else 900)
    cases += forced
    for _ in range(n):
        cases.append(gen_history(random.Random(rng.getrandbits(64)), cfg))
    results = evaluate(cases, ambient)

    obs_kinds = Counter()
    nontriv = set()
    n_dis = 0
    n_diff = 0
    reported = set()
    feats = {}
    for r in results:
        for c in r['hist']:
            if c[0] not in MUTATORS:
                obs_kinds[c[0]] += 1
        progs.merge_features(feats, progs.features(r['hist']))
        if nontrivial(r['hist']):
            nontriv.add(json.dumps(r['hist'], separators=(',', ':')))
        dis = r['dis_full'] or r['dis_bare']
        if differs(r):
            n_diff += 1
            # attribution to R3: the model shows the same difference on the same history (agrees with both runs)
            # and either reports value-equal keys overwritten in a copy lookup only with the observations in place
            # or its identity-keyed twin does not show the difference (r3_signature)
            attributed = None
            if dis is None:
                try:
                    cf, cb = int(r['model_full'][-1]), int(r['model_bare'][-1])
                except ValueError:
                    cf = cb = 0
                for f in findings.open_findings(PROP):
                    if f['matcher'] == 'value_equal_keys_in_copy_lookup' and (cf > cb or r3_signature(r, ambient)):
                        attributed = f"{f['id']}: {f['what_fails']}"
            if attributed:
                oc.known_finding(attributed)
            elif 'diff' not in reported:
                reported.add('diff')

                def still(case):
                    return differs(evaluate([case], ambient)[0])
                h, f = shrink((r['hist'], r['final']), still)
                rr = evaluate([(h, f)], ambient)[0]
                oc.violation({'property': PROP, 'kind': 'history-dependent-answer', 'history': h, 'final': f,
                              'with_observations': rr['fin_full'], 'without_observations': rr['fin_bare'],
                              'model_with': rr['mfin_full'], 'model_without': rr['mfin_bare']})
        if dis is not None:
            n_dis += 1
            if 'dis' not in reported and not differs(r):
                reported.add('dis')
                oc.violation({'property': PROP, 'kind': 'correspondence-broken',
                              'unchecked': 'correspondence model<->implementation on histories',
                              'history': r['hist'], 'final': r['final'], 'first_difference': dis}, found_input=False)
    sem = common.pysem_stage(oc, PROP, ['facade'], seed, tier, effects=True)
    if not proof_ok and not oc.violations:
        oc.violation({'property': PROP, 'kind': 'proof-obligation-broken', 'unchecked': lean.get('failed'),
                      'build_output': lean.get('build_output', '')[-3000:]}, found_input=False)
    coverage = {}
    if lean['obligations']:
        coverage.update({'obligations': lean['obligations'], 'discharged': lean['discharged']})
    coverage.update({
        'checker_cmd': lean['checker_cmd'], 'trusted_base': common.TRUSTED_BASE, 'theorems': lean.get('theorems', []),
        'axioms': lean.get('axioms', {}),
        **sem,
        'evaluations': len(results), 'distinct_nontrivial': len(nontriv),
        'rule': 'random histories: a mutation stream (add operation / nest / apply / flatten / copy / registry duration / '
                'enter-leave global override) with observations (list+times+acquisition indices, duration, channels, counts, '
                'copy, to_stim, plot_circuit compact and non-compact, pure listing) inserted with p=0.35 after each mutation; each '
                'history is run on the implementation with and without its intermediate observations and the final listing/'
                'times/indices, Stim export and counts of every circuit are compared; non-trivial = an observation strictly '
                'between two mutations of which the later is a nest/copy/apply/flatten or a duration change; distinct = '
                'distinct history text',
        'samples': [results[len(corpus)]['hist']] if len(results) > len(corpus) else [results[0]['hist']],
        'observation_kinds': dict(obs_kinds), 'input_distribution': feats,
        'histories_with_different_final_answers': n_diff,
        'dropped_undefined_observations': sum(r.get('dropped_undefined_observations', 0) for r in results),
        'traces_validated_against_impl': 2 * len(results) - n_dis, 'disagreements': n_dis,
        'corpus_programs': len(corpus), 'forced_histories': len(forced), 'known_findings_printed': oc.known,
        'lean': {k: lean.get(k) for k in ('build_ok', 'build_s', 'lean_s', 'failed', 'forbidden_hits')},
    })
    common.write_evidence(PROP, tier, seed, coverage, time.time() - t0, len(oc.violations),
                          ['plot_circuit is modelled as one listing (C18.plot_world)',
                           'times are exact multiples of 1/8'])
    return oc.emit()


def replay(doc):
    ambient = progs.ambient_durations()
    r = evaluate([(doc['history'], doc['final'])], ambient)[0]
    print('with observations   :', r['fin_full'])
    print('without observations:', r['fin_bare'])
    if differs(r):
        print(f'VIOLATION property={PROP} replay=<given file>')
        return 1
    return 0
