import QcoVerif.Model.Graph
import Std.Data.HashMap
/-
  Timing: `dur / start / end` of heap objects and the reference node of a link.

  * `evDur/evStart/evEnd/evRef` — the specification evaluator: plain recursion on fuel, `none` when the
    fuel runs out (cyclic relation structure, R14 of DESIGN.md).
  * `Eval.run` — the evaluator the driver executes: same equations, memoised, with cycle detection.
-/
namespace Qco

/-- `MultiRelationLink.reference_node`: the reference with the strictly latest end, first wins ties. -/
def pickLatest (best : Nat × Int) (xs : List (Nat × Int)) : Nat × Int :=
  xs.foldl (fun b x => if x.2 > b.2 then x else b) best

/-- minimum of a non-empty list of times (`0` for the empty list, which callers never pass). -/
def minOf : List Int → Int
  | [] => 0
  | x :: xs => xs.foldl (fun m y => if y < m then y else m) x

/-- maximum of a non-empty list of times. -/
def maxOf : List Int → Int
  | [] => 0
  | x :: xs => xs.foldl (fun m y => if y > m then y else m) x

/-- `CircuitCompositeOperation._lead_and_span` given the start times of the depth-1 nodes and the
    (start, end) interval of every node (nested blocks already shifted by their own lead):
    lead = earliest head start − earliest start, span = latest end − earliest start. -/
def leadSpan (headStarts : List Int) (intervals : List (Int × Int)) : Int × Int :=
  let earliest := minOf (intervals.map (·.1))
  let latest := maxOf (intervals.map (·.2))
  (minOf headStarts - earliest, latest - earliest)

/-- `RelationLink.get_start_time` once the reference's start and end are known. -/
def linkStart (rel : Rel) (refStartEnd : Option (Int × Int)) (ownDur : Int) : Int :=
  match refStartEnd with
  | none => 0
  | some (s, e) =>
    match rel with
    | .fb => e
    | .js => s
    | .je => e - ownDur

mutual
/-- (lead, span) of object `o`; a leaf has lead 0 and span = its duration. -/
def evLeadSpan (w : World) : Nat → Nat → Option (Int × Int)
  | 0, _ => none
  | f+1, o =>
    let op := w.op o
    if op.isComp then
      if op.graph.isEmpty then some (0, 0) else do
        let hs ← (heads op.graph).mapM (fun n => evStart w f n)
        let ivs ← (listing op.graph).mapM (fun n => evInterval w f n)
        some (leadSpan hs ivs)
    else some (0, w.leafDur op.dur)
/-- interval occupied by node `n` inside its block: a nested block is shifted by its lead. -/
def evInterval (w : World) : Nat → Nat → Option (Int × Int)
  | 0, _ => none
  | f+1, n => do
    let s ← evStart w f n
    let (lead, span) ← evLeadSpan w f n
    some (s - lead, s - lead + span)
/-- duration of object `o`. -/
def evDur (w : World) : Nat → Nat → Option Int
  | 0, _ => none
  | f+1, o => (evLeadSpan w f o).map (·.2)
/-- start time of object `o`. -/
def evStart (w : World) : Nat → Nat → Option Int
  | 0, _ => none
  | f+1, o => do
    let d ← evDur w f o
    let l := (w.op o).link
    let r ← evRef w f l
    match r with
    | none => some (linkStart (w.lnk l).rel none d)
    | some r => do
      let s ← evStart w f r
      let e ← evEnd w f r
      some (linkStart (w.lnk l).rel (some (s, e)) d)
/-- end time of object `o`. -/
def evEnd (w : World) : Nat → Nat → Option Int
  | 0, _ => none
  | f+1, o => do
    let s ← evStart w f o
    let d ← evDur w f o
    some (s + d)
/-- reference node of link `l` (`some none` = the link has no reference). -/
def evRef (w : World) : Nat → Nat → Option (Option Nat)
  | 0, _ => none
  | f+1, l =>
    let L := w.lnk l
    if !L.multi then some L.refs.head? else
    match L.refs with
    | [] => some none
    | r0 :: _ => do
      let es ← L.refs.mapM (fun r => (evEnd w f r).map (fun e => (r, e)))
      let e0 ← evEnd w f r0
      some (some (pickLatest (r0, e0) es).1)
end

/-- fuel that is never exhausted on an acyclic world. -/
def World.fuel (w : World) : Nat := 6 * (w.ops.size + w.links.size) + 8

/-! ### memoised evaluator (executed by the driver) -/

inductive Qry | dur (o : Nat) | start (o : Nat) | fin (o : Nat) | ref (l : Nat) | lead (o : Nat)
  deriving DecidableEq, Hashable, Repr

structure Memo where
  done : Std.HashMap Qry (Option Int) := {}
  visiting : Std.HashSet Qry := {}

abbrev EvalM := StateM Memo

namespace Eval

/-- encodes a reference result as an integer (`-1` = no reference). -/
def encRef : Option Nat → Int
  | none => -1
  | some n => n

def decRef (x : Int) : Option Nat := if x < 0 then none else some x.toNat

def mapMOpt {α β} (f : α → EvalM (Option β)) : List α → EvalM (Option (List β))
  | [] => pure (some [])
  | x :: xs => do
    match ← f x with
    | none => pure none
    | some y =>
      match ← mapMOpt f xs with
      | none => pure none
      | some ys => pure (some (y :: ys))

/-- one memoised query; `none` = undefined (cycle). -/
def go (w : World) : Nat → Qry → EvalM (Option Int)
  | 0, _ => pure none
  | f+1, q => do
    let m ← get
    if let some r := m.done[q]? then return r
    if m.visiting.contains q then return none
    set { m with visiting := m.visiting.insert q }
    let r : Option Int ← (match q with
      | .dur o => do
        let op := w.op o
        if op.isComp then
          if op.graph.isEmpty then pure (some 0) else do
            match ← mapMOpt (fun n => go w f (.start n)) (heads op.graph) with
            | none => pure none
            | some hs =>
              match ← mapMOpt (fun n => do
                  match ← go w f (.start n) with
                  | none => pure none
                  | some s =>
                    match ← go w f (.lead n) with
                    | none => pure none
                    | some ld =>
                      match ← go w f (.dur n) with
                      | none => pure none
                      | some sp => pure (some (s - ld, s - ld + sp))) (listing op.graph) with
              | none => pure none
              | some ivs => pure (some (leadSpan hs ivs).2)
        else pure (some (w.leafDur op.dur))
      | .lead o => do
        let op := w.op o
        if op.isComp then
          if op.graph.isEmpty then pure (some 0) else do
            match ← mapMOpt (fun n => go w f (.start n)) (heads op.graph) with
            | none => pure none
            | some hs =>
              match ← mapMOpt (fun n => do
                  match ← go w f (.start n) with
                  | none => pure none
                  | some s =>
                    match ← go w f (.lead n) with
                    | none => pure none
                    | some ld =>
                      match ← go w f (.dur n) with
                      | none => pure none
                      | some sp => pure (some (s - ld, s - ld + sp))) (listing op.graph) with
              | none => pure none
              | some ivs => pure (some (leadSpan hs ivs).1)
        else pure (some 0)
      | .start o => do
        match ← go w f (.dur o) with
        | none => pure none
        | some d =>
          let l := (w.op o).link
          match ← go w f (.ref l) with
          | none => pure none
          | some rr =>
            match decRef rr with
            | none => pure (some (linkStart (w.lnk l).rel none d))
            | some r =>
              match ← go w f (.start r) with
              | none => pure none
              | some s =>
                match ← go w f (.fin r) with
                | none => pure none
                | some e => pure (some (linkStart (w.lnk l).rel (some (s, e)) d))
      | .fin o => do
        match ← go w f (.start o) with
        | none => pure none
        | some s =>
          match ← go w f (.dur o) with
          | none => pure none
          | some d => pure (some (s + d))
      | .ref l => do
        let L := w.lnk l
        if !L.multi then pure (some (encRef L.refs.head?)) else
        match L.refs with
        | [] => pure (some (encRef none))
        | r0 :: _ => do
          match ← mapMOpt (fun r => do
              match ← go w f (.fin r) with
              | none => pure none
              | some e => pure (some (r, e))) L.refs with
          | none => pure none
          | some es =>
            match ← go w f (.fin r0) with
            | none => pure none
            | some e0 => pure (some (encRef (some (pickLatest (r0, e0) es).1))))
    modify fun m => { done := m.done.insert q r, visiting := m.visiting.erase q }
    return r

def query (w : World) (q : Qry) : EvalM (Option Int) := go w w.fuel q

end Eval

/-- reference node of a link, evaluated with a fresh memo (used while building). -/
def World.refOf (w : World) (l : Nat) : Option (Option Nat) :=
  let L := w.lnk l
  if !L.multi then some L.refs.head? else
  ((Eval.query w (.ref l)).run' {}).map Eval.decRef

end Qco
