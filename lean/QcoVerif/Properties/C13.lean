import QcoVerif.Lemmas.KernelCircuit
import QcoVerif.Lemmas.KernelProgram
import QcoVerif.Properties.C12
/-
  C13 — index kernels agree with the experiment circuit they describe.

  Two independent encodings of one experiment layout are compared:
    * `Circuit.ancillaTags rounds` (Model/KernelCircuit.lean): the sequence of acquisition tags one ANCILLA receives in
      `construct_repetition_code_multi_round_circuit(rounds, …)`; `Circuit.positions t seq` is what
      `DeclarativeCircuit.get_acquisition_indices(AcquisitionTag(ancilla, t))` returns (per-qubit running index).
      This sequence is a MODEL of the constructor, tied to the code by harness/c13.py, which builds the real circuits
      and compares both the tag positions and the real kernel's getters (the derivation of the sequence from the heap
      model of the constructors — DESIGN.md `RepCode` + C07 + C11 — is not part of this file).
    * `ExpKernel.new? rounds true true data anc 1`: the index kernel of the same experiment — the circuit always
      heralds and always calibrates the qutrit states, so the kernel is taken with `heralded_initialization = True`
      and `qutrit_calibration_points = True` (since the repair R22 the flag matters: without it the kernel has no
      calibration kernel and would be 6 slots shorter than the circuit); one experiment repetition.
  Quantifier: every non-empty rounds list (any order, repeated entries allowed in the per-kernel form), every ancilla
  identifier, any data/ancilla id lists — hence every code distance; the initial state does not enter the tag sequence.
-/
namespace Qco.C13

open Qco.Kernel Qco.Kernel.Circuit

variable {rounds : List Nat} {d a : List QId} {K : ExpKernel}

/-- The tag sequence, spelled out: per rounds entry `r` one `heralded`, then `r` × `parity` — or one `final` when
`r = 0` —, and ONCE at the end (not per entry) the calibration block `(heralded · final)³`. -/
theorem ancilla_tag_sequence (rounds : List Nat) :
    ancillaTags rounds =
      (rounds.map (fun r => Tag.heralded :: (if r = 0 then [Tag.final] else List.replicate r Tag.parity))).flatten
        ++ [.heralded, .final, .heralded, .final, .heralded, .final] := rfl

/-- The number of acquisitions of an ancilla in the circuit equals the kernel cycle length. -/
theorem count_eq_cycle_length (hK : ExpKernel.new? rounds true true d a 1 = some K) :
    ((ancillaTags rounds).length : Int) = K.cycleLength := by
  have B := new?_spec hK
  have h1 := blocksTags_length rounds
  rw [B.cycle_eq, calPart, if_pos rfl, calLen, hInt_true]
  simp only [ancillaTags, calibrationBlock, List.length_append, List.length_cons, List.length_nil] at h1 ⊢
  simp only [blocksTags] at h1
  omega

example : ∃ K, ExpKernel.new? [0, 3] true true [0, 2] [1] 1 = some K ∧ (ancillaTags [0, 3]).length = 12 ∧
    K.cycleLength = 12 := ⟨_, rfl, rfl, rfl⟩

/-- the flag matters: a kernel built WITHOUT the calibration flag is 6 slots shorter than the circuit -/
example : ∃ K, ExpKernel.new? [0, 3] true false [0, 2] [1] 1 = some K ∧ K.cycleLength = 6 ∧
    (ancillaTags [0, 3]).length = 12 := ⟨_, rfl, rfl, rfl⟩

/-- KERNEL = CIRCUIT, kernel by kernel. For an ancilla `e`:
 * the circuit's `heralded` indices are the kernels' heralded indices followed by the three heralded calibration indices;
 * the circuit's `parity` indices are the kernels' stabilizer indices followed by their final (projected) index
   (`get_stabilizer_and_projected_cycle_acquisition_indices`), kernel after kernel;
 * the circuit's `final` indices are the three projected calibration indices, preceded by — THE DOCUMENTED EXCEPTION —
   one index per 0-round entry: the circuit measures the ancilla once (`final`) in the last slot of that kernel, for
   which the kernel reports no projected index (C12 `ancilla_cover`: exactly the missing slot). -/
theorem kernel_eq_circuit (hK : ExpKernel.new? rounds true true d a 1 = some K) {e : QId} (he : e ∈ a) :
    (positions .heralded (ancillaTags rounds)).map Int.ofNat
      = (K.repKernels.map (fun k => k.heraldedIdx e)).flatten
          ++ (K.calKernel.heralded0 e ++ K.calKernel.heralded1 e ++ K.calKernel.heralded2 e) ∧
    (positions .parity (ancillaTags rounds)).map Int.ofNat
      = (K.repKernels.map (fun k => k.stabIdx e ++ k.finalIdx e)).flatten ∧
    (positions .final (ancillaTags rounds)).map Int.ofNat
      = (K.repKernels.map (fun k => if k.nr = 0 then [k.stopIndex] else [])).flatten
          ++ (K.calKernel.state0 e ++ K.calKernel.state1 e ++ K.calKernel.state2 e) := by
  have B := new?_spec hK
  have hlen := blocksTags_length rounds
  have hcs := B.cal_start
  have hch := B.cal_heralded
  have hci : e ∈ K.calKernel.ids := by rw [B.cal_ids]; simp [he]
  have hblocks := fun t => blocks_eq_kernels d a e he t rounds (.fixed 0) 0 rfl
  have hcat : ∀ t, (K.repKernels.map (category e t)) = (buildReps true d a (.fixed 0) rounds).map (category e t) := by
    intro t; rw [B.kernels]
  have hsplit : ∀ t, (positions t (ancillaTags rounds)).map Int.ofNat
      = (K.repKernels.map (category e t)).flatten
        ++ (positionsFrom t (blocksTags rounds).length calibrationBlock).map Int.ofNat := by
    intro t
    have : ancillaTags rounds = blocksTags rounds ++ calibrationBlock := rfl
    rw [positions, this, positionsFrom_append, List.map_append, hblocks t, hcat t, Nat.zero_add]
  have hn : (((blocksTags rounds).length : Nat) : Int) = K.calKernel.startIndex := by rw [hcs, hlen]
  refine ⟨?_, ?_, ?_⟩
  · rw [hsplit .heralded]
    congr 1
    simp only [calibrationBlock, positionsFrom, if_true, if_false, reduceCtorEq, List.map_cons, List.map_nil,
      CalKernel.heralded0, CalKernel.heralded1, CalKernel.heralded2, CalKernel.heraldedGuard, hci,
      not_true_eq_false, hch, Bool.true_eq_false, CalKernel.exclStart, CalKernel.dHer, CalKernel.d0,
      CalKernel.d1, List.cons_append, List.nil_append, Int.ofNat_eq_natCast, ← hn]
    simp only [List.cons.injEq, and_true]
    refine ⟨?_, ?_, ?_⟩ <;> omega
  · rw [hsplit .parity]
    simp only [calibrationBlock, positionsFrom, if_false, reduceCtorEq, List.map_nil, List.append_nil]
    rfl
  · rw [hsplit .final]
    congr 1
    simp only [calibrationBlock, positionsFrom, if_true, if_false, reduceCtorEq, List.map_cons, List.map_nil,
      CalKernel.state0, CalKernel.state1, CalKernel.state2, CalKernel.stateGuard, hci,
      not_true_eq_false, hch, CalKernel.exclStart, CalKernel.dHer, CalKernel.d0, CalKernel.d1, CalKernel.d2,
      List.cons_append, List.nil_append, Int.ofNat_eq_natCast, ← hn]
    simp only [List.cons.injEq, and_true]
    refine ⟨?_, ?_, ?_⟩ <;> omega

/-- non-vacuity, with the 0-round exception visible: rounds `[0, 3]`, ancilla 1. The circuit's `final` indices are
`[1, 7, 9, 11]`; `1` is the 0-round extra, `7, 9, 11` the projected calibration indices. -/
example : ∃ K, ExpKernel.new? [0, 3] true true [0, 2] [1] 1 = some K ∧ (1 : QId) ∈ [1] ∧
    positions .heralded (ancillaTags [0, 3]) = [0, 2, 6, 8, 10] ∧
    positions .parity (ancillaTags [0, 3]) = [3, 4, 5] ∧
    positions .final (ancillaTags [0, 3]) = [1, 7, 9, 11] ∧
    K.stabilizerAndProjectedCycle 1 3 = some [[3, 4, 5]] ∧ K.stabilizerAndProjectedCycle 1 0 = some [[]] ∧
    K.projectedCalibration 1 .s0 = [7] :=
  ⟨_, rfl, by decide, rfl, rfl, rfl, rfl, rfl, rfl⟩

/-- With one experiment repetition the public getters return exactly the per-kernel lists used above; together with
C12 `getter_finds_own_kernel` (distinct rounds: the getter for count `rounds[i]` answers from the i-th kernel) this turns
`kernel_eq_circuit` into a statement about `get_heralded_cycle_…`, `get_stabilizer_and_projected_cycle_…`,
`get_projected_cycle_…`, `get_heralded_calibration_…` and `get_projected_calibration_acquisition_indices`. -/
theorem getters_single_repetition (hK : ExpKernel.new? rounds true true d a 1 = some K) (e : QId) :
    (∀ count k, K.findKernel count = some k →
      K.heraldedCycle e count = some [k.heraldedIdx e] ∧
      K.stabilizerAndProjectedCycle e count = some [k.stabIdx e ++ k.finalIdx e] ∧
      K.projectedCycle e count = some [k.finalIdx e]) ∧
    (∀ s, K.heraldedCalibration e s = K.calKernel.heraldedState s e ∧
          K.projectedCalibration e s = K.calKernel.projectedState s e) := by
  have B := new?_spec hK
  have hone : ∀ l : List Int, slicedArrays l K.cycleLength K.reps = [l] := by
    intro l
    simp [slicedArrays, B.reps_eq, List.range_succ]
  refine ⟨?_, ?_⟩
  · intro count k hf
    simp [ExpKernel.heraldedCycle, ExpKernel.stabilizerAndProjectedCycle, ExpKernel.projectedCycle, hf, hone]
  · intro s
    simp [ExpKernel.heraldedCalibration, ExpKernel.projectedCalibration, slicedArray, hone, B.qutrit_eq]

example : ∃ K k, ExpKernel.new? [2, 0, 1] true true [0, 2] [1] 1 = some K ∧ K.findKernel 1 = some k ∧
    K.heraldedCycle 1 1 = some [[5]] := ⟨_, _, rfl, rfl, rfl⟩

/-- The same statement through the getters, for distinct rounds: the i-th rounds entry `r` owns the circuit indices
the three cycle getters return for count `r`. (Per entry: heralded = block offset, parity = the `r` following slots;
a 0-round entry has no parity index and the getter returns one empty row.) -/
theorem kernel_getters_eq_circuit (hK : ExpKernel.new? rounds true true d a 1 = some K) (hd : rounds.Nodup)
    {e : QId} (he : e ∈ a) :
    ∃ ks : List RepKernel, K.repKernels = ks ∧ ks.map (·.nr) = rounds ∧
      (∀ k ∈ ks, K.heraldedCycle e k.nr = some [k.heraldedIdx e] ∧
        K.stabilizerAndProjectedCycle e k.nr = some [k.stabIdx e ++ k.finalIdx e]) ∧
      (positions .heralded (ancillaTags rounds)).map Int.ofNat
        = (ks.map (fun k => k.heraldedIdx e)).flatten
            ++ (K.heraldedCalibration e .s0 ++ K.heraldedCalibration e .s1 ++ K.heraldedCalibration e .s2) ∧
      (positions .parity (ancillaTags rounds)).map Int.ofNat
        = (ks.map (fun k => k.stabIdx e ++ k.finalIdx e)).flatten ∧
      (positions .final (ancillaTags rounds)).map Int.ofNat
        = (ks.map (fun k => if k.nr = 0 then [k.stopIndex] else [])).flatten
            ++ (K.projectedCalibration e .s0 ++ K.projectedCalibration e .s1 ++ K.projectedCalibration e .s2) := by
  have B := new?_spec hK
  have hnr : K.repKernels.map (·.nr) = rounds := by rw [B.kernels, buildReps_nr]
  obtain ⟨hg, hc⟩ := getters_single_repetition hK e
  obtain ⟨h1, h2, h3⟩ := kernel_eq_circuit hK he
  refine ⟨K.repKernels, rfl, hnr, ?_, ?_, h2, ?_⟩
  · intro k hk
    obtain ⟨i, hi, hki⟩ := List.getElem_of_mem hk
    have hri : rounds[i]? = some k.nr := by
      rw [← hnr, List.getElem?_map, List.getElem?_eq_getElem hi, hki]; rfl
    have hf := (C12.getter_finds_own_kernel hK hd hri).1
    rw [List.getElem?_eq_getElem hi, hki] at hf
    exact ⟨(hg _ _ hf).1, (hg _ _ hf).2.1⟩
  · rw [h1, (hc .s0).1, (hc .s1).1, (hc .s2).1]; rfl
  · rw [h3, (hc .s0).2, (hc .s1).2, (hc .s2).2]; rfl

example : ∃ K, ExpKernel.new? [2, 0, 1] true true [0, 2] [1] 1 = some K ∧ [2, 0, 1].Nodup ∧ (1 : QId) ∈ [1] :=
  ⟨_, rfl, by decide, by decide⟩

/-- Outside the property (which speaks about ancillas), recorded because the kernel also answers for data qubits:
a DATA qubit is measured twice per rounds entry in the circuit (heralded, final), so its per-qubit circuit indices
are `2i, 2i+1`, whereas the kernel places its final index at the end of an `r`-round kernel (`r + 1` slots).
The two agree only while every entry has at most one round. -/
theorem data_qubit_indices_differ_witness :
    ∃ K, ExpKernel.new? [3, 1] true true [0] [1] 1 = some K ∧
      positions .final (dataTags [3, 1]) = [1, 3, 5, 7, 9] ∧
      K.projectedCycle 0 3 = some [[3]] ∧ K.projectedCycle 0 1 = some [[5]] := ⟨_, rfl, rfl, rfl, rfl⟩

/-! ## The tag sequence DERIVED from the program model of the constructor (Lemmas/KernelProgram.lean)

`RepCode.program desc cycles ds as` (Model/RepCode.lean) is the exported Stim program of
`construct_repetition_code_circuit(cycles, desc, initial_state)` — the model C09 compares with the real `to_stim`
text on every run. Its `M` instructions are the `DispersiveMeasure`s of the circuit, in listing order. The theorems
below read the per-qubit tag sequence off THAT program, for every cycle count and every description with distinct
qubit indices, and so replace "the tag sequence is read off the constructor code" by a proof for the block part.

What the program model does not contain: the acquisition TAG (a Stim `M` has none) and the calibration circuit.
 * tags: `KernelProgram.parts` splits the program into the three sub-circuits the constructor adds (`parts_flatten`:
   the concatenation is the program, definitionally the split `initPart ++ unroll qecBlocks ++ finalPart` of
   `RepCode.programWith`); every measurement of a part carries the tag its constructor function writes
   (`get_circuit_initialize_with_heralded`: 'heralded'; `get_circuit_qec_with_detectors`: 'parity', 0 cycles: 'final';
   `get_circuit_final_measurement`: 'final');
 * calibration: `KernelProgram.calRecord` is the acquisition record of `construct_calibration_circuit(QUTRIT)` only
   (three times: every calibrated qubit 'heralded', then every calibrated qubit 'final'); it is a specification read
   off the code like the tag sequence was, NOT derived from a program model. -/

open Qco.RepCode Qco.StimSem Qco.KernelProgram

variable {desc : RepCode.Desc} {cycles : Nat} {ds as : List Bool} {p prep : List Ins} {q : Nat} {cal : List Nat}

/-- (a) THE MEASUREMENT INSTRUCTIONS OF ONE BLOCK, in program order — every description, every cycle count, every
concrete initial state: the heralding measurement of every qubit (`qubit_ids` order), then per QEC cycle every ancilla
(`measure_ancilla_qubit_indices` order) — ONCE if there is no cycle at all —, then every data qubit. -/
theorem program_measurements (hp : program desc cycles ds as = some p) :
    measured p = desc.allIdx ++ (List.replicate (if cycles = 0 then 1 else cycles) desc.measAnc).flatten
                  ++ desc.measData :=
  measured_program hp

example : ∃ p, program (chainDesc 2 true) 2 [true, false] [] = some p ∧ measured p = [0, 1, 2, 1, 1, 0, 2] :=
  ⟨_, rfl, by decide⟩

/-- (a) for an ANCILLA of a description with distinct qubit indices: the program is the concatenation of the three
tagged parts, the acquisition record forgets to the program's `M` targets, and the ancilla's own acquisitions are
`heralded`, then `cycles` × `parity` (0 cycles: one `final`) — exactly `Circuit.ancillaBlock cycles`; as a count:
`1 + max 1 cycles` instructions `M q`. -/
theorem program_ancilla_block (hwf : desc.wellFormed = true) (hq : q ∈ desc.ancIdx)
    (hp : program desc cycles ds as = some p) :
    ∃ prep, prepConc desc ds as = some prep ∧
      p = (parts desc cycles prep).flatMap (·.2) ∧
      (acqRecord desc cycles prep).map (·.1) = measured p ∧
      tagsOf q (acqRecord desc cycles prep) = ancillaBlock cycles ∧
      measCount q p = (ancillaBlock cycles).length ∧
      p.countP (· == Ins.M q) = 1 + (if cycles = 0 then 1 else cycles) := by
  obtain ⟨prep, hprep, rfl⟩ := program_eq hp
  have hn := allIdx_nodup_of_wellFormed hwf
  have hm := measured_prepConc hprep
  have hc := measCount_ancilla hn hq cycles hm
  refine ⟨prep, hprep, (parts_flatten _ _ _).symm, acqRecord_qubits _ _ _, ancilla_tags hn hq cycles hm, ?_, ?_⟩
  · rw [hc]
    unfold ancillaBlock qecMeasurements
    split <;> simp <;> omega
  · rw [← measCount_eq_countP, hc]; rfl

example : (chainDesc 3 true).wellFormed = true ∧ 3 ∈ (chainDesc 3 true).ancIdx ∧
    ∃ p, program (chainDesc 3 true) 5 [true, false, true] [] = some p := ⟨by decide, by decide, _, rfl⟩

/-- (a) for a DATA qubit: `heralded`, `final` — `Circuit.dataBlock cycles` —, two instructions `M q`, for every
cycle count. -/
theorem program_data_block (hwf : desc.wellFormed = true) (hq : q ∈ desc.dataIdx)
    (hp : program desc cycles ds as = some p) :
    ∃ prep, prepConc desc ds as = some prep ∧
      p = (parts desc cycles prep).flatMap (·.2) ∧
      (acqRecord desc cycles prep).map (·.1) = measured p ∧
      tagsOf q (acqRecord desc cycles prep) = dataBlock cycles ∧
      p.countP (· == Ins.M q) = 2 := by
  obtain ⟨prep, hprep, rfl⟩ := program_eq hp
  have hn := allIdx_nodup_of_wellFormed hwf
  have hm := measured_prepConc hprep
  refine ⟨prep, hprep, (parts_flatten _ _ _).symm, acqRecord_qubits _ _ _, data_tags hn hq cycles hm, ?_⟩
  rw [← measCount_eq_countP, measCount_data hn hq cycles hm]

example : (chainDesc 3 true).wellFormed = true ∧ 2 ∈ (chainDesc 3 true).dataIdx ∧
    ∃ p, program (chainDesc 3 true) 5 [true, false, true] [] = some p := ⟨by decide, by decide, _, rfl⟩

/-- The documented 0-round difference, on the program: with no QEC cycle the ancilla is still measured a second time
(the 0-cycle branch of `get_circuit_qec_with_detectors`), tagged `final`; it occupies the slot for which the kernel
reports no projected index (`kernel_eq_circuit`, third clause). -/
theorem program_zero_round_block (hwf : desc.wellFormed = true) (hq : q ∈ desc.ancIdx)
    (hprep : prepConc desc ds as = some prep) :
    tagsOf q (acqRecord desc 0 prep) = [Tag.heralded, Tag.final] ∧
    measCount q (programWith desc 0 prep) = 2 := by
  have hn := allIdx_nodup_of_wellFormed hwf
  have hm := measured_prepConc hprep
  exact ⟨ancilla_tags hn hq 0 hm, measCount_ancilla hn hq 0 hm⟩

example : (chainDesc 2 true).wellFormed = true ∧ 1 ∈ (chainDesc 2 true).ancIdx ∧
    prepConc (chainDesc 2 true) [true, false] [] = some [Ins.X 0, Ins.I 2] ∧
    acqRecord (chainDesc 2 true) 0 [Ins.X 0, Ins.I 2] =
      [(0, .heralded), (1, .heralded), (2, .heralded), (1, .final), (0, .final), (2, .final)] :=
  ⟨by decide, by decide, rfl, by decide⟩

/-- (b) THE ROUNDS LIST. The acquisition record of the experiment — one block program per rounds entry (same
description, same initial state), then the calibration record on the qubits `cal` — restricted to an ancilla is the
tag sequence `Circuit.ancillaTags rounds`; restricted to a data qubit it is `Circuit.dataTags rounds`. The rounds part
of the record forgets to the `M` targets of the concatenated block programs. -/
theorem program_tag_sequence (hwf : desc.wellFormed = true) (hprep : prepConc desc ds as = some prep)
    (rounds : List Nat) (hn : cal.Nodup) (hc : q ∈ cal) :
    (roundsRecord desc rounds prep).map (·.1) = measured (roundsProgram desc rounds prep) ∧
    (q ∈ desc.ancIdx → tagsOf q (experimentRecord desc rounds prep cal) = ancillaTags rounds) ∧
    (q ∈ desc.dataIdx → tagsOf q (experimentRecord desc rounds prep cal) = dataTags rounds) := by
  have hnd := allIdx_nodup_of_wellFormed hwf
  have hm := measured_prepConc hprep
  exact ⟨roundsRecord_qubits _ _ _, fun hq => experiment_tags_anc hnd hq rounds hm hn hc,
    fun hq => experiment_tags_data hnd hq rounds hm hn hc⟩

example : (chainDesc 2 true).wellFormed = true ∧
    prepConc (chainDesc 2 true) [true, false] [] = some [Ins.X 0, Ins.I 2] ∧
    (chainDesc 2 true).allIdx.Nodup ∧ 1 ∈ (chainDesc 2 true).allIdx ∧ 1 ∈ (chainDesc 2 true).ancIdx ∧
    0 ∈ (chainDesc 2 true).dataIdx ∧ 0 ∈ (chainDesc 2 true).allIdx :=
  ⟨by decide, rfl, by decide, by decide, by decide, by decide, by decide⟩

/-- (b) KERNEL = PROGRAM. For an ancilla `q` of a description with distinct qubit indices, the per-qubit acquisition
indices (`get_acquisition_indices(AcquisitionTag(q, tag))` = running index among the acquisitions of `q`) in the
record of the block programs of `rounds` followed by the calibration record are the indices of the experiment kernel
built for the same rounds over the description's data / ancilla indices — with the documented exception: one `final`
index per 0-round entry (the slot `k.stopIndex` for which the kernel has no projected index). -/
theorem program_kernel_eq_circuit (hwf : desc.wellFormed = true) (hprep : prepConc desc ds as = some prep)
    (hK : ExpKernel.new? rounds true true desc.dataIdx desc.ancIdx 1 = some K) (hq : q ∈ desc.ancIdx)
    (hn : cal.Nodup) (hc : q ∈ cal) :
    (acqIndices q .heralded (experimentRecord desc rounds prep cal)).map Int.ofNat
      = (K.repKernels.map (fun k => k.heraldedIdx q)).flatten
          ++ (K.calKernel.heralded0 q ++ K.calKernel.heralded1 q ++ K.calKernel.heralded2 q) ∧
    (acqIndices q .parity (experimentRecord desc rounds prep cal)).map Int.ofNat
      = (K.repKernels.map (fun k => k.stabIdx q ++ k.finalIdx q)).flatten ∧
    (acqIndices q .final (experimentRecord desc rounds prep cal)).map Int.ofNat
      = (K.repKernels.map (fun k => if k.nr = 0 then [k.stopIndex] else [])).flatten
          ++ (K.calKernel.state0 q ++ K.calKernel.state1 q ++ K.calKernel.state2 q) ∧
    ((tagsOf q (experimentRecord desc rounds prep cal)).length : Int) = K.cycleLength := by
  have ht := experiment_tags_anc (allIdx_nodup_of_wellFormed hwf) hq rounds (measured_prepConc hprep) hn hc
  simp only [acqIndices, ht]
  obtain ⟨h1, h2, h3⟩ := kernel_eq_circuit hK hq
  exact ⟨h1, h2, h3, count_eq_cycle_length hK⟩

/-- non-vacuity: distance-2 chain (data 0, 2; ancilla 1), rounds `[0, 3]`, calibration on all three qubits -/
example : ∃ K, (chainDesc 2 true).wellFormed = true ∧
    prepConc (chainDesc 2 true) [true, false] [] = some [Ins.X 0, Ins.I 2] ∧
    ExpKernel.new? [0, 3] true true (chainDesc 2 true).dataIdx (chainDesc 2 true).ancIdx 1 = some K ∧
    1 ∈ (chainDesc 2 true).ancIdx ∧ [0, 1, 2].Nodup ∧ 1 ∈ [0, 1, 2] ∧
    acqIndices 1 .final (experimentRecord (chainDesc 2 true) [0, 3] [Ins.X 0, Ins.I 2] [0, 1, 2]) = [1, 7, 9, 11] ∧
    acqIndices 1 .parity (experimentRecord (chainDesc 2 true) [0, 3] [Ins.X 0, Ins.I 2] [0, 1, 2]) = [3, 4, 5] :=
  ⟨_, by decide, rfl, rfl, by decide, by decide, by decide, by decide, by decide⟩


end Qco.C13
