import QcoVerif.Model.Kernel
/-
  Helper lemmas about the index-kernel model (used by Properties/C12.lean and Properties/C13.lean).
  Core Lean only.
-/
namespace Qco.Kernel

/-! ### arithmetic vocabulary of the statements -/

/-- a boolean as 0/1 (`index_delta_heralded_initialization`) -/
def hInt (b : Bool) : Int := if b then 1 else 0

theorem hInt_cases (b : Bool) : hInt b = 0 ∨ hInt b = 1 := by cases b <;> simp [hInt]
@[simp] theorem hInt_true : hInt true = 1 := rfl
@[simp] theorem hInt_false : hInt false = 0 := rfl

/-- number of index slots of a repetition kernel of `r` rounds: `h + max 0 (r-1) + 1` (DESIGN.md: `len r h`) -/
def slotLen (h : Bool) (r : Nat) : Int := hInt h + max 0 ((r : Int) - 1) + 1

theorem slotLen_pos (h : Bool) (r : Nat) : 1 ≤ slotLen h r := by
  rcases hInt_cases h with e | e <;> simp only [slotLen, e] <;> omega

/-- number of index slots of the qutrit calibration kernel: `3h + 3` -/
def calLen (h : Bool) : Int := 3 * hInt h + 3

theorem calLen_pos (h : Bool) : 1 ≤ calLen h := by
  rcases hInt_cases h with e | e <;> simp only [calLen, e] <;> omega

/-- the calibration kernel's contribution to the cycle: present iff the calibration flag is set -/
def calPart (h q : Bool) : Int := if q then calLen h else 0

/-- the same as a list of kernel lengths -/
def calLens (h q : Bool) : List Int := if q then [calLen h] else []

theorem calLens_sum (h q : Bool) : (calLens h q).sum = calPart h q := by
  cases q <;> simp [calLens, calPart]

theorem calPart_nonneg (h q : Bool) : 0 ≤ calPart h q := by
  have := calLen_pos h
  cases q <;> simp only [calPart, if_true, Bool.false_eq_true, if_false] <;> omega

/-- a state key as a number -/
def StateKey.num : StateKey → Int
  | .s0 => 0 | .s1 => 1 | .s2 => 2

/-- consecutive inclusive spans of the given lengths, starting at `s` -/
def chain : Int → List Int → List (Int × Int)
  | _, [] => []
  | s, l :: ls => (s, s + l - 1) :: chain (s + l) ls

/-! ### `chain` -/

theorem chain_append (s : Int) (l₁ l₂ : List Int) :
    chain s (l₁ ++ l₂) = chain s l₁ ++ chain (s + l₁.sum) l₂ := by
  induction l₁ generalizing s with
  | nil => simp [chain]
  | cons a as ih =>
    simp only [List.cons_append, chain, ih, List.sum_cons]
    rw [Int.add_assoc]

theorem chain_length (s : Int) (ls : List Int) : (chain s ls).length = ls.length := by
  induction ls generalizing s with
  | nil => rfl
  | cons a as ih => simp [chain, ih]

theorem sum_nonneg_of_pos {ls : List Int} (h : ∀ l ∈ ls, 1 ≤ l) : 0 ≤ ls.sum := by
  induction ls with
  | nil => simp
  | cons b bs ih =>
    have := h b (by simp)
    have := ih (fun l hl => h l (by simp [hl]))
    simp only [List.sum_cons]; omega

theorem chain_start_ge {s : Int} {ls : List Int} (hpos : ∀ l ∈ ls, 1 ≤ l) :
    ∀ p ∈ chain s ls, s ≤ p.1 ∧ p.1 ≤ p.2 ∧ p.2 < s + ls.sum := by
  induction ls generalizing s with
  | nil => intro p hp; simp [chain] at hp
  | cons a as ih =>
    intro p hp
    have ha : 1 ≤ a := hpos a (by simp)
    have has : ∀ l ∈ as, 1 ≤ l := fun l hl => hpos l (by simp [hl])
    have hsum : 0 ≤ as.sum := sum_nonneg_of_pos has
    simp only [chain, List.mem_cons] at hp
    rcases hp with rfl | hp
    · simp only [List.sum_cons]; omega
    · have := ih has p hp
      simp only [List.sum_cons]; omega

theorem chain_consecutive (s : Int) (ls : List Int) (i : Nat) (p p' : Int × Int)
    (h1 : (chain s ls)[i]? = some p) (h2 : (chain s ls)[i + 1]? = some p') : p'.1 = p.2 + 1 := by
  induction ls generalizing s i with
  | nil => simp [chain] at h1
  | cons a as ih =>
    cases i with
    | zero =>
      cases as with
      | nil => simp [chain] at h2
      | cons b bs =>
        simp only [chain, List.getElem?_cons_zero, List.getElem?_cons_succ, Option.some.injEq] at h1 h2
        subst h1 h2; simp only; omega
    | succ j =>
      simp only [chain, List.getElem?_cons_succ] at h1 h2
      exact ih (s + a) j h1 h2

theorem chain_pairwise {s : Int} {ls : List Int} (hpos : ∀ l ∈ ls, 1 ≤ l) :
    List.Pairwise (fun p p' : Int × Int => p.2 < p'.1) (chain s ls) := by
  induction ls generalizing s with
  | nil => simp [chain]
  | cons a as ih =>
    have has : ∀ l ∈ as, 1 ≤ l := fun l hl => hpos l (by simp [hl])
    simp only [chain, List.pairwise_cons]
    refine ⟨?_, ih has⟩
    intro p hp
    have := chain_start_ge has p hp
    show s + a - 1 < p.1
    omega

theorem chain_cover {s : Int} {ls : List Int} (hpos : ∀ l ∈ ls, 1 ≤ l) (x : Int) :
    (s ≤ x ∧ x < s + ls.sum) ↔ ∃ p ∈ chain s ls, p.1 ≤ x ∧ x ≤ p.2 := by
  induction ls generalizing s with
  | nil => simp [chain]
  | cons a as ih =>
    have ha : 1 ≤ a := hpos a (by simp)
    have has : ∀ l ∈ as, 1 ≤ l := fun l hl => hpos l (by simp [hl])
    have ih' := ih (s := s + a) has
    have hsum : 0 ≤ as.sum := sum_nonneg_of_pos has
    simp only [chain, List.sum_cons]
    constructor
    · intro hx
      by_cases hxa : x < s + a
      · refine ⟨(s, s + a - 1), List.mem_cons_self, ?_, ?_⟩
        · show s ≤ x; omega
        · show x ≤ s + a - 1; omega
      · obtain ⟨p, hp, h1, h2⟩ := ih'.mp (by omega)
        exact ⟨p, List.mem_cons_of_mem _ hp, h1, h2⟩
    · rintro ⟨p, hp, h1, h2⟩
      rcases List.mem_cons.mp hp with rfl | hp
      · have h1' : s ≤ x := h1
        have h2' : x ≤ s + a - 1 := h2
        omega
      · have := ih'.mpr ⟨p, hp, h1, h2⟩; omega

theorem chain_getLast (s : Int) (ls : List Int) (hne : ls ≠ []) :
    (chain s ls).getLast?.map Prod.snd = some (s + ls.sum - 1) := by
  induction ls generalizing s with
  | nil => exact absurd rfl hne
  | cons a as ih =>
    cases as with
    | nil => simp [chain]
    | cons b bs =>
      have := ih (s + a) (by simp)
      simp only [chain, List.getLast?_cons_cons] at this ⊢
      rw [this]; simp only [List.sum_cons, Option.some.injEq]; omega

theorem chain_head (s l : Int) (ls : List Int) : (chain s (l :: ls)).head? = some (s, s + l - 1) := rfl

/-! ### one repetition kernel -/

namespace RepKernel

theorem dHer_eq (k : RepKernel) : k.dHer = hInt k.heralded := rfl

theorem stop_eq (k : RepKernel) : k.stopIndex = k.startIndex + slotLen k.heralded k.nr - 1 := by
  simp only [stopIndex, exclStart, dHer_eq, dStab, dFinal, slotLen]; omega

theorem start_le_stop (k : RepKernel) : k.startIndex ≤ k.stopIndex := by
  have := slotLen_pos k.heralded k.nr
  rw [stop_eq]; omega

theorem kernelLength_eq (k : RepKernel) : k.kernelLength = slotLen k.heralded k.nr := by
  simp only [kernelLength, stop_eq]; omega

theorem mem_heraldedIdx {k : RepKernel} {e : QId} {x : Int} :
    x ∈ k.heraldedIdx e ↔ e ∈ k.involved ∧ k.heralded = true ∧ x = k.startIndex := by
  unfold heraldedIdx
  by_cases he : e ∈ k.involved
  · cases hh : k.heralded
    · simp [he]
    · simp only [he, not_true_eq_false, if_false, List.mem_singleton, true_and, dHer_eq, hh,
        hInt_true, exclStart, Bool.true_eq_false]
      omega
  · simp [he]

theorem mem_stabIdx {k : RepKernel} {e : QId} {x : Int} :
    x ∈ k.stabIdx e ↔
      e ∈ k.ancIds ∧ 2 ≤ k.nr ∧ k.startIndex + hInt k.heralded ≤ x ∧
        x ≤ k.startIndex + hInt k.heralded + (k.nr : Int) - 2 := by
  unfold stabIdx
  by_cases he : e ∈ k.ancIds
  · by_cases h1 : k.nr = 1
    · simp [he, h1]
    · simp only [he, not_true_eq_false, if_false, h1, List.mem_map, List.mem_range'_1, true_and,
        dHer_eq, exclStart]
      constructor
      · rintro ⟨i, ⟨hi1, hi2⟩, rfl⟩
        omega
      · rintro ⟨h2, hlo, hhi⟩
        refine ⟨(x - (k.startIndex - 1 + hInt k.heralded)).toNat, ⟨?_, ?_⟩, ?_⟩ <;> omega
  · simp [he]

theorem mem_finalIdx {k : RepKernel} {e : QId} {x : Int} :
    x ∈ k.finalIdx e ↔ e ∈ k.involved ∧ ¬ (e ∈ k.ancIds ∧ k.nr = 0) ∧ x = k.stopIndex := by
  unfold finalIdx
  by_cases he : e ∈ k.involved
  · by_cases hz : e ∈ k.ancIds ∧ k.nr = 0
    · simp [he, hz]
    · have hst : k.exclStart + k.dHer + k.dStab + k.dFinal = k.stopIndex := by
        simp only [stopIndex]; omega
      simp only [he, not_true_eq_false, if_false, hz, List.mem_singleton, true_and, not_false_eq_true, hst]
  · simp [he]

theorem anc_involved {k : RepKernel} {e : QId} (he : e ∈ k.ancIds) : e ∈ k.involved := by
  simp [involved, he]

theorem data_involved {k : RepKernel} {e : QId} (he : e ∈ k.dataIds) : e ∈ k.involved := by
  simp [involved, he]

/-- all three categories of one qubit in one kernel, in the order heralded, stabilizer, final -/
def all (k : RepKernel) (e : QId) : List Int := k.heraldedIdx e ++ k.stabIdx e ++ k.finalIdx e

theorem mem_all_in_span {k : RepKernel} {e : QId} {x : Int} (hx : x ∈ k.all e) :
    k.startIndex ≤ x ∧ x ≤ k.stopIndex := by
  have hs := k.stop_eq
  have hl := slotLen_pos k.heralded k.nr
  simp only [all, List.mem_append, mem_heraldedIdx, mem_stabIdx, mem_finalIdx] at hx
  rcases hInt_cases k.heralded with e0 | e0 <;>
    simp only [slotLen, e0] at hs hl <;> simp only [e0] at hx <;> omega

/-- an ancilla's categories cover the kernel, except the last slot of a 0-round kernel -/
theorem mem_all_anc {k : RepKernel} {e : QId} (he : e ∈ k.ancIds) (x : Int) :
    x ∈ k.all e ↔ k.startIndex ≤ x ∧ x ≤ k.stopIndex ∧ ¬ (k.nr = 0 ∧ x = k.stopIndex) := by
  have hs := k.stop_eq
  simp only [all, List.mem_append, mem_heraldedIdx, mem_stabIdx, mem_finalIdx, anc_involved he, he,
    true_and]
  cases hh : k.heralded <;>
    simp only [slotLen, hh, hInt_true, hInt_false, Bool.false_eq_true, false_and, true_and, false_or] at hs ⊢ <;>
    constructor <;> intro hx <;> omega

/-- a pure data qubit has the heralded slot (if any) and the final slot -/
theorem mem_all_data {k : RepKernel} {e : QId} (hd : e ∈ k.dataIds) (ha : e ∉ k.ancIds) (x : Int) :
    x ∈ k.all e ↔ (k.heralded = true ∧ x = k.startIndex) ∨ x = k.stopIndex := by
  simp [all, List.mem_append, mem_heraldedIdx, mem_stabIdx, mem_finalIdx, data_involved hd, ha]

/-- a qubit the kernel does not know has no index at all -/
theorem all_of_not_involved {k : RepKernel} {e : QId} (hn : e ∉ k.involved) : k.all e = [] := by
  have ha : e ∉ k.ancIds := fun h => hn (anc_involved h)
  simp [all, heraldedIdx, stabIdx, finalIdx, hn, ha]

theorem stabIdx_sorted (k : RepKernel) (e : QId) : List.Pairwise (· < ·) (k.stabIdx e) := by
  unfold stabIdx
  split
  · simp
  · split
    · simp
    · rw [List.pairwise_map]
      exact List.Pairwise.imp (fun {a b} (h : a < b) => by omega) List.pairwise_lt_range'

/-- heralded < stabilizer < final, each strictly ascending: in particular the categories are pairwise disjoint and
free of duplicates -/
theorem all_sorted (k : RepKernel) (e : QId) : List.Pairwise (· < ·) (k.all e) := by
  have hs := k.stop_eq
  have hl := slotLen_pos k.heralded k.nr
  unfold all
  rw [List.pairwise_append, List.pairwise_append]
  refine ⟨⟨?_, stabIdx_sorted k e, ?_⟩, ?_, ?_⟩
  · unfold heraldedIdx
    split
    · simp
    · split <;> simp
  · intro a ha b hb
    rw [mem_heraldedIdx] at ha; rw [mem_stabIdx] at hb
    obtain ⟨_, hh, rfl⟩ := ha
    simp only [hh, hInt_true] at hb; omega
  · unfold finalIdx
    split
    · simp
    · split <;> simp
  · intro a ha b hb
    rw [mem_finalIdx] at hb
    obtain ⟨_, hz, rfl⟩ := hb
    rw [List.mem_append, mem_heraldedIdx, mem_stabIdx] at ha
    cases hh : k.heralded <;>
      simp only [slotLen, hh, hInt_true, hInt_false] at hs hl <;>
      simp only [hh, hInt_true, hInt_false, Bool.false_eq_true, false_and, and_false, false_or, eq_self,
        true_and] at ha
    · omega
    · rcases ha with ⟨_, rfl⟩ | ha <;> omega

end RepKernel

/-! ### the calibration kernel -/

namespace CalKernel

theorem dHer_eq (c : CalKernel) : c.dHer = hInt c.heralded := rfl

theorem stop_eq (c : CalKernel) : c.stopIndex = c.startIndex + calLen c.heralded - 1 := by
  simp only [stopIndex, exclStart, dHer_eq, d0, d1, d2, calLen]; omega

theorem start_le_stop (c : CalKernel) : c.startIndex ≤ c.stopIndex := by
  have := calLen_pos c.heralded
  rw [stop_eq]; omega

theorem kernelLength_eq (c : CalKernel) : c.kernelLength = calLen c.heralded := by
  simp only [kernelLength, stop_eq]; omega

theorem mem_heraldedGuard {c : CalKernel} {e : QId} {x y : Int} :
    y ∈ c.heraldedGuard e x ↔ e ∈ c.ids ∧ c.heralded = true ∧ y = x := by
  unfold heraldedGuard
  by_cases he : e ∈ c.ids <;> cases hh : c.heralded <;> simp [he]

theorem mem_stateGuard {c : CalKernel} {e : QId} {x y : Int} :
    y ∈ c.stateGuard e x ↔ e ∈ c.ids ∧ y = x := by
  unfold stateGuard
  by_cases he : e ∈ c.ids <;> simp [he]

/-- the six categories in index order: heralded 0, state 0, heralded 1, state 1, heralded 2, state 2 -/
def all (c : CalKernel) (e : QId) : List Int :=
  c.heralded0 e ++ c.state0 e ++ c.heralded1 e ++ c.state1 e ++ c.heralded2 e ++ c.state2 e

/-- closed form of the six getters: with heralding `start + 2s` / `start + 2s + 1`, without `-` / `start + s` -/
theorem mem_heraldedState {c : CalKernel} {s : StateKey} {e : QId} {x : Int} :
    x ∈ c.heraldedState s e ↔ e ∈ c.ids ∧ c.heralded = true ∧ x = c.startIndex + 2 * s.num := by
  have key : ∀ y z : Int, (c.heralded = true → y = z) →
      (x ∈ c.heraldedGuard e y ↔ e ∈ c.ids ∧ c.heralded = true ∧ x = z) := by
    intro y z hyz
    rw [mem_heraldedGuard]
    constructor
    · rintro ⟨h1, h2, h3⟩; exact ⟨h1, h2, by rw [h3, hyz h2]⟩
    · rintro ⟨h1, h2, h3⟩; exact ⟨h1, h2, by rw [h3, hyz h2]⟩
  cases s <;> simp only [heraldedState, heralded0, heralded1, heralded2] <;> apply key <;> intro hh <;>
    simp only [exclStart, dHer_eq, hh, hInt_true, d0, d1, StateKey.num] <;> omega

theorem mem_projectedState {c : CalKernel} {s : StateKey} {e : QId} {x : Int} :
    x ∈ c.projectedState s e ↔ e ∈ c.ids ∧
      x = c.startIndex + (1 + hInt c.heralded) * s.num + hInt c.heralded := by
  have key : ∀ y z : Int, y = z → (x ∈ c.stateGuard e y ↔ e ∈ c.ids ∧ x = z) := by
    intro y z hyz
    rw [mem_stateGuard, hyz]
  cases s <;> simp only [projectedState, state0, state1, state2] <;> apply key <;>
    simp only [exclStart, dHer_eq, d0, d1, d2, StateKey.num] <;>
    rcases hInt_cases c.heralded with e0 | e0 <;> simp only [e0] <;> omega

/-- a calibrated qubit's six categories cover the calibration kernel -/
theorem mem_all_of_mem {c : CalKernel} {e : QId} (he : e ∈ c.ids) (x : Int) :
    x ∈ c.all e ↔ c.startIndex ≤ x ∧ x ≤ c.stopIndex := by
  have hs := c.stop_eq
  simp only [all, List.mem_append, heralded0, heralded1, heralded2, state0, state1, state2,
    mem_heraldedGuard, mem_stateGuard, exclStart, dHer_eq, d0, d1, d2, he, true_and]
  cases hh : c.heralded <;>
    simp only [calLen, hh, hInt_true, hInt_false, Bool.false_eq_true, false_and, true_and, false_or,
      eq_self, or_false] at hs ⊢ <;>
    constructor <;> intro hx <;> omega

theorem all_of_not_mem {c : CalKernel} {e : QId} (hn : e ∉ c.ids) : c.all e = [] := by
  simp [all, heralded0, heralded1, heralded2, state0, state1, state2, heraldedGuard, stateGuard, hn]

theorem mem_all_in_span {c : CalKernel} {e : QId} {x : Int} (hx : x ∈ c.all e) :
    c.startIndex ≤ x ∧ x ≤ c.stopIndex := by
  by_cases he : e ∈ c.ids
  · exact (mem_all_of_mem he x).mp hx
  · rw [all_of_not_mem he] at hx; simp at hx

theorem all_sorted (c : CalKernel) (e : QId) : List.Pairwise (· < ·) (c.all e) := by
  by_cases he : e ∈ c.ids
  · cases hh : c.heralded <;>
      simp [all, heralded0, heralded1, heralded2, state0, state1, state2, heraldedGuard, stateGuard, he, hh,
        dHer_eq, exclStart, d0, d1, d2] <;> omega
  · simp [all_of_not_mem he]

end CalKernel

/-! ### the constructor's loop -/

theorem buildReps_spans (h : Bool) (d a : List QId) (strat : Strategy) (rounds : List Nat) :
    (buildReps h d a strat rounds).map (fun k => (k.startIndex, k.stopIndex))
      = chain strat.getIndex (rounds.map (slotLen h)) := by
  induction rounds generalizing strat with
  | nil => rfl
  | cons r rs ih =>
    simp only [buildReps, List.map_cons, chain, ih]
    have hs := RepKernel.stop_eq
      { nr := r, heralded := h, strategy := strat, dataIds := d, ancIds := a }
    simp only [RepKernel.startIndex] at hs ⊢
    rw [hs]
    simp only [Strategy.getIndex]
    congr 2
    omega

theorem buildReps_fields {h : Bool} {d a : List QId} {strat : Strategy} {rounds : List Nat} :
    ∀ k ∈ buildReps h d a strat rounds, k.heralded = h ∧ k.dataIds = d ∧ k.ancIds = a := by
  induction rounds generalizing strat with
  | nil => intro k hk; simp [buildReps] at hk
  | cons r rs ih =>
    intro k hk
    simp only [buildReps, List.mem_cons] at hk
    rcases hk with rfl | hk
    · simp
    · exact ih k hk

theorem buildReps_nr (h : Bool) (d a : List QId) (strat : Strategy) (rounds : List Nat) :
    (buildReps h d a strat rounds).map (·.nr) = rounds := by
  induction rounds generalizing strat with
  | nil => rfl
  | cons r rs ih => simp [buildReps, ih]

theorem buildReps_length (h : Bool) (d a : List QId) (strat : Strategy) (rounds : List Nat) :
    (buildReps h d a strat rounds).length = rounds.length := by
  have := congrArg List.length (buildReps_nr h d a strat rounds)
  simpa using this

/-- what a successfully constructed experiment kernel consists of -/
structure Built (rounds : List Nat) (h q : Bool) (d a : List QId) (reps : Nat) (K : ExpKernel) : Prop where
  ne : rounds ≠ []
  reps_eq : K.reps = reps
  rounds_eq : K.rounds = rounds
  qutrit_eq : K.qutrit = q
  kernels : K.repKernels = buildReps h d a (.fixed 0) rounds
  cal : K.calKernel =
    { heralded := h, strategy := .relative ((rounds.map (slotLen h)).sum - 1), ids := d ++ a }

theorem new?_spec {rounds : List Nat} {h q : Bool} {d a : List QId} {reps : Nat} {K : ExpKernel}
    (hK : ExpKernel.new? rounds h q d a reps = some K) : Built rounds h q d a reps K := by
  unfold ExpKernel.new? at hK
  simp only at hK
  split at hK
  · exact absurd hK (by simp)
  · rename_i last hlast
    have hne : rounds ≠ [] := by
      intro h0; subst h0; simp [buildReps] at hlast
    have hsp := buildReps_spans h d a (.fixed 0) rounds
    have hl := chain_getLast (Strategy.fixed 0).getIndex (rounds.map (slotLen h)) (by simpa using hne)
    rw [← hsp, List.getLast?_map, hlast] at hl
    simp only [Option.map_some, Option.some.injEq, Strategy.getIndex] at hl
    injection hK with hK
    subst hK
    refine ⟨hne, rfl, rfl, rfl, rfl, ?_⟩
    simp only [hl]
    congr 2
    omega

theorem new?_isSome_iff (rounds : List Nat) (h q : Bool) (d a : List QId) (reps : Nat) :
    (ExpKernel.new? rounds h q d a reps).isSome ↔ rounds ≠ [] := by
  constructor
  · intro hs
    obtain ⟨K, hK⟩ := Option.isSome_iff_exists.mp hs
    exact (new?_spec hK).ne
  · intro hne
    cases rounds with
    | nil => exact absurd rfl hne
    | cons r rs =>
      unfold ExpKernel.new?
      simp only
      split
      · rename_i hl
        rw [List.getLast?_eq_none_iff] at hl
        simp [buildReps] at hl
      · simp

namespace Built

variable {rounds : List Nat} {h q : Bool} {d a : List QId} {reps : Nat} {K : ExpKernel}

theorem mem_fields (B : Built rounds h q d a reps K) {k : RepKernel} (hk : k ∈ K.repKernels) :
    k.heralded = h ∧ k.dataIds = d ∧ k.ancIds = a := by
  rw [B.kernels] at hk
  exact buildReps_fields k hk

theorem rep_spans (B : Built rounds h q d a reps K) :
    K.repKernels.map (fun k => (k.startIndex, k.stopIndex)) = chain 0 (rounds.map (slotLen h)) := by
  rw [B.kernels, buildReps_spans]; rfl

theorem cal_start (B : Built rounds h q d a reps K) :
    K.calKernel.startIndex = (rounds.map (slotLen h)).sum := by
  rw [B.cal]; simp only [CalKernel.startIndex, Strategy.getIndex]; omega

theorem cal_heralded (B : Built rounds h q d a reps K) : K.calKernel.heralded = h := by rw [B.cal]

theorem cal_ids (B : Built rounds h q d a reps K) : K.calKernel.ids = d ++ a := by rw [B.cal]

theorem cal_stop (B : Built rounds h q d a reps K) :
    K.calKernel.stopIndex = (rounds.map (slotLen h)).sum + calLen h - 1 := by
  rw [CalKernel.stop_eq, B.cal_start, B.cal_heralded]

theorem spans_eq (B : Built rounds h q d a reps K) :
    K.spans = chain 0 (rounds.map (slotLen h) ++ calLens h q) := by
  have h0 : K.spans = K.repKernels.map (fun k => (k.startIndex, k.stopIndex))
      ++ (if q then [(K.calKernel.startIndex, K.calKernel.stopIndex)] else []) := by
    cases hq : q <;>
      simp [ExpKernel.spans, ExpKernel.indexingKernels, IKernel.startIndex, IKernel.stopIndex,
        Function.comp_def, B.qutrit_eq, hq]
  rw [h0, B.rep_spans, B.cal_start, B.cal_stop, chain_append]
  cases q <;> simp [chain, calLens]

theorem lens_pos (h q : Bool) (rounds : List Nat) : ∀ l ∈ rounds.map (slotLen h) ++ calLens h q, 1 ≤ l := by
  intro l hl
  simp only [List.mem_append, List.mem_map] at hl
  rcases hl with ⟨r, _, rfl⟩ | hl
  · exact slotLen_pos h r
  · cases q <;> simp [calLens] at hl
    subst hl; exact calLen_pos h

theorem rep_lens_pos (h : Bool) (rounds : List Nat) : ∀ l ∈ rounds.map (slotLen h), 1 ≤ l := by
  intro l hl
  obtain ⟨r, _, rfl⟩ := List.mem_map.mp hl
  exact slotLen_pos h r

theorem lens_ne (B : Built rounds h q d a reps K) : rounds.map (slotLen h) ++ calLens h q ≠ [] := by
  have := B.ne
  simp [this]

theorem start_eq (B : Built rounds h q d a reps K) : K.startIndex = 0 := by
  have hk := B.kernels
  cases hr : rounds with
  | nil => exact absurd hr B.ne
  | cons r rs =>
    rw [hr] at hk
    simp only [ExpKernel.startIndex, ExpKernel.indexingKernels, hk, buildReps, List.map_cons,
      List.cons_append, IKernel.startIndex, RepKernel.startIndex, Strategy.getIndex]

theorem lastStop_eq (B : Built rounds h q d a reps K) :
    K.lastStopIndex = (rounds.map (slotLen h)).sum + calPart h q - 1 := by
  have hs : K.indexingKernels.getLast?.map IKernel.stopIndex = K.spans.getLast?.map Prod.snd := by
    rw [ExpKernel.spans, List.getLast?_map, Option.map_map]; rfl
  rw [B.spans_eq, chain_getLast _ _ B.lens_ne, List.sum_append, calLens_sum] at hs
  unfold ExpKernel.lastStopIndex
  cases hl : K.indexingKernels.getLast? with
  | none => rw [hl] at hs; simp at hs
  | some k =>
    rw [hl] at hs
    simp only [Option.map_some, Option.some.injEq] at hs
    show k.stopIndex = _
    rw [hs]; omega

theorem cycle_eq (B : Built rounds h q d a reps K) :
    K.cycleLength = (rounds.map (slotLen h)).sum + calPart h q := by
  simp only [ExpKernel.cycleLength, B.start_eq, B.lastStop_eq]; omega

theorem rep_sum_pos (B : Built rounds h q d a reps K) : 1 ≤ (rounds.map (slotLen h)).sum := by
  have hne := B.ne
  cases rounds with
  | nil => exact absurd rfl hne
  | cons r rs =>
    have := slotLen_pos h r
    have := sum_nonneg_of_pos (rep_lens_pos h rs)
    simp only [List.map_cons, List.sum_cons]; omega

theorem cycle_pos (B : Built rounds h q d a reps K) : 1 ≤ K.cycleLength := by
  have := B.rep_sum_pos
  have := calPart_nonneg h q
  rw [B.cycle_eq]; omega

/-- the repetition kernels are pairwise ordered (hence disjoint) and all lie before the calibration kernel -/
theorem rep_pairwise (B : Built rounds h q d a reps K) :
    List.Pairwise (fun k k' : RepKernel => k.stopIndex < k'.startIndex) K.repKernels := by
  have hp := rep_lens_pos h rounds
  have := chain_pairwise (s := 0) hp
  rw [← B.rep_spans, List.pairwise_map] at this
  exact this

theorem rep_in_cycle (B : Built rounds h q d a reps K) {k : RepKernel} (hk : k ∈ K.repKernels) :
    0 ≤ k.startIndex ∧ k.stopIndex < K.calKernel.startIndex := by
  have hp := rep_lens_pos h rounds
  have hm : (k.startIndex, k.stopIndex) ∈ chain 0 (rounds.map (slotLen h)) := by
    rw [← B.rep_spans]; exact List.mem_map.mpr ⟨k, hk, rfl⟩
  have := chain_start_ge hp _ hm
  rw [B.cal_start]
  simp only at this; omega

end Built


/-! ### generic list facts -/

theorem pairwise_trichotomy {α : Type} {R : α → α → Prop} {l : List α} (hp : List.Pairwise R l)
    {x y : α} (hx : x ∈ l) (hy : y ∈ l) : x = y ∨ R x y ∨ R y x := by
  induction l with
  | nil => simp at hx
  | cons z zs ih =>
    rw [List.pairwise_cons] at hp
    rcases List.mem_cons.mp hx with rfl | hx' <;> rcases List.mem_cons.mp hy with rfl | hy'
    · exact Or.inl rfl
    · exact Or.inr (Or.inl (hp.1 _ hy'))
    · exact Or.inr (Or.inr (hp.1 _ hx'))
    · exact ih hp.2 hx' hy'

/-- Python's `for k in l: if f(k) == r: return k` finds the i-th element when the keys are distinct -/
theorem find?_of_nodup_map {α : Type} (f : α → Nat) (l : List α) (i r : Nat)
    (hn : (l.map f).Nodup) (hi : (l.map f)[i]? = some r) :
    l.find? (fun x => f x == r) = l[i]? := by
  induction l generalizing i with
  | nil => simp
  | cons x xs ih =>
    rw [List.map_cons, List.nodup_cons] at hn
    cases i with
    | zero =>
      simp only [List.map_cons, List.getElem?_cons_zero, Option.some.injEq] at hi
      simp [hi]
    | succ j =>
      simp only [List.map_cons, List.getElem?_cons_succ] at hi
      have hmem : r ∈ xs.map f := List.mem_of_getElem? hi
      have hne : f x ≠ r := fun h => hn.1 (h ▸ hmem)
      simp only [List.find?_cons, List.getElem?_cons_succ]
      have : (f x == r) = false := by simpa using hne
      rw [this]
      exact ih j hn.2 hi

/-! ### one cycle of the experiment kernel -/

theorem cycleIndices_eq (K : ExpKernel) (e : QId) :
    K.cycleIndices e = (K.repKernels.map (fun k => k.all e)).flatten
      ++ (if K.qutrit then K.calKernel.all e else []) := rfl

theorem mem_cycleIndices {K : ExpKernel} {e : QId} {x : Int} :
    x ∈ K.cycleIndices e ↔
      (∃ k ∈ K.repKernels, x ∈ k.all e) ∨ (K.qutrit = true ∧ x ∈ K.calKernel.all e) := by
  rw [cycleIndices_eq, List.mem_append, List.mem_flatten]
  constructor
  · rintro (⟨l, hl, hx⟩ | hx)
    · obtain ⟨k, hk, rfl⟩ := List.mem_map.mp hl
      exact Or.inl ⟨k, hk, hx⟩
    · cases hq : K.qutrit <;> simp [hq] at hx
      exact Or.inr ⟨rfl, hx⟩
  · rintro (⟨k, hk, hx⟩ | ⟨hq, hx⟩)
    · exact Or.inl ⟨_, List.mem_map.mpr ⟨k, hk, rfl⟩, hx⟩
    · exact Or.inr (by simp [hq, hx])

namespace Built

variable {rounds : List Nat} {h q : Bool} {d a : List QId} {reps : Nat} {K : ExpKernel}

theorem cal_start_nonneg (B : Built rounds h q d a reps K) : 0 ≤ K.calKernel.startIndex := by
  rw [B.cal_start]
  exact sum_nonneg_of_pos (rep_lens_pos h rounds)

/-- with the flag set the calibration kernel is the last kernel of the cycle -/
theorem cal_stop_cycle (B : Built rounds h q d a reps K) (hq : q = true) :
    K.calKernel.stopIndex = K.cycleLength - 1 := by
  rw [B.cycle_eq, B.cal_stop, calPart, hq]; simp

/-- the repetition kernels end where the calibration kernel would start; without the flag that is the cycle's end -/
theorem cal_start_le_cycle (B : Built rounds h q d a reps K) : K.calKernel.startIndex ≤ K.cycleLength := by
  have := calPart_nonneg h q
  rw [B.cycle_eq, B.cal_start]; omega

theorem cal_start_eq_cycle (B : Built rounds h q d a reps K) (hq : q = false) :
    K.calKernel.startIndex = K.cycleLength := by
  rw [B.cycle_eq, B.cal_start, calPart, hq]; simp

/-- every index of one cycle, for any qubit, in strictly ascending order -/
theorem cycleIndices_sorted (B : Built rounds h q d a reps K) (e : QId) :
    List.Pairwise (· < ·) (K.cycleIndices e) := by
  rw [cycleIndices_eq, List.pairwise_append]
  have hcal : List.Pairwise (· < ·) (if K.qutrit then K.calKernel.all e else []) := by
    split
    · exact K.calKernel.all_sorted e
    · exact List.Pairwise.nil
  refine ⟨?_, hcal, ?_⟩
  · rw [List.pairwise_flatten]
    refine ⟨?_, ?_⟩
    · intro l hl
      obtain ⟨k, _, rfl⟩ := List.mem_map.mp hl
      exact k.all_sorted e
    · rw [List.pairwise_map]
      refine List.Pairwise.imp ?_ B.rep_pairwise
      intro k k' hkk x hx y hy
      have := RepKernel.mem_all_in_span hx
      have := RepKernel.mem_all_in_span hy
      omega
  · intro x hx y hy
    obtain ⟨l, hl, hxl⟩ := List.mem_flatten.mp hx
    obtain ⟨k, hk, rfl⟩ := List.mem_map.mp hl
    have := RepKernel.mem_all_in_span hxl
    have := B.rep_in_cycle hk
    split at hy
    · have := CalKernel.mem_all_in_span hy
      omega
    · simp at hy

/-- the repetition kernels tile `[0, calibration start)` -/
theorem rep_cover (B : Built rounds h q d a reps K) (x : Int) :
    (0 ≤ x ∧ x < K.calKernel.startIndex) ↔ ∃ k ∈ K.repKernels, k.startIndex ≤ x ∧ x ≤ k.stopIndex := by
  have hp := rep_lens_pos h rounds
  have hc := chain_cover (s := 0) hp x
  rw [B.cal_start]
  simp only [Int.zero_add] at hc
  rw [hc, ← B.rep_spans]
  constructor
  · rintro ⟨p, hp, h1, h2⟩
    obtain ⟨k, hk, rfl⟩ := List.mem_map.mp hp
    exact ⟨k, hk, h1, h2⟩
  · rintro ⟨k, hk, h1, h2⟩
    exact ⟨_, List.mem_map.mpr ⟨k, hk, rfl⟩, h1, h2⟩

end Built

/-! ### slicing into repetitions -/

theorem slicedArrays_length (l : List Int) (c : Int) (n : Nat) : (slicedArrays l c n).length = n := by
  simp [slicedArrays]

theorem slicedArrays_getElem? (l : List Int) (c : Int) (n j : Nat) (hj : j < n) :
    (slicedArrays l c n)[j]? = some (l.map (fun x => x + (j : Int) * c)) := by
  simp [slicedArrays, List.getElem?_map, List.getElem?_range hj]

theorem mem_slicedArray {l : List Int} {c : Int} {n : Nat} {y : Int} :
    y ∈ slicedArray l c n ↔ ∃ j, j < n ∧ ∃ x ∈ l, y = x + (j : Int) * c := by
  simp only [slicedArray, slicedArrays, List.mem_flatten, List.mem_map, List.mem_range]
  constructor
  · rintro ⟨row, ⟨j, hj, rfl⟩, hy⟩
    obtain ⟨x, hx, rfl⟩ := List.mem_map.mp hy
    exact ⟨j, hj, x, hx, rfl⟩
  · rintro ⟨j, hj, x, hx, rfl⟩
    exact ⟨_, ⟨j, hj, rfl⟩, List.mem_map.mpr ⟨x, hx, rfl⟩⟩

end Qco.Kernel
