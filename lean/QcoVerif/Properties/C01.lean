import QcoVerif.Lemmas.DefinedExample
import QcoVerif.Lemmas.DefinedUnrollF
import QcoVerif.Lemmas.C10Timing
import QcoVerif.Lemmas.Graph
import QcoVerif.Generated.ClassTable
/-
  C01 — relation-based timing: every operation sits where its relation says.

  All statements are about the specification evaluator `evStart/evEnd/evDur/evRef` (Model/Timing.lean; the
  driver executes the memoised version of the same equations, cross-checked by the `evalcheck` protocol
  command) and about `World.leafAtAny` / `World.addToGraph` (Model/Builder.lean), which the driver executes.

  `Start w o v` reads "the evaluator answers `v` for the start of `o` at some fuel"; by `ev_mono_step` a defined
  answer does not depend on the fuel.  Definedness itself (acyclicity of the relation structure for every
  API-reachable heap) is NOT proved here — it is false after the R14 history (cyclic relation after
  unroll + flatten); the theorems say what the reported times are whenever they are reported.
-/
namespace Qco.C01

open Qco Qco.C10

/-- the reported start time is well defined (independent of the fuel the evaluator was given). -/
theorem start_well_defined {w : World} {o : Nat} {a b : Int} (ha : Start w o a) (hb : Start w o b) : a = b :=
  Start.unique ha hb

/-- end = start + duration. -/
theorem end_eq_start_add_duration {w : World} {o : Nat} {e : Int} (h : End w o e) :
    ∃ s d, Start w o s ∧ DurV w o d ∧ e = s + d := End.decompose h

/-- an operation whose (effective) link has no reference starts at the origin of its enclosing circuit. -/
theorem no_relation_starts_at_origin {w : World} {o : Nat} {s : Int} (h : Start w o s)
    (hr : RefV w (w.op o).link none) : s = 0 := by
  obtain ⟨d, r, _, hrv, hcase⟩ := Start.decompose h
  have : r = none := RefV.unique hrv hr
  subst this
  rcases hcase with ⟨_, hs⟩ | ⟨r', _, _, hr', _⟩
  · simpa [linkStart] using hs
  · cases hr'

/-- FOLLOWED_BY: starts when the referenced operation ends. -/
theorem followed_by_starts_at_end {w : World} {o r : Nat} {s er : Int} (h : Start w o s)
    (hr : RefV w (w.op o).link (some r)) (hrel : (w.lnk (w.op o).link).rel = .fb) (he : End w r er) : s = er := by
  obtain ⟨d, r0, _, hrv, hcase⟩ := Start.decompose h
  have hr0 : r0 = some r := RefV.unique hrv hr
  subst hr0
  rcases hcase with ⟨hn, _⟩ | ⟨r', sr, er', hr', _, he', hs⟩
  · cases hn
  · cases hr'
    have : er' = er := End.unique he' he
    subst this
    simpa [linkStart, hrel] using hs

/-- JOINED_START: starts when the referenced operation starts. -/
theorem joined_start_starts_at_start {w : World} {o r : Nat} {s sr : Int} (h : Start w o s)
    (hr : RefV w (w.op o).link (some r)) (hrel : (w.lnk (w.op o).link).rel = .js) (hs' : Start w r sr) : s = sr := by
  obtain ⟨d, r0, _, hrv, hcase⟩ := Start.decompose h
  have hr0 : r0 = some r := RefV.unique hrv hr
  subst hr0
  rcases hcase with ⟨hn, _⟩ | ⟨r', sr', er', hr', hsr, _, hs⟩
  · cases hn
  · cases hr'
    have : sr' = sr := Start.unique hsr hs'
    subst this
    simpa [linkStart, hrel] using hs

/-- JOINED_END: ends when the referenced operation ends. -/
theorem joined_end_ends_at_end {w : World} {o r : Nat} {e er : Int} (h : End w o e)
    (hr : RefV w (w.op o).link (some r)) (hrel : (w.lnk (w.op o).link).rel = .je) (he : End w r er) : e = er := by
  obtain ⟨s, d, hs, hd, rfl⟩ := End.decompose h
  obtain ⟨d', r0, hd', hrv, hcase⟩ := Start.decompose hs
  have hdd : d' = d := DurV.unique hd' hd
  subst hdd
  have hr0 : r0 = some r := RefV.unique hrv hr
  subst hr0
  rcases hcase with ⟨hn, _⟩ | ⟨r', sr', er', hr', _, he', hs'⟩
  · cases hn
  · cases hr'
    have : er' = er := End.unique he' he
    subst this
    simp only [linkStart, hrel] at hs'
    omega

/-- a group (latest-of) link refers to a member of the group that ends latest; the first one wins ties. -/
theorem group_reference_is_latest (best : Nat × Int) (xs : List (Nat × Int)) :
    (pickLatest best xs = best ∨ pickLatest best xs ∈ xs) ∧
    best.2 ≤ (pickLatest best xs).2 ∧ ∀ x ∈ xs, x.2 ≤ (pickLatest best xs).2 := by
  unfold pickLatest
  induction xs generalizing best with
  | nil => simp
  | cons x xs ih =>
    simp only [List.foldl_cons, List.mem_cons]
    by_cases hx : x.2 > best.2
    · simp only [hx, if_true]
      obtain ⟨h1, h2, h3⟩ := ih x
      refine ⟨?_, by omega, ?_⟩
      · rcases h1 with h1 | h1
        · exact Or.inr (Or.inl h1)
        · exact Or.inr (Or.inr h1)
      · intro y hy
        rcases hy with rfl | hy
        · exact h2
        · exact h3 y hy
    · simp only [hx, if_false]
      obtain ⟨h1, h2, h3⟩ := ih best
      refine ⟨?_, h2, ?_⟩
      · rcases h1 with h1 | h1
        · exact Or.inl h1
        · exact Or.inr (Or.inr h1)
      · intro y hy
        rcases hy with rfl | hy
        · omega
        · exact h3 y hy

/-! ### uniqueness of the schedule -/

/-- a candidate schedule: start `S`, lead `L`, duration `D` of every object and reference `R` of every link,
    satisfying the local relation equations of the heap `w`. -/
structure Sol (w : World) (S L D : Nat → Int) (R : Nat → Option Nat) : Prop where
  leaf : ∀ o, (w.op o).isComp = false → L o = 0 ∧ D o = w.leafDur (w.op o).dur
  empty : ∀ o, (w.op o).isComp = true → (w.op o).graph.isEmpty = true → L o = 0 ∧ D o = 0
  comp : ∀ o, (w.op o).isComp = true → (w.op o).graph.isEmpty = false →
    (L o, D o) = leadSpan ((heads (w.op o).graph).map S)
      ((listing (w.op o).graph).map (fun n => (S n - L n, S n - L n + D n)))
  start : ∀ o, S o = linkStart (w.lnk (w.op o).link).rel
      ((R (w.op o).link).map (fun r => (S r, S r + D r))) (D o)
  refSingle : ∀ l, (w.lnk l).multi = false → R l = (w.lnk l).refs.head?
  refMulti : ∀ l, (w.lnk l).multi = true → R l =
    match (w.lnk l).refs with
    | [] => none
    | r0 :: _ => some (pickLatest (r0, S r0 + D r0) ((w.lnk l).refs.map (fun r => (r, S r + D r)))).1

theorem mapM_eq_map {α β} (f : α → Option β) (g : α → β) (l : List α) (ys : List β)
    (h : l.mapM f = some ys) (hg : ∀ a ∈ l, ∀ v, f a = some v → v = g a) : ys = l.map g := by
  induction l generalizing ys with
  | nil => simp at h; simp [h]
  | cons x xs ih =>
    rw [List.mapM_cons] at h
    cases hx : f x with
    | none => rw [hx] at h; simp at h
    | some y =>
      rw [hx] at h
      cases hxs : xs.mapM f with
      | none => rw [hxs] at h; simp at h
      | some zs =>
        rw [hxs] at h
        simp only [Option.pure_def, Option.bind_eq_bind, Option.bind_some, Option.some.injEq] at h
        subst h
        rw [List.map_cons, hg x List.mem_cons_self y hx, ih zs hxs (fun a ha v hv => hg a (List.mem_cons_of_mem _ ha) v hv)]

/-- **the schedule is the unique solution of the relation equations**: any assignment of starts, leads,
    durations and references that satisfies the local equations coincides with what the evaluator reports,
    wherever the evaluator reports anything. -/
theorem schedule_unique {w : World} {S L D : Nat → Int} {R : Nat → Option Nat} (sol : Sol w S L D R) : ∀ f : Nat,
    (∀ o v, evLeadSpan w f o = some v → v = (L o, D o)) ∧
    (∀ o v, evInterval w f o = some v → v = (S o - L o, S o - L o + D o)) ∧
    (∀ o v, evDur w f o = some v → v = D o) ∧
    (∀ o v, evStart w f o = some v → v = S o) ∧
    (∀ o v, evEnd w f o = some v → v = S o + D o) ∧
    (∀ l v, evRef w f l = some v → v = R l) := by
  intro f
  induction f with
  | zero =>
    refine ⟨?_, ?_, ?_, ?_, ?_, ?_⟩ <;> intro o v h
    · rw [evLeadSpan.eq_1] at h; cases h
    · rw [evInterval.eq_1] at h; cases h
    · rw [evDur.eq_1] at h; cases h
    · rw [evStart.eq_1] at h; cases h
    · rw [evEnd.eq_1] at h; cases h
    · rw [evRef.eq_1] at h; cases h
  | succ f ih =>
    obtain ⟨ihLS, ihIv, ihD, ihS, ihE, ihR⟩ := ih
    refine ⟨?_, ?_, ?_, ?_, ?_, ?_⟩
    · intro o v h
      rw [evLeadSpan.eq_2] at h
      by_cases hc : (w.op o).isComp = true
      · rw [if_pos hc] at h
        by_cases he : (w.op o).graph.isEmpty = true
        · rw [if_pos he] at h
          obtain ⟨h1, h2⟩ := sol.empty o hc he
          cases h; rw [h1, h2]
        · rw [if_neg he] at h
          have he' : (w.op o).graph.isEmpty = false := by simpa using he
          cases h1 : (heads (w.op o).graph).mapM (fun n => evStart w f n) with
          | none => rw [h1] at h; cases h
          | some hs =>
            rw [h1] at h
            cases h2 : (listing (w.op o).graph).mapM (fun n => evInterval w f n) with
            | none => rw [h2] at h; cases h
            | some ivs =>
              rw [h2] at h
              simp only [Option.bind_eq_bind, Option.bind_some, Option.some.injEq] at h
              have e1 := mapM_eq_map _ S _ hs h1 (fun a _ v hv => ihS a v hv)
              have e2 := mapM_eq_map _ (fun n => (S n - L n, S n - L n + D n)) _ ivs h2 (fun a _ v hv => ihIv a v hv)
              rw [← h, e1, e2]
              exact (sol.comp o hc he').symm
      · rw [if_neg hc] at h
        have hc' : (w.op o).isComp = false := by simpa using hc
        obtain ⟨h1, h2⟩ := sol.leaf o hc'
        cases h; rw [h1, h2]
    · intro o v h
      rw [evInterval.eq_2] at h
      cases h1 : evStart w f o with
      | none => rw [h1] at h; cases h
      | some s =>
        rw [h1] at h
        cases h2 : evLeadSpan w f o with
        | none => rw [h2] at h; cases h
        | some ls =>
          rw [h2] at h
          have hs := ihS o s h1
          have hl := ihLS o ls h2
          subst hs; subst hl
          simp only [Option.bind_eq_bind, Option.bind_some, Option.some.injEq] at h
          exact h.symm
    · intro o v h
      rw [evDur.eq_2] at h
      cases h1 : evLeadSpan w f o with
      | none => rw [h1] at h; cases h
      | some ls =>
        rw [h1] at h
        have hl := ihLS o ls h1
        subst hl
        simpa using h.symm
    · intro o v h
      rw [evStart_succ] at h
      cases h1 : evDur w f o with
      | none => rw [h1] at h; cases h
      | some d =>
        rw [h1] at h
        have hd := ihD o d h1
        subst hd
        cases h2 : evRef w f (w.op o).link with
        | none => rw [h2] at h; cases h
        | some r =>
          rw [h2] at h
          have hr := ihR _ r h2
          cases r with
          | none =>
            simp only [Option.bind_eq_bind, Option.bind_some, Option.some.injEq] at h
            rw [sol.start o, ← hr]; exact h.symm
          | some r =>
            simp only [Option.bind_eq_bind, Option.bind_some] at h
            cases h3 : evStart w f r with
            | none => rw [h3] at h; cases h
            | some s =>
              rw [h3] at h
              cases h4 : evEnd w f r with
              | none => rw [h4] at h; cases h
              | some e =>
                rw [h4] at h
                simp only [Option.bind_some, Option.some.injEq] at h
                have hs := ihS r s h3
                have he := ihE r e h4
                subst hs; subst he
                rw [sol.start o, ← hr]; exact h.symm
    · intro o v h
      rw [evEnd.eq_2] at h
      cases h1 : evStart w f o with
      | none => rw [h1] at h; cases h
      | some s =>
        rw [h1] at h
        cases h2 : evDur w f o with
        | none => rw [h2] at h; cases h
        | some d =>
          rw [h2] at h
          have hs := ihS o s h1
          have hd := ihD o d h2
          subst hs; subst hd
          simpa using h.symm
    · intro l v h
      rw [evRef.eq_2] at h
      by_cases hm : (!(w.lnk l).multi) = true
      · rw [if_pos hm] at h
        have hm' : (w.lnk l).multi = false := by simpa using hm
        rw [sol.refSingle l hm']; simpa using h.symm
      · rw [if_neg hm] at h
        have hm' : (w.lnk l).multi = true := by simpa using hm
        have hR := sol.refMulti l hm'
        cases hr : (w.lnk l).refs with
        | nil => rw [hr] at h hR; simp only at h hR; rw [hR]; simpa using h.symm
        | cons r0 rs =>
          rw [hr] at h hR
          simp only at h hR
          cases h1 : (r0 :: rs).mapM (fun r => (evEnd w f r).map (fun e => (r, e))) with
          | none => rw [h1] at h; cases h
          | some es =>
            rw [h1] at h
            cases h2 : evEnd w f r0 with
            | none => rw [h2] at h; cases h
            | some e0 =>
              rw [h2] at h
              simp only [Option.bind_eq_bind, Option.bind_some, Option.some.injEq] at h
              have e1 := mapM_eq_map _ (fun r => (r, S r + D r)) _ es h1 (by
                intro a _ v hv
                cases hx : evEnd w f a with
                | none => rw [hx] at hv; cases hv
                | some e =>
                  rw [hx] at hv
                  have := ihE a e hx
                  subst this
                  simpa using hv.symm)
              have e0' := ihE r0 e0 h2
              subst e0'
              rw [hR, ← h, e1]

/-! ### implicit placement -/

/-- an operation added without relation is placed behind the LAST node in listing order that shares a channel,
    which is a DEEPEST one in relation steps (depth = length of the path key; the listing is breadth first). -/
theorem implicit_predecessor_is_deepest (g : List Entry) (p : Nat → Bool) {n : Nat}
    (h : (listing g).reverse.find? p = some n) :
    p n = true ∧ ∃ e ∈ g, e.node = n ∧ ∀ e' ∈ g, p e'.node = true → e'.key.length ≤ e.key.length := by
  unfold listing at h
  rw [← List.map_reverse, List.find?_map] at h
  cases hf : (sortedEntries g).reverse.find? (p ∘ fun e => e.node) with
  | none => rw [hf] at h; cases h
  | some e =>
    rw [hf] at h
    simp only [Option.map_some, Option.some.injEq] at h
    subst h
    obtain ⟨hp, hmem, hdeep⟩ := last_match_deepest (sortedEntries_depth_sorted g) hf
    refine ⟨by simpa using hp, e, (sortedEntries_perm g).mem_iff.mp hmem, rfl, ?_⟩
    intro e' he' hp'
    exact hdeep e' ((sortedEntries_perm g).mem_iff.mpr he') (by simpa using hp')

/-- `leafAtAny` is that selection, with "shares a channel" = `ChId.matches` on some pair of identifiers. -/
theorem leafAtAny_spec (w : World) (g : List Entry) (chs : List ChId) {n : Nat} (h : w.leafAtAny g chs = some n) :
    (chs.any fun a => (w.chansOf n).any fun b => a.matches b) = true ∧
    ∃ e ∈ g, e.node = n ∧ ∀ e' ∈ g,
      (chs.any fun a => (w.chansOf e'.node).any fun b => a.matches b) = true → e'.key.length ≤ e.key.length :=
  implicit_predecessor_is_deepest g _ h

/-- … and when no node shares a channel the operation is hung under the root (starts with the circuit). -/
theorem leafAtAny_none (w : World) (g : List Entry) (chs : List ChId) (h : w.leafAtAny g chs = none) :
    ∀ e ∈ g, (chs.any fun a => (w.chansOf e.node).any fun b => a.matches b) = false := by
  intro e he
  unfold World.leafAtAny at h
  rw [List.find?_eq_none] at h
  have hm : e.node ∈ (listing g).reverse := by
    rw [List.mem_reverse]; exact mem_listing_iff.mpr ⟨e, he, rfl⟩
  simpa using h e.node hm

/-- the implicit link: an operation without relation for which a channel-sharing node `lf` exists is hung
    under `lf` and receives a fresh single FOLLOWED_BY link to `lf`. -/
theorem add_implicit_link (w : World) (g : List Entry) (o lf : Nat) (ho : o < w.ops.size)
    (hrel : w.hasRel o = false) (hleaf : w.leafAtAny g (w.chansOf o) = some lf) :
    (w.addToGraph g o).2 = attach g (some lf) o ∧
    (w.addToGraph g o).1.lnk ((w.addToGraph g o).1.op o).link = ({ refs := [lf], rel := .fb } : Link) := by
  constructor
  · unfold World.addToGraph
    simp only [hrel, hleaf, Bool.not_false, if_true]
  · unfold World.addToGraph
    simp [hrel, hleaf, World.newLink, World.setLink, World.setOp, World.op, World.lnk, ho]

/-- … and with no channel-sharing node it is hung under the root and keeps its (reference-less) link. -/
theorem add_first_in_channel (w : World) (g : List Entry) (o : Nat)
    (hrel : w.hasRel o = false) (hleaf : w.leafAtAny g (w.chansOf o) = none) :
    w.addToGraph g o = (w, attach g none o) := by
  unfold World.addToGraph
  simp only [hrel, hleaf, Bool.not_false, if_true]

/-- an explicit relation whose reference is a node of the graph is kept: the operation is hung under it. -/
theorem add_explicit_kept (w : World) (g : List Entry) (o r : Nat)
    (hrel : w.hasRel o = true) (href : w.refOf (w.op o).link = some (some r)) (hin : inGraph g r = true) :
    w.addToGraph g o = (w, attach g (some r) o) := by
  unfold World.addToGraph
  simp only [hrel, href, hin, Bool.not_true, Bool.false_eq_true, if_false, if_true]

/-! ### the per-class inputs of the schedule ARE what the live classes say (regenerated on every run) -/

def durCode : Dur → String
  | .fixed d => s!"f{d}" | .reg k => s!"r{k}" | .decoupling => "d"
  | .glob .ro => "gR" | .glob .mw => "gM" | .glob .fl => "gF" | .glob .rs => "gS"

def chanCode : Chan → String
  | .all => "A" | .ro => "R" | .mw => "M" | .fl => "F"

def classRow (c : Cls) : String × String × List (Int × String) × List (Int × String) :=
  (c.name, durCode c.defaultDur,
   (({ cls := c, qs := [7, 9], chan := .fl } : Op).leafChans.map fun x => (x.q, chanCode x.c)),
   (({ cls := c, qs := [3, 1], chan := .ro } : Op).leafChans.map fun x => (x.q, chanCode x.c)))

/-- **default durations and channel identifiers of the model are those of the live classes**: `Gen.classTable` is read
    from probe instances of the 26 leaf classes on every run (default `duration_strategy`, `channel_identifiers` of two
    probes); `Cls.defaultDur` and `Op.leafChans` reproduce it.  These decide every duration, the channel sharing of the
    implicit placement and the double-booking predicate of C10. -/
theorem class_table_matches_source :
    Gen.classTable = (Cls.all.filter (fun c => c != .comp)).map classRow := by decide +kernel

/-- non-vacuity of `Sol`/`schedule_unique`: the heap "Rx180(q0); Wait(q0, 2.0) FOLLOWED_BY it" and its schedule. -/
def exWorld : World :=
  { ops := #[{ cls := .rx180, qs := [0], dur := .glob .mw, link := 1 },
             { cls := .wait, qs := [0], dur := .fixed 16, link := 2 }],
    links := #[{}, {}, { refs := [0] }] }

example : evStart exWorld 10 1 = some 8 ∧ evEnd exWorld 10 1 = some 24 := by decide +kernel



/-! ### definedness on heaps with an acyclicity certificate (Lemmas/Defined.lean, Lemmas/DefinedBuild.lean)

  `Defined.Ranked w rk`: the rank `rk` of the objects strictly decreases from an object to every reference of its
  link and from a composite to every node of its graph.  `Defined.Closed w`: every reference / node / link field
  names an existing object / link.  `Defined.Acyclic w := ∃ rk, Ranked w rk`.
  A query about an object of rank `k` needs fuel: leadSpan `4k+1`, dur `4k+2`, reference of its link `4k+1`,
  start `4k+3`, end and interval `4k+4`. -/

open Qco.Defined in
/-- **times are defined on a ranked heap**: with all ranks `≤ B`, every fuel `≥ 4 * B + 4` defines start, end and
    duration of every object (also of the ids beyond the heap, which read as the default object). -/
theorem start_defined_of_ranked {w : World} {rk : Nat → Nat} {B : Nat} (h : Ranked w rk) (hB : ∀ o, rk o ≤ B) :
    ∀ o f, 4 * B + 4 ≤ f →
      (evStart w f o).isSome = true ∧ (evEnd w f o).isSome = true ∧ (evDur w f o).isSome = true := by
  intro o f hf
  have := allDef_of_ranked h hB o f hf
  exact ⟨this.start, this.fin, this.dur⟩

open Qco.Defined in
/-- … in particular with the fuel the driver uses, when the ranks are bounded by the number of objects and links
    (e.g. the rank is an enumeration of the objects). -/
theorem start_defined_with_driver_fuel {w : World} {rk : Nat → Nat} (h : Ranked w rk)
    (hB : ∀ o, rk o ≤ w.ops.size + w.links.size) (o : Nat) :
    (evStart w w.fuel o).isSome = true ∧ (evEnd w w.fuel o).isSome = true ∧ (evDur w w.fuel o).isSome = true :=
  start_defined_of_ranked h hB o w.fuel (by unfold World.fuel; omega)

open Qco.Defined in
/-- **on a closed acyclic heap the driver's fuel always suffices** (no bound on the ranks needed: the ranks of a
    closed heap can be compressed to `≤ ops.size`, `Ranked.compress`). -/
theorem start_defined_of_acyclic {w : World} (h : Acyclic w) (hc : Closed w) (o : Nat) :
    (evStart w w.fuel o).isSome = true ∧ (evEnd w w.fuel o).isSome = true ∧ (evDur w w.fuel o).isSome = true := by
  have := allDef_fuel h hc o w.fuel (Nat.le_refl _)
  exact ⟨this.start, this.fin, this.dur⟩

open Qco.Defined in
/-- **defined and unique**: on a closed acyclic heap every object has exactly one start time, and the driver's
    fuel finds it. -/
theorem start_exists_unique {w : World} (h : Acyclic w) (hc : Closed w) (o : Nat) :
    ∃ s, evStart w w.fuel o = some s ∧ ∀ s', Start w o s' → s' = s := by
  obtain ⟨s, hs⟩ := Option.isSome_iff_exists.mp (start_defined_of_acyclic h hc o).1
  exact ⟨s, hs, fun s' h' => start_well_defined h' ⟨_, hs⟩⟩

/-! #### the builder keeps the certificate

  Covered: the empty heap, `newLink`, `newOp`, `newCircuit`, `add` (every branch of `addToGraph`: kept explicit link,
  fresh link to the leaf found, fresh empty link), `extend` (group link to the leaves), `copyObj` / `copy`, `addSub` up to
  a side condition on its last `add`.  `applyModifiers` is covered further below (`applyModifiers_preserves_acyclic`, side condition `SingleUnder`);
  not covered: `flatten` (which can create a cycle, R14). -/

open Qco.Defined in
theorem empty_heap_certified : Closed ({} : World) ∧ Acyclic ({} : World) :=
  ⟨empty_closed, ⟨fun _ => 0, empty_ranked _⟩⟩

open Qco.Defined in
/-- allocating a link changes nothing. -/
theorem newLink_preserves {w : World} (hc : Closed w) (h : Acyclic w) (L : Link) :
    Closed (w.newLink L).1 ∧ Acyclic (w.newLink L).1 := by
  obtain ⟨rk, hrk⟩ := h
  exact ⟨newLink_closed hc L, ⟨rk, newLink_ranked hc hrk L⟩⟩

open Qco.Defined in
/-- a new object whose link and graph mention existing objects only gets a rank (on top of everything). -/
theorem newOp_preserves {w : World} (hc : Closed w) (h : Acyclic w) (op : Op) (hl : op.link < w.links.size)
    (h1 : ∀ r ∈ (w.lnk op.link).refs, r < w.ops.size) (h2 : ∀ e ∈ op.graph, e.node < w.ops.size) :
    Closed (w.newOp op).1 ∧ Acyclic (w.newOp op).1 :=
  ⟨newOp_closed hc op hl h1 h2, newOp_acyclic hc h op h1 h2⟩

open Qco.Defined in
/-- a new empty circuit (sharing link `0`) keeps every ranking. -/
theorem newCircuit_preserves {w : World} (hc : Closed w) (h : Acyclic w) (rep : Rep) :
    Closed (w.newCircuit rep).1 ∧ Acyclic (w.newCircuit rep).1 :=
  ⟨newCircuit_closed hc rep, newCircuit_acyclic h rep⟩

open Qco.Defined in
/-- **`add` keeps a ranking** that puts `o` below `c` and above the present nodes of `c` — whatever `addToGraph` does
    with the link of `o` (keeps it, or replaces it by a fresh link to the leaf found / to nothing). -/
theorem add_keeps_ranking {w : World} {rk : Nat → Nat} (hc : Closed w) (h : Ranked w rk) (c o : Nat)
    (ho : o < w.ops.size) (h1 : rk o < rk c) (h2 : ∀ e ∈ (w.op c).graph, rk e.node < rk o) :
    Closed (w.add c o) ∧ Ranked (w.add c o) rk :=
  ⟨add_closed hc c o ho, add_ranked hc h c o h1 h2⟩

open Qco.Defined in
/-- **`add` preserves acyclicity** (a new ranking is constructed) when `o` does not depend on `c` and no node of `c`
    depends on `o`.  `Reach w x y`: `x` depends on `y` through links and graphs (reflexive-transitive). -/
theorem add_preserves {w : World} (hc : Closed w) (h : Acyclic w) (c o : Nat) (ho : o < w.ops.size)
    (hcomp : (w.op c).isComp = true) (hoc : ¬ Reach w o c) (hno : ∀ e ∈ (w.op c).graph, ¬ Reach w e.node o) :
    Closed (w.add c o) ∧ Acyclic (w.add c o) :=
  ⟨add_closed hc c o ho, add_acyclic hc h c o hcomp hoc hno⟩

open Qco.Defined in
/-- the builder's usual case: `o` is new as a target (`Unref`: no link refers to it, no graph contains it) and does
    not depend on `c`. -/
theorem add_preserves_fresh {w : World} (hc : Closed w) (h : Acyclic w) (c o : Nat) (ho : o < w.ops.size)
    (hcomp : (w.op c).isComp = true) (hu : Unref w o) (hoc : ¬ Reach w o c) :
    Closed (w.add c o) ∧ Acyclic (w.add c o) :=
  ⟨add_closed hc c o ho, add_acyclic_of_unref hc h c o hcomp hu hoc⟩

open Qco.Defined in
/-- … and when `c` is a top-level circuit (`Unref` as well) `o ≠ c` is enough. -/
theorem add_preserves_roots {w : World} (hc : Closed w) (h : Acyclic w) (c o : Nat) (ho : o < w.ops.size)
    (hcomp : (w.op c).isComp = true) (hu : Unref w o) (huc : Unref w c) (hne : o ≠ c) :
    Closed (w.add c o) ∧ Acyclic (w.add c o) :=
  ⟨add_closed hc c o ho, add_acyclic_of_roots hc h c o hcomp hu huc hne⟩

open Qco.Defined in
/-- **`extend` keeps a ranking** in which the nodes of `other` lie strictly between the nodes of `c` and `c`,
    increasing in listing order; the group (latest-of) link to the leaves of `c` it hands out is ranked too. -/
theorem extend_keeps_ranking {w : World} {rk : Nat → Nat} (hc : Closed w) (h : Ranked w rk) (c other : Nat)
    (h1 : ∀ n ∈ listing (w.op other).graph, rk n < rk c)
    (h2 : ∀ e ∈ (w.op c).graph, ∀ n ∈ listing (w.op other).graph, rk e.node < rk n)
    (h3 : (listing (w.op other).graph).Pairwise (fun a b => rk a < rk b)) :
    Closed (w.extend c other) ∧ Ranked (w.extend c other) rk :=
  ⟨(extend_ranked hc h c other h1 h2 h3).2, (extend_ranked hc h c other h1 h2 h3).1⟩

open Qco.Defined in
/-- **without the certificate definedness fails**: `a = Rx180(0)`, `b = Wait(0)` whose links refer to each other —
    no fuel defines a start time, and the heap has no ranking. -/
theorem cyclic_undefined_witness :
    (∀ f, evStart cycWorld f 0 = none ∧ evStart cycWorld f 1 = none) ∧ ¬ Acyclic cycWorld :=
  ⟨cyc_undefined, cyc_not_acyclic⟩

/-! #### non-vacuity: the worked example of Lemmas/DefinedExample.lean

  `dxWorld` is built with `newCircuit / newLink / newOp / add`: a circuit `c` (id 0) containing `a = Rx90(1)`,
  the sub-circuit `s` (id 1, with `x = Rx180(0)`, `y = Ry90(0)` FOLLOWED_BY `x`), `d = DispersiveMeasure(1)` JOINED_END
  with `a`, and `b = CPhase(0,1)` FOLLOWED_BY `s`. -/

theorem getD_of_ge {α} (l : List α) (d : α) {i : Nat} (h : l.length ≤ i) : l.getD i d = d := by
  simp [List.getD_eq_getElem?_getD, List.getElem?_eq_none h]

open Qco.Defined in
example : Ranked dxWorld (fun o => dxRank.getD o 0) ∧ (∀ o, dxRank.getD o 0 ≤ 4) ∧ Closed dxWorld :=
  ⟨dxWorld_ranked, by
    intro o
    by_cases ho : o < 7
    · have : o = 0 ∨ o = 1 ∨ o = 2 ∨ o = 3 ∨ o = 4 ∨ o = 5 ∨ o = 6 := by omega
      rcases this with rfl | rfl | rfl | rfl | rfl | rfl | rfl <;> decide
    · rw [getD_of_ge dxRank 0 (Nat.le_of_not_lt ho)]; omega, dxWorld_closed⟩

def dxStartT : List Int := [0, 0, 0, 8, 0, -8, 16]
def dxLeadT : List Int := [8, 0, 0, 0, 0, 0, 0]
def dxDurT : List Int := [32, 16, 8, 8, 8, 16, 8]

open Qco.Defined in
/-- the schedule of the example solves the relation equations. -/
theorem dxSol : Sol dxLit (fun o => dxStartT.getD o 0) (fun o => dxLeadT.getD o 0) (fun o => dxDurT.getD o 0)
    (fun l => (dxLit.lnk l).refs.head?) := by
  have hcases : ∀ o : Nat, o = 0 ∨ o = 1 ∨ o = 2 ∨ o = 3 ∨ o = 4 ∨ o = 5 ∨ o = 6 ∨ 7 ≤ o := by omega
  have hdef : ∀ o, 7 ≤ o → dxLit.op o = default := fun o ho => op_of_ge dxLit ho
  have hl0 : listing (dxLit.op 0).graph = [4, 1, 5, 6] := by rw [listing_lit _ (by decide)]; rfl
  have hh0 : heads (dxLit.op 0).graph = [4, 1] := by unfold heads; rw [sortedEntries_lit _ (by decide)]; rfl
  have hl1 : listing (dxLit.op 1).graph = [2, 3] := by rw [listing_lit _ (by decide)]; rfl
  have hh1 : heads (dxLit.op 1).graph = [2] := by unfold heads; rw [sortedEntries_lit _ (by decide)]; rfl
  refine ⟨?_, ?_, ?_, ?_, fun l _ => rfl, ?_⟩
  · intro o hc
    rcases hcases o with rfl | rfl | rfl | rfl | rfl | rfl | rfl | ho
    · exact absurd hc (by decide)
    · exact absurd hc (by decide)
    all_goals first
      | decide
      | (simp only [getD_of_ge dxLeadT 0 ho, getD_of_ge dxDurT 0 ho, hdef o ho]; decide)
  · intro o hc he
    rcases hcases o with rfl | rfl | rfl | rfl | rfl | rfl | rfl | ho
    all_goals first
      | exact absurd he (by decide)
      | exact absurd hc (by decide)
      | (rw [hdef o ho] at hc; exact absurd hc (by decide))
  · intro o hc he
    rcases hcases o with rfl | rfl | rfl | rfl | rfl | rfl | rfl | ho
    · rw [hl0, hh0]; decide
    · rw [hl1, hh1]; decide
    all_goals first
      | exact absurd hc (by decide)
      | (rw [hdef o ho] at hc; exact absurd hc (by decide))
  · intro o
    rcases hcases o with rfl | rfl | rfl | rfl | rfl | rfl | rfl | ho
    all_goals first
      | decide
      | (simp only [getD_of_ge dxStartT 0 ho, getD_of_ge dxDurT 0 ho, hdef o ho]; decide)
  · intro l hm
    have hnm : ∀ l, (dxLit.lnk l).multi = false := by
      intro l
      by_cases hl : l < 8
      · have : l = 0 ∨ l = 1 ∨ l = 2 ∨ l = 3 ∨ l = 4 ∨ l = 5 ∨ l = 6 ∨ l = 7 := by omega
        rcases this with rfl | rfl | rfl | rfl | rfl | rfl | rfl | rfl <;> decide
      · unfold World.lnk
        have : ¬ l < dxLit.links.size := hl
        simp [Array.getD, this]; rfl
    rw [hnm l] at hm; cases hm

open Qco.Defined in
/-- **the example, end to end**: every start time of the built heap is defined with the driver's fuel (by
    `start_defined_of_acyclic`) and equals the listed schedule (by `schedule_unique`): `d` JOINED_END with `a` starts at
    `-8 = 8 - 16`, the sub-circuit `s` at `0` with duration `16`, `b` behind it at `16`, the circuit lasts `32`. -/
theorem example_times_defined (o : Nat) :
    evStart dxWorld dxWorld.fuel o = some (dxStartT.getD o 0) ∧ evDur dxWorld dxWorld.fuel o = some (dxDurT.getD o 0) := by
  rw [dxWorld_eq]
  obtain ⟨hs, _, hd⟩ := start_defined_of_acyclic ⟨_, dxLit_ranked⟩ dxLit_closed o
  obtain ⟨s, hs⟩ := Option.isSome_iff_exists.mp hs
  obtain ⟨d, hd⟩ := Option.isSome_iff_exists.mp hd
  obtain ⟨_, _, uD, uS, _, _⟩ := schedule_unique dxSol dxLit.fuel
  rw [hs, hd, uS o s hs, uD o d hd]
  exact ⟨rfl, rfl⟩

open Qco.Defined in
example : Closed (dxLit.newOp { cls := .wait, qs := [0], link := 3 }).1 ∧
    Acyclic (dxLit.newOp { cls := .wait, qs := [0], link := 3 }).1 :=
  newOp_preserves dxLit_closed ⟨_, dxLit_ranked⟩ _ (by decide) (by decide) (by decide)

open Qco.Defined in
/-- the last step of the build program (`c.add(b)`, heap `dxS6`) meets the hypotheses of all four `add` theorems. -/
example : Closed dxS6 ∧ Ranked dxS6 (fun o => dxRank.getD o 0) ∧ 6 < dxS6.ops.size ∧ (dxS6.op 0).isComp = true ∧
    Unref dxS6 6 ∧ Unref dxS6 0 ∧ 6 ≠ 0 ∧ ¬ Reach dxS6 6 0 ∧ (∀ e ∈ (dxS6.op 0).graph, ¬ Reach dxS6 e.node 6) ∧
    dxRank.getD 6 0 < dxRank.getD 0 0 ∧ (∀ e ∈ (dxS6.op 0).graph, dxRank.getD e.node 0 < dxRank.getD 6 0) := by
  have hu6 : Unref dxS6 6 := unref_of_check dxS6 6 (by decide)
  have hu0 : Unref dxS6 0 := unref_of_check dxS6 0 (by decide)
  refine ⟨closed_of_check dxS6 (by decide), ranked_of_check dxS6 dxRank (by decide) (by decide), by decide, by decide,
    hu6, hu0, by decide, fun h => absurd (reach_unref hu0 h) (by decide), ?_, by decide, by decide⟩
  intro e he h
  have h6 : e.node = 6 := reach_unref hu6 h
  exact hu6 0 (Or.inr ⟨by decide, e, he, h6⟩)

/-- a heap for `extend`: `c` (id 0) with node `2`; `other` (id 1) with nodes `3` and `4` (`4` FOLLOWED_BY `3`). -/
def exExtend : World :=
  { ops := #[{ cls := .comp, graph := [⟨2, none, [0]⟩] },
             { cls := .comp, graph := [⟨3, none, [0]⟩, ⟨4, some 3, [0, 0]⟩] },
             { cls := .rx180, qs := [0], dur := .glob .mw, link := 1 },
             { cls := .rx180, qs := [0], dur := .glob .mw, link := 2 },
             { cls := .ry90, qs := [0], dur := .glob .mw, link := 3 }],
    links := #[{}, {}, {}, { refs := [3] }] }

open Qco.Defined in
example : Closed exExtend ∧ Ranked exExtend (fun o => [3, 3, 0, 1, 2].getD o 0) ∧
    (∀ n ∈ listing (exExtend.op 1).graph, [3, 3, 0, 1, 2].getD n 0 < [3, 3, 0, 1, 2].getD 0 0) ∧
    (∀ e ∈ (exExtend.op 0).graph, ∀ n ∈ listing (exExtend.op 1).graph,
      [3, 3, 0, 1, 2].getD e.node 0 < [3, 3, 0, 1, 2].getD n 0) ∧
    (listing (exExtend.op 1).graph).Pairwise (fun a b => [3, 3, 0, 1, 2].getD a 0 < [3, 3, 0, 1, 2].getD b 0) := by
  have hl : listing (exExtend.op 1).graph = [3, 4] := by rw [listing_lit _ (by decide)]; rfl
  rw [hl]
  exact ⟨closed_of_check _ (by decide), ranked_of_check _ _ (by decide) (by decide), by decide, by decide, by decide⟩

/-! #### `copy` and `add_sub_circuit` (Lemmas/DefinedCopy.lean) -/

open Qco.Defined in
/-- **`copy` preserves the certificate**, with no side condition: the copy allocates new objects only, a new object
    refers to copies completed earlier, every `add` inside the copy adds an object nothing refers to yet to a composite
    nothing refers to yet, and the fuel `depthFuel` never runs out on a closed acyclic heap.  The result is a new
    object to which nothing refers. -/
theorem copy_preserves {w : World} (hc : Closed w) (h : Acyclic w) (o : Nat) (ho : o < w.ops.size) :
    Closed (w.copy o).1 ∧ Acyclic (w.copy o).1 ∧ Unref (w.copy o).1 (w.copy o).2 ∧
      w.ops.size ≤ (w.copy o).2 ∧ (w.copy o).2 < (w.copy o).1.ops.size :=
  copy_certified hc h o ho

open Qco.Defined in
/-- the general form: `copyObj` with any lookup whose values exist and any fuel that is not exhausted below `o`
    (`depthOk`), with the frame (old objects and links untouched; old objects not named by the lookup stay
    unreferenced). -/
theorem copyObj_preserves {w : World} (hc : Closed w) (h : Acyclic w) (f o : Nat) (lk : Lookup)
    (hlk : LkOk w lk) (ho : o < w.ops.size) (hd : depthOk w f o) : CopyPost w lk (w.copyObj f o lk) :=
  copyObj_post f w o lk hc h hlk ho hd

/- full statement wanted for `addSub`:  Closed w → Acyclic w → c, sub existing, c composite → Closed ∧ Acyclic of
   `(w.addSub c sub).1`.  Proved (i) in full for heaps without group links (`addSub_preserves`, below), and (ii) for
   arbitrary heaps with the extra hypothesis `hnc`: in the heap after the copy, the copy does not depend on `c`
   (`addSub_preserves_partial`).  With group links the copy can depend on `c` through the initial lookup entry
   `sub ↦ c`: a kept group link of a node inside `sub` one of whose members is value-equal to `sub` (conflation R3). -/
open Qco.Defined in
theorem addSub_preserves_partial {w : World} (hc : Closed w) (h : Acyclic w) (c sub : Nat) (hcl : c < w.ops.size)
    (hsub : sub < w.ops.size) (hcomp : (w.op c).isComp = true)
    (hnc : ¬ Reach (w.copyObj w.depthFuel sub [(w.eqKey sub, c)]).1
      (w.copyObj w.depthFuel sub [(w.eqKey sub, c)]).2.1 c) :
    Closed (w.addSub c sub).1 ∧ Acyclic (w.addSub c sub).1 :=
  addSub_certified hc h c sub hcl hsub hcomp hnc

/-- a heap for `addSub`: circuit `c` (id 0) with node `3`, circuit `sub` (id 1) with node `2`. -/
def exSub : World :=
  { ops := #[{ cls := .comp, graph := [⟨3, none, [0]⟩] },
             { cls := .comp, graph := [⟨2, none, [0]⟩] },
             { cls := .rx180, qs := [0], dur := .glob .mw, link := 1 },
             { cls := .ry90, qs := [1], dur := .glob .mw, link := 2 }],
    links := #[{}, {}, {}] }

open Qco.Defined in
example : Closed exSub ∧ Acyclic exSub ∧ 0 < exSub.ops.size ∧ 1 < exSub.ops.size ∧ (exSub.op 0).isComp = true ∧
    ¬ Reach (exSub.copyObj exSub.depthFuel 1 [(exSub.eqKey 1, 0)]).1
      (exSub.copyObj exSub.depthFuel 1 [(exSub.eqKey 1, 0)]).2.1 0 := by
  refine ⟨closed_of_check _ (by decide), ⟨_, ranked_of_check exSub [1, 1, 0, 0] (by decide) (by decide)⟩,
    by decide, by decide, by decide, ?_⟩
  intro hr
  have hu : Unref (exSub.copyObj exSub.depthFuel 1 [(exSub.eqKey 1, 0)]).1 0 :=
    unref_of_check _ 0 (by decide +kernel)
  have h0 := reach_unref hu hr
  have h4 : (exSub.copyObj exSub.depthFuel 1 [(exSub.eqKey 1, 0)]).2.1 = 4 := by decide +kernel
  rw [h4] at h0; cases h0

open Qco.Defined in
/-- the copy of the sub-circuit `s` of the worked example is certified. -/
example : Closed (dxLit.copy 1).1 ∧ Acyclic (dxLit.copy 1).1 :=
  ⟨(copy_preserves dxLit_closed ⟨_, dxLit_ranked⟩ 1 (by decide)).1,
   (copy_preserves dxLit_closed ⟨_, dxLit_ranked⟩ 1 (by decide)).2.1⟩

/-! #### heaps without group links: every build step of the driver except `apply` / `flatten` keeps the certificate

  `Certified w`: closed, acyclic, every link is a plain relation link (`multi = false`, at most one reference).
  For a plain link `addToGraph` leaves references to nodes of the graph only (a kept explicit link refers to a node
  of the graph, otherwise the link is replaced), so what the added object referred to before does not matter. -/

open Qco.Defined in
/-- **`add_sub_circuit` preserves the certificate** on heaps without group links, with no side condition. -/
theorem addSub_preserves {w : World} (h : Certified w) (c sub : Nat) (hcl : c < w.ops.size)
    (hsub : sub < w.ops.size) (hcomp : (w.op c).isComp = true) : Certified (w.addSub c sub).1 :=
  addSub_certified' h c sub hcl hsub hcomp

open Qco.Defined in
/-- **the driver's `op` command** (allocate the plain link `L`, allocate the operation with that link, `add` it to
    circuit `c`) preserves the certificate — whatever existing object `L` refers to and wherever `c` sits. -/
theorem op_step_preserves {w : World} (h : Certified w) (L : Link) (op : Op) (c : Nat) (hL : SingleLink L)
    (hLr : ∀ r ∈ L.refs, r < w.ops.size) (hopl : op.link = w.links.size) (hopg : op.graph = [])
    (hcl : c < w.ops.size) (hcomp : (w.op c).isComp = true) :
    Certified (((w.newLink L).1.newOp op).1.add c w.ops.size) :=
  opStep_certified h L op c hL hLr hopl hopg hcl hcomp

open Qco.Defined in
/-- the empty heap, a new circuit and `copy` keep it as well. -/
theorem certified_steps :
    Certified ({} : World) ∧
    (∀ (w : World) (rep : Rep), Certified w → Certified (w.newCircuit rep).1) ∧
    (∀ (w : World) (o : Nat), Certified w → o < w.ops.size → Certified (w.copy o).1) :=
  ⟨certified_empty, fun _ rep h => newCircuit_certified h rep, fun _ o h ho => copy_certified_single h o ho⟩

open Qco.Defined in
/-- **every heap built by `new` / `op` (plain relations) / `sub` / `copy` has all its times defined** with the driver's
    fuel, and uniquely so. -/
theorem certified_times_defined {w : World} (h : Certified w) (o : Nat) :
    ∃ s d, evStart w w.fuel o = some s ∧ evDur w w.fuel o = some d ∧ evEnd w w.fuel o = some (s + d) ∧
      ∀ s', Start w o s' → s' = s := by
  obtain ⟨hs, he, hd⟩ := start_defined_of_acyclic h.acyclic h.closed o
  obtain ⟨s, hs⟩ := Option.isSome_iff_exists.mp hs
  obtain ⟨d, hd⟩ := Option.isSome_iff_exists.mp hd
  obtain ⟨e, he⟩ := Option.isSome_iff_exists.mp he
  obtain ⟨s', d', hs', hd', rfl⟩ := end_eq_start_add_duration ⟨_, he⟩
  have e1 : s' = s := start_well_defined hs' ⟨_, hs⟩
  have e2 : d' = d := DurV.unique hd' ⟨_, hd⟩
  subst e1; subst e2
  exact ⟨s', d', hs, hd, he, fun s'' h'' => start_well_defined h'' ⟨_, hs⟩⟩

open Qco.Defined in
/-- non-vacuity of `op_step_preserves`: the last step of the worked example (`b = CPhase(0,1); c.add(b)` on the heap
    `dxS5'`) is such a step and yields the final heap `dxLit`. -/
example : Certified dxS5' ∧ ((dxS5'.newLink {}).1.newOp { cls := .cphase, qs := [0, 1], dur := .glob .fl, link := 6 }).1.add 0
    dxS5'.ops.size = dxLit ∧ Certified dxLit := by
  have hC : Certified dxS5' := ⟨closed_of_check _ (by decide), ⟨_, ranked_of_check dxS5' [4, 2, 0, 1, 0, 1] (by decide) (by decide)⟩,
    singleLinks_of_check _ (by decide)⟩
  refine ⟨hC, dxStep6, ?_⟩
  have := op_step_preserves hC {} { cls := .cphase, qs := [0, 1], dur := .glob .fl, link := 6 } 0 ⟨rfl, by decide⟩
    (fun r hr => by cases hr) (by decide) rfl (by decide) (by decide)
  rw [show ((dxS5'.newLink {}).1.newOp { cls := .cphase, qs := [0, 1], dur := .glob .fl, link := 6 }).1.add 0
    dxS5'.ops.size = dxLit from dxStep6] at this
  exact this

open Qco.Defined in
/-- non-vacuity of `addSub_preserves`. -/
example : Certified exSub ∧ 0 < exSub.ops.size ∧ 1 < exSub.ops.size ∧ (exSub.op 0).isComp = true :=
  ⟨⟨closed_of_check _ (by decide), ⟨_, ranked_of_check exSub [1, 1, 0, 0] (by decide) (by decide)⟩,
    singleLinks_of_check _ (by decide)⟩, by decide, by decide, by decide⟩

/-! #### unrolling (`apply_modifiers_to_self`) keeps the certificate (Lemmas/DefinedUnrollA … F.lean)

  `TreeBelow w f c` (Lemmas/TreeHeap.lean): the heap below `c` is a tree of depth ≤ `f`.
  `DefinedUnroll.SingleUnder w f c`: no object strictly below `c` carries a group (latest-of) link — true of every heap
  built with `new / op (plain relations) / sub / copy` (`Defined.Certified`, see `certified_steps`, `op_step_preserves`,
  `addSub_preserves`, `DefinedUnroll.addLeaf_certified`); the link of `c` itself and everything outside the tree are
  arbitrary.  `DefinedUnroll.LinksExt w w'`: the link table only grew, no existing link object was changed.

  Why it holds: a `copy()` of such a tree is a component of its own (new objects depend on new objects only) in which
  every node strictly below the root carries a plain link to nodes of its OWN graph (`add_to_graph` validates or replaces
  a plain link); `extend` hands the top-level nodes of the copy the group link to the leaves of `c` or validates /
  replaces their plain link against the graph of `c`.  Ranking: old objects keep their (spread) rank, a new object gets
  the listing position of the top-level node it sits below, then its rank in the copy — between the nodes of `c` and `c`.

  Full statement wanted: `TreeBelow w f c → Closed w → Acyclic w → Acyclic (w.applyModifiers w.depthFuel c) ∧ Closed …`.
  Proved with ONE extra hypothesis, `SingleUnder w f c` (no condition on `f`: in a closed acyclic heap every tree is a
  tree at a depth bound within `depthFuel`, `DefinedUnroll.tree_within_fuel`).  What is missing without it: the proof needs
  that in a `copy()` every node strictly below the new root refers to nodes of its own graph only; `add_to_graph` guarantees
  this for PLAIN links (validated or replaced), but of a GROUP link only the picked member is validated, and the members
  come out of the value-keyed lookup (conflation R3), so a group link strictly below `c` could leave its graph and
  `extend` could then hang an earlier-listed sibling under a later one that reaches it.  Group links are created by
  `extend` only (members = leaves of the extended graph); whether the statement itself fails without the hypothesis is
  open (no counterexample heap was found: references of a copy only point to earlier copies).  For
  heaps that were already unrolled (all counts `fixed 1`, group links present) see `applyModifiers_again_preserves_acyclic`.
  Not covered: `flatten` (which can create a cycle, R14). -/

open Qco.Defined Qco.DefinedUnroll in
/-- **`apply_modifiers` preserves the acyclicity certificate** on a tree-shaped heap below `c` without group links
    strictly below `c`: the unrolled heap is closed and acyclic. -/
theorem applyModifiers_preserves_acyclic {w : World} {f c : Nat} (ht : TreeBelow w f c)
    (hc : Closed w) (ha : Acyclic w) (hs : SingleUnder w f c) :
    Acyclic (w.applyModifiers w.depthFuel c) ∧ Closed (w.applyModifiers w.depthFuel c) := by
  obtain ⟨h1, h2, _⟩ := applyModifiers_certified_driver ht hc ha hs
  exact ⟨h2, h1⟩

open Qco.Defined Qco.DefinedUnroll in
/-- the same for any recursion fuel `g ≥ f`, with the frame: no existing link object is changed. -/
theorem applyModifiers_preserves_certificate {w : World} {f c g : Nat} (ht : TreeBelow w f c) (hg : f ≤ g)
    (hf : f ≤ w.depthFuel) (hc : Closed w) (ha : Acyclic w) (hs : SingleUnder w f c) :
    Closed (w.applyModifiers g c) ∧ Acyclic (w.applyModifiers g c) ∧ LinksExt w (w.applyModifiers g c) :=
  applyModifiers_certified f w c g ht hg hf hc ha hs

open Qco.Defined Qco.DefinedUnroll in
/-- **API-built heaps**: on a certified heap (closed, acyclic, no group link — kept by `new / op / sub / copy`) unrolling
    any tree keeps the heap closed and acyclic. -/
theorem applyModifiers_preserves_acyclic_of_certified {w : World} {f c : Nat} (h : Certified w)
    (ht : TreeBelow w f c) :
    Acyclic (w.applyModifiers w.depthFuel c) ∧ Closed (w.applyModifiers w.depthFuel c) :=
  applyModifiers_preserves_acyclic ht h.closed h.acyclic (singleUnder_of_certified h f c)

open Qco.Defined Qco.DefinedUnroll in
/-- **unrolling again**: on a tree all of whose counts are `fixed 1` (what `apply_modifiers` leaves behind, group links
    included) a further `apply_modifiers` only allocates copies and keeps the certificate — no condition on the links. -/
theorem applyModifiers_again_preserves_acyclic {w : World} {f c : Nat} (ht : TreeBelow w f c) (ho : AllOnes w f c)
    (hf : f ≤ w.depthFuel) (hc : Closed w) (ha : Acyclic w) :
    Acyclic (w.applyModifiers w.depthFuel c) ∧ Closed (w.applyModifiers w.depthFuel c) := by
  obtain ⟨h1, h2⟩ := applyModifiers_ones_certified f w c w.depthFuel ht ho hf hf hc ha
  exact ⟨h2, h1⟩

open Qco.Defined Qco.DefinedUnroll in
/-- … in particular unrolling twice keeps it. -/
theorem applyModifiers_twice_preserves_acyclic {w : World} {f c : Nat} (ht : TreeBelow w f c) (hf : f ≤ w.depthFuel)
    (hc : Closed w) (ha : Acyclic w) (hs : SingleUnder w f c) (g g' : Nat) (hg : f ≤ g) (hg' : f ≤ g') :
    Acyclic ((w.applyModifiers g c).applyModifiers g' c) ∧ Closed ((w.applyModifiers g c).applyModifiers g' c) := by
  obtain ⟨h1, h2⟩ := applyModifiers_twice_certified ht hf hc ha hs g g' hg hg'
  exact ⟨h2, h1⟩

open Qco.Defined Qco.DefinedUnroll in
/-- **every time of an unrolled circuit is defined** with the driver's fuel, and uniquely so: start, duration and
    end (= start + duration) of every object of the heap after `apply_modifiers`. -/
theorem unrolled_times_defined {w : World} {f c : Nat} (ht : TreeBelow w f c)
    (hc : Closed w) (ha : Acyclic w) (hs : SingleUnder w f c) (o : Nat) :
    ∃ s d, evStart (w.applyModifiers w.depthFuel c) (w.applyModifiers w.depthFuel c).fuel o = some s ∧
      evDur (w.applyModifiers w.depthFuel c) (w.applyModifiers w.depthFuel c).fuel o = some d ∧
      evEnd (w.applyModifiers w.depthFuel c) (w.applyModifiers w.depthFuel c).fuel o = some (s + d) ∧
      ∀ s', Start (w.applyModifiers w.depthFuel c) o s' → s' = s := by
  obtain ⟨ha', hc'⟩ := applyModifiers_preserves_acyclic ht hc ha hs
  generalize w.applyModifiers w.depthFuel c = w' at ha' hc'
  obtain ⟨hs, he, hd⟩ := start_defined_of_acyclic ha' hc' o
  obtain ⟨s, hs⟩ := Option.isSome_iff_exists.mp hs
  obtain ⟨d, hd⟩ := Option.isSome_iff_exists.mp hd
  obtain ⟨e, he⟩ := Option.isSome_iff_exists.mp he
  obtain ⟨s', d', hs', hd', rfl⟩ := end_eq_start_add_duration ⟨_, he⟩
  have e1 : s' = s := start_well_defined hs' ⟨_, hs⟩
  have e2 : d' = d := DurV.unique hd' ⟨_, hd⟩
  subst e1; subst e2
  exact ⟨s', d', hs, hd, he, fun s'' h'' => start_well_defined h'' ⟨_, hs⟩⟩

open Qco.Defined Qco.DefinedUnroll in
/-- non-vacuity: the example heap `exG` of Lemmas/TreeBuild.lean — `top` (count 1) ⊃ `mid` (count 2) = [measure,
    `inner` (count 3) = [Rx180]], built with `newCircuit / newOp / add / addSub` — meets every hypothesis (nesting
    depth 2 below `top`, 2 × (1 + 3) leaf operations after unrolling). -/
example : TreeBelow exG.1 4 exF.2 ∧ 4 ≤ exG.1.depthFuel ∧ Closed exG.1 ∧ Acyclic exG.1 ∧ SingleUnder exG.1 4 exF.2 ∧
    Certified exG.1 ∧ (exG.1.op exF.2).isComp = true ∧
    (exG.1.expand 4 exF.2).Perm [exM.sig, exX.sig, exX.sig, exX.sig, exM.sig, exX.sig, exX.sig, exX.sig] :=
  ⟨exG_tree.1, exG_tree.2.1, exG_certified.closed, exG_certified.acyclic, singleUnder_of_certified exG_certified 4 exF.2,
    exG_certified, exG_tree.2.2.1, exG_tree.2.2.2⟩

open Qco.Defined Qco.DefinedUnroll in
/-- … hence every time of the unrolled example is defined with the driver's fuel. -/
example (o : Nat) : (evStart (exG.1.applyModifiers exG.1.depthFuel exF.2)
    (exG.1.applyModifiers exG.1.depthFuel exF.2).fuel o).isSome = true := by
  obtain ⟨s, _, hs, _⟩ := unrolled_times_defined exG_tree.1 exG_certified.closed exG_certified.acyclic
    (singleUnder_of_certified exG_certified 4 exF.2) o
  rw [hs]; rfl

open Qco.Defined Qco.DefinedUnroll in
/-- non-vacuity of `applyModifiers_again_preserves_acyclic`: the unrolled example has all counts `fixed 1`. -/
example : TreeBelow (exG.1.applyModifiers exG.1.depthFuel exF.2) 4 exF.2 ∧
    AllOnes (exG.1.applyModifiers exG.1.depthFuel exF.2) 4 exF.2 ∧
    4 ≤ (exG.1.applyModifiers exG.1.depthFuel exF.2).depthFuel ∧
    Closed (exG.1.applyModifiers exG.1.depthFuel exF.2) ∧ Acyclic (exG.1.applyModifiers exG.1.depthFuel exF.2) := by
  have us := applyModifiers_tree 4 exG.1 exF.2 exG.1.depthFuel exG_tree.1 exG_tree.2.1 exG_tree.2.1
  obtain ⟨h1, h2⟩ := applyModifiers_preserves_acyclic exG_tree.1 exG_certified.closed
    exG_certified.acyclic (singleUnder_of_certified exG_certified 4 exF.2)
  refine ⟨us.tree, us.ones, ?_, h2, h1⟩
  have := us.size
  have := exG_tree.2.1
  unfold World.depthFuel at *
  omega

end Qco.C01
