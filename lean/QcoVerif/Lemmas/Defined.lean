import QcoVerif.Lemmas.C10Timing
import QcoVerif.Lemmas.Graph
/-
  C01, definedness: on a heap that carries an acyclicity certificate (`Ranked w rk`: a rank of the objects that
  strictly decreases along "link → reference" and "composite → node of its graph") the specification evaluator
  `evStart / evEnd / evDur / evLeadSpan / evInterval` (Model/Timing.lean) answers `some _` as soon as the fuel is
  at least `4 * (B + 1)`, `B` a bound of the ranks.  A closed heap (every reference / node is an existing object)
  can always be re-ranked with ranks `≤ ops.size`, so that the driver's `World.fuel` suffices.

  The measure: a query about an object of rank `k` needs fuel
      leadSpan 4k+1,  dur 4k+2,  ref (of its link) 4k+1,  start 4k+3,  end 4k+4,  interval 4k+4.
-/
namespace Qco.Defined

open Qco Qco.C10

/-- the acyclicity certificate: `rk` strictly decreases from an object to every reference of its link, and from a
    composite to every node of its graph. -/
structure Ranked (w : World) (rk : Nat → Nat) : Prop where
  ref : ∀ o r, r ∈ (w.lnk (w.op o).link).refs → rk r < rk o
  node : ∀ o, (w.op o).isComp = true → ∀ e ∈ (w.op o).graph, rk e.node < rk o

/-- a heap is acyclic when some ranking exists. -/
def Acyclic (w : World) : Prop := ∃ rk, Ranked w rk

/-- well-formedness: every reference and every graph node is an existing object, every link field names an
    existing link (the default link `0` for the ids beyond the heap). -/
structure Closed (w : World) : Prop where
  ref : ∀ o r, r ∈ (w.lnk (w.op o).link).refs → r < w.ops.size
  node : ∀ o, ∀ e ∈ (w.op o).graph, e.node < w.ops.size
  link : ∀ o, (w.op o).link < w.links.size

/-! ### `mapM` is defined when every element is -/

theorem mapM_isSome {α β} (f : α → Option β) (l : List α) (h : ∀ x ∈ l, (f x).isSome = true) :
    (l.mapM f).isSome = true := by
  induction l with
  | nil => simp
  | cons x xs ih =>
    rw [List.mapM_cons]
    have hx := h x List.mem_cons_self
    have hxs := ih (fun y hy => h y (List.mem_cons_of_mem _ hy))
    obtain ⟨y, hy⟩ := Option.isSome_iff_exists.mp hx
    obtain ⟨ys, hys⟩ := Option.isSome_iff_exists.mp hxs
    rw [hy, hys]; rfl

/-! ### one evaluation step, query by query -/

theorem leadSpan_step (w : World) (f o : Nat)
    (h : (w.op o).isComp = true → ∀ n ∈ listing (w.op o).graph,
      (evStart w f n).isSome = true ∧ (evInterval w f n).isSome = true) :
    (evLeadSpan w (f+1) o).isSome = true := by
  rw [evLeadSpan.eq_2]
  by_cases hc : (w.op o).isComp = true
  · rw [if_pos hc]
    by_cases he : (w.op o).graph.isEmpty = true
    · rw [if_pos he]; rfl
    · rw [if_neg he]
      have h1 : ((heads (w.op o).graph).mapM (fun n => evStart w f n)).isSome = true :=
        mapM_isSome _ _ (fun n hn => (h hc n (heads_subset_listing hn)).1)
      have h2 : ((listing (w.op o).graph).mapM (fun n => evInterval w f n)).isSome = true :=
        mapM_isSome _ _ (fun n hn => (h hc n hn).2)
      obtain ⟨hs, e1⟩ := Option.isSome_iff_exists.mp h1
      obtain ⟨ivs, e2⟩ := Option.isSome_iff_exists.mp h2
      rw [e1, e2]; rfl
  · rw [if_neg hc]; rfl

theorem dur_step (w : World) (f o : Nat) (h : (evLeadSpan w f o).isSome = true) :
    (evDur w (f+1) o).isSome = true := by
  rw [evDur.eq_2]
  obtain ⟨v, hv⟩ := Option.isSome_iff_exists.mp h
  rw [hv]; rfl

theorem interval_step (w : World) (f o : Nat) (hs : (evStart w f o).isSome = true)
    (hl : (evLeadSpan w f o).isSome = true) : (evInterval w (f+1) o).isSome = true := by
  rw [evInterval.eq_2]
  obtain ⟨s, e1⟩ := Option.isSome_iff_exists.mp hs
  obtain ⟨v, e2⟩ := Option.isSome_iff_exists.mp hl
  rw [e1, e2]; rfl

theorem end_step (w : World) (f o : Nat) (hs : (evStart w f o).isSome = true)
    (hd : (evDur w f o).isSome = true) : (evEnd w (f+1) o).isSome = true := by
  rw [evEnd.eq_2]
  obtain ⟨s, e1⟩ := Option.isSome_iff_exists.mp hs
  obtain ⟨v, e2⟩ := Option.isSome_iff_exists.mp hd
  rw [e1, e2]; rfl

theorem pickLatest_mem (best : Nat × Int) (xs : List (Nat × Int)) :
    pickLatest best xs = best ∨ pickLatest best xs ∈ xs := by
  unfold pickLatest
  induction xs generalizing best with
  | nil => simp
  | cons x xs ih =>
    simp only [List.foldl_cons, List.mem_cons]
    by_cases hx : x.2 > best.2
    · simp only [hx, if_true]
      rcases ih x with h | h
      · exact Or.inr (Or.inl h)
      · exact Or.inr (Or.inr h)
    · simp only [hx, if_false]
      rcases ih best with h | h
      · exact Or.inl h
      · exact Or.inr (Or.inr h)

/-- the reference of a link is defined once the ends of all its references are, and it is one of them. -/
theorem ref_step (w : World) (f l : Nat) (h : ∀ r ∈ (w.lnk l).refs, (evEnd w f r).isSome = true) :
    ∃ v, evRef w (f+1) l = some v ∧ ∀ r, v = some r → r ∈ (w.lnk l).refs := by
  rw [evRef.eq_2]
  by_cases hm : (!(w.lnk l).multi) = true
  · rw [if_pos hm]
    refine ⟨_, rfl, ?_⟩
    intro r hr
    exact List.mem_of_mem_head? (Option.mem_def.mpr hr)
  · rw [if_neg hm]
    cases hr : (w.lnk l).refs with
    | nil => exact ⟨none, rfl, fun r hr => by cases hr⟩
    | cons r0 rs =>
      simp only
      rw [hr] at h
      have h1 : ((r0 :: rs).mapM (fun r => (evEnd w f r).map (fun e => (r, e)))).isSome = true := by
        apply mapM_isSome
        intro r hrm
        obtain ⟨e, he⟩ := Option.isSome_iff_exists.mp (h r hrm)
        rw [he]; rfl
      obtain ⟨es, hes⟩ := Option.isSome_iff_exists.mp h1
      obtain ⟨e0, he0⟩ := Option.isSome_iff_exists.mp (h r0 List.mem_cons_self)
      rw [hes, he0]
      refine ⟨_, rfl, ?_⟩
      intro r hrr
      simp only [Option.some.injEq] at hrr
      subst hrr
      rcases pickLatest_mem (r0, e0) es with hp | hp
      · rw [hp]; exact List.mem_cons_self
      · obtain ⟨x, hx, hfx⟩ := mapM_mem_right _ _ es hes _ hp
        cases hx' : evEnd w f x with
        | none => rw [hx'] at hfx; cases hfx
        | some e =>
          rw [hx'] at hfx
          simp only [Option.map_some, Option.some.injEq] at hfx
          rw [← hfx]; exact hx

theorem start_step (w : World) (f o : Nat) (hd : (evDur w f o).isSome = true)
    {v : Option Nat} (hr : evRef w f (w.op o).link = some v)
    (hv : ∀ r, v = some r → (evStart w f r).isSome = true ∧ (evEnd w f r).isSome = true) :
    (evStart w (f+1) o).isSome = true := by
  rw [evStart_succ]
  obtain ⟨d, e1⟩ := Option.isSome_iff_exists.mp hd
  rw [e1, hr]
  cases v with
  | none => rfl
  | some r =>
    obtain ⟨h1, h2⟩ := hv r rfl
    obtain ⟨s, e2⟩ := Option.isSome_iff_exists.mp h1
    obtain ⟨e, e3⟩ := Option.isSome_iff_exists.mp h2
    simp only [Option.bind_some, e2, e3]
    rfl

/-! ### monotonicity of definedness in the fuel -/

theorem isSome_mono {α} {a b : Option α} (h : ∀ v, a = some v → b = some v) (ha : a.isSome = true) :
    b.isSome = true := by
  obtain ⟨v, hv⟩ := Option.isSome_iff_exists.mp ha
  rw [h v hv]; rfl

/-- all five object queries are defined with fuel `f`. -/
structure AllDef (w : World) (f o : Nat) : Prop where
  leadSpan : (evLeadSpan w f o).isSome = true
  interval : (evInterval w f o).isSome = true
  dur : (evDur w f o).isSome = true
  start : (evStart w f o).isSome = true
  fin : (evEnd w f o).isSome = true

theorem AllDef.mono {w : World} {f f' o : Nat} (h : AllDef w f o) (hle : f ≤ f') : AllDef w f' o := by
  obtain ⟨m1, m2, m3, m4, m5, _⟩ := ev_mono_le w hle
  exact ⟨isSome_mono (m1 o) h.leadSpan, isSome_mono (m2 o) h.interval, isSome_mono (m3 o) h.dur,
    isSome_mono (m4 o) h.start, isSome_mono (m5 o) h.fin⟩

/-- **one rank level**: if everything `o` depends on directly is defined with fuel `F`, then `o` is defined
    with fuel `F + 4`. -/
theorem allDef_step (w : World) (F o : Nat)
    (hrefs : ∀ r ∈ (w.lnk (w.op o).link).refs, AllDef w F r)
    (hnodes : (w.op o).isComp = true → ∀ e ∈ (w.op o).graph, AllDef w F e.node) :
    AllDef w (F + 4) o := by
  have hLS1 : (evLeadSpan w (F+1) o).isSome = true := by
    apply leadSpan_step
    intro hc n hn
    obtain ⟨e, he, rfl⟩ := mem_listing.mp hn
    exact ⟨(hnodes hc e he).start, (hnodes hc e he).interval⟩
  obtain ⟨l1, _, _, _, _, l6⟩ := ev_mono_le w (Nat.le_succ (F+1))
  obtain ⟨k1, _, k3, _, _, _⟩ := ev_mono_le w (show F + 1 ≤ F + 3 by omega)
  have hLS3 : (evLeadSpan w (F+3) o).isSome = true := isSome_mono (k1 o) hLS1
  have hD2 : (evDur w (F+2) o).isSome = true := dur_step w (F+1) o hLS1
  obtain ⟨v, hv, hmem⟩ := ref_step w F (w.op o).link (fun r hr => (hrefs r hr).fin)
  have hv2 : evRef w (F+2) (w.op o).link = some v := l6 _ _ hv
  have hS3 : (evStart w (F+3) o).isSome = true := by
    apply start_step w (F+2) o hD2 hv2
    intro r hr
    have := (hrefs r (hmem r hr)).mono (show F ≤ F + 2 by omega)
    exact ⟨this.start, this.fin⟩
  obtain ⟨_, _, j3, j4, _, _⟩ := ev_mono_le w (Nat.le_succ (F+2))
  obtain ⟨_, _, i3, i4, _, _⟩ := ev_mono_le w (Nat.le_succ (F+3))
  have hD3 : (evDur w (F+3) o).isSome = true := isSome_mono (j3 o) hD2
  exact ⟨isSome_mono ((ev_mono_le w (Nat.le_succ (F+3))).1 o) hLS3,
    interval_step w (F+3) o hS3 hLS3,
    isSome_mono (i3 o) hD3, isSome_mono (i4 o) hS3, end_step w (F+3) o hS3 hD3⟩

/-- everything of rank below `k` is defined with fuel `4 * k`. -/
theorem allDef_of_rank {w : World} {rk : Nat → Nat} (h : Ranked w rk) :
    ∀ k o, rk o < k → AllDef w (4 * k) o := by
  intro k
  induction k with
  | zero => intro o ho; omega
  | succ k ih =>
    intro o ho
    have := allDef_step w (4 * k) o
      (fun r hr => ih r (by have := h.ref o r hr; omega))
      (fun hc e he => ih e.node (by have := h.node o hc e he; omega))
    exact this.mono (by omega)

/-- **definedness on a ranked heap**: with ranks bounded by `B`, fuel `4 * B + 4` suffices for every object. -/
theorem allDef_of_ranked {w : World} {rk : Nat → Nat} (h : Ranked w rk) {B : Nat} (hB : ∀ o, rk o ≤ B) :
    ∀ o f, 4 * B + 4 ≤ f → AllDef w f o := by
  intro o f hf
  have := allDef_of_rank h (B + 1) o (by have := hB o; omega)
  exact this.mono (by omega)

/-! ### compressing the ranks of a closed heap to `≤ ops.size` -/

theorem countP_lt_of_witness {α} (p q : α → Bool) (l : List α) (hpq : ∀ x, p x = true → q x = true)
    {y : α} (hy : y ∈ l) (hqy : q y = true) (hpy : p y = false) : l.countP p < l.countP q := by
  induction l with
  | nil => cases hy
  | cons a as ih =>
    have hle : as.countP p ≤ as.countP q := List.countP_mono_left (fun x _ => hpq x)
    rw [List.countP_cons, List.countP_cons]
    rcases List.mem_cons.mp hy with rfl | hy'
    · rw [if_pos hqy, if_neg (by rw [hpy]; simp)]; omega
    · have := ih hy'
      by_cases hpa : p a = true
      · rw [if_pos hpa, if_pos (hpq a hpa)]; omega
      · rw [if_neg hpa]
        by_cases hqa : q a = true
        · rw [if_pos hqa]; omega
        · rw [if_neg hqa]; omega

/-- the compressed rank: how many existing objects have a smaller rank. -/
def crank (w : World) (rk : Nat → Nat) (o : Nat) : Nat :=
  (List.range w.ops.size).countP (fun x => decide (rk x < rk o))

theorem crank_le (w : World) (rk : Nat → Nat) (o : Nat) : crank w rk o ≤ w.ops.size := by
  unfold crank
  have := List.countP_le_length (p := fun x => decide (rk x < rk o)) (l := List.range w.ops.size)
  simpa using this

theorem crank_lt {w : World} {rk : Nat → Nat} {x y : Nat} (hy : y < w.ops.size) (h : rk y < rk x) :
    crank w rk y < crank w rk x := by
  unfold crank
  apply countP_lt_of_witness _ _ _ _ (List.mem_range.mpr hy)
  · simpa using h
  · simp
  · intro z hz
    simp only [decide_eq_true_eq] at hz ⊢
    omega

/-- a closed ranked heap has a ranking with ranks `≤ ops.size`. -/
theorem Ranked.compress {w : World} {rk : Nat → Nat} (h : Ranked w rk) (hc : Closed w) :
    Ranked w (crank w rk) ∧ ∀ o, crank w rk o ≤ w.ops.size :=
  ⟨⟨fun o r hr => crank_lt (hc.ref o r hr) (h.ref o r hr),
    fun o hco e he => crank_lt (hc.node o e he) (h.node o hco e he)⟩, crank_le w rk⟩

theorem fuel_ge (w : World) : 4 * w.ops.size + 4 ≤ w.fuel := by
  unfold World.fuel; omega

/-- **definedness with the driver's fuel** on a closed acyclic heap. -/
theorem allDef_fuel {w : World} (h : Acyclic w) (hc : Closed w) : ∀ o f, w.fuel ≤ f → AllDef w f o := by
  obtain ⟨rk, hrk⟩ := h
  obtain ⟨h1, h2⟩ := hrk.compress hc
  intro o f hf
  exact allDef_of_ranked h1 h2 o f (by have := fuel_ge w; omega)

/-! ### without the certificate definedness fails: two objects whose links refer to each other -/

/-- `a = Rx180(0)`, `b = Wait(0)`, the link of `a` refers to `b` and the link of `b` refers to `a`. -/
def cycWorld : World :=
  { ops := #[{ cls := .rx180, qs := [0], dur := .glob .mw, link := 1 },
             { cls := .wait, qs := [0], dur := .fixed 16, link := 2 }],
    links := #[{}, { refs := [1] }, { refs := [0] }] }

theorem cyc_ref (f : Nat) (l r : Nat) (v : Option Nat) (hl : (cycWorld.lnk l).multi = false)
    (hr : (cycWorld.lnk l).refs.head? = some r) (h : evRef cycWorld f l = some v) : v = some r := by
  cases f with
  | zero => rw [evRef.eq_1] at h; cases h
  | succ f =>
    rw [evRef.eq_2] at h
    simp only [hl, Bool.not_false, if_true, Option.some.injEq] at h
    rw [← h, hr]

theorem cyc_start_step (f o r : Nat) (hl : (cycWorld.lnk (cycWorld.op o).link).multi = false)
    (hr : (cycWorld.lnk (cycWorld.op o).link).refs.head? = some r) (ih : evStart cycWorld f r = none) :
    evStart cycWorld (f+1) o = none := by
  rw [evStart_succ]
  cases hd : evDur cycWorld f o with
  | none => rfl
  | some d =>
    cases hv : evRef cycWorld f (cycWorld.op o).link with
    | none => rfl
    | some v =>
      have := cyc_ref f _ r v hl hr hv
      subst this
      simp only [Option.bind_some, ih, Option.bind_none]

/-- on the cyclic two-object heap no amount of fuel defines a start time. -/
theorem cyc_undefined : ∀ f, evStart cycWorld f 0 = none ∧ evStart cycWorld f 1 = none := by
  intro f
  induction f with
  | zero => exact ⟨by rw [evStart.eq_1], by rw [evStart.eq_1]⟩
  | succ f ih =>
    exact ⟨cyc_start_step f 0 1 (by decide) (by decide) ih.2, cyc_start_step f 1 0 (by decide) (by decide) ih.1⟩

/-- … and indeed it carries no certificate. -/
theorem cyc_not_acyclic : ¬ Acyclic cycWorld := by
  rintro ⟨rk, h⟩
  have h1 := h.ref 0 1 (by decide)
  have h2 := h.ref 1 0 (by decide)
  omega

/-! ### checking the certificate of a literal heap by evaluation -/

theorem op_of_ge (w : World) {o : Nat} (h : w.ops.size ≤ o) : w.op o = default := by
  unfold World.op
  simp [Array.getD, Nat.not_lt.mpr h]

/-- Boolean check of `Ranked w (fun o => rk.getD o 0)`: the ids `0 … ops.size` (the last one stands for every id
    beyond the heap: the default object, rank `0`). -/
def rankedCheck (w : World) (rk : List Nat) : Bool :=
  (List.range (w.ops.size + 1)).all fun o =>
    ((w.lnk (w.op o).link).refs.all fun r => decide (rk.getD r 0 < rk.getD o 0)) &&
    (!(w.op o).isComp || (w.op o).graph.all fun e => decide (rk.getD e.node 0 < rk.getD o 0))

theorem ranked_of_check (w : World) (rk : List Nat) (hlen : rk.length ≤ w.ops.size)
    (h : rankedCheck w rk = true) : Ranked w (fun o => rk.getD o 0) := by
  unfold rankedCheck at h
  rw [List.all_eq_true] at h
  have key : ∀ o, ∃ o', o' < w.ops.size + 1 ∧ w.op o = w.op o' ∧ rk.getD o 0 = rk.getD o' 0 := by
    intro o
    by_cases ho : o < w.ops.size + 1
    · exact ⟨o, ho, rfl, rfl⟩
    · refine ⟨w.ops.size, by omega, ?_, ?_⟩
      · rw [op_of_ge w (by omega : w.ops.size ≤ o), op_of_ge w (Nat.le_refl _)]
      · have hz : ∀ i, rk.length ≤ i → rk.getD i 0 = 0 := by
          intro i hi; simp [List.getD_eq_getElem?_getD, List.getElem?_eq_none hi]
        rw [hz o (by omega), hz w.ops.size hlen]
  constructor
  · intro o r hr
    obtain ⟨o', ho', e1, e2⟩ := key o
    have := h o' (List.mem_range.mpr ho')
    simp only [Bool.and_eq_true, List.all_eq_true, decide_eq_true_eq] at this
    show rk.getD r 0 < rk.getD o 0
    rw [e2]
    rw [e1] at hr
    exact this.1 r hr
  · intro o hc e he
    obtain ⟨o', ho', e1, e2⟩ := key o
    have := h o' (List.mem_range.mpr ho')
    simp only [Bool.and_eq_true, List.all_eq_true, decide_eq_true_eq, Bool.or_eq_true,
      Bool.not_eq_true'] at this
    show rk.getD e.node 0 < rk.getD o 0
    rw [e2]
    rw [e1] at hc he
    rcases this.2 with h0 | h0
    · rw [hc] at h0; cases h0
    · exact h0 e he

/-- Boolean check of `Closed w`. -/
def closedCheck (w : World) : Bool :=
  (List.range (w.ops.size + 1)).all fun o =>
    ((w.lnk (w.op o).link).refs.all fun r => decide (r < w.ops.size)) &&
    ((w.op o).graph.all fun e => decide (e.node < w.ops.size)) &&
    decide ((w.op o).link < w.links.size)

theorem closed_of_check (w : World) (h : closedCheck w = true) : Closed w := by
  unfold closedCheck at h
  rw [List.all_eq_true] at h
  have key : ∀ o, ∃ o', o' < w.ops.size + 1 ∧ w.op o = w.op o' := by
    intro o
    by_cases ho : o < w.ops.size + 1
    · exact ⟨o, ho, rfl⟩
    · exact ⟨w.ops.size, by omega, by
        rw [op_of_ge w (by omega : w.ops.size ≤ o), op_of_ge w (Nat.le_refl _)]⟩
  refine ⟨fun o r hr => ?_, fun o e he => ?_, fun o => ?_⟩ <;>
    obtain ⟨o', ho', e1⟩ := key o <;>
    have := h o' (List.mem_range.mpr ho') <;>
    simp only [Bool.and_eq_true, List.all_eq_true, decide_eq_true_eq] at this
  · rw [e1] at hr; exact this.1.1 r hr
  · rw [e1] at he; exact this.1.2 e he
  · rw [e1]; exact this.2

end Qco.Defined

