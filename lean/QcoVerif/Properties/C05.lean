import QcoVerif.Model.Builder
namespace Qco.C05
end Qco.C05
